(* Model of the operator lowering of src/compiler/compiler.go (VisitUnaryExpr 858-937, VisitBinaryExpr
   939-1596, TER_BETWEEN 1697-1719, VisitCastExpr 1797-1867, numericCast in ir_helper.go 32-86,
   compare_values in helper.go 240) for the scalar types: WHICH LLVM operation on i64 / i8 / i1 / i32 /
   double is emitted per operator and operand types.  Machine values are unsigned representatives; the LLVM
   operations are given their LangRef meaning (wrap-around, signed/unsigned interpretation, poison).

   Results: [LOk v] the emitted code computes v; [LPoison] LLVM poison / undefined (shift count >= width,
   fptosi/fptoui out of range, srem/urem by zero or overflow); [LReject] / [LCrash] the emitted IR is ill-typed /
   the compiler aborts (no cell of the current tree: the mixed Zahl/Byte cells and Byte negation that were
   rejected at the pinned commit are repaired by 187c813, b3828c8, 56bfc1a, 229b26f and modelled as repaired);
   [LNone] not a scalar operator (runtime call).

   (llir prints integer constants without a type, so a mixed-width instruction whose wide operand is a LITERAL, e.g.
   `shl i8 %x, 3`, is accepted by LLVM and computes the right value; the check records these runs as
   reject_predicted_but_ran.)
   The model mirrors the code that EXISTS.  History: at the pinned commit Byte durch Kommazahl converted the Byte
   with sitofp (refuted by 200 als Byte durch 2,0 = -28; repaired by 43c2135, model re-synchronised). *)
From Coq Require Import ZArith Bool.
From DDP Require Import Lang.Syntax Lang.F64.
Open Scope Z_scope.

Inductive mval : Type :=
| MI64 (z : Z)     (* 0 <= z < 2^64 *)
| MI8 (z : Z)      (* 0 <= z < 2^8 *)
| MI1 (b : bool)
| MI32 (z : Z)     (* 0 <= z < 2^32 *)
| MF64 (bits : Z).

Inductive lres : Type := LOk (v : mval) | LRtErr (* call of ddp_runtime_error: Laufzeitfehler *) | LPoison | LReject | LCrash | LNone.

Definition m64 : Z := 2^64.
Definition signed64 (a : Z) : Z := if a <? 2^63 then a else a - 2^64.
Definition signed32 (a : Z) : Z := if a <? 2^31 then a else a - 2^32.
Definition signed8 (a : Z) : Z := if a <? 128 then a else a - 256.

(* ---- LLVM instructions ---------------------------------------------------------------------- *)
Definition add64 a b := (a + b) mod m64.
Definition sub64 a b := (a - b) mod m64.
Definition mul64 a b := (a * b) mod m64.
Definition add8 a b := (a + b) mod 256.
Definition sub8 a b := (a - b) mod 256.
Definition mul8 a b := (a * b) mod 256.
Definition zext8_64 (a : Z) : Z := a.
Definition zext8_32 (a : Z) : Z := a.
Definition sext32_64 (a : Z) : Z := (signed32 a) mod m64.
Definition trunc64_8 (a : Z) : Z := a mod 256.
Definition trunc64_32 (a : Z) : Z := a mod 2^32.
Definition trunc32_8 (a : Z) : Z := a mod 256.
Definition sitofp64 (a : Z) : Z := f_of_Z (signed64 a).
Definition sitofp8 (a : Z) : Z := f_of_Z (signed8 a).
Definition uitofp8 (a : Z) : Z := f_of_Z a.
(* llvm.fptosi.sat.i64.f64 / llvm.fptoui.sat.i8.f64 (70f7a29): saturating, NaN gives 0 *)
Definition fptosi_sat64 (x : Z) : Z := (f_to_Z_sat (- 2^63) (2^63 - 1) x) mod m64.
Definition fptoui_sat8 (x : Z) : Z := f_to_Z_sat 0 255 x.
Definition shl64 (a n : Z) : option Z := if n <? 64 then Some ((a * 2 ^ n) mod m64) else None.
Definition lshr64 (a n : Z) : option Z := if n <? 64 then Some (a / 2 ^ n) else None.
Definition shl8 (a n : Z) : option Z := if n <? 8 then Some ((a * 2 ^ n) mod 256) else None.
Definition lshr8 (a n : Z) : option Z := if n <? 8 then Some (a / 2 ^ n) else None.
Definition srem64 (a b : Z) : option Z :=
  if b =? 0 then None
  else if (signed64 a =? - 2^63) && (signed64 b =? -1) then None
  else Some ((Z.rem (signed64 a) (signed64 b)) mod m64).
Definition urem8 (a b : Z) : option Z := if b =? 0 then None else Some (a mod b).

Inductive ipred := IEq | ISlt | ISle | ISgt | ISge | IUlt | IUle | IUgt | IUge.
Definition icmp64 (p : ipred) (a b : Z) : bool :=
  match p with
  | IEq => a =? b
  | ISlt => signed64 a <? signed64 b | ISle => signed64 a <=? signed64 b
  | ISgt => signed64 a >? signed64 b | ISge => signed64 a >=? signed64 b
  | IUlt => a <? b | IUle => a <=? b | IUgt => a >? b | IUge => a >=? b
  end.
(* on i8 only the unsigned predicates and eq are emitted *)
Definition icmp8 (p : ipred) (a b : Z) : bool :=
  match p with
  | IEq => a =? b
  | IUlt | ISlt => a <? b | IUle | ISle => a <=? b | IUgt | ISgt => a >? b | IUge | ISge => a >=? b
  end.
Inductive fpred := FOeq | FOlt | FOle | FOgt | FOge.
Definition fcmp (p : fpred) (a b : Z) : bool :=
  match p with FOeq => f_eq a b | FOlt => f_lt a b | FOle => f_le a b | FOgt => f_gt a b | FOge => f_ge a b end.

Definition of_opt (f : Z -> mval) (o : option Z) : lres := match o with Some z => LOk (f z) | None => LPoison end.

(* ---- helpers of ir_helper.go -------------------------------------------------------------------- *)
(* floatOrByteAsInt / intOrByteAsFloat / intOrFloatAsByte *)
Definition as_int (v : mval) : lres :=
  match v with
  | MI64 a => LOk (MI64 a)
  | MF64 x => LOk (MI64 (fptosi_sat64 x))
  | MI8 a => LOk (MI64 (zext8_64 a))
  | _ => LNone
  end.
Definition as_float (v : mval) : lres :=
  match v with
  | MI64 a => LOk (MF64 (sitofp64 a))
  | MF64 x => LOk (MF64 x)
  | MI8 a => LOk (MF64 (uitofp8 a))
  | _ => LNone
  end.
Definition as_byte (v : mval) : lres :=
  match v with
  | MI64 a => LOk (MI8 (trunc64_8 a))
  | MF64 x => LOk (MI8 (fptoui_sat8 x))
  | MI8 a => LOk (MI8 a)
  | _ => LNone
  end.

(* ---- the per-operator switches ------------------------------------------------------------------ *)
Section WithLibm.
Variable pow : Z -> Z -> Z.
Variable log10 : Z -> Z.

(* PLUS / MINUS / MAL: compiler.go 1101-1244 *)
Definition lower_arith (i64op i8op fop : Z -> Z -> Z) (a b : mval) : lres :=
  match a, b with
  | MI64 x, MI64 y => LOk (MI64 (i64op x y))
  | MI64 x, MF64 y => LOk (MF64 (fop (sitofp64 x) y))
  | MI64 x, MI8 y => LOk (MI64 (i64op x (zext8_64 y)))
  | MF64 x, MI64 y => LOk (MF64 (fop x (sitofp64 y)))
  | MF64 x, MF64 y => LOk (MF64 (fop x y))
  | MF64 x, MI8 y => LOk (MF64 (fop x (uitofp8 y)))
  | MI8 x, MI64 y => LOk (MI64 (i64op (zext8_64 x) y))
  | MI8 x, MF64 y => LOk (MF64 (fop (uitofp8 x) y))
  | MI8 x, MI8 y => LOk (MI8 (i8op x y))
  | _, _ => LNone
  end.

(* DURCH: compiler.go 1245-1295 *)
Definition lower_div (a b : mval) : lres :=
  match a, b with
  | MI64 x, MI64 y => LOk (MF64 (f_div (sitofp64 x) (sitofp64 y)))
  | MI64 x, MF64 y => LOk (MF64 (f_div (sitofp64 x) y))
  | MI64 x, MI8 y => LOk (MF64 (f_div (sitofp64 x) (uitofp8 y)))
  | MF64 x, MI64 y => LOk (MF64 (f_div x (sitofp64 y)))
  | MF64 x, MF64 y => LOk (MF64 (f_div x y))
  | MF64 x, MI8 y => LOk (MF64 (f_div x (uitofp8 y)))
  | MI8 x, MI64 y => LOk (MF64 (f_div (uitofp8 x) (sitofp64 y)))
  | MI8 x, MF64 y => LOk (MF64 (f_div (uitofp8 x) y))      (* uitofp since 43c2135 (was sitofp: 200/2,0 = -28) *)
  | MI8 x, MI8 y => LOk (MF64 (f_div (uitofp8 x) (uitofp8 y)))
  | _, _ => LNone
  end.

(* HOCH / LOGARITHMUS: 1365-1408 *)
Definition lower_fcall (f : Z -> Z -> Z) (a b : mval) : lres :=
  match as_float a, as_float b with
  | LOk (MF64 x), LOk (MF64 y) => LOk (MF64 (f x y))
  | _, _ => LNone
  end.

(* LOGISCH UND/ODER/KONTRA: two Bytes stay a Byte, otherwise a Byte operand is zero-extended (56bfc1a) *)
Definition lower_bit (f : Z -> Z -> Z) (a b : mval) : lres :=
  match a, b with
  | MI64 x, MI64 y => LOk (MI64 (f x y))
  | MI8 x, MI8 y => LOk (MI8 (f x y))
  | MI64 x, MI8 y => LOk (MI64 (f x (zext8_64 y)))
  | MI8 x, MI64 y => LOk (MI64 (f (zext8_64 x) y))
  | _, _ => LNone
  end.

(* MODULO (78c0539): explicit zero test -> Laufzeitfehler; Byte/Byte urem; otherwise srem with the divisor -1
   replaced by 1 (select), so the instruction never overflows *)
Definition lower_mod (a b : mval) : lres :=
  let srem x y := if y =? 0 then LRtErr
                  else of_opt MI64 (srem64 x (if y =? m64 - 1 then 1 else y)) in
  match a, b with
  | MI8 x, MI8 y => if y =? 0 then LRtErr else of_opt MI8 (urem8 x y)
  | MI64 x, MI64 y => srem x y
  | MI64 x, MI8 y => srem x (zext8_64 y)
  | MI8 x, MI64 y => srem (zext8_64 x) y
  | _, _ => LNone
  end.

(* LINKS / RECHTS VERSCHOBEN (229b26f, c5f1978): the count is cast to the type of the shifted value;
   select(icmp ult count, width; shl/lshr x count; 0) *)
Definition sel_shift64 (left : bool) (x n : Z) : Z :=
  if n <? 64 then (if left then (x * 2 ^ n) mod m64 else x / 2 ^ n) else 0.
Definition sel_shift8 (left : bool) (x n : Z) : Z :=
  if n <? 8 then (if left then (x * 2 ^ n) mod 256 else x / 2 ^ n) else 0.
Definition lower_shift (left : bool) (a b : mval) : lres :=
  match a, b with
  | MI64 x, MI64 n => LOk (MI64 (sel_shift64 left x n))
  | MI8 x, MI8 n => LOk (MI8 (sel_shift8 left x n))
  | MI64 x, MI8 n => LOk (MI64 (sel_shift64 left x (zext8_64 n)))
  | MI8 x, MI64 n => LOk (MI8 (sel_shift8 left x (trunc64_8 n)))
  | _, _ => LNone
  end.

(* KLEINER ...: 1438-1593 *)
Definition lower_cmp (sp up : ipred) (fp : fpred) (a b : mval) : lres :=
  match a, b with
  | MI64 x, MI64 y => LOk (MI1 (icmp64 sp x y))
  | MI64 x, MI8 y => LOk (MI1 (icmp64 sp x (zext8_64 y)))
  | MI64 x, MF64 y => LOk (MI1 (fcmp fp (sitofp64 x) y))
  | MF64 x, MI64 y => LOk (MI1 (fcmp fp x (sitofp64 y)))
  | MF64 x, MF64 y => LOk (MI1 (fcmp fp x y))
  | MF64 x, MI8 y => LOk (MI1 (fcmp fp x (uitofp8 y)))
  | MI8 x, MI64 y => LOk (MI1 (icmp64 sp (zext8_64 x) y))
  | MI8 x, MF64 y => LOk (MI1 (fcmp fp (uitofp8 x) y))
  | MI8 x, MI8 y => LOk (MI1 (icmp8 up x y))
  | _, _ => LNone
  end.

(* compare_values (helper.go 240) for the scalar types *)
Definition lower_eq (a b : mval) : lres :=
  match a, b with
  | MI64 x, MI64 y | MI8 x, MI8 y | MI32 x, MI32 y => LOk (MI1 (x =? y))
  | MI1 x, MI1 y => LOk (MI1 (Bool.eqb x y))
  | MF64 x, MF64 y => LOk (MI1 (fcmp FOeq x y))
  | _, _ => LNone
  end.

Definition lower_bin (op : binop) (a b : mval) : lres :=
  match op with
  | BPlus => lower_arith add64 add8 f_add a b
  | BMinus => lower_arith sub64 sub8 f_sub a b
  | BMult => lower_arith mul64 mul8 f_mul a b
  | BDiv => lower_div a b
  | BPow => lower_fcall (fun x y => f_canon (pow x y)) a b
  | BLog => lower_fcall (fun x y => f_div (f_canon (log10 x)) (f_canon (log10 y))) a b
  | BLogicAnd => lower_bit Z.land a b
  | BLogicOr => lower_bit Z.lor a b
  | BLogicXor => lower_bit Z.lxor a b
  | BMod => lower_mod a b
  | BShl => lower_shift true a b
  | BShr => lower_shift false a b
  | BLt => lower_cmp ISlt IUlt FOlt a b
  | BLe => lower_cmp ISle IUle FOle a b
  | BGt => lower_cmp ISgt IUgt FOgt a b
  | BGe => lower_cmp ISge IUge FOge a b
  | BEq => lower_eq a b
  | BNe => match lower_eq a b with LOk (MI1 r) => LOk (MI1 (xorb r true)) | r => r end
  | BXor => match a, b with MI1 x, MI1 y => LOk (MI1 (xorb x y)) | _, _ => LNone end
  (* UND / ODER are control flow (phi of the two sides); on evaluated operands they compute: *)
  | BAnd => match a, b with MI1 x, MI1 y => LOk (MI1 (if x then y else x)) | _, _ => LNone end
  | BOr => match a, b with MI1 x, MI1 y => LOk (MI1 (if x then x else y)) | _, _ => LNone end
  | BConcat | BIndex | BSliceTo | BSliceFrom => LNone
  end.

(* VisitUnaryExpr *)
Definition lower_un (op : unop) (a : mval) : lres :=
  match op, a with
  | UAbs, MF64 x => LOk (MF64 (if fcmp FOlt x f_pos_zero then f_sub f_pos_zero x else x))
  | UAbs, MI64 x => LOk (MI64 (if icmp64 ISlt x 0 then sub64 0 x else x))
  | UAbs, MI8 x => LOk (MI64 (zext8_64 x))     (* b3828c8: widened, the result is a Zahl *)
  | UNeg, MF64 x => LOk (MF64 (f_neg x))
  | UNeg, MI64 x => LOk (MI64 (sub64 0 x))
  | UNeg, MI8 x => LOk (MI64 (sub64 0 (zext8_64 x)))   (* 187c813: sub 0, zext *)
  | UNot, MI1 b => LOk (MI1 (xorb b true))
  | ULogicNot, MI64 x => LOk (MI64 (Z.lxor x (m64 - 1)))
  | ULogicNot, MI8 x => LOk (MI8 (Z.lxor x 255))
  | _, _ => LNone
  end.

(* TER_BETWEEN: 1697-1719 *)
Definition is_f (v : mval) := match v with MF64 _ => true | _ => false end.
Definition is_b (v : mval) := match v with MI8 _ => true | _ => false end.
Definition lower_between (x a b : mval) : lres :=
  if is_f x || is_f b || is_f a then
    match as_float x, as_float a, as_float b with
    | LOk (MF64 fx), LOk (MF64 fa), LOk (MF64 fb) =>
        LOk (MI1 ((fcmp FOgt fx fb && fcmp FOlt fx fa) || (fcmp FOgt fx fa && fcmp FOlt fx fb)))
    | _, _, _ => LNone
    end
  else if is_b x && is_b b && is_b a then
    match x, a, b with
    | MI8 ix, MI8 ia, MI8 ib =>
        LOk (MI1 ((icmp8 IUgt ix ib && icmp8 IUlt ix ia) || (icmp8 IUgt ix ia && icmp8 IUlt ix ib)))
    | _, _, _ => LNone
    end
  else
    match as_int x, as_int a, as_int b with
    | LOk (MI64 ix), LOk (MI64 ia), LOk (MI64 ib) =>
        LOk (MI1 ((icmp64 ISgt ix ib && icmp64 ISlt ix ia) || (icmp64 ISgt ix ia && icmp64 ISlt ix ib)))
    | _, _, _ => LNone
    end.

(* VisitCastExpr for scalar targets (Text targets are runtime calls) *)
Definition lower_cast (t : ty) (a : mval) : lres :=
  match t, a with
  | TZahl, (MI64 _ | MF64 _ | MI8 _) => as_int a
  | TZahl, MI1 b => LOk (MI64 (if b then 1 else 0))
  | TZahl, MI32 c => LOk (MI64 (sext32_64 c))
  | TKomma, (MI64 _ | MF64 _ | MI8 _) => as_float a
  | TByte, (MI64 _ | MF64 _ | MI8 _) => as_byte a
  | TBool, MI64 x => LOk (MI1 (negb (x =? 0)))
  | TBool, MI8 x => LOk (MI1 (negb (x =? 0)))
  | TBool, MI1 b => LOk (MI1 b)
  | TChar, MI64 x => LOk (MI32 (trunc64_32 x))
  | TChar, MI8 x => LOk (MI32 (zext8_32 x))
  | TChar, MI32 c => LOk (MI32 c)
  | _, _ => LNone
  end.

End WithLibm.
