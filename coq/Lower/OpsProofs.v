(* op_lowering_correct: for every scalar operator, every admissible operand-type combination and ALL operand
   values, the LLVM operation the compiler emits computes the value RefSem prescribes - except in the listed
   cells, one of which (Byte durch Kommazahl) is refuted with a witness. *)
From Coq Require Import ZArith Znumtheory Zdiv Bool Lia List.
Import ListNotations.
From DDP Require Import Lang.Syntax Lang.F64 Lang.RefSem Lower.Ops.
Open Scope Z_scope.

Arguments wrap64 : simpl never.
Arguments wrap32 : simpl never.
Arguments wrap8 : simpl never.
Arguments min64 : simpl never.
Arguments max64 : simpl never.
Arguments Z.pow : simpl never.
Arguments Z.modulo : simpl never.
Arguments Z.div : simpl never.
Arguments Z.rem : simpl never.
Arguments Z.mul : simpl never.
Arguments Z.add : simpl never.
Arguments Z.sub : simpl never.
Arguments Z.opp : simpl never.
Arguments Z.land : simpl never.
Arguments Z.lor : simpl never.
Arguments Z.lxor : simpl never.
Arguments f_of_Z : simpl never.
Arguments f_add : simpl never.
Arguments f_sub : simpl never.
Arguments f_mul : simpl never.
Arguments f_div : simpl never.
Arguments f_neg : simpl never.
Arguments f_canon : simpl never.
Arguments f_trunc : simpl never.
Arguments f_eq : simpl never.
Arguments f_lt : simpl never.
Arguments f_le : simpl never.
Arguments f_gt : simpl never.
Arguments f_ge : simpl never.
Arguments f_pos_zero : simpl never.

(* well-formed scalar values and their machine representation *)
Definition wf (v : value) : Prop :=
  match v with
  | VZ z => min64 <= z <= max64
  | VB z => 0 <= z < 256
  | VC c => - 2^31 <= c < 2^31
  | VK b => f_canon b = b
  | VW _ => True
  | VT _ | VL _ _ => False
  end.

Definition repr (v : value) : mval :=
  match v with
  | VZ z => MI64 (z mod 2^64)
  | VB z => MI8 z
  | VW b => MI1 b
  | VC c => MI32 (c mod 2^32)
  | VK b => MF64 b
  | VT _ | VL _ _ => MI1 false
  end.

(* ---- arithmetic facts --------------------------------------------------------------------------- *)
Lemma wrap64_mod : forall z, (wrap64 z) mod 2^64 = z mod 2^64.
Proof.
  intros z. unfold wrap64.
  replace ((z + 2^63) mod 2^64 - 2^63) with ((z + 2^63) mod 2^64 + (- 2^63)) by lia.
  rewrite Zplus_mod_idemp_l. f_equal. lia.
Qed.

Lemma wrap32_mod : forall z, (wrap32 z) mod 2^32 = z mod 2^32.
Proof.
  intros z. unfold wrap32.
  replace ((z + 2^31) mod 2^32 - 2^31) with ((z + 2^31) mod 2^32 + (- 2^31)) by lia.
  rewrite Zplus_mod_idemp_l. f_equal. lia.
Qed.

Lemma signed64_mod : forall z, min64 <= z <= max64 -> signed64 (z mod 2^64) = z.
Proof.
  intros z H. unfold min64, max64 in H. unfold signed64.
  destruct (Z_lt_le_dec z 0).
  - assert (E : z mod 2^64 = z + 2^64).
    { symmetry. apply Z.mod_unique with (q := -1); lia. }
    rewrite E. destruct (z + 2^64 <? 2^63) eqn:C; [apply Z.ltb_lt in C; lia|lia].
  - rewrite Z.mod_small by lia. destruct (z <? 2^63) eqn:C; [reflexivity|apply Z.ltb_ge in C; lia].
Qed.

Lemma signed32_mod : forall z, - 2^31 <= z < 2^31 -> signed32 (z mod 2^32) = z.
Proof.
  intros z H. unfold signed32.
  destruct (Z_lt_le_dec z 0).
  - assert (E : z mod 2^32 = z + 2^32).
    { symmetry. apply Z.mod_unique with (q := -1); lia. }
    rewrite E. destruct (z + 2^32 <? 2^31) eqn:C; [apply Z.ltb_lt in C; lia|lia].
  - rewrite Z.mod_small by lia. destruct (z <? 2^31) eqn:C; [reflexivity|apply Z.ltb_ge in C; lia].
Qed.

Lemma signed64_small : forall y, 0 <= y < 256 -> signed64 y = y.
Proof. intros y H. unfold signed64. destruct (y <? 2^63) eqn:C; [reflexivity|apply Z.ltb_ge in C; lia]. Qed.

Lemma mod64_eqb : forall x y, min64 <= x <= max64 -> min64 <= y <= max64 ->
  (x mod 2^64 =? y mod 2^64) = (x =? y).
Proof.
  intros x y Hx Hy. destruct (x =? y) eqn:E.
  - apply Z.eqb_eq in E. subst. apply Z.eqb_refl.
  - apply Z.eqb_neq in E. apply Z.eqb_neq. intros C. apply E.
    rewrite <- (signed64_mod x Hx), <- (signed64_mod y Hy). now rewrite C.
Qed.

Lemma mod32_eqb : forall x y, - 2^31 <= x < 2^31 -> - 2^31 <= y < 2^31 ->
  (x mod 2^32 =? y mod 2^32) = (x =? y).
Proof.
  intros x y Hx Hy. destruct (x =? y) eqn:E.
  - apply Z.eqb_eq in E. subst. apply Z.eqb_refl.
  - apply Z.eqb_neq in E. apply Z.eqb_neq. intros C. apply E.
    rewrite <- (signed32_mod x Hx), <- (signed32_mod y Hy). now rewrite C.
Qed.

Lemma mod_ones : forall a n, 0 <= n -> a mod 2^n = Z.land a (Z.ones n).
Proof. intros. symmetry. apply Z.land_ones. assumption. Qed.

Lemma land_mod : forall x y, Z.land (x mod 2^64) (y mod 2^64) = (Z.land x y) mod 2^64.
Proof.
  intros. rewrite !mod_ones by lia. apply Z.bits_inj'. intros n Hn.
  rewrite !Z.land_spec. destruct (Z.testbit x n), (Z.testbit y n), (Z.testbit (Z.ones 64) n); reflexivity.
Qed.
Lemma lor_mod : forall x y, Z.lor (x mod 2^64) (y mod 2^64) = (Z.lor x y) mod 2^64.
Proof.
  intros. rewrite !mod_ones by lia. apply Z.bits_inj'. intros n Hn.
  rewrite !Z.land_spec, !Z.lor_spec, !Z.land_spec.
  destruct (Z.testbit x n), (Z.testbit y n), (Z.testbit (Z.ones 64) n); reflexivity.
Qed.
Lemma lxor_mod : forall x y, Z.lxor (x mod 2^64) (y mod 2^64) = (Z.lxor x y) mod 2^64.
Proof.
  intros. rewrite !mod_ones by lia. apply Z.bits_inj'. intros n Hn.
  rewrite !Z.land_spec, !Z.lxor_spec, !Z.land_spec.
  destruct (Z.testbit x n), (Z.testbit y n), (Z.testbit (Z.ones 64) n); reflexivity.
Qed.

Lemma lnot_mod : forall z k, 0 <= k -> Z.lxor (z mod 2^k) (2^k - 1) = (- z - 1) mod 2^k.
Proof.
  intros z k Hk. replace (- z - 1) with (Z.lnot z) by (unfold Z.lnot; lia).
  replace (2^k - 1) with (Z.ones k) by (rewrite Z.ones_equiv; lia).
  rewrite !mod_ones by lia. apply Z.bits_inj'. intros n Hn.
  rewrite Z.lxor_spec, !Z.land_spec, Z.lnot_spec by lia.
  destruct (Z.testbit z n), (Z.testbit (Z.ones k) n); reflexivity.
Qed.

Lemma mod_mod_256 : forall z, (z mod 2^64) mod 256 = z mod 256.
Proof.
  intros. symmetry. apply Zmod_div_mod; try lia. exists (2^56). reflexivity.
Qed.
Lemma mod_mod_32 : forall z, (z mod 2^64) mod 2^32 = z mod 2^32.
Proof.
  intros. symmetry. apply Zmod_div_mod; try lia. exists (2^32). reflexivity.
Qed.

(* ---- reading hypotheses ---------------------------------------------------------------------------- *)
Ltac inv H := inversion H; subst; clear H.

Ltac norm64 :=
  unfold add64, sub64, mul64, add8, sub8, mul8, zext8_64, zext8_32, wrap8, m64 in *;
  repeat rewrite wrap64_mod;
  repeat rewrite Zplus_mod_idemp_l; repeat rewrite Zplus_mod_idemp_r;
  repeat rewrite Zminus_mod_idemp_l; repeat rewrite Zminus_mod_idemp_r;
  repeat rewrite Zmult_mod_idemp_l; repeat rewrite Zmult_mod_idemp_r.

Section Proofs.
Variable pow : Z -> Z -> Z.
Variable log10 : Z -> Z.
Variable fmt_float : Z -> list Z.

Notation bin_op := (RefSem.bin_op pow log10).
Notation lower_bin := (Ops.lower_bin pow log10).


Definition scalar_binop (op : binop) : bool :=
  match op with BConcat | BIndex | BSliceTo | BSliceFrom => false | _ => true end.

Lemma small_byte_mod : forall y, 0 <= y < 256 -> y mod 2^64 = y.
Proof. intros. apply Z.mod_small. lia. Qed.

Lemma zext_mod : forall y, 0 <= y < 256 -> zext8_64 y = y mod 2^64.
Proof. intros. unfold zext8_64. now rewrite small_byte_mod. Qed.

Lemma tof_Z : forall z, min64 <= z <= max64 -> sitofp64 (z mod 2^64) = f_of_Z z.
Proof. intros. unfold sitofp64. now rewrite signed64_mod. Qed.

Lemma arith_correct : forall fz ff i64op i8op a b v,
  (forall x y, i64op (x mod 2^64) (y mod 2^64) = (fz x y) mod 2^64) ->
  (forall x y, i8op x y = wrap8 (fz x y)) ->
  wf a -> wf b ->
  arith fz ff a b = ROk v ->
  lower_arith i64op i8op ff (repr a) (repr b) = LOk (repr v).
Proof.
  intros fz ff i64op i8op a b v H64 H8 Wa Wb H.
  destruct a, b; cbn in Wa, Wb; try contradiction; cbn in H; inv H; cbn [repr lower_arith];
    repeat rewrite tof_Z by assumption; unfold uitofp8, zext8_64;
    try rewrite wrap64_mod; try rewrite H8; try reflexivity.
  - now rewrite H64.
  - rewrite <- (small_byte_mod z0) at 1 by assumption. now rewrite H64.
  - rewrite <- (small_byte_mod z) at 1 by assumption. now rewrite H64.
Qed.

Lemma cmp_correct : forall fi ff sp up fp a b v,
  (forall x y, min64 <= x <= max64 -> min64 <= y <= max64 -> icmp64 sp (x mod 2^64) (y mod 2^64) = fi x y) ->
  (forall x y, icmp8 up x y = fi x y) ->
  (forall x y, fcmp fp x y = ff x y) ->
  wf a -> wf b ->
  compare fi ff a b = ROk v ->
  lower_cmp sp up fp (repr a) (repr b) = LOk (repr v).
Proof.
  intros fi ff sp up fp a b v H64 H8 HF Wa Wb H.
  assert (BR : forall y, 0 <= y < 256 -> min64 <= y <= max64) by (unfold min64, max64; intros; lia).
  destruct a, b; cbn in Wa, Wb; try contradiction; cbn in H; inv H; cbn [repr lower_cmp];
    repeat rewrite tof_Z by assumption; unfold uitofp8, zext8_64;
    try rewrite HF; try rewrite H8; try reflexivity.
  - now rewrite H64.
  - rewrite <- (small_byte_mod z0) at 1 by assumption. rewrite H64; auto.
  - rewrite <- (small_byte_mod z) at 1 by assumption. rewrite H64; auto.
Qed.

Lemma icmp_slt : forall x y, min64 <= x <= max64 -> min64 <= y <= max64 -> icmp64 ISlt (x mod 2^64) (y mod 2^64) = (x <? y).
Proof. intros. cbn. now rewrite !signed64_mod. Qed.
Lemma icmp_sle : forall x y, min64 <= x <= max64 -> min64 <= y <= max64 -> icmp64 ISle (x mod 2^64) (y mod 2^64) = (x <=? y).
Proof. intros. cbn. now rewrite !signed64_mod. Qed.
Lemma icmp_sgt : forall x y, min64 <= x <= max64 -> min64 <= y <= max64 -> icmp64 ISgt (x mod 2^64) (y mod 2^64) = (x >? y).
Proof. intros. cbn. now rewrite !signed64_mod. Qed.
Lemma icmp_sge : forall x y, min64 <= x <= max64 -> min64 <= y <= max64 -> icmp64 ISge (x mod 2^64) (y mod 2^64) = (x >=? y).
Proof. intros. cbn. now rewrite !signed64_mod. Qed.

Lemma bit_correct : forall f a b v,
  (forall x y, f (x mod 2^64) (y mod 2^64) = (f x y) mod 2^64) ->
  wf a -> wf b ->
  bitop f a b = ROk v ->
  lower_bit f (repr a) (repr b) = LOk (repr v).
Proof.
  intros f a b v HF Wa Wb H.
  destruct a, b; cbn in Wa, Wb; try contradiction; cbn in H; inv H; cbn [repr lower_bit]; try reflexivity;
    rewrite wrap64_mod; unfold zext8_64.
  - now rewrite HF.
  - rewrite <- (small_byte_mod z0) at 1 by assumption. now rewrite HF.
  - rewrite <- (small_byte_mod z) at 1 by assumption. now rewrite HF.
Qed.

Lemma fbin_correct : forall ff a b v,
  wf a -> wf b -> fbin ff a b = ROk v ->
  lower_fcall ff (repr a) (repr b) = LOk (repr v).
Proof.
  intros ff a b v Wa Wb H.
  destruct a, b; cbn in Wa, Wb; try contradiction; cbn in H; inv H; cbn [repr lower_fcall as_float];
    repeat rewrite tof_Z by assumption; reflexivity.
Qed.

Lemma div_correct : forall a b v,
  wf a -> wf b ->
  fbin f_div a b = ROk v ->
  lower_div (repr a) (repr b) = LOk (repr v).
Proof.
  intros a b v Wa Wb H.
  destruct a, b; cbn in Wa, Wb; try contradiction; cbn in H; inv H;
    cbn [repr lower_div]; repeat rewrite tof_Z by assumption; reflexivity.
Qed.

Lemma minus_one_eqb : forall y, min64 <= y <= max64 -> (y mod 2^64 =? m64 - 1) = (y =? -1).
Proof.
  intros y Hy. change (m64 - 1) with ((-1) mod 2^64). apply mod64_eqb; auto. unfold min64, max64; lia.
Qed.

Lemma srem_sel : forall x y, min64 <= x <= max64 -> min64 <= y <= max64 -> y <> 0 ->
  srem64 (x mod 2^64) (if y =? -1 then 1 else y mod 2^64) = Some ((Z.rem x y) mod 2^64).
Proof.
  intros x y Hx Hy Hn. unfold srem64.
  destruct (y =? -1) eqn:E.
  - apply Z.eqb_eq in E. subst. cbn [Z.eqb]. rewrite signed64_mod by assumption.
    change (signed64 1) with 1. replace ((x =? - 2 ^ 63) && (1 =? -1)) with false by (rewrite andb_false_r; reflexivity).
    rewrite Z.rem_1_r. replace (Z.rem x (-1)) with 0; [reflexivity|].
    symmetry. change (-1) with (- (1)). rewrite Z.rem_opp_r by lia. apply Z.rem_1_r.
  - apply Z.eqb_neq in E.
    replace (y mod 2^64 =? 0) with false.
    2:{ symmetry. apply Z.eqb_neq. intros C. apply Hn. rewrite <- (signed64_mod y Hy). rewrite C. reflexivity. }
    rewrite !signed64_mod by assumption.
    replace ((x =? - 2 ^ 63) && (y =? -1)) with false; [reflexivity|].
    symmetry. apply andb_false_iff. right. apply Z.eqb_neq. exact E.
Qed.

Lemma srem_byte : forall x y, min64 <= x <= max64 -> 0 <= y < 256 -> y <> 0 ->
  srem64 (x mod 2^64) (if y =? m64 - 1 then 1 else y) = Some ((Z.rem x y) mod 2^64).
Proof.
  intros x y Hx Hy Hn.
  assert (Hy' : min64 <= y <= max64) by (unfold min64, max64; lia).
  pose proof (srem_sel x y Hx Hy' Hn) as E.
  replace (y =? -1) with false in E by (symmetry; apply Z.eqb_neq; lia).
  rewrite (small_byte_mod y Hy) in E.
  replace (y =? m64 - 1) with false by (symmetry; apply Z.eqb_neq; unfold m64; lia). exact E.
Qed.

Lemma mod_correct : forall a b,
  wf a -> wf b ->
  (forall v, modulo a b = ROk v -> lower_mod (repr a) (repr b) = LOk (repr v)) /\
  (modulo a b = RErr -> lower_mod (repr a) (repr b) = LRtErr).
Proof.
  intros a b Wa Wb.
  assert (BR : forall y, 0 <= y < 256 -> min64 <= y <= max64) by (unfold min64, max64; intros; lia).
  assert (M0 : forall y, min64 <= y <= max64 -> (y mod 2^64 =? 0) = (y =? 0)).
  { intros y Hy. rewrite <- (mod64_eqb y 0 Hy) by (unfold min64, max64; lia). reflexivity. }
  destruct a, b; cbn in Wa, Wb; try contradiction; cbn [modulo to_i]; unfold ill;
    (split; [intros v H|intros H]); try discriminate H; cbn [repr lower_mod]; unfold zext8_64.
  - (* Z Z *) destruct (z0 =? 0) eqn:E0; [discriminate H|]. inv H.
    rewrite M0 by assumption. rewrite E0. rewrite minus_one_eqb by assumption.
    rewrite srem_sel by (auto; apply Z.eqb_neq; exact E0). cbn [of_opt repr]. reflexivity.
  - destruct (z0 =? 0) eqn:E0; [|discriminate H]. rewrite M0 by assumption. rewrite E0. reflexivity.
  - (* Z B *) destruct (z0 =? 0) eqn:E0; [discriminate H|]. inv H.
    rewrite srem_byte by (auto; apply Z.eqb_neq; exact E0). cbn [of_opt repr]. reflexivity.
  - destruct (z0 =? 0) eqn:E0; [|discriminate H]. reflexivity.
  - (* B Z *) destruct (z0 =? 0) eqn:E0; [discriminate H|]. inv H.
    rewrite M0 by assumption. rewrite E0. rewrite minus_one_eqb by assumption.
    rewrite <- (small_byte_mod z) at 1 by assumption.
    rewrite srem_sel by (auto; apply Z.eqb_neq; exact E0). cbn [of_opt repr]. reflexivity.
  - destruct (z0 =? 0) eqn:E0; [|discriminate H]. rewrite M0 by assumption. rewrite E0. reflexivity.
  - (* B B *) destruct (z0 =? 0) eqn:E0; [discriminate H|]. inv H. unfold urem8. rewrite E0. reflexivity.
  - destruct (z0 =? 0) eqn:E0; [|discriminate H]. reflexivity.
Qed.

Lemma shl64_ok : forall z n, 0 <= n < 64 ->
  shl64 (z mod 2^64) n = Some ((wrap64 (z * 2 ^ n)) mod 2^64).
Proof.
  intros z n Hn. unfold shl64. replace (n <? 64) with true by (symmetry; apply Z.ltb_lt; lia).
  rewrite wrap64_mod. unfold m64. now rewrite Zmult_mod_idemp_l.
Qed.

Lemma lshr64_ok : forall z n, 0 <= n < 64 ->
  lshr64 (z mod 2^64) n = Some ((wrap64 ((z mod 2^64) / 2 ^ n)) mod 2^64).
Proof.
  intros z n Hn. unfold lshr64. replace (n <? 64) with true by (symmetry; apply Z.ltb_lt; lia).
  rewrite wrap64_mod. f_equal. rewrite (Z.mod_small ((z mod 2^64) / 2 ^ n)); [reflexivity|].
  assert (0 <= z mod 2^64 < 2^64) by (apply Z.mod_pos_bound; lia).
  assert (0 < 2 ^ n) by (apply Z.pow_pos_nonneg; lia).
  split; [apply Z.div_pos; lia|].
  apply Z.div_lt_upper_bound; [lia|]. nia.
Qed.

Lemma sel64_ok : forall left z n, 0 <= n < 64 ->
  sel_shift64 left (z mod 2^64) n =
  (if left then wrap64 (z * 2 ^ n) else wrap64 ((z mod 2^64) / 2 ^ n)) mod 2^64.
Proof.
  intros left z n Hn. unfold sel_shift64. replace (n <? 64) with true by (symmetry; apply Z.ltb_lt; lia).
  destruct left.
  - pose proof (shl64_ok z n Hn) as E. unfold shl64 in E.
    replace (n <? 64) with true in E by (symmetry; apply Z.ltb_lt; lia). now inversion E.
  - pose proof (lshr64_ok z n Hn) as E. unfold lshr64 in E.
    replace (n <? 64) with true in E by (symmetry; apply Z.ltb_lt; lia). now inversion E.
Qed.

Lemma sel64_out : forall left x n, 64 <= n -> sel_shift64 left x n = 0.
Proof. intros. unfold sel_shift64. replace (n <? 64) with false by (symmetry; apply Z.ltb_ge; lia). reflexivity. Qed.

Lemma shift_correct : forall left a b v,
  wf a -> wf b -> shift left a b = ROk v ->
  lower_shift left (repr a) (repr b) = LOk (repr v).
Proof.
  intros left a b v Wa Wb H.
  destruct a, b; cbn in Wa, Wb; try contradiction; cbn [shift to_i] in H; unfold ill in H; try discriminate H;
    cbn [repr lower_shift].
  - (* Z Z *) destruct ((z0 <? 0) || (64 <=? z0)) eqn:G; inv H.
    + apply orb_true_iff in G. cbn [repr]. rewrite sel64_out; [reflexivity|].
      unfold min64, max64 in Wb. destruct G as [G|G]; [apply Z.ltb_lt in G|apply Z.leb_le in G].
      * replace (z0 mod 2^64) with (z0 + 2^64) by (apply Z.mod_unique with (q := -1); lia). lia.
      * rewrite Z.mod_small by lia. lia.
    + apply orb_false_iff in G. destruct G as [G1 G2]. apply Z.ltb_ge in G1. apply Z.leb_gt in G2.
      rewrite (Z.mod_small z0) by lia. rewrite sel64_ok by lia. cbn [repr]. destruct left; reflexivity.
  - (* Z B *) destruct ((z0 <? 0) || (64 <=? z0)) eqn:G; inv H; unfold zext8_64.
    + apply orb_true_iff in G. cbn [repr]. rewrite sel64_out; [reflexivity|].
      destruct G as [G|G]; [apply Z.ltb_lt in G; lia|apply Z.leb_le in G; lia].
    + apply orb_false_iff in G. destruct G as [G1 G2]. apply Z.ltb_ge in G1. apply Z.leb_gt in G2.
      rewrite sel64_ok by lia. cbn [repr]. destruct left; reflexivity.
  - (* B Z *) unfold trunc64_8. rewrite mod_mod_256.
    assert (0 <= z0 mod 256 < 256) by (apply Z.mod_pos_bound; lia).
    unfold sel_shift8.
    destruct (8 <=? z0 mod 256) eqn:G; inv H; cbn [repr].
    + apply Z.leb_le in G. replace (z0 mod 256 <? 8) with false by (symmetry; apply Z.ltb_ge; lia). reflexivity.
    + apply Z.leb_gt in G. replace (z0 mod 256 <? 8) with true by (symmetry; apply Z.ltb_lt; lia).
      destruct left; reflexivity.
  - (* B B *) unfold sel_shift8.
    destruct (8 <=? z0) eqn:G; inv H; cbn [repr].
    + apply Z.leb_le in G. replace (z0 <? 8) with false by (symmetry; apply Z.ltb_ge; lia). reflexivity.
    + apply Z.leb_gt in G. replace (z0 <? 8) with true by (symmetry; apply Z.ltb_lt; lia).
      destruct left; reflexivity.
Qed.

Lemma eq_correct : forall a b r,
  wf a -> wf b -> ty_eqb (type_of a) (type_of b) = true -> value_eqb a b = Some r ->
  lower_eq (repr a) (repr b) = LOk (MI1 r).
Proof.
  intros a b r Wa Wb TE H.
  destruct a, b; cbn in Wa, Wb; try contradiction; cbn in TE; try discriminate TE; cbn in H; inv H;
    cbn [repr lower_eq fcmp]; try reflexivity.
  - now rewrite mod64_eqb.
  - now rewrite mod32_eqb.
Qed.

(* THE THEOREM for binary operators: typed (wf, scalar) -> defined (RefSem gives a value, i.e. no guard) ->
   the emitted instruction computes RefSem's value; all operators, operand types and operand values. *)
Theorem bin_lowering_correct : forall op a b v,
  wf a -> wf b -> scalar_binop op = true ->
  bin_op op a b = ROk v ->
  lower_bin op (repr a) (repr b) = LOk (repr v).
Proof.
  intros op a b v Wa Wb SC H.
  destruct op; cbn [scalar_binop] in SC; try discriminate SC; cbn [RefSem.bin_op] in H; cbn [Ops.lower_bin].
  - (* And *) destruct a, b; try discriminate H; inv H. cbn. destruct b0, b; reflexivity.
  - (* Or *) destruct a, b; try discriminate H; inv H. cbn. destruct b0, b; reflexivity.
  - (* Xor *) destruct a, b; try discriminate H; inv H. reflexivity.
  - (* Plus *) eapply arith_correct; eauto.
    + intros. unfold add64, m64. now rewrite <- Zplus_mod.
    + reflexivity.
  - (* Minus *) eapply arith_correct; eauto.
    + intros. unfold sub64, m64. now rewrite <- Zminus_mod.
    + reflexivity.
  - (* Mult *) eapply arith_correct; eauto.
    + intros. unfold mul64, m64. now rewrite <- Zmult_mod.
    + reflexivity.
  - (* Div *) apply div_correct; auto.
  - (* Pow *) apply fbin_correct; auto.
  - (* Log *) apply fbin_correct; auto.
  - (* LogicAnd *) apply bit_correct; auto using land_mod.
  - (* LogicOr *) apply bit_correct; auto using lor_mod.
  - (* LogicXor *) apply bit_correct; auto using lxor_mod.
  - (* Mod *) apply mod_correct; auto.
  - (* Shl *) apply shift_correct; auto.
  - (* Shr *) apply shift_correct; auto.
  - (* Eq *)
    destruct (ty_eqb (type_of a) (type_of b)) eqn:TE; [|discriminate H].
    destruct (value_eqb a b) eqn:VE; [|discriminate H]. inv H.
    now apply eq_correct.
  - (* Ne *)
    destruct (ty_eqb (type_of a) (type_of b)) eqn:TE; [|discriminate H].
    destruct (value_eqb a b) eqn:VE; [|discriminate H]. inv H.
    rewrite (eq_correct a b b0) by assumption. cbn [repr]. destruct b0; reflexivity.
  - (* Lt *) eapply cmp_correct; eauto using icmp_slt; reflexivity.
  - (* Gt *) eapply cmp_correct; eauto using icmp_sgt; reflexivity.
  - (* Le *) eapply cmp_correct; eauto using icmp_sle; reflexivity.
  - (* Ge *) eapply cmp_correct; eauto using icmp_sge; reflexivity.
Qed.

(* a zero divisor: RefSem says Laufzeitfehler, the emitted code calls the runtime error before the instruction *)
Theorem mod_zero_lowering_correct : forall a b,
  wf a -> wf b -> bin_op BMod a b = RErr -> lower_bin BMod (repr a) (repr b) = LRtErr.
Proof. intros a b Wa Wb H. apply (proj2 (mod_correct a b Wa Wb)). exact H. Qed.

(* regression witness of the repaired cell: 200 als Byte durch 2,0 is 100 *)
Definition two_f : Z := 4611686018427387904.   (* 2.0 *)
Example div_byte_komma_witness :
  lower_bin BDiv (repr (VB 200)) (repr (VK two_f)) = LOk (repr (VK (f_of_Z 100))).
Proof. vm_compute. reflexivity. Qed.

(* ---- unary operators ---------------------------------------------------------------------------- *)
Notation un_op := (RefSem.un_op).

Theorem un_lowering_correct : forall op a v,
  wf a -> op <> ULen ->
  un_op op a = ROk v ->
  lower_un op (repr a) = LOk (repr v).
Proof.
  intros op a v Wa NL H.
  destruct op; try congruence; destruct a; cbn in Wa; try contradiction;
    cbn in H; inv H; cbn [repr lower_un].
  - (* Abs Z *)
    f_equal. f_equal.
    replace (icmp64 ISlt (z mod 2^64) 0) with (z <? 0).
    2:{ rewrite <- (icmp_slt z 0) by (auto; unfold min64, max64; lia). reflexivity. }
    destruct (z <? 0); [|reflexivity].
    rewrite wrap64_mod. unfold sub64, m64. rewrite Zminus_mod_idemp_r. reflexivity.
  - (* Abs K *) cbn [fcmp]. rewrite Wa. reflexivity.
  - (* Abs B *) unfold zext8_64. now rewrite small_byte_mod.
  - (* Neg Z *) rewrite wrap64_mod. unfold sub64, m64. rewrite Zminus_mod_idemp_r. reflexivity.
  - (* Neg K *) reflexivity.
  - (* Neg B *) unfold sub64, zext8_64, m64. reflexivity.
  - (* Not *) destruct b; reflexivity.
  - (* LogicNot Z *) f_equal. f_equal. unfold m64. apply (lnot_mod z 64). lia.
  - (* LogicNot B *)
    f_equal. f_equal. pose proof (lnot_mod z 8) as L. rewrite Z.mod_small in L by lia.
    change (2^8 - 1) with 255 in L. rewrite L by lia.
    symmetry. apply Z.mod_unique with (q := -1); lia.
Qed.

(* ---- conversions (`als` between scalar types, and the implicit numeric conversions) ---------------- *)
Definition scalar_ty (t : ty) : bool := match t with TText | TList _ => false | _ => true end.

Theorem cast_lowering_correct : forall t a v,
  wf a -> scalar_ty t = true ->
  cast_to fmt_float t a = ROk v ->
  lower_cast t (repr a) = LOk (repr v).
Proof.
  intros t a v Wa ST H.
  destruct t; cbn in ST; try discriminate ST; destruct a; cbn in Wa; try contradiction; cbn [cast_to] in H;
    try discriminate H.
  - (* Zahl <- Z *) inv H. reflexivity.
  - (* Zahl <- K *) inv H. reflexivity.
  - (* Zahl <- B *) inv H. cbn. unfold zext8_64. now rewrite small_byte_mod.
  - (* Zahl <- W *) inv H. cbn. destruct b; reflexivity.
  - (* Zahl <- C *) inv H. cbn. unfold sext32_64. now rewrite signed32_mod.
  - (* Komma <- Z *) inv H. cbn. now rewrite tof_Z.
  - (* Komma <- K *) inv H. cbn. now rewrite Wa.
  - (* Komma <- B *) inv H. reflexivity.
  - (* Byte <- Z *) inv H. cbn. unfold trunc64_8, wrap8. now rewrite mod_mod_256.
  - (* Byte <- K *) inv H. reflexivity.
  - (* Byte <- B *) inv H. reflexivity.
  - (* Bool <- Z *) inv H. cbn. f_equal. f_equal. f_equal.
    rewrite <- (mod64_eqb z 0 Wa) by (unfold min64, max64; lia). reflexivity.
  - (* Bool <- B *) inv H. reflexivity.
  - (* Bool <- W *) inv H. reflexivity.
  - (* Char <- Z *) inv H. cbn. unfold trunc64_32. rewrite wrap32_mod. now rewrite mod_mod_32.
  - (* Char <- B *) inv H. cbn. unfold zext8_32. rewrite Z.mod_small by lia. reflexivity.
  - (* Char <- C *) inv H. reflexivity.
Qed.

(* ---- zwischen ------------------------------------------------------------------------------------ *)
Theorem between_lowering_correct : forall x a b v,
  wf x -> wf a -> wf b ->
  between x a b = ROk v ->
  lower_between (repr x) (repr a) (repr b) = LOk (repr v).
Proof.
  intros x a b v Wx Wa Wb H.
  assert (BR : forall y, 0 <= y < 256 -> min64 <= y <= max64) by (unfold min64, max64; intros; lia).
  assert (G : forall p q, min64 <= p <= max64 -> min64 <= q <= max64 ->
              icmp64 ISgt (p mod 2^64) (q mod 2^64) = (p >? q)) by (intros; now apply icmp_sgt).
  assert (L : forall p q, min64 <= p <= max64 -> min64 <= q <= max64 ->
              icmp64 ISlt (p mod 2^64) (q mod 2^64) = (p <? q)) by (intros; now apply icmp_slt).
  destruct x, a, b; cbn in Wx, Wa, Wb; try contradiction; cbn in H; inv H;
    cbn [repr lower_between is_f is_b orb andb as_float as_int fcmp icmp8];
    repeat rewrite tof_Z by assumption; unfold uitofp8; try reflexivity;
    repeat rewrite zext_mod by assumption;
    repeat rewrite G by auto; repeat rewrite L by auto; reflexivity.
Qed.

End Proofs.
