(* C08 / C11 — model of value copies, Referenz parameters and the -O2 "constant parameter" copy
   elision of the code generator.  Definitions only (executable, total).

   What is transcribed (pinned tree):
   * compiler.go:386-412  claimOrCopy: a temporary is claimed, anything else is deep-copied.
   * compiler.go VisitAssignStmt: evaluate the right side, copy it if it is not a temporary, THEN
     free the old value of the target, THEN claim; text/list element assignment is in place.
   * compiler.go:2048-2068 call site: Referenz parameter = address of the caller's variable; a value
     parameter of non-primitive type is claimed/copied by the caller into storage the callee frees —
     unless (-O2) the callee's parameter is judged constant AND (91b5d4a, mayElideArgCopy) the argument
     is a local variable nothing else can reach during the call: then the callee receives the
     caller's storage itself (shallow: the same buffer) ...
   * compiler.go:435-448 exitFuncScope: ... and does not free it.
   * const_func_param.go:57-171: the per-callee analysis (`analyse` below), in traversal order,
     including its order dependence for self-recursive calls (the callee's table is read while it
     is still being computed).
   * compiler.go:2572-2583 for-each iterates over a claimed/copied holder of the iterated value.

   Abstractions (stated, not hidden): one level of non-primitive values (Text = list of code
   points, Zahlen Liste = list of numbers: `list Z`); a variable slot holds a number or the
   location of a buffer; locations are never reused (a freed buffer stays `Freed`, and reading it is
   the observable error EUaf — "reads of freed storage are observable"); temporaries are freed at
   the end of the statement and locals at function exit (the compiler: at scope exit — not
   observable, nothing can refer to them any more); calls are statements (`Speichere f(..) in x`);
   the returned expression of a function is evaluated over its parameters and the globals.
   For a TEMPORARY argument the elision only changes who frees the temporary (the caller's scope
   exit instead of the callee's exit); nothing else can refer to a temporary, so the model lets the
   callee own it in both modes and elides only arguments that are variables.
   An elided parameter is a handle cell `Alias l` on the caller's buffer l (the emitted code copies
   the Text/list struct, not the buffer): reads, in-place writes and an explicit free (assignment to
   the parameter) go through to l, the function exit leaves l alone, and if l is freed or
   reallocated by someone else the handle dangles. *)
From Coq Require Import List ZArith Bool Arith Lia.
Import ListNotations.

Definition name := nat.

Inductive expr :=
| EInt (z : Z)
| EVar (x : name)
| ELit (l : list Z)          (* text / list literal: a fresh temporary *)
| ECat (a b : expr)          (* verkettet mit: a fresh temporary *)
| EIdx (a i : expr)          (* a an der Stelle i (1-based): a primitive *)
| ELen (a : expr).

Inductive arg := AVal (e : expr) | ARef (x : name).

Inductive stmt :=
| SDecl (x : name) (e : expr)              (* Der Text x ist e. *)
| SAssign (x : name) (e : expr)            (* Speichere e in x.  (compound: e = ECat (EVar x) _) *)
| SAssignIdx (x : name) (i v : expr)       (* Speichere v in x an der Stelle i.  (in place) *)
| SPrint (e : expr)
| SCall (dst : option name) (f : nat) (args : list arg)   (* [Speichere] f args [in dst]. *)
| SIf (c : expr) (th el : list stmt)
| SFor (x : name) (e : expr) (body : list stmt).          (* Für jede Zahl x in e, mache: body *)

Record param := mkParam { pname : name; pref : bool }.
(* fnometa: an instantiation of a generic function made from ANOTHER module than the one that declares it: the
   annotator attaches its table to the declaring module's AST, the call site looks it up in the AST of the
   instantiating module and finds none - such a function is never elided.  (An instantiation made in the declaring
   module is an ordinary function at the position of the generic declaration: 9b42dd9 visits its body.) *)
Record fundecl := mkFun { fparams : list param; fbody : list stmt; fret : option expr; fnometa : bool }.
Record program := mkProg { pglobals : list (name * expr); pfuns : list fundecl; pmain : list stmt }.

(* ---------------------------------------------------------------------------------------------- *)
(* const_func_param.go                                                                             *)
(* ---------------------------------------------------------------------------------------------- *)
Definition meta := list (list bool).        (* per function, per parameter: judged constant *)
Definition is_const (m : meta) (f i : nat) : bool := nth i (nth f m []) false.

(* doesReferenceVarMutable: Ident -> that variable; Indexing -> its left side; everything that
   is not an Assigneable -> nothing *)
Fixpoint refs_of (e : expr) : list name :=
  match e with
  | EVar x => [x]
  | EIdx a _ => refs_of a
  | _ => []
  end.
Definition arg_refs (a : arg) : list name :=
  match a with AVal e => refs_of e | ARef x => [x] end.

(* the tracked parameters of the function being analysed: (name, still constant) *)
Definition cstate := list (name * bool).
Definition mark (x : name) (c : cstate) : cstate :=
  map (fun nb => if Nat.eqb (fst nb) x then (fst nb, false) else nb) c.
Definition mark_all (xs : list name) (c : cstate) : cstate := fold_right mark c xs.

(* the table a call to function k sees while function j is analysed: an earlier function's final
   table; nothing for a recursive call or a function not yet visited *)
Definition seen_const (done : meta) (j : nat) (cur : cstate) (k i : nat) : bool :=
  if Nat.eqb k j then false   (* 91b5d4a: the table of the function being analysed is not final *)
  else if Nat.ltb k j then is_const done k i else false.

Fixpoint mark_args (isc : nat -> bool) (i : nat) (args : list arg) (c : cstate) : cstate :=
  match args with
  | [] => c
  | a :: r => mark_args isc (S i) r (if isc i then c else mark_all (arg_refs a) c)
  end.

Fixpoint an_stmt (done : meta) (j : nat) (s : stmt) (c : cstate) : cstate :=
  match s with
  | SAssign x _ => mark x c
  | SAssignIdx x _ _ => mark x c
  | SCall dst k args =>
      let c1 := match dst with Some x => mark x c | None => c end in
      mark_args (seen_const done j c1 k) 0 args c1
  | SIf _ th el =>
      let go := fix go (l : list stmt) (c : cstate) : cstate :=
        match l with [] => c | s :: r => go r (an_stmt done j s c) end in
      go el (go th c)
  | SFor _ _ b =>
      (fix go (l : list stmt) (c : cstate) : cstate :=
        match l with [] => c | s :: r => go r (an_stmt done j s c) end) b c
  | _ => c
  end.
Definition an_stmts (done : meta) (j : nat) (l : list stmt) (c : cstate) : cstate :=
  fold_left (fun c s => an_stmt done j s c) l c.

Definition an_fun (done : meta) (j : nat) (fd : fundecl) : list bool :=
  if fnometa fd then map (fun _ => false) (fparams fd)
  else map snd (an_stmts done j (fbody fd) (map (fun p => (pname p, true)) (fparams fd))).

Fixpoint an_funs (done : meta) (fs : list fundecl) : meta :=
  match fs with
  | [] => done
  | fd :: r => an_funs (done ++ [an_fun done (length done) fd]) r
  end.
Definition analyse (fs : list fundecl) : meta := an_funs [] fs.

(* ---------------------------------------------------------------------------------------------- *)
(* machine                                                                                         *)
(* ---------------------------------------------------------------------------------------------- *)
(* a buffer, a shallow handle on another holder's buffer (what an elided parameter is: the callee's
   copy of the Text/list STRUCT, pointing to the caller's buffer), or a freed location *)
Inductive cell := Live (c : list Z) | Alias (l : nat) | Freed.
Inductive slot := VInt (z : Z) | VPtr (l : nat) | VDead.
Inductive err :=
| EStuck         (* ill-formed program (unknown name, wrong kind of value) *)
| EUaf           (* a freed buffer was read, written or freed again *)
| EBounds        (* Laufzeitfehler: index outside 1..length *)
| EFuel.
Inductive res (A : Type) := Ok (a : A) | Er (e : err).
Arguments Ok {A} a.
Arguments Er {A} e.
Definition bind {A B} (r : res A) (k : A -> res B) : res B :=
  match r with Ok a => k a | Er e => Er e end.
Notation "'do' x <- r ; k" := (bind r (fun x => k)) (at level 200, x pattern, r at level 100, k at level 200).

Inductive outv := OInt (z : Z) | OSeq (c : list Z).

(* fbase: the first variable slot of the running activation — the globals and whatever its Referenz
   parameters are bound to lie below it (what `VarDecl.IsGlobal` / `varwrapper.isRef` tell the
   code generator statically) *)
Record state := mkSt { vars : list slot; heap : list cell; tmps : list nat; out : list outv; fbase : nat }.
Definition env := list (name * nat).

Fixpoint lookup (e : env) (x : name) : option nat :=
  match e with
  | [] => None
  | (y, a) :: r => if Nat.eqb y x then Some a else lookup r x
  end.

Fixpoint upd {A} (l : list A) (n : nat) (v : A) : list A :=
  match l, n with
  | [], _ => []
  | _ :: r, O => v :: r
  | x :: r, S n => x :: upd r n v
  end.

Definition set_vars (st : state) (v : list slot) := mkSt v (heap st) (tmps st) (out st) (fbase st).
Definition set_heap (st : state) (h : list cell) := mkSt (vars st) h (tmps st) (out st) (fbase st).
Definition set_tmps (st : state) (t : list nat) := mkSt (vars st) (heap st) t (out st) (fbase st).
Definition set_fbase (st : state) (b : nat) := mkSt (vars st) (heap st) (tmps st) (out st) b.
Definition add_out (st : state) (o : outv) := mkSt (vars st) (heap st) (tmps st) (out st ++ [o]) (fbase st).

Definition alloc (c : cell) (st : state) : nat * state :=
  (length (heap st), set_heap st (heap st ++ [c])).
(* the buffer a location stands for *)
Definition target (l : nat) (st : state) : nat :=
  match nth_error (heap st) l with Some (Alias t) => t | _ => l end.
Definition read (l : nat) (st : state) : res (list Z) :=
  match nth_error (heap st) (target l st) with
  | Some (Live c) => Ok c
  | Some _ => Er EUaf
  | None => Er EStuck
  end.
Definition write (l : nat) (c : list Z) (st : state) : res state :=
  match nth_error (heap st) (target l st) with
  | Some (Live _) => Ok (set_heap st (upd (heap st) (target l st) (Live c)))
  | Some _ => Er EUaf
  | None => Er EStuck
  end.
(* the emitted free function frees the buffer the struct points to: through a handle that is the
   CALLER's buffer *)
Definition free (l : nat) (st : state) : res state :=
  match nth_error (heap st) l with
  | Some (Live _) => Ok (set_heap st (upd (heap st) l Freed))
  | Some (Alias t) =>
      match nth_error (heap st) t with
      | Some (Live _) => Ok (set_heap st (upd (upd (heap st) t Freed) l Freed))
      | Some _ => Er EUaf
      | None => Er EStuck
      end
  | Some Freed => Er EUaf
  | None => Er EStuck
  end.
(* exitFuncScope: a parameter that is still the handle it was bound to is NOT freed (only the
   handle disappears with the frame); everything else is freed *)
Definition release (l : nat) (st : state) : res state :=
  match nth_error (heap st) l with
  | Some (Alias _) => Ok (set_heap st (upd (heap st) l Freed))
  | _ => free l st
  end.
Definition new_var (s : slot) (st : state) : nat * state :=
  (length (vars st), set_vars st (vars st ++ [s])).
Definition get_slot (a : nat) (st : state) : res slot :=
  match nth_error (vars st) a with Some s => Ok s | None => Er EStuck end.
Definition set_slot (a : nat) (s : slot) (st : state) : state := set_vars st (upd (vars st) a s).

Definition add_tmp (l : nat) (st : state) : state := set_tmps st (l :: tmps st).
Fixpoint remove_nat (l : nat) (t : list nat) : list nat :=
  match t with [] => [] | x :: r => if Nat.eqb x l then r else x :: remove_nat l r end.
Definition claim (l : nat) (st : state) : state := set_tmps st (remove_nat l (tmps st)).
Fixpoint free_list (ls : list nat) (st : state) : res state :=
  match ls with [] => Ok st | l :: r => do st' <- free l st; free_list r st' end.
(* end of statement: the remaining temporaries are freed *)
Definition end_stmt (st : state) : res state :=
  do st' <- free_list (tmps st) st; Ok (set_tmps st' []).

(* deep copy of the buffer at l into a fresh buffer *)
Definition copy_of (l : nat) (st : state) : res (nat * state) :=
  do c <- read l st; Ok (alloc (Live c) st).
(* claimOrCopy for a value that must end up in storage owned by the receiver *)
Definition claim_or_copy (l : nat) (tmp : bool) (st : state) : res (nat * state) :=
  if tmp then Ok (l, claim l st) else copy_of l st.

Inductive rv := RInt (z : Z) | RSeq (l : nat) (tmp : bool).

Definition idx_ok (z : Z) (n : nat) : bool := (1 <=? z)%Z && (z <=? Z.of_nat n)%Z.

Fixpoint eval (e : env) (x : expr) (st : state) : res (rv * state) :=
  match x with
  | EInt z => Ok (RInt z, st)
  | EVar v =>
      match lookup e v with
      | None => Er EStuck
      | Some a =>
          do s <- get_slot a st;
          match s with
          | VInt z => Ok (RInt z, st)
          | VPtr l => Ok (RSeq l false, st)
          | VDead => Er EStuck
          end
      end
  | ELit c => let '(l, st1) := alloc (Live c) st in Ok (RSeq l true, add_tmp l st1)
  | ECat a b =>
      do r1 <- eval e a st;
      let '(va, st1) := r1 in
      do r2 <- eval e b st1;
      let '(vb, st2) := r2 in
      match va with
      | RSeq la _ =>
          do ca <- read la st2;
          do cb <- match vb with RSeq lb _ => read lb st2 | RInt z => Ok [z] end;
          let '(l, st3) := alloc (Live (ca ++ cb)) st2 in
          Ok (RSeq l true, add_tmp l st3)
      | RInt _ => Er EStuck
      end
  | EIdx a i =>
      do r1 <- eval e a st;
      let '(va, st1) := r1 in
      do r2 <- eval e i st1;
      let '(vi, st2) := r2 in
      match va, vi with
      | RSeq la _, RInt z =>
          do ca <- read la st2;
          if idx_ok z (length ca) then Ok (RInt (nth (Z.to_nat z - 1) ca 0%Z), st2) else Er EBounds
      | _, _ => Er EStuck
      end
  | ELen a =>
      do r1 <- eval e a st;
      let '(va, st1) := r1 in
      match va with
      | RSeq la _ => do ca <- read la st1; Ok (RInt (Z.of_nat (length ca)), st1)
      | RInt _ => Er EStuck
      end
  end.

(* value -> slot owned by the receiver (declaration, parameter, loop holder) *)
Definition own_value (v : rv) (st : state) : res (slot * state) :=
  match v with
  | RInt z => Ok (VInt z, st)
  | RSeq l tmp => do r <- claim_or_copy l tmp st; let '(l', st') := r in Ok (VPtr l', st')
  end.

Definition do_decl (e : env) (x : name) (ex : expr) (st : state) : res (env * state) :=
  do r <- eval e ex st;
  let '(v, st1) := r in
  do r2 <- own_value v st1;
  let '(s, st2) := r2 in
  let '(a, st3) := new_var s st2 in
  do st4 <- end_stmt st3;
  Ok ((x, a) :: e, st4).

(* VisitAssignStmt after the right side has been evaluated to v: a non-temporary value is copied
   BEFORE the old value of the target is freed (so `Speichere t in t.` and assignments between
   aliases are fine), a temporary is claimed *)
Definition store_value (a : nat) (v : rv) (st : state) : res state :=
  do s <- get_slot a st;
  match s, v with
  | VInt _, RInt z => Ok (set_slot a (VInt z) st)
  | VPtr lold, RSeq l tmp =>
      do r <- claim_or_copy l tmp st;
      let '(l', st1) := r in
      do st2 <- free lold st1;
      Ok (set_slot a (VPtr l') st2)
  | _, _ => Er EStuck
  end.

Definition do_assign (e : env) (x : name) (ex : expr) (st : state) : res state :=
  do r <- eval e ex st;
  let '(v, st1) := r in
  match lookup e x with
  | None => Er EStuck
  | Some a => do st2 <- store_value a v st1; end_stmt st2
  end.

Definition do_assign_idx (e : env) (x : name) (i v : expr) (st : state) : res state :=
  do r1 <- eval e v st;
  let '(vv, st1) := r1 in
  do r2 <- eval e i st1;
  let '(vi, st2) := r2 in
  match lookup e x, vv, vi with
  | Some a, RInt zv, RInt zi =>
      do s <- get_slot a st2;
      match s with
      | VPtr l =>
          do c <- read l st2;
          if idx_ok zi (length c)
          then do st3 <- write l (upd c (Z.to_nat zi - 1) zv) st2; end_stmt st3
          else Er EBounds
      | _ => Er EStuck
      end
  | _, _, _ => Er EStuck
  end.

Definition do_print (e : env) (ex : expr) (st : state) : res state :=
  do r <- eval e ex st;
  let '(v, st1) := r in
  match v with
  | RInt z => end_stmt (add_out st1 (OInt z))
  | RSeq l _ => do c <- read l st1; end_stmt (add_out st1 (OSeq c))
  end.

Definition do_cond (e : env) (c : expr) (st : state) : res (bool * state) :=
  do r <- eval e c st;
  let '(v, st1) := r in
  match v with
  | RInt z => do st2 <- end_stmt st1; Ok (negb (Z.eqb z 0), st2)
  | RSeq _ _ => Er EStuck
  end.

(* for-each: the loop owns a holder of the iterated value (claimed or copied) *)
Definition for_init (e : env) (ex : expr) (st : state) : res (nat * list Z * state) :=
  do r <- eval e ex st;
  let '(v, st1) := r in
  match v with
  | RSeq l tmp =>
      do r2 <- claim_or_copy l tmp st1;
      let '(lc, st2) := r2 in
      do c <- read lc st2;
      do st3 <- end_stmt st2;
      Ok (lc, c, st3)
  | RInt _ => Er EStuck
  end.

Fixpoint for_loop (ex : env -> list stmt -> state -> res state) (x : name) (body : list stmt)
         (e : env) (c : list Z) (st : state) : res state :=
  match c with
  | [] => Ok st
  | z :: r =>
      let '(a, st1) := new_var (VInt z) st in
      do st2 <- ex ((x, a) :: e) body st1;
      for_loop ex x body e r st2
  end.

(* Gib e zurück: claim or copy into the return slot (then the scopes are left) *)
Definition ret_value (ce : env) (fr : option expr) (st2 : state) : res (option rv * state) :=
  match fr with
  | None => Ok (None, st2)
  | Some re =>
      do r3 <- eval ce re st2;
      let '(v, st3) := r3 in
      match v with
      | RInt z => do st4 <- end_stmt st3; Ok (Some (RInt z), st4)
      | RSeq l tmp =>
          do r4 <- claim_or_copy l tmp st3;
          let '(l', st4) := r4 in
          do st5 <- end_stmt st4;
          Ok (Some (RSeq l' true), st5)
      end
  end.

(* back in the caller: its temporaries again, the result as a temporary, the optional store *)
Definition call_finish (e : env) (dst : option name) (saved : list nat) (result : option rv) (st7 : state) : res state :=
  let st8 := set_tmps st7 saved in
  let st9 := match result with Some (RSeq l _) => add_tmp l st8 | _ => st8 end in
  match dst, result with
  | None, _ => end_stmt st9
  | Some x, Some v =>
      match lookup e x with
      | Some a => do st10 <- store_value a v st9; end_stmt st10
      | None => Er EStuck
      end
  | Some _, None => Er EStuck
  end.

(* mayElideArgCopy (compiler.go, 91b5d4a + the sibling-argument repair): the caller hands its own storage to a
   parameter the callee only reads only for (a part of) a local variable of the running activation — not a
   global, not what a Referenz parameter is bound to — that NO OTHER argument of the same call mentions
   (arguments are evaluated in parameter order: a later argument may pass the variable by Referenz to a nested
   call, or to this call).  The argument itself mentions x, so "no other" = exactly one mention in `all`. *)
Definition is_ref_of (x : name) (a : arg) : bool := match a with ARef y => Nat.eqb y x | AVal _ => false end.
Fixpoint expr_mentions (x : name) (e : expr) : bool :=
  match e with
  | EInt _ | ELit _ => false
  | EVar y => Nat.eqb y x
  | ECat a b | EIdx a b => expr_mentions x a || expr_mentions x b
  | ELen a => expr_mentions x a
  end.
Definition arg_mentions (x : name) (a : arg) : bool :=
  match a with ARef y => Nat.eqb y x | AVal e => expr_mentions x e end.
Definition may_elide (e : env) (all : list arg) (ex : expr) (st : state) : bool :=
  match ex with
  | EVar x =>
      match lookup e x with
      | Some a => Nat.leb (fbase st) a && negb (existsb (is_ref_of x) all)
                  && Nat.leb (length (filter (arg_mentions x) all)) 1
      | None => false
      end
  | _ => false
  end.

Section Exec.
  Variable elide : bool.       (* false: every value parameter is a fresh copy (-O0/-O1, the language rule) *)
  Variable mt : meta.          (* result of the constant-parameter analysis *)
  Variable funs : list fundecl.
  Variable genv : env.         (* global variables, visible in every function *)

  (* caller side of a call: bind the parameters of function f in order; returns the callee's
     environment and the state *)
  Fixpoint bind_params (all : list arg) (f i : nat) (ps : list param) (args : list arg) (e : env)
           (ce : env) (st : state) : res (env * state) :=
    match ps, args with
    | [], [] => Ok (ce, st)
    | p :: ps', a :: args' =>
        match pref p, a with
        | true, ARef x =>
            match lookup e x with
            | Some ad => bind_params all f (S i) ps' args' e ((pname p, ad) :: ce) st
            | None => Er EStuck
            end
        | false, AVal ex =>
            do r <- eval e ex st;
            let '(v, st1) := r in
            match v with
            | RInt z =>
                let '(ad, st2) := new_var (VInt z) st1 in
                bind_params all f (S i) ps' args' e ((pname p, ad) :: ce) st2
            | RSeq l tmp =>
                if elide && is_const mt f i && negb tmp && may_elide e all ex st1 then
                  (* val = eval: the callee's parameter is a shallow handle on the caller's buffer *)
                  let '(lh, st1') := alloc (Alias (target l st1)) st1 in
                  let '(ad, st2) := new_var (VPtr lh) st1' in
                  bind_params all f (S i) ps' args' e ((pname p, ad) :: ce) st2
                else
                  do r2 <- claim_or_copy l tmp st1;
                  let '(l', st2) := r2 in
                  let '(ad, st3) := new_var (VPtr l') st2 in
                  bind_params all f (S i) ps' args' e ((pname p, ad) :: ce) st3
            end
        | _, _ => Er EStuck
        end
    | _, _ => Er EStuck
    end.

  (* exitFuncScope + scope exits: every variable created since `base` is dead afterwards and what it
     holds is released — for an elided parameter that is the handle, not the caller's buffer *)
  Fixpoint exit_from (n : nat) (a : nat) (st : state) : res state :=
    match n with
    | O => Ok st
    | S n' =>
        do s <- get_slot a st;
        do st1 <- match s with
                  | VPtr l => release l st
                  | _ => Ok st
                  end;
        exit_from n' (S a) (set_slot a VDead st1)
    end.
  Definition exit_frame (base : nat) (st : state) : res state :=
    exit_from (length (vars st) - base) base st.

  Definition do_call (ex : env -> list stmt -> state -> res state)
             (e : env) (dst : option name) (f : nat) (args : list arg) (st : state) : res state :=
    match nth_error funs f with
    | None => Er EStuck
    | Some fd =>
        let base := length (vars st) in
        do r <- bind_params args f 0 (fparams fd) args e genv st;
        let '(ce, st1) := r in
        let saved := tmps st1 in
        do st2 <- ex ce (fbody fd) (set_fbase (set_tmps st1 []) base);
        do r2 <- ret_value ce (fret fd) st2;
        let '(result, st6) := r2 in
        do st7 <- exit_frame base st6;
        call_finish e dst saved result (set_fbase st7 (fbase st))
    end.

  Fixpoint exec (fuel : nat) (e : env) (ss : list stmt) (st : state) {struct fuel} : res state :=
    match fuel with
    | O => Er EFuel
    | S fuel' =>
        match ss with
        | [] => Ok st
        | s :: rest =>
            match s with
            | SDecl x ex =>
                do r <- do_decl e x ex st;
                let '(e', st') := r in exec fuel' e' rest st'
            | SAssign x ex => do st' <- do_assign e x ex st; exec fuel' e rest st'
            | SAssignIdx x i v => do st' <- do_assign_idx e x i v st; exec fuel' e rest st'
            | SPrint ex => do st' <- do_print e ex st; exec fuel' e rest st'
            | SCall dst f args => do st' <- do_call (exec fuel') e dst f args st; exec fuel' e rest st'
            | SIf c th el =>
                do r <- do_cond e c st;
                let '(b, st1) := r in
                do st2 <- exec fuel' e (if b then th else el) st1;
                exec fuel' e rest st2
            | SFor x ex body =>
                do r <- for_init e ex st;
                let '(lc, c, st1) := r in
                do st2 <- for_loop (exec fuel') x body e c st1;
                do st3 <- free lc st2;
                exec fuel' e rest st3
            end
        end
    end.
End Exec.

Definition st0 : state := mkSt [] [] [] [] 0.

Fixpoint init_globals (gs : list (name * expr)) (e : env) (st : state) : res (env * state) :=
  match gs with
  | [] => Ok (e, st)
  | (x, ex) :: r => do r1 <- do_decl e x ex st; let '(e', st') := r1 in init_globals r e' st'
  end.

(* observable result of a whole program: the output, or the error class *)
Definition run (elide : bool) (fuel : nat) (p : program) : res (list outv) :=
  do r <- init_globals (pglobals p) [] st0;
  let '(ge, st) := r in
  do st' <- exec elide (analyse (pfuns p)) (pfuns p) ge fuel ge (pmain p) (set_fbase st (length (vars st)));
  Ok (out st').

Definition run_copy := run false.
Definition run_elide := run true.
