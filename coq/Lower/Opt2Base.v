(* C08 — basic facts about the machine of Opt2.v: lists, heap/variable primitives, monad inversion. *)
From Coq Require Import List ZArith Bool Arith Lia.
Import ListNotations.
From DDP Require Import Lower.Opt2.

Ltac inv H := inversion H; subst; clear H.

(* ---------------------------------------------------------------------------------------------- *)
(* lists                                                                                           *)
(* ---------------------------------------------------------------------------------------------- *)
Lemma upd_length : forall A (l : list A) n v, length (upd l n v) = length l.
Proof. induction l as [|x l IH]; intros [|n] v; cbn; auto. Qed.

Lemma nth_error_upd_eq : forall A (l : list A) n v, n < length l -> nth_error (upd l n v) n = Some v.
Proof.
  induction l as [|x l IH]; intros [|n] v Hn; cbn in *; try lia; auto.
  apply IH; lia.
Qed.

Lemma nth_error_upd_neq : forall A (l : list A) n m v, n <> m -> nth_error (upd l n v) m = nth_error l m.
Proof.
  induction l as [|x l IH]; intros [|n] [|m] v Hn; cbn in *; try congruence; auto.
Qed.

Lemma nth_error_upd : forall A (l : list A) n m v,
  nth_error (upd l n v) m = if Nat.eqb n m then (if Nat.ltb n (length l) then Some v else None) else nth_error l m.
Proof.
  intros. destruct (Nat.eqb_spec n m) as [->|Hne].
  - destruct (Nat.ltb_spec m (length l)).
    + apply nth_error_upd_eq; auto.
    + apply nth_error_None. rewrite upd_length. lia.
  - apply nth_error_upd_neq; auto.
Qed.

Lemma nth_error_app_new : forall A (l : list A) x, nth_error (l ++ [x]) (length l) = Some x.
Proof. intros. rewrite nth_error_app2 by lia. rewrite Nat.sub_diag. reflexivity. Qed.

Lemma nth_error_app_old : forall A (l : list A) x n, n < length l -> nth_error (l ++ [x]) n = nth_error l n.
Proof. intros. apply nth_error_app1; auto. Qed.

Lemma nth_error_app_snoc : forall A (l : list A) x n,
  nth_error (l ++ [x]) n = if Nat.ltb n (length l) then nth_error l n else if Nat.eqb n (length l) then Some x else None.
Proof.
  intros. destruct (Nat.ltb_spec n (length l)).
  - apply nth_error_app1; auto.
  - destruct (Nat.eqb_spec n (length l)) as [->|].
    + apply nth_error_app_new.
    + apply nth_error_None. rewrite app_length. cbn. lia.
Qed.

Lemma nth_error_lt : forall A (l : list A) n x, nth_error l n = Some x -> n < length l.
Proof. intros. apply nth_error_Some. congruence. Qed.

(* ---------------------------------------------------------------------------------------------- *)
(* monad                                                                                           *)
(* ---------------------------------------------------------------------------------------------- *)
Lemma bind_ok : forall A B (r : res A) (k : A -> res B) b,
  bind r k = Ok b -> exists a, r = Ok a /\ k a = Ok b.
Proof. intros A B [a|e] k b H; cbn in H; [eauto | discriminate H]. Qed.

Ltac bind_inv H :=
  let a := fresh "a" in let H1 := fresh "Hb" in let H2 := fresh "Hk" in
  apply bind_ok in H; destruct H as (a & H1 & H2).

Ltac bind_as H a H1 H2 := apply bind_ok in H; destruct H as (a & H1 & H2).

(* ---------------------------------------------------------------------------------------------- *)
(* lookup                                                                                          *)
(* ---------------------------------------------------------------------------------------------- *)
Lemma lookup_in : forall e x a, lookup e x = Some a -> In a (map snd e).
Proof.
  induction e as [|[y b] e IH]; cbn; intros x a H; [discriminate H|].
  destruct (Nat.eqb y x).
  - inv H. auto.
  - right. eauto.
Qed.

Lemma lookup_app : forall e1 e2 x,
  lookup (e1 ++ e2) x = match lookup e1 x with Some a => Some a | None => lookup e2 x end.
Proof.
  induction e1 as [|[y b] e1 IH]; cbn; intros; auto.
  destruct (Nat.eqb y x); auto.
Qed.

(* ---------------------------------------------------------------------------------------------- *)
(* state accessors through the primitives                                                          *)
(* ---------------------------------------------------------------------------------------------- *)
Definition ptr_at (st : state) (a l : nat) : Prop := nth_error (vars st) a = Some (VPtr l).
Definition live (st : state) (l : nat) : Prop := exists c, nth_error (heap st) l = Some (Live c).

Lemma live_lt : forall st l, live st l -> l < length (heap st).
Proof. intros st l [c H]. eapply nth_error_lt; eauto. Qed.

Lemma alloc_spec : forall c st l st', alloc c st = (l, st') ->
  l = length (heap st) /\ heap st' = heap st ++ [c] /\ vars st' = vars st /\ tmps st' = tmps st /\ out st' = out st.
Proof. unfold alloc. intros. inv H. cbn. auto. Qed.

Lemma target_live : forall st l, live st l -> target l st = l.
Proof. unfold target, live. intros st l [c H]. rewrite H. auto. Qed.

Lemma read_ok : forall l st c, read l st = Ok c -> nth_error (heap st) (target l st) = Some (Live c).
Proof.
  unfold read. intros l st c H. destruct (nth_error (heap st) (target l st)) as [[c'|?|]|]; try discriminate H. inv H. auto.
Qed.

Lemma read_ok_live : forall l st c, read l st = Ok c -> live st l -> nth_error (heap st) l = Some (Live c).
Proof. intros l st c H Hl. apply read_ok in H. rewrite target_live in H; auto. Qed.

Lemma read_live : forall l st c, nth_error (heap st) l = Some (Live c) -> read l st = Ok c.
Proof. intros l st c H. unfold read. rewrite target_live by (exists c; auto). rewrite H. auto. Qed.

Lemma free_ok : forall l st st', free l st = Ok st' -> live st l ->
  l < length (heap st) /\ heap st' = upd (heap st) l Freed /\ vars st' = vars st /\ tmps st' = tmps st /\ out st' = out st.
Proof.
  unfold free, live. intros l st st' H [c Hc]. rewrite Hc in H. inv H. cbn.
  split; [eapply nth_error_lt; eauto | auto].
Qed.

Lemma free_fbase : forall l st st', free l st = Ok st' -> fbase st' = fbase st.
Proof.
  unfold free. intros l st st' H. destruct (nth_error (heap st) l) as [[c|t|]|]; try discriminate H.
  - inv H. reflexivity.
  - destruct (nth_error (heap st) t) as [[c|?|]|]; try discriminate H. inv H. reflexivity.
Qed.

Lemma release_live : forall l st, live st l -> release l st = free l st.
Proof. unfold release, live. intros l st [c H]. rewrite H. auto. Qed.

Lemma free_live : forall l st, live st l -> exists st', free l st = Ok st'.
Proof. unfold free, live. intros l st [c H]. rewrite H. eauto. Qed.

Lemma write_ok : forall l c st st', write l c st = Ok st' ->
  live st (target l st) /\ heap st' = upd (heap st) (target l st) (Live c) /\ vars st' = vars st /\ tmps st' = tmps st /\ out st' = out st.
Proof.
  unfold write, live. intros l c st st' H. destruct (nth_error (heap st) (target l st)) as [[c'|?|]|] eqn:E; try discriminate H.
  inv H. cbn. eauto 6.
Qed.

Lemma new_var_spec : forall s st a st', new_var s st = (a, st') ->
  a = length (vars st) /\ vars st' = vars st ++ [s] /\ heap st' = heap st /\ tmps st' = tmps st /\ out st' = out st.
Proof. unfold new_var. intros. inv H. cbn. auto. Qed.

Lemma get_slot_ok : forall a st s, get_slot a st = Ok s -> nth_error (vars st) a = Some s.
Proof. unfold get_slot. intros a st s H. destruct (nth_error (vars st) a); inv H. auto. Qed.

Lemma get_slot_some : forall a st s, nth_error (vars st) a = Some s -> get_slot a st = Ok s.
Proof. unfold get_slot. intros a st s H. rewrite H. auto. Qed.

Lemma remove_nat_in : forall l x t, In x (remove_nat l t) -> In x t.
Proof.
  induction t as [|y t IH]; cbn; auto. destruct (Nat.eqb y l); cbn; intuition.
Qed.

Lemma remove_nat_nodup : forall l t, NoDup t -> NoDup (remove_nat l t) /\ ~ In l (remove_nat l t).
Proof.
  induction t as [|y t IH]; cbn; intros H.
  - split; [constructor | auto].
  - inv H. destruct (Nat.eqb_spec y l) as [->|Hne].
    + split; auto.
    + destruct (IH H3) as [IH1 IH2]. split.
      * constructor; auto. intro Hin. apply H2. eapply remove_nat_in; eauto.
      * cbn. intros [E|Hin]; [congruence | auto].
Qed.

Lemma remove_nat_keep : forall l x t, In x t -> x <> l -> In x (remove_nat l t).
Proof.
  induction t as [|y t IH]; cbn; auto. intros [->|Hin] Hne.
  - destruct (Nat.eqb_spec x l); [congruence | cbn; auto].
  - destruct (Nat.eqb y l); cbn; auto.
Qed.

Lemma remove_nat_notin : forall l t, ~ In l t -> remove_nat l t = t.
Proof.
  induction t as [|y t IH]; cbn; auto. intros H.
  destruct (Nat.eqb_spec y l) as [->|]; [exfalso; auto|]. f_equal. auto.
Qed.
