(* C08 — the table computed by `analyse` (const_func_param.go with the recursive-call rule of 91b5d4a) is
   consistent for EVERY program: a parameter it judges constant is never assigned, never the destination
   of a call and never passed by Referenz to a parameter position that is not judged constant. *)
From Coq Require Import List ZArith Bool Arith Lia.
Import ListNotations.
From DDP Require Import Lower.Opt2 Lower.Opt2Base Lower.Opt2Safe.

Definition cst_true (c : cstate) (x : name) : bool := existsb (fun nb => Nat.eqb (fst nb) x && snd nb) c.

(* the consistency check of one statement against the table cf of the enclosing function and the
   constness oc of the parameters of the called functions *)
Definition chk (cf : cstate) (oc : nat -> nat -> bool) (s : stmt) : bool :=
  match s with
  | SAssign x _ | SAssignIdx x _ _ => negb (cst_true cf x)
  | SCall dst k args =>
      match dst with Some d => negb (cst_true cf d) | None => true end &&
      forallb (fun iy => oc k (fst iy) || negb (cst_true cf (snd iy))) (ref_args 0 args)
  | _ => true
  end.

Definition cst_of (mt : meta) (funs : list fundecl) (c : ctx) : cstate :=
  match c with
  | Some j => combine (map pname (fparams (fn funs j))) (nth j mt [])
  | None => []
  end.
(* x is the name of a parameter of the enclosing function that the table judges constant *)
Definition cnameb (mt : meta) (funs : list fundecl) (c : ctx) (x : name) : bool := cst_true (cst_of mt funs c) x.
Definition stmt_cons_b (mt : meta) (funs : list fundecl) (c : ctx) : stmt -> bool := chk (cst_of mt funs c) (is_const mt).

(* ---------------------------------------------------------------------------------------------- *)
Lemma cst_true_mark : forall y c x, cst_true (mark y c) x = cst_true c x && negb (Nat.eqb x y).
Proof.
  intros y c x. unfold cst_true, mark. induction c as [|[n b] c IH]; [reflexivity|].
  cbn [map existsb]. rewrite IH. cbn [fst snd].
  set (r := existsb (fun nb : name * bool => Nat.eqb (fst nb) x && snd nb) c).
  destruct (Nat.eqb_spec n y) as [E1|E1]; cbn [fst snd];
    destruct (Nat.eqb_spec n x) as [E2|E2]; destruct (Nat.eqb_spec x y) as [E3|E3];
    destruct b; destruct r; cbn; try reflexivity; try congruence; try apply andb_false_r.
Qed.

Definition le (c' c : cstate) : Prop := forall x, cst_true c' x = true -> cst_true c x = true.
Lemma le_refl : forall c, le c c. Proof. intros c x H; exact H. Qed.
Lemma le_trans : forall a b c, le a b -> le b c -> le a c. Proof. intros a b c H1 H2 x H. auto. Qed.

Lemma le_mark : forall y c, le (mark y c) c.
Proof. intros y c x H. rewrite cst_true_mark in H. apply andb_true_iff in H. tauto. Qed.
Lemma mark_false : forall y c, cst_true (mark y c) y = false.
Proof. intros. rewrite cst_true_mark, Nat.eqb_refl. cbn. apply andb_false_r. Qed.

Lemma mark_all_cons : forall y ys c, mark_all (y :: ys) c = mark y (mark_all ys c).
Proof. reflexivity. Qed.
Lemma le_mark_all : forall ys c, le (mark_all ys c) c.
Proof.
  induction ys as [|y ys IH]; intros c; [apply le_refl|]. rewrite mark_all_cons.
  eapply le_trans; [apply le_mark|apply IH].
Qed.
Lemma mark_all_false : forall ys c y, In y ys -> cst_true (mark_all ys c) y = false.
Proof.
  induction ys as [|z ys IH]; intros c y Hin; [contradiction|]. rewrite mark_all_cons. destruct Hin as [->|Hin].
  - apply mark_false.
  - rewrite cst_true_mark. rewrite (IH c y Hin). reflexivity.
Qed.

Lemma le_mark_args : forall isc args i c, le (mark_args isc i args c) c.
Proof.
  intros isc args. induction args as [|a args IH]; intros i c; cbn; [apply le_refl|].
  eapply le_trans; [apply IH|]. destruct (isc i); [apply le_refl|apply le_mark_all].
Qed.

Lemma mark_args_marks : forall isc args i0 c i y,
  In (i, y) (ref_args i0 args) -> isc i = false -> cst_true (mark_args isc i0 args c) y = false.
Proof.
  intros isc args. induction args as [|a args IH]; intros i0 c i y Hin Hi; cbn in *; [contradiction|].
  destruct a as [ex|z]; cbn in Hin.
  - eapply IH; eauto.
  - destruct Hin as [E|Hin]; [|eapply IH; eauto]. inv E. rewrite Hi.
    destruct (cst_true (mark_args isc (S i) args (mark_all (arg_refs (ARef y)) c)) y) eqn:E; auto.
    apply le_mark_args in E. change (arg_refs (ARef y)) with [y] in E. rewrite mark_all_false in E by (cbn; auto). discriminate E.
Qed.

(* an induction principle that reaches into the nested statement lists *)
Section StmtInd.
  Variable P : stmt -> Prop.
  Hypothesis HDecl : forall x e, P (SDecl x e).
  Hypothesis HAssign : forall x e, P (SAssign x e).
  Hypothesis HIdx : forall x i v, P (SAssignIdx x i v).
  Hypothesis HPrint : forall e, P (SPrint e).
  Hypothesis HCall : forall d f a, P (SCall d f a).
  Hypothesis HIf : forall c th el, Forall P th -> Forall P el -> P (SIf c th el).
  Hypothesis HFor : forall x e b, Forall P b -> P (SFor x e b).
  Fixpoint stmt_ind2 (s : stmt) : P s :=
    match s with
    | SDecl x e => HDecl x e
    | SAssign x e => HAssign x e
    | SAssignIdx x i v => HIdx x i v
    | SPrint e => HPrint e
    | SCall d f a => HCall d f a
    | SIf c th el =>
        HIf c th el
          ((fix go (l : list stmt) : Forall P l := match l with [] => Forall_nil _ | x :: r => Forall_cons _ (stmt_ind2 x) (go r) end) th)
          ((fix go (l : list stmt) : Forall P l := match l with [] => Forall_nil _ | x :: r => Forall_cons _ (stmt_ind2 x) (go r) end) el)
    | SFor x e b =>
        HFor x e b
          ((fix go (l : list stmt) : Forall P l := match l with [] => Forall_nil _ | x :: r => Forall_cons _ (stmt_ind2 x) (go r) end) b)
    end.
End StmtInd.

Section Analysis.
  Variable done : meta.
  Variable j : nat.
  Variable oc : nat -> nat -> bool.
  (* what the analysis sees of a callee's table is never more optimistic than the final table *)
  Hypothesis Hseen : forall c1 k i, seen_const done j c1 k i = true -> oc k i = true.

  Definition go (l : list stmt) (c : cstate) : cstate := fold_left (fun c s => an_stmt done j s c) l c.

  Lemma an_if : forall c0 th el c, an_stmt done j (SIf c0 th el) c = go el (go th c).
  Proof.
    intros. cbn. unfold go.
    assert (E : forall l c', (fix go0 (l : list stmt) (c : cstate) {struct l} : cstate :=
                 match l with [] => c | s :: r => go0 r (an_stmt done j s c) end) l c' = fold_left (fun c s => an_stmt done j s c) l c').
    { induction l as [|s l IH]; intros c'; cbn; auto. }
    rewrite !E. reflexivity.
  Qed.
  Lemma an_for : forall x e b c, an_stmt done j (SFor x e b) c = go b c.
  Proof.
    intros. cbn. unfold go. revert c. induction b as [|s b IH]; intros c; cbn; auto.
  Qed.

  Lemma le_go : forall l, Forall (fun s => forall c, le (an_stmt done j s c) c) l -> forall c, le (go l c) c.
  Proof.
    induction l as [|s l IH]; intros HF c; cbn; [apply le_refl|]. inv HF.
    eapply le_trans; [apply IH; auto|apply H1].
  Qed.

  Lemma le_an_stmt : forall s c, le (an_stmt done j s c) c.
  Proof.
    induction s using stmt_ind2; intros c0; try (cbn; apply le_refl); try (cbn; apply le_mark).
    - cbn. eapply le_trans; [apply le_mark_args|]. destruct d; [apply le_mark|apply le_refl].
    - rewrite an_if. eapply le_trans; [apply le_go; auto|apply le_go; auto].
    - rewrite an_for. apply le_go; auto.
  Qed.

  Lemma le_go' : forall l c, le (go l c) c.
  Proof. intros l c. apply le_go. apply Forall_forall. intros s _ c'. apply le_an_stmt. Qed.

  Lemma chk_go : forall cf l,
    Forall (fun s => forall c, le cf (an_stmt done j s c) -> all_stmt (chk cf oc) s = true) l ->
    forall c, le cf (go l c) -> all_stmts (chk cf oc) l = true.
  Proof.
    intros cf. induction l as [|s l IH]; intros HF c Hle; cbn; auto. inv HF. cbn in Hle.
    rewrite (H1 c); [|eapply le_trans; [exact Hle|apply le_go']]. cbn. eapply IH; eauto.
  Qed.

  Lemma all_stmt_if_intro : forall P c th el, P (SIf c th el) = true -> all_stmts P th = true -> all_stmts P el = true ->
    all_stmt P (SIf c th el) = true.
  Proof.
    intros P c th el H0 H1 H2. cbn. rewrite H0. cbn. apply andb_true_iff. split.
    - clear H2. induction th as [|s th IH]; cbn in *; auto; apply andb_true_iff in H1; destruct H1 as [A B0]; rewrite A; cbn; auto.
    - clear H1. induction el as [|s el IH]; cbn in *; auto; apply andb_true_iff in H2; destruct H2 as [A B0]; rewrite A; cbn; auto.
  Qed.
  Lemma all_stmt_for_intro : forall P x e b, P (SFor x e b) = true -> all_stmts P b = true -> all_stmt P (SFor x e b) = true.
  Proof.
    intros P x e b H0 H1. cbn. rewrite H0. cbn.
    induction b as [|s b IH]; cbn in *; auto; apply andb_true_iff in H1; destruct H1 as [A B0]; rewrite A; cbn; auto.
  Qed.

  Lemma chk_an_stmt : forall cf s c, le cf (an_stmt done j s c) -> all_stmt (chk cf oc) s = true.
  Proof.
    intros cf. induction s using stmt_ind2; intros c0 Hle.
    - reflexivity.
    - cbn. rewrite andb_true_r. apply negb_true_iff. destruct (cst_true cf x) eqn:E; auto.
      apply Hle in E. cbn [an_stmt] in E. rewrite mark_false in E. discriminate E.
    - cbn. rewrite andb_true_r. apply negb_true_iff. destruct (cst_true cf x) eqn:E; auto.
      apply Hle in E. cbn [an_stmt] in E. rewrite mark_false in E. discriminate E.
    - reflexivity.
    - cbn [an_stmt] in Hle. cbn. rewrite andb_true_r. apply andb_true_iff. split.
      + destruct d as [d|]; auto. apply negb_true_iff. destruct (cst_true cf d) eqn:E; auto.
        apply Hle in E. apply le_mark_args in E. rewrite mark_false in E. discriminate E.
      + apply forallb_forall. intros [i y] Hin. cbn.
        destruct (oc f i) eqn:Eo; auto. cbn. apply negb_true_iff. destruct (cst_true cf y) eqn:E; auto.
        apply Hle in E.
        rewrite (mark_args_marks _ _ _ _ i y Hin) in E; [discriminate E|].
        destruct (seen_const done j (match d with Some x => mark x c0 | None => c0 end) f i) eqn:Es; auto.
        apply Hseen in Es. congruence.
    - rewrite an_if in Hle. apply all_stmt_if_intro; [reflexivity| |].
      + eapply (chk_go cf th); eauto. eapply le_trans; [exact Hle|apply le_go'].
      + eapply (chk_go cf el); eauto.
    - rewrite an_for in Hle. apply all_stmt_for_intro; [reflexivity|]. eapply (chk_go cf b); eauto.
  Qed.

  Lemma chk_body : forall body c0, all_stmts (chk (go body c0) oc) body = true.
  Proof.
    intros body c0. eapply (chk_go (go body c0) body); [|apply le_refl].
    apply Forall_forall. intros s _ c Hle. eapply chk_an_stmt; eauto.
  Qed.
End Analysis.

(* the names of a table stay those of the parameters *)
Lemma mark_fst : forall y c, map fst (mark y c) = map fst c.
Proof. intros y c. unfold mark. rewrite map_map. apply map_ext. intros [n b]. cbn. destruct (Nat.eqb n y); reflexivity. Qed.
Lemma mark_all_fst : forall ys c, map fst (mark_all ys c) = map fst c.
Proof. induction ys as [|y ys IH]; intros c; [reflexivity|]. rewrite mark_all_cons, mark_fst. auto. Qed.
Lemma mark_args_fst : forall isc args i c, map fst (mark_args isc i args c) = map fst c.
Proof.
  intros isc args. induction args as [|a args IH]; intros i c; cbn; auto. rewrite IH. destruct (isc i); auto. apply mark_all_fst.
Qed.
Lemma an_stmt_fst : forall done j s c, map fst (an_stmt done j s c) = map fst c.
Proof.
  intros done j. induction s using stmt_ind2; intros c0; try reflexivity; try (cbn; apply mark_fst).
  - cbn. rewrite mark_args_fst. destruct d; auto. apply mark_fst.
  - rewrite an_if. unfold go.
    assert (G : forall l, Forall (fun s => forall c, map fst (an_stmt done j s c) = map fst c) l ->
                forall c, map fst (fold_left (fun c s => an_stmt done j s c) l c) = map fst c).
    { induction l as [|s l IHl]; intros HF c'; cbn; auto. inv HF. rewrite IHl; auto. }
    rewrite G; auto.
  - rewrite an_for. unfold go.
    assert (G : forall l, Forall (fun s => forall c, map fst (an_stmt done j s c) = map fst c) l ->
                forall c, map fst (fold_left (fun c s => an_stmt done j s c) l c) = map fst c).
    { induction l as [|s l IHl]; intros HF c'; cbn; auto. inv HF. rewrite IHl; auto. }
    apply G; auto.
Qed.
Lemma go_fst : forall done j l c, map fst (go done j l c) = map fst c.
Proof. intros done j. unfold go. induction l as [|s l IH]; intros c; cbn [fold_left]; auto. rewrite IH. apply an_stmt_fst. Qed.

Lemma combine_fst_snd : forall (c : cstate), combine (map fst c) (map snd c) = c.
Proof. induction c as [|[n b] c IH]; cbn; auto. f_equal. auto. Qed.

(* the rows of the final table *)
Lemma an_funs_rows : forall fs done,
  exists rows, an_funs done fs = done ++ rows /\
    forall t fd, nth_error fs t = Some fd ->
      nth (length done + t) (done ++ rows) [] = an_fun (firstn (length done + t) (done ++ rows)) (length done + t) fd.
Proof.
  induction fs as [|fd fs IH]; intros done; cbn.
  - exists []. split; [rewrite app_nil_r; auto|]. intros t fd0 H. destruct t; discriminate H.
  - destruct (IH (done ++ [an_fun done (length done) fd])) as (rows & E & R).
    exists (an_fun done (length done) fd :: rows). split; [rewrite E, <- app_assoc; reflexivity|].
    intros [|t] fd0 H; cbn in H.
    + inv H. rewrite Nat.add_0_r. rewrite app_nth2 by lia. rewrite Nat.sub_diag. cbn.
      rewrite firstn_app. rewrite Nat.sub_diag. cbn. rewrite firstn_all, app_nil_r. reflexivity.
    + specialize (R t fd0 H). rewrite app_length in R. cbn in R. rewrite <- app_assoc in R. cbn in R.
      replace (length done + S t) with (length done + 1 + t) by lia. exact R.
Qed.

Lemma nth_firstn : forall A (l : list A) n k d, k < n -> nth k (firstn n l) d = nth k l d.
Proof.
  induction l as [|x l IH]; intros [|n] [|k] d H; cbn; auto; try lia. apply IH. lia.
Qed.

Lemma chk_allfalse : forall cf oc, (forall x, cst_true cf x = false) -> forall ss, all_stmts (chk cf oc) ss = true.
Proof.
  intros cf oc Hf.
  assert (H : forall s, all_stmt (chk cf oc) s = true).
  { induction s using stmt_ind2; try reflexivity.
    - cbn. rewrite Hf. reflexivity.
    - cbn. rewrite Hf. reflexivity.
    - cbn. rewrite andb_true_r. apply andb_true_iff. split; [destruct d; [rewrite Hf|]; reflexivity|].
      apply forallb_forall. intros [i y] _. cbn. rewrite Hf. apply orb_true_r.
    - rewrite Forall_forall in H, H0.
      apply all_stmt_if_intro; [reflexivity| |]; apply forallb_forall; intros s Hs; auto.
    - rewrite Forall_forall in H. apply all_stmt_for_intro; [reflexivity|]. apply forallb_forall; intros s Hs; auto. }
  intros ss. apply forallb_forall. intros s _. apply H.
Qed.

Lemma cst_true_allfalse : forall (names : list name) (n : nat) x, cst_true (combine names (repeat false n)) x = false.
Proof.
  induction names as [|y names IH]; intros [|n] x; cbn; auto. rewrite andb_false_r. cbn. apply IH.
Qed.

Theorem analyse_consistent : forall funs j, j < length funs ->
  all_stmts (stmt_cons_b (analyse funs) funs (Some j)) (fbody (fn funs j)) = true.
Proof.
  intros funs j Hj. unfold analyse. destruct (an_funs_rows funs []) as (rows & E & R). cbn in E, R.
  destruct (nth_error funs j) as [fd|] eqn:Efd; [|apply nth_error_None in Efd; lia].
  specialize (R j fd Efd). rewrite E. set (final := rows) in *.
  assert (Efn : fn funs j = fd) by (unfold fn; apply nth_error_nth; auto).
  unfold stmt_cons_b, cst_of. rewrite Efn, R. unfold an_fun.
  destruct (fnometa fd).
  { apply chk_allfalse. intros x.
    replace (map (fun _ : param => false) (fparams fd)) with (repeat false (length (fparams fd))).
    - apply cst_true_allfalse.
    - induction (fparams fd) as [|q l IHl]; cbn; auto. f_equal. auto. }
  set (done := firstn j final). unfold an_stmts. fold (go done j (fbody fd) (map (fun p => (pname p, true)) (fparams fd))).
  set (c0 := map (fun p => (pname p, true)) (fparams fd)).
  assert (Enames : map pname (fparams fd) = map fst (go done j (fbody fd) c0)).
  { rewrite go_fst. unfold c0. rewrite map_map. reflexivity. }
  rewrite Enames, combine_fst_snd.
  apply chk_body.
  intros c1 k i Hs. unfold seen_const in Hs.
  destruct (Nat.eqb k j); [discriminate Hs|]. destruct (Nat.ltb_spec k j) as [Hk|Hk]; [|discriminate Hs].
  unfold is_const in *. unfold done in Hs. rewrite nth_firstn in Hs by auto. exact Hs.
Qed.

(* the main program has no parameters *)
Lemma main_consistent : forall mt funs ss, all_stmts (stmt_cons_b mt funs None) ss = true.
Proof. intros mt funs ss. unfold stmt_cons_b, cst_of. apply chk_allfalse. reflexivity. Qed.
