(* C08 — copy mode (every value parameter is a fresh copy): the separation invariant and the frame
   property.  Sep X st: every variable slot that holds a buffer holds a LIVE buffer of its own, the
   temporaries and the extra owners X (holders that are not variables: a for-each loop's copy, a
   pending return value, the caller's temporaries while a callee runs) own further distinct live
   buffers. *)
From Coq Require Import List ZArith Bool Arith Lia Permutation.
Import ListNotations.
From DDP Require Import Lower.Opt2 Lower.Opt2Base.

Record Sep (X : list nat) (st : state) : Prop := mkSep {
  sep_live : forall a l, ptr_at st a l -> live st l;
  sep_inj : forall a b l, ptr_at st a l -> ptr_at st b l -> a = b;
  sep_xlive : forall l, In l (tmps st ++ X) -> live st l;
  sep_xnodup : NoDup (tmps st ++ X);
  sep_xvar : forall a l, ptr_at st a l -> ~ In l (tmps st ++ X) }.

(* what an observer of variable a sees is unchanged from st to st' *)
Definition keeps (st st' : state) (a : nat) : Prop :=
  nth_error (vars st') a = nth_error (vars st) a /\
  forall l, ptr_at st a l -> nth_error (heap st') l = nth_error (heap st) l.

Lemma keeps_refl : forall st a, keeps st st a.
Proof. split; auto. Qed.

Lemma keeps_trans : forall s1 s2 s3 a, keeps s1 s2 a -> keeps s2 s3 a -> keeps s1 s3 a.
Proof.
  intros s1 s2 s3 a [H1 H2] [H3 H4]. split; [congruence|].
  intros l Hp. rewrite H4; auto. unfold ptr_at in *. congruence.
Qed.

Definition unowned (X : list nat) (st : state) (l : nat) : Prop :=
  live st l /\ (forall a, ~ ptr_at st a l) /\ ~ In l (tmps st ++ X).

(* the value an observer reads through variable a *)
Definition value_of (st : state) (a : nat) : option (Z + list Z) :=
  match nth_error (vars st) a with
  | Some (VInt z) => Some (inl z)
  | Some (VPtr l) => match nth_error (heap st) l with Some (Live c) => Some (inr c) | _ => None end
  | _ => None
  end.

Lemma keeps_value : forall st st' a, keeps st st' a -> value_of st' a = value_of st a.
Proof.
  intros st st' a [H1 H2]. unfold value_of. rewrite H1.
  destruct (nth_error (vars st) a) as [[z|l|]|] eqn:E; auto.
  rewrite (H2 l); auto.
Qed.

(* ---------------------------------------------------------------------------------------------- *)
(* NoDup helpers                                                                                   *)
(* ---------------------------------------------------------------------------------------------- *)
Lemma nodup_middle : forall (t X : list nat) l, NoDup (t ++ l :: X) <-> (~ In l (t ++ X) /\ NoDup (t ++ X)).
Proof.
  intros. split.
  - intros H. split.
    + apply NoDup_remove_2; auto.
    + apply NoDup_remove_1 in H; auto.
  - intros [H1 H2]. eapply Permutation_NoDup; [apply Permutation_middle|]. constructor; auto.
Qed.

Lemma in_middle : forall (t X : list nat) l x, In x (t ++ l :: X) <-> (x = l \/ In x (t ++ X)).
Proof.
  intros. rewrite !in_app_iff. cbn. intuition.
Qed.

Lemma nodup_claim : forall t X l, NoDup (t ++ X) -> In l t -> NoDup (remove_nat l t ++ l :: X).
Proof.
  induction t as [|y t IH]; cbn; intros X l Hnd Hin; [contradiction|].
  inv Hnd. destruct (Nat.eqb_spec y l) as [->|Hne].
  - apply nodup_middle. split; auto.
  - destruct Hin as [->|Hin]; [congruence|].
    cbn. constructor; auto.
    rewrite in_middle. intros [E|Hi]; [congruence|].
    apply H1. rewrite in_app_iff in *. destruct Hi as [Hi|Hi]; auto. left. eapply remove_nat_in; eauto.
Qed.

Lemma in_claim : forall t X l x, In x (remove_nat l t ++ l :: X) -> In l t -> In x (t ++ X).
Proof.
  intros t X l x H Hl. rewrite in_middle in H. rewrite in_app_iff in *.
  destruct H as [->|[H|H]]; auto. left. eapply remove_nat_in; eauto.
Qed.

(* ---------------------------------------------------------------------------------------------- *)
(* adoption / transfer of ownership                                                                *)
(* ---------------------------------------------------------------------------------------------- *)
Lemma Sep_alloc : forall X st c l st',
  Sep X st -> alloc c st = (l, st') ->
  Sep X st' /\ (forall c', c = Live c' -> unowned X st' l).
Proof.
  intros X st c l st' HS Ha. apply alloc_spec in Ha. destruct Ha as (-> & Hh & Hv & Ht & Ho).
  assert (Hold : forall l, live st l -> live st' l).
  { intros l [c0 Hl]. exists c0. rewrite Hh. rewrite nth_error_app_old; auto. eapply nth_error_lt; eauto. }
  destruct HS as [S1 S2 S3 S4 S5].
  split.
  - constructor; unfold ptr_at in *; rewrite ?Hv, ?Ht; eauto.
  - intros c' ->. repeat split.
    + exists c'. rewrite Hh. apply nth_error_app_new.
    + intros a Hp. unfold ptr_at in Hp. rewrite Hv in Hp. apply S1 in Hp. apply live_lt in Hp. lia.
    + rewrite Ht. intros Hin. apply S3 in Hin. apply live_lt in Hin. lia.
Qed.

Lemma Sep_add_tmp : forall X st l, Sep X st -> unowned X st l -> Sep X (add_tmp l st).
Proof.
  intros X st l [S1 S2 S3 S4 S5] (U1 & U2 & U3).
  constructor; unfold ptr_at, live in *; cbn in *; eauto.
  - intros l' [<-|H]; eauto.
  - constructor; auto.
  - intros a l' Hp [<-|H]; [eapply U2; eauto | eapply S5; eauto].
Qed.

Lemma Sep_add_x : forall X st l, Sep X st -> unowned X st l -> Sep (l :: X) st.
Proof.
  intros X st l [S1 S2 S3 S4 S5] (U1 & U2 & U3).
  constructor; auto.
  - intros l' H. rewrite in_middle in H. destruct H as [->|H]; auto.
  - apply nodup_middle. auto.
  - intros a l' Hp H. rewrite in_middle in H. destruct H as [->|H]; [eapply U2; eauto | eapply S5; eauto].
Qed.

Lemma Sep_claim : forall X st l, Sep X st -> In l (tmps st) -> Sep (l :: X) (claim l st).
Proof.
  intros X st l [S1 S2 S3 S4 S5] Hin.
  constructor; unfold ptr_at, live in *; cbn in *; eauto.
  - intros l' H. apply S3. eapply in_claim; eauto.
  - apply nodup_claim; auto.
  - intros a l' Hp H. eapply S5; eauto. eapply in_claim; eauto.
Qed.

Lemma Sep_x_swap : forall X st l1 l2, Sep (l1 :: l2 :: X) st -> Sep (l2 :: l1 :: X) st.
Proof.
  intros X st l1 l2 [S1 S2 S3 S4 S5].
  assert (P : Permutation (tmps st ++ l1 :: l2 :: X) (tmps st ++ l2 :: l1 :: X)).
  { apply Permutation_app_head. apply perm_swap. }
  constructor; auto.
  - intros l H. apply S3. eapply Permutation_in; [symmetry; apply P | auto].
  - eapply Permutation_NoDup; eauto.
  - intros a l Hp H. eapply S5; eauto. eapply Permutation_in; [symmetry; apply P | auto].
Qed.

Lemma Sep_x_perm : forall X Y st, Permutation X Y -> Sep X st -> Sep Y st.
Proof.
  intros X Y st P [S1 S2 S3 S4 S5].
  assert (P' : Permutation (tmps st ++ X) (tmps st ++ Y)) by (apply Permutation_app_head; auto).
  constructor; auto.
  - intros l H. apply S3. eapply Permutation_in; [symmetry; apply P' | auto].
  - eapply Permutation_NoDup; eauto.
  - intros a l Hp H. eapply S5; eauto. eapply Permutation_in; [symmetry; apply P' | auto].
Qed.

(* a new variable adopts the buffer l held so far by an extra owner *)
Lemma Sep_new_var_ptr : forall X st l a st',
  Sep (l :: X) st -> new_var (VPtr l) st = (a, st') -> Sep X st'.
Proof.
  intros X st l a st' [S1 S2 S3 S4 S5] Hn. apply new_var_spec in Hn. destruct Hn as (-> & Hv & Hh & Ht & Ho).
  assert (Hl : live st l) by (apply S3; rewrite in_middle; auto).
  apply nodup_middle in S4. destruct S4 as [S4a S4b].
  assert (Hp : forall b l', ptr_at st' b l' -> (b < length (vars st) /\ ptr_at st b l') \/ (b = length (vars st) /\ l' = l)).
  { unfold ptr_at. intros b l' H. rewrite Hv, nth_error_app_snoc in H.
    destruct (Nat.ltb_spec b (length (vars st))); auto.
    destruct (Nat.eqb_spec b (length (vars st))); [|discriminate H]. inv H. auto. }
  constructor; unfold live in *; rewrite ?Hh, ?Ht.
  - intros b l' H. apply Hp in H. destruct H as [[_ H]|[_ ->]]; eauto.
  - intros b c l' H1 H2. apply Hp in H1. apply Hp in H2.
    destruct H1 as [[Hb H1]|[-> ->]], H2 as [[Hc H2]|[-> E]]; subst; eauto; try lia.
    + exfalso. eapply S5; eauto. rewrite in_middle; auto.
    + exfalso. eapply S5; eauto. rewrite in_middle; auto.
  - intros l' H. apply S3. rewrite in_middle. auto.
  - auto.
  - intros b l' H Hin. apply Hp in H. destruct H as [[_ H]|[_ ->]]; auto.
    eapply S5; eauto. rewrite in_middle. auto.
Qed.

Lemma Sep_new_var_int : forall X st z a st',
  Sep X st -> new_var (VInt z) st = (a, st') -> Sep X st'.
Proof.
  intros X st z a st' [S1 S2 S3 S4 S5] Hn. apply new_var_spec in Hn. destruct Hn as (-> & Hv & Hh & Ht & Ho).
  assert (Hp : forall b l', ptr_at st' b l' -> ptr_at st b l').
  { unfold ptr_at. intros b l' H. rewrite Hv, nth_error_app_snoc in H.
    destruct (Nat.ltb_spec b (length (vars st))); auto.
    destruct (Nat.eqb_spec b (length (vars st))); discriminate H. }
  constructor; unfold live in *; rewrite ?Hh, ?Ht; eauto.
Qed.

Lemma new_var_keeps : forall s st a st' b, new_var s st = (a, st') -> b < length (vars st) -> keeps st st' b.
Proof.
  intros s st a st' b Hn Hb. apply new_var_spec in Hn. destruct Hn as (-> & Hv & Hh & Ht & Ho).
  split; [rewrite Hv; apply nth_error_app_old; auto | rewrite Hh; auto].
Qed.

(* freeing a buffer held by an extra owner *)
Lemma Sep_free_x : forall X st l st', Sep (l :: X) st -> free l st = Ok st' -> Sep X st'.
Proof.
  intros X st l st' [S1 S2 S3 S4 S5] Hf. apply free_ok in Hf; [|apply S3; rewrite in_middle; auto]. destruct Hf as (Hl & Hh & Hv & Ht & Ho).
  apply nodup_middle in S4. destruct S4 as [S4a S4b].
  assert (Hk : forall l', l' <> l -> live st l' -> live st' l').
  { intros l' Hne [c Hc]. exists c. rewrite Hh, nth_error_upd_neq; auto. }
  constructor; unfold ptr_at in *; rewrite ?Hv, ?Ht.
  - intros a l' Hp. apply Hk; eauto. intros ->. eapply S5; eauto. rewrite in_middle; auto.
  - eauto.
  - intros l' Hin. apply Hk. { intros ->. auto. } apply S3. rewrite in_middle; auto.
  - auto.
  - intros a l' Hp Hin. eapply S5; eauto. rewrite in_middle; auto.
Qed.

Lemma free_x_keeps : forall X st l st' a, Sep (l :: X) st -> free l st = Ok st' -> keeps st st' a.
Proof.
  intros X st l st' a HS Hf. apply free_ok in Hf; [|apply (sep_xlive _ _ HS); rewrite in_middle; auto]. destruct Hf as (Hl & Hh & Hv & Ht & Ho).
  split; [congruence|]. intros l' Hp. rewrite Hh. apply nth_error_upd_neq.
  intros ->. eapply (sep_xvar _ _ HS); eauto. rewrite in_middle; auto.
Qed.

(* a variable gives up its buffer (assignment target, scope exit) *)
Lemma ptr_at_set_slot : forall st a s b l,
  a < length (vars st) ->
  ptr_at (set_slot a s st) b l <-> ((b = a /\ s = VPtr l) \/ (b <> a /\ ptr_at st b l)).
Proof.
  intros st a s b l Ha. unfold ptr_at, set_slot. cbn. rewrite nth_error_upd.
  destruct (Nat.eqb_spec a b) as [->|Hne].
  - destruct (Nat.ltb_spec b (length (vars st))) as [Hlt|Hge]; [|lia].
    split.
    + intros E. inv E. auto.
    + intros [[_ ->]|[E _]]; congruence.
  - split; [intros E; right; split; [congruence | auto] | intros [[-> _]|[_ E]]; congruence].
Qed.

Lemma Sep_release : forall X st a l st1 s,
  Sep X st -> ptr_at st a l -> free l st = Ok st1 -> (forall l', s <> VPtr l') ->
  Sep X (set_slot a s st1).
Proof.
  intros X st a l st1 s [S1 S2 S3 S4 S5] Hp Hf Hs.
  apply free_ok in Hf; [|eauto]. destruct Hf as (Hl & Hh & Hv & Ht & Ho).
  assert (Ha : a < length (vars st1)) by (rewrite Hv; eapply nth_error_lt; eauto).
  assert (Hk : forall l', l' <> l -> live st l' -> live (set_slot a s st1) l').
  { intros l' Hne [c Hc]. exists c. cbn. rewrite Hh, nth_error_upd_neq; auto. }
  assert (Hq : forall b l', ptr_at (set_slot a s st1) b l' -> b <> a /\ ptr_at st b l').
  { intros b l' H. apply ptr_at_set_slot in H; auto. destruct H as [[_ E]|[Hne H]]; [exfalso; eapply Hs; eauto|].
    split; auto. unfold ptr_at in *. congruence. }
  constructor; cbn [tmps set_slot set_vars]; rewrite ?Ht.
  - intros b l' H. apply Hq in H. destruct H as [Hne H]. apply Hk; eauto.
    intros ->. apply Hne. eauto.
  - intros b c l' H1 H2. apply Hq in H1. apply Hq in H2. destruct H1, H2. eauto.
  - intros l' Hin. apply Hk; auto. intros ->. eapply S5; eauto.
  - auto.
  - intros b l' H. apply Hq in H. destruct H. eauto.
Qed.

Lemma Sep_replace : forall X st a l l' st1,
  Sep (l' :: X) st -> ptr_at st a l -> free l st = Ok st1 ->
  Sep X (set_slot a (VPtr l') st1).
Proof.
  intros X st a l l' st1 [S1 S2 S3 S4 S5] Hp Hf.
  apply free_ok in Hf; [|eauto]. destruct Hf as (Hl & Hh & Hv & Ht & Ho).
  apply nodup_middle in S4. destruct S4 as [S4a S4b].
  assert (Ha : a < length (vars st1)) by (rewrite Hv; eapply nth_error_lt; eauto).
  assert (Hll : l' <> l). { intros ->. eapply S5; eauto. rewrite in_middle; auto. }
  assert (Hk : forall l0, l0 <> l -> live st l0 -> live (set_slot a (VPtr l') st1) l0).
  { intros l0 Hne [c Hc]. exists c. cbn. rewrite Hh, nth_error_upd_neq; auto. }
  assert (Hq : forall b l0, ptr_at (set_slot a (VPtr l') st1) b l0 -> (b = a /\ l0 = l') \/ (b <> a /\ ptr_at st b l0)).
  { intros b l0 H. apply ptr_at_set_slot in H; auto. destruct H as [[-> E]|[Hne H]]; [inv E; auto|].
    right. split; auto. unfold ptr_at in *. congruence. }
  constructor; cbn [tmps set_slot set_vars]; rewrite ?Ht.
  - intros b l0 H. apply Hq in H. destruct H as [[-> ->]|[Hne H]].
    + apply Hk; auto. apply S3. rewrite in_middle; auto.
    + apply Hk; eauto. intros ->. apply Hne. eauto.
  - intros b c l0 H1 H2. apply Hq in H1. apply Hq in H2.
    destruct H1 as [[-> ->]|[Hb H1]], H2 as [[-> E]|[Hc H2]]; subst; eauto; try congruence.
    + exfalso. eapply S5; eauto. rewrite in_middle; auto.
    + exfalso. eapply S5; eauto. rewrite in_middle; auto.
  - intros l0 Hin. apply Hk. { intros ->. eapply S5; eauto. rewrite in_middle; auto. }
    apply S3. rewrite in_middle; auto.
  - auto.
  - intros b l0 H Hin. apply Hq in H. destruct H as [[-> ->]|[Hne H]]; auto.
    eapply S5; eauto. rewrite in_middle; auto.
Qed.

Lemma release_keeps : forall X st a l st1 s b,
  Sep X st -> ptr_at st a l -> free l st = Ok st1 -> b <> a -> keeps st (set_slot a s st1) b.
Proof.
  intros X st a l st1 s b HS Hp Hf Hne. apply free_ok in Hf; [|eapply (sep_live _ _ HS); eauto]. destruct Hf as (Hl & Hh & Hv & Ht & Ho).
  split; cbn.
  - rewrite nth_error_upd_neq; auto. congruence.
  - intros l' Hp'. rewrite Hh. apply nth_error_upd_neq. intros ->. apply Hne. eapply (sep_inj _ _ HS); eauto.
Qed.

(* overwriting a number *)
Lemma Sep_set_int : forall X st a z z',
  Sep X st -> nth_error (vars st) a = Some (VInt z) -> Sep X (set_slot a (VInt z') st).
Proof.
  intros X st a z z' [S1 S2 S3 S4 S5] Ha.
  assert (Hlt : a < length (vars st)) by (eapply nth_error_lt; eauto).
  assert (Hq : forall b l, ptr_at (set_slot a (VInt z') st) b l -> ptr_at st b l).
  { intros b l H. apply ptr_at_set_slot in H; auto. destruct H as [[_ E]|[_ H]]; [discriminate E | auto]. }
  constructor; cbn [tmps heap set_slot set_vars live]; eauto.
Qed.

Lemma set_slot_keeps : forall st a s b, b <> a -> keeps st (set_slot a s st) b.
Proof. intros. split; cbn; auto. apply nth_error_upd_neq; auto. Qed.

(* in-place write into the buffer of variable a *)
Lemma Sep_write : forall X st a l c st',
  Sep X st -> ptr_at st a l -> write l c st = Ok st' -> Sep X st'.
Proof.
  intros X st a l c st' [S1 S2 S3 S4 S5] Hp Hw. apply write_ok in Hw. destruct Hw as (Hl & Hh & Hv & Ht & Ho).
  rewrite (target_live st l) in Hh, Hl by eauto.
  assert (Hk : forall l', live st l' -> live st' l').
  { intros l' [c0 Hc]. unfold live. rewrite Hh, nth_error_upd.
    destruct (Nat.eqb_spec l l'); [|eauto]. subst. apply nth_error_lt in Hc.
    destruct (Nat.ltb_spec l' (length (heap st))); [eauto | lia]. }
  constructor; unfold ptr_at in *; rewrite ?Hv, ?Ht; eauto.
Qed.

Lemma write_keeps : forall X st a l c st' b,
  Sep X st -> ptr_at st a l -> write l c st = Ok st' -> b <> a -> keeps st st' b.
Proof.
  intros X st a l c st' b HS Hp Hw Hne. apply write_ok in Hw. destruct Hw as (Hl & Hh & Hv & Ht & Ho).
  rewrite (target_live st l) in Hh, Hl by (eapply sep_live; eauto).
  split; [congruence|]. intros l' Hp'. rewrite Hh. apply nth_error_upd_neq.
  intros ->. apply Hne. eapply (sep_inj _ _ HS); eauto.
Qed.

(* ---------------------------------------------------------------------------------------------- *)
(* end of statement                                                                                *)
(* ---------------------------------------------------------------------------------------------- *)
Lemma free_list_spec : forall ls st st',
  free_list ls st = Ok st' -> (forall l, In l ls -> live st l) -> NoDup ls ->
  vars st' = vars st /\ tmps st' = tmps st /\ out st' = out st /\ length (heap st') = length (heap st) /\
  (forall l, ~ In l ls -> nth_error (heap st') l = nth_error (heap st) l) /\
  (forall l, In l ls -> l < length (heap st)).
Proof.
  induction ls as [|l ls IH]; cbn; intros st st' H Hlv Hnd.
  - inv H. repeat split; auto. contradiction.
  - bind_inv H. apply free_ok in Hb; [|auto]. destruct Hb as (Hl & Hh & Hv & Ht & Ho). inv Hnd.
    apply IH in Hk; auto.
    + destruct Hk as (K1 & K2 & K3 & K4 & K5 & K6).
      repeat split; try congruence.
      * rewrite K4, Hh, upd_length. auto.
      * intros l' Hn. rewrite K5 by tauto. rewrite Hh. apply nth_error_upd_neq. tauto.
      * intros l' [<-|Hin]; auto. apply K6 in Hin. rewrite Hh, upd_length in Hin. auto.
    + intros l' Hin. destruct (Hlv l' (or_intror Hin)) as [c Hc]. exists c. rewrite Hh, nth_error_upd_neq; auto.
      intros ->. auto.
Qed.

Lemma nodup_app_disj : forall (t X : list nat) l, NoDup (t ++ X) -> In l t -> In l X -> False.
Proof.
  induction t as [|y t IH]; cbn; intros X l H Ht Hx; [contradiction|].
  inv H. destruct Ht as [->|Ht]; [apply H2; apply in_or_app; auto | eauto].
Qed.

Lemma nodup_app_l : forall (t X : list nat), NoDup (t ++ X) -> NoDup t.
Proof.
  induction t as [|y t IH]; cbn; intros X H; [constructor|]. inv H. constructor; eauto.
  intro Hi. apply H2. apply in_or_app; auto.
Qed.

Lemma nodup_app_r : forall (t X : list nat), NoDup (t ++ X) -> NoDup X.
Proof. induction t as [|y t IH]; cbn; intros X H; auto. inv H. auto. Qed.

Lemma end_stmt_spec : forall X st st',
  Sep X st -> end_stmt st = Ok st' ->
  Sep X st' /\ tmps st' = [] /\ vars st' = vars st /\ out st' = out st /\ (forall a, keeps st st' a).
Proof.
  intros X st st' [S1 S2 S3 S4 S5] H. unfold end_stmt in H. bind_inv H. inv Hk.
  apply free_list_spec in Hb; [|intros l Hl; apply S3; apply in_or_app; auto|eapply nodup_app_l; eauto].
  destruct Hb as (K1 & K2 & K3 & K4 & K5 & K6).
  assert (Hk : forall l, ~ In l (tmps st) -> live st l -> live (set_tmps a []) l).
  { intros l Hn [c Hc]. exists c. cbn. rewrite K5; auto. }
  split; [|repeat split; cbn; auto].
  - constructor; unfold ptr_at in *; cbn [vars tmps set_tmps app]; rewrite ?K1.
    + intros b l Hp. apply Hk; eauto. intros Hin. eapply S5; eauto. apply in_or_app; auto.
    + eauto.
    + intros l Hin. apply Hk. { intros Hi. eapply nodup_app_disj; eauto. } apply S3. apply in_or_app; auto.
    + eapply nodup_app_r; eauto.
    + intros b l Hp Hin. eapply S5; eauto. apply in_or_app; auto.
  - congruence.
  - intros l Hp. apply K5. intros Hin. eapply S5; eauto. apply in_or_app; auto.
Qed.

(* ---------------------------------------------------------------------------------------------- *)
(* expressions                                                                                     *)
(* ---------------------------------------------------------------------------------------------- *)
Definition rv_ok (st : state) (v : rv) : Prop :=
  match v with
  | RInt _ => True
  | RSeq l true => In l (tmps st)
  | RSeq l false => exists a, ptr_at st a l
  end.

(* what evaluating an expression may do: allocate temporaries *)
Definition ext (st st' : state) : Prop :=
  vars st' = vars st /\ out st' = out st /\ (exists hs, heap st' = heap st ++ hs) /\ (exists t, tmps st' = t ++ tmps st).

Lemma ext_refl : forall st, ext st st.
Proof. intros. repeat split; auto; [exists []; rewrite app_nil_r; auto | exists []; auto]. Qed.

Lemma ext_trans : forall a b c, ext a b -> ext b c -> ext a c.
Proof.
  intros a b c (A1 & A2 & [h1 A3] & [t1 A4]) (B1 & B2 & [h2 B3] & [t2 B4]).
  repeat split; try congruence.
  - exists (h1 ++ h2). rewrite B3, A3, app_assoc. auto.
  - exists (t2 ++ t1). rewrite B4, A4, app_assoc. auto.
Qed.

Lemma ext_heap : forall st st' l, ext st st' -> l < length (heap st) -> nth_error (heap st') l = nth_error (heap st) l.
Proof. intros st st' l (_ & _ & [hs H] & _) Hl. rewrite H. apply nth_error_app1; auto. Qed.

Lemma ext_keeps : forall X st st' a, Sep X st -> ext st st' -> keeps st st' a.
Proof.
  intros X st st' a HS He. split; [destruct He as (-> & _); auto|].
  intros l Hp. apply ext_heap; auto. apply live_lt. eapply sep_live; eauto.
Qed.

Lemma rv_ok_ext : forall st st' v, ext st st' -> rv_ok st v -> rv_ok st' v.
Proof.
  intros st st' [z|l [|]] (E1 & _ & _ & [t E4]); cbn; auto.
  - intros H. rewrite E4. apply in_or_app; auto.
  - intros [a H]. exists a. unfold ptr_at in *. congruence.
Qed.

Lemma alloc_tmp_spec : forall X st c l st1,
  Sep X st -> alloc (Live c) st = (l, st1) ->
  Sep X (add_tmp l st1) /\ ext st (add_tmp l st1) /\ In l (tmps (add_tmp l st1)) /\
  nth_error (heap (add_tmp l st1)) l = Some (Live c).
Proof.
  intros X st c l st1 HS Ha. pose proof (Sep_alloc _ _ _ _ _ HS Ha) as [HS1 HU].
  apply alloc_spec in Ha. destruct Ha as (-> & Hh & Hv & Ht & Ho).
  split; [apply Sep_add_tmp; eauto|]. split; [|split].
  - repeat split; cbn; auto. { exists [Live c]; auto. } exists [length (heap st)]. cbn. congruence.
  - cbn. auto.
  - cbn. rewrite Hh. apply nth_error_app_new.
Qed.

Lemma rv_read_live : forall X st l tmp, Sep X st -> rv_ok st (RSeq l tmp) -> live st l.
Proof.
  intros X st l [|] HS H; cbn in H.
  - eapply sep_xlive; eauto. apply in_or_app; auto.
  - destruct H as [a H]. eapply sep_live; eauto.
Qed.

Lemma eval_spec : forall X e x st v st',
  eval e x st = Ok (v, st') -> Sep X st ->
  Sep X st' /\ ext st st' /\ rv_ok st' v.
Proof.
  intros X e x. induction x as [z|y|c|a IHa b IHb|a IHa i IHi|a IHa]; intros st v st' H HS; cbn in H.
  - inv H. split; [auto | split; [apply ext_refl | exact I]].
  - destruct (lookup e y) as [ad|]; [|discriminate H]. bind_inv H. apply get_slot_ok in Hb.
    destruct a as [z|l|]; inv Hk; (split; [auto | split; [apply ext_refl | cbn; eauto]]).
  - destruct (alloc (Live c) st) as [l st1] eqn:Ea. inv H.
    destruct (alloc_tmp_spec _ _ _ _ _ HS Ea) as (A1 & A2 & A3 & A4). unfold alloc in Ea. inv Ea. auto.
  - bind_inv H. destruct a0 as [va st1]. bind_inv Hk. destruct a0 as [vb st2].
    destruct (IHa _ _ _ Hb HS) as (S1 & E1 & R1). destruct (IHb _ _ _ Hb0 S1) as (S2 & E2 & R2).
    destruct va as [z|la ta]; [discriminate Hk0|]. bind_inv Hk0. bind_inv Hk.
    destruct (alloc (Live (a0 ++ a1)) st2) as [l st3] eqn:Ea. inv Hk0.
    destruct (alloc_tmp_spec _ _ _ _ _ S2 Ea) as (A1 & A2 & A3 & A4). unfold alloc in Ea. inv Ea.
    split; [auto | split; [|auto]]. eapply ext_trans; eauto. eapply ext_trans; eauto.
  - bind_inv H. destruct a0 as [va st1]. bind_inv Hk. destruct a0 as [vi st2].
    destruct (IHa _ _ _ Hb HS) as (S1 & E1 & R1). destruct (IHi _ _ _ Hb0 S1) as (S2 & E2 & R2).
    destruct va as [z|la ta]; [discriminate Hk0|]. destruct vi as [z|li ti]; [|discriminate Hk0].
    bind_inv Hk0. destruct (idx_ok z (length a0)); inv Hk.
    split; [auto | split; [|exact I]]. eapply ext_trans; eauto.
  - bind_inv H. destruct a0 as [va st1]. destruct (IHa _ _ _ Hb HS) as (S1 & E1 & R1).
    destruct va as [z|la ta]; [discriminate Hk|]. bind_inv Hk. inv Hk0. split; [auto | split; [auto | exact I]].
Qed.

(* claimOrCopy: the receiver gets a buffer nobody else holds *)
Lemma claim_or_copy_spec : forall X st l tmp l' st',
  Sep X st -> rv_ok st (RSeq l tmp) -> claim_or_copy l tmp st = Ok (l', st') ->
  Sep (l' :: X) st' /\ vars st' = vars st /\ out st' = out st /\
  (forall k, k < length (heap st) -> nth_error (heap st') k = nth_error (heap st) k) /\
  (forall x, In x (tmps st') -> In x (tmps st)) /\
  (exists c, nth_error (heap st) l = Some (Live c) /\ nth_error (heap st') l' = Some (Live c)).
Proof.
  intros X st l tmp l' st' HS Hr H. unfold claim_or_copy in H. destruct tmp.
  - inv H. cbn in Hr. split; [apply Sep_claim; auto|]. cbn. split; [auto|split; [auto|split; [auto|split]]].
    + intros x Hx. eapply remove_nat_in; eauto.
    + destruct (rv_read_live _ _ _ true HS Hr) as [c Hc]. eauto.
  - unfold copy_of in H. bind_inv H. apply read_ok_live in Hb; [|eapply rv_read_live; eauto].
    destruct (alloc (Live a) st) as [l0 st0] eqn:Ea. inv Hk.
    pose proof (Sep_alloc _ _ _ _ _ HS Ea) as [HS1 HU].
    apply alloc_spec in Ea. destruct Ea as (-> & Hh & Hv & Ht & Ho).
    split; [apply Sep_add_x; eauto|]. split; [auto|split; [auto|split; [|split]]].
    + intros k Hk. rewrite Hh. apply nth_error_app_old; auto.
    + rewrite Ht. auto.
    + exists a. split; auto. rewrite Hh. apply nth_error_app_new.
Qed.

Lemma own_value_spec : forall X st v s st',
  Sep X st -> rv_ok st v -> own_value v st = Ok (s, st') ->
  match s with VPtr l => Sep (l :: X) st' | VInt _ => Sep X st' | VDead => False end /\
  vars st' = vars st /\ out st' = out st /\
  (forall k, k < length (heap st) -> nth_error (heap st') k = nth_error (heap st) k) /\
  (forall x, In x (tmps st') -> In x (tmps st)).
Proof.
  intros X st v s st' HS Hr H. destruct v as [z|l tmp]; cbn in H.
  - inv H. split; [auto|split; [auto|split; [auto|split; auto]]].
  - bind_inv H. destruct a as [l' st1]. inv Hk.
    destruct (claim_or_copy_spec _ _ _ _ _ _ HS Hr Hb) as (A1 & A2 & A3 & A4 & A5 & A6).
    split; [auto|split; [auto|split; [auto|split; auto]]].
Qed.

Lemma heap_keeps : forall X st st' a, Sep X st -> vars st' = vars st ->
  (forall k, k < length (heap st) -> nth_error (heap st') k = nth_error (heap st) k) -> keeps st st' a.
Proof.
  intros X st st' a HS Hv Hh. split; [congruence|]. intros l Hp. apply Hh. apply live_lt. eapply sep_live; eauto.
Qed.

(* ---------------------------------------------------------------------------------------------- *)
(* statements                                                                                      *)
(* ---------------------------------------------------------------------------------------------- *)
Lemma upd_app_l : forall A (h : list A) x n v, n < length h -> upd (h ++ [x]) n v = upd h n v ++ [x].
Proof.
  induction h as [|y h IH]; intros x [|n] v Hn; cbn in *; try lia; auto. f_equal. apply IH. lia.
Qed.

Lemma store_value_spec : forall X st a v st',
  Sep X st -> rv_ok st v -> store_value a v st = Ok st' ->
  Sep X st' /\ length (vars st') = length (vars st) /\ out st' = out st /\
  (forall x, In x (tmps st') -> In x (tmps st)) /\
  (forall b, b <> a -> keeps st st' b).
Proof.
  intros X st a v st' HS Hr H. unfold store_value in H. bind_inv H. apply get_slot_ok in Hb.
  destruct a0 as [z0|lold|]; destruct v as [z|l tmp]; try discriminate Hk.
  - inv Hk. split; [eapply Sep_set_int; eauto|]. cbn. rewrite upd_length.
    split; [auto|split; [auto|split; [auto|]]]. intros b Hne. apply set_slot_keeps; auto.
  - bind_as Hk r C1 Hk. destruct r as [l' st2']. bind_as Hk st2 C2 Hk. inv Hk.
    destruct (claim_or_copy_spec _ _ _ _ _ _ HS Hr C1) as (A1 & A2 & A3 & A4 & A5 & A6).
    assert (Hp : ptr_at st2' a lold) by (unfold ptr_at; congruence).
    split; [eapply Sep_replace; eauto|].
    pose proof (free_ok _ _ _ C2 (sep_live _ _ A1 _ _ Hp)) as (F1 & F2 & F3 & F4 & F5).
    cbn. rewrite upd_length. split; [congruence|split; [congruence|split]].
    + rewrite F4. auto.
    + intros b Hneb. eapply keeps_trans; [eapply heap_keeps; eauto|].
      eapply release_keeps; eauto.
Qed.

Definition step_ok (X : list nat) (st st' : state) (P : nat -> Prop) : Prop :=
  Sep X st' /\ tmps st' = [] /\ length (vars st) <= length (vars st') /\
  (forall b, b < length (vars st) -> ~ P b -> keeps st st' b).

Lemma do_decl_spec : forall X e x ex st e' st',
  do_decl e x ex st = Ok (e', st') -> Sep X st ->
  step_ok X st st' (fun _ => False) /\ e' = (x, length (vars st)) :: e /\ length (vars st') = S (length (vars st)) /\
  out st' = out st.
Proof.
  intros X e x ex st e' st' H HS. unfold do_decl in H. bind_inv H. destruct a as [v st1].
  bind_inv Hk. destruct a as [s st2]. destruct (new_var s st2) as [ad st3] eqn:En. bind_inv Hk0. inv Hk.
  destruct (eval_spec _ _ _ _ _ _ Hb HS) as (S1 & E1 & R1).
  destruct (own_value_spec _ _ _ _ _ S1 R1 Hb0) as (O1 & O2 & O3 & O4 & O5).
  assert (S3 : Sep X st3).
  { destruct s as [z|l|]; [eapply Sep_new_var_int; eauto | eapply Sep_new_var_ptr; eauto | contradiction]. }
  destruct (end_stmt_spec _ _ _ S3 Hb1) as (T1 & T2 & T3 & T4 & T5).
  pose proof (new_var_spec _ _ _ _ En) as (-> & N2 & N3 & N4 & N5).
  pose proof E1 as (Ev & Eo & Eh & Et).
  assert (Hlen : length (vars st') = S (length (vars st))).
  { rewrite T3, N2, app_length, O2, Ev. cbn. lia. }
  split; [|split; [rewrite O2, Ev; auto | split; [auto | congruence]]].
  split; [auto|split; [auto|split; [lia|]]].
  intros b Hb' _. eapply keeps_trans; [eapply ext_keeps; [exact HS|eassumption]|].
  eapply keeps_trans; [eapply heap_keeps; eauto|].
  eapply keeps_trans; [eapply new_var_keeps; eauto; rewrite O2, Ev; auto | apply T5].
Qed.

Lemma do_assign_spec : forall X e x ex st st',
  do_assign e x ex st = Ok st' -> Sep X st -> tmps st = [] ->
  exists a, lookup e x = Some a /\ step_ok X st st' (fun b => b = a) /\ length (vars st') = length (vars st).
Proof.
  intros X e x ex st st' H HS Ht. unfold do_assign in H. bind_inv H. destruct a as [v st1].
  destruct (lookup e x) as [ad|]; [|discriminate Hk]. bind_inv Hk.
  destruct (eval_spec _ _ _ _ _ _ Hb HS) as (S1 & E1 & R1).
  destruct (store_value_spec _ _ _ _ _ S1 R1 Hb0) as (V1 & V2 & V3 & V4 & V5).
  destruct (end_stmt_spec _ _ _ V1 Hk0) as (T1 & T2 & T3 & T4 & T5).
  exists ad. split; auto. pose proof E1 as (Ev & Eo & Eh & Et).
  split; [|congruence].
  split; [auto|split; [auto|split; [rewrite T3, V2, Ev; lia|]]].
  intros b Hb' Hne. eapply keeps_trans; [eapply ext_keeps; [exact HS|eassumption]|].
  eapply keeps_trans; [apply V5; auto | apply T5].
Qed.

Lemma do_assign_idx_spec : forall X e x i v st st',
  do_assign_idx e x i v st = Ok st' -> Sep X st ->
  exists a, lookup e x = Some a /\ step_ok X st st' (fun b => b = a) /\ length (vars st') = length (vars st).
Proof.
  intros X e x i v st st' H HS. unfold do_assign_idx in H.
  bind_inv H. destruct a as [vv st1]. bind_inv Hk. destruct a as [vi st2].
  destruct (lookup e x) as [ad|]; [|discriminate Hk0].
  destruct vv as [zv|? ?]; [|discriminate Hk0]. destruct vi as [zi|? ?]; [|discriminate Hk0].
  bind_inv Hk0. apply get_slot_ok in Hb1. destruct a as [?|l|]; try discriminate Hk.
  bind_inv Hk. destruct (idx_ok zi (length a)); [|discriminate Hk0]. bind_inv Hk0.
  destruct (eval_spec _ _ _ _ _ _ Hb HS) as (S1 & E1 & R1).
  destruct (eval_spec _ _ _ _ _ _ Hb0 S1) as (S2 & E2 & R2).
  assert (Hp : ptr_at st2 ad l) by exact Hb1.
  pose proof (Sep_write _ _ _ _ _ _ S2 Hp Hb3) as S3.
  destruct (end_stmt_spec _ _ _ S3 Hk) as (T1 & T2 & T3 & T4 & T5).
  pose proof (write_ok _ _ _ _ Hb3) as (W1 & W2 & W3 & W4 & W5).
  pose proof (ext_trans _ _ _ E1 E2) as E12. pose proof E12 as (Ev & Eo & Eh & Et).
  exists ad. split; auto. split; [|congruence].
  split; [auto|split; [auto|split; [rewrite T3, W3, Ev; lia|]]].
  intros b Hb' Hne. eapply keeps_trans; [eapply ext_keeps; [exact HS|eassumption]|].
  eapply keeps_trans; [eapply write_keeps; eauto | apply T5].
Qed.

Lemma do_print_spec : forall X e ex st st',
  do_print e ex st = Ok st' -> Sep X st ->
  step_ok X st st' (fun _ => False) /\ length (vars st') = length (vars st).
Proof.
  intros X e ex st st' H HS. unfold do_print in H. bind_inv H. destruct a as [v st1].
  destruct (eval_spec _ _ _ _ _ _ Hb HS) as (S1 & E1 & R1).
  assert (K : exists o, end_stmt (add_out st1 o) = Ok st').
  { destruct v as [z|l t]; [eauto|]. bind_inv Hk. eauto. }
  destruct K as [o K].
  assert (S1' : Sep X (add_out st1 o)) by (destruct S1; constructor; auto).
  destruct (end_stmt_spec _ _ _ S1' K) as (T1 & T2 & T3 & T4 & T5).
  pose proof E1 as (Ev & Eo & Eh & Et). cbn in T3.
  split; [|congruence].
  split; [auto|split; [auto|split; [rewrite T3, Ev; lia|]]].
  intros b Hb' _. eapply keeps_trans; [eapply ext_keeps; [exact HS|eassumption]|].
  eapply keeps_trans; [|apply T5]. split; auto.
Qed.

Lemma do_cond_spec : forall X e c st b st',
  do_cond e c st = Ok (b, st') -> Sep X st ->
  step_ok X st st' (fun _ => False) /\ vars st' = vars st /\ out st' = out st.
Proof.
  intros X e c st b st' H HS. unfold do_cond in H. bind_inv H. destruct a as [v st1].
  destruct v as [z|? ?]; [|discriminate Hk]. bind_inv Hk. inv Hk0.
  destruct (eval_spec _ _ _ _ _ _ Hb HS) as (S1 & E1 & R1).
  destruct (end_stmt_spec _ _ _ S1 Hb0) as (T1 & T2 & T3 & T4 & T5).
  pose proof E1 as (Ev & Eo & Eh & Et).
  split; [|split; congruence].
  split; [auto|split; [auto|split; [rewrite T3, Ev; lia|]]].
  intros b' Hb' _. eapply keeps_trans; [eapply ext_keeps; [exact HS|eassumption]|apply T5].
Qed.

Lemma for_init_spec : forall X e ex st lc c st',
  for_init e ex st = Ok (lc, c, st') -> Sep X st ->
  step_ok (lc :: X) st st' (fun _ => False) /\ vars st' = vars st /\ out st' = out st.
Proof.
  intros X e ex st lc c st' H HS. unfold for_init in H. bind_inv H. destruct a as [v st1].
  destruct v as [?|l tmp]; [discriminate Hk|]. bind_inv Hk. destruct a as [lc' st2].
  bind_inv Hk0. bind_inv Hk. inv Hk0.
  destruct (eval_spec _ _ _ _ _ _ Hb HS) as (S1 & E1 & R1).
  destruct (claim_or_copy_spec _ _ _ _ _ _ S1 R1 Hb0) as (A1 & A2 & A3 & A4 & A5 & A6).
  destruct (end_stmt_spec _ _ _ A1 Hb2) as (T1 & T2 & T3 & T4 & T5).
  pose proof E1 as (Ev & Eo & Eh & Et).
  split; [|split; congruence].
  split; [auto|split; [auto|split; [rewrite T3, A2, Ev; lia|]]].
  intros b' Hb' _. eapply keeps_trans; [eapply ext_keeps; [exact HS|eassumption]|].
  eapply keeps_trans; [eapply heap_keeps; eauto | apply T5].
Qed.

(* ---------------------------------------------------------------------------------------------- *)
(* generic re-arrangement of the non-variable owners                                               *)
(* ---------------------------------------------------------------------------------------------- *)
Lemma Sep_perm : forall X X' st st',
  vars st' = vars st -> heap st' = heap st -> Permutation (tmps st ++ X) (tmps st' ++ X') ->
  Sep X st -> Sep X' st'.
Proof.
  intros X X' st st' Hv Hh P [S1 S2 S3 S4 S5].
  constructor; unfold ptr_at, live in *; rewrite ?Hv, ?Hh; eauto.
  - intros l H. apply S3. eapply Permutation_in; [symmetry; apply P | auto].
  - eapply Permutation_NoDup; eauto.
  - intros a l Hp H. eapply S5; eauto. eapply Permutation_in; [symmetry; apply P | auto].
Qed.

Lemma Sep_set_nonptr : forall X st a s s',
  Sep X st -> nth_error (vars st) a = Some s -> (forall l, s <> VPtr l) -> (forall l, s' <> VPtr l) ->
  Sep X (set_slot a s' st).
Proof.
  intros X st a s s' [S1 S2 S3 S4 S5] Ha Hs Hs'.
  assert (Hlt : a < length (vars st)) by (eapply nth_error_lt; eauto).
  assert (Hq : forall b l, ptr_at (set_slot a s' st) b l -> ptr_at st b l).
  { intros b l H. apply ptr_at_set_slot in H; auto. destruct H as [[_ E]|[_ H]]; [exfalso; eapply Hs'; eauto | auto]. }
  constructor; cbn [tmps heap set_slot set_vars live]; eauto.
Qed.

Definition env_ok (genv e : env) (st : state) : Prop :=
  (forall a, In a (map snd e) -> a < length (vars st)) /\ incl (map snd genv) (map snd e).

Lemma step_ok_trans : forall X st st1 st2 (P P' : nat -> Prop),
  step_ok X st st1 P -> step_ok X st1 st2 P' ->
  (forall b, b < length (vars st) -> ~ P b -> ~ P' b) ->
  step_ok X st st2 P.
Proof.
  intros X st st1 st2 P P' (A1 & A2 & A3 & A4) (B1 & B2 & B3 & B4) HP.
  split; [auto|split; [auto|split; [lia|]]].
  intros b Hb Hn. eapply keeps_trans; [apply A4; auto|apply B4; [lia|auto]].
Qed.

Lemma step_ok_weaken : forall X st st' (P P' : nat -> Prop),
  step_ok X st st' P -> (forall b, b < length (vars st) -> P b -> P' b) -> step_ok X st st' P'.
Proof.
  intros X st st' P P' (A1 & A2 & A3 & A4) HP. split; [auto|split; [auto|split; [auto|]]].
  intros b Hb Hn. apply A4; auto.
Qed.

(* what the recursive executor is assumed to satisfy (instantiated by induction on the fuel) *)
Definition ex_ok (genv : env) (ex : env -> list stmt -> state -> res state) : Prop :=
  forall X e ss st st', ex e ss st = Ok st' -> Sep X st -> tmps st = [] -> env_ok genv e st ->
    step_ok X st st' (fun b => In b (map snd e)).

Arguments new_var : simpl never.
Arguments alloc : simpl never.

Lemma for_loop_spec : forall genv ex x body e c X st st',
  ex_ok genv ex ->
  for_loop ex x body e c st = Ok st' -> Sep X st -> tmps st = [] -> env_ok genv e st ->
  step_ok X st st' (fun b => In b (map snd e)).
Proof.
  intros genv ex x body e c. induction c as [|z c IH]; intros X st st' Hex H HS Ht He; cbn in H.
  - inv H. split; [auto|split; [auto|split; [lia|]]]. intros; apply keeps_refl.
  - destruct (new_var (VInt z) st) as [a st1] eqn:En. bind_inv H.
    pose proof (Sep_new_var_int _ _ _ _ _ HS En) as S1.
    pose proof (new_var_spec _ _ _ _ En) as (-> & N2 & N3 & N4 & N5).
    assert (He1 : env_ok genv ((x, length (vars st)) :: e) st1).
    { destruct He as [He1 He2]. split.
      - cbn. intros b [<-|Hb']; rewrite N2, app_length; cbn; [lia|]. apply He1 in Hb'. lia.
      - cbn. intros b Hb'. right. auto. }
    assert (S1' := Hex X _ _ _ _ Hb S1 (eq_trans N4 Ht) He1).
    assert (He2 : env_ok genv e a0).
    { destruct He as [He1' He2']. split; auto. intros b Hb'. apply He1' in Hb'.
      destruct S1' as (_ & _ & L & _). rewrite N2, app_length in L. cbn in L. lia. }
    destruct S1' as (B1 & B2 & B3 & B4).
    pose proof (IH X a0 st' Hex Hk B1 B2 He2) as S2.
    eapply step_ok_trans with (st1 := a0); [|exact S2|auto].
    split; [auto|split; [auto|split; [rewrite N2, app_length in B3; cbn in B3; lia|]]].
    intros b Hb' Hn. eapply keeps_trans; [eapply new_var_keeps; eauto|].
    apply B4. { rewrite N2, app_length. cbn. lia. }
    cbn. intros [E|Hi]; [lia|auto].
Qed.

(* ---------------------------------------------------------------------------------------------- *)
(* calls (copy mode)                                                                               *)
(* ---------------------------------------------------------------------------------------------- *)
Fixpoint ref_addrs (e : env) (args : list arg) : list nat :=
  match args with
  | [] => []
  | ARef x :: r => match lookup e x with Some a => a :: ref_addrs e r | None => ref_addrs e r end
  | AVal _ :: r => ref_addrs e r
  end.

Lemma bind_params_copy_spec : forall mt all f ps i args e ce X st ce' st',
  bind_params false mt all f i ps args e ce st = Ok (ce', st') -> Sep X st ->
  Sep X st' /\ True /\ length (vars st) <= length (vars st') /\ out st' = out st /\
  (forall b, b < length (vars st) -> keeps st st' b) /\
  (forall a, In a (map snd ce') ->
     In a (map snd ce) \/ In a (ref_addrs e args) \/ (length (vars st) <= a < length (vars st'))) /\
  incl (map snd ce) (map snd ce').
Proof.
  intros mt all f ps. induction ps as [|p ps IH]; intros i args e ce X st ce' st' H HS;
    destruct args as [|a args]; cbn in H; try discriminate H.
  - inv H. split; [auto|split; [auto|split; [lia|split; [auto|split; [intros; apply keeps_refl|split; [auto|apply incl_refl]]]]]].
  - destruct (pref p) eqn:Ep; destruct a as [ex|x]; try discriminate H.
    + (* Referenz *)
      destruct (lookup e x) as [ad|] eqn:El; [|discriminate H].
      destruct (IH _ _ _ _ _ _ _ _ H HS) as (A1 & A2 & A3 & A4 & A5 & A6 & A7).
      split; [auto|split; [auto|split; [auto|split; [auto|split; [auto|split]]]]].
      * intros a Ha. apply A6 in Ha. cbn in Ha. cbn [ref_addrs]. rewrite El. cbn. intuition.
      * intros a Ha. apply A7. cbn. auto.
    + (* value *)
      bind_inv H. destruct a as [v st1].
      destruct (eval_spec _ _ _ _ _ _ Hb HS) as (S1 & E1 & R1). pose proof E1 as (Ev & Eo & Eh & Et).
      destruct v as [z|l tmp].
      * destruct (new_var (VInt z) st1) as [ad st2] eqn:En.
        pose proof (Sep_new_var_int _ _ _ _ _ S1 En) as S2.
        pose proof (new_var_spec _ _ _ _ En) as (-> & N2 & N3 & N4 & N5).
        destruct (IH _ _ _ _ _ _ _ _ Hk S2) as (A1 & A2 & A3 & A4 & A5 & A6 & A7).
        rewrite N2, app_length, Ev in A3. cbn in A3.
        split; [auto|split; [auto|split; [lia|split; [congruence|split; [|split]]]]].
        -- intros b Hb'. eapply keeps_trans; [eapply ext_keeps; eauto|].
           eapply keeps_trans; [eapply new_var_keeps; eauto; rewrite Ev; auto|].
           apply A5. rewrite N2, app_length, Ev. cbn. lia.
        -- intros a Ha. apply A6 in Ha. cbn in Ha. rewrite N2, app_length, Ev in Ha. cbn in Ha.
           cbn [ref_addrs]. destruct Ha as [[<-|Ha]|[Ha|Ha]]; auto; right; right; lia.
        -- intros a Ha. apply A7. cbn. auto.
      * cbn in Hk. bind_inv Hk. destruct a as [l' st2].
        destruct (claim_or_copy_spec _ _ _ _ _ _ S1 R1 Hb0) as (C1 & C2 & C3 & C4 & C5 & C6).
        destruct (new_var (VPtr l') st2) as [ad st3] eqn:En.
        pose proof (Sep_new_var_ptr _ _ _ _ _ C1 En) as S3.
        pose proof (new_var_spec _ _ _ _ En) as (-> & N2 & N3 & N4 & N5).
        destruct (IH _ _ _ _ _ _ _ _ Hk0 S3) as (A1 & A2 & A3 & A4 & A5 & A6 & A7).
        rewrite N2, app_length, C2, Ev in A3. cbn in A3.
        split; [auto|split; [auto|split; [lia|split; [congruence|split; [|split]]]]].
        -- intros b Hb'. eapply keeps_trans; [eapply ext_keeps; eauto|].
           eapply keeps_trans; [eapply heap_keeps; eauto|].
           eapply keeps_trans; [eapply new_var_keeps; eauto; rewrite C2, Ev; auto|].
           apply A5. rewrite N2, app_length, C2, Ev. cbn. lia.
        -- intros a Ha. apply A6 in Ha. cbn in Ha. rewrite N2, app_length, C2, Ev in Ha. cbn in Ha.
           cbn [ref_addrs]. destruct Ha as [[<-|Ha]|[Ha|Ha]]; auto; right; right; lia.
        -- intros a Ha. apply A7. cbn. auto.
Qed.

Lemma exit_from_copy_spec : forall n a X st st',
  exit_from n a st = Ok st' -> Sep X st -> a + n = length (vars st) ->
  Sep X st' /\ tmps st' = tmps st /\ out st' = out st /\ length (vars st') = length (vars st) /\
  (forall b, b < a -> keeps st st' b).
Proof.
  induction n as [|n IH]; intros a X st st' H HS Hlen; cbn in H.
  - inv H. split; [auto|split; [auto|split; [auto|split; [auto|intros; apply keeps_refl]]]].
  - bind_inv H. apply get_slot_ok in Hb. bind_inv Hk.
    assert (K : Sep X (set_slot a VDead a1) /\ tmps a1 = tmps st /\ out a1 = out st /\ length (vars a1) = length (vars st) /\
                forall b, b < a -> keeps st (set_slot a VDead a1) b).
    { destruct a0 as [z|l|].
      - inv Hb0. split; [eapply Sep_set_nonptr; eauto; congruence|]. split; [auto|split; [auto|split; [auto|]]].
        intros b Hb'. apply set_slot_keeps. lia.
      - rewrite (release_live l st) in Hb0 by (eapply (sep_live _ _ HS); eauto).
        pose proof (free_ok _ _ _ Hb0 (sep_live _ _ HS _ _ Hb)) as (F1 & F2 & F3 & F4 & F5).
        split; [eapply Sep_release; eauto; congruence|]. split; [auto|split; [auto|split; [congruence|]]].
        intros b Hb'. eapply release_keeps; eauto. lia.
      - inv Hb0. split; [eapply Sep_set_nonptr; eauto; congruence|]. split; [auto|split; [auto|split; [auto|]]].
        intros b Hb'. apply set_slot_keeps. lia. }
    destruct K as (K1 & K2 & K3 & K4 & K5).
    assert (Hlen' : S a + n = length (vars (set_slot a VDead a1))).
    { cbn. rewrite upd_length. lia. }
    destruct (IH _ _ _ _ Hk0 K1 Hlen') as (A1 & A2 & A3 & A4 & A5).
    cbn in A2, A3, A4. rewrite upd_length in A4.
    split; [auto|split; [congruence|split; [congruence|split; [congruence|]]]].
    intros b Hb'. eapply keeps_trans; [apply K5; auto | apply A5; lia].
Qed.


Lemma do_call_copy_spec : forall mt funs genv ex e dst f args X st st',
  ex_ok genv ex ->
  do_call false mt funs genv ex e dst f args st = Ok st' -> Sep X st -> tmps st = [] -> env_ok genv e st ->
  step_ok X st st'
    (fun b => (match dst with Some x => lookup e x = Some b | None => False end) \/ In b (ref_addrs e args) \/ In b (map snd genv)) /\
  (* the pieces: binding, the callee's body, and the tail of the call, which changes nothing the
     caller can see except the destination *)
  exists fd ce st1 st2,
    nth_error funs f = Some fd /\
    bind_params false mt args f 0 (fparams fd) args e genv st = Ok (ce, st1) /\
    ex ce (fbody fd) (set_fbase (set_tmps st1 []) (length (vars st))) = Ok st2 /\
    forall b, b < length (vars st) -> (match dst with Some x => lookup e x <> Some b | None => True end) -> keeps st2 st' b.
Proof.
  intros mt funs genv ex e dst f args X st st' Hex H HS Ht He. unfold do_call in H.
  destruct (nth_error funs f) as [fd|] eqn:Efd; [|discriminate H].
  bind_as H r Hbind H. destruct r as [ce st1].
  destruct (bind_params_copy_spec _ _ _ _ _ _ _ _ _ _ _ _ Hbind HS) as (B1 & _ & B3 & B4 & B5 & B6 & B7).
  bind_as H st2 Hbody H.
  (* the callee's body *)
  set (saved := tmps st1) in *.
  set (st1' := set_fbase (set_tmps st1 []) (length (vars st))) in *.
  assert (S1' : Sep (saved ++ X) st1').
  { apply (Sep_perm X (saved ++ X) st1 st1'); auto. }
  assert (Hce : env_ok genv ce st1').
  { destruct He as [He1 He2]. split; [|exact B7]. cbn. intros ad Ha. apply B6 in Ha.
    destruct Ha as [Ha|[Ha|Ha]]; [apply He2 in Ha; apply He1 in Ha; lia| |lia].
    assert (Hin : In ad (map snd e)).
    { clear - Ha. induction args as [|[ex|x] args IH]; cbn in Ha; auto; [contradiction|].
      destruct (lookup e x) eqn:El; auto. destruct Ha as [<-|Ha]; auto. eapply lookup_in; eauto. }
    apply He1 in Hin. lia. }
  pose proof (Hex _ _ _ _ _ Hbody S1' eq_refl Hce) as (C1 & C2 & C3 & C4). cbn in C3.
  (* the return value *)
  bind_as H r Hret H. destruct r as [result st6]. unfold ret_value in Hret.
  assert (R : exists Y, Sep (Y ++ saved ++ X) st6 /\ tmps st6 = [] /\ length (vars st2) <= length (vars st6) /\
                (forall b, b < length (vars st2) -> keeps st2 st6 b) /\
                match result with Some (RSeq l t) => Y = [l] /\ t = true | _ => Y = [] end).
  { destruct (fret fd) as [re|].
    - bind_as Hret r Hev Hret. destruct r as [v st3].
      destruct (eval_spec _ _ _ _ _ _ Hev C1) as (S3 & E3 & R3). pose proof E3 as (Ev & Eo & Eh & Et).
      destruct v as [z|l tmp].
      + bind_as Hret st4 Hend Hret. inv Hret. destruct (end_stmt_spec _ _ _ S3 Hend) as (T1 & T2 & T3 & T4 & T5).
        exists []. split; [auto|split; [auto|split; [rewrite T3, Ev; lia|split; [|auto]]]].
        intros b Hb'. eapply keeps_trans; [eapply ext_keeps; eauto | apply T5].
      + bind_as Hret r Hcc Hret. destruct r as [l' st4]. bind_as Hret st5 Hend Hret. inv Hret.
        destruct (claim_or_copy_spec _ _ _ _ _ _ S3 R3 Hcc) as (D1 & D2 & D3 & D4 & D5 & D6).
        destruct (end_stmt_spec _ _ _ D1 Hend) as (T1 & T2 & T3 & T4 & T5).
        exists [l']. split; [auto|split; [auto|split; [rewrite T3, D2, Ev; lia|split; [|auto]]]].
        intros b Hb'. eapply keeps_trans; [eapply ext_keeps; eauto |].
        eapply keeps_trans; [eapply heap_keeps; eauto | apply T5].
    - inv Hret. exists []. split; [auto|split; [auto|split; [lia|split; [intros; apply keeps_refl|auto]]]]. }
  destruct R as (Y & R1 & R2 & R3 & R4 & R5).
  bind_as H st7o Hexit H. unfold exit_frame in Hexit.
  set (st7 := set_fbase st7o (fbase st)) in *.
  assert (Hbase : length (vars st) + (length (vars st6) - length (vars st)) = length (vars st6)) by (cbn in *; lia).
  destruct (exit_from_copy_spec _ _ _ _ _ Hexit R1 Hbase) as (F1o & F2 & F3 & F4 & F5o).
  assert (F1 : Sep (Y ++ saved ++ X) st7) by (apply (Sep_perm (Y ++ saved ++ X) (Y ++ saved ++ X) st7o st7); auto).
  assert (F5 : forall b, b < length (vars st) -> keeps st6 st7 b) by (intros b Hb'; destruct (F5o b Hb'); split; auto).
  change (tmps st7o) with (tmps st7) in F2. change (out st7o) with (out st7) in F3. change (vars st7o) with (vars st7) in F4.
  (* back in the caller *)
  unfold call_finish in H.
  set (st8 := set_tmps st7 saved) in *.
  set (st9 := match result with Some (RSeq l _) => add_tmp l st8 | _ => st8 end) in *.
  assert (S9 : Sep X st9 /\ vars st9 = vars st7 /\ heap st9 = heap st7).
  { subst st9 st8. destruct result as [[z|l t]|]; [|destruct R5 as [-> ->]|]; subst; cbn.
    - split; [|auto]. apply (Sep_perm ([] ++ saved ++ X) X st7 (set_tmps st7 saved)); auto.
      rewrite F2, R2. cbn. apply Permutation_refl.
    - split; [|auto]. apply (Sep_perm ([l] ++ saved ++ X) X st7 (add_tmp l (set_tmps st7 saved))); auto.
      rewrite F2, R2. cbn. apply Permutation_refl.
    - split; [|auto]. apply (Sep_perm ([] ++ saved ++ X) X st7 (set_tmps st7 saved)); auto.
      rewrite F2, R2. cbn. apply Permutation_refl. }
  destruct S9 as (S9 & V9 & H9).
  assert (K9 : forall b, b < length (vars st) -> ~ In b (ref_addrs e args) -> ~ In b (map snd genv) -> keeps st st9 b).
  { intros b Hb' Hn1 Hn2.
    eapply keeps_trans; [apply B5; auto|].
    eapply keeps_trans with (s2 := st1'); [split; auto|].
    eapply keeps_trans; [apply C4; [cbn; lia|]|].
    { intros Hin. apply B6 in Hin. destruct Hin as [Hin|[Hin|Hin]]; auto. lia. }
    eapply keeps_trans; [apply R4; lia|].
    eapply keeps_trans; [apply F5; auto|].
    split; [rewrite V9; auto | rewrite H9; auto]. }
  assert (L9 : length (vars st) <= length (vars st9)) by (rewrite V9, F4; lia).
  assert (K9' : forall b, b < length (vars st) -> keeps st2 st9 b).
  { intros b Hb'. eapply keeps_trans; [apply R4; lia|].
    eapply keeps_trans; [apply F5; auto|].
    split; [rewrite V9; auto | rewrite H9; auto]. }
  destruct dst as [x|].
  - destruct result as [v|]; [|discriminate H]. destruct (lookup e x) as [ad|] eqn:El; [|discriminate H].
    bind_as H st10 Hst H.
    assert (Rv : rv_ok st9 v).
    { subst st9 st8. destruct v as [z|l t]; cbn; auto. destruct R5 as [_ ->]. cbn. auto. }
    destruct (store_value_spec _ _ _ _ _ S9 Rv Hst) as (V1 & V2 & V3 & V4 & V5).
    destruct (end_stmt_spec _ _ _ V1 H) as (T1 & T2 & T3 & T4 & T5).
    split.
    + split; [auto|split; [auto|split; [rewrite T3, V2; lia|]]].
      intros b Hb' Hn. eapply keeps_trans; [apply K9; tauto|].
      eapply keeps_trans; [apply V5|apply T5]. intros ->. tauto.
    + exists fd, ce, st1, st2. split; [auto|split; [auto|split; [auto|]]].
      intros b Hb' Hn. eapply keeps_trans; [apply K9'; auto|].
      eapply keeps_trans; [apply V5|apply T5]. congruence.
  - destruct (end_stmt_spec _ _ _ S9 H) as (T1 & T2 & T3 & T4 & T5).
    split.
    + split; [auto|split; [auto|split; [rewrite T3; lia|]]].
      intros b Hb' Hn. eapply keeps_trans; [apply K9; tauto|apply T5].
    + exists fd, ce, st1, st2. split; [auto|split; [auto|split; [auto|]]].
      intros b Hb' _. eapply keeps_trans; [apply K9'; auto|apply T5].
Qed.

(* ---------------------------------------------------------------------------------------------- *)
(* whole statement lists (copy mode), by induction on the fuel                                     *)
(* ---------------------------------------------------------------------------------------------- *)
Lemma env_ok_mono : forall genv e st st', env_ok genv e st -> length (vars st) <= length (vars st') -> env_ok genv e st'.
Proof. intros genv e st st' [H1 H2] Hl. split; auto. intros a Ha. apply H1 in Ha. lia. Qed.

Lemma ref_addrs_in : forall e args b, In b (ref_addrs e args) -> In b (map snd e).
Proof.
  induction args as [|[ex|x] args IH]; cbn; intros b H; auto; [contradiction|].
  destruct (lookup e x) eqn:El; auto. destruct H as [<-|H]; auto. eapply lookup_in; eauto.
Qed.

Lemma exec_copy_ok : forall mt funs genv fuel, ex_ok genv (exec false mt funs genv fuel).
Proof.
  intros mt funs genv. induction fuel as [|fuel IH]; intros X e ss st st' H HS Ht He; cbn in H; [discriminate H|].
  destruct ss as [|s rest].
  { inv H. split; [auto|split; [auto|split; [lia|intros; apply keeps_refl]]]. }
  destruct s as [x ex|x ex|x i v|ex|dst f args|c th el|x ex body].
  - (* SDecl *)
    bind_as H r Hd H. destruct r as [e' st1].
    destruct (do_decl_spec _ _ _ _ _ _ _ Hd HS) as (D1 & -> & D3 & D4).
    pose proof D1 as (A1 & A2 & A3 & A4).
    assert (He' : env_ok genv ((x, length (vars st)) :: e) st1).
    { destruct He as [He1 He2]. split.
      - cbn. intros a [<-|Ha]; [lia|]. apply He1 in Ha. lia.
      - intros a Ha. cbn. right. auto. }
    pose proof (IH _ _ _ _ _ H A1 A2 He') as R.
    eapply step_ok_trans; [eapply step_ok_weaken; [exact D1|intros; contradiction]|exact R|].
    cbn. intros b Hb Hn [E|Hi]; [lia|auto].
  - (* SAssign *)
    bind_as H st1 Hd H.
    destruct (do_assign_spec _ _ _ _ _ _ Hd HS Ht) as (a & La & D1 & D2).
    pose proof D1 as (A1 & A2 & A3 & A4).
    pose proof (IH _ _ _ _ _ H A1 A2 (env_ok_mono _ _ _ _ He A3)) as R.
    eapply step_ok_trans; [eapply step_ok_weaken; [exact D1|]|exact R|auto].
    intros b Hb ->. eapply lookup_in; eauto.
  - (* SAssignIdx *)
    bind_as H st1 Hd H.
    destruct (do_assign_idx_spec _ _ _ _ _ _ _ Hd HS) as (a & La & D1 & D2).
    pose proof D1 as (A1 & A2 & A3 & A4).
    pose proof (IH _ _ _ _ _ H A1 A2 (env_ok_mono _ _ _ _ He A3)) as R.
    eapply step_ok_trans; [eapply step_ok_weaken; [exact D1|]|exact R|auto].
    intros b Hb ->. eapply lookup_in; eauto.
  - (* SPrint *)
    bind_as H st1 Hd H.
    destruct (do_print_spec _ _ _ _ _ Hd HS) as (D1 & D2).
    pose proof D1 as (A1 & A2 & A3 & A4).
    pose proof (IH _ _ _ _ _ H A1 A2 (env_ok_mono _ _ _ _ He A3)) as R.
    eapply step_ok_trans; [eapply step_ok_weaken; [exact D1|intros; contradiction]|exact R|auto].
  - (* SCall *)
    bind_as H st1 Hd H.
    pose proof (proj1 (do_call_copy_spec _ _ _ _ _ _ _ _ _ _ _ IH Hd HS Ht He)) as D1.
    pose proof D1 as (A1 & A2 & A3 & A4).
    pose proof (IH _ _ _ _ _ H A1 A2 (env_ok_mono _ _ _ _ He A3)) as R.
    eapply step_ok_trans; [eapply step_ok_weaken; [exact D1|]|exact R|auto].
    intros b Hb [Hd'|[Hr|Hg]].
    + destruct dst; [eapply lookup_in; eauto|contradiction].
    + eapply ref_addrs_in; eauto.
    + destruct He as [_ He2]. apply He2. auto.
  - (* SIf *)
    bind_as H r Hd H. destruct r as [b st1]. bind_as H st2 Hbr H.
    destruct (do_cond_spec _ _ _ _ _ _ Hd HS) as (D1 & D2 & D3).
    pose proof D1 as (A1 & A2 & A3 & A4).
    pose proof (IH _ _ _ _ _ Hbr A1 A2 (env_ok_mono _ _ _ _ He A3)) as R1.
    pose proof R1 as (B1 & B2 & B3 & B4).
    assert (L2 : length (vars st) <= length (vars st2)) by lia.
    pose proof (IH _ _ _ _ _ H B1 B2 (env_ok_mono _ _ _ _ He L2)) as R2.
    eapply step_ok_trans; [eapply step_ok_weaken; [exact D1|intros; contradiction]|eapply step_ok_trans; [exact R1|exact R2|cbn; auto]|cbn; auto].
  - (* SFor *)
    bind_as H r Hd H. destruct r as [[lc c] st1]. bind_as H st2 Hl H. bind_as H st3 Hf H.
    destruct (for_init_spec _ _ _ _ _ _ _ Hd HS) as (D1 & D2 & D3).
    pose proof D1 as (A1 & A2 & A3 & A4).
    pose proof (for_loop_spec _ _ _ _ _ _ _ _ _ IH Hl A1 A2 (env_ok_mono _ _ _ _ He A3)) as R1.
    pose proof R1 as (B1 & B2 & B3 & B4).
    pose proof (Sep_free_x _ _ _ _ B1 Hf) as S3.
    pose proof (free_ok _ _ _ Hf (sep_xlive _ _ B1 lc ltac:(rewrite in_middle; auto))) as (F1 & F2 & F3 & F4 & F5).
    assert (R2 : step_ok X st2 st3 (fun _ => False)).
    { split; [auto|split; [congruence|split; [rewrite F3; lia|]]]. intros b _ _. eapply free_x_keeps; eauto. }
    pose proof R2 as (C1 & C2 & C3 & C4).
    assert (L3 : length (vars st) <= length (vars st3)) by lia.
    pose proof (IH _ _ _ _ _ H C1 C2 (env_ok_mono _ _ _ _ He L3)) as R3.
    split; [exact (proj1 R3)|split; [exact (proj1 (proj2 R3))|split; [destruct R3 as (_ & _ & L & _); lia|]]].
    intros b Hb Hn.
    eapply keeps_trans; [apply A4; auto|].
    eapply keeps_trans; [apply B4; [lia|auto]|].
    eapply keeps_trans; [apply C4; [lia|auto]|].
    destruct R3 as (_ & _ & _ & K). apply K; [lia|auto].
Qed.

(* ---------------------------------------------------------------------------------------------- *)
(* the phases of a call, separately (used by the elision proof)                                    *)
(* ---------------------------------------------------------------------------------------------- *)
Definition ret_shape (result : option rv) (Y : list nat) : Prop :=
  match result with Some (RSeq l t) => Y = [l] /\ t = true | _ => Y = [] end.

Lemma ret_value_spec : forall X ce fr st2 result st6,
  ret_value ce fr st2 = Ok (result, st6) -> Sep X st2 -> tmps st2 = [] ->
  exists Y, Sep (Y ++ X) st6 /\ tmps st6 = [] /\ length (vars st2) <= length (vars st6) /\
            (forall b, b < length (vars st2) -> keeps st2 st6 b) /\ ret_shape result Y.
Proof.
  intros X ce fr st2 result st6 Hret C1 C2. unfold ret_value in Hret. destruct fr as [re|].
  - bind_as Hret r Hev Hret. destruct r as [v st3].
    destruct (eval_spec _ _ _ _ _ _ Hev C1) as (S3 & E3 & R3). pose proof E3 as (Ev & Eo & Eh & Et).
    destruct v as [z|l tmp].
    + bind_as Hret st4 Hend Hret. inv Hret. destruct (end_stmt_spec _ _ _ S3 Hend) as (T1 & T2 & T3 & T4 & T5).
      exists []. split; [auto|split; [auto|split; [rewrite T3, Ev; lia|split; [|exact eq_refl]]]].
      intros b Hb'. eapply keeps_trans; [eapply ext_keeps; eauto | apply T5].
    + bind_as Hret r Hcc Hret. destruct r as [l' st4]. bind_as Hret st5 Hend Hret. inv Hret.
      destruct (claim_or_copy_spec _ _ _ _ _ _ S3 R3 Hcc) as (D1 & D2 & D3 & D4 & D5 & D6).
      destruct (end_stmt_spec _ _ _ D1 Hend) as (T1 & T2 & T3 & T4 & T5).
      exists [l']. split; [auto|split; [auto|split; [rewrite T3, D2, Ev; lia|split; [|split; auto]]]].
      intros b Hb'. eapply keeps_trans; [eapply ext_keeps; eauto |].
      eapply keeps_trans; [eapply heap_keeps; eauto | apply T5].
  - inv Hret. exists []. split; [auto|split; [auto|split; [lia|split; [intros; apply keeps_refl|exact eq_refl]]]].
Qed.

(* the state in which the caller continues: its temporaries are back, the result is a temporary *)
Definition resume (saved : list nat) (result : option rv) (st7 : state) : state :=
  match result with Some (RSeq l _) => add_tmp l (set_tmps st7 saved) | _ => set_tmps st7 saved end.

Lemma resume_spec : forall X saved result Y st7,
  Sep (Y ++ saved ++ X) st7 -> tmps st7 = [] -> ret_shape result Y ->
  Sep X (resume saved result st7) /\ vars (resume saved result st7) = vars st7 /\
  heap (resume saved result st7) = heap st7 /\ out (resume saved result st7) = out st7 /\
  (forall v, result = Some v -> rv_ok (resume saved result st7) v).
Proof.
  intros X saved result Y st7 F1 R2 R5. unfold resume, ret_shape in *.
  destruct result as [[z|l t]|]; [|destruct R5 as [-> ->]|]; subst; cbn.
  - split; [|split; [auto|split; [auto|split; [auto|]]]].
    + apply (Sep_perm ([] ++ saved ++ X) X st7 (set_tmps st7 saved)); auto. rewrite R2. cbn. apply Permutation_refl.
    + intros v E. inv E. exact I.
  - split; [|split; [auto|split; [auto|split; [auto|]]]].
    + apply (Sep_perm ([l] ++ saved ++ X) X st7 (add_tmp l (set_tmps st7 saved))); auto. rewrite R2. cbn. apply Permutation_refl.
    + intros v E. inv E. cbn. auto.
  - split; [|split; [auto|split; [auto|split; [auto|]]]].
    + apply (Sep_perm ([] ++ saved ++ X) X st7 (set_tmps st7 saved)); auto. rewrite R2. cbn. apply Permutation_refl.
    + intros v E. discriminate E.
Qed.

Lemma call_finish_resume : forall e dst saved result st7,
  call_finish e dst saved result st7 =
  match dst, result with
  | None, _ => end_stmt (resume saved result st7)
  | Some x, Some v =>
      match lookup e x with
      | Some a => do st10 <- store_value a v (resume saved result st7); end_stmt st10
      | None => Er EStuck
      end
  | Some _, None => Er EStuck
  end.
Proof. intros. unfold call_finish, resume. destruct result as [[z|l t]|]; reflexivity. Qed.
