(* C08 — the theorems about copy mode (the language rule; what -O0/-O1 implement) and the witnesses
   against the -O2 elision, stated over the model of Opt2.v. *)
From Coq Require Import List ZArith Bool Arith Lia Permutation.
Import ListNotations.
From DDP Require Import Lower.Opt2 Lower.Opt2Base Lower.Opt2Copy.

(* ---------------------------------------------------------------------------------------------- *)
(* start-up                                                                                        *)
(* ---------------------------------------------------------------------------------------------- *)
Lemma Sep_st0 : Sep [] st0.
Proof.
  constructor; unfold ptr_at; cbn; try contradiction.
  - intros a l H. destruct a; discriminate H.
  - intros a b l H. destruct a; discriminate H.
  - constructor.
  - intros a l H. destruct a; discriminate H.
Qed.

Lemma init_globals_spec : forall gs e st e' st',
  init_globals gs e st = Ok (e', st') -> Sep [] st -> tmps st = [] ->
  (forall a, In a (map snd e) -> a < length (vars st)) ->
  Sep [] st' /\ tmps st' = [] /\ (forall a, In a (map snd e') -> a < length (vars st')) /\ out st' = out st.
Proof.
  induction gs as [|[x ex] gs IH]; intros e st e' st' H HS Ht He; cbn in H.
  - inv H. auto.
  - bind_as H r Hd H. destruct r as [e1 st1].
    destruct (do_decl_spec _ _ _ _ _ _ _ Hd HS) as ((A1 & A2 & A3 & A4) & -> & D3 & D4).
    assert (He1 : forall a, In a (map snd ((x, length (vars st)) :: e)) -> a < length (vars st1)).
    { cbn. intros a [<-|Ha]; [lia|]. apply He in Ha. lia. }
    destruct (IH _ _ _ _ H A1 A2 He1) as (B1 & B2 & B3 & B4).
    split; [auto|split; [auto|split; [auto|congruence]]].
Qed.

(* ---------------------------------------------------------------------------------------------- *)
(* copy_noninterference                                                                            *)
(* ---------------------------------------------------------------------------------------------- *)
(* the variables a single statement may change, as the programmer sees them: the assigned variable;
   for a call the destination, the Referenz arguments and the globals — never a value argument *)
Definition targets (genv e : env) (s : stmt) (b : nat) : Prop :=
  match s with
  | SDecl _ _ | SPrint _ => False
  | SAssign x _ | SAssignIdx x _ _ => lookup e x = Some b
  | SCall dst _ args =>
      (match dst with Some x => lookup e x = Some b | None => False end) \/
      In b (ref_addrs e args) \/ In b (map snd genv)
  | SIf _ _ _ | SFor _ _ _ => In b (map snd e)
  end.

Lemma exec_nil : forall el mt funs genv fuel e st st',
  exec el mt funs genv fuel e [] st = Ok st' -> st' = st.
Proof. intros. destruct fuel; cbn in H; [discriminate H | inv H; auto]. Qed.

Theorem copy_noninterference : forall mt funs genv fuel X e s st st',
  exec false mt funs genv fuel e [s] st = Ok st' ->
  Sep X st -> tmps st = [] -> env_ok genv e st ->
  Sep X st' /\
  forall b, b < length (vars st) -> ~ targets genv e s b -> value_of st' b = value_of st b.
Proof.
  intros mt funs genv fuel X e s st st' H HS Ht He.
  destruct fuel as [|fuel]; [discriminate H|]. cbn in H.
  destruct s as [x ex|x ex|x i v|ex|dst f args|c th el|x ex body]; cbn [targets].
  - bind_as H r Hd H. destruct r as [e' st1]. apply exec_nil in H. subst st'.
    destruct (do_decl_spec _ _ _ _ _ _ _ Hd HS) as ((A1 & A2 & A3 & A4) & _).
    split; auto. intros b Hb _. apply keeps_value. apply A4; auto.
  - bind_as H st1 Hd H. apply exec_nil in H. subst st'.
    destruct (do_assign_spec _ _ _ _ _ _ Hd HS Ht) as (a & La & (A1 & A2 & A3 & A4) & _).
    split; auto. intros b Hb Hn. apply keeps_value. apply A4; auto. congruence.
  - bind_as H st1 Hd H. apply exec_nil in H. subst st'.
    destruct (do_assign_idx_spec _ _ _ _ _ _ _ Hd HS) as (a & La & (A1 & A2 & A3 & A4) & _).
    split; auto. intros b Hb Hn. apply keeps_value. apply A4; auto. congruence.
  - bind_as H st1 Hd H. apply exec_nil in H. subst st'.
    destruct (do_print_spec _ _ _ _ _ Hd HS) as ((A1 & A2 & A3 & A4) & _).
    split; auto. intros b Hb _. apply keeps_value. apply A4; auto.
  - bind_as H st1 Hd H. apply exec_nil in H. subst st'.
    destruct (do_call_copy_spec _ _ _ _ _ _ _ _ _ _ _ (exec_copy_ok mt funs genv fuel) Hd HS Ht He) as ((A1 & A2 & A3 & A4) & _).
    split; auto. intros b Hb Hn. apply keeps_value. apply A4; auto.
  - assert (Hx : exec false mt funs genv (S fuel) e [SIf c th el] st = Ok st') by exact H.
    destruct (exec_copy_ok mt funs genv (S fuel) _ _ _ _ _ Hx HS Ht He) as (A1 & A2 & A3 & A4).
    split; auto. intros b Hb Hn. apply keeps_value. apply A4; auto.
  - assert (Hx : exec false mt funs genv (S fuel) e [SFor x ex body] st = Ok st') by exact H.
    destruct (exec_copy_ok mt funs genv (S fuel) _ _ _ _ _ Hx HS Ht He) as (A1 & A2 & A3 & A4).
    split; auto. intros b Hb Hn. apply keeps_value. apply A4; auto.
Qed.

(* the same for whole statement lists: a block changes no variable it cannot name *)
Theorem copy_frame : forall mt funs genv fuel X e ss st st',
  exec false mt funs genv fuel e ss st = Ok st' ->
  Sep X st -> tmps st = [] -> env_ok genv e st ->
  Sep X st' /\
  forall b, b < length (vars st) -> ~ In b (map snd e) -> value_of st' b = value_of st b.
Proof.
  intros mt funs genv fuel X e ss st st' H HS Ht He.
  destruct (exec_copy_ok mt funs genv fuel _ _ _ _ _ H HS Ht He) as (A1 & A2 & A3 & A4).
  split; auto. intros b Hb Hn. apply keeps_value. apply A4; auto.
Qed.

(* a copy-introducing construct gives the new holder the same value in a buffer of its own *)
Theorem copy_init_value : forall X e y x a st e' st',
  do_decl e y (EVar x) st = Ok (e', st') -> Sep X st -> tmps st = [] -> lookup e x = Some a ->
  let b := length (vars st) in
  lookup e' y = Some b /\ value_of st' b = value_of st a /\ value_of st' a = value_of st a /\
  (forall l l', ptr_at st' a l -> ptr_at st' b l' -> l <> l').
Proof.
  intros X e y x a st e' st' H HS Ht La b.
  pose proof (do_decl_spec _ _ _ _ _ _ _ H HS) as ((A1 & A2 & A3 & A4) & -> & D3 & D4).
  assert (Hab : a <> b).
  { unfold do_decl in H. cbn in H. rewrite La in H. bind_as H r Hg H. bind_as Hg s Hs Hg.
    apply get_slot_ok in Hs. apply nth_error_lt in Hs. subst b. lia. }
  split; [cbn; rewrite Nat.eqb_refl; auto|].
  assert (Ka : keeps st st' a).
  { apply A4; auto. unfold do_decl in H. cbn in H. rewrite La in H. bind_as H r Hg H. bind_as Hg s Hs Hg.
    apply get_slot_ok in Hs. eapply nth_error_lt; eauto. }
  split; [|split; [apply keeps_value; auto|]].
  - (* the value of the new holder *)
    unfold do_decl in H. cbn in H. rewrite La in H. bind_as H r Hg H. bind_as Hg s Hs Hg.
    apply get_slot_ok in Hs. unfold value_of at 2. rewrite Hs.
    destruct s as [z|l|]; inv Hg; cbn in H.
    + destruct (new_var (VInt z) st) as [ad st3] eqn:En. bind_as H st4 He H. inv H.
      pose proof (new_var_spec _ _ _ _ En) as (_ & N2 & N3 & N4 & N5).
      destruct (end_stmt_spec X st3 st') as (T1 & T2 & T3 & T4 & T5); auto.
      { exact (Sep_new_var_int _ _ _ _ _ HS En). }
      unfold value_of. rewrite T3, N2. subst b. rewrite nth_error_app_new. auto.
    + unfold copy_of in H. bind_as H r Hov H. bind_as Hov r0 Hc Hov. bind_as Hc c Hr Hc. inv Hc.
      destruct (alloc (Live c) st) as [l' st2] eqn:Ea. cbn in Hov. inv Hov.
      destruct (new_var (VPtr l') st2) as [ad st3] eqn:En. bind_as H st4 He H. inv H.
      pose proof (Sep_alloc _ _ _ _ _ HS Ea) as [HS1 HU].
      pose proof (alloc_spec _ _ _ _ Ea) as (-> & Hh & Hv & Ht' & Ho).
      pose proof (new_var_spec _ _ _ _ En) as (Ead & N2 & N3 & N4 & N5).
      assert (S3 : Sep X st3).
      { eapply Sep_new_var_ptr; [|exact En]. apply Sep_add_x; eauto. }
      destruct (end_stmt_spec X st3 st' S3 He) as (T1 & T2 & T3 & T4 & T5).
      apply read_ok_live in Hr; [|eapply (sep_live _ _ HS); eauto]. rewrite Hr.
      assert (Hp : ptr_at st3 (length (vars st2)) (length (heap st))).
      { unfold ptr_at. rewrite N2. apply nth_error_app_new. }
      destruct (T5 (length (vars st2))) as [K1 K2].
      unfold value_of. subst b. rewrite <- Hv. rewrite K1. unfold ptr_at in Hp. rewrite Hp.
      rewrite (K2 _ Hp). rewrite N3, Hh, nth_error_app_new. auto.
  - intros l l' P1 P2 ->. apply Hab. eapply (sep_inj _ _ A1); eauto.
Qed.

(* ---------------------------------------------------------------------------------------------- *)
(* ref_visible                                                                                     *)
(* ---------------------------------------------------------------------------------------------- *)
(* binding: a Referenz parameter is bound to the very storage of its argument — every occurrence of
   the same variable to the same storage, a global to the global's storage *)
Lemma bind_params_refs : forall el mt all f ps i args e ce st ce' st',
  bind_params el mt all f i ps args e ce st = Ok (ce', st') ->
  NoDup (map pname ps) ->
  (forall k p x, nth_error ps k = Some p -> pref p = true -> nth_error args k = Some (ARef x) ->
     exists a, lookup e x = Some a /\ lookup ce' (pname p) = Some a) /\
  (forall y, ~ In y (map pname ps) -> lookup ce' y = lookup ce y).
Proof.
  intros el mt all f ps. induction ps as [|p ps IH]; intros i args e ce st ce' st' H Hnd;
    destruct args as [|a args]; cbn in H; try discriminate H.
  - inv H. split; auto. intros k p x Hk. destruct k; discriminate Hk.
  - inv Hnd.
    assert (K : exists st1 ad, bind_params el mt all f (S i) ps args e ((pname p, ad) :: ce) st1 = Ok (ce', st')
                 /\ (pref p = true -> exists x, a = ARef x /\ lookup e x = Some ad)).
    { destruct (pref p) eqn:Ep; destruct a as [ex|x]; try discriminate H.
      - destruct (lookup e x) as [ad|] eqn:El; [|discriminate H]. exists st, ad. split; eauto.
      - bind_as H r He H. destruct r as [v st1]. destruct v as [z|l tmp].
        + destruct (new_var (VInt z) st1) as [ad st2] eqn:En. exists st2, ad. split; [auto|discriminate].
        + destruct (el && is_const mt f i && negb tmp && may_elide e all ex st1).
          * destruct (alloc (Alias (target l st1)) st1) as [lh st1'] eqn:Ea.
            destruct (new_var (VPtr lh) st1') as [ad st2] eqn:En.
            exists st2, ad. split; [auto|discriminate].
          * bind_as H r Hc H. destruct r as [l' st2]. destruct (new_var (VPtr l') st2) as [ad st3] eqn:En.
            exists st3, ad. split; [auto|discriminate]. }
    destruct K as (st1 & ad & K & Kr).
    destruct (IH _ _ _ _ _ _ _ K H3) as (I1 & I2).
    split.
    + intros k q x Hk Hq Ha. destruct k as [|k]; cbn in Hk, Ha.
      * inv Hk. inv Ha. destruct (Kr Hq) as (x' & E & L). inv E. exists ad. split; auto.
        rewrite I2 by auto. cbn. rewrite Nat.eqb_refl. auto.
      * eapply I1; eauto.
    + intros y Hy. cbn in Hy. rewrite I2 by tauto. cbn.
      destruct (Nat.eqb_spec (pname p) y); [exfalso; apply Hy; auto | auto].
Qed.

(* ref_visible: in a call with Referenz arguments, what the callee sees through each Referenz
   parameter when its body ends is exactly what the caller sees in the argument variable after
   the call — also when one variable is passed for several parameters or is a global; and the
   call changes no other variable of the caller except globals and the destination *)
Theorem ref_visible : forall mt funs genv fuel X e dst f args st st',
  do_call false mt funs genv (exec false mt funs genv fuel) e dst f args st = Ok st' ->
  Sep X st -> tmps st = [] -> env_ok genv e st ->
  exists fd ce st1 st2,
    nth_error funs f = Some fd /\
    bind_params false mt args f 0 (fparams fd) args e genv st = Ok (ce, st1) /\
    exec false mt funs genv fuel ce (fbody fd) (set_fbase (set_tmps st1 []) (length (vars st))) = Ok st2 /\
    (NoDup (map pname (fparams fd)) ->
     forall k p x, nth_error (fparams fd) k = Some p -> pref p = true -> nth_error args k = Some (ARef x) ->
       exists a, lookup e x = Some a /\ lookup ce (pname p) = Some a /\
                 (match dst with Some y => lookup e y <> Some a | None => True end -> value_of st' a = value_of st2 a)) /\
    (forall b, b < length (vars st) ->
       ~ (match dst with Some y => lookup e y = Some b | None => False end) ->
       ~ In b (ref_addrs e args) -> ~ In b (map snd genv) -> value_of st' b = value_of st b).
Proof.
  intros mt funs genv fuel X e dst f args st st' H HS Ht He.
  destruct (do_call_copy_spec _ _ _ _ _ _ _ _ _ _ _ (exec_copy_ok mt funs genv fuel) H HS Ht He)
    as ((A1 & A2 & A3 & A4) & fd & ce & st1 & st2 & E1 & E2 & E3 & E4).
  exists fd, ce, st1, st2. split; [auto|split; [auto|split; [auto|split]]].
  - intros Hnd k p x Hk Hp Ha.
    destruct (bind_params_refs _ _ _ _ _ _ _ _ _ _ _ _ E2 Hnd) as (R1 & _).
    destruct (R1 _ _ _ Hk Hp Ha) as (a & L1 & L2). exists a. split; [auto|split; [auto|]].
    intros Hd. apply keeps_value. apply E4.
    + destruct He as [He1 _]. apply He1. eapply lookup_in; eauto.
    + destruct dst; auto.
  - intros b Hb N1 N2 N3. apply keeps_value. apply A4; auto. tauto.
Qed.
