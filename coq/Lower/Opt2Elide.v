(* C08 — soundness of the -O2 parameter-copy elision under the side condition of Opt2Safe.v.
   The elide-mode state is the copy-mode state with the buffers of the elided ("borrowed") parameters
   replaced by handles on the lenders' buffers:  se = patch B sc.  Every operation commutes with
   `patch B` as long as nothing writes through a borrowed parameter or a lender — which is what the
   side condition guarantees statically. *)
From Coq Require Import List ZArith Bool Arith Lia Permutation.
Import ListNotations.
From DDP Require Import Lower.Opt2 Lower.Opt2Base Lower.Opt2Copy Lower.Opt2Fbase Lower.Opt2Safe.

(* one elided parameter: its variable, the lender's variable, the buffer the copy-mode run gave the
   parameter, the lender's buffer *)
Record borrow := mkB { b_pa : nat; b_al : nat; b_lc : nat; b_ll : nat }.

Fixpoint patchh (B : list borrow) (h : list cell) : list cell :=
  match B with
  | [] => h
  | b :: r => upd (patchh r h) (b_lc b) (Alias (b_ll b))
  end.
Definition patch (B : list borrow) (sc : state) : state := set_heap sc (patchh B (heap sc)).

Lemma patchh_length : forall B h, length (patchh B h) = length h.
Proof. induction B as [|b B IH]; cbn; intros; auto. rewrite upd_length. auto. Qed.

Lemma patchh_out : forall B h l, ~ In l (map b_lc B) -> nth_error (patchh B h) l = nth_error h l.
Proof.
  induction B as [|b B IH]; cbn; intros h l H; auto.
  rewrite nth_error_upd_neq by tauto. apply IH. tauto.
Qed.

Lemma patchh_in : forall B h b, NoDup (map b_lc B) -> In b B -> b_lc b < length h ->
  nth_error (patchh B h) (b_lc b) = Some (Alias (b_ll b)).
Proof.
  induction B as [|b0 B IH]; cbn; intros h b Hnd Hin Hl; [contradiction|]. inv Hnd.
  destruct Hin as [->|Hin].
  - apply nth_error_upd_eq. rewrite patchh_length. auto.
  - rewrite nth_error_upd_neq. { apply IH; auto. }
    intros E. apply H1. rewrite E. apply in_map. auto.
Qed.

Lemma patchh_app : forall B h c, (forall b, In b B -> b_lc b < length h) -> patchh B (h ++ [c]) = patchh B h ++ [c].
Proof.
  induction B as [|b B IH]; cbn; intros h c H; auto.
  rewrite IH by auto. apply upd_app_l. rewrite patchh_length. auto.
Qed.

Lemma patchh_upd : forall B h l c, ~ In l (map b_lc B) -> patchh B (upd h l c) = upd (patchh B h) l c.
Proof.
  induction B as [|b B IH]; cbn; intros h l c H; auto.
  rewrite IH by tauto. clear IH. generalize (patchh B h). intros g.
  assert (Hne : b_lc b <> l) by tauto. clear H. revert l Hne. generalize (b_lc b).
  induction g as [|x g IHg]; intros [|n] [|l] Hne; cbn; auto; try congruence. f_equal. apply IHg. congruence.
Qed.

Lemma patch_nil : forall sc, patch [] sc = sc.
Proof. intros [v h t o]. reflexivity. Qed.

(* ---------------------------------------------------------------------------------------------- *)
(* the invariant tying the borrows to the copy-mode state                                          *)
(* ---------------------------------------------------------------------------------------------- *)
Definition Binv (B : list borrow) (sc : state) : Prop :=
  NoDup (map b_lc B) /\
  forall b, In b B ->
    ptr_at sc (b_pa b) (b_lc b) /\ ptr_at sc (b_al b) (b_ll b) /\
    (exists c, nth_error (heap sc) (b_lc b) = Some (Live c) /\ nth_error (heap sc) (b_ll b) = Some (Live c)) /\
    ~ In (b_al b) (map b_pa B) /\ ~ In (b_ll b) (map b_lc B).

Definition safe_addr (B : list borrow) (a : nat) : Prop := ~ In a (map b_pa B) /\ ~ In a (map b_al B).

Lemma Binv_nil : forall sc, Binv [] sc.
Proof. intros. split; [constructor | intros b []]. Qed.

Lemma Binv_lc_lt : forall B sc b, Binv B sc -> In b B -> b_lc b < length (heap sc).
Proof. intros B sc b [_ H] Hin. destruct (H b Hin) as (_ & _ & (c & Hc & _) & _). eapply nth_error_lt; eauto. Qed.

Lemma Binv_ll_notlc : forall B sc b, Binv B sc -> In b B -> ~ In (b_ll b) (map b_lc B).
Proof. intros B sc b [Hnd H] Hin. destruct (H b Hin) as (_ & _ & _ & _ & N). exact N. Qed.

(* a buffer owned by an address that is neither a borrowed parameter nor a lender is not involved *)
Lemma safe_loc : forall X B sc a l, Sep X sc -> Binv B sc -> safe_addr B a -> ptr_at sc a l ->
  ~ In l (map b_lc B) /\ ~ In l (map b_ll B).
Proof.
  intros X B sc a l HS [Hnd H] [S1 S2] Hp. split; intros Hi; apply in_map_iff in Hi; destruct Hi as (b & E & Hin);
    destruct (H b Hin) as (P1 & P2 & _).
  - rewrite E in P1. apply S1. rewrite (sep_inj _ _ HS _ _ _ Hp P1). apply in_map. auto.
  - rewrite E in P2. apply S2. rewrite (sep_inj _ _ HS _ _ _ Hp P2). apply in_map. auto.
Qed.

(* buffers held by temporaries / extra owners are not involved either *)
Lemma owner_loc : forall X B sc l, Sep X sc -> Binv B sc -> In l (tmps sc ++ X) ->
  ~ In l (map b_lc B) /\ ~ In l (map b_ll B).
Proof.
  intros X B sc l HS [Hnd H] Hl. split; intros Hi; apply in_map_iff in Hi; destruct Hi as (b & E & Hin);
    destruct (H b Hin) as (P1 & P2 & _).
  - rewrite E in P1. exact (sep_xvar _ _ HS _ _ P1 Hl).
  - rewrite E in P2. exact (sep_xvar _ _ HS _ _ P2 Hl).
Qed.

Lemma Binv_keeps : forall B sc sc',
  Binv B sc -> (forall b, In b B -> keeps sc sc' (b_pa b) /\ keeps sc sc' (b_al b)) -> Binv B sc'.
Proof.
  intros B sc sc' [Hnd H] K. split; auto. intros b Hin.
  destruct (H b Hin) as (P1 & P2 & (c & C1 & C2) & N). destruct (K b Hin) as ((K1 & K2) & (K3 & K4)).
  unfold ptr_at in *. split; [congruence|split; [congruence|split; [|auto]]].
  exists c. rewrite (K2 _ P1), (K4 _ P2). auto.
Qed.

(* ---------------------------------------------------------------------------------------------- *)
(* primitives commute with patch                                                                   *)
(* ---------------------------------------------------------------------------------------------- *)
Definition lift0 (B : list borrow) (r : res state) : res state :=
  match r with Ok s => Ok (patch B s) | Er e => Er e end.
Definition lift1 {A} (B : list borrow) (r : res (A * state)) : res (A * state) :=
  match r with Ok (a, s) => Ok (a, patch B s) | Er e => Er e end.

Lemma target_patch : forall B sc l, Binv B sc -> live sc l ->
  nth_error (heap (patch B sc)) (target l (patch B sc)) = nth_error (heap sc) l.
Proof.
  intros B sc l HB [c Hc]. unfold target. cbn.
  destruct (in_dec Nat.eq_dec l (map b_lc B)) as [Hi|Hn].
  - apply in_map_iff in Hi. destruct Hi as (b & <- & Hin).
    rewrite patchh_in; [|apply HB|auto|eapply Binv_lc_lt; eauto].
    rewrite patchh_out by (eapply Binv_ll_notlc; eauto).
    destruct HB as [_ H]. destruct (H b Hin) as (_ & _ & (c' & C1 & C2) & _). congruence.
  - rewrite (patchh_out B (heap sc) l) by auto. rewrite Hc. rewrite patchh_out by auto. auto.
Qed.

Lemma read_patch : forall B sc l, Binv B sc -> live sc l -> read l (patch B sc) = read l sc.
Proof.
  intros B sc l HB Hl. unfold read at 1. rewrite target_patch; auto.
  destruct Hl as [c Hc]. rewrite Hc. symmetry. apply read_live. auto.
Qed.

Lemma alloc_patch : forall B sc c l sc', Binv B sc -> alloc c sc = (l, sc') -> alloc c (patch B sc) = (l, patch B sc').
Proof.
  intros B sc c l sc' HB H. unfold alloc in *. inv H. cbn. rewrite patchh_length. f_equal.
  unfold patch, set_heap. cbn. rewrite patchh_app; auto. intros b Hb. eapply Binv_lc_lt; eauto.
Qed.

Lemma free_patch : forall B sc l, live sc l -> ~ In l (map b_lc B) -> free l (patch B sc) = lift0 B (free l sc).
Proof.
  intros B sc l [c Hc] Hn. unfold free. cbn. rewrite patchh_out by auto. rewrite Hc. cbn.
  unfold patch, set_heap. cbn. rewrite patchh_upd; auto.
Qed.

Lemma write_patch : forall B sc l c, live sc l -> ~ In l (map b_lc B) ->
  write l c (patch B sc) = lift0 B (write l c sc).
Proof.
  intros B sc l c Hl Hn. unfold write.
  assert (T1 : target l (patch B sc) = l).
  { unfold target. cbn. rewrite patchh_out by auto. destruct Hl as [c0 H0]. rewrite H0. auto. }
  rewrite T1, (target_live sc l) by auto. cbn. rewrite patchh_out by auto.
  destruct Hl as [c0 H0]. rewrite H0. cbn. unfold patch, set_heap. cbn. rewrite patchh_upd; auto.
Qed.

Lemma get_slot_patch : forall B sc a, get_slot a (patch B sc) = get_slot a sc.
Proof. reflexivity. Qed.
Lemma set_slot_patch : forall B sc a s, set_slot a s (patch B sc) = patch B (set_slot a s sc).
Proof. reflexivity. Qed.
Lemma add_tmp_patch : forall B sc l, add_tmp l (patch B sc) = patch B (add_tmp l sc).
Proof. reflexivity. Qed.
Lemma claim_patch : forall B sc l, claim l (patch B sc) = patch B (claim l sc).
Proof. reflexivity. Qed.
Lemma add_out_patch : forall B sc o, add_out (patch B sc) o = patch B (add_out sc o).
Proof. reflexivity. Qed.
Lemma set_tmps_patch : forall B sc t, set_tmps (patch B sc) t = patch B (set_tmps sc t).
Proof. reflexivity. Qed.
Lemma new_var_patch : forall B sc s a sc', new_var s sc = (a, sc') -> new_var s (patch B sc) = (a, patch B sc').
Proof. intros B sc s a sc' H. unfold new_var in *. inv H. reflexivity. Qed.

(* ---------------------------------------------------------------------------------------------- *)
(* expressions and the value-moving helpers commute with patch                                      *)
(* ---------------------------------------------------------------------------------------------- *)
Lemma Binv_ext : forall X B sc sc', Sep X sc -> Binv B sc -> ext sc sc' -> Binv B sc'.
Proof. intros X B sc sc' HS HB He. eapply Binv_keeps; eauto. intros b _. split; eapply ext_keeps; eauto. Qed.

Arguments alloc : simpl never.
Arguments new_var : simpl never.

Lemma eval_patch : forall X B e x sc, Sep X sc -> Binv B sc -> eval e x (patch B sc) = lift1 B (eval e x sc).
Proof.
  intros X B e x. induction x as [z|y|c|a IHa b IHb|a IHa i IHi|a IHa]; intros sc HS HB; cbn [eval].
  - reflexivity.
  - destruct (lookup e y) as [ad|]; [|reflexivity]. rewrite get_slot_patch.
    destruct (get_slot ad sc) as [[z|l|]|er]; reflexivity.
  - destruct (alloc (Live c) sc) as [l sc1] eqn:Ea. rewrite (alloc_patch _ _ _ _ _ HB Ea). reflexivity.
  - rewrite IHa by auto. destruct (eval e a sc) as [[va st1]|er] eqn:E1; [|reflexivity]. cbn [lift1 bind].
    destruct (eval_spec _ _ _ _ _ _ E1 HS) as (S1 & X1 & R1). pose proof (Binv_ext _ _ _ _ HS HB X1) as B1.
    rewrite IHb by auto. destruct (eval e b st1) as [[vb st2]|er] eqn:E2; [|reflexivity]. cbn [lift1 bind].
    destruct (eval_spec _ _ _ _ _ _ E2 S1) as (S2 & X2 & R2). pose proof (Binv_ext _ _ _ _ S1 B1 X2) as B2.
    destruct va as [z|la ta]; [reflexivity|].
    assert (La : live st2 la) by (eapply rv_read_live; [exact S2|eapply rv_ok_ext; eauto]).
    rewrite read_patch by auto. destruct (read la st2) as [ca|er]; [|reflexivity]. cbn [bind].
    assert (Rb : (match vb with RSeq lb _ => read lb (patch B st2) | RInt z => Ok [z] end) =
                 (match vb with RSeq lb _ => read lb st2 | RInt z => Ok [z] end)).
    { destruct vb as [z|lb tb]; [reflexivity|]. apply read_patch; auto. eapply rv_read_live; eauto. }
    rewrite Rb. destruct (match vb with RSeq lb _ => read lb st2 | RInt z => Ok [z] end) as [cb|er]; [|reflexivity]. cbn [bind].
    destruct (alloc (Live (ca ++ cb)) st2) as [l st3] eqn:Ea. rewrite (alloc_patch _ _ _ _ _ B2 Ea). reflexivity.
  - rewrite IHa by auto. destruct (eval e a sc) as [[va st1]|er] eqn:E1; [|reflexivity]. cbn [lift1 bind].
    destruct (eval_spec _ _ _ _ _ _ E1 HS) as (S1 & X1 & R1). pose proof (Binv_ext _ _ _ _ HS HB X1) as B1.
    rewrite IHi by auto. destruct (eval e i st1) as [[vi st2]|er] eqn:E2; [|reflexivity]. cbn [lift1 bind].
    destruct (eval_spec _ _ _ _ _ _ E2 S1) as (S2 & X2 & R2). pose proof (Binv_ext _ _ _ _ S1 B1 X2) as B2.
    destruct va as [z|la ta]; [reflexivity|]. destruct vi as [z|li ti]; [|reflexivity].
    assert (La : live st2 la) by (eapply rv_read_live; [exact S2|eapply rv_ok_ext; eauto]).
    rewrite read_patch by auto. destruct (read la st2) as [ca|er]; [|reflexivity]. cbn [bind].
    destruct (idx_ok z (length ca)); reflexivity.
  - rewrite IHa by auto. destruct (eval e a sc) as [[va st1]|er] eqn:E1; [|reflexivity]. cbn [lift1 bind].
    destruct (eval_spec _ _ _ _ _ _ E1 HS) as (S1 & X1 & R1). pose proof (Binv_ext _ _ _ _ HS HB X1) as B1.
    destruct va as [z|la ta]; [reflexivity|].
    assert (La : live st1 la) by (eapply rv_read_live; eauto).
    rewrite read_patch by auto. destruct (read la st1) as [ca|er]; reflexivity.
Qed.

Lemma claim_or_copy_patch : forall B sc l tmp, Binv B sc -> live sc l ->
  claim_or_copy l tmp (patch B sc) = lift1 B (claim_or_copy l tmp sc).
Proof.
  intros B sc l tmp HB Hr. unfold claim_or_copy. destruct tmp; [reflexivity|].
  unfold copy_of. rewrite read_patch by auto.
  destruct (read l sc) as [c|er]; [|reflexivity]. cbn [bind].
  destruct (alloc (Live c) sc) as [l' sc1] eqn:Ea. rewrite (alloc_patch _ _ _ _ _ HB Ea). reflexivity.
Qed.

Lemma own_value_patch : forall X B sc v, Sep X sc -> Binv B sc -> rv_ok sc v ->
  own_value v (patch B sc) = lift1 B (own_value v sc).
Proof.
  intros X B sc v HS HB Hr. destruct v as [z|l tmp]; [reflexivity|]. cbn [own_value].
  rewrite claim_or_copy_patch by (auto; eapply rv_read_live; eauto). destruct (claim_or_copy l tmp sc) as [[l' s1]|er]; reflexivity.
Qed.

Lemma free_list_patch : forall B ls sc,
  (forall l, In l ls -> live sc l /\ ~ In l (map b_lc B)) -> NoDup ls ->
  free_list ls (patch B sc) = lift0 B (free_list ls sc).
Proof.
  intros B ls. induction ls as [|l ls IH]; intros sc H Hnd; [reflexivity|]. cbn [free_list]. inv Hnd.
  destruct (H l (or_introl eq_refl)) as [Hl Hn]. rewrite free_patch by auto.
  destruct (free l sc) as [sc1|er] eqn:Ef; [|reflexivity]. cbn [lift0 bind].
  apply IH; auto. intros l' Hin. destruct (H l' (or_intror Hin)) as [[c Hc] Hn']. split; auto.
  pose proof (free_ok _ _ _ Ef Hl) as (_ & Hh & _). exists c. rewrite Hh, nth_error_upd_neq; auto. intros ->. auto.
Qed.

Lemma end_stmt_patch : forall X B sc, Sep X sc -> Binv B sc -> end_stmt (patch B sc) = lift0 B (end_stmt sc).
Proof.
  intros X B sc HS HB. unfold end_stmt. cbn [tmps patch set_heap].
  rewrite free_list_patch.
  - destruct (free_list (tmps sc) sc) as [s1|er]; reflexivity.
  - intros l Hin. split; [eapply (sep_xlive _ _ HS); apply in_or_app; auto|].
    eapply owner_loc; eauto. apply in_or_app; auto.
  - eapply nodup_app_l. apply (sep_xnodup _ _ HS).
Qed.

(* ---------------------------------------------------------------------------------------------- *)
(* statements commute with patch                                                                   *)
(* ---------------------------------------------------------------------------------------------- *)
Lemma Binv_lt : forall B sc b, Binv B sc -> In b B -> b_pa b < length (vars sc) /\ b_al b < length (vars sc).
Proof. intros B sc b [_ H] Hin. destruct (H b Hin) as (P1 & P2 & _). split; eapply nth_error_lt; eauto. Qed.

Lemma Binv_step : forall B sc sc' (P : nat -> Prop),
  Binv B sc -> (forall b, b < length (vars sc) -> ~ P b -> keeps sc sc' b) ->
  (forall b, In b B -> ~ P (b_pa b) /\ ~ P (b_al b)) -> Binv B sc'.
Proof.
  intros B sc sc' P HB K HP. eapply Binv_keeps; eauto. intros b Hin.
  destruct (Binv_lt _ _ _ HB Hin). destruct (HP b Hin). split; apply K; auto.
Qed.

Lemma Binv_heap_same : forall X B sc sc', Sep X sc -> Binv B sc -> vars sc' = vars sc ->
  (forall k, k < length (heap sc) -> nth_error (heap sc') k = nth_error (heap sc) k) -> Binv B sc'.
Proof. intros. eapply Binv_keeps; eauto. intros b _. split; eapply heap_keeps; eauto. Qed.

Lemma Binv_new_var : forall B sc s a sc', Binv B sc -> new_var s sc = (a, sc') -> Binv B sc'.
Proof.
  intros B sc s a sc' HB Hn. eapply Binv_keeps; eauto. intros b Hin.
  destruct (Binv_lt _ _ _ HB Hin). split; eapply new_var_keeps; eauto.
Qed.

Lemma do_decl_patch : forall X B e x ex sc, Sep X sc -> Binv B sc ->
  do_decl e x ex (patch B sc) = lift1 B (do_decl e x ex sc).
Proof.
  intros X B e x ex sc HS HB. unfold do_decl.
  rewrite (eval_patch X) by auto. destruct (eval e ex sc) as [[v st1]|er] eqn:E1; [|reflexivity]. cbn [lift1 bind].
  destruct (eval_spec _ _ _ _ _ _ E1 HS) as (S1 & X1 & R1). pose proof (Binv_ext _ _ _ _ HS HB X1) as B1.
  rewrite (own_value_patch X) by auto. destruct (own_value v st1) as [[s st2]|er] eqn:E2; [|reflexivity]. cbn [lift1 bind].
  destruct (own_value_spec _ _ _ _ _ S1 R1 E2) as (O1 & O2 & O3 & O4 & O5).
  pose proof (Binv_heap_same _ _ _ _ S1 B1 O2 O4) as B2.
  destruct (new_var s st2) as [a st3] eqn:En. rewrite (new_var_patch _ _ _ _ _ En).
  assert (S3 : Sep X st3).
  { destruct s as [z|l|]; [eapply Sep_new_var_int; eauto | eapply Sep_new_var_ptr; eauto | contradiction]. }
  pose proof (Binv_new_var _ _ _ _ _ B2 En) as B3.
  rewrite (end_stmt_patch X) by auto. destruct (end_stmt st3) as [st4|er]; reflexivity.
Qed.

Lemma store_value_patch : forall X B sc a v, Sep X sc -> Binv B sc -> rv_ok sc v -> safe_addr B a ->
  store_value a v (patch B sc) = lift0 B (store_value a v sc).
Proof.
  intros X B sc a v HS HB Hr Hs. unfold store_value. rewrite get_slot_patch.
  destruct (get_slot a sc) as [s|er] eqn:Eg; [|reflexivity]. cbn [bind]. apply get_slot_ok in Eg.
  destruct s as [z0|lold|]; destruct v as [z|l tmp]; try reflexivity.
  assert (Hp : ptr_at sc a lold) by exact Eg.
  rewrite claim_or_copy_patch by (auto; eapply rv_read_live; eauto).
  destruct (claim_or_copy l tmp sc) as [[l' st1]|er] eqn:Ec; [|reflexivity]. cbn [lift1 bind].
  destruct (claim_or_copy_spec _ _ _ _ _ _ HS Hr Ec) as (C1 & C2 & C3 & C4 & C5 & C6).
  pose proof (Binv_heap_same _ _ _ _ HS HB C2 C4) as B1.
  assert (Hp1 : ptr_at st1 a lold) by (unfold ptr_at in *; congruence).
  destruct (safe_loc _ _ _ _ _ C1 B1 Hs Hp1) as [N1 N2].
  assert (Hlo : live st1 lold) by (eapply (sep_live _ _ C1); eauto).
  rewrite free_patch by auto. destruct (free lold st1) as [st2|er]; reflexivity.
Qed.

Lemma do_assign_patch : forall X B e x ex sc, Sep X sc -> Binv B sc ->
  (forall a, lookup e x = Some a -> safe_addr B a) ->
  do_assign e x ex (patch B sc) = lift0 B (do_assign e x ex sc).
Proof.
  intros X B e x ex sc HS HB Hsafe. unfold do_assign.
  rewrite (eval_patch X) by auto. destruct (eval e ex sc) as [[v st1]|er] eqn:E1; [|reflexivity]. cbn [lift1 bind].
  destruct (eval_spec _ _ _ _ _ _ E1 HS) as (S1 & X1 & R1). pose proof (Binv_ext _ _ _ _ HS HB X1) as B1.
  destruct (lookup e x) as [a|]; [|reflexivity].
  rewrite (store_value_patch X) by auto. destruct (store_value a v st1) as [st2|er] eqn:E2; [|reflexivity]. cbn [lift0 bind].
  destruct (store_value_spec _ _ _ _ _ S1 R1 E2) as (V1 & V2 & V3 & V4 & V5).
  assert (B2 : Binv B st2).
  { eapply Binv_keeps; eauto. intros b Hin. destruct (Hsafe a eq_refl) as [N1 N2].
    split; apply V5; intros E; [apply N1|apply N2]; rewrite <- E; apply in_map; auto. }
  apply (end_stmt_patch X); auto.
Qed.

Lemma do_assign_idx_patch : forall X B e x i v sc, Sep X sc -> Binv B sc ->
  (forall a, lookup e x = Some a -> safe_addr B a) ->
  do_assign_idx e x i v (patch B sc) = lift0 B (do_assign_idx e x i v sc).
Proof.
  intros X B e x i v sc HS HB Hsafe. unfold do_assign_idx.
  rewrite (eval_patch X) by auto. destruct (eval e v sc) as [[vv st1]|er] eqn:E1; [|reflexivity]. cbn [lift1 bind].
  destruct (eval_spec _ _ _ _ _ _ E1 HS) as (S1 & X1 & R1). pose proof (Binv_ext _ _ _ _ HS HB X1) as B1.
  rewrite (eval_patch X) by auto. destruct (eval e i st1) as [[vi st2]|er] eqn:E2; [|reflexivity]. cbn [lift1 bind].
  destruct (eval_spec _ _ _ _ _ _ E2 S1) as (S2 & X2 & R2). pose proof (Binv_ext _ _ _ _ S1 B1 X2) as B2.
  destruct (lookup e x) as [a|]; [|reflexivity].
  destruct vv as [zv|? ?]; [|reflexivity]. destruct vi as [zi|? ?]; [|reflexivity].
  rewrite get_slot_patch. destruct (get_slot a st2) as [s|er] eqn:Eg; [|reflexivity]. cbn [bind]. apply get_slot_ok in Eg.
  destruct s as [?|l|]; try reflexivity.
  assert (Hp : ptr_at st2 a l) by exact Eg.
  destruct (safe_loc _ _ _ _ _ S2 B2 (Hsafe a eq_refl) Hp) as [N1 N2].
  assert (Hl : live st2 l) by (eapply (sep_live _ _ S2); eauto).
  rewrite read_patch by auto. destruct (read l st2) as [c|er]; [|reflexivity]. cbn [bind].
  destruct (idx_ok zi (length c)); [|reflexivity].
  rewrite write_patch by auto. destruct (write l (upd c (Z.to_nat zi - 1) zv) st2) as [st3|er] eqn:Ew; [|reflexivity]. cbn [lift0 bind].
  pose proof (Sep_write _ _ _ _ _ _ S2 Hp Ew) as S3.
  assert (B3 : Binv B st3).
  { eapply Binv_keeps; eauto. intros b Hin. destruct (Hsafe a eq_refl) as [M1 M2].
    split; eapply write_keeps; eauto; intros E; [apply M1|apply M2]; rewrite <- E; apply in_map; auto. }
  apply (end_stmt_patch X); auto.
Qed.

Lemma do_print_patch : forall X B e ex sc, Sep X sc -> Binv B sc ->
  do_print e ex (patch B sc) = lift0 B (do_print e ex sc).
Proof.
  intros X B e ex sc HS HB. unfold do_print.
  rewrite (eval_patch X) by auto. destruct (eval e ex sc) as [[v st1]|er] eqn:E1; [|reflexivity]. cbn [lift1 bind].
  destruct (eval_spec _ _ _ _ _ _ E1 HS) as (S1 & X1 & R1). pose proof (Binv_ext _ _ _ _ HS HB X1) as B1.
  destruct v as [z|l t].
  - rewrite add_out_patch. apply (end_stmt_patch X).
    + destruct S1; constructor; auto.
    + exact B1.
  - rewrite read_patch by (auto; eapply rv_read_live; eauto). destruct (read l st1) as [c|er]; [|reflexivity]. cbn [bind].
    rewrite add_out_patch. apply (end_stmt_patch X).
    + destruct S1; constructor; auto.
    + exact B1.
Qed.

Lemma do_cond_patch : forall X B e c sc, Sep X sc -> Binv B sc ->
  do_cond e c (patch B sc) = lift1 B (do_cond e c sc).
Proof.
  intros X B e c sc HS HB. unfold do_cond.
  rewrite (eval_patch X) by auto. destruct (eval e c sc) as [[v st1]|er] eqn:E1; [|reflexivity]. cbn [lift1 bind].
  destruct (eval_spec _ _ _ _ _ _ E1 HS) as (S1 & X1 & R1). pose proof (Binv_ext _ _ _ _ HS HB X1) as B1.
  destruct v as [z|l t]; [|reflexivity].
  rewrite (end_stmt_patch X) by auto. destruct (end_stmt st1) as [st2|er]; reflexivity.
Qed.

Lemma for_init_patch : forall X B e ex sc, Sep X sc -> Binv B sc ->
  for_init e ex (patch B sc) = lift1 B (for_init e ex sc).
Proof.
  intros X B e ex sc HS HB. unfold for_init.
  rewrite (eval_patch X) by auto. destruct (eval e ex sc) as [[v st1]|er] eqn:E1; [|reflexivity]. cbn [lift1 bind].
  destruct (eval_spec _ _ _ _ _ _ E1 HS) as (S1 & X1 & R1). pose proof (Binv_ext _ _ _ _ HS HB X1) as B1.
  destruct v as [z|l t]; [reflexivity|].
  rewrite claim_or_copy_patch by (auto; eapply rv_read_live; eauto).
  destruct (claim_or_copy l t st1) as [[lc st2]|er] eqn:E2; [|reflexivity]. cbn [lift1 bind].
  destruct (claim_or_copy_spec _ _ _ _ _ _ S1 R1 E2) as (C1 & C2 & C3 & C4 & C5 & C6).
  pose proof (Binv_heap_same _ _ _ _ S1 B1 C2 C4) as B2.
  assert (Hl : live st2 lc) by (eapply (sep_xlive _ _ C1); rewrite in_middle; auto).
  rewrite read_patch by auto. destruct (read lc st2) as [c|er]; [|reflexivity]. cbn [bind].
  rewrite (end_stmt_patch (lc :: X)) by auto. destruct (end_stmt st2) as [st3|er]; reflexivity.
Qed.

(* ---------------------------------------------------------------------------------------------- *)
(* the activation invariant                                                                        *)
(* ---------------------------------------------------------------------------------------------- *)
Lemma pindex_spec : forall ps x i r, pindex ps x i = Some r ->
  exists j p, nth_error ps j = Some p /\ pname p = x /\ r = (i + j, pref p) /\
              (forall j' p', j' < j -> nth_error ps j' = Some p' -> pname p' <> x).
Proof.
  induction ps as [|p ps IH]; cbn; intros x i r H; [discriminate H|].
  destruct (Nat.eqb_spec (pname p) x) as [E|N].
  - inv H. exists 0, p. split; [auto|split; [auto|split; [f_equal; lia|]]]. intros j' p' Hj. lia.
  - destruct (IH _ _ _ H) as (j & q & Hq & Hn & -> & Hf). exists (S j), q.
    split; [auto|split; [auto|split; [f_equal; lia|]]].
    intros [|j'] p' Hj Hp; cbn in Hp; [inv Hp; auto|]. eapply Hf; eauto. lia.
Qed.

Lemma pindex_none : forall ps x i, pindex ps x i = None -> ~ In x (map pname ps).
Proof.
  induction ps as [|p ps IH]; cbn; intros x i H; [tauto|].
  destruct (Nat.eqb_spec (pname p) x); [discriminate H|]. intros [E|Hi]; [auto|]. eapply IH; eauto.
Qed.

Lemma pindex_nodup : forall ps j p i, NoDup (map pname ps) -> nth_error ps j = Some p ->
  pindex ps (pname p) i = Some (i + j, pref p).
Proof.
  induction ps as [|q ps IH]; intros [|j] p i Hnd Hp; cbn in *; try discriminate Hp.
  - inv Hp. rewrite Nat.eqb_refl. f_equal. f_equal. lia.
  - inv Hnd. destruct (Nat.eqb_spec (pname q) (pname p)) as [E|N].
    + exfalso. apply H1. rewrite E. apply in_map. eapply nth_error_In; eauto.
    + rewrite (IH j p (S i)); auto. f_equal. f_equal. lia.
Qed.

Lemma mem_true : forall x l, mem x l = true <-> In x l.
Proof.
  intros x l. unfold mem. rewrite existsb_exists. split.
  - intros (y & Hy & E). apply Nat.eqb_eq in E. subst. auto.
  - intros H. exists x. split; auto. apply Nat.eqb_refl.
Qed.

Lemma nodupb_NoDup : forall l, nodupb l = true -> NoDup l.
Proof.
  induction l as [|x l IH]; cbn; intros H; [constructor|]. apply andb_true_iff in H. destruct H as [H1 H2].
  constructor; auto. intros Hi. apply mem_true in Hi. rewrite Hi in H1. discriminate H1.
Qed.

Lemma all_stmts_cons : forall P s r, all_stmts P (s :: r) = true -> all_stmt P s = true /\ all_stmts P r = true.
Proof. intros P s r H. cbn in H. apply andb_true_iff in H. auto. Qed.

Lemma all_stmt_head : forall P s, all_stmt P s = true -> P s = true.
Proof. intros P s H. destruct s; cbn in H; apply andb_true_iff in H; tauto. Qed.

Lemma all_stmt_if : forall P c th el, all_stmt P (SIf c th el) = true -> all_stmts P th = true /\ all_stmts P el = true.
Proof.
  intros P c th el H. cbn in H. apply andb_true_iff in H. destruct H as [_ H].
  apply andb_true_iff in H. destruct H as [H1 H2]. split.
  - clear H2. induction th as [|s th IH]; cbn in *; auto;
      apply andb_true_iff in H1; destruct H1 as [A B0]; rewrite A; cbn; apply IH; auto.
  - clear H1. induction el as [|s el IH]; cbn in *; auto;
      apply andb_true_iff in H2; destruct H2 as [A B0]; rewrite A; cbn; apply IH; auto.
Qed.

Lemma all_stmt_for : forall P x e b, all_stmt P (SFor x e b) = true -> all_stmts P b = true.
Proof.
  intros P x e b H. cbn in H. apply andb_true_iff in H. destruct H as [_ H].
  induction b as [|s b IH]; cbn in *; auto;
    apply andb_true_iff in H; destruct H as [A B0]; rewrite A; cbn; apply IH; auto.
Qed.

Section Sim.
  Variable mt : meta.
  Variable funs : list fundecl.
  Variable genv : env.
  Variable gnames : list name.
  Variable gw : list (list name).
  Variable gbase : nat.
  Hypothesis genv_names : forall g a, lookup genv g = Some a -> mem g gnames = true /\ a < gbase.
  Hypothesis genv_inj : forall g g' a, lookup genv g = Some a -> lookup genv g' = Some a -> g = g'.
  Hypothesis funs_ok : forall j, j < length funs -> fun_ok mt funs gnames gw j = true.

  Notation kind_of := (kind_of mt funs gnames).
  Notation may_write := (may_write mt funs gnames gw).
  Notation stmt_ok := (stmt_ok mt funs gnames gw).

  Record Einv (c : ctx) (base : nat) (e : env) (sc : state) : Prop := mkEinv {
    ei_lt : forall x a, lookup e x = Some a -> a < length (vars sc);
    ei_kind : forall x a, lookup e x = Some a ->
      match kind_of c x with
      | KGlobal => lookup genv x = Some a
      | KRef => a < base
      | KLocal | KBorrow => base <= a
      end;
    ei_inj : forall x y a, lookup e x = Some a -> lookup e y = Some a -> base <= a -> x = y;
    ei_base : gbase <= base /\ base <= length (vars sc) }.

  Definition gw_has (c : ctx) (g : name) : Prop :=
    match c with Some j => mem g (nth j gw []) = true | None => True end.

  Record Ainv (c : ctx) (base : nat) (B : list borrow) (e : env) (sc : state) : Prop := mkAinv {
    ai_env : Einv c base e sc;
    ai_safe : forall x a, lookup e x = Some a -> may_write c x = true -> safe_addr B a;
    ai_gw : forall g a, gw_has c g -> lookup genv g = Some a -> safe_addr B a }.

  Lemma Einv_mono : forall c base e sc sc', Einv c base e sc -> length (vars sc) <= length (vars sc') -> Einv c base e sc'.
  Proof.
    intros c base e sc sc' [E1 E2 E3 [E4 E5]] Hl. constructor; auto.
    - intros x a Hx. apply E1 in Hx. lia.
    - split; lia.
  Qed.

  Lemma Ainv_mono : forall c base B e sc sc', Ainv c base B e sc -> length (vars sc) <= length (vars sc') -> Ainv c base B e sc'.
  Proof. intros c base B e sc sc' [A1 A2 A3] Hl. constructor; auto. eapply Einv_mono; eauto. Qed.

  Lemma fresh_kind : forall c x, fresh_name funs gnames c x = true -> kind_of c x = KLocal /\ may_write c x = true.
  Proof.
    intros c x H. unfold fresh_name in H. apply andb_true_iff in H. destruct H as [H1 H2].
    apply negb_true_iff in H1. apply negb_true_iff in H2.
    unfold Opt2Safe.kind_of, Opt2Safe.may_write, is_param in *. destruct c as [j|].
    - destruct (pindex (fparams (fn funs j)) x 0); [discriminate H1|]. rewrite H2. auto.
    - rewrite H2. auto.
  Qed.

  (* a declaration extends the environment by a brand-new variable of the activation *)
  Lemma Ainv_decl : forall c base B e sc sc' x,
    Ainv c base B e sc -> Binv B sc -> fresh_name funs gnames c x = true ->
    length (vars sc) < length (vars sc') ->
    Ainv c base B ((x, length (vars sc)) :: e) sc'.
  Proof.
    intros c base B e sc sc' x [[E1 E2 E3 [E4 E5]] A2 A3] HB Hf Hl. destruct (fresh_kind _ _ Hf) as [K1 K2].
    constructor; [constructor|..].
    - cbn. intros y a H. destruct (Nat.eqb_spec x y); [inv H; lia|]. apply E1 in H. lia.
    - cbn. intros y a H. destruct (Nat.eqb_spec x y) as [<-|N]; [inv H; rewrite K1; lia|]. apply E2. auto.
    - cbn. intros y z a Hy Hz Hb. destruct (Nat.eqb_spec x y) as [<-|Ny]; destruct (Nat.eqb_spec x z) as [<-|Nz]; auto.
      + inv Hy. apply E1 in Hz. lia.
      + inv Hz. apply E1 in Hy. lia.
      + eapply E3; eauto.
    - split; lia.
    - cbn. intros y a H Hw. destruct (Nat.eqb_spec x y) as [<-|N]; [|eauto]. inv H.
      split; intros Hi; apply in_map_iff in Hi; destruct Hi as (b & E & Hin); destruct (Binv_lt _ _ _ HB Hin); lia.
    - auto.
  Qed.

  (* ---------------------------------------------------------------------------------------------- *)
  (* binding the parameters                                                                        *)
  (* ---------------------------------------------------------------------------------------------- *)
  Lemma eval_nontmp : forall e ex st l st', eval e ex st = Ok (RSeq l false, st') ->
    exists x a, ex = EVar x /\ lookup e x = Some a /\ ptr_at st a l /\ st' = st.
  Proof.
    intros e ex st l st' H. destruct ex as [z|y|c|a b|a i|a]; cbn in H.
    - inv H.
    - destruct (lookup e y) as [ad|] eqn:El; [|discriminate H]. bind_as H s Hs H. apply get_slot_ok in Hs.
      destruct s as [z|l0|]; inv H. exists y, ad. auto.
    - destruct (alloc (Live c) st). inv H.
    - bind_as H r1 H1 H. destruct r1 as [va st1]. bind_as H r2 H2 H. destruct r2 as [vb st2].
      destruct va; [discriminate H|]. bind_as H ca Hc H. bind_as H cb Hd H. destruct (alloc (Live (ca ++ cb)) st2). inv H.
    - bind_as H r1 H1 H. destruct r1 as [va st1]. bind_as H r2 H2 H. destruct r2 as [vi st2].
      destruct va; [discriminate H|]. destruct vi; [|discriminate H]. bind_as H ca Hc H.
      destruct (idx_ok z (length ca)); inv H.
    - bind_as H r1 H1 H. destruct r1 as [va st1]. destruct va; [discriminate H|]. bind_as H ca Hc H. inv H.
  Qed.

  Definition lender (BB : list borrow) (l a : nat) : nat * nat :=
    match find (fun b => Nat.eqb (b_lc b) l) BB with
    | Some b0 => (b_al b0, b_ll b0)
    | None => (a, l)
    end.

  Lemma alloc_alias_patch : forall BB sc c t l sc' pa al,
    Binv BB sc -> alloc (Live c) sc = (l, sc') ->
    alloc (Alias t) (patch BB sc) = (l, patch (mkB pa al l t :: BB) sc').
  Proof.
    intros BB sc c t l sc' pa al HB H. unfold alloc in *. inv H. cbn. rewrite patchh_length. f_equal.
    unfold patch, set_heap. cbn. f_equal.
    rewrite patchh_app by (intros b Hb; eapply Binv_lc_lt; eauto).
    rewrite <- (patchh_length BB (heap sc)). generalize (patchh BB (heap sc)). intros g.
    induction g as [|x g IH]; cbn; auto. f_equal. auto.
  Qed.

  Lemma target_lender : forall X BB sc l a, Sep X sc -> Binv BB sc -> ptr_at sc a l ->
    target l (patch BB sc) = snd (lender BB l a).
  Proof.
    intros X BB sc l a HS HB Hp. unfold target, lender. cbn.
    destruct (find (fun b => Nat.eqb (b_lc b) l) BB) as [b0|] eqn:Ef.
    - apply find_some in Ef. destruct Ef as [Hin E]. apply Nat.eqb_eq in E. subst l.
      rewrite patchh_in; [|apply HB|auto|eapply Binv_lc_lt; eauto]. reflexivity.
    - assert (Hn : ~ In l (map b_lc BB)).
      { intros Hi. apply in_map_iff in Hi. destruct Hi as (b & E & Hin).
        pose proof (find_none _ _ Ef _ Hin) as F. cbn in F. rewrite E, Nat.eqb_refl in F. discriminate F. }
      rewrite patchh_out by auto. destruct (sep_live _ _ HS _ _ Hp) as [c Hc]. rewrite Hc. reflexivity.
  Qed.

  (* pushing the borrow created for an elided argument *)
  Lemma Binv_push : forall X BB sc a l c lc sc2 ad sc3,
    Sep X sc -> Binv BB sc -> ptr_at sc a l -> nth_error (heap sc) l = Some (Live c) ->
    alloc (Live c) sc = (lc, sc2) -> new_var (VPtr lc) sc2 = (ad, sc3) ->
    Binv (mkB ad (fst (lender BB l a)) lc (snd (lender BB l a)) :: BB) sc3 /\
    (In (fst (lender BB l a)) (map b_al BB) \/ (fst (lender BB l a) = a /\ ~ In a (map b_pa BB))).
  Proof.
    intros X BB sc a l c lc sc2 ad sc3 HS HB Hp Hc Ha Hn.
    pose proof (alloc_spec _ _ _ _ Ha) as (-> & Hh & Hv & Ht & Ho).
    pose proof (new_var_spec _ _ _ _ Hn) as (-> & N2 & N3 & N4 & N5).
    assert (Hvl : length (vars sc2) = length (vars sc)) by congruence.
    assert (Hold : forall b k, ptr_at sc b k -> ptr_at sc3 b k).
    { unfold ptr_at. intros b k H. rewrite N2, Hv. rewrite nth_error_app_old; auto. eapply nth_error_lt; eauto. }
    assert (Hhold : forall k cc, nth_error (heap sc) k = Some cc -> nth_error (heap sc3) k = Some cc).
    { intros k cc H. rewrite N3, Hh, nth_error_app_old; auto. eapply nth_error_lt; eauto. }
    assert (Hal : a < length (vars sc)) by (eapply nth_error_lt; eauto).
    destruct HB as [Hnd H].
    assert (Hlt : forall b, In b BB -> b_lc b < length (heap sc) /\ b_ll b < length (heap sc) /\ b_pa b < length (vars sc) /\ b_al b < length (vars sc)).
    { intros b Hin. destruct (H b Hin) as (P1 & P2 & (cc & C1 & C2) & _).
      repeat split; eapply nth_error_lt; eauto. }
    assert (L : (exists b0, In b0 BB /\ b_lc b0 = l /\ lender BB l a = (b_al b0, b_ll b0)) \/
                (~ In l (map b_lc BB) /\ lender BB l a = (a, l))).
    { unfold lender. destruct (find (fun b => Nat.eqb (b_lc b) l) BB) as [b0|] eqn:Ef.
      - apply find_some in Ef. destruct Ef as [Hin E]. apply Nat.eqb_eq in E. left. exists b0. auto.
      - right. split; auto. intros Hi. apply in_map_iff in Hi. destruct Hi as (b & E & Hin).
        pose proof (find_none _ _ Ef _ Hin) as F. cbn in F. rewrite E, Nat.eqb_refl in F. discriminate F. }
    split.
    - split.
      + cbn. constructor; auto. intros Hi. apply in_map_iff in Hi. destruct Hi as (b & E & Hin).
        destruct (Hlt b Hin). lia.
      + intros b [<-|Hin]; cbn [b_pa b_al b_lc b_ll].
        * split; [unfold ptr_at; rewrite N2, Hv; apply nth_error_app_new|].
          destruct L as [(b0 & Hin0 & E0 & ->)|(Hn0 & ->)]; cbn [fst snd].
          -- destruct (H b0 Hin0) as (P1 & P2 & (cc & C1 & C2) & N & M). destruct (Hlt b0 Hin0) as (L1 & L2 & L3 & L4).
             split; [auto|split; [|split]].
             ++ exists c. split; [rewrite N3, Hh; apply nth_error_app_new|]. apply Hhold. congruence.
             ++ cbn. intros [E|Hi]; [lia|auto].
             ++ cbn. intros [E|Hi]; [lia|auto].
          -- split; [auto|split; [|split]].
             ++ exists c. split; [rewrite N3, Hh; apply nth_error_app_new|auto].
             ++ cbn. intros [E|Hi]; [lia|]. apply in_map_iff in Hi. destruct Hi as (b & E & Hin).
                destruct (H b Hin) as (P1 & _). rewrite E in P1. apply Hn0.
                unfold ptr_at in *. rewrite Hp in P1. inv P1. apply in_map. auto.
             ++ cbn. intros [E|Hi]; [apply nth_error_lt in Hc; lia|auto].
        * destruct (H b Hin) as (P1 & P2 & (cc & C1 & C2) & N & M). destruct (Hlt b Hin) as (L1 & L2 & L3 & L4).
          split; [auto|split; [auto|split; [eauto|split]]].
          -- cbn. intros [E|Hi]; [lia|auto].
          -- cbn. intros [E|Hi]; [lia|auto].
    - destruct L as [(b0 & Hin0 & E0 & ->)|(Hn0 & ->)]; cbn [fst snd].
      + left. apply in_map. auto.
      + right. split; auto. intros Hi. apply in_map_iff in Hi. destruct Hi as (b & E & Hin).
        destruct (H b Hin) as (P1 & _). rewrite E in P1. apply Hn0.
        unfold ptr_at in *. rewrite Hp in P1. inv P1. apply in_map. auto.
  Qed.

  Lemma bind_head : forall all k p i a e ce X BB sc, Sep X sc -> Binv BB sc ->
    (exists er, forall ps args,
        bind_params false mt all k i (p :: ps) (a :: args) e ce sc = Er er /\
        bind_params true mt all k i (p :: ps) (a :: args) e ce (patch BB sc) = Er er)
    \/ (exists ad st3 Bhd,
          (forall ps args,
             bind_params false mt all k i (p :: ps) (a :: args) e ce sc =
               bind_params false mt all k (S i) ps args e ((pname p, ad) :: ce) st3 /\
             bind_params true mt all k i (p :: ps) (a :: args) e ce (patch BB sc) =
               bind_params true mt all k (S i) ps args e ((pname p, ad) :: ce) (patch (Bhd ++ BB) st3)) /\
          Sep X st3 /\ Binv (Bhd ++ BB) st3 /\ length (vars sc) <= length (vars st3) /\
          (if pref p then (exists x, a = ARef x /\ lookup e x = Some ad) /\ st3 = sc /\ Bhd = []
           else ad = length (vars sc) /\ length (vars st3) = S ad /\
                (Bhd = [] \/ exists b', Bhd = [b'] /\ b_pa b' = ad /\ is_const mt k i = true /\
                    (In (b_al b') (map b_al BB) \/
                     exists x, a = AVal (EVar x) /\ lookup e x = Some (b_al b') /\ ~ In (b_al b') (map b_pa BB)))) /\
          fbase st3 = fbase sc /\
          (forall b', In b' Bhd -> In (b_al b') (map b_al BB) \/
             exists x, lookup e x = Some (b_al b') /\ fbase sc <= b_al b' /\ existsb (is_ref_of x) all = false)).
  Proof.
    intros all k p i a e ce X BB sc HS HB.
    destruct (pref p) eqn:Ep; destruct a as [ex|x].
    - left. exists EStuck. intros. cbn. rewrite Ep. auto.
    - destruct (lookup e x) as [ad|] eqn:El.
      + right. exists ad, sc, []. split; [intros; cbn; rewrite Ep, El; auto|].
        split; [auto|split; [auto|split; [lia|]]]. split; [split; eauto|split; [reflexivity|intros b' []]].
      + left. exists EStuck. intros. cbn. rewrite Ep, El. auto.
    - (* value parameter *)
      pose proof (eval_patch X BB e ex sc HS HB) as Hev.
      destruct (eval e ex sc) as [[v st1]|er] eqn:E1.
      2:{ left. exists er. intros. cbn [bind_params]. rewrite Ep, Hev, E1. auto. }
      cbn [lift1] in Hev.
      destruct (eval_spec _ _ _ _ _ _ E1 HS) as (S1 & X1 & R1). pose proof (Binv_ext _ _ _ _ HS HB X1) as B1.
      pose proof X1 as (Ev & _).
      destruct v as [z|l tmp].
      + destruct (new_var (VInt z) st1) as [ad st2] eqn:En.
        right. exists ad, st2, []. pose proof (new_var_spec _ _ _ _ En) as (Ead & N2 & N3 & N4 & N5).
        split; [intros; cbn [bind_params]; rewrite Ep, Hev, E1; cbn [bind]; rewrite En, (new_var_patch _ _ _ _ _ En); auto|].
        split; [eapply Sep_new_var_int; eauto|split; [eapply Binv_new_var; eauto|split; [rewrite N2, app_length, Ev; lia|]]].
        split; [split; [congruence|split; [rewrite N2, app_length, Ev, Ead, Ev; cbn; lia|auto]]|].
        split; [rewrite (new_var_fbase _ _ _ _ En); eapply eval_fbase; eauto|intros b' []].
      + destruct (is_const mt k i && negb tmp && may_elide e all ex st1) eqn:Ec.
        * (* elided *)
          apply andb_true_iff in Ec. destruct Ec as [Ec Ec3]. apply andb_true_iff in Ec. destruct Ec as [Ec1 Ec2]. apply negb_true_iff in Ec2. subst tmp.
          destruct (eval_nontmp _ _ _ _ _ E1) as (x & ax & -> & Lx & Px & ->).
          destruct (sep_live _ _ HS _ _ Px) as [c Hc].
          destruct (alloc (Live c) sc) as [lc sc2] eqn:Ea.
          destruct (new_var (VPtr lc) sc2) as [ad sc3] eqn:En.
          destruct (Binv_push _ _ _ _ _ _ _ _ _ _ HS HB Px Hc Ea En) as [BP1 BP2].
          set (b' := mkB ad (fst (lender BB l ax)) lc (snd (lender BB l ax))) in *.
          pose proof (Sep_alloc _ _ _ _ _ HS Ea) as [HS2 HU].
          pose proof (alloc_spec _ _ _ _ Ea) as (Elc & Hh & Hv & Ht & Ho).
          pose proof (new_var_spec _ _ _ _ En) as (Ead & N2 & N3 & N4 & N5).
          right. exists ad, sc3, [b'].
          split.
          { intros. cbn [bind_params]. rewrite Ep, Hev, E1. cbn [bind andb].
            change (may_elide e all (EVar x) (patch BB sc)) with (may_elide e all (EVar x) sc).
            rewrite Ec1, Ec3. cbn [negb andb claim_or_copy].
            unfold copy_of. rewrite (read_live _ _ _ Hc). cbn [bind]. rewrite Ea. cbn [bind]. rewrite En.
            rewrite (target_lender X BB sc l ax) by auto.
            rewrite (alloc_alias_patch BB sc c (snd (lender BB l ax)) lc sc2 ad (fst (lender BB l ax))) by auto.
            rewrite (new_var_patch _ _ _ _ _ En). auto. }
          split; [eapply Sep_new_var_ptr; [|exact En]; apply Sep_add_x; eauto|].
          split; [exact BP1|split; [rewrite N2, app_length, Hv; lia|]].
          split; [split; [congruence|split; [rewrite N2, app_length, Hv, Ead, Hv; cbn; lia|]]|].
          { right. exists b'. split; [auto|split; [auto|split; [auto|]]].
            destruct BP2 as [BP2|[BP2 BP3]]; [left; exact BP2|]. right. exists x. cbn [b_al b']. rewrite BP2. auto. }
          split; [rewrite (new_var_fbase _ _ _ _ En); eapply alloc_fbase; eauto|].
          intros b0 [<-|[]]. destruct BP2 as [BP2|[BP2 BP3]]; [left; exact BP2|]. right. exists x. cbn [b_al b']. rewrite BP2.
          unfold may_elide in Ec3. rewrite Lx in Ec3. apply andb_true_iff in Ec3. destruct Ec3 as [Ec3 _].
          apply andb_true_iff in Ec3. destruct Ec3 as [Q1 Q2].
          apply Nat.leb_le in Q1. apply negb_true_iff in Q2. auto.
        * (* copied or claimed, in both modes *)
          assert (Hl : live st1 l) by (eapply rv_read_live; eauto).
          pose proof (claim_or_copy_patch BB st1 l tmp B1 Hl) as Hcc.
          destruct (claim_or_copy l tmp st1) as [[l' st2]|er] eqn:E2.
          2:{ left. exists er. intros. cbn [bind_params]. rewrite Ep, Hev, E1. cbn [bind andb].
              change (may_elide e all ex (patch BB st1)) with (may_elide e all ex st1). rewrite Ec, Hcc, E2. auto. }
          cbn [lift1] in Hcc.
          destruct (claim_or_copy_spec _ _ _ _ _ _ S1 R1 E2) as (C1 & C2 & C3 & C4 & C5 & C6).
          pose proof (Binv_heap_same _ _ _ _ S1 B1 C2 C4) as B2.
          destruct (new_var (VPtr l') st2) as [ad st3] eqn:En.
          pose proof (new_var_spec _ _ _ _ En) as (Ead & N2 & N3 & N4 & N5).
          right. exists ad, st3, [].
          split; [intros; cbn [bind_params]; rewrite Ep, Hev, E1; cbn [bind andb];
                  change (may_elide e all ex (patch BB st1)) with (may_elide e all ex st1);
                  rewrite Ec, Hcc, E2; cbn [bind]; rewrite En, (new_var_patch _ _ _ _ _ En); auto|].
          split; [eapply Sep_new_var_ptr; eauto|split; [eapply Binv_new_var; eauto|split; [rewrite N2, app_length, C2, Ev; lia|]]].
          split; [split; [congruence|split; [rewrite N2, app_length, C2, Ev, Ead, C2, Ev; cbn; lia|auto]]|].
          split; [rewrite (new_var_fbase _ _ _ _ En), (claim_or_copy_fbase _ _ _ _ _ E2); eapply eval_fbase; eauto|intros b' []].
    - left. exists EStuck. intros. cbn. rewrite Ep. auto.
  Qed.

  Definition bn_ok (k i : nat) (ps : list param) (args : list arg) (e ce' : env) (BB Bn : list borrow) (len0 : nat) : Prop :=
    forall b, In b Bn ->
      len0 <= b_pa b /\
      (exists j p, nth_error ps j = Some p /\ pref p = false /\ is_const mt k (i + j) = true /\
                   lookup ce' (pname p) = Some (b_pa b)) /\
      (In (b_al b) (map b_al BB) \/
       exists j x, nth_error args j = Some (AVal (EVar x)) /\ is_const mt k (i + j) = true /\
                   lookup e x = Some (b_al b) /\ ~ In (b_al b) (map b_pa BB)).

  Lemma bind_params_sim : forall all k ps i args e ce X BB sc,
    Sep X sc -> Binv BB sc -> NoDup (map pname ps) ->
    match bind_params false mt all k i ps args e ce sc with
    | Er er => bind_params true mt all k i ps args e ce (patch BB sc) = Er er
    | Ok (ce', sc') =>
        exists Bn,
          bind_params true mt all k i ps args e ce (patch BB sc) = Ok (ce', patch (Bn ++ BB) sc') /\
          Binv (Bn ++ BB) sc' /\ bn_ok k i ps args e ce' BB Bn (length (vars sc)) /\
          length (vars sc) <= length (vars sc') /\
          (forall y, ~ In y (map pname ps) -> lookup ce' y = lookup ce y) /\
          (forall j p, nth_error ps j = Some p -> exists a, lookup ce' (pname p) = Some a /\
              (if pref p then exists x, nth_error args j = Some (ARef x) /\ lookup e x = Some a
               else length (vars sc) <= a /\ a < length (vars sc'))) /\
          (forall j j' p p' a, nth_error ps j = Some p -> nth_error ps j' = Some p' ->
              pref p = false -> pref p' = false ->
              lookup ce' (pname p) = Some a -> lookup ce' (pname p') = Some a -> j = j')
    end.
  Proof.
    intros all k ps. induction ps as [|p ps IH]; intros i args e ce X BB sc HS HB Hnd.
    - destruct args as [|a args]; cbn; [|reflexivity].
      exists []. split; [reflexivity|split; [exact HB|split; [intros b []|split; [lia|split; [auto|split]]]]].
      + intros j p Hj. destruct j; discriminate Hj.
      + intros j j' p p' a Hj. destruct j; discriminate Hj.
    - destruct args as [|a args]; [cbn; reflexivity|]. inv Hnd.
      destruct (bind_head all k p i a e ce X BB sc HS HB) as [(er & Her)|(ad & st3 & Bhd & Heq & S3 & B3 & L3 & Hp & _)].
      { destruct (Her ps args) as [-> ->]. reflexivity. }
      destruct (Heq ps args) as [-> ->].
      specialize (IH (S i) args e ((pname p, ad) :: ce) X (Bhd ++ BB) st3 S3 B3 H2).
      destruct (bind_params false mt all k (S i) ps args e ((pname p, ad) :: ce) st3) as [[ce' sc']|er]; [|exact IH].
      destruct IH as (Bn & I1 & I2 & I3 & I4 & I5 & I6 & I7).
      assert (Lp : lookup ce' (pname p) = Some ad).
      { rewrite I5 by auto. cbn. rewrite Nat.eqb_refl. auto. }
      exists (Bn ++ Bhd). rewrite <- app_assoc.
      split; [exact I1|split; [exact I2|split; [|split; [lia|split; [|split]]]]].
      + (* bn_ok *)
        intros b Hb. apply in_app_or in Hb. destruct Hb as [Hb|Hb].
        * destruct (I3 b Hb) as (K1 & (j & q & Q1 & Q2 & Q3 & Q4) & K3).
          split; [lia|split].
          -- exists (S j), q. rewrite Nat.add_succ_r. auto.
          -- destruct K3 as [K3|(j' & x & J1 & J2 & J3 & J4)].
             ++ rewrite map_app in K3. apply in_app_or in K3. destruct K3 as [K3|K3]; [|auto].
                (* its lender is the lender of the head borrow *)
                destruct (pref p); [destruct Hp as (_ & _ & ->); destruct K3|].
                destruct Hp as (_ & _ & [->|(b' & -> & P1 & P2 & P3)]); [destruct K3|].
                cbn in K3. destruct K3 as [<-|[]].
                destruct P3 as [P3|(x & -> & P3 & P4)]; [auto|]. right. exists 0, x. rewrite Nat.add_0_r. auto.
             ++ right. exists (S j'), x. rewrite Nat.add_succ_r. split; [auto|split; [auto|split; [auto|]]].
                intros Hi. apply J4. rewrite map_app. apply in_or_app. auto.
        * destruct (pref p) eqn:Ep; [destruct Hp as (_ & _ & ->); destruct Hb|].
          destruct Hp as (Had & Hlen & [->|(b' & -> & P1 & P2 & P3)]); [destruct Hb|].
          destruct Hb as [<-|[]]. split; [lia|split].
          -- exists 0, p. rewrite Nat.add_0_r. rewrite P1. auto.
          -- destruct P3 as [P3|(x & -> & P3 & P4)]; [auto|]. right. exists 0, x. rewrite Nat.add_0_r. auto.
      + intros y Hy. cbn in Hy. rewrite I5 by tauto. cbn. destruct (Nat.eqb_spec (pname p) y); [exfalso; apply Hy; auto|auto].
      + intros [|j] q Hq; cbn in Hq.
        * inv Hq. exists ad. split; [auto|]. destruct (pref q).
          -- destruct Hp as ((x & -> & Lx) & _). exists x. auto.
          -- destruct Hp as (-> & Hlen & _). split; lia.
        * destruct (I6 j q Hq) as (a0 & A1 & A2). exists a0. split; [auto|].
          destruct (pref q); [exact A2|]. destruct A2. split; lia.
      + intros [|j] [|j'] q q' a0 Hq Hq' Fq Fq' A A'; cbn in Hq, Hq'; auto.
        * inv Hq. rewrite Lp in A. inv A. destruct (I6 j' q' Hq') as (a1 & A1 & A2). rewrite Fq' in A2.
          rewrite Fq in Hp. destruct Hp as (-> & Hlen & _). rewrite A' in A1. inv A1. lia.
        * inv Hq'. rewrite Lp in A'. inv A'. destruct (I6 j q Hq) as (a1 & A1 & A2). rewrite Fq in A2.
          rewrite Fq' in Hp. destruct Hp as (-> & Hlen & _). rewrite A in A1. inv A1. lia.
        * f_equal. eapply I7; eauto.
  Qed.

  (* ---------------------------------------------------------------------------------------------- *)
  (* leaving the callee: the copies of the elided parameters are freed in copy mode, the handles     *)
  (* dropped in elide mode                                                                         *)
  (* ---------------------------------------------------------------------------------------------- *)
  Lemma filter_all : forall A (f : A -> bool) l, (forall x, In x l -> f x = true) -> filter f l = l.
  Proof.
    induction l as [|x l IH]; cbn; intros H; auto. rewrite (H x) by auto. f_equal. apply IH. auto.
  Qed.

  Lemma Binv_filter : forall f B sc, Binv B sc -> Binv (filter f B) sc.
  Proof.
    intros f B sc [Hnd H]. split.
    - clear H. induction B as [|b B IH]; cbn; [constructor|]. inv Hnd. destruct (f b); cbn; auto.
      constructor; auto. intros Hi. apply H1. apply in_map_iff in Hi. destruct Hi as (b' & E & Hin).
      apply filter_In in Hin. rewrite <- E. apply in_map. tauto.
    - intros b Hin. apply filter_In in Hin. destruct Hin as [Hin _].
      destruct (H b Hin) as (P1 & P2 & P3 & N & M). split; [auto|split; [auto|split; [auto|split]]].
      + intros Hi. apply N. apply in_map_iff in Hi. destruct Hi as (b' & E & Hin'). apply filter_In in Hin'.
        rewrite <- E. apply in_map. tauto.
      + intros Hi. apply M. apply in_map_iff in Hi. destruct Hi as (b' & E & Hin'). apply filter_In in Hin'.
        rewrite <- E. apply in_map. tauto.
  Qed.

  Lemma patchh_drop : forall B h b,
    NoDup (map b_lc B) -> In b B ->
    upd (patchh B h) (b_lc b) Freed = patchh (filter (fun b' => negb (Nat.eqb (b_lc b') (b_lc b))) B) (upd h (b_lc b) Freed).
  Proof.
    induction B as [|b0 B IH]; cbn; intros h b Hnd Hin; [contradiction|]. inv Hnd.
    assert (U2 : forall (g : list cell) n (x y : cell), upd (upd g n x) n y = upd g n y).
    { induction g as [|z g IHg]; intros [|n] x y; cbn; auto. f_equal. auto. }
    assert (Uc : forall (g : list cell) n m (x y : cell), n <> m -> upd (upd g n x) m y = upd (upd g m y) n x).
    { induction g as [|z g IHg]; intros [|n] [|m] x y Hne; cbn; auto; try congruence. f_equal. apply IHg. congruence. }
    destruct Hin as [->|Hin].
    - rewrite Nat.eqb_refl. cbn. rewrite U2.
      rewrite filter_all.
      + rewrite patchh_upd by auto. reflexivity.
      + intros b' Hb'. apply negb_true_iff. apply Nat.eqb_neq. intros E. apply H1. rewrite <- E. apply in_map. auto.
    - destruct (Nat.eqb_spec (b_lc b0) (b_lc b)) as [E|N].
      + exfalso. apply H1. rewrite E. apply in_map. auto.
      + cbn. rewrite Uc by auto. rewrite IH by auto. reflexivity.
  Qed.

  Lemma filter_filter_lt : forall (B : list borrow) a,
    filter (fun b => Nat.ltb (b_pa b) (S a)) (filter (fun b => negb (Nat.eqb (b_pa b) a)) B) =
    filter (fun b => Nat.ltb (b_pa b) a) B.
  Proof.
    induction B as [|b B IH]; intros a; cbn [filter]; auto.
    destruct (Nat.eqb_spec (b_pa b) a) as [E|N]; cbn [negb filter].
    - rewrite IH. destruct (Nat.ltb_spec (b_pa b) a); [lia|auto].
    - rewrite IH. destruct (Nat.ltb_spec (b_pa b) (S a)); destruct (Nat.ltb_spec (b_pa b) a); auto; lia.
  Qed.

  Lemma exit_from_sim : forall n a X BBc sc a0,
    Sep X sc -> Binv BBc sc -> a + n = length (vars sc) -> a0 <= a -> (forall b, In b BBc -> b_al b < a0) ->
    exit_from n a (patch BBc sc) = lift0 (filter (fun b => Nat.ltb (b_pa b) a) BBc) (exit_from n a sc).
  Proof.
    induction n as [|n IH]; intros a X BBc sc a0 HS HB Hlen Ha0 Hal; cbn [exit_from].
    - cbn [lift0]. rewrite filter_all; auto. intros b Hb. destruct (Binv_lt _ _ _ HB Hb). apply Nat.ltb_lt. lia.
    - rewrite get_slot_patch. destruct (get_slot a sc) as [s|er] eqn:Eg; [|reflexivity]. cbn [bind]. apply get_slot_ok in Eg.
      set (BB1 := filter (fun b => negb (Nat.eqb (b_pa b) a)) BBc).
      assert (Hstep : forall sc1, Sep X (set_slot a VDead sc1) -> Binv BB1 (set_slot a VDead sc1) ->
                 length (vars sc1) = length (vars sc) ->
                 exit_from n (S a) (patch BB1 (set_slot a VDead sc1)) =
                 lift0 (filter (fun b => Nat.ltb (b_pa b) a) BBc) (exit_from n (S a) (set_slot a VDead sc1))).
      { intros sc1 S1 B1 L1. rewrite (IH (S a) X BB1 (set_slot a VDead sc1) a0); auto.
        - unfold BB1. rewrite filter_filter_lt. reflexivity.
        - cbn. rewrite upd_length. lia.
        - intros b Hb. apply Hal. unfold BB1 in Hb. apply filter_In in Hb. tauto. }
      assert (Hnot : forall b, In b BB1 -> b_pa b <> a /\ b_al b <> a).
      { intros b Hb. unfold BB1 in Hb. apply filter_In in Hb. destruct Hb as [Hb Hf].
        apply negb_true_iff in Hf. apply Nat.eqb_neq in Hf. specialize (Hal b Hb). split; [auto|lia]. }
      destruct s as [z|l|].
      + (* a number: nothing to free *)
        cbn [bind]. rewrite set_slot_patch.
        assert (E1 : BB1 = BBc).
        { unfold BB1. apply filter_all. intros b Hb. apply negb_true_iff. apply Nat.eqb_neq. intros E.
          destruct HB as [_ H]. destruct (H b Hb) as (P1 & _). unfold ptr_at in P1. rewrite E, Eg in P1. discriminate P1. }
        rewrite <- E1 at 1. apply Hstep; auto.
        * eapply Sep_set_nonptr; eauto; congruence.
        * rewrite E1. eapply Binv_keeps; eauto. intros b Hb. rewrite <- E1 in Hb. destruct (Hnot b Hb).
          split; apply set_slot_keeps; auto.
      + assert (Hp : ptr_at sc a l) by exact Eg.
        assert (Hl : live sc l) by (eapply (sep_live _ _ HS); eauto).
        rewrite (release_live l sc Hl).
        destruct (free l sc) as [sc1|er] eqn:Ef.
        2:{ exfalso. destruct (free_live _ _ Hl) as [s1 Hs1]. congruence. }
        pose proof (free_ok _ _ _ Ef Hl) as (F1 & F2 & F3 & F4 & F5).
        assert (S1 : Sep X (set_slot a VDead sc1)) by (eapply Sep_release; eauto; congruence).
        assert (B1 : Binv BB1 (set_slot a VDead sc1)).
        { eapply Binv_keeps; [apply Binv_filter; exact HB|]. intros b Hb. destruct (Hnot b Hb).
          split; eapply release_keeps; eauto. }
        assert (Erel : release l (patch BBc sc) = Ok (patch BB1 sc1)).
        { destruct (in_dec Nat.eq_dec a (map b_pa BBc)) as [Hi|Hn].
          - apply in_map_iff in Hi. destruct Hi as (b & E & Hin).
            destruct HB as [Hnd H]. destruct (H b Hin) as (P1 & _). rewrite E in P1.
            assert (El : b_lc b = l) by (unfold ptr_at in *; congruence). subst l.
            unfold release. cbn [heap patch set_heap]. rewrite patchh_in; auto.
            f_equal. unfold patch, set_heap. cbn. rewrite F2, F3, F4, F5, (free_fbase _ _ _ Ef). f_equal.
            rewrite patchh_drop by auto. f_equal. unfold BB1. apply filter_ext_in. intros b' Hb'.
            f_equal. destruct (H b' Hb') as (P1' & _).
            destruct (Nat.eqb_spec (b_pa b') a) as [E1|N1]; destruct (Nat.eqb_spec (b_lc b') (b_lc b)) as [E2|N2]; auto.
            + exfalso. apply N2. rewrite E1 in P1'. unfold ptr_at in *. congruence.
            + exfalso. apply N1. rewrite E2 in P1'. eapply (sep_inj _ _ HS); eauto.
          - assert (Hsafe : safe_addr BBc a).
            { split; auto. intros Hi. apply in_map_iff in Hi. destruct Hi as (b & E & Hin). specialize (Hal b Hin). lia. }
            destruct (safe_loc _ _ _ _ _ HS HB Hsafe Hp) as [N1 N2].
            assert (E1 : BB1 = BBc).
            { unfold BB1. apply filter_all. intros b Hb. apply negb_true_iff. apply Nat.eqb_neq. intros E.
              apply Hn. rewrite <- E. apply in_map. auto. }
            rewrite E1. unfold release. cbn [heap patch set_heap]. rewrite patchh_out by auto.
            destruct Hl as [c Hc]. rewrite Hc. fold (patch BBc sc). rewrite free_patch by (auto; exists c; auto).
            rewrite Ef. reflexivity. }
        rewrite Erel. cbn [bind]. rewrite set_slot_patch. apply Hstep; auto. congruence.
      + cbn [bind]. rewrite set_slot_patch.
        assert (E1 : BB1 = BBc).
        { unfold BB1. apply filter_all. intros b Hb. apply negb_true_iff. apply Nat.eqb_neq. intros E.
          destruct HB as [_ H]. destruct (H b Hb) as (P1 & _). unfold ptr_at in P1. rewrite E, Eg in P1. discriminate P1. }
        rewrite <- E1 at 1. apply Hstep; auto.
        * eapply Sep_set_nonptr; eauto; congruence.
        * rewrite E1. eapply Binv_keeps; eauto. intros b Hb. rewrite <- E1 in Hb. destruct (Hnot b Hb).
          split; apply set_slot_keeps; auto.
  Qed.

  (* ---------------------------------------------------------------------------------------------- *)
  (* the callee's activation invariant follows from the caller's and the static conditions          *)
  (* ---------------------------------------------------------------------------------------------- *)
  Notation args_ok := (args_ok mt funs gnames gw).
  Notation elide_arg_safe := (elide_arg_safe mt funs gnames gw).

  Lemma args_ok_nth : forall c k all args i j a, args_ok c k all i args = true -> nth_error args j = Some a ->
    match a with
    | ARef y => is_const mt k (i + j) || may_write c y
    | AVal (EVar x) => negb (is_const mt k (i + j)) || elide_arg_safe c k all x
    | AVal _ => true
    end = true.
  Proof.
    intros c k all args. induction args as [|a0 args IH]; intros i j a H Hj; [destruct j; discriminate Hj|].
    cbn in H. apply andb_true_iff in H. destruct H as [H1 H2]. destruct j as [|j]; cbn in Hj.
    - inv Hj. rewrite Nat.add_0_r. exact H1.
    - rewrite Nat.add_succ_r. apply (IH (S i) j a H2 Hj).
  Qed.

  Lemma ref_args_nth : forall args i j y, nth_error args j = Some (ARef y) -> In (i + j, y) (ref_args i args).
  Proof.
    induction args as [|a0 args IH]; intros i j y Hj; [destruct j; discriminate Hj|].
    destruct j as [|j]; cbn in Hj.
    - inv Hj. cbn. rewrite Nat.add_0_r. auto.
    - rewrite Nat.add_succ_r. destruct a0; cbn; [|right]; apply (IH (S i) j y Hj).
  Qed.

  Lemma callee_Ainv : forall c base B e sc k args ce' sc' Bn,
    Ainv c base B e sc -> Binv B sc -> k < length funs ->
    args_ok c k args 0 args = true -> gw_sub gw c k = true ->
    NoDup (map pname (fparams (fn funs k))) ->
    bn_ok k 0 (fparams (fn funs k)) args e ce' B Bn (length (vars sc)) ->
    length (vars sc) <= length (vars sc') ->
    (forall y, ~ In y (map pname (fparams (fn funs k))) -> lookup ce' y = lookup genv y) ->
    (forall j p, nth_error (fparams (fn funs k)) j = Some p -> exists a, lookup ce' (pname p) = Some a /\
        (if pref p then exists x, nth_error args j = Some (ARef x) /\ lookup e x = Some a
         else length (vars sc) <= a /\ a < length (vars sc'))) ->
    (forall j j' p p' a, nth_error (fparams (fn funs k)) j = Some p -> nth_error (fparams (fn funs k)) j' = Some p' ->
        pref p = false -> pref p' = false ->
        lookup ce' (pname p) = Some a -> lookup ce' (pname p') = Some a -> j = j') ->
    Ainv (Some k) (length (vars sc)) (Bn ++ B) ce' sc'.
  Proof.
    intros c base B e sc k args ce' sc' Bn [[E1 E2 E3 [E4 E5]] A2 A3] HB Hk Hargs Hgw Hnd Hbn Hlen Hout Hpar Hinj.
    set (ps := fparams (fn funs k)) in *.
    (* what a name of the callee resolves to *)
    assert (Hres : forall x a, lookup ce' x = Some a ->
              (exists j p, nth_error ps j = Some p /\ pname p = x /\ pindex ps x 0 = Some (j, pref p) /\
                   (if pref p then exists y, nth_error args j = Some (ARef y) /\ lookup e y = Some a
                    else length (vars sc) <= a /\ a < length (vars sc'))) \/
              (pindex ps x 0 = None /\ lookup genv x = Some a)).
    { intros x a Hx. destruct (pindex ps x 0) as [[j r]|] eqn:Ep.
      - left. destruct (pindex_spec _ _ _ _ Ep) as (j0 & p & Hp & Hn & Er & _). cbn in Er. inv Er.
        exists j0, p. split; [auto|split; [auto|split; [auto|]]].
        destruct (Hpar j0 p Hp) as (a' & L & F). rewrite L in Hx. inv Hx. exact F.
      - right. split; auto. rewrite <- Hout; auto. eapply pindex_none; eauto. }
    assert (Hgl : forall g a, lookup genv g = Some a -> a < length (vars sc)).
    { intros g a Hg. destruct (genv_names _ _ Hg). lia. }
    constructor; [constructor|..].
    - (* ei_lt *)
      intros x a Hx. destruct (Hres x a Hx) as [(j & p & Hp & Hn & Hi & F)|(Hi & Hg)].
      + destruct (pref p); [destruct F as (y & _ & Ly); apply E1 in Ly; lia|lia].
      + apply Hgl in Hg. lia.
    - (* ei_kind *)
      intros x a Hx. unfold Opt2Safe.kind_of. fold ps.
      destruct (Hres x a Hx) as [(j & p & Hp & Hn & Hi & F)|(Hi & Hg)]; rewrite Hi.
      + destruct (pref p); [destruct F as (y & _ & Ly); apply E1 in Ly; lia|].
        destruct (is_const mt k j); lia.
      + destruct (genv_names _ _ Hg) as [Hm _]. rewrite Hm. exact Hg.
    - (* ei_inj *)
      intros x y a Hx Hy Hb.
      destruct (Hres x a Hx) as [(j & p & Hp & Hn & Hi & F)|(Hi & Hg)]; [|apply Hgl in Hg; lia].
      destruct (Hres y a Hy) as [(j' & p' & Hp' & Hn' & Hi' & F')|(Hi' & Hg')]; [|apply Hgl in Hg'; lia].
      destruct (pref p) eqn:Ep; [destruct F as (z & _ & Lz); apply E1 in Lz; lia|].
      destruct (pref p') eqn:Ep'; [destruct F' as (z & _ & Lz); apply E1 in Lz; lia|].
      subst x y. assert (j = j') by (eapply Hinj; eauto). subst j'. congruence.
    - split; lia.
    - (* ai_safe *)
      intros x a Hx Hw. unfold Opt2Safe.may_write in Hw. fold ps in Hw.
      destruct (Hres x a Hx) as [(j & p & Hp & Hn & Hi & F)|(Hi & Hg)]; rewrite Hi in Hw.
      + apply negb_true_iff in Hw.
        destruct (pref p) eqn:Ep.
        * (* a Referenz parameter the callee may write: the caller may write the argument *)
          destruct F as (y & Hy & Ly).
          pose proof (args_ok_nth _ _ _ _ _ _ _ Hargs Hy) as Ha. cbn in Ha. rewrite Hw in Ha. cbn in Ha.
          destruct (A2 _ _ Ly Ha) as [N1 N2].
          pose proof (E1 _ _ Ly) as Lt.
          split; rewrite map_app; intros Hi'; apply in_app_or in Hi'; destruct Hi' as [Hi'|Hi']; auto.
          -- apply in_map_iff in Hi'. destruct Hi' as (b & Eb & Hb). destruct (Hbn b Hb) as (K1 & _). lia.
          -- apply in_map_iff in Hi'. destruct Hi' as (b & Eb & Hb). destruct (Hbn b Hb) as (_ & _ & K3).
             destruct K3 as [K3|(jx & x0 & Jx & Cx & Lx & Nx)]; [apply N2; rewrite <- Eb; auto|].
             (* the lender is the caller's variable x0, passed by value at a constant position *)
             pose proof (args_ok_nth _ _ _ _ _ _ _ Hargs Jx) as Hs. cbn in Hs. cbn [Nat.add] in Cx. rewrite Cx in Hs. cbn in Hs.
             pose proof (ref_args_nth args 0 j y Hy) as Hr. cbn in Hr.
             unfold Opt2Safe.elide_arg_safe in Hs.
             pose proof (E2 _ _ Lx) as Kx. pose proof (E2 _ _ Ly) as Ky. rewrite Eb in Lx.
             destruct (Opt2Safe.kind_of mt funs gnames c x0) eqn:Kx0; try discriminate Hs.
             ++ rewrite forallb_forall in Hs. specialize (Hs _ Hr). cbn in Hs. rewrite Hw in Hs. cbn in Hs.
                apply negb_true_iff in Hs. apply Nat.eqb_neq in Hs. apply Hs. apply (E3 y x0 a Ly Lx). rewrite <- Eb. exact Kx.
             ++ rewrite forallb_forall in Hs. specialize (Hs _ Hr). cbn in Hs. rewrite Hw in Hs. cbn in Hs.
                apply negb_true_iff in Hs. apply Nat.eqb_neq in Hs. apply Hs. apply (E3 y x0 a Ly Lx). rewrite <- Eb. exact Kx.
             ++ apply andb_true_iff in Hs. destruct Hs as [_ Hs].
                rewrite forallb_forall in Hs. specialize (Hs _ Hr). cbn in Hs. rewrite Hw in Hs. cbn in Hs.
                apply andb_true_iff in Hs. destruct Hs as [Hs1 Hs2]. apply negb_true_iff in Hs1. apply Nat.eqb_neq in Hs1.
                destruct (genv_names _ _ Kx) as [_ Gx].
                destruct (Opt2Safe.kind_of mt funs gnames c y) eqn:Ky0; try discriminate Hs2; try lia.
                apply Hs1. rewrite Eb in Kx. eapply genv_inj; eauto.
        * (* an own, non-constant value parameter *)
          destruct F as [F1 F2].
          split; rewrite map_app; intros Hi'; apply in_app_or in Hi'; destruct Hi' as [Hi'|Hi'].
          -- apply in_map_iff in Hi'. destruct Hi' as (b & Eb & Hb). destruct (Hbn b Hb) as (_ & (jb & q & Q1 & Q2 & Q3 & Q4) & _).
             rewrite Eb in Q4. rewrite <- Hn in Hx. assert (j = jb) by (eapply Hinj; eauto). subst jb. cbn in Q3. congruence.
          -- apply in_map_iff in Hi'. destruct Hi' as (b & Eb & Hb). destruct (Binv_lt _ _ _ HB Hb). lia.
          -- apply in_map_iff in Hi'. destruct Hi' as (b & Eb & Hb). destruct (Hbn b Hb) as (_ & _ & K3).
             destruct K3 as [K3|(jx & x0 & Jx & Cx & Lx & Nx)].
             ++ apply in_map_iff in K3. destruct K3 as (b0 & Eb0 & Hb0). destruct (Binv_lt _ _ _ HB Hb0). lia.
             ++ apply E1 in Lx. lia.
          -- apply in_map_iff in Hi'. destruct Hi' as (b & Eb & Hb). destruct (Binv_lt _ _ _ HB Hb). lia.
      + (* a global the callee may write *)
        destruct (genv_names _ _ Hg) as [Hm Gx]. rewrite Hm in Hw.
        assert (Hc : gw_has c x).
        { unfold gw_has. destruct c as [jc|]; auto. unfold gw_sub in Hgw. rewrite forallb_forall in Hgw.
          apply Hgw. apply mem_true. auto. }
        destruct (A3 _ _ Hc Hg) as [N1 N2].
        split; rewrite map_app; intros Hi'; apply in_app_or in Hi'; destruct Hi' as [Hi'|Hi']; auto.
        * apply in_map_iff in Hi'. destruct Hi' as (b & Eb & Hb). destruct (Hbn b Hb) as (K1 & _). lia.
        * apply in_map_iff in Hi'. destruct Hi' as (b & Eb & Hb). destruct (Hbn b Hb) as (_ & _ & K3).
          destruct K3 as [K3|(jx & x0 & Jx & Cx & Lx & Nx)]; [apply N2; rewrite <- Eb; auto|].
          pose proof (args_ok_nth _ _ _ _ _ _ _ Hargs Jx) as Hs. cbn in Hs. cbn [Nat.add] in Cx. rewrite Cx in Hs. cbn in Hs.
          unfold Opt2Safe.elide_arg_safe in Hs. pose proof (E2 _ _ Lx) as Kx. rewrite Eb in Lx, Kx.
          destruct (Opt2Safe.kind_of mt funs gnames c x0) eqn:Kx0; try discriminate Hs; try lia.
          apply andb_true_iff in Hs. destruct Hs as [Hs _]. apply negb_true_iff in Hs.
          assert (x0 = x) by (eapply genv_inj; eauto). subst x0. rewrite Hw in Hs. discriminate Hs.
    - (* ai_gw *)
      intros g a Hgk Hg. cbn in Hgk.
      destruct (genv_names _ _ Hg) as [Hm Gx].
      assert (Hc : gw_has c g).
      { unfold gw_has. destruct c as [jc|]; auto. unfold gw_sub in Hgw. rewrite forallb_forall in Hgw.
        apply Hgw. apply mem_true. auto. }
      destruct (A3 _ _ Hc Hg) as [N1 N2].
      split; rewrite map_app; intros Hi'; apply in_app_or in Hi'; destruct Hi' as [Hi'|Hi']; auto.
      + apply in_map_iff in Hi'. destruct Hi' as (b & Eb & Hb). destruct (Hbn b Hb) as (K1 & _). lia.
      + apply in_map_iff in Hi'. destruct Hi' as (b & Eb & Hb). destruct (Hbn b Hb) as (_ & _ & K3).
        destruct K3 as [K3|(jx & x0 & Jx & Cx & Lx & Nx)]; [apply N2; rewrite <- Eb; auto|].
        pose proof (args_ok_nth _ _ _ _ _ _ _ Hargs Jx) as Hs. cbn in Hs. cbn [Nat.add] in Cx. rewrite Cx in Hs. cbn in Hs.
        unfold Opt2Safe.elide_arg_safe in Hs. pose proof (E2 _ _ Lx) as Kx. rewrite Eb in Lx, Kx.
        destruct (Opt2Safe.kind_of mt funs gnames c x0) eqn:Kx0; try discriminate Hs; try lia.
        apply andb_true_iff in Hs. destruct Hs as [Hs _]. apply negb_true_iff in Hs.
        assert (x0 = g) by (eapply genv_inj; eauto). subst x0. rewrite Hgk in Hs. discriminate Hs.
  Qed.

  (* ---------------------------------------------------------------------------------------------- *)
  (* calls                                                                                         *)
  (* ---------------------------------------------------------------------------------------------- *)
  Definition ex_sim (exT exF : env -> list stmt -> state -> res state) : Prop :=
    forall c base B e ss sc X,
      Sep X sc -> tmps sc = [] -> Binv B sc -> Ainv c base B e sc -> env_ok genv e sc ->
      all_stmts (stmt_ok c) ss = true ->
      exT e ss (patch B sc) = lift0 B (exF e ss sc) /\
      (forall sc', exF e ss sc = Ok sc' -> forall b, In b B -> keeps sc sc' (b_pa b) /\ keeps sc sc' (b_al b)).

  Lemma ret_value_patch : forall X BB ce fr st2, Sep X st2 -> Binv BB st2 ->
    ret_value ce fr (patch BB st2) = lift1 BB (ret_value ce fr st2).
  Proof.
    intros X BB ce fr st2 HS HB. unfold ret_value. destruct fr as [re|]; [|reflexivity].
    rewrite (eval_patch X) by auto. destruct (eval ce re st2) as [[v st3]|er] eqn:E1; [|reflexivity]. cbn [lift1 bind].
    destruct (eval_spec _ _ _ _ _ _ E1 HS) as (S1 & X1 & R1). pose proof (Binv_ext _ _ _ _ HS HB X1) as B1.
    destruct v as [z|l t].
    - rewrite (end_stmt_patch X) by auto. destruct (end_stmt st3) as [st4|er]; reflexivity.
    - rewrite claim_or_copy_patch by (auto; eapply rv_read_live; eauto).
      destruct (claim_or_copy l t st3) as [[l' st4]|er] eqn:E2; [|reflexivity]. cbn [lift1 bind].
      destruct (claim_or_copy_spec _ _ _ _ _ _ S1 R1 E2) as (C1 & C2 & C3 & C4 & C5 & C6).
      pose proof (Binv_heap_same _ _ _ _ S1 B1 C2 C4) as B2.
      rewrite (end_stmt_patch (l' :: X)) by auto. destruct (end_stmt st4) as [st5|er]; reflexivity.
  Qed.

  Lemma filter_borrows : forall (Bn B : list borrow) n,
    (forall b, In b Bn -> n <= b_pa b) -> (forall b, In b B -> b_pa b < n) ->
    filter (fun b => Nat.ltb (b_pa b) n) (Bn ++ B) = B.
  Proof.
    intros Bn B n H1 H2. rewrite filter_app. rewrite (filter_all _ _ B).
    - replace (filter (fun b => Nat.ltb (b_pa b) n) Bn) with (@nil borrow); auto.
      clear H2. induction Bn as [|b Bn IH]; cbn [filter]; auto.
      destruct (Nat.ltb_spec (b_pa b) n) as [L|L]; [specialize (H1 b (or_introl eq_refl)); lia|]. apply IH. intros; apply H1; cbn; auto.
    - intros b Hb. apply Nat.ltb_lt. auto.
  Qed.

  Lemma do_call_sim : forall exT exF c base B e dst k args sc X,
    ex_sim exT exF -> ex_ok genv exF ->
    Sep X sc -> tmps sc = [] -> Binv B sc -> Ainv c base B e sc -> env_ok genv e sc ->
    stmt_ok c (SCall dst k args) = true ->
    do_call true mt funs genv exT e dst k args (patch B sc) = lift0 B (do_call false mt funs genv exF e dst k args sc) /\
    (forall sc', do_call false mt funs genv exF e dst k args sc = Ok sc' ->
       forall b, In b B -> keeps sc sc' (b_pa b) /\ keeps sc sc' (b_al b)).
  Proof.
    intros exT exF c base B e dst k args sc X Hsim Hok HS Ht HB HA He Hst.
    cbn [Opt2Safe.stmt_ok] in Hst. apply andb_true_iff in Hst. destruct Hst as [Hst Hargs].
    apply andb_true_iff in Hst. destruct Hst as [Hst Hgw]. apply andb_true_iff in Hst. destruct Hst as [Hdst Hk].
    apply Nat.ltb_lt in Hk.
    unfold do_call. cbn [vars patch set_heap].
    destruct (nth_error funs k) as [fd|] eqn:Efd; [|split; [reflexivity|intros sc' H; discriminate H]].
    assert (Efn : fn funs k = fd) by (unfold fn; apply nth_error_nth; auto).
    pose proof (funs_ok k Hk) as Hfk. unfold fun_ok in Hfk. apply andb_true_iff in Hfk. destruct Hfk as [Hnd Hbody].
    apply nodupb_NoDup in Hnd. rewrite Efn in Hnd, Hbody.
    pose proof (bind_params_sim args k (fparams fd) 0 args e genv X B sc HS HB Hnd) as Hb.
    destruct (bind_params false mt args k 0 (fparams fd) args e genv sc) as [[ce st1]|er] eqn:Ebind.
    2:{ rewrite Hb. split; [reflexivity|intros sc' H; discriminate H]. }
    destruct Hb as (Bn & Hbe & HBt & Hbn & Hlen & Hout & Hpar & Hinj). rewrite Hbe. cbn [bind lift0].
    destruct (bind_params_copy_spec _ _ _ _ _ _ _ _ _ _ _ _ Ebind HS) as (B1 & _ & B3 & B4 & B5 & B6 & B7).
    set (BBt := Bn ++ B) in *. set (saved := tmps st1).
    assert (Esaved : tmps (patch BBt st1) = saved) by reflexivity. rewrite Esaved.
    set (st1' := set_fbase (set_tmps st1 []) (length (vars sc))).
    change (set_fbase (set_tmps (patch BBt st1) []) (length (vars sc))) with (patch BBt st1').
    (* the callee's body *)
    assert (S1' : Sep (saved ++ X) st1') by (apply (Sep_perm X (saved ++ X) st1 st1'); auto).
    assert (B1' : Binv BBt st1') by (eapply Binv_keeps; [exact HBt|]; intros; split; (split; [reflexivity|intros; reflexivity])).
    assert (A1' : Ainv (Some k) (length (vars sc)) BBt ce st1').
    { rewrite <- Efn in Hbn, Hout, Hpar, Hinj, Hnd.
      eapply Ainv_mono; [eapply (callee_Ainv c base B e sc k args ce st1 Bn); eauto|cbn; lia]. }
    assert (He1 : env_ok genv ce st1').
    { destruct He as [He1 He2]. split; [|exact B7]. cbn. intros ad Ha. apply B6 in Ha.
      destruct Ha as [Ha|[Ha|Ha]]; [apply He2 in Ha; apply He1 in Ha; lia| |lia].
      apply ref_addrs_in in Ha. apply He1 in Ha. lia. }
    destruct (Hsim (Some k) (length (vars sc)) BBt ce (fbody fd) st1' (saved ++ X) S1' eq_refl B1' A1' He1 Hbody) as [Hbd Hbk].
    rewrite Hbd.
    destruct (exF ce (fbody fd) st1') as [st2|er] eqn:Ebody; [|split; [reflexivity|intros sc' H; discriminate H]].
    cbn [lift0 bind].
    pose proof (Hok _ _ _ _ _ Ebody S1' eq_refl He1) as (C1 & C2 & C3 & C4). cbn in C3.
    assert (B2 : Binv BBt st2) by (eapply Binv_keeps; [exact B1'|]; intros b Hb; apply (Hbk _ eq_refl b Hb)).
    (* the return value *)
    rewrite (ret_value_patch (saved ++ X)) by auto.
    destruct (ret_value ce (fret fd) st2) as [[result st6]|er] eqn:Eret; [|split; [reflexivity|intros sc' H; discriminate H]].
    cbn [lift1 bind].
    destruct (ret_value_spec _ _ _ _ _ _ Eret C1 C2) as (Y & R1 & R2 & R3 & R4 & R5).
    assert (B6' : Binv BBt st6).
    { eapply Binv_keeps; eauto. intros b Hb. destruct (Binv_lt _ _ _ B2 Hb). split; apply R4; auto. }
    (* leaving the frame *)
    unfold exit_frame. cbn [vars patch set_heap].
    assert (Hbase : length (vars sc) + (length (vars st6) - length (vars sc)) = length (vars st6)) by lia.
    assert (Hal : forall b, In b BBt -> b_al b < length (vars sc)).
    { intros b Hb. unfold BBt in Hb. apply in_app_or in Hb. destruct Hb as [Hb|Hb].
      - destruct (Hbn b Hb) as (_ & _ & [K|(j & x & _ & _ & Lx & _)]).
        + apply in_map_iff in K. destruct K as (b0 & E0 & H0). destruct (Binv_lt _ _ _ HB H0). lia.
        + apply (ei_lt _ _ _ _ (ai_env _ _ _ _ _ HA)) in Lx. auto.
      - destruct (Binv_lt _ _ _ HB Hb). auto. }
    rewrite (exit_from_sim _ _ (Y ++ saved ++ X) BBt st6 (length (vars sc))) by auto.
    assert (Efil : filter (fun b => Nat.ltb (b_pa b) (length (vars sc))) BBt = B).
    { apply filter_borrows.
      - intros b Hb. destruct (Hbn b Hb) as (K & _). exact K.
      - intros b Hb. destruct (Binv_lt _ _ _ HB Hb). auto. }
    rewrite Efil.
    destruct (exit_from (length (vars st6) - length (vars sc)) (length (vars sc)) st6) as [st7|er] eqn:Eexit;
      [|split; [reflexivity|intros sc' H; discriminate H]].
    cbn [lift0 bind].
    destruct (exit_from_copy_spec _ _ _ _ _ Eexit R1 Hbase) as (F1 & F2 & F3 & F4 & F5).
    (* what the caller's borrows see up to here *)
    assert (K7 : forall b, In b B -> keeps sc st7 (b_pa b) /\ keeps sc st7 (b_al b)).
    { intros b Hb. destruct (Binv_lt _ _ _ HB Hb) as [L1 L2].
      assert (HbT : In b BBt) by (unfold BBt; apply in_or_app; auto).
      destruct (Hbk _ eq_refl b HbT) as [Q1 Q2].
      split.
      - eapply keeps_trans; [apply B5; auto|]. eapply keeps_trans with (s2 := set_tmps st1 []); [split; auto|].
        eapply keeps_trans; [exact Q1|]. eapply keeps_trans; [apply R4; lia|apply F5; auto].
      - eapply keeps_trans; [apply B5; auto|]. eapply keeps_trans with (s2 := set_tmps st1 []); [split; auto|].
        eapply keeps_trans; [exact Q2|]. eapply keeps_trans; [apply R4; lia|apply F5; auto]. }
    assert (B7' : Binv B st7) by (eapply Binv_keeps; [exact HB|exact K7]).
    (* back in the caller *)
    change (fbase (patch B sc)) with (fbase sc).
    set (st7r := set_fbase st7 (fbase sc)).
    change (set_fbase (patch B st7) (fbase sc)) with (patch B st7r).
    assert (F1r : Sep (Y ++ saved ++ X) st7r) by (apply (Sep_perm (Y ++ saved ++ X) (Y ++ saved ++ X) st7 st7r); auto).
    assert (K7r : forall b, In b B -> keeps sc st7r (b_pa b) /\ keeps sc st7r (b_al b)).
    { intros b Hb. destruct (K7 b Hb) as [[Q1 Q2] [Q3 Q4]]. split; split; auto. }
    assert (B7r : Binv B st7r) by (eapply Binv_keeps; [exact HB|exact K7r]).
    clear F1 K7 B7'. rename F1r into F1. rename K7r into K7. rename B7r into B7'.
    change (tmps st7) with (tmps st7r) in F2.
    rewrite !call_finish_resume.
    assert (F2' : tmps st7r = []) by congruence.
    destruct (resume_spec X saved result Y st7r F1 F2' R5) as (S9 & V9 & H9 & O9 & Rv9).
    assert (Eres : resume saved result (patch B st7r) = patch B (resume saved result st7r)).
    { unfold resume. destruct result as [[z|l t]|]; reflexivity. }
    rewrite Eres.
    assert (B9 : Binv B (resume saved result st7r)).
    { eapply Binv_keeps; eauto. intros b Hb. split; (split; [rewrite V9; auto|intros; rewrite H9; auto]). }
    assert (K9 : forall b, In b B -> keeps sc (resume saved result st7r) (b_pa b) /\ keeps sc (resume saved result st7r) (b_al b)).
    { intros b Hb. destruct (K7 b Hb) as [Q1 Q2].
      split; (eapply keeps_trans; [eassumption|]; split; [rewrite V9; auto|intros; rewrite H9; auto]). }
    destruct dst as [d|].
    - destruct result as [v|]; [|split; [reflexivity|intros sc' H; discriminate H]].
      destruct (lookup e d) as [ad|] eqn:Ed; [|split; [reflexivity|intros sc' H; discriminate H]].
      pose proof (ai_safe _ _ _ _ _ HA _ _ Ed Hdst) as Hsafe.
      rewrite (store_value_patch X) by auto.
      destruct (store_value ad v (resume saved (Some v) st7r)) as [st10|er] eqn:Est; [|split; [reflexivity|intros sc' H; discriminate H]].
      cbn [lift0 bind].
      destruct (store_value_spec _ _ _ _ _ S9 (Rv9 v eq_refl) Est) as (V1 & V2 & V3 & V4 & V5).
      assert (K10 : forall b, In b B -> keeps sc st10 (b_pa b) /\ keeps sc st10 (b_al b)).
      { intros b Hb. destruct (K9 b Hb) as [Q1 Q2]. destruct Hsafe as [N1 N2].
        split; (eapply keeps_trans; [eassumption|]); apply V5; intros E; [apply N1|apply N2]; rewrite <- E; apply in_map; auto. }
      assert (B10 : Binv B st10) by (eapply Binv_keeps; [exact HB|exact K10]).
      split; [apply (end_stmt_patch X); auto|].
      intros sc' Hend b Hb. destruct (end_stmt_spec _ _ _ V1 Hend) as (T1 & T2 & T3 & T4 & T5).
      destruct (K10 b Hb). split; eapply keeps_trans; eauto.
    - split; [apply (end_stmt_patch X); auto|].
      intros sc' Hend b Hb. destruct (end_stmt_spec _ _ _ S9 Hend) as (T1 & T2 & T3 & T4 & T5).
      destruct (K9 b Hb). split; eapply keeps_trans; eauto.
  Qed.

  (* ---------------------------------------------------------------------------------------------- *)
  (* loops and statement lists                                                                     *)
  (* ---------------------------------------------------------------------------------------------- *)
  Lemma env_ok_decl : forall e sc sc' x, env_ok genv e sc -> length (vars sc) < length (vars sc') ->
    env_ok genv ((x, length (vars sc)) :: e) sc'.
  Proof.
    intros e sc sc' x [H1 H2] Hl. split.
    - cbn. intros a [<-|Ha]; [lia|]. apply H1 in Ha. lia.
    - intros a Ha. cbn. right. auto.
  Qed.

  Lemma for_loop_sim : forall exT exF c base B x body e cs sc X,
    ex_sim exT exF -> ex_ok genv exF ->
    Sep X sc -> tmps sc = [] -> Binv B sc -> Ainv c base B e sc -> env_ok genv e sc ->
    fresh_name funs gnames c x = true -> all_stmts (stmt_ok c) body = true ->
    for_loop exT x body e cs (patch B sc) = lift0 B (for_loop exF x body e cs sc) /\
    (forall sc', for_loop exF x body e cs sc = Ok sc' ->
       forall b, In b B -> keeps sc sc' (b_pa b) /\ keeps sc sc' (b_al b)).
  Proof.
    intros exT exF c base B x body e cs. induction cs as [|z cs IH]; intros sc X Hsim Hok HS Ht HB HA He Hf Hbody; cbn [for_loop].
    - split; [reflexivity|]. intros sc' H b Hb. inv H. split; apply keeps_refl.
    - destruct (new_var (VInt z) sc) as [a st1] eqn:En. rewrite (new_var_patch _ _ _ _ _ En).
      pose proof (Sep_new_var_int _ _ _ _ _ HS En) as S1.
      pose proof (new_var_spec _ _ _ _ En) as (-> & N2 & N3 & N4 & N5).
      assert (L1 : length (vars sc) < length (vars st1)) by (rewrite N2, app_length; cbn; lia).
      pose proof (Binv_new_var _ _ _ _ _ HB En) as B1.
      pose proof (Ainv_decl _ _ _ _ _ st1 x HA HB Hf L1) as A1.
      pose proof (env_ok_decl _ _ st1 x He L1) as He1.
      destruct (Hsim c base B _ body st1 X S1 (eq_trans N4 Ht) B1 A1 He1 Hbody) as [Hbd Hbk].
      rewrite Hbd. destruct (exF ((x, length (vars sc)) :: e) body st1) as [st2|er] eqn:Eb;
        [|split; [reflexivity|intros sc' H; discriminate H]].
      cbn [lift0 bind].
      pose proof (Hok _ _ _ _ _ Eb S1 (eq_trans N4 Ht) He1) as (C1 & C2 & C3 & C4).
      assert (B2 : Binv B st2) by (eapply Binv_keeps; [exact B1|]; intros b Hb; apply (Hbk _ eq_refl b Hb)).
      assert (L2 : length (vars sc) <= length (vars st2)) by lia.
      destruct (IH st2 X Hsim Hok C1 C2 B2 (Ainv_mono _ _ _ _ _ _ HA L2) (env_ok_mono _ _ _ _ He L2) Hf Hbody) as [I1 I2].
      split; [exact I1|].
      intros sc' H b Hb. destruct (Binv_lt _ _ _ HB Hb). destruct (Hbk _ eq_refl b Hb). destruct (I2 _ H b Hb).
      split; (eapply keeps_trans; [eapply new_var_keeps; eauto|]; eapply keeps_trans; eauto).
  Qed.

  Lemma lift0_keeps_ok : forall B r sc', lift0 B r = Ok sc' -> exists s, r = Ok s.
  Proof. intros B [s|er] sc' H; [eauto|discriminate H]. Qed.

  Theorem exec_sim : forall fuel, ex_sim (exec true mt funs genv fuel) (exec false mt funs genv fuel).
  Proof.
    induction fuel as [|fuel IH]; intros c base B e ss sc X HS Ht HB HA He Hss; cbn [exec].
    { split; [reflexivity|intros sc' H; discriminate H]. }
    pose proof (exec_copy_ok mt funs genv fuel) as Hok.
    destruct ss as [|s rest].
    { split; [reflexivity|]. intros sc' H b Hb. inv H. split; apply keeps_refl. }
    destruct (all_stmts_cons _ _ _ Hss) as [Hs Hrest]. pose proof (all_stmt_head _ _ Hs) as Hhd.
    (* the common tail: continue with the rest of the list *)
    assert (Tail : forall e1 sc1,
               Sep X sc1 -> tmps sc1 = [] -> Ainv c base B e1 sc1 -> env_ok genv e1 sc1 ->
               (forall b, In b B -> keeps sc sc1 (b_pa b) /\ keeps sc sc1 (b_al b)) ->
               exec true mt funs genv fuel e1 rest (patch B sc1) = lift0 B (exec false mt funs genv fuel e1 rest sc1) /\
               (forall sc', exec false mt funs genv fuel e1 rest sc1 = Ok sc' ->
                  forall b, In b B -> keeps sc sc' (b_pa b) /\ keeps sc sc' (b_al b))).
    { intros e1 sc1 S1 T1 A1 E1 K1.
      assert (B1 : Binv B sc1) by (eapply Binv_keeps; [exact HB|exact K1]).
      destruct (IH c base B e1 rest sc1 X S1 T1 B1 A1 E1 Hrest) as [I1 I2]. split; [exact I1|].
      intros sc' H b Hb. destruct (K1 b Hb). destruct (I2 _ H b Hb). split; eapply keeps_trans; eauto. }
    assert (Ksafe : forall x a sc1, lookup e x = Some a -> may_write c x = true ->
               (forall b, b < length (vars sc) -> ~ (b = a) -> keeps sc sc1 b) ->
               forall b, In b B -> keeps sc sc1 (b_pa b) /\ keeps sc sc1 (b_al b)).
    { intros x a sc1 Lx Wx K b Hb. destruct (ai_safe _ _ _ _ _ HA _ _ Lx Wx) as [N1 N2].
      destruct (Binv_lt _ _ _ HB Hb). split; apply K; auto; intros E; [apply N1|apply N2]; rewrite <- E; apply in_map; auto. }
    assert (Kall : forall sc1, (forall b, b < length (vars sc) -> ~ False -> keeps sc sc1 b) ->
               forall b, In b B -> keeps sc sc1 (b_pa b) /\ keeps sc sc1 (b_al b)).
    { intros sc1 K b Hb. destruct (Binv_lt _ _ _ HB Hb). split; apply K; auto. }
    destruct s as [x ex|x ex|x i v|ex|dst f args|cnd th el|x ex body]; cbn [Opt2Safe.stmt_ok] in Hhd.
    - (* SDecl *)
      rewrite (do_decl_patch X) by auto.
      destruct (do_decl e x ex sc) as [[e' st1]|er] eqn:Ed; [|split; [reflexivity|intros sc' H; discriminate H]].
      cbn [lift1 bind].
      destruct (do_decl_spec _ _ _ _ _ _ _ Ed HS) as ((D1 & D2 & D3 & D4) & -> & D5 & D6).
      apply Tail; auto.
      + eapply Ainv_decl; eauto. lia.
      + eapply env_ok_decl; eauto. lia.
    - (* SAssign *)
      assert (Hsafe : forall a, lookup e x = Some a -> safe_addr B a) by (intros a La; eapply (ai_safe _ _ _ _ _ HA); eauto).
      rewrite (do_assign_patch X) by auto.
      destruct (do_assign e x ex sc) as [st1|er] eqn:Ed; [|split; [reflexivity|intros sc' H; discriminate H]].
      cbn [lift0 bind].
      destruct (do_assign_spec _ _ _ _ _ _ Ed HS Ht) as (a & La & (D1 & D2 & D3 & D4) & D5).
      apply Tail; auto.
      + eapply Ainv_mono; eauto.
      + eapply env_ok_mono; eauto.
      + eapply Ksafe; eauto.
    - (* SAssignIdx *)
      assert (Hsafe : forall a, lookup e x = Some a -> safe_addr B a) by (intros a La; eapply (ai_safe _ _ _ _ _ HA); eauto).
      rewrite (do_assign_idx_patch X) by auto.
      destruct (do_assign_idx e x i v sc) as [st1|er] eqn:Ed; [|split; [reflexivity|intros sc' H; discriminate H]].
      cbn [lift0 bind].
      destruct (do_assign_idx_spec _ _ _ _ _ _ _ Ed HS) as (a & La & (D1 & D2 & D3 & D4) & D5).
      apply Tail; auto.
      + eapply Ainv_mono; eauto.
      + eapply env_ok_mono; eauto.
      + eapply Ksafe; eauto.
    - (* SPrint *)
      rewrite (do_print_patch X) by auto.
      destruct (do_print e ex sc) as [st1|er] eqn:Ed; [|split; [reflexivity|intros sc' H; discriminate H]].
      cbn [lift0 bind].
      destruct (do_print_spec _ _ _ _ _ Ed HS) as ((D1 & D2 & D3 & D4) & D5).
      apply Tail; auto.
      + eapply Ainv_mono; eauto.
      + eapply env_ok_mono; eauto.
    - (* SCall *)
      assert (Hsim : ex_sim (exec true mt funs genv fuel) (exec false mt funs genv fuel)) by exact IH.
      destruct (do_call_sim _ _ c base B e dst f args sc X Hsim Hok HS Ht HB HA He Hhd) as [Hc1 Hc2].
      rewrite Hc1.
      destruct (do_call false mt funs genv (exec false mt funs genv fuel) e dst f args sc) as [st1|er] eqn:Ed;
        [|split; [reflexivity|intros sc' H; discriminate H]].
      cbn [lift0 bind].
      destruct (do_call_copy_spec _ _ _ _ _ _ _ _ _ _ _ Hok Ed HS Ht He) as ((D1 & D2 & D3 & D4) & _).
      apply Tail; auto.
      + eapply Ainv_mono; eauto.
      + eapply env_ok_mono; eauto.
    - (* SIf *)
      destruct (all_stmt_if _ _ _ _ Hs) as [Hth Hel].
      rewrite (do_cond_patch X) by auto.
      destruct (do_cond e cnd sc) as [[bv st1]|er] eqn:Ed; [|split; [reflexivity|intros sc' H; discriminate H]].
      cbn [lift1 bind].
      destruct (do_cond_spec _ _ _ _ _ _ Ed HS) as ((D1 & D2 & D3 & D4) & D5 & D6).
      assert (K1 : forall b, In b B -> keeps sc st1 (b_pa b) /\ keeps sc st1 (b_al b)) by (apply Kall; auto).
      assert (B1 : Binv B st1) by (eapply Binv_keeps; [exact HB|exact K1]).
      assert (Hbr : all_stmts (stmt_ok c) (if bv then th else el) = true) by (destruct bv; auto).
      destruct (IH c base B e (if bv then th else el) st1 X D1 D2 B1 (Ainv_mono _ _ _ _ _ _ HA D3) (env_ok_mono _ _ _ _ He D3) Hbr) as [I1 I2].
      rewrite I1.
      destruct (exec false mt funs genv fuel e (if bv then th else el) st1) as [st2|er] eqn:Eb;
        [|split; [reflexivity|intros sc' H; discriminate H]].
      cbn [lift0 bind].
      pose proof (Hok _ _ _ _ _ Eb D1 D2 (env_ok_mono _ _ _ _ He D3)) as (C1 & C2 & C3 & C4).
      assert (L2 : length (vars sc) <= length (vars st2)) by lia.
      apply Tail; auto.
      + eapply Ainv_mono; eauto.
      + eapply env_ok_mono; eauto.
      + intros b Hb. destruct (K1 b Hb). destruct (I2 _ eq_refl b Hb). split; eapply keeps_trans; eauto.
    - (* SFor *)
      pose proof (all_stmt_for _ _ _ _ Hs) as Hbody.
      rewrite (for_init_patch X) by auto.
      destruct (for_init e ex sc) as [[[lc cs] st1]|er] eqn:Ed; [|split; [reflexivity|intros sc' H; discriminate H]].
      cbn [lift1 bind].
      destruct (for_init_spec _ _ _ _ _ _ _ Ed HS) as ((D1 & D2 & D3 & D4) & D5 & D6).
      assert (K1 : forall b, In b B -> keeps sc st1 (b_pa b) /\ keeps sc st1 (b_al b)) by (apply Kall; auto).
      assert (B1 : Binv B st1) by (eapply Binv_keeps; [exact HB|exact K1]).
      assert (Hsim : ex_sim (exec true mt funs genv fuel) (exec false mt funs genv fuel)) by exact IH.
      destruct (for_loop_sim _ _ c base B x body e cs st1 (lc :: X) Hsim Hok D1 D2 B1 (Ainv_mono _ _ _ _ _ _ HA D3) (env_ok_mono _ _ _ _ He D3) Hhd Hbody) as [I1 I2].
      rewrite I1.
      destruct (for_loop (exec false mt funs genv fuel) x body e cs st1) as [st2|er] eqn:El;
        [|split; [reflexivity|intros sc' H; discriminate H]].
      cbn [lift0 bind].
      pose proof (for_loop_spec _ _ _ _ _ _ _ _ _ Hok El D1 D2 (env_ok_mono _ _ _ _ He D3)) as (C1 & C2 & C3 & C4).
      assert (K2 : forall b, In b B -> keeps sc st2 (b_pa b) /\ keeps sc st2 (b_al b)).
      { intros b Hb. destruct (K1 b Hb). destruct (I2 _ eq_refl b Hb). split; eapply keeps_trans; eauto. }
      assert (B2 : Binv B st2) by (eapply Binv_keeps; [exact HB|exact K2]).
      assert (Hlc : live st2 lc) by (apply (sep_xlive _ _ C1); rewrite in_middle; auto).
      assert (Nlc : ~ In lc (map b_lc B)).
      { eapply (owner_loc (lc :: X)); eauto. rewrite in_middle. auto. }
      rewrite free_patch by auto.
      destruct (free lc st2) as [st3|er] eqn:Ef; [|split; [reflexivity|intros sc' H; discriminate H]].
      cbn [lift0 bind].
      pose proof (Sep_free_x _ _ _ _ C1 Ef) as S3.
      pose proof (free_ok _ _ _ Ef Hlc) as (F1 & F2 & F3 & F4 & F5).
      assert (L3 : length (vars sc) <= length (vars st3)) by (rewrite F3; lia).
      apply Tail; auto.
      + congruence.
      + eapply Ainv_mono; eauto.
      + eapply env_ok_mono; eauto.
      + intros b Hb. destruct (K2 b Hb). split; (eapply keeps_trans; [eassumption|]; eapply free_x_keeps; eauto).
  Qed.
End Sim.
