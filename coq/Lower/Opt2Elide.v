(* C08 — soundness of the -O2 parameter-copy elision under the side condition of Opt2Safe.v.
   The elide-mode state is the copy-mode state with the buffers of the elided ("borrowed") parameters
   replaced by handles on the lenders' buffers:  se = patch B sc.  Every operation commutes with
   `patch B` as long as nothing writes through a borrowed parameter or a lender — which is what the
   side condition guarantees statically. *)
From Coq Require Import List ZArith Bool Arith Lia Permutation.
Import ListNotations.
From DDP Require Import Lower.Opt2 Lower.Opt2Base Lower.Opt2Copy Lower.Opt2Safe.

(* one elided parameter: its variable, the lender's variable, the buffer the copy-mode run gave the
   parameter, the lender's buffer *)
Record borrow := mkB { b_pa : nat; b_al : nat; b_lc : nat; b_ll : nat }.

Fixpoint patchh (B : list borrow) (h : list cell) : list cell :=
  match B with
  | [] => h
  | b :: r => upd (patchh r h) (b_lc b) (Alias (b_ll b))
  end.
Definition patch (B : list borrow) (sc : state) : state := set_heap sc (patchh B (heap sc)).

Lemma patchh_length : forall B h, length (patchh B h) = length h.
Proof. induction B as [|b B IH]; cbn; intros; auto. rewrite upd_length. auto. Qed.

Lemma patchh_out : forall B h l, ~ In l (map b_lc B) -> nth_error (patchh B h) l = nth_error h l.
Proof.
  induction B as [|b B IH]; cbn; intros h l H; auto.
  rewrite nth_error_upd_neq by tauto. apply IH. tauto.
Qed.

Lemma patchh_in : forall B h b, NoDup (map b_lc B) -> In b B -> b_lc b < length h ->
  nth_error (patchh B h) (b_lc b) = Some (Alias (b_ll b)).
Proof.
  induction B as [|b0 B IH]; cbn; intros h b Hnd Hin Hl; [contradiction|]. inv Hnd.
  destruct Hin as [->|Hin].
  - apply nth_error_upd_eq. rewrite patchh_length. auto.
  - rewrite nth_error_upd_neq. { apply IH; auto. }
    intros E. apply H1. rewrite E. apply in_map. auto.
Qed.

Lemma patchh_app : forall B h c, (forall b, In b B -> b_lc b < length h) -> patchh B (h ++ [c]) = patchh B h ++ [c].
Proof.
  induction B as [|b B IH]; cbn; intros h c H; auto.
  rewrite IH by auto. apply upd_app_l. rewrite patchh_length. auto.
Qed.

Lemma patchh_upd : forall B h l c, ~ In l (map b_lc B) -> patchh B (upd h l c) = upd (patchh B h) l c.
Proof.
  induction B as [|b B IH]; cbn; intros h l c H; auto.
  rewrite IH by tauto. clear IH. generalize (patchh B h). intros g.
  assert (Hne : b_lc b <> l) by tauto. clear H. revert l Hne. generalize (b_lc b).
  induction g as [|x g IHg]; intros [|n] [|l] Hne; cbn; auto; try congruence. f_equal. apply IHg. congruence.
Qed.

Lemma patch_nil : forall sc, patch [] sc = sc.
Proof. intros [v h t o]. reflexivity. Qed.

(* ---------------------------------------------------------------------------------------------- *)
(* the invariant tying the borrows to the copy-mode state                                          *)
(* ---------------------------------------------------------------------------------------------- *)
Definition Binv (B : list borrow) (sc : state) : Prop :=
  NoDup (map b_lc B) /\
  forall b, In b B ->
    ptr_at sc (b_pa b) (b_lc b) /\ ptr_at sc (b_al b) (b_ll b) /\
    (exists c, nth_error (heap sc) (b_lc b) = Some (Live c) /\ nth_error (heap sc) (b_ll b) = Some (Live c)) /\
    ~ In (b_al b) (map b_pa B) /\ ~ In (b_ll b) (map b_lc B).

Definition safe_addr (B : list borrow) (a : nat) : Prop := ~ In a (map b_pa B) /\ ~ In a (map b_al B).

Lemma Binv_nil : forall sc, Binv [] sc.
Proof. intros. split; [constructor | intros b []]. Qed.

Lemma Binv_lc_lt : forall B sc b, Binv B sc -> In b B -> b_lc b < length (heap sc).
Proof. intros B sc b [_ H] Hin. destruct (H b Hin) as (_ & _ & (c & Hc & _) & _). eapply nth_error_lt; eauto. Qed.

Lemma Binv_ll_notlc : forall B sc b, Binv B sc -> In b B -> ~ In (b_ll b) (map b_lc B).
Proof. intros B sc b [Hnd H] Hin. destruct (H b Hin) as (_ & _ & _ & _ & N). exact N. Qed.

(* a buffer owned by an address that is neither a borrowed parameter nor a lender is not involved *)
Lemma safe_loc : forall X B sc a l, Sep X sc -> Binv B sc -> safe_addr B a -> ptr_at sc a l ->
  ~ In l (map b_lc B) /\ ~ In l (map b_ll B).
Proof.
  intros X B sc a l HS [Hnd H] [S1 S2] Hp. split; intros Hi; apply in_map_iff in Hi; destruct Hi as (b & E & Hin);
    destruct (H b Hin) as (P1 & P2 & _).
  - rewrite E in P1. apply S1. rewrite (sep_inj _ _ HS _ _ _ Hp P1). apply in_map. auto.
  - rewrite E in P2. apply S2. rewrite (sep_inj _ _ HS _ _ _ Hp P2). apply in_map. auto.
Qed.

(* buffers held by temporaries / extra owners are not involved either *)
Lemma owner_loc : forall X B sc l, Sep X sc -> Binv B sc -> In l (tmps sc ++ X) ->
  ~ In l (map b_lc B) /\ ~ In l (map b_ll B).
Proof.
  intros X B sc l HS [Hnd H] Hl. split; intros Hi; apply in_map_iff in Hi; destruct Hi as (b & E & Hin);
    destruct (H b Hin) as (P1 & P2 & _).
  - rewrite E in P1. exact (sep_xvar _ _ HS _ _ P1 Hl).
  - rewrite E in P2. exact (sep_xvar _ _ HS _ _ P2 Hl).
Qed.

Lemma Binv_keeps : forall B sc sc',
  Binv B sc -> (forall b, In b B -> keeps sc sc' (b_pa b) /\ keeps sc sc' (b_al b)) -> Binv B sc'.
Proof.
  intros B sc sc' [Hnd H] K. split; auto. intros b Hin.
  destruct (H b Hin) as (P1 & P2 & (c & C1 & C2) & N). destruct (K b Hin) as ((K1 & K2) & (K3 & K4)).
  unfold ptr_at in *. split; [congruence|split; [congruence|split; [|auto]]].
  exists c. rewrite (K2 _ P1), (K4 _ P2). auto.
Qed.

(* ---------------------------------------------------------------------------------------------- *)
(* primitives commute with patch                                                                   *)
(* ---------------------------------------------------------------------------------------------- *)
Definition lift0 (B : list borrow) (r : res state) : res state :=
  match r with Ok s => Ok (patch B s) | Er e => Er e end.
Definition lift1 {A} (B : list borrow) (r : res (A * state)) : res (A * state) :=
  match r with Ok (a, s) => Ok (a, patch B s) | Er e => Er e end.

Lemma target_patch : forall B sc l, Binv B sc -> live sc l ->
  nth_error (heap (patch B sc)) (target l (patch B sc)) = nth_error (heap sc) l.
Proof.
  intros B sc l HB [c Hc]. unfold target. cbn.
  destruct (in_dec Nat.eq_dec l (map b_lc B)) as [Hi|Hn].
  - apply in_map_iff in Hi. destruct Hi as (b & <- & Hin).
    rewrite patchh_in; [|apply HB|auto|eapply Binv_lc_lt; eauto].
    rewrite patchh_out by (eapply Binv_ll_notlc; eauto).
    destruct HB as [_ H]. destruct (H b Hin) as (_ & _ & (c' & C1 & C2) & _). congruence.
  - rewrite (patchh_out B (heap sc) l) by auto. rewrite Hc. rewrite patchh_out by auto. auto.
Qed.

Lemma read_patch : forall B sc l, Binv B sc -> live sc l -> read l (patch B sc) = read l sc.
Proof.
  intros B sc l HB Hl. unfold read at 1. rewrite target_patch; auto.
  destruct Hl as [c Hc]. rewrite Hc. symmetry. apply read_live. auto.
Qed.

Lemma alloc_patch : forall B sc c l sc', Binv B sc -> alloc c sc = (l, sc') -> alloc c (patch B sc) = (l, patch B sc').
Proof.
  intros B sc c l sc' HB H. unfold alloc in *. inv H. cbn. rewrite patchh_length. f_equal.
  unfold patch, set_heap. cbn. rewrite patchh_app; auto. intros b Hb. eapply Binv_lc_lt; eauto.
Qed.

Lemma free_patch : forall B sc l, live sc l -> ~ In l (map b_lc B) -> free l (patch B sc) = lift0 B (free l sc).
Proof.
  intros B sc l [c Hc] Hn. unfold free. cbn. rewrite patchh_out by auto. rewrite Hc. cbn.
  unfold patch, set_heap. cbn. rewrite patchh_upd; auto.
Qed.

Lemma write_patch : forall B sc l c, live sc l -> ~ In l (map b_lc B) ->
  write l c (patch B sc) = lift0 B (write l c sc).
Proof.
  intros B sc l c Hl Hn. unfold write.
  assert (T1 : target l (patch B sc) = l).
  { unfold target. cbn. rewrite patchh_out by auto. destruct Hl as [c0 H0]. rewrite H0. auto. }
  rewrite T1, (target_live sc l) by auto. cbn. rewrite patchh_out by auto.
  destruct Hl as [c0 H0]. rewrite H0. cbn. unfold patch, set_heap. cbn. rewrite patchh_upd; auto.
Qed.

Lemma get_slot_patch : forall B sc a, get_slot a (patch B sc) = get_slot a sc.
Proof. reflexivity. Qed.
Lemma set_slot_patch : forall B sc a s, set_slot a s (patch B sc) = patch B (set_slot a s sc).
Proof. reflexivity. Qed.
Lemma add_tmp_patch : forall B sc l, add_tmp l (patch B sc) = patch B (add_tmp l sc).
Proof. reflexivity. Qed.
Lemma claim_patch : forall B sc l, claim l (patch B sc) = patch B (claim l sc).
Proof. reflexivity. Qed.
Lemma add_out_patch : forall B sc o, add_out (patch B sc) o = patch B (add_out sc o).
Proof. reflexivity. Qed.
Lemma set_tmps_patch : forall B sc t, set_tmps (patch B sc) t = patch B (set_tmps sc t).
Proof. reflexivity. Qed.
Lemma new_var_patch : forall B sc s a sc', new_var s sc = (a, sc') -> new_var s (patch B sc) = (a, patch B sc').
Proof. intros B sc s a sc' H. unfold new_var in *. inv H. reflexivity. Qed.

(* ---------------------------------------------------------------------------------------------- *)
(* expressions and the value-moving helpers commute with patch                                      *)
(* ---------------------------------------------------------------------------------------------- *)
Lemma Binv_ext : forall X B sc sc', Sep X sc -> Binv B sc -> ext sc sc' -> Binv B sc'.
Proof. intros X B sc sc' HS HB He. eapply Binv_keeps; eauto. intros b _. split; eapply ext_keeps; eauto. Qed.

Arguments alloc : simpl never.
Arguments new_var : simpl never.

Lemma eval_patch : forall X B e x sc, Sep X sc -> Binv B sc -> eval e x (patch B sc) = lift1 B (eval e x sc).
Proof.
  intros X B e x. induction x as [z|y|c|a IHa b IHb|a IHa i IHi|a IHa]; intros sc HS HB; cbn [eval].
  - reflexivity.
  - destruct (lookup e y) as [ad|]; [|reflexivity]. rewrite get_slot_patch.
    destruct (get_slot ad sc) as [[z|l|]|er]; reflexivity.
  - destruct (alloc (Live c) sc) as [l sc1] eqn:Ea. rewrite (alloc_patch _ _ _ _ _ HB Ea). reflexivity.
  - rewrite IHa by auto. destruct (eval e a sc) as [[va st1]|er] eqn:E1; [|reflexivity]. cbn [lift1 bind].
    destruct (eval_spec _ _ _ _ _ _ E1 HS) as (S1 & X1 & R1). pose proof (Binv_ext _ _ _ _ HS HB X1) as B1.
    rewrite IHb by auto. destruct (eval e b st1) as [[vb st2]|er] eqn:E2; [|reflexivity]. cbn [lift1 bind].
    destruct (eval_spec _ _ _ _ _ _ E2 S1) as (S2 & X2 & R2). pose proof (Binv_ext _ _ _ _ S1 B1 X2) as B2.
    destruct va as [z|la ta]; [reflexivity|].
    assert (La : live st2 la) by (eapply rv_read_live; [exact S2|eapply rv_ok_ext; eauto]).
    rewrite read_patch by auto. destruct (read la st2) as [ca|er]; [|reflexivity]. cbn [bind].
    assert (Rb : (match vb with RSeq lb _ => read lb (patch B st2) | RInt z => Ok [z] end) =
                 (match vb with RSeq lb _ => read lb st2 | RInt z => Ok [z] end)).
    { destruct vb as [z|lb tb]; [reflexivity|]. apply read_patch; auto. eapply rv_read_live; eauto. }
    rewrite Rb. destruct (match vb with RSeq lb _ => read lb st2 | RInt z => Ok [z] end) as [cb|er]; [|reflexivity]. cbn [bind].
    destruct (alloc (Live (ca ++ cb)) st2) as [l st3] eqn:Ea. rewrite (alloc_patch _ _ _ _ _ B2 Ea). reflexivity.
  - rewrite IHa by auto. destruct (eval e a sc) as [[va st1]|er] eqn:E1; [|reflexivity]. cbn [lift1 bind].
    destruct (eval_spec _ _ _ _ _ _ E1 HS) as (S1 & X1 & R1). pose proof (Binv_ext _ _ _ _ HS HB X1) as B1.
    rewrite IHi by auto. destruct (eval e i st1) as [[vi st2]|er] eqn:E2; [|reflexivity]. cbn [lift1 bind].
    destruct (eval_spec _ _ _ _ _ _ E2 S1) as (S2 & X2 & R2). pose proof (Binv_ext _ _ _ _ S1 B1 X2) as B2.
    destruct va as [z|la ta]; [reflexivity|]. destruct vi as [z|li ti]; [|reflexivity].
    assert (La : live st2 la) by (eapply rv_read_live; [exact S2|eapply rv_ok_ext; eauto]).
    rewrite read_patch by auto. destruct (read la st2) as [ca|er]; [|reflexivity]. cbn [bind].
    destruct (idx_ok z (length ca)); reflexivity.
  - rewrite IHa by auto. destruct (eval e a sc) as [[va st1]|er] eqn:E1; [|reflexivity]. cbn [lift1 bind].
    destruct (eval_spec _ _ _ _ _ _ E1 HS) as (S1 & X1 & R1). pose proof (Binv_ext _ _ _ _ HS HB X1) as B1.
    destruct va as [z|la ta]; [reflexivity|].
    assert (La : live st1 la) by (eapply rv_read_live; eauto).
    rewrite read_patch by auto. destruct (read la st1) as [ca|er]; reflexivity.
Qed.

Lemma claim_or_copy_patch : forall B sc l tmp, Binv B sc -> live sc l ->
  claim_or_copy l tmp (patch B sc) = lift1 B (claim_or_copy l tmp sc).
Proof.
  intros B sc l tmp HB Hr. unfold claim_or_copy. destruct tmp; [reflexivity|].
  unfold copy_of. rewrite read_patch by auto.
  destruct (read l sc) as [c|er]; [|reflexivity]. cbn [bind].
  destruct (alloc (Live c) sc) as [l' sc1] eqn:Ea. rewrite (alloc_patch _ _ _ _ _ HB Ea). reflexivity.
Qed.

Lemma own_value_patch : forall X B sc v, Sep X sc -> Binv B sc -> rv_ok sc v ->
  own_value v (patch B sc) = lift1 B (own_value v sc).
Proof.
  intros X B sc v HS HB Hr. destruct v as [z|l tmp]; [reflexivity|]. cbn [own_value].
  rewrite claim_or_copy_patch by (auto; eapply rv_read_live; eauto). destruct (claim_or_copy l tmp sc) as [[l' s1]|er]; reflexivity.
Qed.

Lemma free_list_patch : forall B ls sc,
  (forall l, In l ls -> live sc l /\ ~ In l (map b_lc B)) -> NoDup ls ->
  free_list ls (patch B sc) = lift0 B (free_list ls sc).
Proof.
  intros B ls. induction ls as [|l ls IH]; intros sc H Hnd; [reflexivity|]. cbn [free_list]. inv Hnd.
  destruct (H l (or_introl eq_refl)) as [Hl Hn]. rewrite free_patch by auto.
  destruct (free l sc) as [sc1|er] eqn:Ef; [|reflexivity]. cbn [lift0 bind].
  apply IH; auto. intros l' Hin. destruct (H l' (or_intror Hin)) as [[c Hc] Hn']. split; auto.
  pose proof (free_ok _ _ _ Ef Hl) as (_ & Hh & _). exists c. rewrite Hh, nth_error_upd_neq; auto. intros ->. auto.
Qed.

Lemma end_stmt_patch : forall X B sc, Sep X sc -> Binv B sc -> end_stmt (patch B sc) = lift0 B (end_stmt sc).
Proof.
  intros X B sc HS HB. unfold end_stmt. cbn [tmps patch set_heap].
  rewrite free_list_patch.
  - destruct (free_list (tmps sc) sc) as [s1|er]; reflexivity.
  - intros l Hin. split; [eapply (sep_xlive _ _ HS); apply in_or_app; auto|].
    eapply owner_loc; eauto. apply in_or_app; auto.
  - eapply nodup_app_l. apply (sep_xnodup _ _ HS).
Qed.

(* ---------------------------------------------------------------------------------------------- *)
(* statements commute with patch                                                                   *)
(* ---------------------------------------------------------------------------------------------- *)
Lemma Binv_lt : forall B sc b, Binv B sc -> In b B -> b_pa b < length (vars sc) /\ b_al b < length (vars sc).
Proof. intros B sc b [_ H] Hin. destruct (H b Hin) as (P1 & P2 & _). split; eapply nth_error_lt; eauto. Qed.

Lemma Binv_step : forall B sc sc' (P : nat -> Prop),
  Binv B sc -> (forall b, b < length (vars sc) -> ~ P b -> keeps sc sc' b) ->
  (forall b, In b B -> ~ P (b_pa b) /\ ~ P (b_al b)) -> Binv B sc'.
Proof.
  intros B sc sc' P HB K HP. eapply Binv_keeps; eauto. intros b Hin.
  destruct (Binv_lt _ _ _ HB Hin). destruct (HP b Hin). split; apply K; auto.
Qed.

Lemma Binv_heap_same : forall X B sc sc', Sep X sc -> Binv B sc -> vars sc' = vars sc ->
  (forall k, k < length (heap sc) -> nth_error (heap sc') k = nth_error (heap sc) k) -> Binv B sc'.
Proof. intros. eapply Binv_keeps; eauto. intros b _. split; eapply heap_keeps; eauto. Qed.

Lemma Binv_new_var : forall B sc s a sc', Binv B sc -> new_var s sc = (a, sc') -> Binv B sc'.
Proof.
  intros B sc s a sc' HB Hn. eapply Binv_keeps; eauto. intros b Hin.
  destruct (Binv_lt _ _ _ HB Hin). split; eapply new_var_keeps; eauto.
Qed.

Lemma do_decl_patch : forall X B e x ex sc, Sep X sc -> Binv B sc ->
  do_decl e x ex (patch B sc) = lift1 B (do_decl e x ex sc).
Proof.
  intros X B e x ex sc HS HB. unfold do_decl.
  rewrite (eval_patch X) by auto. destruct (eval e ex sc) as [[v st1]|er] eqn:E1; [|reflexivity]. cbn [lift1 bind].
  destruct (eval_spec _ _ _ _ _ _ E1 HS) as (S1 & X1 & R1). pose proof (Binv_ext _ _ _ _ HS HB X1) as B1.
  rewrite (own_value_patch X) by auto. destruct (own_value v st1) as [[s st2]|er] eqn:E2; [|reflexivity]. cbn [lift1 bind].
  destruct (own_value_spec _ _ _ _ _ S1 R1 E2) as (O1 & O2 & O3 & O4 & O5).
  pose proof (Binv_heap_same _ _ _ _ S1 B1 O2 O4) as B2.
  destruct (new_var s st2) as [a st3] eqn:En. rewrite (new_var_patch _ _ _ _ _ En).
  assert (S3 : Sep X st3).
  { destruct s as [z|l|]; [eapply Sep_new_var_int; eauto | eapply Sep_new_var_ptr; eauto | contradiction]. }
  pose proof (Binv_new_var _ _ _ _ _ B2 En) as B3.
  rewrite (end_stmt_patch X) by auto. destruct (end_stmt st3) as [st4|er]; reflexivity.
Qed.

Lemma store_value_patch : forall X B sc a v, Sep X sc -> Binv B sc -> rv_ok sc v -> safe_addr B a ->
  store_value a v (patch B sc) = lift0 B (store_value a v sc).
Proof.
  intros X B sc a v HS HB Hr Hs. unfold store_value. rewrite get_slot_patch.
  destruct (get_slot a sc) as [s|er] eqn:Eg; [|reflexivity]. cbn [bind]. apply get_slot_ok in Eg.
  destruct s as [z0|lold|]; destruct v as [z|l tmp]; try reflexivity.
  destruct (negb tmp && Nat.eqb l lold) eqn:Eself; [reflexivity|].
  assert (Hp : ptr_at sc a lold) by exact Eg.
  destruct (safe_loc _ _ _ _ _ HS HB Hs Hp) as [N1 N2].
  assert (Hlo : live sc lold) by (eapply (sep_live _ _ HS); eauto).
  rewrite free_patch by auto. destruct (free lold sc) as [st1|er] eqn:Ef; [|reflexivity]. cbn [lift0 bind].
  pose proof (free_ok _ _ _ Ef Hlo) as (F1 & F2 & F3 & F4 & F5).
  assert (Hne : l <> lold).
  { destruct tmp; cbn in Eself, Hr.
    - intros ->. eapply (sep_xvar _ _ HS); eauto. apply in_or_app; auto.
    - apply Nat.eqb_neq; auto. }
  assert (Hll : live st1 l).
  { destruct (rv_read_live _ _ _ _ HS Hr) as [c Hc]. exists c. rewrite F2, nth_error_upd_neq; auto. }
  assert (B1 : Binv B st1).
  { eapply Binv_keeps; eauto. intros b Hin. destruct HB as [Hnd H]. destruct (H b Hin) as (P1 & P2 & _).
    assert (Q1 : b_lc b <> lold) by (intros E; apply N1; rewrite <- E; apply in_map; auto).
    assert (Q2 : b_ll b <> lold) by (intros E; apply N2; rewrite <- E; apply in_map; auto).
    split; (split; [congruence|]); intros l0 Hp0; rewrite F2; apply nth_error_upd_neq.
    - unfold ptr_at in *. congruence.
    - unfold ptr_at in *. congruence. }
  rewrite claim_or_copy_patch by auto. destruct (claim_or_copy l tmp st1) as [[l' st2]|er]; reflexivity.
Qed.

Lemma do_assign_patch : forall X B e x ex sc, Sep X sc -> Binv B sc ->
  (forall a, lookup e x = Some a -> safe_addr B a) ->
  do_assign e x ex (patch B sc) = lift0 B (do_assign e x ex sc).
Proof.
  intros X B e x ex sc HS HB Hsafe. unfold do_assign.
  rewrite (eval_patch X) by auto. destruct (eval e ex sc) as [[v st1]|er] eqn:E1; [|reflexivity]. cbn [lift1 bind].
  destruct (eval_spec _ _ _ _ _ _ E1 HS) as (S1 & X1 & R1). pose proof (Binv_ext _ _ _ _ HS HB X1) as B1.
  destruct (lookup e x) as [a|]; [|reflexivity].
  rewrite (store_value_patch X) by auto. destruct (store_value a v st1) as [st2|er] eqn:E2; [|reflexivity]. cbn [lift0 bind].
  destruct (store_value_spec _ _ _ _ _ S1 R1 E2) as (V1 & V2 & V3 & V4 & V5).
  assert (B2 : Binv B st2).
  { eapply Binv_keeps; eauto. intros b Hin. destruct (Hsafe a eq_refl) as [N1 N2].
    split; apply V5; intros E; [apply N1|apply N2]; rewrite <- E; apply in_map; auto. }
  apply (end_stmt_patch X); auto.
Qed.

Lemma do_assign_idx_patch : forall X B e x i v sc, Sep X sc -> Binv B sc ->
  (forall a, lookup e x = Some a -> safe_addr B a) ->
  do_assign_idx e x i v (patch B sc) = lift0 B (do_assign_idx e x i v sc).
Proof.
  intros X B e x i v sc HS HB Hsafe. unfold do_assign_idx.
  rewrite (eval_patch X) by auto. destruct (eval e v sc) as [[vv st1]|er] eqn:E1; [|reflexivity]. cbn [lift1 bind].
  destruct (eval_spec _ _ _ _ _ _ E1 HS) as (S1 & X1 & R1). pose proof (Binv_ext _ _ _ _ HS HB X1) as B1.
  rewrite (eval_patch X) by auto. destruct (eval e i st1) as [[vi st2]|er] eqn:E2; [|reflexivity]. cbn [lift1 bind].
  destruct (eval_spec _ _ _ _ _ _ E2 S1) as (S2 & X2 & R2). pose proof (Binv_ext _ _ _ _ S1 B1 X2) as B2.
  destruct (lookup e x) as [a|]; [|reflexivity].
  destruct vv as [zv|? ?]; [|reflexivity]. destruct vi as [zi|? ?]; [|reflexivity].
  rewrite get_slot_patch. destruct (get_slot a st2) as [s|er] eqn:Eg; [|reflexivity]. cbn [bind]. apply get_slot_ok in Eg.
  destruct s as [?|l|]; try reflexivity.
  assert (Hp : ptr_at st2 a l) by exact Eg.
  destruct (safe_loc _ _ _ _ _ S2 B2 (Hsafe a eq_refl) Hp) as [N1 N2].
  assert (Hl : live st2 l) by (eapply (sep_live _ _ S2); eauto).
  rewrite read_patch by auto. destruct (read l st2) as [c|er]; [|reflexivity]. cbn [bind].
  destruct (idx_ok zi (length c)); [|reflexivity].
  rewrite write_patch by auto. destruct (write l (upd c (Z.to_nat zi - 1) zv) st2) as [st3|er] eqn:Ew; [|reflexivity]. cbn [lift0 bind].
  pose proof (Sep_write _ _ _ _ _ _ S2 Hp Ew) as S3.
  assert (B3 : Binv B st3).
  { eapply Binv_keeps; eauto. intros b Hin. destruct (Hsafe a eq_refl) as [M1 M2].
    split; eapply write_keeps; eauto; intros E; [apply M1|apply M2]; rewrite <- E; apply in_map; auto. }
  apply (end_stmt_patch X); auto.
Qed.

Lemma do_print_patch : forall X B e ex sc, Sep X sc -> Binv B sc ->
  do_print e ex (patch B sc) = lift0 B (do_print e ex sc).
Proof.
  intros X B e ex sc HS HB. unfold do_print.
  rewrite (eval_patch X) by auto. destruct (eval e ex sc) as [[v st1]|er] eqn:E1; [|reflexivity]. cbn [lift1 bind].
  destruct (eval_spec _ _ _ _ _ _ E1 HS) as (S1 & X1 & R1). pose proof (Binv_ext _ _ _ _ HS HB X1) as B1.
  destruct v as [z|l t].
  - rewrite add_out_patch. apply (end_stmt_patch X).
    + destruct S1; constructor; auto.
    + exact B1.
  - rewrite read_patch by (auto; eapply rv_read_live; eauto). destruct (read l st1) as [c|er]; [|reflexivity]. cbn [bind].
    rewrite add_out_patch. apply (end_stmt_patch X).
    + destruct S1; constructor; auto.
    + exact B1.
Qed.

Lemma do_cond_patch : forall X B e c sc, Sep X sc -> Binv B sc ->
  do_cond e c (patch B sc) = lift1 B (do_cond e c sc).
Proof.
  intros X B e c sc HS HB. unfold do_cond.
  rewrite (eval_patch X) by auto. destruct (eval e c sc) as [[v st1]|er] eqn:E1; [|reflexivity]. cbn [lift1 bind].
  destruct (eval_spec _ _ _ _ _ _ E1 HS) as (S1 & X1 & R1). pose proof (Binv_ext _ _ _ _ HS HB X1) as B1.
  destruct v as [z|l t]; [|reflexivity].
  rewrite (end_stmt_patch X) by auto. destruct (end_stmt st1) as [st2|er]; reflexivity.
Qed.

Lemma for_init_patch : forall X B e ex sc, Sep X sc -> Binv B sc ->
  for_init e ex (patch B sc) = lift1 B (for_init e ex sc).
Proof.
  intros X B e ex sc HS HB. unfold for_init.
  rewrite (eval_patch X) by auto. destruct (eval e ex sc) as [[v st1]|er] eqn:E1; [|reflexivity]. cbn [lift1 bind].
  destruct (eval_spec _ _ _ _ _ _ E1 HS) as (S1 & X1 & R1). pose proof (Binv_ext _ _ _ _ HS HB X1) as B1.
  destruct v as [z|l t]; [reflexivity|].
  rewrite claim_or_copy_patch by (auto; eapply rv_read_live; eauto).
  destruct (claim_or_copy l t st1) as [[lc st2]|er] eqn:E2; [|reflexivity]. cbn [lift1 bind].
  destruct (claim_or_copy_spec _ _ _ _ _ _ S1 R1 E2) as (C1 & C2 & C3 & C4 & C5 & C6).
  pose proof (Binv_heap_same _ _ _ _ S1 B1 C2 C4) as B2.
  assert (Hl : live st2 lc) by (eapply (sep_xlive _ _ C1); rewrite in_middle; auto).
  rewrite read_patch by auto. destruct (read lc st2) as [c|er]; [|reflexivity]. cbn [bind].
  rewrite (end_stmt_patch (lc :: X)) by auto. destruct (end_stmt st2) as [st3|er]; reflexivity.
Qed.

(* ---------------------------------------------------------------------------------------------- *)
(* the activation invariant                                                                        *)
(* ---------------------------------------------------------------------------------------------- *)
Lemma pindex_spec : forall ps x i r, pindex ps x i = Some r ->
  exists j p, nth_error ps j = Some p /\ pname p = x /\ r = (i + j, pref p) /\
              (forall j' p', j' < j -> nth_error ps j' = Some p' -> pname p' <> x).
Proof.
  induction ps as [|p ps IH]; cbn; intros x i r H; [discriminate H|].
  destruct (Nat.eqb_spec (pname p) x) as [E|N].
  - inv H. exists 0, p. split; [auto|split; [auto|split; [f_equal; lia|]]]. intros j' p' Hj. lia.
  - destruct (IH _ _ _ H) as (j & q & Hq & Hn & -> & Hf). exists (S j), q.
    split; [auto|split; [auto|split; [f_equal; lia|]]].
    intros [|j'] p' Hj Hp; cbn in Hp; [inv Hp; auto|]. eapply Hf; eauto. lia.
Qed.

Lemma pindex_none : forall ps x i, pindex ps x i = None -> ~ In x (map pname ps).
Proof.
  induction ps as [|p ps IH]; cbn; intros x i H; [tauto|].
  destruct (Nat.eqb_spec (pname p) x); [discriminate H|]. intros [E|Hi]; [auto|]. eapply IH; eauto.
Qed.

Lemma pindex_nodup : forall ps j p i, NoDup (map pname ps) -> nth_error ps j = Some p ->
  pindex ps (pname p) i = Some (i + j, pref p).
Proof.
  induction ps as [|q ps IH]; intros [|j] p i Hnd Hp; cbn in *; try discriminate Hp.
  - inv Hp. rewrite Nat.eqb_refl. f_equal. f_equal. lia.
  - inv Hnd. destruct (Nat.eqb_spec (pname q) (pname p)) as [E|N].
    + exfalso. apply H1. rewrite E. apply in_map. eapply nth_error_In; eauto.
    + rewrite (IH j p (S i)); auto. f_equal. f_equal. lia.
Qed.

Lemma mem_true : forall x l, mem x l = true <-> In x l.
Proof.
  intros x l. unfold mem. rewrite existsb_exists. split.
  - intros (y & Hy & E). apply Nat.eqb_eq in E. subst. auto.
  - intros H. exists x. split; auto. apply Nat.eqb_refl.
Qed.

Lemma nodupb_NoDup : forall l, nodupb l = true -> NoDup l.
Proof.
  induction l as [|x l IH]; cbn; intros H; [constructor|]. apply andb_true_iff in H. destruct H as [H1 H2].
  constructor; auto. intros Hi. apply mem_true in Hi. rewrite Hi in H1. discriminate H1.
Qed.

Lemma all_stmts_cons : forall P s r, all_stmts P (s :: r) = true -> all_stmt P s = true /\ all_stmts P r = true.
Proof. intros P s r H. cbn in H. apply andb_true_iff in H. auto. Qed.

Lemma all_stmt_head : forall P s, all_stmt P s = true -> P s = true.
Proof. intros P s H. destruct s; cbn in H; apply andb_true_iff in H; tauto. Qed.

Lemma all_stmt_if : forall P c th el, all_stmt P (SIf c th el) = true -> all_stmts P th = true /\ all_stmts P el = true.
Proof.
  intros P c th el H. cbn in H. apply andb_true_iff in H. destruct H as [_ H].
  apply andb_true_iff in H. destruct H as [H1 H2]. split.
  - clear H2. induction th as [|s th IH]; cbn in *; auto;
      apply andb_true_iff in H1; destruct H1 as [A B0]; rewrite A; cbn; apply IH; auto.
  - clear H1. induction el as [|s el IH]; cbn in *; auto;
      apply andb_true_iff in H2; destruct H2 as [A B0]; rewrite A; cbn; apply IH; auto.
Qed.

Lemma all_stmt_for : forall P x e b, all_stmt P (SFor x e b) = true -> all_stmts P b = true.
Proof.
  intros P x e b H. cbn in H. apply andb_true_iff in H. destruct H as [_ H].
  induction b as [|s b IH]; cbn in *; auto;
    apply andb_true_iff in H; destruct H as [A B0]; rewrite A; cbn; apply IH; auto.
Qed.

Section Sim.
  Variable mt : meta.
  Variable funs : list fundecl.
  Variable genv : env.
  Variable gnames : list name.
  Variable gw : list (list name).
  Variable gbase : nat.
  Hypothesis genv_names : forall g a, lookup genv g = Some a -> mem g gnames = true /\ a < gbase.
  Hypothesis genv_inj : forall g g' a, lookup genv g = Some a -> lookup genv g' = Some a -> g = g'.
  Hypothesis funs_ok : forall j, j < length funs -> fun_ok mt funs gnames gw j = true.

  Notation kind_of := (kind_of mt funs gnames).
  Notation may_write := (may_write mt funs gnames gw).
  Notation stmt_ok := (stmt_ok mt funs gnames gw).

  Record Einv (c : ctx) (base : nat) (e : env) (sc : state) : Prop := mkEinv {
    ei_lt : forall x a, lookup e x = Some a -> a < length (vars sc);
    ei_kind : forall x a, lookup e x = Some a ->
      match kind_of c x with
      | KGlobal => lookup genv x = Some a
      | KRef => a < base
      | KLocal | KBorrow => base <= a
      end;
    ei_inj : forall x y a, lookup e x = Some a -> lookup e y = Some a -> base <= a -> x = y;
    ei_base : gbase <= base /\ base <= length (vars sc) }.

  Definition gw_has (c : ctx) (g : name) : Prop :=
    match c with Some j => mem g (nth j gw []) = true | None => True end.

  Record Ainv (c : ctx) (base : nat) (B : list borrow) (e : env) (sc : state) : Prop := mkAinv {
    ai_env : Einv c base e sc;
    ai_safe : forall x a, lookup e x = Some a -> may_write c x = true -> safe_addr B a;
    ai_gw : forall g a, gw_has c g -> lookup genv g = Some a -> safe_addr B a }.

  Lemma Einv_mono : forall c base e sc sc', Einv c base e sc -> length (vars sc) <= length (vars sc') -> Einv c base e sc'.
  Proof.
    intros c base e sc sc' [E1 E2 E3 [E4 E5]] Hl. constructor; auto.
    - intros x a Hx. apply E1 in Hx. lia.
    - split; lia.
  Qed.

  Lemma Ainv_mono : forall c base B e sc sc', Ainv c base B e sc -> length (vars sc) <= length (vars sc') -> Ainv c base B e sc'.
  Proof. intros c base B e sc sc' [A1 A2 A3] Hl. constructor; auto. eapply Einv_mono; eauto. Qed.

  Lemma fresh_kind : forall c x, fresh_name funs gnames c x = true -> kind_of c x = KLocal /\ may_write c x = true.
  Proof.
    intros c x H. unfold fresh_name in H. apply andb_true_iff in H. destruct H as [H1 H2].
    apply negb_true_iff in H1. apply negb_true_iff in H2.
    unfold Opt2Safe.kind_of, Opt2Safe.may_write, is_param in *. destruct c as [j|].
    - destruct (pindex (fparams (fn funs j)) x 0); [discriminate H1|]. rewrite H2. auto.
    - rewrite H2. auto.
  Qed.

  (* a declaration extends the environment by a brand-new variable of the activation *)
  Lemma Ainv_decl : forall c base B e sc sc' x,
    Ainv c base B e sc -> Binv B sc -> fresh_name funs gnames c x = true ->
    length (vars sc) < length (vars sc') ->
    Ainv c base B ((x, length (vars sc)) :: e) sc'.
  Proof.
    intros c base B e sc sc' x [[E1 E2 E3 [E4 E5]] A2 A3] HB Hf Hl. destruct (fresh_kind _ _ Hf) as [K1 K2].
    constructor; [constructor|..].
    - cbn. intros y a H. destruct (Nat.eqb_spec x y); [inv H; lia|]. apply E1 in H. lia.
    - cbn. intros y a H. destruct (Nat.eqb_spec x y) as [<-|N]; [inv H; rewrite K1; lia|]. apply E2. auto.
    - cbn. intros y z a Hy Hz Hb. destruct (Nat.eqb_spec x y) as [<-|Ny]; destruct (Nat.eqb_spec x z) as [<-|Nz]; auto.
      + inv Hy. apply E1 in Hz. lia.
      + inv Hz. apply E1 in Hy. lia.
      + eapply E3; eauto.
    - split; lia.
    - cbn. intros y a H Hw. destruct (Nat.eqb_spec x y) as [<-|N]; [|eauto]. inv H.
      split; intros Hi; apply in_map_iff in Hi; destruct Hi as (b & E & Hin); destruct (Binv_lt _ _ _ HB Hin); lia.
    - auto.
  Qed.

  (* ---------------------------------------------------------------------------------------------- *)
  (* binding the parameters                                                                        *)
  (* ---------------------------------------------------------------------------------------------- *)
  Lemma eval_nontmp : forall e ex st l st', eval e ex st = Ok (RSeq l false, st') ->
    exists x a, ex = EVar x /\ lookup e x = Some a /\ ptr_at st a l /\ st' = st.
  Proof.
    intros e ex st l st' H. destruct ex as [z|y|c|a b|a i|a]; cbn in H.
    - inv H.
    - destruct (lookup e y) as [ad|] eqn:El; [|discriminate H]. bind_as H s Hs H. apply get_slot_ok in Hs.
      destruct s as [z|l0|]; inv H. exists y, ad. auto.
    - destruct (alloc (Live c) st). inv H.
    - bind_as H r1 H1 H. destruct r1 as [va st1]. bind_as H r2 H2 H. destruct r2 as [vb st2].
      destruct va; [discriminate H|]. bind_as H ca Hc H. bind_as H cb Hd H. destruct (alloc (Live (ca ++ cb)) st2). inv H.
    - bind_as H r1 H1 H. destruct r1 as [va st1]. bind_as H r2 H2 H. destruct r2 as [vi st2].
      destruct va; [discriminate H|]. destruct vi; [|discriminate H]. bind_as H ca Hc H.
      destruct (idx_ok z (length ca)); inv H.
    - bind_as H r1 H1 H. destruct r1 as [va st1]. destruct va; [discriminate H|]. bind_as H ca Hc H. inv H.
  Qed.

  Definition lender (BB : list borrow) (l a : nat) : nat * nat :=
    match find (fun b => Nat.eqb (b_lc b) l) BB with
    | Some b0 => (b_al b0, b_ll b0)
    | None => (a, l)
    end.

  Lemma alloc_alias_patch : forall BB sc c t l sc' pa al,
    Binv BB sc -> alloc (Live c) sc = (l, sc') ->
    alloc (Alias t) (patch BB sc) = (l, patch (mkB pa al l t :: BB) sc').
  Proof.
    intros BB sc c t l sc' pa al HB H. unfold alloc in *. inv H. cbn. rewrite patchh_length. f_equal.
    unfold patch, set_heap. cbn. f_equal.
    rewrite patchh_app by (intros b Hb; eapply Binv_lc_lt; eauto).
    rewrite <- (patchh_length BB (heap sc)). generalize (patchh BB (heap sc)). intros g.
    induction g as [|x g IH]; cbn; auto. f_equal. auto.
  Qed.

  Lemma target_lender : forall X BB sc l a, Sep X sc -> Binv BB sc -> ptr_at sc a l ->
    target l (patch BB sc) = snd (lender BB l a).
  Proof.
    intros X BB sc l a HS HB Hp. unfold target, lender. cbn.
    destruct (find (fun b => Nat.eqb (b_lc b) l) BB) as [b0|] eqn:Ef.
    - apply find_some in Ef. destruct Ef as [Hin E]. apply Nat.eqb_eq in E. subst l.
      rewrite patchh_in; [|apply HB|auto|eapply Binv_lc_lt; eauto]. reflexivity.
    - assert (Hn : ~ In l (map b_lc BB)).
      { intros Hi. apply in_map_iff in Hi. destruct Hi as (b & E & Hin).
        pose proof (find_none _ _ Ef _ Hin) as F. cbn in F. rewrite E, Nat.eqb_refl in F. discriminate F. }
      rewrite patchh_out by auto. destruct (sep_live _ _ HS _ _ Hp) as [c Hc]. rewrite Hc. reflexivity.
  Qed.

  (* pushing the borrow created for an elided argument *)
  Lemma Binv_push : forall X BB sc a l c lc sc2 ad sc3,
    Sep X sc -> Binv BB sc -> ptr_at sc a l -> nth_error (heap sc) l = Some (Live c) ->
    alloc (Live c) sc = (lc, sc2) -> new_var (VPtr lc) sc2 = (ad, sc3) ->
    Binv (mkB ad (fst (lender BB l a)) lc (snd (lender BB l a)) :: BB) sc3 /\
    (In (fst (lender BB l a)) (map b_al BB) \/ (fst (lender BB l a) = a /\ ~ In a (map b_pa BB))).
  Proof.
    intros X BB sc a l c lc sc2 ad sc3 HS HB Hp Hc Ha Hn.
    pose proof (alloc_spec _ _ _ _ Ha) as (-> & Hh & Hv & Ht & Ho).
    pose proof (new_var_spec _ _ _ _ Hn) as (-> & N2 & N3 & N4 & N5).
    assert (Hvl : length (vars sc2) = length (vars sc)) by congruence.
    assert (Hold : forall b k, ptr_at sc b k -> ptr_at sc3 b k).
    { unfold ptr_at. intros b k H. rewrite N2, Hv. rewrite nth_error_app_old; auto. eapply nth_error_lt; eauto. }
    assert (Hhold : forall k cc, nth_error (heap sc) k = Some cc -> nth_error (heap sc3) k = Some cc).
    { intros k cc H. rewrite N3, Hh, nth_error_app_old; auto. eapply nth_error_lt; eauto. }
    assert (Hal : a < length (vars sc)) by (eapply nth_error_lt; eauto).
    destruct HB as [Hnd H].
    assert (Hlt : forall b, In b BB -> b_lc b < length (heap sc) /\ b_ll b < length (heap sc) /\ b_pa b < length (vars sc) /\ b_al b < length (vars sc)).
    { intros b Hin. destruct (H b Hin) as (P1 & P2 & (cc & C1 & C2) & _).
      repeat split; eapply nth_error_lt; eauto. }
    assert (L : (exists b0, In b0 BB /\ b_lc b0 = l /\ lender BB l a = (b_al b0, b_ll b0)) \/
                (~ In l (map b_lc BB) /\ lender BB l a = (a, l))).
    { unfold lender. destruct (find (fun b => Nat.eqb (b_lc b) l) BB) as [b0|] eqn:Ef.
      - apply find_some in Ef. destruct Ef as [Hin E]. apply Nat.eqb_eq in E. left. exists b0. auto.
      - right. split; auto. intros Hi. apply in_map_iff in Hi. destruct Hi as (b & E & Hin).
        pose proof (find_none _ _ Ef _ Hin) as F. cbn in F. rewrite E, Nat.eqb_refl in F. discriminate F. }
    split.
    - split.
      + cbn. constructor; auto. intros Hi. apply in_map_iff in Hi. destruct Hi as (b & E & Hin).
        destruct (Hlt b Hin). lia.
      + intros b [<-|Hin]; cbn [b_pa b_al b_lc b_ll].
        * split; [unfold ptr_at; rewrite N2, Hv; apply nth_error_app_new|].
          destruct L as [(b0 & Hin0 & E0 & ->)|(Hn0 & ->)]; cbn [fst snd].
          -- destruct (H b0 Hin0) as (P1 & P2 & (cc & C1 & C2) & N & M). destruct (Hlt b0 Hin0) as (L1 & L2 & L3 & L4).
             split; [auto|split; [|split]].
             ++ exists c. split; [rewrite N3, Hh; apply nth_error_app_new|]. apply Hhold. congruence.
             ++ cbn. intros [E|Hi]; [lia|auto].
             ++ cbn. intros [E|Hi]; [lia|auto].
          -- split; [auto|split; [|split]].
             ++ exists c. split; [rewrite N3, Hh; apply nth_error_app_new|auto].
             ++ cbn. intros [E|Hi]; [lia|]. apply in_map_iff in Hi. destruct Hi as (b & E & Hin).
                destruct (H b Hin) as (P1 & _). rewrite E in P1. apply Hn0.
                unfold ptr_at in *. rewrite Hp in P1. inv P1. apply in_map. auto.
             ++ cbn. intros [E|Hi]; [apply nth_error_lt in Hc; lia|auto].
        * destruct (H b Hin) as (P1 & P2 & (cc & C1 & C2) & N & M). destruct (Hlt b Hin) as (L1 & L2 & L3 & L4).
          split; [auto|split; [auto|split; [eauto|split]]].
          -- cbn. intros [E|Hi]; [lia|auto].
          -- cbn. intros [E|Hi]; [lia|auto].
    - destruct L as [(b0 & Hin0 & E0 & ->)|(Hn0 & ->)]; cbn [fst snd].
      + left. apply in_map. auto.
      + right. split; auto. intros Hi. apply in_map_iff in Hi. destruct Hi as (b & E & Hin).
        destruct (H b Hin) as (P1 & _). rewrite E in P1. apply Hn0.
        unfold ptr_at in *. rewrite Hp in P1. inv P1. apply in_map. auto.
  Qed.
End Sim.
