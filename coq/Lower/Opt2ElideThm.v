(* C08 / C11 — the -O2 parameter-copy elision preserves the behaviour of every program that satisfies
   the decidable side condition `elide_safe` (Opt2Safe.v). *)
From Coq Require Import List ZArith Bool Arith Lia Permutation.
Import ListNotations.
From DDP Require Import Lower.Opt2 Lower.Opt2Base Lower.Opt2Copy Lower.Opt2CopyThms Lower.Opt2Safe Lower.Opt2Elide.

Lemma lookup_in_pair : forall e x a, lookup e x = Some a -> In (x, a) e.
Proof.
  induction e as [|[y b] e IH]; cbn; intros x a H; [discriminate H|].
  destruct (Nat.eqb_spec y x) as [->|N]; [inv H; auto|right; auto].
Qed.

Lemma nodup_snd_inj : forall (e : env) x y a, NoDup (map snd e) -> In (x, a) e -> In (y, a) e -> x = y.
Proof.
  induction e as [|[z b] e IH]; cbn; intros x y a Hnd Hx Hy; [contradiction|]. inv Hnd.
  destruct Hx as [Ex|Hx]; destruct Hy as [Ey|Hy].
  - congruence.
  - inv Ex. exfalso. apply H1. change a with (snd (y, a)). apply in_map. auto.
  - inv Ey. exfalso. apply H1. change a with (snd (x, a)). apply in_map. auto.
  - eauto.
Qed.

(* the environment built for the globals: fresh, pairwise different addresses, names of globals *)
Lemma init_globals_env : forall gs e st e' st',
  init_globals gs e st = Ok (e', st') -> Sep [] st -> tmps st = [] ->
  NoDup (map snd e) -> (forall x a, In (x, a) e -> a < length (vars st)) ->
  NoDup (map snd e') /\ (forall x a, In (x, a) e' -> a < length (vars st')) /\
  (forall x a, In (x, a) e' -> In (x, a) e \/ In x (map fst gs)) /\ incl e e'.
Proof.
  induction gs as [|[x ex] gs IH]; intros e st e' st' H HS Ht Hnd Hlt; cbn in H.
  - inv H. split; [auto|split; [auto|split; [auto|apply incl_refl]]].
  - bind_as H r Hd H. destruct r as [e1 st1].
    destruct (do_decl_spec _ _ _ _ _ _ _ Hd HS) as ((A1 & A2 & A3 & A4) & -> & D3 & D4).
    assert (Hnd1 : NoDup (map snd ((x, length (vars st)) :: e))).
    { cbn. constructor; auto. intros Hi. apply in_map_iff in Hi. destruct Hi as ([y b] & E & Hin). cbn in E. subst b.
      apply Hlt in Hin. lia. }
    assert (Hlt1 : forall y a, In (y, a) ((x, length (vars st)) :: e) -> a < length (vars st1)).
    { intros y a [E|Hin]; [inv E; lia|]. apply Hlt in Hin. lia. }
    destruct (IH _ _ _ _ H A1 A2 Hnd1 Hlt1) as (I1 & I2 & I3 & I4).
    split; [auto|split; [auto|split]].
    + intros y a Hin. apply I3 in Hin. destruct Hin as [[E|Hin]|Hin]; [inv E; right; cbn; auto|auto|right; cbn; auto].
    + intros p Hp. apply I4. right. auto.
Qed.

Lemma upto_in : forall n j, In j (upto n) <-> j < n.
Proof.
  induction n as [|n IH]; cbn; intros j; [split; [contradiction|lia]|].
  rewrite in_app_iff, IH. cbn. split; [intros [H|[H|[]]]; lia|intros H; destruct (Nat.eq_dec j n); [right; auto|left; lia]].
Qed.

Lemma lift0_nil : forall r, lift0 [] r = r.
Proof. intros [s|er]; cbn; [rewrite patch_nil|]; auto. Qed.

Theorem elision_sound_partial : forall fuel p,
  elide_safe p = true -> run_elide fuel p = run_copy fuel p.
Proof.
  intros fuel p Hs. unfold run_elide, run_copy, run.
  destruct (init_globals (pglobals p) [] st0) as [[ge st]|er] eqn:Ei; [|reflexivity]. cbn [bind].
  unfold elide_safe in Hs. cbn zeta in Hs.
  set (mt := analyse (pfuns p)) in *. set (gn := map fst (pglobals p)) in *.
  set (gw := gw_of_prog mt (pfuns p) gn) in *.
  apply andb_true_iff in Hs. destruct Hs as [Hs Hmain]. apply andb_true_iff in Hs. destruct Hs as [Hgn Hfuns].
  destruct (init_globals_spec _ _ _ _ _ Ei Sep_st0 eq_refl (fun a (F : In a []) => match F with end)) as (S1 & T1 & L1 & O1).
  destruct (init_globals_env _ _ _ _ _ Ei Sep_st0 eq_refl (NoDup_nil _) (fun x a (F : In (x, a) []) => match F with end))
    as (N1 & N2 & N3 & _).
  set (gbase := length (vars st)).
  assert (Gnames : forall g a, lookup ge g = Some a -> mem g gn = true /\ a < gbase).
  { intros g a Hg. apply lookup_in_pair in Hg. split; [|eapply N2; eauto].
    destruct (N3 _ _ Hg) as [[]|Hin]. apply mem_true. exact Hin. }
  assert (Ginj : forall g g' a, lookup ge g = Some a -> lookup ge g' = Some a -> g = g').
  { intros g g' a H1 H2. apply lookup_in_pair in H1. apply lookup_in_pair in H2. eapply nodup_snd_inj; eauto. }
  assert (Fok : forall j, j < length (pfuns p) -> fun_ok mt (pfuns p) gn gw j = true).
  { intros j Hj. rewrite forallb_forall in Hfuns. apply Hfuns. apply upto_in. auto. }
  set (stm := set_fbase st (length (vars st))).
  assert (S1m : Sep [] stm) by (apply (Sep_perm [] [] st stm); auto).
  assert (HA : Ainv mt (pfuns p) ge gn gw gbase None gbase [] ge stm).
  { constructor; [constructor|..].
    - intros x a Hx. destruct (Gnames _ _ Hx). auto.
    - intros x a Hx. destruct (Gnames _ _ Hx) as [Hm _]. unfold kind_of. rewrite Hm. exact Hx.
    - intros x y a Hx Hy Hb. destruct (Gnames _ _ Hx). lia.
    - unfold gbase. cbn. split; lia.
    - intros x a _ _. split; intros [].
    - intros g a _ _. split; intros []. }
  assert (He : env_ok ge ge stm).
  { split; [intros a Ha; apply L1; auto|apply incl_refl]. }
  destruct (exec_sim mt (pfuns p) ge gn gw gbase Gnames Ginj Fok fuel None gbase [] ge (pmain p) stm []
              S1m T1 (Binv_nil stm) HA He Hmain) as [Heq _].
  rewrite patch_nil, lift0_nil in Heq. change (set_fbase st gbase) with stm. rewrite Heq. reflexivity.
Qed.

(* non-vacuity: a program in which a copy IS elided (the first parameter of f is judged constant and
   receives the main program's LOCAL variable 5, which is not passed by Referenz in the call: may_elide
   holds) and that satisfies the side condition *)
Definition ok_elided : program :=
  mkProg [(4, ELit [117%Z])]
         [mkFun [mkParam 1 false; mkParam 2 true]
                [SAssign 2 (ECat (EVar 2) (EVar 1)); SPrint (EVar 1)] None false]
         [SDecl 5 (ELit [97%Z; 98%Z]); SCall None 0 [AVal (EVar 5); ARef 4]; SPrint (EVar 5); SPrint (EVar 4)].

Lemma ok_elided_facts :
  elide_safe ok_elided = true /\ analyse (pfuns ok_elided) = [[true; false]] /\
  run_elide 50 ok_elided = Ok [OSeq [97%Z; 98%Z]; OSeq [97%Z; 98%Z]; OSeq [117%Z; 97%Z; 98%Z]].
Proof. split; [|split]; vm_compute; reflexivity. Qed.
