(* C08 — no operation changes the frame base of the running activation (a call sets it for the callee and
   restores it afterwards). *)
From Coq Require Import List ZArith Bool Arith Lia.
Import ListNotations.
From DDP Require Import Lower.Opt2 Lower.Opt2Base.

Arguments alloc : simpl never.
Arguments new_var : simpl never.

Lemma alloc_fbase : forall c st l st', alloc c st = (l, st') -> fbase st' = fbase st.
Proof. unfold alloc. intros. inv H. reflexivity. Qed.
Lemma new_var_fbase : forall s st a st', new_var s st = (a, st') -> fbase st' = fbase st.
Proof. unfold new_var. intros. inv H. reflexivity. Qed.
Lemma write_fbase : forall l c st st', write l c st = Ok st' -> fbase st' = fbase st.
Proof.
  unfold write. intros l c st st' H. destruct (nth_error (heap st) (target l st)) as [[?|?|]|]; try discriminate H. inv H. reflexivity.
Qed.
Lemma release_fbase : forall l st st', release l st = Ok st' -> fbase st' = fbase st.
Proof.
  unfold release. intros l st st' H. destruct (nth_error (heap st) l) as [[?|?|]|] eqn:E; try (eapply free_fbase; eauto; fail).
  inv H. reflexivity.
Qed.
Lemma free_list_fbase : forall ls st st', free_list ls st = Ok st' -> fbase st' = fbase st.
Proof.
  induction ls as [|l ls IH]; cbn; intros st st' H; [inv H; auto|]. bind_as H s1 H1 H.
  rewrite (IH _ _ H). eapply free_fbase; eauto.
Qed.
Lemma end_stmt_fbase : forall st st', end_stmt st = Ok st' -> fbase st' = fbase st.
Proof. unfold end_stmt. intros st st' H. bind_as H s1 H1 H. inv H. cbn. eapply free_list_fbase; eauto. Qed.

Lemma eval_fbase : forall e x st v st', eval e x st = Ok (v, st') -> fbase st' = fbase st.
Proof.
  intros e x. induction x as [z|y|c|a IHa b IHb|a IHa i IHi|a IHa]; intros st v st' H; cbn in H.
  - inv H. auto.
  - destruct (lookup e y); [|discriminate H]. bind_as H s Hs H. destruct s; inv H; auto.
  - destruct (alloc (Live c) st) as [l s1] eqn:Ea. inv H. cbn. eapply alloc_fbase; eauto.
  - bind_as H r1 H1 H. destruct r1 as [va s1]. bind_as H r2 H2 H. destruct r2 as [vb s2].
    destruct va; [discriminate H|]. bind_as H ca Hc H. bind_as H cb Hd H.
    destruct (alloc (Live (ca ++ cb)) s2) as [l9 s3] eqn:Ea. inv H. cbn.
    rewrite (alloc_fbase _ _ _ _ Ea), (IHb _ _ _ H2). eauto.
  - bind_as H r1 H1 H. destruct r1 as [va s1]. bind_as H r2 H2 H. destruct r2 as [vi s2].
    destruct va; [discriminate H|]. destruct vi; [|discriminate H]. bind_as H ca Hc H.
    destruct (idx_ok z (length ca)); inv H. rewrite (IHi _ _ _ H2). eauto.
  - bind_as H r1 H1 H. destruct r1 as [va s1]. destruct va; [discriminate H|]. bind_as H ca Hc H. inv H. eauto.
Qed.

Lemma claim_or_copy_fbase : forall l tmp st l' st', claim_or_copy l tmp st = Ok (l', st') -> fbase st' = fbase st.
Proof.
  unfold claim_or_copy, copy_of. intros l tmp st l' st' H. destruct tmp; [inv H; reflexivity|].
  bind_as H c Hc H. destruct (alloc (Live c) st) as [l0 s0] eqn:Ea. inv H. eapply alloc_fbase; eauto.
Qed.

Lemma own_value_fbase : forall v st s st', own_value v st = Ok (s, st') -> fbase st' = fbase st.
Proof.
  intros v st s st' H. destruct v; cbn in H; [inv H; auto|]. bind_as H r Hc H. destruct r. inv H.
  eapply claim_or_copy_fbase; eauto.
Qed.

Lemma do_decl_fbase : forall e x ex st e' st', do_decl e x ex st = Ok (e', st') -> fbase st' = fbase st.
Proof.
  unfold do_decl. intros e x ex st e' st' H. bind_as H r H1 H. destruct r as [v s1]. bind_as H r H2 H. destruct r as [s s2].
  destruct (new_var s s2) as [a s3] eqn:En. bind_as H s4 H4 H. inv H.
  rewrite (end_stmt_fbase _ _ H4), (new_var_fbase _ _ _ _ En), (own_value_fbase _ _ _ _ H2). eapply eval_fbase; eauto.
Qed.

Lemma store_value_fbase : forall a v st st', store_value a v st = Ok st' -> fbase st' = fbase st.
Proof.
  unfold store_value. intros a v st st' H. bind_as H s Hs H. destruct s; destruct v; try discriminate H.
  - inv H. reflexivity.
  - bind_as H r Hc H. destruct r as [l' s1]. bind_as H s2 Hf H. inv H. cbn.
    rewrite (free_fbase _ _ _ Hf). eapply claim_or_copy_fbase; eauto.
Qed.

Lemma do_assign_fbase : forall e x ex st st', do_assign e x ex st = Ok st' -> fbase st' = fbase st.
Proof.
  unfold do_assign. intros e x ex st st' H. bind_as H r H1 H. destruct r as [v s1]. destruct (lookup e x); [|discriminate H].
  bind_as H s2 H2 H. rewrite (end_stmt_fbase _ _ H), (store_value_fbase _ _ _ _ H2). eapply eval_fbase; eauto.
Qed.

Lemma do_assign_idx_fbase : forall e x i v st st', do_assign_idx e x i v st = Ok st' -> fbase st' = fbase st.
Proof.
  unfold do_assign_idx. intros e x i v st st' H. bind_as H r H1 H. destruct r as [vv s1]. bind_as H r H2 H. destruct r as [vi s2].
  destruct (lookup e x); [|discriminate H]. destruct vv; [|discriminate H]. destruct vi; [|discriminate H].
  bind_as H s Hs H. destruct s; try discriminate H. bind_as H c Hc H. destruct (idx_ok z0 (length c)); [|discriminate H].
  bind_as H s3 Hw H. rewrite (end_stmt_fbase _ _ H), (write_fbase _ _ _ _ Hw), (eval_fbase _ _ _ _ _ H2). eapply eval_fbase; eauto.
Qed.

Lemma do_print_fbase : forall e ex st st', do_print e ex st = Ok st' -> fbase st' = fbase st.
Proof.
  unfold do_print. intros e ex st st' H. bind_as H r H1 H. destruct r as [v s1]. destruct v.
  - rewrite (end_stmt_fbase _ _ H). cbn. eapply eval_fbase; eauto.
  - bind_as H c Hc H. rewrite (end_stmt_fbase _ _ H). cbn. eapply eval_fbase; eauto.
Qed.

Lemma do_cond_fbase : forall e c st b st', do_cond e c st = Ok (b, st') -> fbase st' = fbase st.
Proof.
  unfold do_cond. intros e c st b st' H. bind_as H r H1 H. destruct r as [v s1]. destruct v; [|discriminate H].
  bind_as H s2 H2 H. inv H. rewrite (end_stmt_fbase _ _ H2). eapply eval_fbase; eauto.
Qed.

Lemma for_init_fbase : forall e ex st lc c st', for_init e ex st = Ok (lc, c, st') -> fbase st' = fbase st.
Proof.
  unfold for_init. intros e ex st lc c st' H. bind_as H r H1 H. destruct r as [v s1]. destruct v; [discriminate H|].
  bind_as H r H2 H. destruct r as [lc' s2]. bind_as H c' Hc H. bind_as H s3 H3 H. inv H.
  rewrite (end_stmt_fbase _ _ H3), (claim_or_copy_fbase _ _ _ _ _ H2). eapply eval_fbase; eauto.
Qed.

Lemma ret_value_fbase : forall ce fr st r st', ret_value ce fr st = Ok (r, st') -> fbase st' = fbase st.
Proof.
  unfold ret_value. intros ce fr st r st' H. destruct fr; [|inv H; auto].
  bind_as H r3 H1 H. destruct r3 as [v s3]. destruct v.
  - bind_as H s4 H4 H. inv H. rewrite (end_stmt_fbase _ _ H4). eapply eval_fbase; eauto.
  - bind_as H r4 H4 H. destruct r4 as [l' s4]. bind_as H s5 H5 H. inv H.
    rewrite (end_stmt_fbase _ _ H5), (claim_or_copy_fbase _ _ _ _ _ H4). eapply eval_fbase; eauto.
Qed.

Lemma call_finish_fbase : forall e dst saved result st st', call_finish e dst saved result st = Ok st' -> fbase st' = fbase st.
Proof.
  unfold call_finish. intros e dst saved result st st' H.
  assert (F : fbase (match result with Some (RSeq l _) => add_tmp l (set_tmps st saved) | _ => set_tmps st saved end) = fbase st).
  { destruct result as [[?|? ?]|]; reflexivity. }
  destruct dst.
  - destruct result; [|discriminate H]. destruct (lookup e n); [|discriminate H]. bind_as H s1 H1 H.
    rewrite (end_stmt_fbase _ _ H), (store_value_fbase _ _ _ _ H1). exact F.
  - rewrite (end_stmt_fbase _ _ H). exact F.
Qed.

Lemma bind_params_fbase : forall el mt all f ps i args e ce st ce' st',
  bind_params el mt all f i ps args e ce st = Ok (ce', st') -> fbase st' = fbase st.
Proof.
  intros el mt all f ps. induction ps as [|p ps IH]; intros i args e ce st ce' st' H; destruct args as [|a args]; cbn in H; try discriminate H.
  - inv H. auto.
  - destruct (pref p); destruct a as [ex|x]; try discriminate H.
    + destruct (lookup e x); [|discriminate H]. eauto.
    + bind_as H r He H. destruct r as [v s1]. pose proof (eval_fbase _ _ _ _ _ He) as F1. destruct v as [z|l tmp].
      * destruct (new_var (VInt z) s1) as [ad s2] eqn:En. rewrite (IH _ _ _ _ _ _ _ H), (new_var_fbase _ _ _ _ En). auto.
      * destruct (el && is_const mt f i && negb tmp && may_elide e all ex s1).
        -- destruct (alloc (Alias (target l s1)) s1) as [lh s1'] eqn:Ea. destruct (new_var (VPtr lh) s1') as [ad s2] eqn:En.
           rewrite (IH _ _ _ _ _ _ _ H), (new_var_fbase _ _ _ _ En), (alloc_fbase _ _ _ _ Ea). auto.
        -- bind_as H r Hc H. destruct r as [l' s2]. destruct (new_var (VPtr l') s2) as [ad s3] eqn:En.
           rewrite (IH _ _ _ _ _ _ _ H), (new_var_fbase _ _ _ _ En), (claim_or_copy_fbase _ _ _ _ _ Hc). auto.
Qed.

Lemma exit_from_fbase : forall n a st st', exit_from n a st = Ok st' -> fbase st' = fbase st.
Proof.
  induction n as [|n IH]; intros a st st' H; cbn in H; [inv H; auto|].
  bind_as H s Hs H. bind_as H s1 H1 H. rewrite (IH _ _ _ H). cbn.
  destruct s; try (inv H1; reflexivity). eapply release_fbase; eauto.
Qed.

Lemma do_call_fbase : forall el mt funs genv ex e dst f args st st',
  do_call el mt funs genv ex e dst f args st = Ok st' -> fbase st' = fbase st.
Proof.
  unfold do_call. intros el mt funs genv ex e dst f args st st' H. destruct (nth_error funs f); [|discriminate H].
  bind_as H r Hb H. destruct r as [ce s1]. bind_as H s2 Hx H. bind_as H r Hr H. destruct r as [result s6]. bind_as H s7 He H.
  rewrite (call_finish_fbase _ _ _ _ _ _ H). reflexivity.
Qed.

Lemma for_loop_fbase : forall ex x body e c st st',
  (forall e ss s s', ex e ss s = Ok s' -> fbase s' = fbase s) ->
  for_loop ex x body e c st = Ok st' -> fbase st' = fbase st.
Proof.
  intros ex x body e c. induction c as [|z c IH]; intros st st' Hex H; cbn in H; [inv H; auto|].
  destruct (new_var (VInt z) st) as [a s1] eqn:En. bind_as H s2 H2 H.
  rewrite (IH _ _ Hex H), (Hex _ _ _ _ H2). eapply new_var_fbase; eauto.
Qed.

Lemma exec_fbase : forall el mt funs genv fuel e ss st st',
  exec el mt funs genv fuel e ss st = Ok st' -> fbase st' = fbase st.
Proof.
  intros el mt funs genv. induction fuel as [|fuel IH]; intros e ss st st' H; cbn in H; [discriminate H|].
  destruct ss as [|s rest]; [inv H; auto|].
  destruct s as [x ex|x ex|x i v|ex|dst f args|c th el0|x ex body].
  - bind_as H r H1 H. destruct r as [e1 s1]. rewrite (IH _ _ _ _ H). eapply do_decl_fbase; eauto.
  - bind_as H s1 H1 H. rewrite (IH _ _ _ _ H). eapply do_assign_fbase; eauto.
  - bind_as H s1 H1 H. rewrite (IH _ _ _ _ H). eapply do_assign_idx_fbase; eauto.
  - bind_as H s1 H1 H. rewrite (IH _ _ _ _ H). eapply do_print_fbase; eauto.
  - bind_as H s1 H1 H. rewrite (IH _ _ _ _ H). eapply do_call_fbase; eauto.
  - bind_as H r H1 H. destruct r as [b s1]. bind_as H s2 H2 H. rewrite (IH _ _ _ _ H), (IH _ _ _ _ H2). eapply do_cond_fbase; eauto.
  - bind_as H r H1 H. destruct r as [[lc c] s1]. bind_as H s2 H2 H. bind_as H s3 H3 H.
    rewrite (IH _ _ _ _ H), (free_fbase _ _ _ H3), (for_loop_fbase _ _ _ _ _ _ _ (IH) H2). eapply for_init_fbase; eauto.
Qed.
