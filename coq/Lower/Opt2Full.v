(* C08 / C11 — the repaired -O2 parameter-copy elision (91b5d4a) is sound for EVERY program:
   the predicate the compiler evaluates at each call site (`may_elide`: the argument is a variable of the
   running activation — above its frame base — that is not also passed by Referenz in the call) together
   with the consistency of `analyse`'s table (Opt2Cons.v) establishes, dynamically, everything the
   simulation of Opt2Elide.v needs.  No static side condition is left. *)
From Coq Require Import List ZArith Bool Arith Lia Permutation.
Import ListNotations.
From DDP Require Import Lower.Opt2 Lower.Opt2Base Lower.Opt2Copy Lower.Opt2CopyThms Lower.Opt2Fbase Lower.Opt2Safe Lower.Opt2Cons Lower.Opt2Elide.

Arguments alloc : simpl never.
Arguments new_var : simpl never.

Lemma combine_nth_error : forall A B (l1 : list A) (l2 : list B) j a b,
  nth_error l1 j = Some a -> nth_error l2 j = Some b -> nth_error (combine l1 l2) j = Some (a, b).
Proof.
  induction l1 as [|x l1 IH]; intros l2 [|j] a b H1 H2; destruct l2 as [|y l2]; cbn in *; try discriminate; auto.
  inv H1. inv H2. auto.
Qed.

Lemma eval_vars : forall e x st v st', eval e x st = Ok (v, st') -> vars st' = vars st.
Proof.
  intros e x. induction x as [z|y|c|a IHa b IHb|a IHa i IHi|a IHa]; intros st v st' H; cbn in H.
  - inv H. auto.
  - destruct (lookup e y); [|discriminate H]. bind_as H s Hs H. destruct s; inv H; auto.
  - destruct (alloc (Live c) st) as [l s1] eqn:Ea. inv H. cbn. apply alloc_spec in Ea. tauto.
  - bind_as H r1 H1 H. destruct r1 as [va s1]. bind_as H r2 H2 H. destruct r2 as [vb s2].
    destruct va; [discriminate H|]. bind_as H ca Hc H. bind_as H cb Hd H.
    destruct (alloc (Live (ca ++ cb)) s2) as [l9 s3] eqn:Ea. inv H. cbn. apply alloc_spec in Ea.
    destruct Ea as (_ & _ & -> & _). rewrite (IHb _ _ _ H2). eauto.
  - bind_as H r1 H1 H. destruct r1 as [va s1]. bind_as H r2 H2 H. destruct r2 as [vi s2].
    destruct va; [discriminate H|]. destruct vi; [|discriminate H]. bind_as H ca Hc H.
    destruct (idx_ok z (length ca)); inv H. rewrite (IHi _ _ _ H2). eauto.
  - bind_as H r1 H1 H. destruct r1 as [va s1]. destruct va; [discriminate H|]. bind_as H ca Hc H. inv H. eauto.
Qed.

Lemma claim_or_copy_vars : forall l tmp st l' st', claim_or_copy l tmp st = Ok (l', st') -> vars st' = vars st.
Proof.
  unfold claim_or_copy, copy_of. intros l tmp st l' st' H. destruct tmp; [inv H; reflexivity|].
  bind_as H c Hc H. destruct (alloc (Live c) st) as [l0 s0] eqn:Ea. inv H. apply alloc_spec in Ea. tauto.
Qed.

(* the callee's environment: the fresh parameter variables are pairwise different *)
Lemma bind_params_inj : forall mt all k ps i args e ce st ce' st' n0,
  bind_params false mt all k i ps args e ce st = Ok (ce', st') ->
  n0 <= length (vars st) ->
  (forall x a, lookup e x = Some a -> a < n0) ->
  (forall x a, lookup ce x = Some a -> a < length (vars st)) ->
  (forall x y a, lookup ce x = Some a -> lookup ce y = Some a -> n0 <= a -> x = y) ->
  (forall x a, lookup ce' x = Some a -> a < length (vars st')) /\
  (forall x y a, lookup ce' x = Some a -> lookup ce' y = Some a -> n0 <= a -> x = y).
Proof.
  intros mt all k ps. induction ps as [|p ps IH]; intros i args e ce st ce' st' n0 H Hn He Hlt Hinj;
    destruct args as [|a args]; cbn in H; try discriminate H.
  - inv H. auto.
  - assert (Step : forall ad st3, length (vars st) <= length (vars st3) ->
               ((ad < n0) \/ (ad = length (vars st) /\ ad < length (vars st3))) ->
               bind_params false mt all k (S i) ps args e ((pname p, ad) :: ce) st3 = Ok (ce', st') ->
               (forall x a0, lookup ce' x = Some a0 -> a0 < length (vars st')) /\
               (forall x y a0, lookup ce' x = Some a0 -> lookup ce' y = Some a0 -> n0 <= a0 -> x = y)).
    { intros ad st3 L3 Had Hb. eapply (IH _ _ _ _ _ _ _ n0 Hb); [lia|exact He| |].
      - cbn. intros x a0 Hx. destruct (Nat.eqb (pname p) x); [inv Hx; destruct Had; lia|]. apply Hlt in Hx. lia.
      - cbn. intros x y a0 Hx Hy Ha.
        destruct (Nat.eqb_spec (pname p) x) as [<-|Nx]; destruct (Nat.eqb_spec (pname p) y) as [<-|Ny]; auto.
        + inv Hx. apply Hlt in Hy. destruct Had; lia.
        + inv Hy. apply Hlt in Hx. destruct Had; lia.
        + eapply Hinj; eauto. }
    destruct (pref p); destruct a as [ex|x]; try discriminate H.
    + destruct (lookup e x) as [ad|] eqn:El; [|discriminate H]. apply (Step ad st); auto. left. eapply He; eauto.
    + bind_as H r Hev H. destruct r as [v st1]. pose proof (eval_vars _ _ _ _ _ Hev) as V1.
      destruct v as [z|l tmp].
      * destruct (new_var (VInt z) st1) as [ad st2] eqn:En. pose proof (new_var_spec _ _ _ _ En) as (-> & N2 & _).
        apply (Step (length (vars st1)) st2); auto; rewrite N2, app_length, V1; cbn; [lia|right; lia].
      * cbn in H. bind_as H r Hc H. destruct r as [l' st2]. pose proof (claim_or_copy_vars _ _ _ _ _ Hc) as V2.
        destruct (new_var (VPtr l') st2) as [ad st3] eqn:En. pose proof (new_var_spec _ _ _ _ En) as (-> & N2 & _).
        apply (Step (length (vars st2)) st3); auto; rewrite N2, app_length, V2, V1; cbn; [lia|right; lia].
Qed.

Section Full.
  Variable mt : meta.
  Variable funs : list fundecl.
  Variable genv : env.
  Variable gbase : nat.
  Hypothesis genv_lt : forall g a, lookup genv g = Some a -> a < gbase.
  Hypothesis cons_ok : forall j, j < length funs ->
    all_stmts (stmt_cons_b mt funs (Some j)) (fbody (fn funs j)) = true.

  Notation cname := (cnameb mt funs).

  Lemma cname_param : forall k j p, nth_error (fparams (fn funs k)) j = Some p -> is_const mt k j = true ->
    cname (Some k) (pname p) = true.
  Proof.
    intros k j p Hp Hc. unfold cnameb, cst_of, cst_true. apply existsb_exists. exists (pname p, true). split.
    - unfold is_const in Hc.
      assert (Hr : nth_error (nth k mt []) j = Some true).
      { destruct (nth_error (nth k mt []) j) as [b|] eqn:E.
        - rewrite (nth_error_nth _ _ false E) in Hc. congruence.
        - apply nth_error_None in E. rewrite nth_overflow in Hc by lia. discriminate Hc. }
      eapply nth_error_In. apply combine_nth_error; [|exact Hr]. rewrite nth_error_map, Hp. reflexivity.
    - cbn. rewrite Nat.eqb_refl. reflexivity.
  Qed.

  (* the invariant of an activation: every variable it can name is either not involved in any borrow or is
     one of its parameters judged constant (which it never writes); its own variables are pairwise
     different; every borrow lies above the globals *)
  Record Ainv (c : ctx) (B : list borrow) (e : env) (sc : state) : Prop := mkAinv {
    ai_lt : forall x a, lookup e x = Some a -> a < length (vars sc);
    ai_safe : forall x a, lookup e x = Some a -> safe_addr B a \/ cname c x = true;
    ai_inj : forall x y a, lookup e x = Some a -> lookup e y = Some a -> fbase sc <= a -> x = y;
    ai_fb : gbase <= fbase sc /\ fbase sc <= length (vars sc);
    ai_B : forall b, In b B -> gbase <= b_pa b /\ gbase <= b_al b }.

  Lemma Ainv_mono : forall c B e sc sc', Ainv c B e sc ->
    length (vars sc) <= length (vars sc') -> fbase sc' = fbase sc -> Ainv c B e sc'.
  Proof.
    intros c B e sc sc' [A1 A2 A3 [A4 A5] A6] Hl Hf. constructor; auto.
    - intros x a Hx. apply A1 in Hx. lia.
    - rewrite Hf. auto.
    - rewrite Hf. split; lia.
  Qed.

  Lemma Ainv_decl : forall c B e sc sc' x,
    Ainv c B e sc -> Binv B sc -> length (vars sc) < length (vars sc') -> fbase sc' = fbase sc ->
    Ainv c B ((x, length (vars sc)) :: e) sc'.
  Proof.
    intros c B e sc sc' x [A1 A2 A3 [A4 A5] A6] HB Hl Hf. constructor; auto.
    - cbn. intros y a H. destruct (Nat.eqb x y); [inv H; lia|]. apply A1 in H. lia.
    - cbn. intros y a H. destruct (Nat.eqb x y); [|eauto]. inv H. left.
      split; intros Hi; apply in_map_iff in Hi; destruct Hi as (b & E & Hin); destruct (Binv_lt _ _ _ HB Hin); lia.
    - cbn. rewrite Hf. intros y z a Hy Hz Hb.
      destruct (Nat.eqb_spec x y) as [<-|Ny]; destruct (Nat.eqb_spec x z) as [<-|Nz]; auto.
      + inv Hy. apply A1 in Hz. lia.
      + inv Hz. apply A1 in Hy. lia.
      + eapply A3; eauto.
    - rewrite Hf. split; lia.
  Qed.

  (* ---------------------------------------------------------------------------------------------- *)
  (* binding                                                                                       *)
  (* ---------------------------------------------------------------------------------------------- *)
  Definition al_ok (all : list arg) (e : env) (BB : list borrow) (fb : nat) (b : borrow) : Prop :=
    In (b_al b) (map b_al BB) \/
    exists x, lookup e x = Some (b_al b) /\ fb <= b_al b /\ existsb (is_ref_of x) all = false.

  Lemma al_ok_weaken : forall all e B1 B2 fb b, al_ok all e (B1 ++ B2) fb b ->
    (forall b1, In b1 B1 -> al_ok all e B2 fb b1) -> al_ok all e B2 fb b.
  Proof.
    intros all e B1 B2 fb b [H|H] H1; [|right; exact H].
    rewrite map_app in H. apply in_app_or in H. destruct H as [H|H]; [|left; exact H].
    apply in_map_iff in H. destruct H as (b1 & E & Hin). destruct (H1 b1 Hin) as [K|K].
    - left. rewrite <- E. exact K.
    - right. rewrite <- E. exact K.
  Qed.

  Lemma bind_params_sim : forall all k ps i args e ce X BB sc,
    Sep X sc -> Binv BB sc ->
    match bind_params false mt all k i ps args e ce sc with
    | Er er => bind_params true mt all k i ps args e ce (patch BB sc) = Er er
    | Ok (ce', sc') =>
        exists Bn,
          bind_params true mt all k i ps args e ce (patch BB sc) = Ok (ce', patch (Bn ++ BB) sc') /\
          Binv (Bn ++ BB) sc' /\ length (vars sc) <= length (vars sc') /\ fbase sc' = fbase sc /\
          (forall b, In b Bn -> length (vars sc) <= b_pa b /\ b_pa b < length (vars sc') /\ al_ok all e BB (fbase sc) b) /\
          (forall x a, lookup ce' x = Some a ->
             (exists j p, nth_error ps j = Some p /\ pname p = x /\
                (if pref p then exists y, nth_error args j = Some (ARef y) /\ lookup e y = Some a
                 else length (vars sc) <= a /\ a < length (vars sc') /\
                      (In a (map b_pa Bn) -> is_const mt k (i + j) = true)))
             \/ lookup ce x = Some a)
    end.
  Proof.
    intros all k ps. induction ps as [|p ps IH]; intros i args e ce X BB sc HS HB.
    - destruct args as [|a args]; cbn; [|reflexivity].
      exists []. split; [reflexivity|split; [exact HB|split; [lia|split; [reflexivity|split; [intros b []|auto]]]]].
    - destruct args as [|a args]; [cbn; reflexivity|].
      destruct (bind_head mt all k p i a e ce X BB sc HS HB) as [(er & Her)|(ad & st3 & Bhd & Heq & S3 & B3 & L3 & Hp & F3 & Hal)].
      { destruct (Her ps args) as [-> ->]. reflexivity. }
      destruct (Heq ps args) as [-> ->].
      specialize (IH (S i) args e ((pname p, ad) :: ce) X (Bhd ++ BB) st3 S3 B3).
      destruct (bind_params false mt all k (S i) ps args e ((pname p, ad) :: ce) st3) as [[ce' sc']|er]; [|exact IH].
      destruct IH as (Bn & I1 & I2 & I3 & I4 & I5 & I6).
      exists (Bn ++ Bhd). rewrite <- app_assoc.
      (* facts about the head *)
      assert (Hhd : forall b, In b Bhd -> pref p = false /\ b_pa b = ad /\ ad = length (vars sc) /\ is_const mt k i = true).
      { intros b Hb. destruct (pref p); [destruct Hp as (_ & _ & ->); destruct Hb|].
        destruct Hp as (Had & Hlen & [->|(b' & -> & P1 & P2 & _)]); [destruct Hb|]. destruct Hb as [<-|[]]. auto. }
      assert (Hlen3 : pref p = false -> ad = length (vars sc) /\ length (vars st3) = S ad).
      { intros Ep. rewrite Ep in Hp. tauto. }
      split; [exact I1|split; [exact I2|split; [lia|split; [congruence|split]]]].
      + intros b Hb. apply in_app_or in Hb. destruct Hb as [Hb|Hb].
        * destruct (I5 b Hb) as (K1 & K2 & K3). split; [lia|split; [auto|]].
          rewrite F3 in K3. eapply al_ok_weaken; [exact K3|]. intros b1 Hb1. exact (Hal b1 Hb1).
        * destruct (Hhd b Hb) as (Ep & E1 & E2 & E3). destruct (Hlen3 Ep) as [_ L]. split; [lia|split; [lia|]]. exact (Hal b Hb).
      + intros x a0 Hx. destruct (I6 x a0 Hx) as [(j & q & Q1 & Q2 & Q3)|Q].
        * left. exists (S j), q. split; [auto|split; [auto|]]. destruct (pref q); [exact Q3|].
          destruct Q3 as (R1 & R2 & R3). split; [lia|split; [auto|]]. intros Hi. rewrite Nat.add_succ_r. apply R3.
          rewrite map_app in Hi. apply in_app_or in Hi. destruct Hi as [Hi|Hi]; auto.
          apply in_map_iff in Hi. destruct Hi as (b & E & Hb). destruct (Hhd b Hb) as (Ep & E1 & E2 & E3).
          destruct (Hlen3 Ep). lia.
        * cbn in Q. destruct (Nat.eqb_spec (pname p) x) as [Ex|Nx]; [|right; exact Q]. inv Q.
          left. exists 0, p. split; [auto|split; [auto|]]. destruct (pref p) eqn:Ep.
          -- destruct Hp as ((y & -> & Ly) & _). exists y. auto.
          -- destruct (Hlen3 eq_refl) as [E1 E2]. split; [lia|split; [lia|]]. intros Hi. rewrite Nat.add_0_r.
             rewrite map_app in Hi. apply in_app_or in Hi. destruct Hi as [Hi|Hi].
             ++ apply in_map_iff in Hi. destruct Hi as (b & E & Hb). destruct (I5 b Hb) as (K1 & _). lia.
             ++ apply in_map_iff in Hi. destruct Hi as (b & E & Hb). destruct (Hhd b Hb) as (_ & _ & _ & E3). exact E3.
  Qed.

  (* the callee's invariant: this is where the compiler's dynamic predicate does the work the static side
     condition of Opt2Safe.v did *)
  Lemma callee_Ainv : forall c B e sc k fd args ce' sc' Bn,
    Ainv c B e sc -> Binv B sc -> nth_error funs k = Some fd ->
    stmt_cons_b mt funs c (SCall None k args) = true ->
    length (vars sc) <= length (vars sc') -> fbase sc' = length (vars sc) ->
    (forall b, In b Bn -> length (vars sc) <= b_pa b /\ b_pa b < length (vars sc') /\ al_ok args e B (fbase sc) b) ->
    (forall x a, lookup ce' x = Some a ->
       (exists j p, nth_error (fparams fd) j = Some p /\ pname p = x /\
          (if pref p then exists y, nth_error args j = Some (ARef y) /\ lookup e y = Some a
           else length (vars sc) <= a /\ a < length (vars sc') /\
                (In a (map b_pa Bn) -> is_const mt k (0 + j) = true)))
       \/ lookup genv x = Some a) ->
    (forall x y a, lookup ce' x = Some a -> lookup ce' y = Some a -> length (vars sc) <= a -> x = y) ->
    Ainv (Some k) (Bn ++ B) ce' sc'.
  Proof.
    intros c B e sc k fd args ce' sc' Bn [A1 A2 A3 [A4 A5] A6] HB Hfd Hcons Hlen Hfb Hbn HR Hinj.
    assert (Efn : fn funs k = fd) by (unfold fn; apply nth_error_nth; auto).
    assert (Hbl : forall b, In b B -> b_pa b < length (vars sc) /\ b_al b < length (vars sc)) by (intros b Hb; eapply Binv_lt; eauto).
    assert (Hal : forall b, In b Bn -> b_al b < length (vars sc) /\ gbase <= b_al b).
    { intros b Hb. destruct (Hbn b Hb) as (_ & _ & [K|(x & Lx & Fx & _)]).
      - apply in_map_iff in K. destruct K as (b0 & E & H0). rewrite <- E. destruct (Hbl b0 H0), (A6 b0 H0). lia.
      - apply A1 in Lx. lia. }
    unfold stmt_cons_b, chk in Hcons. cbn in Hcons.
    constructor.
    - intros x a Hx. destruct (HR x a Hx) as [(j & p & Hp & Hn & F)|Hg].
      + destruct (pref p); [destruct F as (y & _ & Ly); apply A1 in Ly; lia|lia].
      + apply genv_lt in Hg. lia.
    - intros x a Hx. destruct (HR x a Hx) as [(j & p & Hp & Hn & F)|Hg].
      + destruct (pref p) eqn:Ep.
        * destruct F as (y & Hy & Ly).
          destruct (is_const mt k j) eqn:Ec; [right; rewrite <- Hn; rewrite <- Efn in Hp; eapply cname_param; eauto|].
          (* the callee may write this Referenz parameter: the caller may write the argument *)
          assert (Hw : cname c y = false).
          { rewrite forallb_forall in Hcons. pose proof (ref_args_nth args 0 j y Hy) as Hr. cbn in Hr.
            specialize (Hcons _ Hr). cbn in Hcons. unfold is_const in Ec, Hcons. rewrite Ec in Hcons. cbn in Hcons.
            apply negb_true_iff in Hcons. exact Hcons. }
          destruct (A2 _ _ Ly) as [[N1 N2]|Hc]; [|unfold cnameb in Hw; unfold cnameb in Hc; congruence].
          pose proof (A1 _ _ Ly) as Lt. left.
          split; rewrite map_app; intros Hi; apply in_app_or in Hi; destruct Hi as [Hi|Hi]; auto.
          -- apply in_map_iff in Hi. destruct Hi as (b & Eb & Hb). destruct (Hbn b Hb) as (K1 & _). lia.
          -- apply in_map_iff in Hi. destruct Hi as (b & Eb & Hb). destruct (Hbn b Hb) as (_ & _ & [K|(x0 & Lx & Fx & Rx)]).
             ++ apply N2. rewrite <- Eb. exact K.
             ++ rewrite Eb in Lx, Fx. assert (y = x0) by (eapply A3; eauto). subst x0.
                assert (Hin : In (ARef y) args) by (eapply nth_error_In; eauto).
                assert (T : existsb (is_ref_of y) args = true).
                { apply existsb_exists. exists (ARef y). split; auto. cbn. apply Nat.eqb_refl. }
                congruence.
        * destruct F as (F1 & F2 & F3).
          destruct (in_dec Nat.eq_dec a (map b_pa Bn)) as [Hi|Hn'].
          -- right. rewrite <- Hn. rewrite <- Efn in Hp. eapply cname_param; [exact Hp|exact (F3 Hi)].
          -- left. split; rewrite map_app; intros Hi; apply in_app_or in Hi; destruct Hi as [Hi|Hi]; auto.
             ++ apply in_map_iff in Hi. destruct Hi as (b & Eb & Hb). destruct (Hbl b Hb). lia.
             ++ apply in_map_iff in Hi. destruct Hi as (b & Eb & Hb). destruct (Hal b Hb). lia.
             ++ apply in_map_iff in Hi. destruct Hi as (b & Eb & Hb). destruct (Hbl b Hb). lia.
      + pose proof (genv_lt _ _ Hg) as Lg. left.
        split; rewrite map_app; intros Hi; apply in_app_or in Hi; destruct Hi as [Hi|Hi];
          apply in_map_iff in Hi; destruct Hi as (b & Eb & Hb).
        * destruct (Hbn b Hb) as (K1 & _). lia.
        * destruct (A6 b Hb). lia.
        * destruct (Hal b Hb). lia.
        * destruct (A6 b Hb). lia.
    - rewrite Hfb. exact Hinj.
    - rewrite Hfb. split; lia.
    - intros b Hb. apply in_app_or in Hb. destruct Hb as [Hb|Hb]; [|auto].
      destruct (Hbn b Hb) as (K1 & _). destruct (Hal b Hb). split; lia.
  Qed.

  (* ---------------------------------------------------------------------------------------------- *)
  (* calls, loops, statement lists                                                                 *)
  (* ---------------------------------------------------------------------------------------------- *)
  Definition ex_sim (exT exF : env -> list stmt -> state -> res state) : Prop :=
    forall c B e ss sc X,
      Sep X sc -> tmps sc = [] -> Binv B sc -> Ainv c B e sc -> env_ok genv e sc ->
      all_stmts (stmt_cons_b mt funs c) ss = true ->
      exT e ss (patch B sc) = lift0 B (exF e ss sc) /\
      (forall sc', exF e ss sc = Ok sc' -> forall b, In b B -> keeps sc sc' (b_pa b) /\ keeps sc sc' (b_al b)).

  Definition ex_fb (exF : env -> list stmt -> state -> res state) : Prop :=
    forall e ss s s', exF e ss s = Ok s' -> fbase s' = fbase s.

  Lemma stmt_cons_call : forall c dst k args, stmt_cons_b mt funs c (SCall dst k args) = true ->
    stmt_cons_b mt funs c (SCall None k args) = true /\
    (forall d, dst = Some d -> cname c d = false).
  Proof.
    intros c dst k args H. unfold stmt_cons_b, chk in *. apply andb_true_iff in H. destruct H as [H1 H2]. split.
    - cbn. exact H2.
    - intros d ->. apply negb_true_iff in H1. exact H1.
  Qed.

  Lemma do_call_sim : forall exT exF c B e dst k args sc X,
    ex_sim exT exF -> ex_ok genv exF ->
    Sep X sc -> tmps sc = [] -> Binv B sc -> Ainv c B e sc -> env_ok genv e sc ->
    stmt_cons_b mt funs c (SCall dst k args) = true ->
    do_call true mt funs genv exT e dst k args (patch B sc) = lift0 B (do_call false mt funs genv exF e dst k args sc) /\
    (forall sc', do_call false mt funs genv exF e dst k args sc = Ok sc' ->
       forall b, In b B -> keeps sc sc' (b_pa b) /\ keeps sc sc' (b_al b)).
  Proof.
    intros exT exF c B e dst k args sc X Hsim Hok HS Ht HB HA He Hst.
    destruct (stmt_cons_call _ _ _ _ Hst) as [Hcall Hdst].
    unfold do_call. cbn [vars patch set_heap].
    destruct (nth_error funs k) as [fd|] eqn:Efd; [|split; [reflexivity|intros sc' H; discriminate H]].
    assert (Hk : k < length funs) by (apply nth_error_Some; congruence).
    assert (Efn : fn funs k = fd) by (unfold fn; apply nth_error_nth; auto).
    pose proof (cons_ok k Hk) as Hbody. rewrite Efn in Hbody.
    pose proof (bind_params_sim args k (fparams fd) 0 args e genv X B sc HS HB) as Hb.
    destruct (bind_params false mt args k 0 (fparams fd) args e genv sc) as [[ce st1]|er] eqn:Ebind.
    2:{ rewrite Hb. split; [reflexivity|intros sc' H; discriminate H]. }
    destruct Hb as (Bn & Hbe & HBt & Hlen & Hfb1 & Hbn & HR). rewrite Hbe. cbn [bind lift0].
    destruct (bind_params_copy_spec _ _ _ _ _ _ _ _ _ _ _ _ Ebind HS) as (B1 & _ & B3 & B4 & B5 & B6 & B7).
    pose proof (ai_fb _ _ _ _ HA) as [Fb1 Fb2].
    destruct (bind_params_inj _ _ _ _ _ _ _ _ _ _ _ (length (vars sc)) Ebind (le_n _)
                (ai_lt _ _ _ _ HA)
                (fun x a Hx => Nat.lt_le_trans _ _ _ (genv_lt _ _ Hx) (Nat.le_trans _ _ _ Fb1 Fb2))
                (fun x y a Hx Hy Ha => False_ind _ (Nat.lt_irrefl _ (Nat.lt_le_trans _ _ _ (genv_lt _ _ Hx) (Nat.le_trans _ _ _ (Nat.le_trans _ _ _ Fb1 Fb2) Ha)))))
      as [Hclt Hcinj].
    set (BBt := Bn ++ B) in *. set (saved := tmps st1).
    assert (Esaved : tmps (patch BBt st1) = saved) by reflexivity. rewrite Esaved.
    set (st1' := set_fbase (set_tmps st1 []) (length (vars sc))).
    change (set_fbase (set_tmps (patch BBt st1) []) (length (vars sc))) with (patch BBt st1').
    assert (S1' : Sep (saved ++ X) st1') by (apply (Sep_perm X (saved ++ X) st1 st1'); auto).
    assert (B1' : Binv BBt st1') by (eapply Binv_keeps; [exact HBt|]; intros; split; (split; [reflexivity|intros; reflexivity])).
    assert (A1' : Ainv (Some k) BBt ce st1').
    { eapply (callee_Ainv c B e sc k fd args ce st1' Bn); eauto. }
    assert (He1 : env_ok genv ce st1').
    { destruct He as [He1 He2]. split; [|exact B7]. cbn. intros ad Ha. apply B6 in Ha.
      destruct Ha as [Ha|[Ha|Ha]]; [apply He2 in Ha; apply He1 in Ha; lia| |lia].
      apply ref_addrs_in in Ha. apply He1 in Ha. lia. }
    destruct (Hsim (Some k) BBt ce (fbody fd) st1' (saved ++ X) S1' eq_refl B1' A1' He1 Hbody) as [Hbd Hbk].
    rewrite Hbd.
    destruct (exF ce (fbody fd) st1') as [st2|er] eqn:Ebody; [|split; [reflexivity|intros sc' H; discriminate H]].
    cbn [lift0 bind].
    pose proof (Hok _ _ _ _ _ Ebody S1' eq_refl He1) as (C1 & C2 & C3 & C4). cbn in C3.
    assert (B2 : Binv BBt st2) by (eapply Binv_keeps; [exact B1'|]; intros b Hb; apply (Hbk _ eq_refl b Hb)).
    rewrite (ret_value_patch (saved ++ X)) by auto.
    destruct (ret_value ce (fret fd) st2) as [[result st6]|er] eqn:Eret; [|split; [reflexivity|intros sc' H; discriminate H]].
    cbn [lift1 bind].
    destruct (ret_value_spec _ _ _ _ _ _ Eret C1 C2) as (Y & R1 & R2 & R3 & R4 & R5).
    assert (B6' : Binv BBt st6).
    { eapply Binv_keeps; eauto. intros b Hb. destruct (Binv_lt _ _ _ B2 Hb). split; apply R4; auto. }
    unfold exit_frame. cbn [vars patch set_heap].
    assert (Hbase : length (vars sc) + (length (vars st6) - length (vars sc)) = length (vars st6)) by lia.
    assert (Hal : forall b, In b BBt -> b_al b < length (vars sc)).
    { intros b Hb. unfold BBt in Hb. apply in_app_or in Hb. destruct Hb as [Hb|Hb].
      - destruct (Hbn b Hb) as (_ & _ & [K|(x & Lx & _)]).
        + apply in_map_iff in K. destruct K as (b0 & E0 & H0). destruct (Binv_lt _ _ _ HB H0). lia.
        + apply (ai_lt _ _ _ _ HA) in Lx. auto.
      - destruct (Binv_lt _ _ _ HB Hb). auto. }
    rewrite (exit_from_sim _ _ (Y ++ saved ++ X) BBt st6 (length (vars sc))) by auto.
    assert (Efil : filter (fun b => Nat.ltb (b_pa b) (length (vars sc))) BBt = B).
    { apply filter_borrows.
      - intros b Hb. destruct (Hbn b Hb) as (K & _). exact K.
      - intros b Hb. destruct (Binv_lt _ _ _ HB Hb). auto. }
    rewrite Efil.
    destruct (exit_from (length (vars st6) - length (vars sc)) (length (vars sc)) st6) as [st7|er] eqn:Eexit;
      [|split; [reflexivity|intros sc' H; discriminate H]].
    cbn [lift0 bind].
    destruct (exit_from_copy_spec _ _ _ _ _ Eexit R1 Hbase) as (F1 & F2 & F3 & F4 & F5).
    assert (K7 : forall b, In b B -> keeps sc st7 (b_pa b) /\ keeps sc st7 (b_al b)).
    { intros b Hb. destruct (Binv_lt _ _ _ HB Hb) as [L1 L2].
      assert (HbT : In b BBt) by (unfold BBt; apply in_or_app; auto).
      destruct (Hbk _ eq_refl b HbT) as [Q1 Q2].
      split.
      - eapply keeps_trans; [apply B5; auto|]. eapply keeps_trans with (s2 := st1'); [split; auto|].
        eapply keeps_trans; [exact Q1|]. eapply keeps_trans; [apply R4; lia|apply F5; auto].
      - eapply keeps_trans; [apply B5; auto|]. eapply keeps_trans with (s2 := st1'); [split; auto|].
        eapply keeps_trans; [exact Q2|]. eapply keeps_trans; [apply R4; lia|apply F5; auto]. }
    change (fbase (patch B sc)) with (fbase sc).
    set (st7r := set_fbase st7 (fbase sc)).
    change (set_fbase (patch B st7) (fbase sc)) with (patch B st7r).
    assert (F1r : Sep (Y ++ saved ++ X) st7r) by (apply (Sep_perm (Y ++ saved ++ X) (Y ++ saved ++ X) st7 st7r); auto).
    assert (K7r : forall b, In b B -> keeps sc st7r (b_pa b) /\ keeps sc st7r (b_al b)).
    { intros b Hb. destruct (K7 b Hb) as [[Q1 Q2] [Q3 Q4]]. split; split; auto. }
    assert (B7r : Binv B st7r) by (eapply Binv_keeps; [exact HB|exact K7r]).
    rewrite !call_finish_resume.
    assert (F2' : tmps st7r = []) by (cbn; congruence).
    destruct (resume_spec X saved result Y st7r F1r F2' R5) as (S9 & V9 & H9 & O9 & Rv9).
    assert (Eres : resume saved result (patch B st7r) = patch B (resume saved result st7r)).
    { unfold resume. destruct result as [[z|l t]|]; reflexivity. }
    rewrite Eres.
    assert (B9 : Binv B (resume saved result st7r)).
    { eapply Binv_keeps; [exact B7r|]. intros b Hb. split; (split; [rewrite V9; auto|intros; rewrite H9; auto]). }
    assert (K9 : forall b, In b B -> keeps sc (resume saved result st7r) (b_pa b) /\ keeps sc (resume saved result st7r) (b_al b)).
    { intros b Hb. destruct (K7r b Hb) as [Q1 Q2].
      split; (eapply keeps_trans; [eassumption|]; split; [rewrite V9; auto|intros; rewrite H9; auto]). }
    destruct dst as [d|].
    - destruct result as [v|]; [|split; [reflexivity|intros sc' H; discriminate H]].
      destruct (lookup e d) as [ad|] eqn:Ed; [|split; [reflexivity|intros sc' H; discriminate H]].
      assert (Hsafe : safe_addr B ad).
      { destruct (ai_safe _ _ _ _ HA _ _ Ed) as [Hs|Hc]; [exact Hs|]. rewrite (Hdst d eq_refl) in Hc. discriminate Hc. }
      rewrite (store_value_patch X) by auto.
      destruct (store_value ad v (resume saved (Some v) st7r)) as [st10|er] eqn:Est; [|split; [reflexivity|intros sc' H; discriminate H]].
      cbn [lift0 bind].
      destruct (store_value_spec _ _ _ _ _ S9 (Rv9 v eq_refl) Est) as (V1 & V2 & V3 & V4 & V5).
      assert (K10 : forall b, In b B -> keeps sc st10 (b_pa b) /\ keeps sc st10 (b_al b)).
      { intros b Hb. destruct (K9 b Hb) as [Q1 Q2]. destruct Hsafe as [N1 N2].
        split; (eapply keeps_trans; [eassumption|]); apply V5; intros E; [apply N1|apply N2]; rewrite <- E; apply in_map; auto. }
      assert (B10 : Binv B st10) by (eapply Binv_keeps; [exact HB|exact K10]).
      split; [apply (end_stmt_patch X); auto|].
      intros sc' Hend b Hb. destruct (end_stmt_spec _ _ _ V1 Hend) as (T1 & T2 & T3 & T4 & T5).
      destruct (K10 b Hb). split; eapply keeps_trans; eauto.
    - split; [apply (end_stmt_patch X); auto|].
      intros sc' Hend b Hb. destruct (end_stmt_spec _ _ _ S9 Hend) as (T1 & T2 & T3 & T4 & T5).
      destruct (K9 b Hb). split; eapply keeps_trans; eauto.
  Qed.

  Lemma for_loop_sim : forall exT exF c B x body e cs sc X,
    ex_sim exT exF -> ex_ok genv exF -> ex_fb exF ->
    Sep X sc -> tmps sc = [] -> Binv B sc -> Ainv c B e sc -> env_ok genv e sc ->
    all_stmts (stmt_cons_b mt funs c) body = true ->
    for_loop exT x body e cs (patch B sc) = lift0 B (for_loop exF x body e cs sc) /\
    (forall sc', for_loop exF x body e cs sc = Ok sc' ->
       forall b, In b B -> keeps sc sc' (b_pa b) /\ keeps sc sc' (b_al b)).
  Proof.
    intros exT exF c B x body e cs. induction cs as [|z cs IH]; intros sc X Hsim Hok Hfb HS Ht HB HA He Hbody; cbn [for_loop].
    - split; [reflexivity|]. intros sc' H b Hb. inv H. split; apply keeps_refl.
    - destruct (new_var (VInt z) sc) as [a st1] eqn:En. rewrite (new_var_patch _ _ _ _ _ En).
      pose proof (Sep_new_var_int _ _ _ _ _ HS En) as S1.
      pose proof (new_var_fbase _ _ _ _ En) as Fb1.
      pose proof (new_var_spec _ _ _ _ En) as (-> & N2 & N3 & N4 & N5).
      assert (L1 : length (vars sc) < length (vars st1)) by (rewrite N2, app_length; cbn; lia).
      pose proof (Binv_new_var _ _ _ _ _ HB En) as B1.
      pose proof (Ainv_decl _ _ _ _ st1 x HA HB L1 Fb1) as A1.
      pose proof (env_ok_decl genv _ _ st1 x He L1) as He1.
      destruct (Hsim c B _ body st1 X S1 (eq_trans N4 Ht) B1 A1 He1 Hbody) as [Hbd Hbk].
      rewrite Hbd. destruct (exF ((x, length (vars sc)) :: e) body st1) as [st2|er] eqn:Eb;
        [|split; [reflexivity|intros sc' H; discriminate H]].
      cbn [lift0 bind].
      pose proof (Hok _ _ _ _ _ Eb S1 (eq_trans N4 Ht) He1) as (C1 & C2 & C3 & C4).
      assert (B2 : Binv B st2) by (eapply Binv_keeps; [exact B1|]; intros b Hb; apply (Hbk _ eq_refl b Hb)).
      assert (L2 : length (vars sc) <= length (vars st2)) by lia.
      assert (F2 : fbase st2 = fbase sc) by (rewrite (Hfb _ _ _ _ Eb); exact Fb1).
      destruct (IH st2 X Hsim Hok Hfb C1 C2 B2 (Ainv_mono _ _ _ _ _ HA L2 F2) (env_ok_mono _ _ _ _ He L2) Hbody) as [I1 I2].
      split; [exact I1|].
      intros sc' H b Hb. destruct (Binv_lt _ _ _ HB Hb). destruct (Hbk _ eq_refl b Hb). destruct (I2 _ H b Hb).
      split; (eapply keeps_trans; [eapply new_var_keeps; eauto|]; eapply keeps_trans; eauto).
  Qed.

  Theorem exec_sim : forall fuel, ex_sim (exec true mt funs genv fuel) (exec false mt funs genv fuel).
  Proof.
    induction fuel as [|fuel IH]; intros c B e ss sc X HS Ht HB HA He Hss; cbn [exec].
    { split; [reflexivity|intros sc' H; discriminate H]. }
    pose proof (exec_copy_ok mt funs genv fuel) as Hok.
    assert (Hfb : ex_fb (exec false mt funs genv fuel)) by (intros e0 ss0 s s' H; eapply exec_fbase; eauto).
    destruct ss as [|s rest].
    { split; [reflexivity|]. intros sc' H b Hb. inv H. split; apply keeps_refl. }
    destruct (all_stmts_cons _ _ _ Hss) as [Hs Hrest]. pose proof (all_stmt_head _ _ Hs) as Hhd.
    assert (Tail : forall e1 sc1,
               Sep X sc1 -> tmps sc1 = [] -> Ainv c B e1 sc1 -> env_ok genv e1 sc1 ->
               (forall b, In b B -> keeps sc sc1 (b_pa b) /\ keeps sc sc1 (b_al b)) ->
               exec true mt funs genv fuel e1 rest (patch B sc1) = lift0 B (exec false mt funs genv fuel e1 rest sc1) /\
               (forall sc', exec false mt funs genv fuel e1 rest sc1 = Ok sc' ->
                  forall b, In b B -> keeps sc sc' (b_pa b) /\ keeps sc sc' (b_al b))).
    { intros e1 sc1 S1 T1 A1 E1 K1.
      assert (B1 : Binv B sc1) by (eapply Binv_keeps; [exact HB|exact K1]).
      destruct (IH c B e1 rest sc1 X S1 T1 B1 A1 E1 Hrest) as [I1 I2]. split; [exact I1|].
      intros sc' H b Hb. destruct (K1 b Hb). destruct (I2 _ H b Hb). split; eapply keeps_trans; eauto. }
    assert (Wsafe : forall x a, lookup e x = Some a -> cname c x = false -> safe_addr B a).
    { intros x a Lx Wx. destruct (ai_safe _ _ _ _ HA _ _ Lx) as [Hs0|Hc]; [exact Hs0|congruence]. }
    assert (Ksafe : forall x a sc1, lookup e x = Some a -> cname c x = false ->
               (forall b, b < length (vars sc) -> ~ (b = a) -> keeps sc sc1 b) ->
               forall b, In b B -> keeps sc sc1 (b_pa b) /\ keeps sc sc1 (b_al b)).
    { intros x a sc1 Lx Wx K b Hb. destruct (Wsafe _ _ Lx Wx) as [N1 N2].
      destruct (Binv_lt _ _ _ HB Hb). split; apply K; auto; intros E; [apply N1|apply N2]; rewrite <- E; apply in_map; auto. }
    assert (Kall : forall sc1, (forall b, b < length (vars sc) -> ~ False -> keeps sc sc1 b) ->
               forall b, In b B -> keeps sc sc1 (b_pa b) /\ keeps sc sc1 (b_al b)).
    { intros sc1 K b Hb. destruct (Binv_lt _ _ _ HB Hb). split; apply K; auto. }
    destruct s as [x ex|x ex|x i v|ex|dst f args|cnd th el|x ex body].
    - (* SDecl *)
      rewrite (do_decl_patch X) by auto.
      destruct (do_decl e x ex sc) as [[e' st1]|er] eqn:Ed; [|split; [reflexivity|intros sc' H; discriminate H]].
      cbn [lift1 bind].
      pose proof (do_decl_fbase _ _ _ _ _ _ Ed) as Fb.
      destruct (do_decl_spec _ _ _ _ _ _ _ Ed HS) as ((D1 & D2 & D3 & D4) & -> & D5 & D6).
      apply Tail; auto.
      + eapply Ainv_decl; eauto. lia.
      + eapply env_ok_decl; eauto. lia.
    - (* SAssign *)
      assert (Hw : cname c x = false) by (unfold stmt_cons_b, chk in Hhd; apply negb_true_iff in Hhd; exact Hhd).
      assert (Hsafe : forall a, lookup e x = Some a -> safe_addr B a) by (intros a La; eapply Wsafe; eauto).
      rewrite (do_assign_patch X) by auto.
      destruct (do_assign e x ex sc) as [st1|er] eqn:Ed; [|split; [reflexivity|intros sc' H; discriminate H]].
      cbn [lift0 bind].
      pose proof (do_assign_fbase _ _ _ _ _ Ed) as Fb.
      destruct (do_assign_spec _ _ _ _ _ _ Ed HS Ht) as (a & La & (D1 & D2 & D3 & D4) & D5).
      apply Tail; auto.
      + eapply Ainv_mono; eauto.
      + eapply env_ok_mono; eauto.
      + eapply Ksafe; eauto.
    - (* SAssignIdx *)
      assert (Hw : cname c x = false) by (unfold stmt_cons_b, chk in Hhd; apply negb_true_iff in Hhd; exact Hhd).
      assert (Hsafe : forall a, lookup e x = Some a -> safe_addr B a) by (intros a La; eapply Wsafe; eauto).
      rewrite (do_assign_idx_patch X) by auto.
      destruct (do_assign_idx e x i v sc) as [st1|er] eqn:Ed; [|split; [reflexivity|intros sc' H; discriminate H]].
      cbn [lift0 bind].
      pose proof (do_assign_idx_fbase _ _ _ _ _ _ Ed) as Fb.
      destruct (do_assign_idx_spec _ _ _ _ _ _ _ Ed HS) as (a & La & (D1 & D2 & D3 & D4) & D5).
      apply Tail; auto.
      + eapply Ainv_mono; eauto.
      + eapply env_ok_mono; eauto.
      + eapply Ksafe; eauto.
    - (* SPrint *)
      rewrite (do_print_patch X) by auto.
      destruct (do_print e ex sc) as [st1|er] eqn:Ed; [|split; [reflexivity|intros sc' H; discriminate H]].
      cbn [lift0 bind].
      pose proof (do_print_fbase _ _ _ _ Ed) as Fb.
      destruct (do_print_spec _ _ _ _ _ Ed HS) as ((D1 & D2 & D3 & D4) & D5).
      apply Tail; auto.
      + eapply Ainv_mono; eauto.
      + eapply env_ok_mono; eauto.
    - (* SCall *)
      assert (Hsim : ex_sim (exec true mt funs genv fuel) (exec false mt funs genv fuel)) by exact IH.
      destruct (do_call_sim _ _ c B e dst f args sc X Hsim Hok HS Ht HB HA He Hhd) as [Hc1 Hc2].
      rewrite Hc1.
      destruct (do_call false mt funs genv (exec false mt funs genv fuel) e dst f args sc) as [st1|er] eqn:Ed;
        [|split; [reflexivity|intros sc' H; discriminate H]].
      cbn [lift0 bind].
      pose proof (do_call_fbase _ _ _ _ _ _ _ _ _ _ _ Ed) as Fb.
      destruct (do_call_copy_spec _ _ _ _ _ _ _ _ _ _ _ Hok Ed HS Ht He) as ((D1 & D2 & D3 & D4) & _).
      apply Tail; auto.
      + eapply Ainv_mono; eauto.
      + eapply env_ok_mono; eauto.
    - (* SIf *)
      destruct (all_stmt_if _ _ _ _ Hs) as [Hth Hel].
      rewrite (do_cond_patch X) by auto.
      destruct (do_cond e cnd sc) as [[bv st1]|er] eqn:Ed; [|split; [reflexivity|intros sc' H; discriminate H]].
      cbn [lift1 bind].
      pose proof (do_cond_fbase _ _ _ _ _ Ed) as Fb.
      destruct (do_cond_spec _ _ _ _ _ _ Ed HS) as ((D1 & D2 & D3 & D4) & D5 & D6).
      assert (K1 : forall b, In b B -> keeps sc st1 (b_pa b) /\ keeps sc st1 (b_al b)) by (apply Kall; auto).
      assert (B1 : Binv B st1) by (eapply Binv_keeps; [exact HB|exact K1]).
      assert (Hbr : all_stmts (stmt_cons_b mt funs c) (if bv then th else el) = true) by (destruct bv; auto).
      destruct (IH c B e (if bv then th else el) st1 X D1 D2 B1 (Ainv_mono _ _ _ _ _ HA D3 Fb) (env_ok_mono _ _ _ _ He D3) Hbr) as [I1 I2].
      rewrite I1.
      destruct (exec false mt funs genv fuel e (if bv then th else el) st1) as [st2|er] eqn:Eb;
        [|split; [reflexivity|intros sc' H; discriminate H]].
      cbn [lift0 bind].
      pose proof (Hok _ _ _ _ _ Eb D1 D2 (env_ok_mono _ _ _ _ He D3)) as (C1 & C2 & C3 & C4).
      assert (L2 : length (vars sc) <= length (vars st2)) by lia.
      assert (F2 : fbase st2 = fbase sc) by (rewrite (Hfb _ _ _ _ Eb); exact Fb).
      apply Tail; auto.
      + eapply Ainv_mono; eauto.
      + eapply env_ok_mono; eauto.
      + intros b Hb. destruct (K1 b Hb). destruct (I2 _ eq_refl b Hb). split; eapply keeps_trans; eauto.
    - (* SFor *)
      pose proof (all_stmt_for _ _ _ _ Hs) as Hbody.
      rewrite (for_init_patch X) by auto.
      destruct (for_init e ex sc) as [[[lc cs] st1]|er] eqn:Ed; [|split; [reflexivity|intros sc' H; discriminate H]].
      cbn [lift1 bind].
      pose proof (for_init_fbase _ _ _ _ _ _ Ed) as Fb.
      destruct (for_init_spec _ _ _ _ _ _ _ Ed HS) as ((D1 & D2 & D3 & D4) & D5 & D6).
      assert (K1 : forall b, In b B -> keeps sc st1 (b_pa b) /\ keeps sc st1 (b_al b)) by (apply Kall; auto).
      assert (B1 : Binv B st1) by (eapply Binv_keeps; [exact HB|exact K1]).
      assert (Hsim : ex_sim (exec true mt funs genv fuel) (exec false mt funs genv fuel)) by exact IH.
      destruct (for_loop_sim _ _ c B x body e cs st1 (lc :: X) Hsim Hok Hfb D1 D2 B1 (Ainv_mono _ _ _ _ _ HA D3 Fb) (env_ok_mono _ _ _ _ He D3) Hbody) as [I1 I2].
      rewrite I1.
      destruct (for_loop (exec false mt funs genv fuel) x body e cs st1) as [st2|er] eqn:El;
        [|split; [reflexivity|intros sc' H; discriminate H]].
      cbn [lift0 bind].
      pose proof (for_loop_spec _ _ _ _ _ _ _ _ _ Hok El D1 D2 (env_ok_mono _ _ _ _ He D3)) as (C1 & C2 & C3 & C4).
      pose proof (for_loop_fbase _ _ _ _ _ _ _ Hfb El) as F2.
      assert (K2 : forall b, In b B -> keeps sc st2 (b_pa b) /\ keeps sc st2 (b_al b)).
      { intros b Hb. destruct (K1 b Hb). destruct (I2 _ eq_refl b Hb). split; eapply keeps_trans; eauto. }
      assert (B2 : Binv B st2) by (eapply Binv_keeps; [exact HB|exact K2]).
      assert (Hlc : live st2 lc) by (apply (sep_xlive _ _ C1); rewrite in_middle; auto).
      assert (Nlc : ~ In lc (map b_lc B)).
      { eapply (owner_loc (lc :: X)); eauto. rewrite in_middle. auto. }
      rewrite free_patch by auto.
      destruct (free lc st2) as [st3|er] eqn:Ef; [|split; [reflexivity|intros sc' H; discriminate H]].
      cbn [lift0 bind].
      pose proof (Sep_free_x _ _ _ _ C1 Ef) as S3.
      pose proof (free_ok _ _ _ Ef Hlc) as (F1 & F2' & F3 & F4 & F5).
      pose proof (free_fbase _ _ _ Ef) as F6.
      assert (L3 : length (vars sc) <= length (vars st3)) by (rewrite F3; lia).
      apply Tail; auto.
      + congruence.
      + eapply Ainv_mono; eauto. congruence.
      + eapply env_ok_mono; eauto.
      + intros b Hb. destruct (K2 b Hb). split; (eapply keeps_trans; [eassumption|]; eapply free_x_keeps; eauto).
  Qed.
End Full.

(* ---------------------------------------------------------------------------------------------- *)
Lemma lookup_in_pair : forall e x a, lookup e x = Some a -> In (x, a) e.
Proof.
  induction e as [|[y b] e IH]; cbn; intros x a H; [discriminate H|].
  destruct (Nat.eqb_spec y x) as [->|N]; [inv H; auto|right; auto].
Qed.

Lemma init_globals_lt : forall gs e st e' st',
  init_globals gs e st = Ok (e', st') -> Sep [] st -> tmps st = [] ->
  (forall x a, In (x, a) e -> a < length (vars st)) ->
  (forall x a, In (x, a) e' -> a < length (vars st')).
Proof.
  induction gs as [|[x ex] gs IH]; intros e st e' st' H HS Ht Hlt; cbn in H.
  - inv H. auto.
  - bind_as H r Hd H. destruct r as [e1 st1].
    destruct (do_decl_spec _ _ _ _ _ _ _ Hd HS) as ((A1 & A2 & A3 & A4) & -> & D3 & D4).
    eapply (IH _ _ _ _ H A1 A2). intros y a [E|Hin]; [inv E; lia|]. apply Hlt in Hin. lia.
Qed.

Lemma lift0_nil : forall r, lift0 [] r = r.
Proof. intros [s|er]; cbn; [rewrite patch_nil|]; auto. Qed.

(* elision_sound: the -O2 parameter-copy elision of the repaired compiler never changes the behaviour *)
Theorem elision_sound : forall fuel p, run_elide fuel p = run_copy fuel p.
Proof.
  intros fuel p. unfold run_elide, run_copy, run.
  destruct (init_globals (pglobals p) [] st0) as [[ge st]|er] eqn:Ei; [|reflexivity]. cbn [bind].
  set (mt := analyse (pfuns p)).
  destruct (init_globals_spec _ _ _ _ _ Ei Sep_st0 eq_refl (fun a (F : In a []) => match F with end)) as (S1 & T1 & L1 & O1).
  pose proof (init_globals_lt _ _ _ _ _ Ei Sep_st0 eq_refl (fun x a (F : In (x, a) []) => match F with end)) as N2.
  set (gbase := length (vars st)).
  assert (Glt : forall g a, lookup ge g = Some a -> a < gbase).
  { intros g a Hg. apply lookup_in_pair in Hg. eapply N2; eauto. }
  set (stm := set_fbase st gbase).
  assert (S1m : Sep [] stm) by (apply (Sep_perm [] [] st stm); auto).
  assert (HA : Ainv mt (pfuns p) gbase None [] ge stm).
  { constructor.
    - intros x a Hx. apply Glt in Hx. exact Hx.
    - intros x a Hx. left. split; intros [].
    - intros x y a Hx Hy Hb. apply Glt in Hx. cbn in Hb. lia.
    - cbn. unfold gbase. split; lia.
    - intros b []. }
  assert (He : env_ok ge ge stm).
  { split; [intros a Ha; apply L1; auto|apply incl_refl]. }
  destruct (exec_sim mt (pfuns p) ge gbase Glt (analyse_consistent (pfuns p)) fuel None [] ge (pmain p) stm []
              S1m T1 (Binv_nil stm) HA He (main_consistent mt (pfuns p) (pmain p))) as [Heq _].
  rewrite patch_nil, lift0_nil in Heq. change (set_fbase st (length (vars st))) with stm. rewrite Heq. reflexivity.
Qed.
