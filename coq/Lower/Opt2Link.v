(* C11 — model of symbol resolution under the two linking modes of kddp (definitions only).

   compiler/interface.go:130-273, cmd/kddp/build_cmd.go:188-189, cmd/internal/linker/link.go.
   --module-linken=true   every DDP module is compiled to LLVM IR and all of them are merged into the main module by
                          llvm.LinkModules (llvmLinkAllModules) BEFORE code generation: one object.
   --module-linken=false  only the given file is compiled; every imported module becomes an object of its own (compiled
                          with the same flags) and the system linker puts them together.
   --list-defs-linken=true   the definitions of the built-in list functions (parsed from ddp_list_types_defs.ll) are
                             merged into the main IR module; =false: every module only declares them
                             (compiler.go:345-354 setupListTypes(true)) and the prebuilt object ddp_list_types_defs.o is
                             added to the link line.

   A module is an association list symbol -> definition (with an abstract body id) | declaration.  Two tools resolve
   references:
   * the IR linker: a module's reference to a name it defines itself stays bound to that definition (anonymous and
     private values are renamed on collision; two EXTERNAL definitions of one name are rejected: `link_ok`), any other
     reference is bound to the first definition among the merged modules;
   * the system linker: EVERY reference to a global symbol — also one to a symbol the object defines itself — is bound
     to the first definition in command-line order (a second strong definition is rejected: `link_ok`; with
     -Wl,--allow-multiple-definition it is ignored, which is the semantics `ld_resolve` has). *)
From Coq Require Import List NArith Bool.
Import ListNotations.

Definition sym := N.     (* a (mangled) symbol name *)
Definition body := N.    (* what a definition is: an abstract body id *)

Inductive entry := Def (b : body) | Decl.
Definition module := list (sym * entry).

Inductive mod_mode := MLinked | MSeparate.
Inductive list_mode := LLinked | LExternal.
Definition mode := (mod_mode * list_mode)%type.

Record program := {
  p_main : module;            (* the file given to kddp *)
  p_imports : list module;    (* every module of its transitive import closure *)
  p_lists_src : module;       (* the list functions as the compiler links them in (ddp_list_types_defs.ll) *)
  p_lists_obj : module        (* the prebuilt object ddp_list_types_defs.o *)
}.

Definition p_modules (p : program) : list module := p_main p :: p_imports p.

(* the definition of s in one module *)
Fixpoint find_def (m : module) (s : sym) : option body :=
  match m with
  | [] => None
  | (s', Def b) :: m' => if N.eqb s s' then Some b else find_def m' s
  | (_, Decl) :: m' => find_def m' s
  end.

(* the symbols a module defines *)
Definition defs (m : module) : list sym :=
  flat_map (fun e => match snd e with Def _ => [fst e] | Decl => [] end) m.

(* the first definition of s in a sequence of modules / objects *)
Fixpoint first_def (ms : list module) (s : sym) : option body :=
  match ms with
  | [] => None
  | m :: ms' => match find_def m s with Some b => Some b | None => first_def ms' s end
  end.

(* the symbol table of the IR module llvm.LinkModules produces: destination first, definitions beat declarations *)
Definition ir_link (ms : list module) : module := concat ms.

(* a reference from module r inside a merged IR module *)
Definition ir_resolve (ms : list module) (r : module) (s : sym) : option body :=
  match find_def r s with Some b => Some b | None => first_def ms s end.

(* a reference resolved by the system linker over the objects of the link line *)
Definition ld_resolve (objs : list module) (s : sym) : option body := first_def objs s.

(* what a reference to s from module r is bound to in the finished executable *)
Definition resolve (md : mode) (p : program) (r : module) (s : sym) : option body :=
  match md with
  | (MLinked, LLinked) =>
      (* interface.go:218-247: main, every import and the list definitions in one IR module *)
      ir_resolve (p_main p :: p_imports p ++ [p_lists_src p]) r s
  | (MLinked, LExternal) =>
      (* one IR module of main and imports; what it leaves undefined comes from ddp_list_types_defs.o *)
      match ir_resolve (p_main p :: p_imports p) r s with
      | Some b => Some b
      | None => ld_resolve [p_lists_obj p] s
      end
  | (MSeparate, LLinked) =>
      (* interface.go:158-170: the list definitions are merged into the main object only; the other objects follow *)
      ld_resolve (ir_link [p_main p; p_lists_src p] :: p_imports p) s
  | (MSeparate, LExternal) =>
      ld_resolve (p_main p :: p_imports p ++ [p_lists_obj p]) s
  end.

(* the units whose external definitions must be pairwise distinct for both tools to accept the program *)
Definition arrangement (md : mode) (p : program) : list module :=
  match md with
  | (MLinked, LLinked) => p_main p :: p_imports p ++ [p_lists_src p]
  | (MLinked, LExternal) => p_main p :: p_imports p ++ [p_lists_obj p]
  | (MSeparate, LLinked) => p_main p :: p_lists_src p :: p_imports p
  | (MSeparate, LExternal) => p_main p :: p_imports p ++ [p_lists_obj p]
  end.

Fixpoint nodupb (l : list sym) : bool :=
  match l with
  | [] => true
  | x :: l' => negb (existsb (N.eqb x) l') && nodupb l'
  end.

(* neither the IR linker ("symbol multiply defined") nor the system linker ("multiple definition of") rejects it *)
Definition link_ok (md : mode) (p : program) : bool := nodupb (flat_map defs (arrangement md p)).

(* Well-formedness: the hypotheses of link_mode_irrelevant.
   wf_inj_*: no symbol is defined twice — not inside a module, not by two modules, not by a module and the list
   runtime.  For mangled names this is injectivity of (module, name) |-> symbol (C10: Mod/MangleProofs.v
   mangled_distinct_plain; see Opt2LinkProofs.injective_mangling_nodup).
   wf_lists_same: the prebuilt object holds the definitions the compiler would link in (tools/buildrepo.sh and the
   upstream Makefile build both from the same `kddp dump-list-defs`). *)
Record wf (p : program) : Prop := {
  wf_inj_src : NoDup (flat_map defs (p_main p :: p_imports p ++ [p_lists_src p]));
  wf_inj_obj : NoDup (flat_map defs (p_main p :: p_imports p ++ [p_lists_obj p]));
  wf_lists_same : forall s, find_def (p_lists_obj p) s = find_def (p_lists_src p) s
}.

(* every declared symbol has a definition somewhere (no "undefined reference") *)
Definition declared (m : module) (s : sym) : Prop := In (s, Decl) m.
Definition closed (p : program) : Prop :=
  forall m s, In m (p_modules p) -> declared m s ->
    exists m', In m' (p_modules p ++ [p_lists_src p]) /\ find_def m' s <> None.

(* ---- a concrete program: main imports A and B; A imports B -------------------------------------------------------- *)
(* symbols: 0 ddp_ddpmain, 1 ddp_free_ddpintlist, 2 ddp_deep_copy_ddpintlist, 10 f_mod_A, 11 g_mod_B, 12 v_mod_B,
   20 ddp_A_init, 21 ddp_B_init, 30 ddp_main_init *)
Definition ex_lists : module := [(1, Def 50); (2, Def 51)]%N.
Definition ex_main : module := [(0, Def 100); (30, Def 130); (1, Decl); (2, Decl); (10, Decl); (11, Decl); (20, Decl); (21, Decl)]%N.
Definition ex_A : module := [(20, Def 120); (10, Def 110); (11, Decl); (12, Decl); (1, Decl); (21, Decl)]%N.
Definition ex_B : module := [(21, Def 121); (11, Def 111); (12, Def 112); (2, Decl)]%N.
Definition ex_prog : program := {| p_main := ex_main; p_imports := [ex_A; ex_B]; p_lists_src := ex_lists; p_lists_obj := ex_lists |}.

(* ---- programs that violate a hypothesis --------------------------------------------------------------------------- *)
(* two modules define symbol 6 (what happens to the anonymous string constants `__unnamed_6` of two DDP objects
   compiled without any LLVM pass: compiler.go:796 gives them external linkage and no name) *)
Definition bad_M1 : module := [(6, Def 601)]%N.
Definition bad_M2 : module := [(6, Def 602); (7, Def 700)]%N.
Definition bad_prog : program := {| p_main := []; p_imports := [bad_M1; bad_M2]; p_lists_src := ex_lists; p_lists_obj := ex_lists |}.
(* the prebuilt object differs from what the compiler links in *)
Definition stale_prog : program := {| p_main := [(1, Decl)]%N; p_imports := []; p_lists_src := ex_lists; p_lists_obj := [(1, Def 99); (2, Def 51)]%N |}.
