(* C11 — proofs about Lower/Opt2Link.v: under injective symbol names and identical list definitions the linking mode
   does not change what a reference is bound to; both tools accept the program; the order in which the IR linker is
   handed the modules (a Go map iteration, interface.go:246 mapToSlice) is irrelevant; and the hypotheses are needed. *)
From Coq Require Import List NArith Bool Permutation.
Import ListNotations.
From DDP Require Import Lower.Opt2Link.

(* ---- lists ---------------------------------------------------------------------------------------------------------- *)
Lemma NoDup_app_l {A} (l l' : list A) : NoDup (l ++ l') -> NoDup l.
Proof.
  induction l as [|a l IH]; cbn [app]; intros H.
  - constructor.
  - inversion H as [|x xs Hn Hd]; subst. constructor.
    + intros Hin. apply Hn. apply in_or_app. now left.
    + now apply IH.
Qed.

Lemma NoDup_app_r {A} (l l' : list A) : NoDup (l ++ l') -> NoDup l'.
Proof.
  induction l as [|a l IH]; cbn [app]; intros H.
  - exact H.
  - inversion H; subst. now apply IH.
Qed.

Lemma NoDup_app_disjoint {A} (l l' : list A) x : NoDup (l ++ l') -> In x l -> In x l' -> False.
Proof.
  induction l as [|a l IH]; cbn [app]; intros H Hl Hl'.
  - destruct Hl.
  - inversion H as [|y ys Hn Hd]; subst. destruct Hl as [->|Hl].
    + apply Hn. apply in_or_app. now right.
    + now apply IH.
Qed.

Lemma NoDup_app_intro {A} (l l' : list A) :
  NoDup l -> NoDup l' -> (forall x, In x l -> In x l' -> False) -> NoDup (l ++ l').
Proof.
  induction l as [|a l IH]; cbn [app]; intros Hl Hl' Hd.
  - exact Hl'.
  - inversion Hl as [|y ys Hn Hnd]; subst. constructor.
    + intros Hin. apply in_app_or in Hin. destruct Hin as [Hin|Hin].
      * now apply Hn.
      * apply (Hd a); [now left | exact Hin].
    + apply IH; [exact Hnd | exact Hl' |]. intros x Hx Hx'. apply (Hd x); [now right | exact Hx'].
Qed.

(* ---- one module ------------------------------------------------------------------------------------------------------ *)
Lemma find_def_in_defs m s b : find_def m s = Some b -> In s (defs m).
Proof.
  induction m as [|[s' [b'|]] m IH]; cbn [find_def]; intros H.
  - discriminate H.
  - unfold defs. cbn [flat_map snd fst app]. destruct (N.eqb s s') eqn:E.
    + apply N.eqb_eq in E. subst. now left.
    + right. now apply IH.
  - unfold defs. cbn [flat_map snd fst app]. now apply IH.
Qed.

Lemma in_defs_find_def m s : In s (defs m) -> exists b, find_def m s = Some b.
Proof.
  induction m as [|[s' [b'|]] m IH]; unfold defs; cbn [flat_map snd fst app find_def]; intros H.
  - destruct H.
  - destruct (N.eqb s s') eqn:E.
    + now exists b'.
    + destruct H as [H|H].
      * subst. rewrite N.eqb_refl in E. discriminate E.
      * now apply IH.
  - now apply IH.
Qed.

Lemma find_def_app m1 m2 s :
  find_def (m1 ++ m2) s = match find_def m1 s with Some b => Some b | None => find_def m2 s end.
Proof.
  induction m1 as [|[s' [b'|]] m1 IH]; cbn [app find_def].
  - reflexivity.
  - destruct (N.eqb s s'); [reflexivity | exact IH].
  - exact IH.
Qed.

Lemma find_def_ir_link ms s : find_def (ir_link ms) s = first_def ms s.
Proof.
  unfold ir_link. induction ms as [|m ms IH]; cbn [concat first_def].
  - reflexivity.
  - rewrite find_def_app, IH. reflexivity.
Qed.

(* ---- sequences of modules ------------------------------------------------------------------------------------------- *)
Lemma first_def_in ms s b : first_def ms s = Some b -> exists m, In m ms /\ find_def m s = Some b.
Proof.
  induction ms as [|m ms IH]; cbn [first_def]; intros H.
  - discriminate H.
  - destruct (find_def m s) eqn:E.
    + exists m. split; [now left | congruence].
    + destruct (IH H) as [m' [Hin Hf]]. exists m'. split; [now right | exact Hf].
Qed.

Lemma first_def_none ms s : first_def ms s = None -> forall m, In m ms -> find_def m s = None.
Proof.
  induction ms as [|m0 ms IH]; cbn [first_def]; intros H m Hin.
  - destruct Hin.
  - destruct (find_def m0 s) eqn:E; [discriminate H|]. destruct Hin as [<-|Hin]; [exact E | now apply IH].
Qed.

Lemma first_def_app ms1 ms2 s :
  first_def (ms1 ++ ms2) s = match first_def ms1 s with Some b => Some b | None => first_def ms2 s end.
Proof.
  induction ms1 as [|m ms1 IH]; cbn [app first_def].
  - reflexivity.
  - destruct (find_def m s); [reflexivity | exact IH].
Qed.

(* injective names: the first definition is THE definition, wherever it stands *)
Lemma first_def_unique ms m s b :
  NoDup (flat_map defs ms) -> In m ms -> find_def m s = Some b -> first_def ms s = Some b.
Proof.
  induction ms as [|m0 ms IH]; cbn [flat_map first_def]; intros Hnd Hin Hf.
  - destruct Hin.
  - destruct Hin as [->|Hin].
    + rewrite Hf. reflexivity.
    + destruct (find_def m0 s) eqn:E.
      * exfalso. apply (NoDup_app_disjoint _ _ s Hnd).
        -- eapply find_def_in_defs; exact E.
        -- apply in_flat_map. exists m. split; [exact Hin | eapply find_def_in_defs; exact Hf].
      * apply IH; [eapply NoDup_app_r; exact Hnd | exact Hin | exact Hf].
Qed.

Definition unique_defs (ms : list module) (s : sym) : Prop :=
  forall m1 m2 b1 b2, In m1 ms -> In m2 ms -> find_def m1 s = Some b1 -> find_def m2 s = Some b2 -> b1 = b2.

Lemma nodup_unique_defs ms s : NoDup (flat_map defs ms) -> unique_defs ms s.
Proof.
  intros Hnd m1 m2 b1 b2 H1 H2 F1 F2.
  pose proof (first_def_unique ms m1 s b1 Hnd H1 F1) as E1.
  pose proof (first_def_unique ms m2 s b2 Hnd H2 F2) as E2.
  congruence.
Qed.

Lemma first_def_spec ms s b :
  unique_defs ms s -> (first_def ms s = Some b <-> exists m, In m ms /\ find_def m s = Some b).
Proof.
  intros U. split.
  - apply first_def_in.
  - intros [m [Hin Hf]]. destruct (first_def ms s) as [b'|] eqn:E.
    + destruct (first_def_in _ _ _ E) as [m' [Hin' Hf']]. f_equal. exact (U m' m b' b Hin' Hin Hf' Hf).
    + rewrite (first_def_none _ _ E m Hin) in Hf. discriminate Hf.
Qed.

(* two sequences with the same definitions available resolve alike *)
Lemma first_def_same_members ms ms' s :
  unique_defs ms s -> unique_defs ms' s ->
  (forall b, (exists m, In m ms /\ find_def m s = Some b) <-> (exists m, In m ms' /\ find_def m s = Some b)) ->
  first_def ms s = first_def ms' s.
Proof.
  intros U U' Hm. destruct (first_def ms s) as [b|] eqn:E.
  - symmetry. apply (first_def_spec ms' s b U'). apply Hm. apply (first_def_spec ms s b U). exact E.
  - destruct (first_def ms' s) as [b'|] eqn:E'; [|reflexivity].
    apply (first_def_spec ms' s b' U') in E'. apply Hm in E'. apply (first_def_spec ms s b' U) in E'. congruence.
Qed.

Lemma ir_resolve_first_def ms r s :
  NoDup (flat_map defs ms) -> In r ms -> ir_resolve ms r s = first_def ms s.
Proof.
  intros Hnd Hin. unfold ir_resolve. destruct (find_def r s) as [b|] eqn:E; [|reflexivity].
  symmetry. now apply (first_def_unique ms r s b).
Qed.

(* the order in which the modules are handed to the IR linker (interface.go:246: a Go map iteration) is irrelevant *)
Theorem link_order_irrelevant ms ms' s :
  Permutation ms ms' -> NoDup (flat_map defs ms) -> first_def ms s = first_def ms' s.
Proof.
  intros HP Hnd.
  assert (Hnd' : NoDup (flat_map defs ms')).
  { eapply Permutation_NoDup; [|exact Hnd]. now apply Permutation_flat_map. }
  apply first_def_same_members; try now apply nodup_unique_defs.
  intros b. split; intros [m [Hin Hf]]; exists m; (split; [|exact Hf]).
  - eapply Permutation_in; [exact HP | exact Hin].
  - eapply Permutation_in; [apply Permutation_sym; exact HP | exact Hin].
Qed.

(* ---- the four modes -------------------------------------------------------------------------------------------------- *)
Definition lists_of (l : list_mode) (p : program) : module :=
  match l with LLinked => p_lists_src p | LExternal => p_lists_obj p end.

Definition canonical (l : list_mode) (p : program) : list module := p_main p :: p_imports p ++ [lists_of l p].

Lemma wf_canonical_nodup p l : wf p -> NoDup (flat_map defs (canonical l p)).
Proof. intros [H1 H2 _]. destruct l; [exact H1 | exact H2]. Qed.

Lemma in_modules_canonical p l r : In r (p_modules p) -> In r (canonical l p).
Proof.
  unfold p_modules, canonical. intros [<-|H]; [now left|]. right. apply in_or_app. now left.
Qed.

Lemma modules_nodup p : wf p -> NoDup (flat_map defs (p_main p :: p_imports p)).
Proof.
  intros [H1 _ _]. change (p_main p :: p_imports p ++ [p_lists_src p]) with ((p_main p :: p_imports p) ++ [p_lists_src p]) in H1.
  rewrite flat_map_app in H1. eapply NoDup_app_l. exact H1.
Qed.

(* every mode binds a reference to the first — the only — definition among main, the imports and the list runtime *)
Lemma resolve_canonical md p r s :
  wf p -> In r (p_modules p) -> resolve md p r s = first_def (canonical (snd md) p) s.
Proof.
  intros Hwf Hr. destruct md as [[|] [|]]; cbn [resolve snd].
  - (* linked, lists linked *)
    apply ir_resolve_first_def; [exact (wf_canonical_nodup p LLinked Hwf) | exact (in_modules_canonical p LLinked r Hr)].
  - (* linked, lists external *)
    rewrite ir_resolve_first_def; [| exact (modules_nodup p Hwf) | exact Hr].
    unfold canonical, lists_of, ld_resolve.
    change (p_main p :: p_imports p ++ [p_lists_obj p]) with ((p_main p :: p_imports p) ++ [p_lists_obj p]).
    rewrite first_def_app. reflexivity.
  - (* separate, lists linked into the main object *)
    unfold ld_resolve. cbn [first_def]. rewrite find_def_ir_link. cbn [first_def].
    assert (E : match match find_def (p_main p) s with Some b => Some b | None => match find_def (p_lists_src p) s with Some b => Some b | None => None end end with
                | Some b => Some b | None => first_def (p_imports p) s end = first_def (p_main p :: p_lists_src p :: p_imports p) s).
    { cbn [first_def]. destruct (find_def (p_main p) s); [reflexivity|]. destruct (find_def (p_lists_src p) s); reflexivity. }
    rewrite E. clear E.
    apply link_order_irrelevant.
    + unfold canonical, lists_of. apply perm_skip. apply Permutation_cons_append.
    + eapply Permutation_NoDup; [| exact (wf_canonical_nodup p LLinked Hwf)].
      apply Permutation_flat_map. unfold canonical, lists_of. apply perm_skip. apply Permutation_sym, Permutation_cons_append.
  - (* separate, lists external *)
    reflexivity.
Qed.

Lemma canonical_lists_irrelevant p s : wf p -> first_def (canonical LLinked p) s = first_def (canonical LExternal p) s.
Proof.
  intros Hwf. unfold canonical, lists_of.
  change (p_main p :: p_imports p ++ [p_lists_src p]) with ((p_main p :: p_imports p) ++ [p_lists_src p]).
  change (p_main p :: p_imports p ++ [p_lists_obj p]) with ((p_main p :: p_imports p) ++ [p_lists_obj p]).
  rewrite !first_def_app. cbn [first_def]. rewrite (wf_lists_same p Hwf s). reflexivity.
Qed.

Theorem link_mode_irrelevant :
  forall md1 md2 p r s, wf p -> In r (p_modules p) -> resolve md1 p r s = resolve md2 p r s.
Proof.
  intros md1 md2 p r s Hwf Hr. rewrite !resolve_canonical by assumption.
  destruct md1 as [m1 [|]], md2 as [m2 [|]]; cbn [snd]; try reflexivity.
  - now apply canonical_lists_irrelevant.
  - symmetry. now apply canonical_lists_irrelevant.
Qed.

(* and it is bound to the definition of whichever module (or the list runtime) defines the symbol *)
Theorem resolve_is_the_definition :
  forall md p r s m b, wf p -> In r (p_modules p) -> In m (p_modules p ++ [p_lists_src p]) -> find_def m s = Some b ->
    resolve md p r s = Some b.
Proof.
  intros md p r s m b Hwf Hr Hm Hf.
  rewrite (link_mode_irrelevant md (MLinked, LLinked) p r s Hwf Hr), resolve_canonical by assumption. cbn [snd].
  apply (first_def_unique _ m); [exact (wf_canonical_nodup p LLinked Hwf) | | exact Hf].
  unfold canonical, lists_of, p_modules in *. exact Hm.
Qed.

Theorem resolve_closed :
  forall md p r s, wf p -> closed p -> In r (p_modules p) -> declared r s -> resolve md p r s <> None.
Proof.
  intros md p r s Hwf Hc Hr Hd. destruct (Hc r s Hr Hd) as [m [Hm Hf]].
  destruct (find_def m s) as [b|] eqn:E; [|congruence].
  rewrite (resolve_is_the_definition md p r s m b Hwf Hr Hm E). discriminate.
Qed.

(* ---- both tools accept a well-formed program in every mode ---------------------------------------------------------- *)
Lemma existsb_eqb_in x l : existsb (N.eqb x) l = true <-> In x l.
Proof.
  rewrite existsb_exists. split.
  - intros [y [Hin E]]. apply N.eqb_eq in E. now subst.
  - intros Hin. exists x. split; [exact Hin | apply N.eqb_refl].
Qed.

Lemma nodupb_true l : nodupb l = true <-> NoDup l.
Proof.
  induction l as [|x l IH]; cbn [nodupb].
  - split; [constructor | reflexivity].
  - rewrite andb_true_iff, negb_true_iff, IH. split.
    + intros [Hx Hl]. constructor; [|exact Hl]. intros Hin. apply existsb_eqb_in in Hin. congruence.
    + intros H. inversion H as [|y ys Hn Hd]; subst. split; [|exact Hd].
      destruct (existsb (N.eqb x) l) eqn:E; [|reflexivity]. apply existsb_eqb_in in E. contradiction.
Qed.

Theorem wf_link_ok : forall md p, wf p -> link_ok md p = true.
Proof.
  intros md p Hwf. unfold link_ok. apply nodupb_true. destruct md as [[|] [|]]; cbn [arrangement].
  - exact (wf_inj_src p Hwf).
  - exact (wf_inj_obj p Hwf).
  - eapply Permutation_NoDup; [| exact (wf_inj_src p Hwf)].
    apply Permutation_flat_map. apply perm_skip. apply Permutation_sym, Permutation_cons_append.
  - exact (wf_inj_obj p Hwf).
Qed.

(* ---- where the NoDup hypothesis comes from: injective mangling (C10) -------------------------------------------------- *)
Section InjectiveMangling.
  Variables P Nm : Type.                 (* module paths, source-level names *)
  Variable mangle : P -> Nm -> sym.      (* DDP: mangle p n = mangled hash n p = (n, sha256 (hashable p)) *)
  Hypothesis mangle_inj : forall p n p' n', mangle p n = mangle p' n' -> p = p' /\ n = n'.

  Record smod := { s_path : P; s_defs : list (Nm * body); s_decls : list (P * Nm) }.

  Definition compile_mod (m : smod) : module :=
    map (fun nb => (mangle (s_path m) (fst nb), Def (snd nb))) (s_defs m) ++
    map (fun pn => (mangle (fst pn) (snd pn), Decl)) (s_decls m).

  Lemma defs_compile m : defs (compile_mod m) = map (fun nb => mangle (s_path m) (fst nb)) (s_defs m).
  Proof.
    unfold compile_mod, defs. rewrite flat_map_app.
    assert (E1 : forall l : list (Nm * body), flat_map (fun e : sym * entry => match snd e with Def _ => [fst e] | Decl => [] end)
                   (map (fun nb => (mangle (s_path m) (fst nb), Def (snd nb))) l) = map (fun nb => mangle (s_path m) (fst nb)) l).
    { induction l as [|a l IH]; cbn [map flat_map snd fst app]; [reflexivity | now rewrite IH]. }
    assert (E2 : forall l : list (P * Nm), flat_map (fun e : sym * entry => match snd e with Def _ => [fst e] | Decl => [] end)
                   (map (fun pn => (mangle (fst pn) (snd pn), Decl)) l) = []).
    { induction l as [|a l IH]; cbn [map flat_map snd fst app]; [reflexivity | exact IH]. }
    rewrite E1, E2. apply app_nil_r.
  Qed.

  Lemma in_defs_compile m x : In x (defs (compile_mod m)) -> exists n, x = mangle (s_path m) n /\ In n (map fst (s_defs m)).
  Proof.
    rewrite defs_compile. intros H. apply in_map_iff in H. destruct H as [[n b] [E Hin]]. cbn [fst] in E.
    exists n. split; [now symmetry|]. apply in_map_iff. exists (n, b). now split.
  Qed.

  Lemma nodup_defs_compile m : NoDup (map fst (s_defs m)) -> NoDup (defs (compile_mod m)).
  Proof.
    rewrite defs_compile. generalize (s_defs m) as l. induction l as [|[n b] l IH]; cbn [map fst]; intros H.
    - constructor.
    - inversion H as [|y ys Hn Hd]; subst. constructor; [|now apply IH].
      intros Hin. apply in_map_iff in Hin. destruct Hin as [[n' b'] [E Hin]]. cbn [fst] in E.
      apply mangle_inj in E. destruct E as [_ E]. subst n'. apply Hn. apply in_map_iff. exists (n, b'). now split.
  Qed.

  (* distinct module paths + distinct names inside each module  ==>  no symbol is defined twice *)
  Theorem injective_mangling_nodup ms :
    NoDup (map s_path ms) -> (forall m, In m ms -> NoDup (map fst (s_defs m))) ->
    NoDup (flat_map defs (map compile_mod ms)).
  Proof.
    induction ms as [|m ms IH]; cbn [map flat_map]; intros Hp Hn.
    - constructor.
    - inversion Hp as [|y ys Hnp Hdp]; subst. apply NoDup_app_intro.
      + apply nodup_defs_compile. apply Hn. now left.
      + apply IH; [exact Hdp|]. intros m' Hm'. apply Hn. now right.
      + intros x Hx Hx'. apply in_defs_compile in Hx. destruct Hx as [n [Ex _]].
        apply in_flat_map in Hx'. destruct Hx' as [cm [Hcm Hx']]. apply in_map_iff in Hcm. destruct Hcm as [m' [<- Hm']].
        apply in_defs_compile in Hx'. destruct Hx' as [n' [Ex' _]]. subst x. apply mangle_inj in Ex'. destruct Ex' as [Ep _].
        apply Hnp. rewrite Ep. now apply in_map.
  Qed.

  (* a whole program compiled from source modules is well-formed when, in addition, the list runtime's (unmangled,
     fixed) names are pairwise distinct and outside the range of the mangling, and the prebuilt object is the
     compiler's own output *)
  Theorem wf_of_injective_mangling (m0 : smod) (ms : list smod) (lists : module) :
    NoDup (map s_path (m0 :: ms)) -> (forall m, In m (m0 :: ms) -> NoDup (map fst (s_defs m))) ->
    NoDup (defs lists) -> (forall p n, ~ In (mangle p n) (defs lists)) ->
    wf {| p_main := compile_mod m0; p_imports := map compile_mod ms; p_lists_src := lists; p_lists_obj := lists |}.
  Proof.
    intros Hp Hn Hl Hr.
    assert (H : NoDup (flat_map defs (compile_mod m0 :: map compile_mod ms ++ [lists]))).
    { change (compile_mod m0 :: map compile_mod ms ++ [lists]) with (map compile_mod (m0 :: ms) ++ [lists]).
      rewrite flat_map_app. apply NoDup_app_intro.
      - now apply injective_mangling_nodup.
      - cbn [flat_map]. rewrite app_nil_r. exact Hl.
      - intros x Hx Hx'. cbn [flat_map] in Hx'. rewrite app_nil_r in Hx'.
        apply in_flat_map in Hx. destruct Hx as [cm [Hcm Hx]]. apply in_map_iff in Hcm. destruct Hcm as [m' [<- _]].
        apply in_defs_compile in Hx. destruct Hx as [n [-> _]]. exact (Hr _ _ Hx'). }
    constructor; cbn [p_main p_imports p_lists_src p_lists_obj]; [exact H | exact H | reflexivity].
  Qed.
End InjectiveMangling.

(* ---- non-vacuity: the concrete three-module program ------------------------------------------------------------------- *)
Lemma ex_prog_wf : wf ex_prog.
Proof.
  assert (H : NoDup (flat_map defs (p_main ex_prog :: p_imports ex_prog ++ [p_lists_src ex_prog]))).
  { apply nodupb_true. vm_compute. reflexivity. }
  constructor; [exact H | exact H | reflexivity].
Qed.

Lemma ex_prog_closed : closed ex_prog.
Proof.
  intros m s Hm Hd. unfold p_modules in Hm. cbn [ex_prog p_main p_imports] in Hm.
  assert (Hall : forall m', In m' [ex_main; ex_A; ex_B] -> forall s', declared m' s' ->
                   first_def (p_modules ex_prog ++ [p_lists_src ex_prog]) s' <> None).
  { intros m' Hm' s' Hd'. unfold declared in Hd'.
    destruct Hm' as [<-|[<-|[<-|[]]]]; cbn [ex_main ex_A ex_B In] in Hd';
      repeat (destruct Hd' as [Hd'|Hd']; [inversion Hd'; subst; vm_compute; discriminate|]); destruct Hd'. }
  specialize (Hall m Hm s Hd). destruct (first_def (p_modules ex_prog ++ [p_lists_src ex_prog]) s) as [b|] eqn:E; [|congruence].
  destruct (first_def_in _ _ _ E) as [m' [Hin Hf]]. exists m'. split; [exact Hin | congruence].
Qed.

(* f (symbol 10), referenced from main, is A's definition in all four modes; the list function 1 referenced from A is
   the list runtime's; B's global 12 referenced from A is B's *)
Example ex_prog_resolves :
  forall md, resolve md ex_prog ex_main 10%N = Some 110%N /\ resolve md ex_prog ex_A 1%N = Some 50%N /\
             resolve md ex_prog ex_A 12%N = Some 112%N /\ link_ok md ex_prog = true.
Proof. intros [[|] [|]]; vm_compute; repeat split; reflexivity. Qed.

(* ---- the hypotheses are needed ---------------------------------------------------------------------------------------- *)
(* without injective names: module M2's reference to its own symbol 6 is its own definition when the IR linker merges
   the modules, and M1's when the objects are linked *)
Theorem link_mode_relevant_without_injectivity :
  exists p r s, In r (p_modules p) /\ (forall x, find_def (p_lists_obj p) x = find_def (p_lists_src p) x) /\
                resolve (MLinked, LLinked) p r s <> resolve (MSeparate, LLinked) p r s /\
                link_ok (MSeparate, LLinked) p = false.
Proof.
  exists bad_prog, bad_M2, 6%N. split; [right; right; now left|]. split; [reflexivity|]. split; vm_compute; [discriminate | reflexivity].
Qed.

(* with a prebuilt list object that is not the compiler's own output *)
Theorem link_mode_relevant_without_same_lists :
  exists p r s, In r (p_modules p) /\ NoDup (flat_map defs (p_main p :: p_imports p ++ [p_lists_src p])) /\
                NoDup (flat_map defs (p_main p :: p_imports p ++ [p_lists_obj p])) /\
                resolve (MLinked, LLinked) p r s <> resolve (MLinked, LExternal) p r s.
Proof.
  exists stale_prog, [(1, Decl)]%N, 1%N. split; [now left|].
  split; [apply nodupb_true; vm_compute; reflexivity|]. split; [apply nodupb_true; vm_compute; reflexivity|].
  vm_compute. discriminate.
Qed.
