(* C08 — the decidable side condition under which the -O2 parameter-copy elision is sound:
   "no elided argument aliases a Referenz argument of the same call or a global the callee writes",
   together with the consistency of the analysis table it relies on.  Definitions only. *)
From Coq Require Import List ZArith Bool Arith.
Import ListNotations.
From DDP Require Import Lower.Opt2.

(* where a statement stands: in function j, or in the main program *)
Definition ctx := option nat.

Inductive kind :=
| KLocal     (* a variable of the activation itself (local, loop variable, non-constant value parameter) *)
| KBorrow    (* a value parameter the analysis judged constant (elided when the argument is a variable) *)
| KRef       (* a Referenz parameter: somebody else's storage *)
| KGlobal.

Fixpoint pindex (ps : list param) (x : name) (i : nat) : option (nat * bool) :=
  match ps with
  | [] => None
  | p :: r => if Nat.eqb (pname p) x then Some (i, pref p) else pindex r x (S i)
  end.

Definition mem (x : name) (l : list name) : bool := existsb (Nat.eqb x) l.

Section Static.
  Variable mt : meta.
  Variable funs : list fundecl.
  Variable gnames : list name.          (* the global variables *)
  Variable gw : list (list name).       (* per function: the globals it (or a callee) may write *)

  Definition fn (j : nat) : fundecl := nth j funs (mkFun [] [] None false).

  Definition kind_of (c : ctx) (x : name) : kind :=
    match c with
    | Some j =>
        match pindex (fparams (fn j)) x 0 with
        | Some (i, true) => KRef
        | Some (i, false) => if is_const mt j i then KBorrow else KLocal
        | None => if mem x gnames then KGlobal else KLocal
        end
    | None => if mem x gnames then KGlobal else KLocal
    end.

  (* the names through which an activation may write (directly or in callees) *)
  Definition may_write (c : ctx) (x : name) : bool :=
    match c with
    | Some j =>
        match pindex (fparams (fn j)) x 0 with
        | Some (i, _) => negb (is_const mt j i)        (* never a parameter judged constant *)
        | None => if mem x gnames then mem x (nth j gw []) else true
        end
    | None => true
    end.

  Definition is_param (c : ctx) (x : name) : bool :=
    match c with
    | Some j => match pindex (fparams (fn j)) x 0 with Some _ => true | None => false end
    | None => false
    end.
  (* a declared name must be new: no shadowing of parameters or globals *)
  Definition fresh_name (c : ctx) (x : name) : bool := negb (is_param c x) && negb (mem x gnames).

  Definition gw_sub (c : ctx) (k : nat) : bool :=
    match c with
    | Some j => forallb (fun g => mem g (nth j gw [])) (nth k gw [])
    | None => true
    end.

  (* the Referenz arguments of a call, with the callee's parameter position *)
  Fixpoint ref_args (i : nat) (args : list arg) : list (nat * name) :=
    match args with
    | [] => []
    | ARef y :: r => (i, y) :: ref_args (S i) r
    | AVal _ :: r => ref_args (S i) r
    end.

  (* position i of the call elides the copy of variable x: nothing the callee k may write through
     may be x's storage *)
  Definition elide_arg_safe (c : ctx) (k : nat) (args : list arg) (x : name) : bool :=
    match kind_of c x with
    | KRef => false
    | KLocal | KBorrow =>
        forallb (fun iy => is_const mt k (fst iy) || negb (Nat.eqb (snd iy) x)) (ref_args 0 args)
    | KGlobal =>
        negb (mem x (nth k gw [])) &&
        forallb (fun iy => is_const mt k (fst iy) ||
                           (negb (Nat.eqb (snd iy) x) &&
                            match kind_of c (snd iy) with KRef => false | _ => true end)) (ref_args 0 args)
    end.

  Fixpoint args_ok (c : ctx) (k : nat) (all : list arg) (i : nat) (args : list arg) : bool :=
    match args with
    | [] => true
    | a :: r =>
        (match a with
         | ARef y => is_const mt k i || may_write c y
         | AVal (EVar x) => negb (is_const mt k i) || elide_arg_safe c k all x
         | AVal _ => true
         end) && args_ok c k all (S i) r
    end.

  Definition stmt_ok (c : ctx) (s : stmt) : bool :=
    match s with
    | SDecl x _ => fresh_name c x
    | SFor x _ _ => fresh_name c x
    | SAssign x _ => may_write c x
    | SAssignIdx x _ _ => may_write c x
    | SPrint _ => true
    | SIf _ _ _ => true
    | SCall dst k args =>
        match dst with Some d => may_write c d | None => true end &&
        Nat.ltb k (length funs) && gw_sub c k && args_ok c k args 0 args
    end.

  (* every statement at every depth *)
  Fixpoint all_stmt (P : stmt -> bool) (s : stmt) : bool :=
    P s &&
    match s with
    | SIf _ th el =>
        (fix go (l : list stmt) : bool := match l with [] => true | s :: r => all_stmt P s && go r end) th &&
        (fix go (l : list stmt) : bool := match l with [] => true | s :: r => all_stmt P s && go r end) el
    | SFor _ _ b =>
        (fix go (l : list stmt) : bool := match l with [] => true | s :: r => all_stmt P s && go r end) b
    | _ => true
    end.
  Definition all_stmts (P : stmt -> bool) (l : list stmt) : bool := forallb (all_stmt P) l.

  Fixpoint nodupb (l : list name) : bool :=
    match l with [] => true | x :: r => negb (mem x r) && nodupb r end.

  Definition fun_ok (j : nat) : bool :=
    nodupb (map pname (fparams (fn j))) && all_stmts (stmt_ok (Some j)) (fbody (fn j)).

  Fixpoint upto (n : nat) : list nat := match n with O => [] | S n' => upto n' ++ [n'] end.
End Static.

(* the globals a function may write: assigned non-parameter global names, globals passed by Referenz
   to a parameter the callee may write, and what its callees may write — iterated to a fixpoint and
   then CHECKED (gw_sub / may_write in stmt_ok), so the iteration itself needs no proof *)
Section GW.
  Variable mt : meta.
  Variable funs : list fundecl.
  Variable gnames : list name.

  Definition direct_w (j : nat) (cur : list (list name)) (s : stmt) : list name :=
    let glob x := if is_param funs (Some j) x then [] else if mem x gnames then [x] else [] in
    match s with
    | SAssign x _ | SAssignIdx x _ _ => glob x
    | SCall dst k args =>
        (match dst with Some d => glob d | None => [] end) ++ nth k cur [] ++
        flat_map (fun iy => if is_const mt k (fst iy) then [] else glob (snd iy)) (ref_args 0 args)
    | _ => []
    end.

  Fixpoint collect (f : stmt -> list name) (s : stmt) : list name :=
    f s ++
    match s with
    | SIf _ th el =>
        (fix go (l : list stmt) : list name := match l with [] => [] | s :: r => collect f s ++ go r end) th ++
        (fix go (l : list stmt) : list name := match l with [] => [] | s :: r => collect f s ++ go r end) el
    | SFor _ _ b =>
        (fix go (l : list stmt) : list name := match l with [] => [] | s :: r => collect f s ++ go r end) b
    | _ => []
    end.

  Definition gw_step (cur : list (list name)) : list (list name) :=
    map (fun j => flat_map (collect (direct_w j cur)) (fbody (fn funs j))) (upto (length funs)).

  Fixpoint gw_iter (n : nat) (cur : list (list name)) : list (list name) :=
    match n with O => cur | S n' => gw_iter n' (gw_step cur) end.
  Definition gw_of_prog : list (list name) := gw_iter (S (length funs)) (map (fun _ => []) funs).
End GW.

Definition elide_safe (p : program) : bool :=
  let mt := analyse (pfuns p) in
  let gn := map fst (pglobals p) in
  let gw := gw_of_prog mt (pfuns p) gn in
  nodupb gn &&
  forallb (fun_ok mt (pfuns p) gn gw) (upto (length (pfuns p))) &&
  all_stmts (stmt_ok mt (pfuns p) gn gw None) (pmain p).
