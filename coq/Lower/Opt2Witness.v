(* C08 / C11 — the concrete programs on which the -O2 parameter-copy elision of the pinned tree changed the
   behaviour (each replayed on the real compiler by checks/c08.py), evaluated in the model by vm_compute.
   Names: 0 = the global t, 1 = p (value parameter), 2 = r (Referenz parameter), 3 = q, 4 = u, 5 = n, 6 = lokal. *)
From Coq Require Import List ZArith Bool.
Import ListNotations.
From DDP Require Import Lower.Opt2.
Local Open Scope Z_scope.

(* f(p, Referenz r): r := r ++ "X"; q := p; print q.     main: t = "ab"; f(t, t); print t *)
Definition w_same_var : program :=
  mkProg [(0%nat, ELit [97; 98])]
         [mkFun [mkParam 1%nat false; mkParam 2%nat true]
                [SAssign 2%nat (ECat (EVar 2%nat) (ELit [88])); SDecl 3%nat (EVar 1%nat); SPrint (EVar 3%nat)] None false]
         [SCall None 0%nat [AVal (EVar 0%nat); ARef 0%nat]; SPrint (EVar 0%nat)].

(* the same with an in-place change: r[1] := 'X'; print p  — no freed memory, just the wrong value *)
Definition w_same_var_inplace : program :=
  mkProg [(0%nat, ELit [97; 98])]
         [mkFun [mkParam 1%nat false; mkParam 2%nat true]
                [SAssignIdx 2%nat (EInt 1) (EInt 88); SPrint (EVar 1%nat)] None false]
         [SCall None 0%nat [AVal (EVar 0%nat); ARef 0%nat]; SPrint (EVar 0%nat)].

(* f(p): t := "n"; print p.      main: f(t); print t      (a callee that writes a global it received by value) *)
Definition w_global : program :=
  mkProg [(0%nat, ELit [97; 98])]
         [mkFun [mkParam 1%nat false] [SAssign 0%nat (ELit [110]); SPrint (EVar 1%nat)] None false]
         [SCall None 0%nat [AVal (EVar 0%nat)]; SPrint (EVar 0%nat)].

(* f(p, Referenz r, n): if n then (lokal := "l"; f(lokal, p, 0)); r := "c".
   The self call hands p on by Referenz while the table of f still says "r is constant": p is judged
   constant although the recursive activation writes it.       main: f(t, u, 1); print t; print u *)
Definition w_recursion : program :=
  mkProg [(0%nat, ELit [97; 98]); (4%nat, ELit [117])]
         [mkFun [mkParam 1%nat false; mkParam 2%nat true; mkParam 5%nat false]
                [SIf (EVar 5%nat) [SDecl 6%nat (ELit [108]); SCall None 0%nat [AVal (EVar 6%nat); ARef 1%nat; AVal (EInt 0)]] [];
                 SAssign 2%nat (ELit [99])] None false]
         [SCall None 0%nat [AVal (EVar 0%nat); ARef 4%nat; AVal (EInt 1)]; SPrint (EVar 0%nat); SPrint (EVar 4%nat)].

(* On the pinned tree each of these read freed or changed storage at -O 2 (replayed by checks/c08.py and
   recorded in KNOWN_FINDINGS as fixed by 91b5d4a); with the repaired elision (may_elide) and the repaired
   analysis (recursive calls) both modes agree on them. *)
Lemma w_same_var_runs :
  run_copy 50 w_same_var = Ok [OSeq [97; 98]; OSeq [97; 98; 88]] /\ run_elide 50 w_same_var = run_copy 50 w_same_var.
Proof. split; vm_compute; reflexivity. Qed.

Lemma w_same_var_inplace_runs :
  run_copy 50 w_same_var_inplace = Ok [OSeq [97; 98]; OSeq [88; 98]] /\
  run_elide 50 w_same_var_inplace = run_copy 50 w_same_var_inplace.
Proof. split; vm_compute; reflexivity. Qed.

Lemma w_global_runs :
  run_copy 50 w_global = Ok [OSeq [97; 98]; OSeq [110]] /\ run_elide 50 w_global = run_copy 50 w_global.
Proof. split; vm_compute; reflexivity. Qed.

Lemma w_recursion_runs :
  analyse (pfuns w_recursion) = [[false; false; true]] /\
  run_copy 50 w_recursion = Ok [OSeq [97; 98]; OSeq [99]] /\ run_elide 50 w_recursion = run_copy 50 w_recursion.
Proof. split; [|split]; vm_compute; reflexivity. Qed.

Lemma former_witnesses_agree :
  run_elide 50 w_same_var = run_copy 50 w_same_var /\
  run_elide 50 w_same_var_inplace = run_copy 50 w_same_var_inplace /\
  run_elide 50 w_global = run_copy 50 w_global /\
  run_elide 50 w_recursion = run_copy 50 w_recursion.
Proof.
  split; [apply w_same_var_runs|split; [apply w_same_var_inplace_runs|split; [apply w_global_runs|apply w_recursion_runs]]].
Qed.

(* ---------------------------------------------------------------------------------------------- *)
(* generic instantiations (defect of f920b86, repaired by 9b42dd9)                                 *)
(* kern(p, x): p[1] := x; return p.    szene(n): a := [1;2;3] (LOCAL); b := kern(a, 9); print a; print b.
   Names: 1 = p, 2 = x, 3 = n, 4 = a, 5 = b. *)
Definition w_generic (nometa : bool) : program :=
  mkProg []
         [mkFun [mkParam 1%nat false; mkParam 2%nat false] [SAssignIdx 1%nat (EInt 1) (EVar 2%nat)] (Some (EVar 1%nat)) nometa;
          mkFun [mkParam 3%nat false]
                [SDecl 4%nat (ELit [1; 2; 3]); SDecl 5%nat (ELit []); SCall (Some 5%nat) 0%nat [AVal (EVar 4%nat); AVal (EInt 9)];
                 SPrint (EVar 4%nat); SPrint (EVar 5%nat)] None false]
         [SCall None 1%nat [AVal (EInt 0)]].

(* the run with a GIVEN table instead of the one `analyse` computes *)
Definition run_with (elide : bool) (mt : meta) (fuel : nat) (p : program) : res (list outv) :=
  do r <- init_globals (pglobals p) [] st0;
  let '(ge, st) := r in
  do st' <- exec elide mt (pfuns p) ge fuel ge (pmain p) (set_fbase st (length (vars st)));
  Ok (out st').

Lemma w_generic_facts :
  (* f920b86: the body of the instantiation was never visited, every parameter stayed "constant": the callee's
     element assignment lands in the caller's local list *)
  run_with true [[true; true]; [true]] 50 (w_generic false) = Ok [OSeq [9; 2; 3]; OSeq [9; 2; 3]] /\
  run_with false [[true; true]; [true]] 50 (w_generic false) = Ok [OSeq [1; 2; 3]; OSeq [9; 2; 3]] /\
  (* 9b42dd9: a same-module instantiation is analysed like any function *)
  analyse (pfuns (w_generic false)) = [[false; true]; [true]] /\
  run_elide 50 (w_generic false) = Ok [OSeq [1; 2; 3]; OSeq [9; 2; 3]] /\
  (* an instantiation made from another module has no table: never elided *)
  analyse (pfuns (w_generic true)) = [[false; false]; [true]] /\
  run_elide 50 (w_generic true) = Ok [OSeq [1; 2; 3]; OSeq [9; 2; 3]].
Proof. repeat split; vm_compute; reflexivity. Qed.

(* forward declared functions (defect found on 9b42dd9, repaired by 394dd9c) and overloaded operators (3530cc0).
   aendere(r Referenz): r := [7].   indirekt(t): aendere(t).   test(n): a := [1;2;3] (LOCAL); indirekt(a); print a.
   Names: 1 = r, 2 = t, 3 = n, 4 = a.
   The annotator had no VisitFuncDef: the body of 'Die Funktion aendere macht:' was analysed as part of the function
   declared last, the table of the forward declared aendere kept saying "constant", so handing t on by Referenz did
   not count as a write of t (first fact: the stale table; the caller's list is freed under it).  The repaired
   annotator analyses the body at the declaration: in the model a forward declared function simply IS a function at
   the position of its declaration, and a call of a function that is analysed later (no table yet) counts as a
   write (`seen_const`).  The application of an overloaded operator is a call (SCall) of the overloading function. *)
Definition w_forward : program :=
  mkProg []
         [mkFun [mkParam 1%nat true] [SAssign 1%nat (ELit [7])] None false;
          mkFun [mkParam 2%nat false] [SCall None 0%nat [ARef 2%nat]] None false;
          mkFun [mkParam 3%nat false]
                [SDecl 4%nat (ELit [1; 2; 3]); SCall None 1%nat [AVal (EVar 4%nat)]; SPrint (EVar 4%nat)] None false]
         [SCall None 2%nat [AVal (EInt 0)]].

Lemma w_forward_facts :
  run_with true [[true]; [true]; [true]] 50 w_forward = Er EUaf /\
  run_with false [[true]; [true]; [true]] 50 w_forward = Ok [OSeq [1; 2; 3]] /\
  analyse (pfuns w_forward) = [[false]; [false]; [true]] /\
  run_elide 50 w_forward = Ok [OSeq [1; 2; 3]].
Proof. repeat split; vm_compute; reflexivity. Qed.
