(* The code generator's ownership discipline (src/compiler/compiler.go, scope.go) as a compiler from a
   statement/expression SKELETON to OWNERSHIP ACTIONS on stack slots, plus the run-time meaning of
   those actions as a ledger of ddp_reallocate calls (Rt/Heap.v).

   What is kept of a DDP program: which positions hold primitive vs. owned non-primitive values,
   where temporaries are created, claimed (claimOrCopy), copied or left in scope.temporaries, the
   scope structure, every exit (fallthrough, return from nested blocks, break/continue from inner
   scopes), short-circuit and `falls` arms, the call convention (caller copies, callee frees; extern
   callee => caller frees; -O2 elision of copies for parameters the callee never changes).
   What is abstracted: a non-primitive value is a resource = a list of optional heap blocks (its own
   buffer first, then the blocks of claimed components); contents and types are gone; every
   condition is answered by an oracle (the command-line data of the real runs); function calls are
   inlined (no recursion; Referenz / elided parameters become the caller's locations).

   compile mirrors, in this order of registration (which is what the exits see):
     VisitVarDecl/claimOrCopy 386-412,462-536; exitScope/exitFuncScope 414-448; VisitStringLit etc.
     (addTemporary); BIN_CONCAT 1029-1100; BIN_INDEX on lists 1312-1345 (element of a TEMPORARY list: deep copy into
     a temporary of its own; of a variable: reference); BIN_AND/OR 955-996; TER_FALLS 1610-1674; VisitFuncCall
     2015-2117 + defineFuncBody 616-681; VisitAssignStmt 2306-2335; VisitBlockStmt, VisitIfStmt,
     VisitWhileStmt (condition compiled AFTER the body, in a scope of its own that is left on every
     iteration), VisitForStmt (`bis` compiled twice, after the body, each in a scope of its own),
     VisitForRangeStmt (protected temporary and loop variable), VisitBreakContinueStmt/exitNestedScopes
     (a continue keeps the scope of counting and for-each loops: curLoopScopeSurvives),
     VisitReturnStmt.  State of /repo: after the repairs c2054d3 2f9971e bf84b8a 597753d 39a39c6 6711de1 91b5d4a d296fb2 7366b9f. *)
From Coq Require Import List NArith Bool Arith.
Import ListNotations.
From DDP Require Import Rt.Heap.

(* ------------------------------------------------------------------------------------------ *)
(* skeleton                                                                                     *)
(* ------------------------------------------------------------------------------------------ *)
Definition var := nat.

Inductive expr :=
| EPrim                                  (* primitive literal/variable/operator over primitives *)
| EVar (x : var)                         (* non-primitive variable: a non-temporary reference *)
| EPart (x : var) (k : nat)              (* element/field k of variable x: a non-temporary reference *)
| ELit (n : N)                           (* literal / constructor / conversion: new temporary of n bytes (0: empty value) *)
| EUse1 (a : expr)                       (* primitive-valued operator on a non-primitive operand (Länge, text index, ist ein) *)
| EUse2 (a b : expr)                     (* two operands, each read in place by a primitive-valued operator ((die Länge von a) plus
                                            (die Länge von b)); the early copy of a variable LEFT operand of a binary operator
                                            applied directly to non-primitives (7366b9f) is modelled for EConcat only *)
| EDerive (a : expr) (n : N)             (* new n-byte temporary computed from an operand that is NOT consumed
                                            (slice, cast of a non-temporary Variable) *)
| EElem (a : expr) (k : nat)             (* element k of the list value of a (BIN_INDEX): a reference INTO a's storage if a is a
                                            variable; if a is a temporary the element is deep-copied into a temporary of its
                                            own, because a reference derived from a temporary dies with that temporary's scope *)
| EConcat (a b : expr)                   (* Text verkettet mit Text: left operand claimed (copied first if not temporary) *)
| EBuild (n : N) (cs : exprs)            (* list/struct literal, cast to Variable/list: container of n bytes, components claimed or copied in *)
| ECall (f : nat) (a : args)             (* DDP function f *)
| EExt (a : args) (n : option N)         (* extern (C) function returning a new n-byte value or a primitive *)
| EAnd (a b : expr)                      (* und / oder: right operand evaluated on one branch only *)
| EFalls (c a b : expr)                  (* a, falls c, ansonsten b *)
with exprs := XNil | XCons (e : expr) (r : exprs)
with args := ANil | AVal (e : expr) (r : args) | ARef (x : var) (r : args).

Inductive stmt :=
| SSkip
| SSeq (a b : stmt)
| SDecl (x : var) (e : expr)
| SAssign (x : var) (e : expr)
| SAssignPart (x : var) (k : nat) (e : expr)
| SExpr (e : expr)                       (* expression statement: the result is discarded *)
| SBlock (s : stmt)
| SIf (c : expr) (a b : stmt)            (* arms are blocks in the parser's output: use SBlock inside *)
| SWhile (c : expr) (b : stmt)
| SDoWhile (b : stmt) (c : expr)
| SRepeat (c : expr) (k : nat) (b : stmt)          (* Wiederhole ... c Mal: c evaluated once; k iterations *)
| SFor (from to step : expr) (down : bool) (k : nat) (b : stmt)   (* counting loop that runs k times *)
| SForEach (x : var) (np : option N) (e : expr) (k : nat) (b : stmt)   (* k elements; np: size of the copy bound to a non-primitive loop variable *)
| SBreak
| SContinue
| SReturn (e : option expr).

Inductive mode := MVal | MRef | MConst.   (* MConst: by value, copy elided at -O2 (const_func_param.go) *)
Record fundef := mkFun { f_params : list (var * mode * bool (* non-primitive *)); f_ret : bool (* returns a non-primitive *); f_body : stmt }.
Record program := mkProg { p_funs : list fundef; p_main : stmt }.

(* ------------------------------------------------------------------------------------------ *)
(* ownership actions                                                                            *)
(* ------------------------------------------------------------------------------------------ *)
Inductive place := PSlot (s : nat) | PPart (s k : nat) | PTail (s : nat).   (* PTail: all components of s (a list's elements) *)
Definition root (p : place) : nat := match p with PSlot s => s | PPart s _ => s | PTail s => s end.

Inductive instr :=
| ISkip
| ISeq (a b : instr)
| IUse (p : place)                       (* a read of p that copies nothing (Länge, gleich, source of a slice): changes nothing,
                                            but the value must still be there *)
| INew (d : nat) (n : N)                 (* a runtime constructor fills alloca d with a new n-byte value *)
| ICopy (d : nat) (p : place)            (* deep copy of p into d; nothing happens if p IS d (ret == src check) *)
| IMove (d s : nat)                      (* load/store of the value struct: claim *)
| IFree (s : nat)                        (* the type's free function on alloca s *)
| IConcat (d a : nat) (b : place)        (* ddp_string_string_verkettet(d, a, b): a is reallocated and emptied *)
| IGrow (d a : nat) (n : N)              (* d := a with its own buffer reallocated to n bytes (ddp_reallocate(a.buf, cap, n)); a emptied *)
| IOverwritePart (s k src : nat)         (* store src into component k of s WITHOUT releasing what was there *)
| IAbsorb (d s : nat)                    (* claim s into a new component position of d *)
| IAbsorbCopy (d : nat) (p : place)      (* deep copy of p into a new component position of d *)
| IAssignPart (s k src : nat)            (* free function on component k of s, then claim src into it *)
| IAssignPartCopy (s k : nat) (p : place) (* free function on component k of s, then deep copy of p into it; the copy
                                            does nothing if p is that very component (ret == src check) *)
| IIf (a b : instr)                      (* run-time choice *)
| ILoop (skipfirst : bool) (cnt : option nat) (test body oncont onbrk onexit : instr)
    (* cnt = Some k: the test succeeds exactly k times; None: the oracle answers every test *)
| IBreak
| IContinue
| IRet
| IFun (consumed : list nat) (ret : option nat) (body : instr).   (* inlined callee; catches IRet *)

Fixpoint iseq (l : list instr) : instr :=
  match l with [] => ISkip | [i] => i | i :: r => ISeq i (iseq r) end.

(* ------------------------------------------------------------------------------------------ *)
(* compile-time state: scope.go                                                                 *)
(* ------------------------------------------------------------------------------------------ *)
Record tmp := mkTmp { t_slot : nat; t_prot : bool }.
Record cvar := mkVar { v_slot : nat; v_prot : bool }.        (* Referenz parameters are never registered (isRef) *)
Record scope := mkScope { sc_vars : list cvar; sc_temps : list tmp }.
Definition empty_scope := mkScope [] [].

Record cstate := mkC {
  c_scopes : list scope;                 (* innermost first *)
  c_next : nat;                          (* next alloca *)
  c_env : list (var * place);
  c_loop : option (nat * nat);           (* height of curLoopScope for break; lowest height left by a continue
                                            (curLoopScopeSurvives: counting and for-each loops keep their scope) *)
  c_fun : option (nat * option nat);     (* height of cfscp, return slot *)
  c_glob : list var;                     (* global variables (declared in the outermost scope of the main module) *)
  c_refs : list var                      (* Referenz parameters of the function being compiled *)
}.

Inductive res := RPrim | RTemp (s : nat) | RRef (p : place).

Definition fresh (cs : cstate) : nat * cstate :=
  (c_next cs, mkC (c_scopes cs) (S (c_next cs)) (c_env cs) (c_loop cs) (c_fun cs) (c_glob cs) (c_refs cs)).
Definition with_scopes (cs : cstate) (l : list scope) : cstate :=
  mkC l (c_next cs) (c_env cs) (c_loop cs) (c_fun cs) (c_glob cs) (c_refs cs).
Definition push_scope (cs : cstate) : cstate := with_scopes cs (empty_scope :: c_scopes cs).
Definition pop_scope (cs : cstate) : cstate := with_scopes cs (tl (c_scopes cs)).
(* leaving a block: the variables declared in it are no longer visible (lookupVar walks the scope chain) *)
Definition leave_scope (cs : cstate) (env0 : list (var * place)) : cstate :=
  mkC (tl (c_scopes cs)) (c_next cs) env0 (c_loop cs) (c_fun cs) (c_glob cs) (c_refs cs).
Definition height (cs : cstate) : nat := length (c_scopes cs).

Definition map_head (f : scope -> scope) (cs : cstate) : cstate :=
  match c_scopes cs with
  | [] => cs
  | s :: r => with_scopes cs (f s :: r)
  end.
Definition add_temp (s : nat) (prot : bool) (cs : cstate) : cstate :=
  map_head (fun sc => mkScope (sc_vars sc) (sc_temps sc ++ [mkTmp s prot])) cs.
Definition add_var (s : nat) (prot : bool) (cs : cstate) : cstate :=
  map_head (fun sc => mkScope (sc_vars sc ++ [mkVar s prot]) (sc_temps sc)) cs.
Definition bind (x : var) (p : place) (cs : cstate) : cstate :=
  mkC (c_scopes cs) (c_next cs) ((x, p) :: c_env cs) (c_loop cs) (c_fun cs) (c_glob cs) (c_refs cs).
Fixpoint lookup (env : list (var * place)) (x : var) : option place :=
  match env with
  | [] => None
  | (y, p) :: r => if Nat.eqb x y then Some p else lookup r x
  end.

(* claimTemporary: only the CURRENT scope is searched (scope.go:88-98, panics otherwise) *)
Fixpoint remove_tmp (s : nat) (l : list tmp) : option (list tmp) :=
  match l with
  | [] => None
  | t :: r => if Nat.eqb (t_slot t) s
              then match remove_tmp s r with Some r' => Some (t :: r') | None => Some r end   (* last occurrence *)
              else match remove_tmp s r with Some r' => Some (t :: r') | None => None end
  end.
Definition claim_temp (s : nat) (cs : cstate) : option cstate :=
  match c_scopes cs with
  | [] => None
  | sc :: r => match remove_tmp s (sc_temps sc) with
               | Some ts => Some (with_scopes cs (mkScope (sc_vars sc) ts :: r))
               | None => None
               end
  end.
Definition set_prot (s : nat) (b : bool) (cs : cstate) : cstate :=
  map_head (fun sc => mkScope (sc_vars sc)
                        (map (fun t => if Nat.eqb (t_slot t) s then mkTmp s b else t) (sc_temps sc))) cs.

(* exitScope 425-433: unprotected variables, then unprotected temporaries *)
Definition exit_frees (force : bool) (sc : scope) : list instr :=
  map (fun v => IFree (v_slot v)) (filter (fun v => force || negb (v_prot v)) (sc_vars sc)) ++
  map (fun t => IFree (t_slot t)) (filter (fun t => force || negb (t_prot t)) (sc_temps sc)).

(* the scopes whose height is >= h (innermost first) *)
Fixpoint scopes_down_to (l : list scope) (h : nat) : list scope :=
  match l with
  | [] => []
  | sc :: r => if Nat.leb h (length l) then sc :: scopes_down_to r h else []
  end.

(* claimOrCopy 401-412 *)
Definition claim_or_copy (dest : nat) (r : res) (cs : cstate) : option (instr * cstate) :=
  match r with
  | RPrim => Some (ISkip, cs)
  | RTemp s => match claim_temp s cs with Some cs' => Some (IMove dest s, cs') | None => None end
  | RRef p => Some (ICopy dest p, cs)
  end.

Definition res_place (r : res) : option place :=
  match r with RPrim => None | RTemp s => Some (PSlot s) | RRef p => Some p end.
(* an operator reads its operand in place *)
Definition use_of (r : res) : instr :=
  match res_place r with Some p => IUse p | None => ISkip end.

Fixpoint memv (x : var) (l : list var) : bool :=
  match l with [] => false | y :: r => Nat.eqb x y || memv x r end.
(* rootVarDecl of a by-value argument: a plain variable.  An element read `(x an der Stelle k)` in expression position
   is a BinaryExpr (BIN_INDEX), not an ast.Indexing, so rootVarDecl answers nil for it and the element is copied. *)
Definition root_var (e : expr) : option var :=
  match e with EVar x => Some x | _ => None end.
(* mentionsVar (d296fb2): the variable occurs anywhere in the expression, also inside nested calls *)
Fixpoint mentions (x : var) (e : expr) {struct e} : bool :=
  match e with
  | EPrim | ELit _ => false
  | EVar y | EPart y _ => Nat.eqb x y
  | EUse1 a | EDerive a _ | EElem a _ => mentions x a
  | EUse2 a b | EConcat a b | EAnd a b => mentions x a || mentions x b
  | EBuild _ l => mentions_xs x l
  | ECall _ a | EExt a _ => mentions_args x a
  | EFalls c a b => mentions x c || mentions x a || mentions x b
  end
with mentions_xs (x : var) (l : exprs) {struct l} : bool :=
  match l with XNil => false | XCons e r => mentions x e || mentions_xs x r end
with mentions_args (x : var) (a : args) {struct a} : bool :=
  match a with
  | ANil => false
  | AVal e r => mentions x e || mentions_args x r
  | ARef y r => Nat.eqb x y || mentions_args x r
  end.
(* some argument of the call other than the one at position i mentions x (j: position of the head of a) *)
Fixpoint others_mention (x : var) (a : args) (i j : nat) : bool :=
  match a with
  | ANil => false
  | AVal e r => (negb (Nat.eqb i j) && mentions x e) || others_mention x r i (S j)
  | ARef y r => (negb (Nat.eqb i j) && Nat.eqb x y) || others_mention x r i (S j)
  end.
(* mayElideArgCopy (91b5d4a, d296fb2): the storage of a non-temporary argument is handed to a constant parameter only
   if it is a local variable: not a global, not a Referenz parameter of the current function, and no other argument of
   the same call mentions the variable (it may be passed by Referenz there, to this call or to a nested one that is
   evaluated later and changes it) *)
Definition may_elide (cs : cstate) (all : args) (i : nat) (e : expr) : bool :=
  match root_var e with
  | Some x => negb (memv x (c_glob cs)) && negb (memv x (c_refs cs)) && negb (others_mention x all i 0)
  | None => false
  end.
(* callFinder / operandRootVarDecl / laterOperandMayChange (7366b9f): a non-temporary left operand of a binary operator
   is deep-copied into a scope temporary BEFORE the right operand is evaluated iff the right operand contains a call and
   the variable the left operand is (a part of) is a global, bound to a Referenz, mentioned in the right operand, or unknown *)
Fixpoint has_call (e : expr) {struct e} : bool :=
  match e with
  | EPrim | EVar _ | EPart _ _ | ELit _ => false
  | EUse1 a | EDerive a _ | EElem a _ => has_call a
  | EUse2 a b | EConcat a b | EAnd a b => has_call a || has_call b
  | EBuild _ l => has_call_xs l
  | ECall _ _ | EExt _ _ => true
  | EFalls _ _ _ => true     (* the decision is answered by the oracle: in the programs the model is compared with that
                                is a call (the tape reader `nimm`), which callFinder finds *)
  end
with has_call_xs (l : exprs) {struct l} : bool :=
  match l with XNil => false | XCons e r => has_call e || has_call_xs r end.
Fixpoint operand_root (e : expr) : option var :=
  match e with EVar x | EPart x _ => Some x | EElem a _ => operand_root a | _ => None end.
Definition early_copy (cs : cstate) (a b : expr) (ra : res) : bool :=
  match ra with
  | RRef _ => has_call b && match operand_root a with
                            | Some x => memv x (c_glob cs) || memv x (c_refs cs) || mentions x b
                            | None => true
                            end
  | _ => false
  end.
Definition add_glob (x : var) (cs : cstate) : cstate :=
  mkC (c_scopes cs) (c_next cs) (c_env cs) (c_loop cs) (c_fun cs) (x :: c_glob cs) (c_refs cs).

Section Compile.
  (* inlined call of DDP function f whose by-value arguments already sit in the given locations *)
  Variable inline : nat -> list (option place) -> cstate -> option (instr * res * cstate).
  Variable fun_sig : nat -> option (list (var * mode * bool) * bool).

  Fixpoint cexpr (e : expr) (cs : cstate) {struct e} : option (instr * res * cstate) :=
    match e with
    | EPrim => Some (ISkip, RPrim, cs)
    | EVar x => match lookup (c_env cs) x with Some p => Some (ISkip, RRef p, cs) | None => None end
    | EPart x k => match lookup (c_env cs) x with
                   | Some (PSlot s) => Some (ISkip, RRef (PPart s k), cs)
                   | _ => None
                   end
    | ELit n => let (d, cs1) := fresh cs in Some (INew d n, RTemp d, add_temp d false cs1)
    | EUse1 a => match cexpr a cs with
                 | Some (ia, ra, cs1) => Some (ISeq ia (use_of ra), RPrim, cs1)
                 | None => None
                 end
    | EUse2 a b => match cexpr a cs with
                   | Some (ia, ra, cs1) =>
                     match cexpr b cs1 with
                     | Some (ib, rb, cs2) => Some (iseq [ia; ib; use_of ra; use_of rb], RPrim, cs2)
                     | None => None
                     end
                   | None => None
                   end
    | EDerive a n => match cexpr a cs with
                     | Some (ia, ra, cs1) =>
                       let (d, cs2) := fresh cs1 in Some (iseq [ia; use_of ra; INew d n], RTemp d, add_temp d false cs2)
                     | None => None
                     end
    | EElem a k =>
      (* compiler.go BIN_INDEX on lists: isTempLhs => deepCopyInto a new registered temporary (the list stays a
         temporary of its scope); otherwise the element pointer with isTemp = false *)
      match cexpr a cs with
      | Some (ia, RTemp t, cs1) =>
        let (d, cs2) := fresh cs1 in Some (ISeq ia (ICopy d (PPart t k)), RTemp d, add_temp d false cs2)
      | Some (ia, RRef (PSlot s), cs1) => Some (ia, RRef (PPart s k), cs1)
      | _ => None
      end
    | EConcat a b =>
      match cexpr a cs with
      | Some (ia, ra, cs1) =>
        if early_copy cs1 a b ra then
          (* the value of the left operand is taken before the call in the right operand runs: a registered temporary,
             which the runtime function empties like any temporary left operand *)
          match ra with
          | RRef pa =>
            let (c, cs1a) := fresh cs1 in
            match cexpr b (add_temp c false cs1a) with
            | Some (ib, rb, cs2) =>
              match res_place rb with
              | Some pb => let (d, cs3) := fresh cs2 in
                           Some (iseq [ia; ICopy c pa; ib; IConcat d c pb], RTemp d, add_temp d false cs3)
              | None => None
              end
            | None => None
            end
          | _ => None
          end
        else
        match cexpr b cs1 with
        | Some (ib, rb, cs2) =>
          match ra, res_place rb with
          | RTemp sa, Some pb =>
            let (d, cs3) := fresh cs2 in
            Some (iseq [ia; ib; IConcat d sa pb], RTemp d, add_temp d false cs3)
          | RRef pa, Some pb =>
            (* the left operand is claimed by the runtime function: copy a non-temporary first; the copy
               is NOT registered (the callee empties it) *)
            let (c, cs3) := fresh cs2 in
            let (d, cs4) := fresh cs3 in
            Some (iseq [ia; ib; ICopy c pa; IConcat d c pb], RTemp d, add_temp d false cs4)
          | _, _ => None
          end
        | None => None
        end
      | None => None
      end
    | EBuild n comps =>
      let (d, cs1) := fresh cs in
      match cbuild d comps cs1 with
      | Some (ic, cs2) => Some (ISeq (INew d n) ic, RTemp d, add_temp d false cs2)
      | None => None
      end
    | ECall f a =>
      match fun_sig f with
      | Some (params, _) =>
        match cargs a 0 params a cs with
        | Some (ia, locs, cs1) =>
          match inline f locs cs1 with
          | Some (ic, r, cs2) => Some (ISeq ia ic, r, cs2)
          | None => None
          end
        | None => None
        end
      | None => None
      end
    | EExt a n =>
      (* extern callee: the caller copies/claims the by-value arguments and frees them after the call *)
      match cextargs a cs with
      | Some (ia, dests, cs1) =>
        let frees := map IFree dests in
        match n with
        | Some sz => let (d, cs2) := fresh cs1 in
                     Some (iseq (ia :: INew d sz :: frees), RTemp d, add_temp d false cs2)
        | None => Some (iseq (ia :: frees), RPrim, cs1)
        end
      | None => None
      end
    | EAnd a b =>
      match cexpr a cs with
      | Some (ia, _, cs1) =>
        match cexpr b (push_scope cs1) with
        | Some (ib, _, cs2) =>
          let frees := exit_frees false (hd empty_scope (c_scopes cs2)) in
          Some (ISeq ia (IIf (iseq (ib :: frees)) ISkip), RPrim, pop_scope cs2)
        | None => None
        end
      | None => None
      end
    | EFalls c a b =>
      match cexpr c cs with
      | Some (ic, _, cs0) =>
        match cexpr a (push_scope cs0) with
        | Some (ia, ra, cs1) =>
          (* the arm's temporary result is claimed out of the arm's scope before that scope is left *)
          match (match ra with RTemp s => claim_temp s cs1 | _ => Some cs1 end) with
          | Some cs1' =>
            let fa := exit_frees false (hd empty_scope (c_scopes cs1')) in
            match cexpr b (push_scope (pop_scope cs1')) with
            | Some (ib, rb, cs2) =>
              match (match rb with RTemp s => claim_temp s cs2 | _ => Some cs2 end) with
              | Some cs2' =>
                let fb := exit_frees false (hd empty_scope (c_scopes cs2')) in
                let cs3 := pop_scope cs2' in
                match ra, rb with
                | RPrim, RPrim => Some (ISeq ic (IIf (iseq (ia :: fa)) (iseq (ib :: fb))), RPrim, cs3)
                | RTemp sa, RTemp sb =>
                  let (d, cs4) := fresh cs3 in   (* the phi of the two allocas *)
                  Some (ISeq ic (IIf (iseq (ia :: fa ++ [IMove d sa])) (iseq (ib :: fb ++ [IMove d sb]))),
                        RTemp d, add_temp d false cs4)
                | RTemp sa, RRef pb =>
                  let (d, cs4) := fresh cs3 in
                  Some (ISeq ic (IIf (iseq (ia :: fa ++ [IMove d sa])) (iseq (ib :: fb ++ [ICopy d pb]))),
                        RTemp d, add_temp d false cs4)
                | RRef pa, RTemp sb =>
                  let (d, cs4) := fresh cs3 in
                  Some (ISeq ic (IIf (iseq (ia :: fa ++ [ICopy d pa])) (iseq (ib :: fb ++ [IMove d sb]))),
                        RTemp d, add_temp d false cs4)
                | _, _ => None     (* two non-temporary arms yield a run-time choice of locations: outside the skeleton *)
                end
              | None => None
              end
            | None => None
            end
          | None => None
          end
        | None => None
        end
      | None => None
      end
    end
  (* components of a literal: evaluated in order, claimed or copied into the container *)
  with cbuild (d : nat) (l : exprs) (cs : cstate) {struct l} : option (instr * cstate) :=
    match l with
    | XNil => Some (ISkip, cs)
    | XCons e r =>
      match cexpr e cs with
      | Some (ie, re, cs1) =>
        match (match re with
               | RPrim => Some (ISkip, cs1)
               | RTemp s => match claim_temp s cs1 with Some cs' => Some (IAbsorb d s, cs') | None => None end
               | RRef p => Some (IAbsorbCopy d p, cs1)
               end) with
        | Some (ix, cs2) =>
          match cbuild d r cs2 with
          | Some (ir, cs3) => Some (iseq [ie; ix; ir], cs3)
          | None => None
          end
        | None => None
        end
      | None => None
      end
    end
  (* arguments of a DDP function: by value => claimOrCopy into a fresh, unregistered alloca (the callee
     frees it); elided => the argument's own location is passed; Referenz => the variable's location *)
  with cargs (all : args) (i : nat) (ps : list (var * mode * bool)) (a : args) (cs : cstate) {struct a}
       : option (instr * list (option place) * cstate) :=
    match a, ps with
    | ANil, [] => Some (ISkip, [], cs)
    | AVal e r, (_, m, np) :: ps' =>
      match cexpr e cs with
      | Some (ie, re, cs1) =>
        match m, re with
        | MRef, _ => None
        | _, RPrim =>
          if np then None else
          match cargs all (S i) ps' r cs1 with
          | Some (ir, locs, cs2) => Some (ISeq ie ir, None :: locs, cs2)
          | None => None
          end
        | MVal, _ =>
          let (dest, cs2) := fresh cs1 in
          match claim_or_copy dest re cs2 with
          | Some (icc, cs3) =>
            match cargs all (S i) ps' r cs3 with
            | Some (ir, locs, cs4) => Some (iseq [ie; icc; ir], Some (PSlot dest) :: locs, cs4)
            | None => None
            end
          | None => None
          end
        | MConst, RTemp _ =>
          (* a temporary: its own storage is passed; it stays a temporary of the caller *)
          match cargs all (S i) ps' r cs1 with
          | Some (ir, locs, cs2) => Some (ISeq ie ir, res_place re :: locs, cs2)
          | None => None
          end
        | MConst, RRef p =>
          if may_elide cs1 all i e then
            match cargs all (S i) ps' r cs1 with
            | Some (ir, locs, cs2) => Some (ISeq ie ir, Some p :: locs, cs2)
            | None => None
            end
          else
            (* the argument may change while the callee runs: the callee gets a deep copy, which stays a temporary
               of the CALLER's scope (the callee does not free a parameter it judged constant) *)
            let (dest, cs2) := fresh cs1 in
            match cargs all (S i) ps' r (add_temp dest false cs2) with
            | Some (ir, locs, cs3) => Some (iseq [ie; ICopy dest p; ir], Some (PSlot dest) :: locs, cs3)
            | None => None
            end
        end
      | None => None
      end
    | ARef x r, (_, MRef, _) :: ps' =>
      match lookup (c_env cs) x with
      | Some p =>
        match cargs all (S i) ps' r cs with
        | Some (ir, locs, cs1) => Some (ir, Some p :: locs, cs1)
        | None => None
        end
      | None => None
      end
    | _, _ => None
    end
  with cextargs (a : args) (cs : cstate) {struct a} : option (instr * list nat * cstate) :=
    match a with
    | ANil => Some (ISkip, [], cs)
    | AVal e r =>
      match cexpr e cs with
      | Some (ie, re, cs1) =>
        match re with
        | RPrim => match cextargs r cs1 with
                   | Some (ir, ds, cs2) => Some (ISeq ie ir, ds, cs2)
                   | None => None
                   end
        | _ =>
          let (dest, cs2) := fresh cs1 in
          match claim_or_copy dest re cs2 with
          | Some (icc, cs3) =>
            match cextargs r cs3 with
            | Some (ir, ds, cs4) => Some (iseq [ie; icc; ir], dest :: ds, cs4)
            | None => None
            end
          | None => None
          end
        end
      | None => None
      end
    | ARef x r => match lookup (c_env cs) x with
                  | Some _ => cextargs r cs
                  | None => None
                  end
    end.

  (* frees emitted by break/continue: exitNestedScopes(curLoopScope) *)
  Definition loop_exit_frees (brk : bool) (cs : cstate) : option (list instr) :=
    match c_loop cs with
    | Some (hb, hc) => Some (flat_map (exit_frees false) (scopes_down_to (c_scopes cs) (if brk then hb else hc)))
    | None => None
    end.
  (* frees emitted by return: every scope inside the function with force, then exitFuncScope *)
  Definition return_frees (cs : cstate) : option (list instr) :=
    match c_fun cs with
    | Some (h, _) => Some (flat_map (exit_frees true) (scopes_down_to (c_scopes cs) h))
    | None => None
    end.

  Definition set_loop (cs : cstate) (l : option (nat * nat)) : cstate :=
    mkC (c_scopes cs) (c_next cs) (c_env cs) l (c_fun cs) (c_glob cs) (c_refs cs).

  Fixpoint cstmt (s : stmt) (cs : cstate) {struct s} : option (instr * cstate) :=
    match s with
    | SSkip => Some (ISkip, cs)
    | SSeq a b => match cstmt a cs with
                  | Some (ia, cs1) => match cstmt b cs1 with
                                      | Some (ib, cs2) => Some (ISeq ia ib, cs2)
                                      | None => None
                                      end
                  | None => None
                  end
    | SDecl x e =>
      match cexpr e cs with
      | Some (ie, re, cs1) =>
        match re with
        | RPrim => Some (ie, cs1)
        | _ => let (v, cs2) := fresh cs1 in
               match claim_or_copy v re cs2 with
               | Some (icc, cs3) =>
                 let cs4 := bind x (PSlot v) (add_var v false cs3) in
                 (* a variable declared in the outermost scope of the main module is a global *)
                 Some (ISeq ie icc, match c_fun cs4, c_scopes cs4 with None, [_] => add_glob x cs4 | _, _ => cs4 end)
               | None => None
               end
        end
      | None => None
      end
    | SAssign x e =>
      (* right side first; a non-temporary right side is copied into a (registered) temporary BEFORE the old
         value is freed (it may be part of the old value: Speichere t in t); then the old value is freed and
         the temporary claimed (VisitAssignStmt) *)
      match cexpr e cs with
      | Some (ie, re, cs1) =>
        match re, lookup (c_env cs1) x with
        | RPrim, _ => Some (ie, cs1)
        | _, Some (PSlot v) =>
          let '(ipre, re', cs1') := match re with
                                    | RRef p => let (d, c') := fresh cs1 in (ICopy d p, RTemp d, add_temp d false c')
                                    | _ => (ISkip, re, cs1)
                                    end in
          match claim_or_copy v re' cs1' with
          | Some (icc, cs2) => Some (iseq [ie; ipre; IFree v; icc], cs2)
          | None => None
          end
        | _, _ => None
        end
      | None => None
      end
    | SAssignPart x k e =>
      match cexpr e cs with
      | Some (ie, re, cs1) =>
        match lookup (c_env cs1) x with
        | Some (PSlot v) =>
          match re with
          | RPrim => Some (ie, cs1)
          | RTemp s => match claim_temp s cs1 with
                       | Some cs2 => Some (iseq [ie; IAssignPart v k s], cs2)
                       | None => None
                       end
          | RRef p =>
            let (d, c') := fresh cs1 in
            match claim_temp d (add_temp d false c') with
            | Some cs2 => Some (iseq [ie; ICopy d p; IAssignPart v k d], cs2)
            | None => None
            end
          end
        | _ => None
        end
      | None => None
      end
    | SExpr e => match cexpr e cs with Some (ie, _, cs1) => Some (ie, cs1) | None => None end
    | SBlock b =>
      match cstmt b (push_scope cs) with
      | Some (ib, cs1) => Some (iseq (ib :: exit_frees false (hd empty_scope (c_scopes cs1))), leave_scope cs1 (c_env cs))
      | None => None
      end
    | SIf c a b =>
      match cexpr c cs with
      | Some (ic, _, cs0) =>
        match cstmt a (push_scope cs0) with
        | Some (ia, cs1) =>
          let fa := exit_frees false (hd empty_scope (c_scopes cs1)) in
          match cstmt b (push_scope (leave_scope cs1 (c_env cs0))) with
          | Some (ib, cs2) =>
            let fb := exit_frees false (hd empty_scope (c_scopes cs2)) in
            Some (ISeq ic (IIf (iseq (ia :: fa)) (iseq (ib :: fb))), leave_scope cs2 (c_env cs0))
          | None => None
          end
        | None => None
        end
      | None => None
      end
    | SWhile c b | SDoWhile b c =>
      let skipfirst := match s with SDoWhile _ _ => true | _ => false end in
      let csb := push_scope cs in
      match cstmt b (set_loop csb (Some (height csb, height csb))) with
      | Some (ib, cs1) =>
        let fb := exit_frees false (hd empty_scope (c_scopes cs1)) in
        (* the condition is compiled after the body; it runs on every iteration in a scope of its own, whose
           temporaries are freed each time (2f9971e) *)
        match cexpr c (push_scope (set_loop (leave_scope cs1 (c_env cs)) (c_loop cs))) with
        | Some (ic, _, cs2) =>
          let fc := exit_frees false (hd empty_scope (c_scopes cs2)) in
          Some (ILoop skipfirst None (iseq (ic :: fc)) (iseq (ib :: fb)) ISkip ISkip ISkip, pop_scope cs2)
        | None => None
        end
      | None => None
      end
    | SRepeat c k b =>
      match cexpr c cs with
      | Some (ic, _, cs0) =>
        let csb := push_scope cs0 in
        match cstmt b (set_loop csb (Some (height csb, height csb))) with
        | Some (ib, cs1) =>
          let fb := exit_frees false (hd empty_scope (c_scopes cs1)) in
          Some (ISeq ic (ILoop false (Some k) ISkip (iseq (ib :: fb)) ISkip ISkip ISkip), set_loop (leave_scope cs1 (c_env cs0)) (c_loop cs))
        | None => None
        end
      | None => None
      end
    | SFor from to step down k b =>
      let cs0 := push_scope cs in
      match cexpr from cs0 with
      | Some (ifrom, _, cs1) =>
        match cexpr step cs1 with
        | Some (istep, _, cs2) =>
          match cstmt b (set_loop cs2 (Some (height cs2, S (height cs2)))) with
          | Some (ib, cs3) =>
            (* `bis` is compiled once for counting up and once for counting down; each evaluation has a scope
               of its own whose temporaries are freed on every iteration (bf84b8a) *)
            match cexpr to (push_scope cs3) with
            | Some (iup, _, cs4) =>
              let fup := exit_frees false (hd empty_scope (c_scopes cs4)) in
              match cexpr to (push_scope (pop_scope cs4)) with
              | Some (idown, _, cs5) =>
                let fdown := exit_frees false (hd empty_scope (c_scopes cs5)) in
                let cs6 := pop_scope cs5 in
                let leave := exit_frees false (hd empty_scope (c_scopes cs6)) in
                Some (iseq [ifrom; istep; ILoop false (Some k) (if down then iseq (idown :: fdown) else iseq (iup :: fup)) ib ISkip ISkip (iseq leave)],
                      set_loop (leave_scope cs6 (c_env cs)) (c_loop cs))
              | None => None
              end
            | None => None
            end
          | None => None
          end
        | None => None
        end
      | None => None
      end
    | SForEach x np e k b =>
      let cs0 := push_scope cs in
      match cexpr e cs0 with
      | Some (ie, re, cs1) =>
        let (t, cs2) := fresh cs1 in
        match claim_or_copy t re cs2 with
        | Some (icc, cs3) =>
          let cs4 := add_temp t true cs3 in
          (* loop variable: protected, freed by hand at the end of every iteration *)
          let '(lv, cs5) := match np with
                            | Some _ => let (v, c') := fresh cs4 in (Some v, bind x (PSlot v) (add_var v true c'))
                            | None => (None, cs4)
                            end in
          let pre := match lv, np with Some v, Some n => [INew v n] | _, _ => [] end in
          let post := match lv with Some v => [IFree v] | None => [] end in
          match cstmt b (set_loop cs5 (Some (height cs5, S (height cs5)))) with
          | Some (ib, cs6) =>
            let cs7 := set_prot t false cs6 in
            let leave := exit_frees false (hd empty_scope (c_scopes cs7)) in
            Some (iseq [ie; icc; ILoop false (Some k) ISkip (iseq (pre ++ ib :: post)) (iseq post) (iseq (IFree t :: post)) (iseq leave)],
                  set_loop (leave_scope cs7 (c_env cs)) (c_loop cs))
          | None => None
          end
        | None => None
        end
      | None => None
      end
    | SBreak => match loop_exit_frees true cs with Some fs => Some (iseq (fs ++ [IBreak]), cs) | None => None end
    | SContinue => match loop_exit_frees false cs with Some fs => Some (iseq (fs ++ [IContinue]), cs) | None => None end
    | SReturn None => match return_frees cs with Some fs => Some (iseq (fs ++ [IRet]), cs) | None => None end
    | SReturn (Some e) =>
      match cexpr e cs with
      | Some (ie, re, cs1) =>
        match re, c_fun cs1 with
        | RPrim, Some _ =>
          match return_frees cs1 with Some fs => Some (iseq (ie :: fs ++ [IRet]), cs1) | None => None end
        | _, Some (_, Some rs) =>
          match claim_or_copy rs re cs1 with
          | Some (icc, cs2) =>
            match return_frees cs2 with Some fs => Some (iseq (ie :: icc :: fs ++ [IRet]), cs2) | None => None end
          | None => None
          end
        | _, _ => None
        end
      | None => None
      end
    end.
End Compile.

(* inlining with a depth bound (functions may only call functions; no recursion in the skeleton) *)
Fixpoint bind_params (ps : list (var * mode * bool)) (locs : list (option place)) (cs : cstate)
  : option (list instr * list nat * cstate) :=
  match ps, locs with
  | [], [] => Some ([], [], cs)
  | (x, m, np) :: ps', l :: locs' =>
    match m, np, l with
    | MVal, true, Some (PSlot dest) =>
      (* defineFuncBody 642-645: the argument struct is stored into the parameter's own alloca *)
      let (v, cs1) := fresh cs in
      match bind_params ps' locs' (bind x (PSlot v) (add_var v false cs1)) with
      | Some (is, consumed, cs2) => Some (IMove v dest :: is, dest :: consumed, cs2)
      | None => None
      end
    | MRef, _, Some p | MConst, true, Some p => bind_params ps' locs' (bind x p cs)
    | _, false, None => bind_params ps' locs' cs
    | _, _, _ => None
    end
  | _, _ => None
  end.

Definition sig_of (P : program) (f : nat) : option (list (var * mode * bool) * bool) :=
  match nth_error (p_funs P) f with Some fd => Some (f_params fd, f_ret fd) | None => None end.

Fixpoint inline_d (P : program) (d : nat) (f : nat) (locs : list (option place)) (cs : cstate)
  : option (instr * res * cstate) :=
  match d with
  | O => None
  | S d' =>
    match nth_error (p_funs P) f with
    | None => None
    | Some fd =>
      let '(ret, cs0) := if f_ret fd then (let (r, c') := fresh cs in (Some r, c')) else (None, cs) in
      let saved_loop := c_loop cs0 in
      let saved_fun := c_fun cs0 in
      let cs1 := push_scope cs0 in                                  (* cfscp *)
      match bind_params (f_params fd) locs cs1 with
      | Some (moves, consumed, cs2) =>
        let refs := map (fun q => fst (fst q)) (filter (fun q => match snd (fst q) with MRef => true | _ => false end) (f_params fd)) in
        let cs3 := mkC (c_scopes cs2) (c_next cs2) (c_env cs2) None (Some (height cs2, ret)) (c_glob cs2) refs in
        let cs4 := push_scope cs3 in                                (* the body's block scope *)
        match cstmt (inline_d P d') (sig_of P) (f_body fd) cs4 with
        | Some (ib, cs5) =>
          let fbody := exit_frees false (hd empty_scope (c_scopes cs5)) in
          let cs6 := pop_scope cs5 in
          let ffun := exit_frees true (hd empty_scope (c_scopes cs6)) in
          let cs7 := pop_scope cs6 in
          let cs8 := mkC (c_scopes cs7) (c_next cs7) (c_env cs0) saved_loop saved_fun (c_glob cs0) (c_refs cs0) in
          let code := IFun consumed ret (iseq (moves ++ ib :: fbody ++ ffun)) in
          match ret with
          | Some r => Some (code, RTemp r, add_temp r false cs8)
          | None => Some (code, RPrim, cs8)
          end
        | None => None
        end
      | None => None
      end
    end
  end.

Definition init_cstate : cstate := mkC [empty_scope] 0 [] None None [] [].

(* the main module: statements in the global scope, exitScope at the end of ddp_main (compiler.go:204) *)
Definition compile (P : program) : option instr :=
  match cstmt (inline_d P (S (length (p_funs P)))) (sig_of P) (p_main P) init_cstate with
  | Some (im, cs) => Some (iseq (im :: exit_frees false (hd empty_scope (c_scopes cs))))
  | None => None
  end.

(* ------------------------------------------------------------------------------------------ *)
(* run-time meaning of the actions: a ledger                                                    *)
(* ------------------------------------------------------------------------------------------ *)
Definition blk := (N * N)%type.                       (* block id, size *)
Inductive content := Uninit | Res (l : list (option blk)).

Definition garbage : list (option blk) := [Some (1%N, 1%N)].   (* what an uninitialised alloca "holds": id 1 is never allocated *)

Record rstate := mkR {
  r_store : list (nat * content);       (* latest binding first *)
  r_next : N;                           (* next block id (never reused: fresh ids make every misuse visible) *)
  r_led : list event;                   (* reversed *)
  r_oracle : list bool
}.

Fixpoint sget (st : list (nat * content)) (s : nat) : content :=
  match st with
  | [] => Uninit
  | (t, c) :: r => if Nat.eqb s t then c else sget r s
  end.
Definition blocks_of (c : content) : list (option blk) :=
  match c with Uninit => garbage | Res l => l end.
Definition sset (st : rstate) (s : nat) (c : content) : rstate :=
  mkR ((s, c) :: r_store st) (r_next st) (r_led st) (r_oracle st).
Definition emit (st : rstate) (e : event) : rstate :=
  mkR (r_store st) (r_next st) (e :: r_led st) (r_oracle st).

Definition read_place (st : rstate) (p : place) : list (option blk) :=
  match p with
  | PSlot s => blocks_of (sget (r_store st) s)
  | PPart s k => [nth k (blocks_of (sget (r_store st) s)) None]
  | PTail s => tl (blocks_of (sget (r_store st) s))
  end.

(* allocate a fresh n-byte block (n = 0: the empty value, no call) *)
Definition alloc (st : rstate) (n : N) : option blk * rstate :=
  if N.eqb n 0 then (None, st)
  else let id := r_next st in
       (Some (id, n), mkR (r_store st) (N.succ id) (Ev 0 0 n id :: r_led st) (r_oracle st)).

Fixpoint copy_blocks (st : rstate) (l : list (option blk)) : list (option blk) * rstate :=
  match l with
  | [] => ([], st)
  | None :: r => let (r', st') := copy_blocks st r in (None :: r', st')
  | Some (_, n) :: r =>
    let (b, st1) := alloc st n in
    let (r', st2) := copy_blocks st1 r in (b :: r', st2)
  end.

Fixpoint free_blocks (st : rstate) (l : list (option blk)) : rstate :=
  match l with
  | [] => st
  | None :: r => free_blocks st r
  | Some (id, n) :: r => free_blocks (emit st (Ev id n 0 0)) r
  end.

Fixpoint set_nth {A} (l : list A) (k : nat) (v : A) : list A :=
  match l, k with
  | [], _ => []
  | _ :: r, O => v :: r
  | x :: r, S k' => x :: set_nth r k' v
  end.

(* store a value into component position k: its own buffer goes to position k, what it owns besides is appended *)
Definition put_part (l : list (option blk)) (k : nat) (v : list (option blk)) : list (option blk) :=
  if Nat.ltb k (length l) then set_nth l k (hd None v) ++ tl v else l ++ v.

Definition place_eqb (p q : place) : bool :=
  match p, q with
  | PSlot a, PSlot b => Nat.eqb a b
  | PPart a k, PPart b j => Nat.eqb a b && Nat.eqb k j
  | PTail a, PTail b => Nat.eqb a b
  | _, _ => false
  end.

Definition next_bool (st : rstate) : bool * rstate :=
  match r_oracle st with
  | [] => (false, st)
  | b :: r => (b, mkR (r_store st) (r_next st) (r_led st) r)
  end.

Inductive outcome := ONormal | OBreak | OContinue | ORet | OFuel.

(* the loop skeleton shared by all DDP loops: test (runs once more than the body), body, code after a continue,
   code after a break, code after the loop ended by its test *)
Fixpoint loop_iter (rtest rbody roncont ronbrk ronexit : rstate -> outcome * rstate)
         (n : nat) (skip : bool) (cnt : option nat) (st : rstate) {struct n} : outcome * rstate :=
  match n with
  | O => (OFuel, st)
  | S n' =>
    let go_body (cnt' : option nat) (st2 : rstate) :=
        match rbody st2 with
        | (ONormal, st3) => loop_iter rtest rbody roncont ronbrk ronexit n' false cnt' st3
        | (OContinue, st3) => match roncont st3 with
                              | (ONormal, st4) => loop_iter rtest rbody roncont ronbrk ronexit n' false cnt' st4
                              | r => r
                              end
        | (OBreak, st3) => ronbrk st3
        | r => r
        end in
    if skip then go_body cnt st
    else match rtest st with
         | (ONormal, st1) =>
           match cnt with
           | None => let (c, st2) := next_bool st1 in
                     if c then go_body None st2 else ronexit st2
           | Some (S c) => go_body (Some c) st1
           | Some O => ronexit st1
           end
         | r => r
         end
  end.

Fixpoint run (fuel : nat) (i : instr) (st : rstate) {struct i} : outcome * rstate :=
  match i with
  | ISkip => (ONormal, st)
  | ISeq a b => match run fuel a st with
                | (ONormal, st1) => run fuel b st1
                | r => r
                end
  | IUse _ => (ONormal, st)
  | INew d n => let (b, st1) := alloc st n in (ONormal, sset st1 d (Res [b]))
  | ICopy d p =>
    if place_eqb p (PSlot d) then (ONormal, st)
    else let (l, st1) := copy_blocks st (read_place st p) in (ONormal, sset st1 d (Res l))
  | IMove d s => (ONormal, sset st d (sget (r_store st) s))
  | IFree s =>
    (* generated free functions release the components first, then the value's own buffer *)
    let l := blocks_of (sget (r_store st) s) in (ONormal, free_blocks st (tl l ++ [hd None l]))
  | IConcat d a pb =>
    (* operators.c:127-152 on proper texts: both empty -> empty; left empty -> copy of right; right empty -> left
       moved; otherwise realloc(left, cap_l, cap_l - 1 + cap_r).  The result takes over whatever else the left
       operand owned; the left operand is emptied. *)
    let ba := blocks_of (sget (r_store st) a) in
    let lb := hd None (read_place st pb) in
    match hd None ba, lb with
    | None, None => (ONormal, sset (sset st d (Res (None :: tl ba))) a (Res [None]))
    | None, Some (_, nb) => let (b, st1) := alloc st nb in (ONormal, sset (sset st1 d (Res (b :: tl ba))) a (Res [None]))
    | Some b0, None => (ONormal, sset (sset st d (Res (Some b0 :: tl ba))) a (Res [None]))
    | Some (ida, na), Some (_, nb) =>
      let n := (na - 1 + nb)%N in
      if N.eqb n na then
        (* ddp_reallocate returns the block unchanged when the size does not change *)
        (ONormal, sset (sset (emit st (Ev ida na na ida)) d (Res (Some (ida, na) :: tl ba))) a (Res [None]))
      else
        let id := r_next st in
        let st1 := mkR (r_store st) (N.succ id) (Ev ida na n id :: r_led st) (r_oracle st) in
        (ONormal, sset (sset st1 d (Res (Some (id, n) :: tl ba))) a (Res [None]))
    end
  | IGrow d a n =>
    (* memory.c:9-42: n = 0 frees, same size returns the block, NULL allocates, otherwise realloc *)
    let ba := blocks_of (sget (r_store st) a) in
    match hd None ba with
    | None => let (b, st1) := alloc st n in (ONormal, sset (sset st1 d (Res (b :: tl ba))) a (Res [None]))
    | Some (ida, na) =>
      if N.eqb n 0 then
        (ONormal, sset (sset (emit st (Ev ida na 0 0)) d (Res (None :: tl ba))) a (Res [None]))
      else if N.eqb n na then
        (ONormal, sset (sset (emit st (Ev ida na na ida)) d (Res (Some (ida, na) :: tl ba))) a (Res [None]))
      else
        let id := r_next st in
        let st1 := mkR (r_store st) (N.succ id) (Ev ida na n id :: r_led st) (r_oracle st) in
        (ONormal, sset (sset st1 d (Res (Some (id, n) :: tl ba))) a (Res [None]))
    end
  | IOverwritePart s k src =>
    (ONormal, sset st s (Res (put_part (blocks_of (sget (r_store st) s)) k (blocks_of (sget (r_store st) src)))))
  | IAbsorb d s =>
    (ONormal, sset st d (Res (blocks_of (sget (r_store st) d) ++ blocks_of (sget (r_store st) s))))
  | IAbsorbCopy d p =>
    let (l, st1) := copy_blocks st (read_place st p) in
    (ONormal, sset st1 d (Res (blocks_of (sget (r_store st1) d) ++ l)))
  | IAssignPart s k src =>
    let ls := blocks_of (sget (r_store st) s) in
    let st1 := free_blocks st [nth k ls None] in
    (ONormal, sset st1 s (Res (put_part ls k (blocks_of (sget (r_store st) src)))))
  | IAssignPartCopy s k p =>
    let ls := blocks_of (sget (r_store st) s) in
    let st1 := free_blocks st [nth k ls None] in
    if place_eqb p (PPart s k) then (ONormal, st1)
    else let (l, st2) := copy_blocks st1 (read_place st1 p) in
         (ONormal, sset st2 s (Res (put_part ls k l)))
  | IIf a b => let (c, st1) := next_bool st in if c then run fuel a st1 else run fuel b st1
  | ILoop skipfirst cnt test body oncont onbrk onexit =>
    loop_iter (run fuel test) (run fuel body) (run fuel oncont) (run fuel onbrk) (run fuel onexit) fuel skipfirst cnt st
  | IBreak => (OBreak, st)
  | IContinue => (OContinue, st)
  | IRet => (ORet, st)
  | IFun _ _ body => match run fuel body st with
                     | (ORet, st1) => (ONormal, st1)
                     | r => r
                     end
  end.

Definition init_rstate (oracle : list bool) : rstate := mkR [] 2%N [] oracle.

(* the ledger of a run of the compiled program: Some L iff it terminates normally within the fuel *)
Definition run_program (fuel : nat) (oracle : list bool) (P : program) : option ledger :=
  match compile P with
  | None => None
  | Some code => match run fuel code (init_rstate oracle) with
                 | (ONormal, st) => Some (rev (r_led st))
                 | _ => None
                 end
  end.
