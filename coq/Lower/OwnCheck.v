(* A static ownership discipline for the ownership actions of Own.v, and nothing else: which stack
   slots own a (possibly empty) resource at each program point.  `own_check` is executable (it is
   extracted and run on every skeleton of the correspondence stream); OwnProofs.own_check_sound
   shows that every run of code accepted by it yields a balanced ledger on EVERY exit path
   (fallthrough, break, continue, return), for every oracle and fuel.

   state  = (own, dead): `own` slots hold an initialised resource whose blocks are live and owned by
            exactly this slot; `dead` slots hold the empty value (freeing them is harmless); every
            other slot is uninitialised or stale and must not be read, moved or freed. *)
From Coq Require Import List NArith Bool Arith.
Import ListNotations.
From DDP Require Import Rt.Heap Lower.Own.

Record ost := mkO { o_own : list nat; o_dead : list nat }.

Fixpoint mem (x : nat) (l : list nat) : bool :=
  match l with [] => false | y :: r => Nat.eqb x y || mem x r end.
Fixpoint ins (x : nat) (l : list nat) : list nat :=       (* sorted insert, no duplicates *)
  match l with
  | [] => [x]
  | y :: r => if Nat.ltb x y then x :: l else if Nat.eqb x y then l else y :: ins x r
  end.
Definition del (x : nat) (l : list nat) : list nat := filter (fun y => negb (Nat.eqb x y)) l.
Definition inter (a b : list nat) : list nat := filter (fun x => mem x b) a.
Definition subset (a b : list nat) : bool := forallb (fun x => mem x b) a.
Fixpoint leq (a b : list nat) : bool :=
  match a, b with
  | [], [] => true
  | x :: a', y :: b' => Nat.eqb x y && leq a' b'
  | _, _ => false
  end.

(* G' may be used where G is expected: same owners, at least the dead slots G promises *)
Definition sub (G' G : ost) : bool := leq (o_own G') (o_own G) && subset (o_dead G) (o_dead G').

Definition join (a b : option ost) : option (option ost) :=
  match a, b with
  | None, x => Some x
  | x, None => Some x
  | Some A, Some B =>
    if leq (o_own A) (o_own B) then Some (Some (mkO (o_own A) (inter (o_dead A) (o_dead B)))) else None
  end.

Record ctx := mkCtx {
  k_cont : option (instr * ost);     (* code run after a continue, state required at the loop head *)
  k_brk : option (instr * ost);      (* code run after a break, state required behind the loop *)
  k_ret : option ost                 (* state required at a return of the enclosing inlined function *)
}.
Definition ctx0 : ctx := mkCtx None None None.

Definition writable (d : nat) (G : ost) : bool := negb (mem d (o_own G)).
Definition give (d : nat) (G : ost) : ost := mkO (ins d (o_own G)) (del d (o_dead G)).
Definition take (s : nat) (G : ost) : ost := mkO (del s (o_own G)) (o_dead G).

(* straight-line code only (what may follow a break or continue: frees) *)
Fixpoint check_simple (i : instr) (G : ost) : option ost :=
  match i with
  | ISkip => Some G
  | ISeq a b => match check_simple a G with Some S1 => check_simple b S1 | None => None end
  | IFree s => if mem s (o_own G) then Some (take s G)
               else if mem s (o_dead G) then Some G else None
  | _ => None
  end.

Fixpoint own_check (K : ctx) (i : instr) (G : ost) {struct i} : option (option ost) :=
  match i with
  | ISkip => Some (Some G)
  | ISeq a b => match own_check K a G with
                | Some (Some S1) => own_check K b S1
                | r => r
                end
  | IUse p => if mem (root p) (o_own G) then Some (Some G) else None    (* no read of a place whose owner is gone *)
  | INew d n => if writable d G then Some (Some (give d G)) else None
  | ICopy d p => if writable d G && mem (root p) (o_own G) then Some (Some (give d G)) else None
  | IMove d s => if writable d G && mem s (o_own G) && negb (Nat.eqb d s) then Some (Some (give d (take s G))) else None
  | IFree s => if mem s (o_own G) then Some (Some (take s G))
               else if mem s (o_dead G) then Some (Some G) else None
  | IConcat d a pb =>
    if writable d G && mem a (o_own G) && mem (root pb) (o_own G) && negb (Nat.eqb d a) && negb (Nat.eqb (root pb) a)
    then let S1 := take a G in Some (Some (give d (mkO (o_own S1) (ins a (o_dead S1)))))
    else None
  | IGrow d a n =>
    if writable d G && mem a (o_own G) && negb (Nat.eqb d a)
    then let G1 := take a G in Some (Some (give d (mkO (o_own G1) (ins a (o_dead G1)))))
    else None
  | IOverwritePart _ _ _ => None          (* overwriting an owner loses what it owned: never accepted *)
  | IAbsorb d s => if mem d (o_own G) && mem s (o_own G) && negb (Nat.eqb d s) then Some (Some (take s G)) else None
  | IAbsorbCopy d p => if mem d (o_own G) && mem (root p) (o_own G) then Some (Some G) else None
  | IAssignPart s k src =>
    if mem s (o_own G) && mem src (o_own G) && negb (Nat.eqb s src) then Some (Some (take src G)) else None
  | IAssignPartCopy s k p =>
    if mem s (o_own G) && mem (root p) (o_own G) && negb (Nat.eqb (root p) s) then Some (Some G) else None
  | IIf a b => match own_check K a G, own_check K b G with
               | Some ra, Some rb => join ra rb
               | _, _ => None
               end
  | ILoop skipfirst cnt test body oncont onbrk onexit =>
    (* the test must not change the state (it runs once more than the body); the body and every
       continue must re-establish the state at the loop head; every break must arrive at the exit state *)
    match own_check ctx0 test G with
    | Some (Some St) =>
      if sub St G then
        match check_simple onexit G with
        | Some Sout =>
          let K' := mkCtx (Some (oncont, G)) (Some (onbrk, Sout)) (k_ret K) in
          match own_check K' body G with
          | Some None => Some (Some Sout)
          | Some (Some Sb) => if sub Sb G then Some (Some Sout) else None
          | None => None
          end
        | None => None
        end
      else None
    | _ => None
    end
  | IBreak => match k_brk K with
              | Some (onbrk, Sout) => match check_simple onbrk G with
                                      | Some S1 => if sub S1 Sout then Some None else None
                                      | None => None
                                      end
              | None => None
              end
  | IContinue => match k_cont K with
                 | Some (oncont, Shead) => match check_simple oncont G with
                                           | Some S1 => if sub S1 Shead then Some None else None
                                           | None => None
                                           end
                 | None => None
                 end
  | IRet => match k_ret K with
            | Some R => if sub G R then Some None else None
            | None => None
            end
  | IFun consumed ret body =>
    if forallb (fun s => mem s (o_own G)) consumed
       && (match ret with Some r => writable r G && negb (mem r consumed) | None => true end)
    then
      let R0 := fold_right take G consumed in
      let R := match ret with Some r => give r R0 | None => R0 end in
      match own_check (mkCtx None None (Some R)) body G with
      | Some None => Some (Some R)
      | Some (Some Sf) => if sub Sf R then Some (Some R) else None
      | None => None
      end
    else None
  end.

(* a compiled main program is accepted if it runs from "nothing owned" to "nothing owned" *)
Definition program_ok (P : program) : bool :=
  match compile P with
  | Some code => match own_check ctx0 code (mkO [] []) with
                 | Some (Some G) => match o_own G with [] => true | _ => false end
                 | _ => false
                 end
  | None => false
  end.
