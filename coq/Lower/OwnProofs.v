(* Soundness of the static ownership discipline (OwnCheck.own_check) for the run-time meaning of
   ownership actions (Own.run): accepted code yields a balanced ledger on every path. *)
From Coq Require Import List NArith Bool Arith Lia Permutation.
Import ListNotations.
From DDP Require Import Rt.Heap Rt.HeapProofs Lower.Own Lower.OwnCheck.

(* ------------------------------------------------------------------ finite sets as lists *)
Lemma mem_In : forall x l, mem x l = true <-> In x l.
Proof.
  induction l as [|y l IH]; cbn [mem In].
  - split; [discriminate | tauto].
  - rewrite orb_true_iff, IH, Nat.eqb_eq. split; intros [H|H]; auto.
Qed.
Lemma mem_false : forall x l, mem x l = false <-> ~ In x l.
Proof. intros x l. rewrite <- mem_In. destruct (mem x l); split; congruence. Qed.

Lemma ins_In : forall d l x, In x (ins d l) <-> x = d \/ In x l.
Proof.
  induction l as [|y l IH]; intro x; cbn [ins In].
  - intuition congruence.
  - destruct (Nat.ltb d y).
    + cbn [In]. intuition congruence.
    + destruct (Nat.eqb_spec d y) as [E|E].
      * subst y. cbn [In]. intuition congruence.
      * cbn [In]. rewrite IH. intuition congruence.
Qed.
Lemma ins_perm : forall d l, ~ In d l -> Permutation (ins d l) (d :: l).
Proof.
  induction l as [|y l IH]; intro H; cbn [ins].
  - apply Permutation_refl.
  - destruct (Nat.ltb d y); [apply Permutation_refl|].
    destruct (Nat.eqb_spec d y) as [E|E].
    + exfalso. apply H. left. auto.
    + eapply Permutation_trans; [apply perm_skip, IH | apply perm_swap].
      intro Hin. apply H. right. exact Hin.
Qed.
Lemma ins_nodup : forall d l, ~ In d l -> NoDup l -> NoDup (ins d l).
Proof.
  intros d l H N. eapply Permutation_NoDup; [apply Permutation_sym, ins_perm; exact H|].
  constructor; assumption.
Qed.
Lemma del_In : forall s l x, In x (del s l) <-> In x l /\ x <> s.
Proof.
  intros s l x. unfold del. rewrite filter_In. rewrite negb_true_iff, Nat.eqb_neq. intuition.
Qed.
Lemma del_nodup : forall s l, NoDup l -> NoDup (del s l).
Proof. intros. apply NoDup_filter. assumption. Qed.
Lemma del_perm : forall s l, NoDup l -> In s l -> Permutation l (s :: del s l).
Proof.
  induction l as [|y l IH]; intros N H.
  - destruct H.
  - inversion N as [|? ? Hn Hd]; subst. cbn [del filter].
    destruct (Nat.eqb_spec s y) as [E|E].
    + subst y. cbn [negb].
      assert (Hf : filter (fun y => negb (Nat.eqb s y)) l = l).
      { clear - Hn. induction l as [|z l IH]; [reflexivity|]. cbn [filter].
        destruct (Nat.eqb_spec s z) as [E|E].
        - exfalso. apply Hn. left. auto.
        - cbn [negb]. f_equal. apply IH. intro H. apply Hn. right. exact H. }
      rewrite Hf. apply Permutation_refl.
    + cbn [negb]. destruct H as [H|H]; [congruence|].
      eapply Permutation_trans; [apply perm_skip, (IH Hd H) | apply perm_swap].
Qed.
Lemma del_notin : forall s l, ~ In s l -> del s l = l.
Proof.
  induction l as [|z l IH]; intro H; [reflexivity|]. cbn [del filter].
  destruct (Nat.eqb_spec s z) as [E|E].
  - exfalso. apply H. left. auto.
  - cbn [negb]. f_equal. apply IH. intro Hin. apply H. right. exact Hin.
Qed.
Lemma leq_eq : forall a b, leq a b = true -> a = b.
Proof.
  induction a as [|x a IH]; destruct b as [|y b]; cbn [leq]; intro H; try discriminate H; [reflexivity|].
  apply andb_true_iff in H. destruct H as [H1 H2]. apply Nat.eqb_eq in H1. f_equal; [exact H1 | apply IH; exact H2].
Qed.
Lemma subset_incl : forall a b, subset a b = true <-> incl a b.
Proof.
  intros a b. unfold subset. rewrite forallb_forall. unfold incl.
  split; intros H x Hx; [apply mem_In | apply mem_In]; apply H; exact Hx.
Qed.
Lemma inter_In : forall a b x, In x (inter a b) <-> In x a /\ In x b.
Proof. intros. unfold inter. rewrite filter_In, mem_In. tauto. Qed.

(* ------------------------------------------------------------------ store *)
Lemma sget_sset : forall st d c s, sget (r_store (sset st d c)) s = if Nat.eqb s d then c else sget (r_store st) s.
Proof. intros. reflexivity. Qed.

Definition somes (l : list (option blk)) : list blk :=
  flat_map (fun x => match x with Some b => [b] | None => [] end) l.
Definition slot_blocks (st : rstate) (s : nat) : list blk := somes (blocks_of (sget (r_store st) s)).
Definition owned (st : rstate) (own : list nat) : list blk := flat_map (slot_blocks st) own.

Lemma somes_app : forall a b, somes (a ++ b) = somes a ++ somes b.
Proof. intros. unfold somes. apply flat_map_app. Qed.

Lemma owned_ext : forall st st' own, (forall s, In s own -> sget (r_store st') s = sget (r_store st) s) ->
  owned st' own = owned st own.
Proof.
  intros st st' own H. unfold owned. induction own as [|s own IH]; [reflexivity|]. cbn [flat_map].
  rewrite IH; [|intros x Hx; apply H; right; exact Hx]. unfold slot_blocks. rewrite (H s); [reflexivity | left; reflexivity].
Qed.

Lemma owned_perm : forall st a b, Permutation a b -> Permutation (owned st a) (owned st b).
Proof. intros. unfold owned. apply Permutation_flat_map. assumption. Qed.

(* ------------------------------------------------------------------ replaying the ledger *)
Fixpoint afold (a : aheap) (L : ledger) : option aheap :=
  match L with
  | [] => Some a
  | e :: L' => match astep a e with inl a' => afold a' L' | inr _ => None end
  end.

Lemma afold_app : forall L1 L2 a, afold a (L1 ++ L2) = match afold a L1 with Some a' => afold a' L2 | None => None end.
Proof.
  induction L1 as [|e L1 IH]; intros L2 a; cbn [afold app]; [reflexivity|].
  destruct (astep a e); [apply IH | reflexivity].
Qed.

Lemma areplay_afold : forall L a i, areplay a i L = Balanced <-> afold a L = Some [].
Proof.
  induction L as [|e L IH]; intros a i; cbn [areplay afold].
  - destruct a as [|x a]; split; intro H; try reflexivity; try discriminate H.
  - destruct (astep a e); [apply IH | split; intro H; discriminate H].
Qed.

Lemma balancedb_afold : forall L, balancedb L = true <-> afold [] L = Some [].
Proof.
  intro L. unfold balancedb, check_ledger. rewrite <- (areplay_afold L [] 0%N).
  destruct (areplay [] 0 L); split; intro H; congruence.
Qed.

(* ------------------------------------------------------------------ the run-time invariant *)
Open Scope N_scope.

Definition heap_is (st : rstate) (B : list blk) : Prop :=
  exists a, afold [] (rev (r_led st)) = Some a /\ forall id n, alook a id = Some n <-> In (id, n) B.

Record Inv (G : ost) (st : rstate) : Prop := mkInv {
  inv_nd : NoDup (o_own G);
  inv_res : forall s, In s (o_own G) -> exists l, sget (r_store st) s = Res l;
  inv_dead : forall s, In s (o_dead G) -> exists l, sget (r_store st) s = Res l /\ somes l = [];
  inv_disj : forall s, In s (o_dead G) -> ~ In s (o_own G);
  inv_heap : heap_is st (owned st (o_own G));
  inv_uniq : NoDup (map fst (owned st (o_own G)));
  inv_fresh : forall id n, In (id, n) (owned st (o_own G)) -> 2 <= id < r_next st /\ n <> 0;
  inv_next : 2 <= r_next st
}.

Lemma Inv_sub : forall G' G st, Inv G' st -> sub G' G = true -> Inv G st.
Proof.
  intros G' G st [Hnd Hres Hdead Hdisj Hheap Huniq Hfresh Hnext] H.
  unfold sub in H. apply andb_true_iff in H. destruct H as [H1 H2].
  apply leq_eq in H1. apply subset_incl in H2.
  constructor; try rewrite <- H1; try assumption.
  - intros s Hs. apply Hdead. apply H2. exact Hs.
  - intros s Hs. apply Hdisj. apply H2. exact Hs.
Qed.

Lemma sub_refl_own : forall l, leq l l = true.
Proof. induction l as [|x l IH]; cbn [leq]; [reflexivity|]. rewrite Nat.eqb_refl. exact IH. Qed.

Lemma sub_refl : forall G, sub G G = true.
Proof.
  intro G. unfold sub. apply andb_true_iff. split.
  - induction (o_own G) as [|x l IH]; cbn [leq]; [reflexivity|]. rewrite Nat.eqb_refl. exact IH.
  - apply subset_incl. apply incl_refl.
Qed.

(* what only depends on the store / on the ledger *)
Lemma heap_is_perm : forall st B B', heap_is st B -> (forall x, In x B <-> In x B') -> heap_is st B'.
Proof. intros st B B' [a [Ha Hl]] HB. exists a. split; [exact Ha|]. intros id n. rewrite Hl. apply HB. Qed.

Lemma heap_is_store : forall st st' B, r_led st' = r_led st -> heap_is st B -> heap_is st' B.
Proof. intros st st' B E [a [Ha Hl]]. exists a. rewrite E. split; assumption. Qed.

(* one more event *)
Lemma afold_snoc : forall st e a, afold [] (rev (r_led st)) = Some a ->
  afold [] (rev (e :: r_led st)) = match astep a e with inl a' => Some a' | inr _ => None end.
Proof.
  intros st e a H. cbn [rev]. rewrite afold_app, H. cbn [afold]. destruct (astep a e); reflexivity.
Qed.

Lemma heap_alloc : forall st B id n,
  heap_is st B -> id <> 0 -> n <> 0 -> (forall m, ~ In (id, m) B) ->
  forall st', r_led st' = Ev 0 0 n id :: r_led st -> heap_is st' ((id, n) :: B).
Proof.
  intros st B id n [a [Ha Hl]] Hid Hn Hfr st' E.
  exists ((id, n) :: a). split.
  - rewrite E. rewrite (afold_snoc st _ a Ha). cbn [astep N.eqb negb].
    destruct (N.eqb_spec n 0) as [E1|_]; [congruence|].
    destruct (N.eqb_spec id 0) as [E1|_]; [congruence|].
    destruct (alook a id) as [m|] eqn:El; [|reflexivity].
    exfalso. apply (Hfr m). apply Hl. exact El.
  - intros id' n'. cbn [alook In]. destruct (N.eqb_spec id id') as [E1|E1].
    + subst id'. split.
      * intro H. inversion H; subst. left. reflexivity.
      * intros [H|H]; [inversion H; reflexivity|]. exfalso. apply (Hfr n'). exact H.
    + rewrite Hl. split; [intro H; right; exact H|].
      intros [H|H]; [inversion H; congruence | exact H].
Qed.

Lemma heap_free : forall st B id n,
  heap_is st B -> NoDup (map fst B) -> In (id, n) B -> id <> 0 ->
  forall st', r_led st' = Ev id n 0 0 :: r_led st ->
  heap_is st' (filter (fun b => negb (N.eqb (fst b) id)) B).
Proof.
  intros st B id n [a [Ha Hl]] Hnd Hin Hid st' E.
  exists (adel a id). split.
  - rewrite E. rewrite (afold_snoc st _ a Ha). cbn [astep].
    destruct (N.eqb_spec id 0) as [E1|_]; [congruence|].
    apply Hl in Hin. rewrite Hin. rewrite N.eqb_refl. cbn [negb N.eqb]. reflexivity.
  - intros id' n'. rewrite alook_adel. rewrite filter_In. cbn [fst].
    destruct (N.eqb_spec id' id) as [E1|E1]; cbn [negb].
    + split; [discriminate | intros [_ H]; discriminate H].
    + rewrite Hl. tauto.
Qed.

Lemma heap_same : forall st B id n,
  heap_is st B -> In (id, n) B -> id <> 0 -> n <> 0 ->
  forall st', r_led st' = Ev id n n id :: r_led st -> heap_is st' B.
Proof.
  intros st B id n [a [Ha Hl]] Hin Hid Hn st' E.
  exists a. split; [|exact Hl].
  rewrite E. rewrite (afold_snoc st _ a Ha). cbn [astep].
  destruct (N.eqb_spec id 0) as [E1|_]; [congruence|].
  apply Hl in Hin. rewrite Hin. rewrite N.eqb_refl. cbn [negb].
  destruct (N.eqb_spec n 0) as [E1|_]; [congruence|]. rewrite !N.eqb_refl. reflexivity.
Qed.

Lemma heap_realloc : forall st B ida na id n,
  heap_is st B -> NoDup (map fst B) -> In (ida, na) B -> ida <> 0 -> id <> 0 -> n <> 0 -> na <> n ->
  (forall m, ~ In (id, m) B) ->
  forall st', r_led st' = Ev ida na n id :: r_led st ->
  heap_is st' ((id, n) :: filter (fun b => negb (N.eqb (fst b) ida)) B).
Proof.
  intros st B ida na id n [a [Ha Hl]] Hnd Hin Hida Hid Hn Hne Hfr st' E.
  exists ((id, n) :: adel a ida). split.
  - rewrite E. rewrite (afold_snoc st _ a Ha). cbn [astep].
    destruct (N.eqb_spec ida 0) as [E1|_]; [congruence|].
    apply Hl in Hin. rewrite Hin. rewrite N.eqb_refl. cbn [negb].
    destruct (N.eqb_spec n 0) as [E1|_]; [congruence|].
    destruct (N.eqb_spec na n) as [E1|_]; [congruence|].
    destruct (N.eqb_spec id 0) as [E1|_]; [congruence|].
    rewrite alook_adel. destruct (N.eqb_spec id ida) as [E1|E1]; [reflexivity|].
    destruct (alook a id) as [m|] eqn:El; [|reflexivity].
    exfalso. apply (Hfr m). apply Hl. exact El.
  - intros id' n'. cbn [alook In]. destruct (N.eqb_spec id id') as [E1|E1].
    + subst id'. split.
      * intro H. inversion H; subst. left. reflexivity.
      * intros [H|H]; [inversion H; reflexivity|]. apply filter_In in H. destruct H as [H _].
        exfalso. apply (Hfr n'). exact H.
    + rewrite alook_adel. rewrite filter_In. cbn [fst].
      destruct (N.eqb_spec id' ida) as [E2|E2]; cbn [negb].
      * split; [discriminate|]. intros [H|[_ H]]; [inversion H; congruence | discriminate H].
      * rewrite Hl. split; [intro H; right; split; [exact H | reflexivity]|].
        intros [H|[H _]]; [inversion H; congruence | exact H].
Qed.

(* ------------------------------------------------------------------ allocation, copies, frees *)
Lemma alloc_spec : forall st n b st1, alloc st n = (b, st1) ->
  r_store st1 = r_store st /\ r_oracle st1 = r_oracle st /\
  ((n = 0 /\ b = None /\ st1 = st) \/
   (n <> 0 /\ b = Some (r_next st, n) /\ r_next st1 = N.succ (r_next st) /\ r_led st1 = Ev 0 0 n (r_next st) :: r_led st)).
Proof.
  intros st n b st1 H. unfold alloc in H. destruct (N.eqb_spec n 0) as [E|E].
  - inversion H; subst. split; [reflexivity|]. split; [reflexivity|]. left. auto.
  - inversion H; subst. cbn. split; [reflexivity|]. split; [reflexivity|]. right. auto.
Qed.

Definition sizes_ok (l : list (option blk)) : Prop := forall id n, In (id, n) (somes l) -> n <> 0.
Definition below (B : list blk) (k : N) : Prop := forall id n, In (id, n) B -> id < k.

Lemma somes_cons_some : forall b l, somes (Some b :: l) = b :: somes l.
Proof. reflexivity. Qed.
Lemma somes_cons_none : forall l, somes (None :: l) = somes l.
Proof. reflexivity. Qed.

Lemma copy_blocks_spec : forall l st l' st' B,
  copy_blocks st l = (l', st') -> sizes_ok l -> heap_is st B -> below B (r_next st) -> 2 <= r_next st ->
  r_store st' = r_store st /\ r_next st <= r_next st' /\
  heap_is st' (somes l' ++ B) /\ NoDup (map fst (somes l')) /\
  (forall id n, In (id, n) (somes l') -> r_next st <= id < r_next st' /\ n <> 0).
Proof.
  induction l as [|x l IH]; intros st l' st' B H Hs HB Hbel Hnext; cbn [copy_blocks] in H.
  - inversion H; subst. cbn [somes flat_map app map].
    split; [reflexivity|]. split; [lia|]. split; [exact HB|]. split; [constructor|]. intros i m [].
  - destruct x as [[idx nx]|].
    + destruct (alloc st nx) as [b st1] eqn:Ea.
      destruct (copy_blocks st1 l) as [r' st2] eqn:Ec. inversion H; subst l' st'. clear H.
      destruct (alloc_spec _ _ _ _ Ea) as [Est [_ [[En _]|[En [Eb [Enx Eled]]]]]].
      { exfalso. apply (Hs idx nx); [left; reflexivity | exact En]. }
      subst b.
      assert (Hs' : sizes_ok l) by (intros id n Hin; apply (Hs id n); right; exact Hin).
      assert (HB1 : heap_is st1 ((r_next st, nx) :: B)).
      { eapply heap_alloc; [exact HB | lia | exact En | | exact Eled].
        intros m Hin. apply Hbel in Hin. lia. }
      assert (Hbel1 : below ((r_next st, nx) :: B) (r_next st1)).
      { intros id n [Hin|Hin]; [inversion Hin; subst; lia | apply Hbel in Hin; lia]. }
      destruct (IH st1 r' st2 _ Ec Hs' HB1 Hbel1 ltac:(lia)) as [E1 [E2 [E3 [E4 E5]]]].
      rewrite somes_cons_some. cbn [map fst app].
      split; [congruence|]. split; [lia|]. split; [|split].
      * eapply heap_is_perm; [exact E3|]. intro y. rewrite !in_app_iff. cbn [In]. rewrite in_app_iff. tauto.
      * constructor; [|exact E4]. intro Hin. apply in_map_iff in Hin. destruct Hin as [[id n] [Hf Hin]].
        cbn [fst] in Hf. subst id. apply E5 in Hin. lia.
      * intros id n [Hin|Hin]; [inversion Hin; subst; split; [lia | exact En] | apply E5 in Hin; lia].
    + destruct (copy_blocks st l) as [r' st2] eqn:Ec. inversion H; subst l' st'. clear H.
      assert (Hs' : sizes_ok l) by (intros id n Hin; apply (Hs id n); exact Hin).
      rewrite somes_cons_none. eapply IH; eassumption.
Qed.

Definition ids (B : list blk) : list N := map fst B.
Fixpoint memN (x : N) (l : list N) : bool := match l with [] => false | y :: r => N.eqb x y || memN x r end.
Lemma memN_In : forall x l, memN x l = true <-> In x l.
Proof.
  induction l as [|y l IH]; cbn [memN In]; [split; [discriminate | tauto]|].
  rewrite orb_true_iff, IH, N.eqb_eq. split; intros [H|H]; auto.
Qed.
Definition minus (B F : list blk) : list blk := filter (fun b => negb (memN (fst b) (ids F))) B.

Lemma minus_In : forall B F x, In x (minus B F) <-> In x B /\ ~ In (fst x) (ids F).
Proof.
  intros. unfold minus. rewrite filter_In, negb_true_iff. rewrite <- memN_In.
  destruct (memN (fst x) (ids F)); intuition congruence.
Qed.

Lemma free_blocks_spec : forall l st B,
  heap_is st B -> NoDup (map fst B) -> incl (somes l) B -> NoDup (map fst (somes l)) -> (forall id n, In (id, n) (somes l) -> id <> 0) ->
  let st' := free_blocks st l in
  r_store st' = r_store st /\ r_next st' = r_next st /\ r_oracle st' = r_oracle st /\ heap_is st' (minus B (somes l)).
Proof.
  induction l as [|x l IH]; intros st B HB Hnd Hincl Hnd2 Hnz; cbn [free_blocks].
  - repeat split; try reflexivity. eapply heap_is_perm; [exact HB|]. intro y. rewrite minus_In. cbn. tauto.
  - destruct x as [[id n]|].
    + rewrite somes_cons_some in *. cbn [map fst] in Hnd2. inversion Hnd2 as [|? ? Hn1 Hn2]; subst.
      assert (Hin : In (id, n) B) by (apply Hincl; left; reflexivity).
      assert (Hid : id <> 0) by (apply (Hnz id n); left; reflexivity).
      set (st1 := emit st (Ev id n 0 0)).
      assert (HB1 : heap_is st1 (filter (fun b => negb (N.eqb (fst b) id)) B)).
      { eapply heap_free; [exact HB | exact Hnd | exact Hin | exact Hid | reflexivity]. }
      assert (Hnd1 : NoDup (map fst (filter (fun b => negb (N.eqb (fst b) id)) B))).
      { clear - Hnd. induction B as [|[i m] B IHB]; cbn [filter map fst]; [constructor|].
        inversion Hnd as [|? ? Ha Hb]; subst. cbn [fst]. destruct (N.eqb i id); cbn [negb].
        - apply IHB; exact Hb.
        - cbn [map fst]. constructor; [|apply IHB; exact Hb]. intro Hin. apply Ha.
          apply in_map_iff in Hin. destruct Hin as [y [Hy1 Hy2]]. apply filter_In in Hy2.
          apply in_map_iff. exists y. tauto. }
      assert (Hincl1 : incl (somes l) (filter (fun b => negb (N.eqb (fst b) id)) B)).
      { intros [i m] Hy. apply filter_In. split; [apply Hincl; right; exact Hy|]. cbn [fst].
        destruct (N.eqb_spec i id) as [E|E]; [|reflexivity]. subst i. exfalso. apply Hn1.
        apply in_map_iff. exists (id, m). split; [reflexivity | exact Hy]. }
      destruct (IH st1 _ HB1 Hnd1 Hincl1 Hn2 ltac:(intros i m Hy; apply (Hnz i m); right; exact Hy)) as [E1 [E2 [E3 E4]]].
      split; [exact E1|]. split; [exact E2|]. split; [exact E3|].
      eapply heap_is_perm; [exact E4|]. intros [i m]. rewrite !minus_In, filter_In. cbn [fst ids map In].
      destruct (N.eqb_spec i id) as [E|E]; cbn [negb]; intuition congruence.
    + rewrite somes_cons_none in *. apply IH; assumption.
Qed.

(* ------------------------------------------------------------------ re-establishing the invariant *)
Lemma Inv_intro : forall G' st' B,
  NoDup (o_own G') ->
  (forall s, In s (o_own G') -> exists l, sget (r_store st') s = Res l) ->
  (forall s, In s (o_dead G') -> exists l, sget (r_store st') s = Res l /\ somes l = []) ->
  (forall s, In s (o_dead G') -> ~ In s (o_own G')) ->
  Permutation B (owned st' (o_own G')) ->
  heap_is st' B -> NoDup (map fst B) ->
  (forall id n, In (id, n) B -> 2 <= id < r_next st' /\ n <> 0) -> 2 <= r_next st' ->
  Inv G' st'.
Proof.
  intros G' st' B H1 H2 H3 H4 HP H5 H6 H7 H8. constructor; try assumption.
  - eapply heap_is_perm; [exact H5|]. intro x. split; intro Hx.
    + eapply Permutation_in; [exact HP | exact Hx].
    + eapply Permutation_in; [apply Permutation_sym; exact HP | exact Hx].
  - eapply Permutation_NoDup; [apply Permutation_map; exact HP | exact H6].
  - intros id n Hin. apply H7. eapply Permutation_in; [apply Permutation_sym; exact HP | exact Hin].
Qed.

Lemma owned_cons : forall st s own, owned st (s :: own) = slot_blocks st s ++ owned st own.
Proof. reflexivity. Qed.

Lemma owned_take_perm : forall st s own, NoDup own -> In s own ->
  Permutation (owned st own) (slot_blocks st s ++ owned st (del s own)).
Proof.
  intros st s own N H. rewrite <- owned_cons. apply owned_perm. apply del_perm; assumption.
Qed.

Lemma owned_give_perm : forall st d own, ~ In d own ->
  Permutation (owned st (ins d own)) (slot_blocks st d ++ owned st own).
Proof.
  intros st d own H. rewrite <- owned_cons. apply owned_perm. apply ins_perm. exact H.
Qed.

Lemma owned_other : forall st st' d own, ~ In d own ->
  (forall s, s <> d -> sget (r_store st') s = sget (r_store st) s) -> owned st' own = owned st own.
Proof.
  intros st st' d own H Hs. apply owned_ext. intros s Hin. apply Hs. intro E. subst s. exact (H Hin).
Qed.

Lemma slot_blocks_in_owned : forall st s own b, In s own -> In b (slot_blocks st s) -> In b (owned st own).
Proof. intros st s own b Hs Hb. unfold owned. apply in_flat_map. exists s. split; assumption. Qed.

Lemma NoDup_app_l : forall (A : Type) (l1 l2 : list A), NoDup (l1 ++ l2) -> NoDup l1.
Proof.
  induction l1 as [|x l1 IH]; intros l2 H; [constructor|]. cbn [app] in H. inversion H as [|? ? Hn Hd]; subst.
  constructor; [|eapply IH; exact Hd]. intro Hin. apply Hn. apply in_or_app. left. exact Hin.
Qed.
Lemma NoDup_app_r : forall (A : Type) (l1 l2 : list A), NoDup (l1 ++ l2) -> NoDup l2.
Proof.
  induction l1 as [|x l1 IH]; intros l2 H; [exact H|]. cbn [app] in H. inversion H; subst. apply IH. assumption.
Qed.
Lemma NoDup_app_intro : forall (A : Type) (l1 l2 : list A), NoDup l1 -> NoDup l2 ->
  (forall x, In x l1 -> In x l2 -> False) -> NoDup (l1 ++ l2).
Proof.
  induction l1 as [|x l1 IH]; intros l2 H1 H2 Hd; [exact H2|]. cbn [app]. inversion H1 as [|? ? Hn Hd1]; subst.
  constructor.
  - intro Hin. apply in_app_or in Hin. destruct Hin as [Hin|Hin]; [exact (Hn Hin) | apply (Hd x); [left; reflexivity | exact Hin]].
  - apply IH; [exact Hd1 | exact H2|]. intros y Hy1 Hy2. apply (Hd y); [right; exact Hy1 | exact Hy2].
Qed.
Lemma NoDup_map_app_l : forall (A B : Type) (f : A -> B) l1 l2, NoDup (map f (l1 ++ l2)) -> NoDup (map f l1).
Proof. intros A B f l1 l2 H. rewrite map_app in H. eapply NoDup_app_l; exact H. Qed.
Lemma NoDup_map_app_r : forall (A B : Type) (f : A -> B) l1 l2, NoDup (map f (l1 ++ l2)) -> NoDup (map f l2).
Proof. intros A B f l1 l2 H. rewrite map_app in H. eapply NoDup_app_r; exact H. Qed.
Lemma NoDup_map_app_disj : forall (A B : Type) (f : A -> B) l1 l2 x y,
  NoDup (map f (l1 ++ l2)) -> In x l1 -> In y l2 -> f x <> f y.
Proof.
  intros A B f l1 l2 x y H Hx Hy E. rewrite map_app in H.
  induction l1 as [|z l1 IH]; [destruct Hx|]. cbn [map app] in H. inversion H as [|? ? Hn Hd]; subst.
  destruct Hx as [Hx|Hx].
  - subst z. apply Hn. apply in_or_app. right. rewrite E. apply in_map. exact Hy.
  - apply IH; assumption.
Qed.

(* blocks of one owner are not blocks of the others *)
Lemma owned_split_minus : forall st s own, NoDup own -> In s own -> NoDup (map fst (owned st own)) ->
  forall x, In x (minus (owned st own) (slot_blocks st s)) <-> In x (owned st (del s own)).
Proof.
  intros st s own N Hs Hnd x. rewrite minus_In.
  pose proof (owned_take_perm st s own N Hs) as HP.
  assert (Hnd' : NoDup (map fst (slot_blocks st s ++ owned st (del s own)))).
  { eapply Permutation_NoDup; [apply Permutation_map; exact HP | exact Hnd]. }
  split.
  - intros [Hx Hni]. eapply Permutation_in in Hx; [|exact HP]. apply in_app_or in Hx. destruct Hx as [Hx|Hx]; [|exact Hx].
    exfalso. apply Hni. unfold ids. apply in_map. exact Hx.
  - intro Hx. split.
    + eapply Permutation_in; [apply Permutation_sym; exact HP|]. apply in_or_app. right. exact Hx.
    + intro Hi. unfold ids in Hi. apply in_map_iff in Hi. destruct Hi as [y [Hy1 Hy2]].
      apply (NoDup_map_app_disj _ _ fst _ _ y x Hnd' Hy2 Hx). exact Hy1.
Qed.

Lemma free_blocks_nones : forall l st, somes l = [] -> free_blocks st l = st.
Proof.
  induction l as [|x l IH]; intros st H; [reflexivity|]. destruct x as [[id n]|].
  - rewrite somes_cons_some in H. discriminate H.
  - cbn [free_blocks]. apply IH. exact H.
Qed.

Lemma somes_rot : forall l, Permutation (somes (tl l ++ [hd None l])) (somes l).
Proof.
  intros [|x l]; cbn [tl hd app]; [apply Permutation_refl|].
  rewrite somes_app. change (x :: l) with ([x] ++ l). rewrite (somes_app [x] l). apply Permutation_app_comm.
Qed.

Lemma give_dead_ok : forall G st st' d,
  (forall s, In s (o_dead G) -> exists l, sget (r_store st) s = Res l /\ somes l = []) ->
  (forall s, s <> d -> sget (r_store st') s = sget (r_store st) s) ->
  forall s, In s (del d (o_dead G)) -> exists l, sget (r_store st') s = Res l /\ somes l = [].
Proof.
  intros G st st' d Hd Hs s Hin. apply del_In in Hin. destruct Hin as [Hin Hne].
  rewrite (Hs s Hne). apply Hd. exact Hin.
Qed.

(* ------------------------------------------------------------------ single actions *)
Lemma writable_notin : forall d G, writable d G = true -> ~ In d (o_own G).
Proof. intros d G H. unfold writable in H. apply negb_true_iff in H. apply mem_false in H. exact H. Qed.

Lemma below_owned : forall G st, Inv G st -> below (owned st (o_own G)) (r_next st).
Proof. intros G st I id n Hin. apply (inv_fresh _ _ I) in Hin. lia. Qed.

Lemma give_nodup : forall d G, NoDup (o_own G) -> ~ In d (o_own G) -> NoDup (o_own (give d G)).
Proof. intros. cbn. apply ins_nodup; assumption. Qed.

Lemma give_disj : forall d G, (forall s, In s (o_dead G) -> ~ In s (o_own G)) ->
  forall s, In s (o_dead (give d G)) -> ~ In s (o_own (give d G)).
Proof.
  intros d G H s Hs. cbn in *. apply del_In in Hs. destruct Hs as [Hs Hne]. rewrite ins_In.
  intros [E|Hin]; [congruence | exact (H s Hs Hin)].
Qed.

Lemma sound_INew : forall K G st d n G', Inv G st -> own_check K (INew d n) G = Some (Some G') ->
  forall fuel, exists st', run fuel (INew d n) st = (ONormal, st') /\ Inv G' st'.
Proof.
  intros K G st d n G' I H fuel. cbn [own_check] in H. destruct (writable d G) eqn:W; [|discriminate H].
  inversion H; subst G'. clear H. apply writable_notin in W.
  cbn [run]. destruct (alloc st n) as [b st1] eqn:Ea. eexists. split; [reflexivity|].
  destruct (alloc_spec _ _ _ _ Ea) as [Est [_ Hc]].
  assert (Hsg : forall s, s <> d -> sget (r_store (sset st1 d (Res [b]))) s = sget (r_store st) s).
  { intros s Hne. rewrite sget_sset. apply Nat.eqb_neq in Hne. rewrite Hne. rewrite Est. reflexivity. }
  assert (Hown : owned (sset st1 d (Res [b])) (o_own G) = owned st (o_own G)) by (eapply owned_other; eassumption).
  apply Inv_intro with (B := somes [b] ++ owned st (o_own G)).
  - apply give_nodup; [apply (inv_nd _ _ I) | exact W].
  - intros s Hs. cbn in Hs. apply ins_In in Hs. rewrite sget_sset. destruct (Nat.eqb_spec s d) as [E|E]; [eexists; reflexivity|].
    destruct Hs as [Hs|Hs]; [congruence|]. rewrite Est. apply (inv_res _ _ I). exact Hs.
  - cbn [give o_dead]. eapply give_dead_ok; [apply (inv_dead _ _ I) | exact Hsg].
  - apply give_disj. apply (inv_disj _ _ I).
  - cbn [give o_own]. eapply Permutation_trans; [|apply Permutation_sym, owned_give_perm; exact W].
    rewrite Hown. unfold slot_blocks. rewrite sget_sset, Nat.eqb_refl. apply Permutation_refl.
  - destruct Hc as [[En [Eb Es]]|[En [Eb [Enx Eled]]]].
    + subst b st1. cbn [somes flat_map app]. eapply heap_is_store; [|apply (inv_heap _ _ I)]. reflexivity.
    + subst b. rewrite somes_cons_some. cbn [somes flat_map app].
      eapply heap_alloc; [apply (inv_heap _ _ I) | | exact En | | exact Eled].
      * pose proof (inv_next _ _ I). lia.
      * intros m Hin. apply (inv_fresh _ _ I) in Hin. lia.
  - destruct Hc as [[En [Eb Es]]|[En [Eb [Enx Eled]]]].
    + subst b. cbn [somes flat_map app]. apply (inv_uniq _ _ I).
    + subst b. rewrite somes_cons_some. cbn [somes flat_map app map fst]. constructor; [|apply (inv_uniq _ _ I)].
      intro Hin. apply in_map_iff in Hin. destruct Hin as [[i m] [Hf Hin]]. cbn [fst] in Hf. subst i.
      apply (inv_fresh _ _ I) in Hin. lia.
  - intros id m Hin. destruct Hc as [[En [Eb Es]]|[En [Eb [Enx Eled]]]].
    + subst b st1. cbn [somes flat_map app] in Hin. apply (inv_fresh _ _ I) in Hin. exact Hin.
    + subst b. rewrite somes_cons_some in Hin. cbn [somes flat_map app] in Hin. cbn [r_next sset]. rewrite Enx.
      destruct Hin as [Hin|Hin].
      * inversion Hin; subst. pose proof (inv_next _ _ I). split; [lia | exact En].
      * apply (inv_fresh _ _ I) in Hin. lia.
  - cbn [r_next sset]. destruct Hc as [[En [Eb Es]]|[En [Eb [Enx Eled]]]].
    + subst st1. apply (inv_next _ _ I).
    + rewrite Enx. pose proof (inv_next _ _ I). lia.
Qed.

Lemma read_place_in : forall G st p, Inv G st -> In (root p) (o_own G) ->
  incl (somes (read_place st p)) (slot_blocks st (root p)).
Proof.
  intros G st p I Hin. destruct p as [s|s k|s]; cbn [read_place root] in *.
  - unfold slot_blocks. apply incl_refl.
  - unfold slot_blocks. intros b Hb. cbn [somes flat_map] in Hb. rewrite app_nil_r in Hb.
    destruct (nth_in_or_default k (blocks_of (sget (r_store st) s)) None) as [Hn|Hn].
    + destruct (nth k (blocks_of (sget (r_store st) s)) None) as [b'|] eqn:E; [|destruct Hb].
      destruct Hb as [Hb|[]]. subst b'. unfold somes. apply in_flat_map. exists (Some b). split; [exact Hn | left; reflexivity].
    + rewrite Hn in Hb. destruct Hb.
  - unfold slot_blocks. intros b Hb. destruct (blocks_of (sget (r_store st) s)) as [|x l]; [exact Hb|].
    cbn [tl] in Hb. change (x :: l) with ([x] ++ l). rewrite somes_app. apply in_or_app. right. exact Hb.
Qed.

Lemma read_place_sizes : forall G st p, Inv G st -> In (root p) (o_own G) -> sizes_ok (read_place st p).
Proof.
  intros G st p I Hin id n Hb. apply (read_place_in G st p I Hin) in Hb.
  apply (inv_fresh _ _ I id n). eapply slot_blocks_in_owned; eassumption.
Qed.

Lemma sound_ICopy : forall K G st d p G', Inv G st -> own_check K (ICopy d p) G = Some (Some G') ->
  forall fuel, exists st', run fuel (ICopy d p) st = (ONormal, st') /\ Inv G' st'.
Proof.
  intros K G st d p G' I H fuel. cbn [own_check] in H.
  destruct (writable d G) eqn:W; cbn [andb] in H; [|discriminate H].
  destruct (mem (root p) (o_own G)) eqn:M; [|discriminate H]. inversion H; subst G'. clear H.
  apply writable_notin in W. apply mem_In in M.
  cbn [run]. assert (Hpe : place_eqb p (PSlot d) = false).
  { destruct p as [s|s k|s]; cbn [place_eqb]; [|reflexivity|reflexivity]. apply Nat.eqb_neq. intro E. subst s. exact (W M). }
  rewrite Hpe. destruct (copy_blocks st (read_place st p)) as [l st1] eqn:Ec.
  eexists. split; [reflexivity|].
  destruct (copy_blocks_spec _ _ _ _ _ Ec (read_place_sizes _ _ _ I M) (inv_heap _ _ I) (below_owned _ _ I) (inv_next _ _ I))
    as [Est [Hnx [Hh [Hnd Hfr]]]].
  assert (Hsg : forall s, s <> d -> sget (r_store (sset st1 d (Res l))) s = sget (r_store st) s).
  { intros s Hne. rewrite sget_sset. apply Nat.eqb_neq in Hne. rewrite Hne, Est. reflexivity. }
  assert (Hown : owned (sset st1 d (Res l)) (o_own G) = owned st (o_own G)) by (eapply owned_other; eassumption).
  apply Inv_intro with (B := somes l ++ owned st (o_own G)).
  - apply give_nodup; [apply (inv_nd _ _ I) | exact W].
  - intros s Hs. cbn in Hs. apply ins_In in Hs. rewrite sget_sset. destruct (Nat.eqb_spec s d) as [E|E]; [eexists; reflexivity|].
    destruct Hs as [Hs|Hs]; [congruence|]. rewrite Est. apply (inv_res _ _ I). exact Hs.
  - cbn [give o_dead]. eapply give_dead_ok; [apply (inv_dead _ _ I) | exact Hsg].
  - apply give_disj. apply (inv_disj _ _ I).
  - cbn [give o_own]. eapply Permutation_trans; [|apply Permutation_sym, owned_give_perm; exact W].
    rewrite Hown. unfold slot_blocks. rewrite sget_sset, Nat.eqb_refl. apply Permutation_refl.
  - eapply heap_is_store; [|exact Hh]. reflexivity.
  - rewrite map_app. apply NoDup_app_intro; [exact Hnd | apply (inv_uniq _ _ I)|].
    intros x Hx1 Hx2. apply in_map_iff in Hx1. destruct Hx1 as [[i m] [Hf Hi]]. cbn [fst] in Hf. subst i.
    apply in_map_iff in Hx2. destruct Hx2 as [[i' m'] [Hf' Hi']]. cbn [fst] in Hf'. subst i'.
    apply Hfr in Hi. apply (inv_fresh _ _ I) in Hi'. lia.
  - intros id m Hin. cbn [r_next sset]. apply in_app_or in Hin. destruct Hin as [Hin|Hin].
    + apply Hfr in Hin. pose proof (inv_next _ _ I). lia.
    + apply (inv_fresh _ _ I) in Hin. lia.
  - cbn [r_next sset]. pose proof (inv_next _ _ I). lia.
Qed.

Lemma sound_IMove : forall K G st d s G', Inv G st -> own_check K (IMove d s) G = Some (Some G') ->
  forall fuel, exists st', run fuel (IMove d s) st = (ONormal, st') /\ Inv G' st'.
Proof.
  intros K G st d s G' I H fuel. cbn [own_check] in H.
  destruct (writable d G) eqn:W; cbn [andb] in H; [|discriminate H].
  destruct (mem s (o_own G)) eqn:M; cbn [andb] in H; [|discriminate H].
  destruct (Nat.eqb_spec d s) as [E|Ne]; cbn [negb] in H; [discriminate H|]. inversion H; subst G'. clear H.
  apply writable_notin in W. apply mem_In in M.
  cbn [run]. eexists. split; [reflexivity|].
  set (st' := sset st d (sget (r_store st) s)).
  assert (Hsg : forall x, x <> d -> sget (r_store st') x = sget (r_store st) x).
  { intros x Hne. unfold st'. rewrite sget_sset. apply Nat.eqb_neq in Hne. rewrite Hne. reflexivity. }
  assert (Wd : ~ In d (del s (o_own G))) by (intro Hd; apply del_In in Hd; tauto).
  apply Inv_intro with (B := owned st (o_own G)).
  - cbn [give take o_own]. apply ins_nodup; [exact Wd | apply del_nodup, (inv_nd _ _ I)].
  - intros x Hx. cbn [give take o_own] in Hx. apply ins_In in Hx. destruct (Nat.eqb_spec x d) as [E|E].
    + subst x. unfold st'. rewrite sget_sset, Nat.eqb_refl. apply (inv_res _ _ I). exact M.
    + destruct Hx as [Hx|Hx]; [congruence|]. rewrite (Hsg x E). apply (inv_res _ _ I). apply del_In in Hx. tauto.
  - cbn [give take o_dead]. eapply give_dead_ok; [apply (inv_dead _ _ I) | exact Hsg].
  - intros x Hx. cbn [give take o_dead o_own] in *. apply del_In in Hx. destruct Hx as [Hx Hne]. rewrite ins_In.
    intros [E|Hin]; [congruence|]. apply del_In in Hin. apply (inv_disj _ _ I x Hx). tauto.
  - cbn [give take o_own]. eapply Permutation_trans; [|apply Permutation_sym, owned_give_perm; exact Wd].
    rewrite (owned_other st st' d _ Wd Hsg).
    replace (slot_blocks st' d) with (slot_blocks st s).
    + apply owned_take_perm; [apply (inv_nd _ _ I) | exact M].
    + unfold slot_blocks, st'. rewrite sget_sset, Nat.eqb_refl. reflexivity.
  - eapply heap_is_store; [|apply (inv_heap _ _ I)]. reflexivity.
  - apply (inv_uniq _ _ I).
  - intros id n Hin. apply (inv_fresh _ _ I) in Hin. exact Hin.
  - apply (inv_next _ _ I).
Qed.

Lemma sound_IFree : forall K G st s G', Inv G st -> own_check K (IFree s) G = Some (Some G') ->
  forall fuel, exists st', run fuel (IFree s) st = (ONormal, st') /\ Inv G' st'.
Proof.
  intros K G st s G' I H fuel. cbn [own_check] in H. cbn [run]. eexists. split; [reflexivity|].
  destruct (mem s (o_own G)) eqn:M.
  - inversion H; subst G'. clear H. apply mem_In in M.
    destruct (inv_res _ _ I s M) as [l El]. rewrite El. cbn [blocks_of].
    set (F := tl l ++ [hd None l]).
    assert (HPF : Permutation (somes F) (slot_blocks st s)).
    { unfold slot_blocks. rewrite El. cbn [blocks_of]. apply somes_rot. }
    pose proof (owned_take_perm st s _ (inv_nd _ _ I) M) as HP.
    assert (Hnd' : NoDup (map fst (slot_blocks st s ++ owned st (del s (o_own G))))).
    { eapply Permutation_NoDup; [apply Permutation_map; exact HP | apply (inv_uniq _ _ I)]. }
    assert (Hincl : incl (somes F) (owned st (o_own G))).
    { intros b Hb. eapply slot_blocks_in_owned; [exact M|]. eapply Permutation_in; [exact HPF | exact Hb]. }
    assert (HndF : NoDup (map fst (somes F))).
    { eapply Permutation_NoDup; [apply Permutation_map, Permutation_sym; exact HPF|]. eapply NoDup_map_app_l; exact Hnd'. }
    assert (Hnz : forall id n, In (id, n) (somes F) -> id <> 0).
    { intros id n Hb. apply Hincl in Hb. apply (inv_fresh _ _ I) in Hb. lia. }
    destruct (free_blocks_spec F st _ (inv_heap _ _ I) (inv_uniq _ _ I) Hincl HndF Hnz) as [Est [Enx [_ Hh]]].
    set (st' := free_blocks st F) in *.
    assert (Hown : owned st' (del s (o_own G)) = owned st (del s (o_own G))).
    { apply owned_ext. intros x _. rewrite Est. reflexivity. }
    apply Inv_intro with (B := owned st (del s (o_own G))).
    + cbn [take o_own]. apply del_nodup, (inv_nd _ _ I).
    + intros x Hx. cbn [take o_own] in Hx. apply del_In in Hx. rewrite Est. apply (inv_res _ _ I). tauto.
    + intros x Hx. cbn [take o_dead] in Hx. rewrite Est. apply (inv_dead _ _ I). exact Hx.
    + intros x Hx. cbn [take o_dead o_own] in *. intro Hin. apply del_In in Hin. apply (inv_disj _ _ I x Hx). tauto.
    + cbn [take o_own]. rewrite Hown. apply Permutation_refl.
    + eapply heap_is_perm; [exact Hh|]. intro x.
      rewrite <- (owned_split_minus st s _ (inv_nd _ _ I) M (inv_uniq _ _ I) x). rewrite !minus_In.
      assert (Hids : In (fst x) (ids (somes F)) <-> In (fst x) (ids (slot_blocks st s))).
      { unfold ids. split; intro Hi; (eapply Permutation_in; [apply Permutation_map | exact Hi]); [exact HPF | apply Permutation_sym; exact HPF]. }
      tauto.
    + eapply NoDup_map_app_r; exact Hnd'.
    + intros id n Hin. rewrite Enx. apply (inv_fresh _ _ I id n).
      eapply Permutation_in; [apply Permutation_sym; exact HP|]. apply in_or_app. right. exact Hin.
    + rewrite Enx. apply (inv_next _ _ I).
  - destruct (mem s (o_dead G)) eqn:Md; [|discriminate H]. inversion H; subst G'. clear H. apply mem_In in Md.
    destruct (inv_dead _ _ I s Md) as [l [El Hs]]. rewrite El. cbn [blocks_of].
    rewrite free_blocks_nones; [exact I|].
    destruct l as [|x l]; [reflexivity|]. cbn [tl hd]. rewrite somes_app.
    destruct x as [b|]; [rewrite somes_cons_some in Hs; discriminate Hs|]. rewrite somes_cons_none in Hs. rewrite Hs. reflexivity.
Qed.

(* the store after a concatenation: d holds the result, a is emptied *)
Lemma concat_frame : forall G st stX d a newd,
  Inv G st -> r_store stX = r_store st -> ~ In d (o_own G) -> In a (o_own G) -> d <> a ->
  let st' := sset (sset stX d (Res newd)) a (Res [None]) in
  let G' := give d (mkO (del a (o_own G)) (ins a (o_dead G))) in
  NoDup (o_own G') /\
  (forall s, In s (o_own G') -> exists l, sget (r_store st') s = Res l) /\
  (forall s, In s (o_dead G') -> exists l, sget (r_store st') s = Res l /\ somes l = []) /\
  (forall s, In s (o_dead G') -> ~ In s (o_own G')) /\
  Permutation (somes newd ++ owned st (del a (o_own G))) (owned st' (o_own G')).
Proof.
  intros G st stX d a newd I Est W Ha Hda st' G'.
  assert (Hget : forall x, sget (r_store st') x = if Nat.eqb x a then Res [None] else if Nat.eqb x d then Res newd else sget (r_store st) x).
  { intro x. unfold st'. rewrite !sget_sset. rewrite Est. reflexivity. }
  assert (Wd : ~ In d (del a (o_own G))) by (intro Hd; apply del_In in Hd; tauto).
  assert (Wa : ~ In a (del a (o_own G))) by (intro Hd; apply del_In in Hd; tauto).
  split; [|split; [|split; [|split]]].
  - cbn. apply ins_nodup; [exact Wd | apply del_nodup, (inv_nd _ _ I)].
  - intros s Hs. cbn in Hs. apply ins_In in Hs. rewrite Hget.
    destruct (Nat.eqb_spec s a); [eexists; reflexivity|]. destruct (Nat.eqb_spec s d); [eexists; reflexivity|].
    destruct Hs as [Hs|Hs]; [congruence|]. apply del_In in Hs. apply (inv_res _ _ I). tauto.
  - intros s Hs. cbn in Hs. apply del_In in Hs. destruct Hs as [Hs Hne]. apply ins_In in Hs. rewrite Hget.
    destruct (Nat.eqb_spec s a); [exists [None]; split; reflexivity|]. destruct (Nat.eqb_spec s d); [congruence|].
    destruct Hs as [Hs|Hs]; [congruence|]. apply (inv_dead _ _ I). exact Hs.
  - intros s Hs. cbn in *. apply del_In in Hs. destruct Hs as [Hs Hne]. apply ins_In in Hs. rewrite ins_In.
    intros [E|Hin]; [congruence|]. apply del_In in Hin. destruct Hin as [Hin Hna].
    destruct Hs as [Hs|Hs]; [congruence|]. exact (inv_disj _ _ I s Hs Hin).
  - cbn [G' give o_own]. eapply Permutation_trans; [|apply Permutation_sym, owned_give_perm; exact Wd].
    replace (slot_blocks st' d) with (somes newd).
    + apply Permutation_app_head. replace (owned st' (del a (o_own G))) with (owned st (del a (o_own G))); [apply Permutation_refl|].
      symmetry. apply owned_ext. intros x Hx. rewrite Hget.
      destruct (Nat.eqb_spec x a); [subst x; contradiction|]. destruct (Nat.eqb_spec x d); [subst x; contradiction | reflexivity].
    + unfold slot_blocks. rewrite Hget. destruct (Nat.eqb_spec d a); [contradiction|]. rewrite Nat.eqb_refl. reflexivity.
Qed.

Lemma somes_hd_tl : forall l, somes l = somes [hd None l] ++ somes (tl l).
Proof. intros [|x l]; [reflexivity|]. cbn [hd tl]. change (x :: l) with ([x] ++ l). apply somes_app. Qed.

(* with unique ids, removing one id removes exactly that block *)
Lemma filter_one : forall (b : blk) (R : list blk), NoDup (map fst (b :: R)) ->
  forall x, In x (filter (fun y => negb (N.eqb (fst y) (fst b))) (b :: R)) <-> In x R.
Proof.
  intros b R Hnd x. rewrite filter_In. cbn [In]. inversion Hnd as [|? ? Hn Hd]; subst. split.
  - intros [[E|Hx] Hf]; [subst x; rewrite N.eqb_refl in Hf; discriminate Hf | exact Hx].
  - intro Hx. split; [right; exact Hx|]. apply negb_true_iff. apply N.eqb_neq. intro E. apply Hn.
    rewrite <- E. apply in_map. exact Hx.
Qed.

Lemma sound_IConcat : forall K G st d a pb G', Inv G st -> own_check K (IConcat d a pb) G = Some (Some G') ->
  forall fuel, exists st', run fuel (IConcat d a pb) st = (ONormal, st') /\ Inv G' st'.
Proof.
  intros K G st d a pb G' I H fuel. cbn [own_check] in H.
  destruct (writable d G) eqn:W; cbn [andb] in H; [|discriminate H].
  destruct (mem a (o_own G)) eqn:Ma; cbn [andb] in H; [|discriminate H].
  destruct (mem (root pb) (o_own G)) eqn:Mb; cbn [andb] in H; [|discriminate H].
  destruct (Nat.eqb_spec d a) as [E|Hda]; cbn [negb andb] in H; [discriminate H|].
  destruct (Nat.eqb_spec (root pb) a) as [E|Hba]; cbn [negb] in H; [discriminate H|].
  inversion H; subst G'. clear H. apply writable_notin in W. apply mem_In in Ma. apply mem_In in Mb.
  destruct (inv_res _ _ I a Ma) as [ba Eba].
  pose proof (owned_take_perm st a _ (inv_nd _ _ I) Ma) as HP.
  assert (Hsa : slot_blocks st a = somes [hd None ba] ++ somes (tl ba)).
  { unfold slot_blocks. rewrite Eba. cbn [blocks_of]. apply somes_hd_tl. }
  assert (Hnd' : NoDup (map fst (slot_blocks st a ++ owned st (del a (o_own G))))).
  { eapply Permutation_NoDup; [apply Permutation_map; exact HP | apply (inv_uniq _ _ I)]. }
  assert (Hlb : forall i nb, hd None (read_place st pb) = Some (i, nb) -> nb <> 0).
  { intros i nb E. apply (read_place_sizes _ _ _ I Mb i nb). destruct (read_place st pb) as [|x r]; [discriminate E|].
    cbn [hd] in E. subst x. rewrite somes_cons_some. left. reflexivity. }
  cbn [run]. rewrite Eba. cbn [blocks_of].
  destruct (hd None ba) as [[ida na]|] eqn:Eh; destruct (hd None (read_place st pb)) as [[ib nb]|] eqn:El.
  - (* both non-empty *)
    assert (Hina : In (ida, na) (owned st (o_own G))).
    { eapply Permutation_in; [apply Permutation_sym; exact HP|]. apply in_or_app. left. rewrite Hsa. left. reflexivity. }
    pose proof (inv_fresh _ _ I _ _ Hina) as [Hida Hna]. pose proof (Hlb _ _ eq_refl) as Hnb.
    destruct (N.eqb_spec (na - 1 + nb) na) as [En|En].
    + eexists. split; [reflexivity|].
      destruct (concat_frame G st (emit st (Ev ida na na ida)) d a (Some (ida, na) :: tl ba) I eq_refl W Ma Hda) as [F1 [F2 [F3 [F4 F5]]]].
      apply Inv_intro with (B := owned st (o_own G)); try assumption.
      * eapply Permutation_trans; [exact HP|]. eapply Permutation_trans; [|exact F5].
        apply Permutation_app_tail. rewrite Hsa. rewrite somes_cons_some. apply Permutation_refl.
      * eapply heap_same; [apply (inv_heap _ _ I) | exact Hina | lia | exact Hna | reflexivity].
      * apply (inv_uniq _ _ I).
      * intros id n Hin. apply (inv_fresh _ _ I) in Hin. exact Hin.
      * apply (inv_next _ _ I).
    + eexists. split; [reflexivity|].
      set (n := na - 1 + nb) in *. set (id := r_next st).
      set (stX := mkR (r_store st) (N.succ id) (Ev ida na n id :: r_led st) (r_oracle st)).
      destruct (concat_frame G st stX d a (Some (id, n) :: tl ba) I eq_refl W Ma Hda) as [F1 [F2 [F3 [F4 F5]]]].
      apply Inv_intro with (B := (id, n) :: somes (tl ba) ++ owned st (del a (o_own G))); try assumption.
      * assert (Hset : forall x, In x (filter (fun y => negb (N.eqb (fst y) ida)) (owned st (o_own G))) <->
                                 In x (somes (tl ba) ++ owned st (del a (o_own G)))).
        { intro x. rewrite <- (filter_one (ida, na) (somes (tl ba) ++ owned st (del a (o_own G)))).
          - cbn [fst]. rewrite !filter_In. rewrite Hsa in HP. cbn [somes flat_map app] in HP.
            split; intros [Hx Hf]; (split; [|exact Hf]); (eapply Permutation_in; [|exact Hx]); [exact HP | apply Permutation_sym; exact HP].
          - rewrite Hsa in Hnd'. exact Hnd'. }
        eapply heap_is_perm.
        -- eapply (heap_realloc st _ ida na id n (inv_heap _ _ I) (inv_uniq _ _ I) Hina); [lia | | | exact (not_eq_sym En) | | reflexivity].
           ++ pose proof (inv_next _ _ I). unfold id. lia.
           ++ unfold n. lia.
           ++ intros m Hin. apply (inv_fresh _ _ I) in Hin. unfold id in Hin. lia.
        -- intro x. cbn [In]. rewrite Hset. tauto.
      * cbn [map fst]. constructor.
        -- intro Hin. apply in_map_iff in Hin. destruct Hin as [[i m] [Hf Hin]]. cbn [fst] in Hf. subst i.
           assert (Hin2 : In (id, m) (owned st (o_own G))).
           { eapply Permutation_in; [apply Permutation_sym; exact HP|]. rewrite Hsa. apply in_app_or in Hin.
             apply in_or_app. destruct Hin as [Hin|Hin]; [left; apply in_or_app; right; exact Hin | right; exact Hin]. }
           apply (inv_fresh _ _ I) in Hin2. unfold id in Hin2. lia.
        -- rewrite Hsa in Hnd'. cbn [somes flat_map app map fst] in Hnd'. inversion Hnd'; assumption.
      * intros i m [Hin|Hin].
        -- inversion Hin; subst. cbn [r_next sset stX]. pose proof (inv_next _ _ I). unfold id, n. split; lia.
        -- assert (Hin2 : In (i, m) (owned st (o_own G))).
           { eapply Permutation_in; [apply Permutation_sym; exact HP|]. rewrite Hsa. apply in_app_or in Hin.
             apply in_or_app. destruct Hin as [Hin|Hin]; [left; apply in_or_app; right; exact Hin | right; exact Hin]. }
           apply (inv_fresh _ _ I) in Hin2. cbn [r_next sset stX]. unfold id. lia.
      * cbn [r_next sset stX]. pose proof (inv_next _ _ I). unfold id. lia.
  - (* right operand empty: the left operand's buffer is the result *)
    eexists. split; [reflexivity|].
    destruct (concat_frame G st st d a (Some (ida, na) :: tl ba) I eq_refl W Ma Hda) as [F1 [F2 [F3 [F4 F5]]]].
    apply Inv_intro with (B := owned st (o_own G)); try assumption.
    + eapply Permutation_trans; [exact HP|]. eapply Permutation_trans; [|exact F5].
      apply Permutation_app_tail. rewrite Hsa. rewrite somes_cons_some. apply Permutation_refl.
    + eapply heap_is_store; [|apply (inv_heap _ _ I)]. reflexivity.
    + apply (inv_uniq _ _ I).
    + intros id n Hin. apply (inv_fresh _ _ I) in Hin. exact Hin.
    + apply (inv_next _ _ I).
  - (* left operand empty: copy of the right operand *)
    pose proof (Hlb _ _ eq_refl) as Hnb.
    destruct (alloc st nb) as [b st1] eqn:Ea. eexists. split; [reflexivity|].
    destruct (alloc_spec _ _ _ _ Ea) as [Est [_ [[En _]|[_ [Eb [Enx Eled]]]]]]; [congruence|]. subst b.
    destruct (concat_frame G st st1 d a (Some (r_next st, nb) :: tl ba) I Est W Ma Hda) as [F1 [F2 [F3 [F4 F5]]]].
    apply Inv_intro with (B := (r_next st, nb) :: owned st (o_own G)); try assumption.
    + rewrite somes_cons_some in F5. eapply Permutation_trans; [|exact F5]. cbn [app]. apply perm_skip.
      eapply Permutation_trans; [exact HP|]. apply Permutation_app_tail. rewrite Hsa. cbn [somes flat_map app]. apply Permutation_refl.
    + eapply heap_is_store with (st := st1); [reflexivity|].
      eapply heap_alloc; [apply (inv_heap _ _ I) | | exact Hnb | | exact Eled].
      * pose proof (inv_next _ _ I). lia.
      * intros m Hin. apply (inv_fresh _ _ I) in Hin. lia.
    + cbn [map fst]. constructor; [|apply (inv_uniq _ _ I)].
      intro Hin. apply in_map_iff in Hin. destruct Hin as [[i m] [Hf Hin]]. cbn [fst] in Hf. subst i.
      apply (inv_fresh _ _ I) in Hin. lia.
    + intros i m [Hin|Hin]; cbn [r_next sset]; rewrite Enx.
      * inversion Hin; subst. pose proof (inv_next _ _ I). split; [lia | exact Hnb].
      * apply (inv_fresh _ _ I) in Hin. lia.
    + cbn [r_next sset]. rewrite Enx. pose proof (inv_next _ _ I). lia.
  - (* both empty *)
    eexists. split; [reflexivity|].
    destruct (concat_frame G st st d a (None :: tl ba) I eq_refl W Ma Hda) as [F1 [F2 [F3 [F4 F5]]]].
    apply Inv_intro with (B := owned st (o_own G)); try assumption.
    + eapply Permutation_trans; [exact HP|]. eapply Permutation_trans; [|exact F5].
      apply Permutation_app_tail. rewrite Hsa. rewrite somes_cons_none. cbn [somes flat_map app]. apply Permutation_refl.
    + eapply heap_is_store; [|apply (inv_heap _ _ I)]. reflexivity.
    + apply (inv_uniq _ _ I).
    + intros id n Hin. apply (inv_fresh _ _ I) in Hin. exact Hin.
    + apply (inv_next _ _ I).
Qed.

Lemma sound_IGrow : forall K G st d a n G', Inv G st -> own_check K (IGrow d a n) G = Some (Some G') ->
  forall fuel, exists st', run fuel (IGrow d a n) st = (ONormal, st') /\ Inv G' st'.
Proof.
  intros K G st d a n G' I H fuel. cbn [own_check] in H.
  destruct (writable d G) eqn:W; cbn [andb] in H; [|discriminate H].
  destruct (mem a (o_own G)) eqn:Ma; cbn [andb] in H; [|discriminate H].
  destruct (Nat.eqb_spec d a) as [E|Hda]; cbn [negb] in H; [discriminate H|].
  inversion H; subst G'. clear H. apply writable_notin in W. apply mem_In in Ma.
  destruct (inv_res _ _ I a Ma) as [ba Eba].
  pose proof (owned_take_perm st a _ (inv_nd _ _ I) Ma) as HP.
  assert (Hsa : slot_blocks st a = somes [hd None ba] ++ somes (tl ba)).
  { unfold slot_blocks. rewrite Eba. cbn [blocks_of]. apply somes_hd_tl. }
  assert (Hnd' : NoDup (map fst (slot_blocks st a ++ owned st (del a (o_own G))))).
  { eapply Permutation_NoDup; [apply Permutation_map; exact HP | apply (inv_uniq _ _ I)]. }
  cbn [run]. rewrite Eba. cbn [blocks_of].
  destruct (hd None ba) as [[ida na]|] eqn:Eh.
  - assert (Hina : In (ida, na) (owned st (o_own G))).
    { eapply Permutation_in; [apply Permutation_sym; exact HP|]. apply in_or_app. left. rewrite Hsa. left. reflexivity. }
    pose proof (inv_fresh _ _ I _ _ Hina) as [Hida Hna].
    assert (Hrest : forall i m, In (i, m) (somes (tl ba) ++ owned st (del a (o_own G))) -> In (i, m) (owned st (o_own G))).
    { intros i m Hin. eapply Permutation_in; [apply Permutation_sym; exact HP|]. rewrite Hsa. apply in_app_or in Hin.
      apply in_or_app. destruct Hin as [Hin|Hin]; [left; apply in_or_app; right; exact Hin | right; exact Hin]. }
    assert (Hset : forall x, In x (filter (fun y => negb (N.eqb (fst y) ida)) (owned st (o_own G))) <->
                             In x (somes (tl ba) ++ owned st (del a (o_own G)))).
    { intro x. rewrite <- (filter_one (ida, na) (somes (tl ba) ++ owned st (del a (o_own G)))).
      - cbn [fst]. rewrite !filter_In. rewrite Hsa in HP. cbn [somes flat_map app] in HP.
        split; intros [Hx Hf]; (split; [|exact Hf]); (eapply Permutation_in; [|exact Hx]); [exact HP | apply Permutation_sym; exact HP].
      - rewrite Hsa in Hnd'. exact Hnd'. }
    assert (HndR : NoDup (map fst (somes (tl ba) ++ owned st (del a (o_own G))))).
    { rewrite Hsa in Hnd'. cbn [somes flat_map app map fst] in Hnd'. inversion Hnd'; assumption. }
    destruct (N.eqb_spec n 0) as [En0|En0]; [|destruct (N.eqb_spec n na) as [En|En]].
    + (* realloc to 0 bytes frees the buffer *)
      eexists. split; [reflexivity|].
      destruct (concat_frame G st (emit st (Ev ida na 0 0)) d a (None :: tl ba) I eq_refl W Ma Hda) as [F1 [F2 [F3 [F4 F5]]]].
      apply Inv_intro with (B := somes (tl ba) ++ owned st (del a (o_own G))); try assumption.
      * eapply heap_is_perm; [|exact Hset].
        eapply (heap_free st _ ida na (inv_heap _ _ I) (inv_uniq _ _ I) Hina); [lia | reflexivity].
      * intros i m Hin. apply Hrest in Hin. apply (inv_fresh _ _ I) in Hin. exact Hin.
      * apply (inv_next _ _ I).
    + subst n. eexists. split; [reflexivity|].
      destruct (concat_frame G st (emit st (Ev ida na na ida)) d a (Some (ida, na) :: tl ba) I eq_refl W Ma Hda) as [F1 [F2 [F3 [F4 F5]]]].
      apply Inv_intro with (B := owned st (o_own G)); try assumption.
      * eapply Permutation_trans; [exact HP|]. eapply Permutation_trans; [|exact F5].
        apply Permutation_app_tail. rewrite Hsa. rewrite somes_cons_some. apply Permutation_refl.
      * eapply heap_same; [apply (inv_heap _ _ I) | exact Hina | lia | exact Hna | reflexivity].
      * apply (inv_uniq _ _ I).
      * intros id m Hin. apply (inv_fresh _ _ I) in Hin. exact Hin.
      * apply (inv_next _ _ I).
    + eexists. split; [reflexivity|]. set (id := r_next st).
      set (stX := mkR (r_store st) (N.succ id) (Ev ida na n id :: r_led st) (r_oracle st)).
      destruct (concat_frame G st stX d a (Some (id, n) :: tl ba) I eq_refl W Ma Hda) as [F1 [F2 [F3 [F4 F5]]]].
      apply Inv_intro with (B := (id, n) :: somes (tl ba) ++ owned st (del a (o_own G))); try assumption.
      * eapply heap_is_perm.
        -- eapply (heap_realloc st _ ida na id n (inv_heap _ _ I) (inv_uniq _ _ I) Hina); [lia | | exact En0 | exact (not_eq_sym En) | | reflexivity].
           ++ pose proof (inv_next _ _ I). unfold id. lia.
           ++ intros m Hin. apply (inv_fresh _ _ I) in Hin. unfold id in Hin. lia.
        -- intro x. cbn [In]. rewrite Hset. tauto.
      * cbn [map fst]. constructor; [|exact HndR].
        intro Hin. apply in_map_iff in Hin. destruct Hin as [[i m] [Hf Hin]]. cbn [fst] in Hf. subst i.
        apply Hrest in Hin. apply (inv_fresh _ _ I) in Hin. unfold id in Hin. lia.
      * intros i m [Hin|Hin].
        -- inversion Hin; subst. cbn [r_next sset stX]. pose proof (inv_next _ _ I). unfold id. split; [lia | exact En0].
        -- apply Hrest in Hin. apply (inv_fresh _ _ I) in Hin. cbn [r_next sset stX]. unfold id. lia.
      * cbn [r_next sset stX]. pose proof (inv_next _ _ I). unfold id. lia.
  - (* no buffer yet: plain allocation *)
    destruct (alloc st n) as [b st1] eqn:Ea. eexists. split; [reflexivity|].
    destruct (alloc_spec _ _ _ _ Ea) as [Est [_ Hc]].
    destruct (concat_frame G st st1 d a (b :: tl ba) I Est W Ma Hda) as [F1 [F2 [F3 [F4 F5]]]].
    assert (HP' : Permutation (owned st (o_own G)) (somes (tl ba) ++ owned st (del a (o_own G)))).
    { eapply Permutation_trans; [exact HP|]. apply Permutation_app_tail. rewrite Hsa. cbn [somes flat_map app]. apply Permutation_refl. }
    destruct Hc as [[En [Eb Es]]|[En [Eb [Enx Eled]]]].
    + subst b st1. apply Inv_intro with (B := owned st (o_own G)); try assumption.
      * eapply Permutation_trans; [exact HP'|]. rewrite somes_cons_none in F5. exact F5.
      * eapply heap_is_store; [|apply (inv_heap _ _ I)]. reflexivity.
      * apply (inv_uniq _ _ I).
      * intros id m Hin. apply (inv_fresh _ _ I) in Hin. exact Hin.
      * apply (inv_next _ _ I).
    + subst b. apply Inv_intro with (B := (r_next st, n) :: owned st (o_own G)); try assumption.
      * rewrite somes_cons_some in F5. eapply Permutation_trans; [|exact F5]. cbn [app]. apply perm_skip. exact HP'.
      * eapply heap_is_store with (st := st1); [reflexivity|].
        eapply heap_alloc; [apply (inv_heap _ _ I) | | exact En | | exact Eled].
        -- pose proof (inv_next _ _ I). lia.
        -- intros m Hin. apply (inv_fresh _ _ I) in Hin. lia.
      * cbn [map fst]. constructor; [|apply (inv_uniq _ _ I)].
        intro Hin. apply in_map_iff in Hin. destruct Hin as [[i m] [Hf Hin]]. cbn [fst] in Hf. subst i.
        apply (inv_fresh _ _ I) in Hin. lia.
      * intros i m [Hin|Hin]; cbn [r_next sset]; rewrite Enx.
        -- inversion Hin; subst. pose proof (inv_next _ _ I). split; [lia | exact En].
        -- apply (inv_fresh _ _ I) in Hin. lia.
      * cbn [r_next sset]. rewrite Enx. pose proof (inv_next _ _ I). lia.
Qed.

(* ------------------------------------------------------------------ containers *)
Lemma owned_update_perm : forall st st' d own, NoDup own -> In d own ->
  (forall x, x <> d -> sget (r_store st') x = sget (r_store st) x) ->
  Permutation (owned st' own) (slot_blocks st' d ++ owned st (del d own)).
Proof.
  intros st st' d own N Hd Hs. eapply Permutation_trans; [apply owned_take_perm; eassumption|].
  apply Permutation_app_head. replace (owned st' (del d own)) with (owned st (del d own)); [apply Permutation_refl|].
  symmetry. apply owned_ext. intros x Hx. apply Hs. apply del_In in Hx. tauto.
Qed.

Lemma set_nth_perm : forall l k (v : option blk), (k < length l)%nat ->
  Permutation (somes (set_nth l k v) ++ somes [nth k l None]) (somes l ++ somes [v]).
Proof.
  induction l as [|x l IH]; intros k v Hk; [cbn in Hk; lia|]. destruct k as [|k]; cbn [set_nth nth].
  - change (v :: l) with ([v] ++ l). change (x :: l) with ([x] ++ l). rewrite !somes_app.
    eapply Permutation_trans; [apply Permutation_app_comm|].
    rewrite <- app_assoc. apply Permutation_app_head. apply Permutation_app_comm.
  - cbn [length] in Hk. change (x :: set_nth l k v) with ([x] ++ set_nth l k v). change (x :: l) with ([x] ++ l).
    rewrite !somes_app. rewrite <- !app_assoc. apply Permutation_app_head. apply IH. lia.
Qed.

Lemma put_part_perm : forall l k v,
  Permutation (somes (put_part l k v) ++ somes [nth k l None]) (somes l ++ somes v).
Proof.
  intros l k v. unfold put_part. destruct (Nat.ltb_spec k (length l)) as [Hk|Hk].
  - rewrite somes_app. rewrite (somes_hd_tl v). rewrite <- app_assoc.
    eapply Permutation_trans; [apply Permutation_app_head, Permutation_app_comm|]. rewrite !app_assoc.
    apply Permutation_app_tail. apply set_nth_perm. exact Hk.
  - rewrite (nth_overflow _ _ Hk). cbn [somes flat_map app]. rewrite app_nil_r. rewrite somes_app. apply Permutation_refl.
Qed.

(* removing a sub-multiset F from B when all ids are unique *)
Lemma minus_of_perm : forall B X F, Permutation B (X ++ F) -> NoDup (map fst B) ->
  forall x, In x (minus B F) <-> In x X.
Proof.
  intros B X F HP Hnd x. rewrite minus_In.
  assert (Hnd' : NoDup (map fst (X ++ F))) by (eapply Permutation_NoDup; [apply Permutation_map; exact HP | exact Hnd]).
  split.
  - intros [Hx Hni]. eapply Permutation_in in Hx; [|exact HP]. apply in_app_or in Hx. destruct Hx as [Hx|Hx]; [exact Hx|].
    exfalso. apply Hni. unfold ids. apply in_map. exact Hx.
  - intro Hx. split.
    + eapply Permutation_in; [apply Permutation_sym; exact HP|]. apply in_or_app. left. exact Hx.
    + intro Hi. unfold ids in Hi. apply in_map_iff in Hi. destruct Hi as [y [Hy1 Hy2]].
      apply (NoDup_map_app_disj _ _ fst _ _ x y Hnd' Hx Hy2). symmetry. exact Hy1.
Qed.

Lemma nth_somes_incl : forall (l : list (option blk)) k, incl (somes [nth k l None]) (somes l).
Proof.
  intros l k b Hb. cbn [somes flat_map] in Hb. rewrite app_nil_r in Hb.
  destruct (nth_in_or_default k l None) as [Hn|Hn].
  - destruct (nth k l None) as [b'|]; [|destruct Hb]. destruct Hb as [Hb|[]]. subst b'.
    unfold somes. apply in_flat_map. exists (Some b). split; [exact Hn | left; reflexivity].
  - rewrite Hn in Hb. destruct Hb.
Qed.

Lemma NoDup_map_one : forall (l : list (option blk)) k, NoDup (map fst (somes [nth k l None])).
Proof.
  intros l k. cbn [somes flat_map]. rewrite app_nil_r. destruct (nth k l None) as [b|]; cbn [map]; repeat constructor. intros [].
Qed.

Lemma sound_IAbsorb : forall K G st d s G', Inv G st -> own_check K (IAbsorb d s) G = Some (Some G') ->
  forall fuel, exists st', run fuel (IAbsorb d s) st = (ONormal, st') /\ Inv G' st'.
Proof.
  intros K G st d s G' I H fuel. cbn [own_check] in H.
  destruct (mem d (o_own G)) eqn:Md; cbn [andb] in H; [|discriminate H].
  destruct (mem s (o_own G)) eqn:Ms; cbn [andb] in H; [|discriminate H].
  destruct (Nat.eqb_spec d s) as [E|Hds]; cbn [negb] in H; [discriminate H|]. inversion H; subst G'. clear H.
  apply mem_In in Md. apply mem_In in Ms. cbn [run]. eexists. split; [reflexivity|].
  destruct (inv_res _ _ I d Md) as [bd Ebd]. destruct (inv_res _ _ I s Ms) as [bs Ebs]. rewrite Ebd, Ebs. cbn [blocks_of].
  set (st' := sset st d (Res (bd ++ bs))).
  assert (Hsg : forall x, x <> d -> sget (r_store st') x = sget (r_store st) x).
  { intros x Hne. unfold st'. rewrite sget_sset. apply Nat.eqb_neq in Hne. rewrite Hne. reflexivity. }
  assert (Hd' : In d (del s (o_own G))) by (apply del_In; split; assumption).
  apply Inv_intro with (B := owned st (o_own G)).
  - cbn [take o_own]. apply del_nodup, (inv_nd _ _ I).
  - intros x Hx. cbn [take o_own] in Hx. apply del_In in Hx. destruct (Nat.eqb_spec x d) as [E|E].
    + subst x. unfold st'. rewrite sget_sset, Nat.eqb_refl. eexists; reflexivity.
    + rewrite (Hsg x E). apply (inv_res _ _ I). tauto.
  - intros x Hx. cbn [take o_dead] in Hx. assert (x <> d) by (intro E; subst x; exact (inv_disj _ _ I d Hx Md)).
    rewrite (Hsg x H). apply (inv_dead _ _ I). exact Hx.
  - intros x Hx. cbn [take o_dead o_own] in *. intro Hin. apply del_In in Hin. apply (inv_disj _ _ I x Hx). tauto.
  - cbn [take o_own].
    eapply Permutation_trans; [apply (owned_take_perm st s _ (inv_nd _ _ I) Ms)|].
    eapply Permutation_trans; [apply Permutation_app_head, (owned_take_perm st d _ (del_nodup s _ (inv_nd _ _ I)) Hd')|].
    eapply Permutation_trans; [|apply Permutation_sym, (owned_update_perm st st' d _ (del_nodup s _ (inv_nd _ _ I)) Hd' Hsg)].
    replace (slot_blocks st' d) with (slot_blocks st d ++ slot_blocks st s).
    + rewrite !app_assoc. apply Permutation_app_tail. apply Permutation_app_comm.
    + unfold slot_blocks, st'. rewrite sget_sset, Nat.eqb_refl, Ebd, Ebs. cbn [blocks_of]. rewrite somes_app. reflexivity.
  - eapply heap_is_store; [|apply (inv_heap _ _ I)]. reflexivity.
  - apply (inv_uniq _ _ I).
  - intros id n Hin. apply (inv_fresh _ _ I) in Hin. exact Hin.
  - apply (inv_next _ _ I).
Qed.

Lemma sound_IAbsorbCopy : forall K G st d p G', Inv G st -> own_check K (IAbsorbCopy d p) G = Some (Some G') ->
  forall fuel, exists st', run fuel (IAbsorbCopy d p) st = (ONormal, st') /\ Inv G' st'.
Proof.
  intros K G st d p G' I H fuel. cbn [own_check] in H.
  destruct (mem d (o_own G)) eqn:Md; cbn [andb] in H; [|discriminate H].
  destruct (mem (root p) (o_own G)) eqn:M; [|discriminate H]. inversion H; subst G'. clear H.
  apply mem_In in Md. apply mem_In in M. cbn [run].
  destruct (copy_blocks st (read_place st p)) as [l st1] eqn:Ec. eexists. split; [reflexivity|].
  destruct (copy_blocks_spec _ _ _ _ _ Ec (read_place_sizes _ _ _ I M) (inv_heap _ _ I) (below_owned _ _ I) (inv_next _ _ I))
    as [Est [Hnx [Hh [Hnd Hfr]]]].
  destruct (inv_res _ _ I d Md) as [bd Ebd]. rewrite Est, Ebd. cbn [blocks_of].
  set (st' := sset st1 d (Res (bd ++ l))).
  assert (Hsg : forall x, x <> d -> sget (r_store st') x = sget (r_store st) x).
  { intros x Hne. unfold st'. rewrite sget_sset. apply Nat.eqb_neq in Hne. rewrite Hne, Est. reflexivity. }
  apply Inv_intro with (B := somes l ++ owned st (o_own G)).
  - apply (inv_nd _ _ I).
  - intros x Hx. destruct (Nat.eqb_spec x d) as [E|E].
    + subst x. unfold st'. rewrite sget_sset, Nat.eqb_refl. eexists; reflexivity.
    + rewrite (Hsg x E). apply (inv_res _ _ I). exact Hx.
  - intros x Hx. assert (x <> d) by (intro E; subst x; exact (inv_disj _ _ I d Hx Md)).
    rewrite (Hsg x H). apply (inv_dead _ _ I). exact Hx.
  - apply (inv_disj _ _ I).
  - eapply Permutation_trans; [|apply Permutation_sym, (owned_update_perm st st' d _ (inv_nd _ _ I) Md Hsg)].
    eapply Permutation_trans; [apply Permutation_app_head, (owned_take_perm st d _ (inv_nd _ _ I) Md)|].
    replace (slot_blocks st' d) with (slot_blocks st d ++ somes l).
    + rewrite !app_assoc. apply Permutation_app_tail. apply Permutation_app_comm.
    + unfold slot_blocks, st'. rewrite sget_sset, Nat.eqb_refl, Ebd. cbn [blocks_of]. rewrite somes_app. reflexivity.
  - eapply heap_is_store; [|exact Hh]. reflexivity.
  - rewrite map_app. apply NoDup_app_intro; [exact Hnd | apply (inv_uniq _ _ I)|].
    intros x Hx1 Hx2. apply in_map_iff in Hx1. destruct Hx1 as [[i m] [Hf Hi]]. cbn [fst] in Hf. subst i.
    apply in_map_iff in Hx2. destruct Hx2 as [[i' m'] [Hf' Hi']]. cbn [fst] in Hf'. subst i'.
    apply Hfr in Hi. apply (inv_fresh _ _ I) in Hi'. lia.
  - intros id m Hin. cbn [r_next sset st']. apply in_app_or in Hin. destruct Hin as [Hin|Hin].
    + apply Hfr in Hin. pose proof (inv_next _ _ I). lia.
    + apply (inv_fresh _ _ I) in Hin. lia.
  - cbn [r_next sset st']. pose proof (inv_next _ _ I). lia.
Qed.

Lemma sound_IAssignPart : forall K G st s k src G', Inv G st -> own_check K (IAssignPart s k src) G = Some (Some G') ->
  forall fuel, exists st', run fuel (IAssignPart s k src) st = (ONormal, st') /\ Inv G' st'.
Proof.
  intros K G st s k src G' I H fuel. cbn [own_check] in H.
  destruct (mem s (o_own G)) eqn:Ms; cbn [andb] in H; [|discriminate H].
  destruct (mem src (o_own G)) eqn:Mr; cbn [andb] in H; [|discriminate H].
  destruct (Nat.eqb_spec s src) as [E|Hne]; cbn [negb] in H; [discriminate H|]. inversion H; subst G'. clear H.
  apply mem_In in Ms. apply mem_In in Mr. cbn [run]. eexists. split; [reflexivity|].
  destruct (inv_res _ _ I s Ms) as [ls Els]. destruct (inv_res _ _ I src Mr) as [bs Ebs]. rewrite Els, Ebs. cbn [blocks_of].
  set (F := [nth k ls None]).
  assert (Hs' : In s (del src (o_own G))) by (apply del_In; split; assumption).
  pose proof (owned_take_perm st src _ (inv_nd _ _ I) Mr) as HP1.
  pose proof (owned_take_perm st s _ (del_nodup src _ (inv_nd _ _ I)) Hs') as HP2.
  set (R := owned st (del s (del src (o_own G)))) in *.
  assert (Hss : slot_blocks st s = somes ls) by (unfold slot_blocks; rewrite Els; reflexivity).
  assert (Hsr : slot_blocks st src = somes bs) by (unfold slot_blocks; rewrite Ebs; reflexivity).
  assert (HPB : Permutation (owned st (o_own G)) ((somes (put_part ls k bs) ++ R) ++ somes F)).
  { eapply Permutation_trans; [exact HP1|]. rewrite Hsr.
    eapply Permutation_trans; [apply Permutation_app_head; exact HP2|]. rewrite Hss.
    rewrite <- app_assoc. eapply Permutation_trans; [|apply Permutation_app_head, Permutation_app_comm].
    rewrite !app_assoc. apply Permutation_app_tail.
    eapply Permutation_trans; [apply Permutation_app_comm|]. apply Permutation_sym. apply put_part_perm. }
  assert (Hincl : incl (somes F) (owned st (o_own G))).
  { intros b Hb. eapply slot_blocks_in_owned; [exact Ms|]. rewrite Hss. apply (nth_somes_incl ls k). exact Hb. }
  assert (Hnz : forall id n, In (id, n) (somes F) -> id <> 0).
  { intros id n Hb. apply Hincl in Hb. apply (inv_fresh _ _ I) in Hb. lia. }
  destruct (free_blocks_spec F st _ (inv_heap _ _ I) (inv_uniq _ _ I) Hincl (NoDup_map_one ls k) Hnz) as [Est [Enx [_ Hh]]].
  set (st1 := free_blocks st F) in *.
  set (st' := sset st1 s (Res (put_part ls k bs))).
  assert (Hsg : forall x, x <> s -> sget (r_store st') x = sget (r_store st) x).
  { intros x Hx. unfold st'. rewrite sget_sset. apply Nat.eqb_neq in Hx. rewrite Hx, Est. reflexivity. }
  assert (Hnd' : NoDup (map fst ((somes (put_part ls k bs) ++ R) ++ somes F))).
  { eapply Permutation_NoDup; [apply Permutation_map; exact HPB | apply (inv_uniq _ _ I)]. }
  apply Inv_intro with (B := somes (put_part ls k bs) ++ R).
  - cbn [take o_own]. apply del_nodup, (inv_nd _ _ I).
  - intros x Hx. cbn [take o_own] in Hx. apply del_In in Hx. destruct (Nat.eqb_spec x s) as [E|E].
    + subst x. unfold st'. rewrite sget_sset, Nat.eqb_refl. eexists; reflexivity.
    + rewrite (Hsg x E). apply (inv_res _ _ I). tauto.
  - intros x Hx. cbn [take o_dead] in Hx. assert (x <> s) by (intro E; subst x; exact (inv_disj _ _ I s Hx Ms)).
    rewrite (Hsg x H). apply (inv_dead _ _ I). exact Hx.
  - intros x Hx. cbn [take o_dead o_own] in *. intro Hin. apply del_In in Hin. apply (inv_disj _ _ I x Hx). tauto.
  - cbn [take o_own]. eapply Permutation_trans; [|apply Permutation_sym, (owned_update_perm st st' s _ (del_nodup src _ (inv_nd _ _ I)) Hs' Hsg)].
    apply Permutation_app_tail. unfold slot_blocks, st'. rewrite sget_sset, Nat.eqb_refl. apply Permutation_refl.
  - eapply heap_is_store with (st := st1); [reflexivity|]. eapply heap_is_perm; [exact Hh|].
    apply (minus_of_perm _ _ _ HPB (inv_uniq _ _ I)).
  - eapply NoDup_map_app_l; exact Hnd'.
  - intros id n Hin. cbn [r_next sset st']. rewrite Enx. apply (inv_fresh _ _ I id n).
    eapply Permutation_in; [apply Permutation_sym; exact HPB|]. apply in_or_app. left. exact Hin.
  - cbn [r_next sset st']. rewrite Enx. apply (inv_next _ _ I).
Qed.

Lemma filter_all : forall (A : Type) (f : A -> bool) l, (forall x, In x l -> f x = true) -> filter f l = l.
Proof.
  induction l as [|x l IH]; intro H; [reflexivity|]. cbn [filter]. rewrite (H x (or_introl eq_refl)).
  f_equal. apply IH. intros y Hy. apply H. right. exact Hy.
Qed.
Lemma minus_app : forall A B F, minus (A ++ B) F = minus A F ++ minus B F.
Proof. intros. unfold minus. apply filter_app. Qed.

Lemma sound_IAssignPartCopy : forall K G st s k p G', Inv G st -> own_check K (IAssignPartCopy s k p) G = Some (Some G') ->
  forall fuel, exists st', run fuel (IAssignPartCopy s k p) st = (ONormal, st') /\ Inv G' st'.
Proof.
  intros K G st s k p G' I H fuel. cbn [own_check] in H.
  destruct (mem s (o_own G)) eqn:Ms; cbn [andb] in H; [|discriminate H].
  destruct (mem (root p) (o_own G)) eqn:Mp; cbn [andb] in H; [|discriminate H].
  destruct (Nat.eqb_spec (root p) s) as [E|Hne]; cbn [negb] in H; [discriminate H|]. inversion H; subst G'. clear H.
  apply mem_In in Ms. apply mem_In in Mp. cbn [run].
  assert (Hpe : place_eqb p (PPart s k) = false).
  { destruct p as [x|x j|x]; cbn [place_eqb]; [reflexivity| |reflexivity]. cbn [root] in Hne. apply Nat.eqb_neq in Hne. rewrite Hne. reflexivity. }
  rewrite Hpe. destruct (inv_res _ _ I s Ms) as [ls Els]. rewrite Els. cbn [blocks_of].
  set (F := [nth k ls None]).
  pose proof (owned_take_perm st s _ (inv_nd _ _ I) Ms) as HP.
  set (R := owned st (del s (o_own G))) in *.
  assert (Hss : slot_blocks st s = somes ls) by (unfold slot_blocks; rewrite Els; reflexivity).
  assert (Hincl : incl (somes F) (owned st (o_own G))).
  { intros b Hb. eapply slot_blocks_in_owned; [exact Ms|]. rewrite Hss. apply (nth_somes_incl ls k). exact Hb. }
  assert (Hnz : forall id n, In (id, n) (somes F) -> id <> 0).
  { intros id n Hb. apply Hincl in Hb. apply (inv_fresh _ _ I) in Hb. lia. }
  destruct (free_blocks_spec F st _ (inv_heap _ _ I) (inv_uniq _ _ I) Hincl (NoDup_map_one ls k) Hnz) as [Est [Enx [_ Hh]]].
  set (st1 := free_blocks st F) in *.
  assert (Erp : read_place st1 p = read_place st p) by (destruct p; cbn [read_place]; rewrite Est; reflexivity).
  rewrite Erp. destruct (copy_blocks st1 (read_place st p)) as [l st2] eqn:Ec. eexists. split; [reflexivity|].
  assert (Hbel1 : below (minus (owned st (o_own G)) (somes F)) (r_next st1)).
  { intros id n Hin. apply minus_In in Hin. destruct Hin as [Hin _]. rewrite Enx. apply (inv_fresh _ _ I) in Hin. lia. }
  destruct (copy_blocks_spec _ _ _ _ _ Ec (read_place_sizes _ _ _ I Mp) Hh Hbel1 ltac:(rewrite Enx; apply (inv_next _ _ I)))
    as [Est2 [Hnx [Hh2 [Hnd Hfr]]]].
  rewrite Enx in Hnx, Hfr.
  set (st' := sset st2 s (Res (put_part ls k l))).
  assert (Hsg : forall x, x <> s -> sget (r_store st') x = sget (r_store st) x).
  { intros x Hx. unfold st'. rewrite sget_sset. apply Nat.eqb_neq in Hx. rewrite Hx, Est2, Est. reflexivity. }
  (* all blocks before the free: the copies and everything owned *)
  assert (HPB : Permutation (somes l ++ owned st (o_own G)) ((somes (put_part ls k l) ++ R) ++ somes F)).
  { eapply Permutation_trans; [apply Permutation_app_head; exact HP|]. rewrite Hss.
    rewrite app_assoc. eapply Permutation_trans; [apply Permutation_app_tail, Permutation_app_comm|].
    eapply Permutation_trans; [apply Permutation_app_tail, Permutation_sym, (put_part_perm ls k l)|].
    rewrite <- !app_assoc. apply Permutation_app_head. apply Permutation_app_comm. }
  assert (HndAll : NoDup (map fst (somes l ++ owned st (o_own G)))).
  { rewrite map_app. apply NoDup_app_intro; [exact Hnd | apply (inv_uniq _ _ I)|].
    intros x Hx1 Hx2. apply in_map_iff in Hx1. destruct Hx1 as [[i m] [Hf Hi]]. cbn [fst] in Hf. subst i.
    apply in_map_iff in Hx2. destruct Hx2 as [[i' m'] [Hf' Hi']]. cbn [fst] in Hf'. subst i'.
    apply Hfr in Hi. apply (inv_fresh _ _ I) in Hi'. lia. }
  assert (Hml : minus (somes l) (somes F) = somes l).
  { unfold minus. apply filter_all. intros [i m] Hi. apply negb_true_iff.
    destruct (memN (fst (i, m)) (ids (somes F))) eqn:Em; [|reflexivity]. exfalso. apply memN_In in Em.
    unfold ids in Em. apply in_map_iff in Em. destruct Em as [[i' m'] [Hf Hi']]. cbn [fst] in Hf. subst i'.
    apply Hfr in Hi. apply Hincl in Hi'. apply (inv_fresh _ _ I) in Hi'. lia. }
  assert (Hnd' : NoDup (map fst ((somes (put_part ls k l) ++ R) ++ somes F))).
  { eapply Permutation_NoDup; [apply Permutation_map; exact HPB | exact HndAll]. }
  apply Inv_intro with (B := somes (put_part ls k l) ++ R).
  - apply (inv_nd _ _ I).
  - intros x Hx. destruct (Nat.eqb_spec x s) as [E|E].
    + subst x. unfold st'. rewrite sget_sset, Nat.eqb_refl. eexists; reflexivity.
    + rewrite (Hsg x E). apply (inv_res _ _ I). exact Hx.
  - intros x Hx. assert (x <> s) by (intro E; subst x; exact (inv_disj _ _ I s Hx Ms)).
    rewrite (Hsg x H). apply (inv_dead _ _ I). exact Hx.
  - apply (inv_disj _ _ I).
  - eapply Permutation_trans; [|apply Permutation_sym, (owned_update_perm st st' s _ (inv_nd _ _ I) Ms Hsg)].
    apply Permutation_app_tail. unfold slot_blocks, st'. rewrite sget_sset, Nat.eqb_refl. apply Permutation_refl.
  - eapply heap_is_store with (st := st2); [reflexivity|]. eapply heap_is_perm; [exact Hh2|].
    intro x. rewrite <- Hml. rewrite <- minus_app. apply (minus_of_perm _ _ _ HPB HndAll).
  - eapply NoDup_map_app_l; exact Hnd'.
  - intros id n Hin. cbn [r_next sset st'].
    assert (Hin2 : In (id, n) (somes l ++ owned st (o_own G))).
    { eapply Permutation_in; [apply Permutation_sym; exact HPB|]. apply in_or_app. left. exact Hin. }
    apply in_app_or in Hin2. destruct Hin2 as [Hin2|Hin2].
    + apply Hfr in Hin2. pose proof (inv_next _ _ I). lia.
    + apply (inv_fresh _ _ I) in Hin2. lia.
  - cbn [r_next sset st']. pose proof (inv_next _ _ I). lia.
Qed.

(* ------------------------------------------------------------------ control flow *)
Lemma check_simple_own_check : forall i G G', check_simple i G = Some G' -> forall K, own_check K i G = Some (Some G').
Proof.
  induction i; intros G G' H K; cbn [check_simple] in H; try discriminate H; cbn [own_check].
  - inversion H; reflexivity.
  - destruct (check_simple i1 G) as [G1|] eqn:E1; [|discriminate H].
    rewrite (IHi1 _ _ E1 K). apply IHi2. exact H.
  - destruct (mem s (o_own G)); [inversion H; reflexivity|]. destruct (mem s (o_dead G)); [inversion H; reflexivity | discriminate H].
Qed.

Lemma run_simple : forall i G G' fuel st, check_simple i G = Some G' -> Inv G st ->
  exists st', run fuel i st = (ONormal, st') /\ Inv G' st'.
Proof.
  induction i; intros G G' fuel st H I; cbn [check_simple] in H; try discriminate H.
  - inversion H; subst. exists st. split; [reflexivity | exact I].
  - destruct (check_simple i1 G) as [G1|] eqn:E1; [|discriminate H].
    destruct (IHi1 _ _ fuel st E1 I) as [st1 [R1 I1]]. destruct (IHi2 _ _ fuel st1 H I1) as [st2 [R2 I2]].
    exists st2. split; [|exact I2]. cbn [run]. rewrite R1. exact R2.
  - apply (sound_IFree ctx0 G st s G' I). cbn [own_check].
    destruct (mem s (o_own G)); [inversion H; reflexivity|]. destruct (mem s (o_dead G)); [inversion H; reflexivity | discriminate H].
Qed.

Definition brk_ok (K : ctx) (st : rstate) : Prop :=
  exists code Gt Gk Gk', k_brk K = Some (code, Gt) /\ Inv Gk st /\ check_simple code Gk = Some Gk' /\ sub Gk' Gt = true.
Definition cont_ok (K : ctx) (st : rstate) : Prop :=
  exists code Gt Gk Gk', k_cont K = Some (code, Gt) /\ Inv Gk st /\ check_simple code Gk = Some Gk' /\ sub Gk' Gt = true.
Definition ret_ok (K : ctx) (st : rstate) : Prop :=
  exists R Gr, k_ret K = Some R /\ Inv Gr st /\ sub Gr R = true.

Definition exit_ok (K : ctx) (R : option ost) (o : outcome) (st : rstate) : Prop :=
  match o with
  | ONormal => exists G', R = Some G' /\ Inv G' st
  | OBreak => brk_ok K st
  | OContinue => cont_ok K st
  | ORet => ret_ok K st
  | OFuel => True
  end.

Lemma atomic_exit : forall K i G R fuel st,
  (forall G', own_check K i G = Some (Some G') -> exists st', run fuel i st = (ONormal, st') /\ Inv G' st') ->
  (own_check K i G <> Some None) ->
  own_check K i G = Some R -> forall o st', run fuel i st = (o, st') -> exit_ok K R o st'.
Proof.
  intros K i G R fuel st Hs Hn H o st' Hr. destruct R as [G'|]; [|contradiction].
  destruct (Hs G' H) as [st1 [E I1]]. rewrite E in Hr. inversion Hr; subst. exists G'. split; [reflexivity | exact I1].
Qed.

Lemma join_sound : forall ra rb R, join ra rb = Some R ->
  (forall G st, ra = Some G -> Inv G st -> exists G', R = Some G' /\ Inv G' st) /\
  (forall G st, rb = Some G -> Inv G st -> exists G', R = Some G' /\ Inv G' st).
Proof.
  intros ra rb R H. unfold join in H. destruct ra as [A|]; destruct rb as [B|].
  - destruct (leq (o_own A) (o_own B)) eqn:E; [|discriminate H]. inversion H; subst R. clear H. apply leq_eq in E.
    split; intros G st HG I; inversion HG; subst G; eexists; (split; [reflexivity|]); eapply Inv_sub; try exact I;
      unfold sub; cbn [o_own o_dead]; apply andb_true_iff; split.
    + apply sub_refl_own.
    + apply subset_incl. intros x Hx. apply inter_In in Hx. tauto.
    + rewrite E. apply sub_refl_own.
    + apply subset_incl. intros x Hx. apply inter_In in Hx. tauto.
  - inversion H; subst. split; intros G st HG I; [|discriminate HG]. exists G. split; [exact HG | exact I].
  - inversion H; subst. split; intros G st HG I; [discriminate HG|]. exists G. split; [exact HG | exact I].
  - inversion H; subst. split; intros G st HG I; discriminate HG.
Qed.

Lemma loop_sound : forall K G Gout fuel test body oncont onbrk onexit,
  let K' := mkCtx (Some (oncont, G)) (Some (onbrk, Gout)) (k_ret K) in
  (forall st o st', Inv G st -> run fuel test st = (o, st') -> exit_ok ctx0 (Some G) o st') ->
  (forall st o st', Inv G st -> run fuel body st = (o, st') -> exit_ok K' (Some G) o st' \/ (o <> ONormal /\ exit_ok K' None o st')) ->
  check_simple onexit G = Some Gout ->
  forall n skip cnt st o st', Inv G st ->
    loop_iter (run fuel test) (run fuel body) (run fuel oncont) (run fuel onbrk) (run fuel onexit) n skip cnt st = (o, st') ->
    exit_ok K (Some Gout) o st'.
Proof.
  intros K G Gout fuel test body oncont onbrk onexit K' Htest Hbody Hexit.
  induction n as [|n IH]; intros skip cnt st o st' I Hr; cbn [loop_iter] in Hr.
  - inversion Hr; subst. exact Logic.I.
  - assert (Hgo : forall cnt' st2, Inv G st2 ->
              match run fuel body st2 with
              | (ONormal, st3) => loop_iter (run fuel test) (run fuel body) (run fuel oncont) (run fuel onbrk) (run fuel onexit) n false cnt' st3
              | (OContinue, st3) => match run fuel oncont st3 with
                                    | (ONormal, st4) => loop_iter (run fuel test) (run fuel body) (run fuel oncont) (run fuel onbrk) (run fuel onexit) n false cnt' st4
                                    | r => r
                                    end
              | (OBreak, st3) => run fuel onbrk st3
              | r => r
              end = (o, st') -> exit_ok K (Some Gout) o st').
    { intros cnt' st2 I2 Hg. destruct (run fuel body st2) as [ob st3] eqn:Eb.
      destruct (Hbody st2 ob st3 I2 Eb) as [Hx|[Hne Hx]]; destruct ob; try contradiction; cbn [exit_ok] in Hx.
      - destruct Hx as [G' [EG I3]]. inversion EG; subst G'. eapply IH; eassumption.
      - destruct Hx as [code [Gt [Gk [Gk' [Ek [Ik [Ec Es]]]]]]]. cbn [K' k_brk] in Ek. inversion Ek; subst code Gt.
        destruct (run_simple _ _ _ fuel st3 Ec Ik) as [st4 [R4 I4]]. rewrite R4 in Hg. inversion Hg; subst.
        exists Gout. split; [reflexivity|]. eapply Inv_sub; eassumption.
      - destruct Hx as [code [Gt [Gk [Gk' [Ek [Ik [Ec Es]]]]]]]. cbn [K' k_cont] in Ek. inversion Ek; subst code Gt.
        destruct (run_simple _ _ _ fuel st3 Ec Ik) as [st4 [R4 I4]]. rewrite R4 in Hg.
        eapply IH; [eapply Inv_sub; eassumption | exact Hg].
      - inversion Hg; subst. exact Hx.
      - inversion Hg; subst. exact Logic.I.
      - destruct Hx as [code [Gt [Gk [Gk' [Ek [Ik [Ec Es]]]]]]]. cbn [K' k_brk] in Ek. inversion Ek; subst code Gt.
        destruct (run_simple _ _ _ fuel st3 Ec Ik) as [st4 [R4 I4]]. rewrite R4 in Hg. inversion Hg; subst.
        exists Gout. split; [reflexivity|]. eapply Inv_sub; eassumption.
      - destruct Hx as [code [Gt [Gk [Gk' [Ek [Ik [Ec Es]]]]]]]. cbn [K' k_cont] in Ek. inversion Ek; subst code Gt.
        destruct (run_simple _ _ _ fuel st3 Ec Ik) as [st4 [R4 I4]]. rewrite R4 in Hg.
        eapply IH; [eapply Inv_sub; eassumption | exact Hg].
      - inversion Hg; subst. exact Hx.
      - inversion Hg; subst. exact Logic.I. }
    destruct skip.
    + eapply Hgo; eassumption.
    + destruct (run fuel test st) as [ot st1] eqn:Et. pose proof (Htest st ot st1 I Et) as Hx.
      destruct ot; cbn [exit_ok] in Hx.
      * destruct Hx as [G' [EG I1]]. inversion EG; subst G'.
        assert (Hexit' : forall st2, Inv G st2 -> run fuel onexit st2 = (o, st') -> exit_ok K (Some Gout) o st').
        { intros st2 I2 Hr2. destruct (run_simple _ _ _ fuel st2 Hexit I2) as [st5 [R5 I5]]. rewrite R5 in Hr2. inversion Hr2; subst.
          exists Gout. split; [reflexivity | exact I5]. }
        destruct cnt as [[|c]|].
        -- eapply Hexit'; eassumption.
        -- eapply Hgo; eassumption.
        -- destruct (next_bool st1) as [c st2] eqn:En.
           assert (I2 : Inv G st2).
           { unfold next_bool in En. destruct (r_oracle st1) as [|b r]; inversion En; subst; [exact I1|].
             destruct I1 as [A1 A2 A3 A4 A5 A6 A7 A8]. constructor; assumption. }
           destruct c; [eapply Hgo; eassumption | eapply Hexit'; eassumption].
      * destruct Hx as [code [Gt [Gk [Gk' [Ek _]]]]]. discriminate Ek.
      * destruct Hx as [code [Gt [Gk [Gk' [Ek _]]]]]. discriminate Ek.
      * destruct Hx as [R [Gr [Ek _]]]. discriminate Ek.
      * inversion Hr; subst. exact Logic.I.
Qed.

Theorem own_check_sound : forall i K G R fuel st o st',
  own_check K i G = Some R -> Inv G st -> run fuel i st = (o, st') -> exit_ok K R o st'.
Proof.
  induction i; intros K G R fuel st o st' H I Hr.
  - (* ISkip *) cbn in H, Hr. inversion H; inversion Hr; subst. exists G. split; [reflexivity | exact I].
  - (* ISeq *) cbn [own_check] in H. cbn [run] in Hr.
    destruct (own_check K i1 G) as [r1|] eqn:E1; [|discriminate H].
    destruct (run fuel i1 st) as [o1 st1] eqn:Er1. pose proof (IHi1 _ _ _ _ _ _ _ E1 I Er1) as Hx.
    destruct r1 as [G1|].
    + destruct o1; cbn [exit_ok] in Hx; try (inversion Hr; subst; exact Hx).
      destruct Hx as [G' [EG I1]]. inversion EG; subst G'. eapply IHi2; eassumption.
    + inversion H; subst R. destruct o1; cbn [exit_ok] in Hx; try (inversion Hr; subst; exact Hx).
      destruct Hx as [G' [EG _]]. discriminate EG.
  - (* IUse *) cbn [own_check] in H. cbn [run] in Hr. destruct (mem (root p) (o_own G)); [|discriminate H].
    inversion H; inversion Hr; subst. exists G. split; [reflexivity | exact I].
  - (* INew *) eapply atomic_exit; try eassumption.
    + intros G' HG. eapply sound_INew; eassumption.
    + cbn [own_check]. destruct (writable d G); discriminate.
  - (* ICopy *) eapply atomic_exit; try eassumption.
    + intros G' HG. eapply sound_ICopy; eassumption.
    + cbn [own_check]. destruct (writable d G && mem (root p) (o_own G)); discriminate.
  - (* IMove *) eapply atomic_exit; try eassumption.
    + intros G' HG. eapply sound_IMove; eassumption.
    + cbn [own_check]. destruct (writable d G && mem s (o_own G) && negb (Nat.eqb d s)); discriminate.
  - (* IFree *) eapply atomic_exit; try eassumption.
    + intros G' HG. eapply sound_IFree; eassumption.
    + cbn [own_check]. destruct (mem s (o_own G)); [discriminate|]. destruct (mem s (o_dead G)); discriminate.
  - (* IConcat *) eapply atomic_exit; try eassumption.
    + intros G' HG. eapply sound_IConcat; eassumption.
    + cbn [own_check].
      destruct (writable d G && mem a (o_own G) && mem (root b) (o_own G) && negb (Nat.eqb d a) && negb (Nat.eqb (root b) a)); discriminate.
  - (* IGrow *) eapply atomic_exit; try eassumption.
    + intros G' HG. eapply sound_IGrow; eassumption.
    + cbn [own_check]. destruct (writable d G && mem a (o_own G) && negb (Nat.eqb d a)); discriminate.
  - (* IOverwritePart *) cbn [own_check] in H. discriminate H.
  - (* IAbsorb *) eapply atomic_exit; try eassumption.
    + intros G' HG. eapply sound_IAbsorb; eassumption.
    + cbn [own_check]. destruct (mem d (o_own G) && mem s (o_own G) && negb (Nat.eqb d s)); discriminate.
  - (* IAbsorbCopy *) eapply atomic_exit; try eassumption.
    + intros G' HG. eapply sound_IAbsorbCopy; eassumption.
    + cbn [own_check]. destruct (mem d (o_own G) && mem (root p) (o_own G)); discriminate.
  - (* IAssignPart *) eapply atomic_exit; try eassumption.
    + intros G' HG. eapply sound_IAssignPart; eassumption.
    + cbn [own_check]. destruct (mem s (o_own G) && mem src (o_own G) && negb (Nat.eqb s src)); discriminate.
  - (* IAssignPartCopy *) eapply atomic_exit; try eassumption.
    + intros G' HG. eapply sound_IAssignPartCopy; eassumption.
    + cbn [own_check]. destruct (mem s (o_own G) && mem (root p) (o_own G) && negb (Nat.eqb (root p) s)); discriminate.
  - (* IIf *) cbn [own_check] in H. cbn [run] in Hr.
    destruct (own_check K i1 G) as [ra|] eqn:E1; [|discriminate H].
    destruct (own_check K i2 G) as [rb|] eqn:E2; [|discriminate H].
    destruct (join_sound _ _ _ H) as [Ja Jb].
    destruct (next_bool st) as [c st1] eqn:En.
    assert (I1 : Inv G st1).
    { unfold next_bool in En. destruct (r_oracle st) as [|b r]; inversion En; subst; [exact I|].
      destruct I as [A1 A2 A3 A4 A5 A6 A7 A8]. constructor; assumption. }
    destruct c.
    + pose proof (IHi1 _ _ _ _ _ _ _ E1 I1 Hr) as Hx. destruct o; cbn [exit_ok] in *; try exact Hx.
      destruct Hx as [G' [EG I2]]. eapply Ja; eassumption.
    + pose proof (IHi2 _ _ _ _ _ _ _ E2 I1 Hr) as Hx. destruct o; cbn [exit_ok] in *; try exact Hx.
      destruct Hx as [G' [EG I2]]. eapply Jb; eassumption.
  - (* ILoop *) cbn [own_check] in H. cbn [run] in Hr.
    destruct (own_check ctx0 i1 G) as [[Gt|]|] eqn:Et; try discriminate H.
    destruct (sub Gt G) eqn:Es; [|discriminate H].
    destruct (check_simple i5 G) as [Gout|] eqn:Ex; [|discriminate H].
    set (K' := mkCtx (Some (i3, G)) (Some (i4, Gout)) (k_ret K)) in *.
    destruct (own_check K' i2 G) as [rb|] eqn:Eb; [|discriminate H].
    assert (HR : R = Some Gout /\ (forall Gb, rb = Some Gb -> sub Gb G = true)).
    { destruct rb as [Gb|]; [|inversion H; split; [reflexivity | intros ? HH; discriminate HH]].
      destruct (sub Gb G) eqn:Esb; [|discriminate H]. inversion H. split; [reflexivity|]. intros ? HH. inversion HH; subst. exact Esb. }
    destruct HR as [ER Hsb]. subst R.
    eapply (loop_sound K G Gout fuel i1 i2 i3 i4 i5); try eassumption.
    + intros st0 o0 st0' I0 Hr0. pose proof (IHi1 _ _ _ _ _ _ _ Et I0 Hr0) as Hx.
      destruct o0; cbn [exit_ok] in *; try exact Hx.
      destruct Hx as [G' [EG I2]]. inversion EG; subst G'. exists G. split; [reflexivity|]. eapply Inv_sub; eassumption.
    + intros st0 o0 st0' I0 Hr0. pose proof (IHi2 _ _ _ _ _ _ _ Eb I0 Hr0) as Hx.
      destruct o0; cbn [exit_ok] in *.
      * left. destruct Hx as [G' [EG I2]]. exists G. split; [reflexivity|]. eapply Inv_sub; [exact I2|]. apply Hsb. exact EG.
      * left. exact Hx.
      * left. exact Hx.
      * left. exact Hx.
      * left. exact Logic.I.
  - (* IBreak *) cbn [own_check] in H. cbn [run] in Hr. inversion Hr; subst.
    destruct (k_brk K) as [[code Gt]|] eqn:Ek; [|discriminate H].
    destruct (check_simple code G) as [G1|] eqn:Ec; [|discriminate H].
    destruct (sub G1 Gt) eqn:Es; [|discriminate H]. cbn [exit_ok]. exists code, Gt, G, G1. auto.
  - (* IContinue *) cbn [own_check] in H. cbn [run] in Hr. inversion Hr; subst.
    destruct (k_cont K) as [[code Gt]|] eqn:Ek; [|discriminate H].
    destruct (check_simple code G) as [G1|] eqn:Ec; [|discriminate H].
    destruct (sub G1 Gt) eqn:Es; [|discriminate H]. cbn [exit_ok]. exists code, Gt, G, G1. auto.
  - (* IRet *) cbn [own_check] in H. cbn [run] in Hr. inversion Hr; subst.
    destruct (k_ret K) as [Rr|] eqn:Ek; [|discriminate H].
    destruct (sub G Rr) eqn:Es; [|discriminate H]. cbn [exit_ok]. exists Rr, G. auto.
  - (* IFun *) cbn [own_check] in H. cbn [run] in Hr.
    match type of H with (if ?c then _ else _) = _ => destruct c; [|discriminate H] end.
    set (R0 := fold_right take G consumed) in *.
    set (Rf := match ret with Some r => give r R0 | None => R0 end) in *.
    destruct (own_check (mkCtx None None (Some Rf)) i G) as [rb|] eqn:Eb; [|discriminate H].
    destruct (run fuel i st) as [ob st1] eqn:Erb. pose proof (IHi _ _ _ _ _ _ _ Eb I Erb) as Hx.
    assert (HR : R = Some Rf /\ (forall Gb, rb = Some Gb -> sub Gb Rf = true)).
    { destruct rb as [Gb|]; [|inversion H; split; [reflexivity | intros ? HH; discriminate HH]].
      destruct (sub Gb Rf) eqn:Esb; [|discriminate H]. inversion H. split; [reflexivity|]. intros ? HH. inversion HH; subst. exact Esb. }
    destruct HR as [ER Hsb]. subst R.
    destruct ob; cbn [exit_ok] in Hx; inversion Hr; subst; cbn [exit_ok].
    + destruct Hx as [G' [EG I2]]. exists Rf. split; [reflexivity|]. eapply Inv_sub; [exact I2|]. apply Hsb. exact EG.
    + destruct Hx as [code [Gt [Gk [Gk' [Ek _]]]]]. discriminate Ek.
    + destruct Hx as [code [Gt [Gk [Gk' [Ek _]]]]]. discriminate Ek.
    + destruct Hx as [Rr [Gr [Ek [Ir Es]]]]. cbn [k_ret] in Ek. inversion Ek; subst Rr.
      exists Rf. split; [reflexivity|]. eapply Inv_sub; eassumption.
    + exact Logic.I.
Qed.

(* ------------------------------------------------------------------ whole programs *)
Lemma Inv_init : forall oracle, Inv (mkO [] []) (init_rstate oracle).
Proof.
  intro oracle. constructor; cbn.
  - constructor.
  - intros s [].
  - intros s [].
  - intros s [].
  - exists []. split; [reflexivity|]. intros id n. cbn. split; [discriminate | tauto].
  - constructor.
  - intros id n [].
  - lia.
Qed.

Theorem program_ok_balanced : forall P fuel oracle L,
  program_ok P = true -> run_program fuel oracle P = Some L -> balanced L.
Proof.
  intros P fuel oracle L Hok Hrun. unfold program_ok in Hok. unfold run_program in Hrun.
  destruct (compile P) as [code|]; [|discriminate Hok].
  destruct (own_check ctx0 code (mkO [] [])) as [[G|]|] eqn:Ec; try discriminate Hok.
  destruct (o_own G) as [|x l] eqn:Eo; [|discriminate Hok].
  destruct (run fuel code (init_rstate oracle)) as [o st] eqn:Er.
  destruct o; try discriminate Hrun. inversion Hrun; subst L. clear Hrun.
  pose proof (own_check_sound _ _ _ _ _ _ _ _ Ec (Inv_init oracle) Er) as Hx. cbn [exit_ok] in Hx.
  destruct Hx as [G' [EG I]]. inversion EG; subst G'.
  destruct (inv_heap _ _ I) as [a [Ha Hl]]. rewrite Eo in Hl. cbn in Hl.
  apply balancedb_correct. apply balancedb_afold.
  destruct a as [|[q n] a]; [exact Ha|]. exfalso. apply (Hl q n). cbn [alook]. rewrite N.eqb_refl. reflexivity.
Qed.

(* programs that were unbalanced under the discipline of the originally pinned code generator (self-assignment,
   loop conditions / bounds / headers with temporaries, continue, return out of such loops): after the repairs
   6711de1 2f9971e bf84b8a 597753d the re-synchronised compile yields accepted, balanced code for all of them *)
Definition wit_self_assign : program := mkProg [] (SSeq (SDecl 0%nat (ELit 6)) (SAssign 0%nat (EVar 0%nat))).
Definition wit_while_cond : program := mkProg [] (SWhile (EUse1 (ELit 4)) (SBlock SSkip)).
Definition wit_for_bound : program := mkProg [] (SFor EPrim (EUse1 (ELit 4)) EPrim false 2%nat (SBlock SSkip)).
Definition wit_continue_header : program :=
  mkProg [] (SFor (EUse1 (ELit 3)) EPrim EPrim false 2%nat (SBlock SContinue)).
Definition wit_continue_foreach : program :=
  mkProg [] (SForEach 0%nat None (EDerive (ELit 6) 5) 2%nat (SBlock SContinue)).
Definition wit_return_in_while : program :=
  mkProg [mkFun [] true (SSeq (SWhile (EUse1 (ELit 4)) (SBlock (SReturn (Some (ELit 2))))) (SReturn (Some (ELit 3))))]
         (SExpr (ECall 0%nat ANil)).

Lemma former_witnesses_accepted :
  map program_ok [wit_self_assign; wit_while_cond; wit_for_bound; wit_continue_header; wit_continue_foreach; wit_return_in_while]
  = [true; true; true; true; true; true].
Proof. vm_compute. reflexivity. Qed.

(* ------------------------------------------------------------------ references derived from a temporary owner *)
(* Every action that READS a place for a deep copy requires the owner of that place to be owned still: a reference
   derived from a value (element, field) cannot be used once the value was released or handed on. *)
Lemma read_of_unowned_rejected : forall K G p, mem (root p) (o_own G) = false ->
  own_check K (IUse p) G = None /\
  (forall d, own_check K (ICopy d p) G = None) /\
  (forall d, own_check K (IAbsorbCopy d p) G = None) /\
  (forall d a, own_check K (IConcat d a p) G = None) /\
  (forall s k, own_check K (IAssignPartCopy s k p) G = None).
Proof.
  intros K G p H. repeat split; intros; cbn [own_check]; rewrite H; rewrite ?andb_false_r; cbn [andb]; reflexivity.
Qed.

(* `(f an der Stelle 2), falls c, ansonsten v` and `v, falls c, ansonsten (<literal> an der Stelle 1)` where f returns a
   list: BIN_INDEX copies the element of the TEMPORARY list into a temporary of its own inside the arm, before the arm's
   scope releases the list; the compiled program is accepted *)
Definition wit_elem_of_temp : program :=
  mkProg [mkFun [] true (SReturn (Some (EBuild 32 (XCons (ELit 5) (XCons (ELit 7) XNil)))))]
    (SSeq (SDecl 0%nat (ELit 8))
    (SSeq (SDecl 1%nat (EFalls EPrim (EElem (ECall 0%nat ANil) 2%nat) (EVar 0%nat)))
    (SSeq (SDecl 2%nat (EFalls EPrim (EVar 0%nat) (EElem (EBuild 32 (XCons (ELit 5) XNil)) 1%nat)))
          (SWhile (EUse2 (EElem (ECall 0%nat ANil) 1%nat) (EVar 0%nat)) (SBlock SSkip))))).
Lemma elem_of_temp_accepted : program_ok wit_elem_of_temp = true.
Proof. vm_compute. reflexivity. Qed.

(* the arm of `falls` as emitted for that expression (slot 0 the temporary list with one element, 4 the copy of the
   element, 2 the result of `falls`, 1 the other arm) ... *)
Definition arm_copy_then_release : instr :=
  iseq [IIf (iseq [INew 0 32; INew 3 5; IAbsorb 0 3; ICopy 4 (PPart 0 1); IFree 0; IMove 2 4]) (iseq [INew 1 4; IMove 2 1]); IFree 2].
(* ... and with a plain reference into the temporary list handed out of the arm instead (the element is copied when
   `falls` joins its arms, after the arm's scope released the list) *)
Definition arm_release_then_copy : instr :=
  iseq [IIf (iseq [INew 0 32; INew 3 5; IAbsorb 0 3; IFree 0; ICopy 2 (PPart 0 1)]) (iseq [INew 1 4; IMove 2 1]); IFree 2].
(* ... or merely read in place (compared) after the arm *)
Definition arm_release_then_read : instr :=
  iseq [IIf (iseq [INew 0 32; INew 3 5; IAbsorb 0 3; IFree 0]) ISkip; IUse (PPart 0 1)].
Lemma derived_reference_must_not_outlive_owner :
  own_check ctx0 arm_copy_then_release (mkO [] []) = Some (Some (mkO [] [])) /\
  own_check ctx0 arm_release_then_copy (mkO [] []) = None /\
  own_check ctx0 arm_release_then_read (mkO [] []) = None.
Proof. repeat split; vm_compute; reflexivity. Qed.
