(* Soundness of the static ownership discipline (OwnCheck.own_check) for the run-time meaning of
   ownership actions (Own.run): accepted code yields a balanced ledger on every path. *)
From Coq Require Import List NArith Bool Arith Lia Permutation.
Import ListNotations.
From DDP Require Import Rt.Heap Rt.HeapProofs Lower.Own Lower.OwnCheck.

(* ------------------------------------------------------------------ finite sets as lists *)
Lemma mem_In : forall x l, mem x l = true <-> In x l.
Proof.
  induction l as [|y l IH]; cbn [mem In].
  - split; [discriminate | tauto].
  - rewrite orb_true_iff, IH, Nat.eqb_eq. split; intros [H|H]; auto.
Qed.
Lemma mem_false : forall x l, mem x l = false <-> ~ In x l.
Proof. intros x l. rewrite <- mem_In. destruct (mem x l); split; congruence. Qed.

Lemma ins_In : forall d l x, In x (ins d l) <-> x = d \/ In x l.
Proof.
  induction l as [|y l IH]; intro x; cbn [ins In].
  - intuition congruence.
  - destruct (Nat.ltb d y).
    + cbn [In]. intuition congruence.
    + destruct (Nat.eqb_spec d y) as [E|E].
      * subst y. cbn [In]. intuition congruence.
      * cbn [In]. rewrite IH. intuition congruence.
Qed.
Lemma ins_perm : forall d l, ~ In d l -> Permutation (ins d l) (d :: l).
Proof.
  induction l as [|y l IH]; intro H; cbn [ins].
  - apply Permutation_refl.
  - destruct (Nat.ltb d y); [apply Permutation_refl|].
    destruct (Nat.eqb_spec d y) as [E|E].
    + exfalso. apply H. left. auto.
    + eapply Permutation_trans; [apply perm_skip, IH | apply perm_swap].
      intro Hin. apply H. right. exact Hin.
Qed.
Lemma ins_nodup : forall d l, ~ In d l -> NoDup l -> NoDup (ins d l).
Proof.
  intros d l H N. eapply Permutation_NoDup; [apply Permutation_sym, ins_perm; exact H|].
  constructor; assumption.
Qed.
Lemma del_In : forall s l x, In x (del s l) <-> In x l /\ x <> s.
Proof.
  intros s l x. unfold del. rewrite filter_In. rewrite negb_true_iff, Nat.eqb_neq. intuition.
Qed.
Lemma del_nodup : forall s l, NoDup l -> NoDup (del s l).
Proof. intros. apply NoDup_filter. assumption. Qed.
Lemma del_perm : forall s l, NoDup l -> In s l -> Permutation l (s :: del s l).
Proof.
  induction l as [|y l IH]; intros N H.
  - destruct H.
  - inversion N as [|? ? Hn Hd]; subst. cbn [del filter].
    destruct (Nat.eqb_spec s y) as [E|E].
    + subst y. cbn [negb].
      assert (Hf : filter (fun y => negb (Nat.eqb s y)) l = l).
      { clear - Hn. induction l as [|z l IH]; [reflexivity|]. cbn [filter].
        destruct (Nat.eqb_spec s z) as [E|E].
        - exfalso. apply Hn. left. auto.
        - cbn [negb]. f_equal. apply IH. intro H. apply Hn. right. exact H. }
      rewrite Hf. apply Permutation_refl.
    + cbn [negb]. destruct H as [H|H]; [congruence|].
      eapply Permutation_trans; [apply perm_skip, (IH Hd H) | apply perm_swap].
Qed.
Lemma del_notin : forall s l, ~ In s l -> del s l = l.
Proof.
  induction l as [|z l IH]; intro H; [reflexivity|]. cbn [del filter].
  destruct (Nat.eqb_spec s z) as [E|E].
  - exfalso. apply H. left. auto.
  - cbn [negb]. f_equal. apply IH. intro Hin. apply H. right. exact Hin.
Qed.
Lemma leq_eq : forall a b, leq a b = true -> a = b.
Proof.
  induction a as [|x a IH]; destruct b as [|y b]; cbn [leq]; intro H; try discriminate H; [reflexivity|].
  apply andb_true_iff in H. destruct H as [H1 H2]. apply Nat.eqb_eq in H1. f_equal; [exact H1 | apply IH; exact H2].
Qed.
Lemma subset_incl : forall a b, subset a b = true <-> incl a b.
Proof.
  intros a b. unfold subset. rewrite forallb_forall. unfold incl.
  split; intros H x Hx; [apply mem_In | apply mem_In]; apply H; exact Hx.
Qed.
Lemma inter_In : forall a b x, In x (inter a b) <-> In x a /\ In x b.
Proof. intros. unfold inter. rewrite filter_In, mem_In. tauto. Qed.

(* ------------------------------------------------------------------ store *)
Lemma sget_sset : forall st d c s, sget (r_store (sset st d c)) s = if Nat.eqb s d then c else sget (r_store st) s.
Proof. intros. reflexivity. Qed.

Definition somes (l : list (option blk)) : list blk :=
  flat_map (fun x => match x with Some b => [b] | None => [] end) l.
Definition slot_blocks (st : rstate) (s : nat) : list blk := somes (blocks_of (sget (r_store st) s)).
Definition owned (st : rstate) (own : list nat) : list blk := flat_map (slot_blocks st) own.

Lemma somes_app : forall a b, somes (a ++ b) = somes a ++ somes b.
Proof. intros. unfold somes. apply flat_map_app. Qed.

Lemma owned_ext : forall st st' own, (forall s, In s own -> sget (r_store st') s = sget (r_store st) s) ->
  owned st' own = owned st own.
Proof.
  intros st st' own H. unfold owned. induction own as [|s own IH]; [reflexivity|]. cbn [flat_map].
  rewrite IH; [|intros x Hx; apply H; right; exact Hx]. unfold slot_blocks. rewrite (H s); [reflexivity | left; reflexivity].
Qed.

Lemma owned_perm : forall st a b, Permutation a b -> Permutation (owned st a) (owned st b).
Proof. intros. unfold owned. apply Permutation_flat_map. assumption. Qed.

(* ------------------------------------------------------------------ replaying the ledger *)
Fixpoint afold (a : aheap) (L : ledger) : option aheap :=
  match L with
  | [] => Some a
  | e :: L' => match astep a e with inl a' => afold a' L' | inr _ => None end
  end.

Lemma afold_app : forall L1 L2 a, afold a (L1 ++ L2) = match afold a L1 with Some a' => afold a' L2 | None => None end.
Proof.
  induction L1 as [|e L1 IH]; intros L2 a; cbn [afold app]; [reflexivity|].
  destruct (astep a e); [apply IH | reflexivity].
Qed.

Lemma areplay_afold : forall L a i, areplay a i L = Balanced <-> afold a L = Some [].
Proof.
  induction L as [|e L IH]; intros a i; cbn [areplay afold].
  - destruct a as [|x a]; split; intro H; try reflexivity; try discriminate H.
  - destruct (astep a e); [apply IH | split; intro H; discriminate H].
Qed.

Lemma balancedb_afold : forall L, balancedb L = true <-> afold [] L = Some [].
Proof.
  intro L. unfold balancedb, check_ledger. rewrite <- (areplay_afold L [] 0%N).
  destruct (areplay [] 0 L); split; intro H; congruence.
Qed.

(* ------------------------------------------------------------------ the run-time invariant *)
Open Scope N_scope.

Definition heap_is (st : rstate) (B : list blk) : Prop :=
  exists a, afold [] (rev (r_led st)) = Some a /\ forall id n, alook a id = Some n <-> In (id, n) B.

Record Inv (G : ost) (st : rstate) : Prop := mkInv {
  inv_nd : NoDup (o_own G);
  inv_res : forall s, In s (o_own G) -> exists l, sget (r_store st) s = Res l;
  inv_dead : forall s, In s (o_dead G) -> exists l, sget (r_store st) s = Res l /\ somes l = [];
  inv_disj : forall s, In s (o_dead G) -> ~ In s (o_own G);
  inv_heap : heap_is st (owned st (o_own G));
  inv_uniq : NoDup (map fst (owned st (o_own G)));
  inv_fresh : forall id n, In (id, n) (owned st (o_own G)) -> 2 <= id < r_next st /\ n <> 0;
  inv_next : 2 <= r_next st
}.

Lemma Inv_sub : forall G' G st, Inv G' st -> sub G' G = true -> Inv G st.
Proof.
  intros G' G st [Hnd Hres Hdead Hdisj Hheap Huniq Hfresh Hnext] H.
  unfold sub in H. apply andb_true_iff in H. destruct H as [H1 H2].
  apply leq_eq in H1. apply subset_incl in H2.
  constructor; try rewrite <- H1; try assumption.
  - intros s Hs. apply Hdead. apply H2. exact Hs.
  - intros s Hs. apply Hdisj. apply H2. exact Hs.
Qed.

Lemma sub_refl : forall G, sub G G = true.
Proof.
  intro G. unfold sub. apply andb_true_iff. split.
  - induction (o_own G) as [|x l IH]; cbn [leq]; [reflexivity|]. rewrite Nat.eqb_refl. exact IH.
  - apply subset_incl. apply incl_refl.
Qed.

(* what only depends on the store / on the ledger *)
Lemma heap_is_perm : forall st B B', heap_is st B -> (forall x, In x B <-> In x B') -> heap_is st B'.
Proof. intros st B B' [a [Ha Hl]] HB. exists a. split; [exact Ha|]. intros id n. rewrite Hl. apply HB. Qed.

Lemma heap_is_store : forall st st' B, r_led st' = r_led st -> heap_is st B -> heap_is st' B.
Proof. intros st st' B E [a [Ha Hl]]. exists a. rewrite E. split; assumption. Qed.

(* one more event *)
Lemma afold_snoc : forall st e a, afold [] (rev (r_led st)) = Some a ->
  afold [] (rev (e :: r_led st)) = match astep a e with inl a' => Some a' | inr _ => None end.
Proof.
  intros st e a H. cbn [rev]. rewrite afold_app, H. cbn [afold]. destruct (astep a e); reflexivity.
Qed.

Lemma heap_alloc : forall st B id n,
  heap_is st B -> id <> 0 -> n <> 0 -> (forall m, ~ In (id, m) B) ->
  forall st', r_led st' = Ev 0 0 n id :: r_led st -> heap_is st' ((id, n) :: B).
Proof.
  intros st B id n [a [Ha Hl]] Hid Hn Hfr st' E.
  exists ((id, n) :: a). split.
  - rewrite E. rewrite (afold_snoc st _ a Ha). cbn [astep N.eqb negb].
    destruct (N.eqb_spec n 0) as [E1|_]; [congruence|].
    destruct (N.eqb_spec id 0) as [E1|_]; [congruence|].
    destruct (alook a id) as [m|] eqn:El; [|reflexivity].
    exfalso. apply (Hfr m). apply Hl. exact El.
  - intros id' n'. cbn [alook In]. destruct (N.eqb_spec id id') as [E1|E1].
    + subst id'. split.
      * intro H. inversion H; subst. left. reflexivity.
      * intros [H|H]; [inversion H; reflexivity|]. exfalso. apply (Hfr n'). exact H.
    + rewrite Hl. split; [intro H; right; exact H|].
      intros [H|H]; [inversion H; congruence | exact H].
Qed.

Lemma heap_free : forall st B id n,
  heap_is st B -> NoDup (map fst B) -> In (id, n) B -> id <> 0 ->
  forall st', r_led st' = Ev id n 0 0 :: r_led st ->
  heap_is st' (filter (fun b => negb (N.eqb (fst b) id)) B).
Proof.
  intros st B id n [a [Ha Hl]] Hnd Hin Hid st' E.
  exists (adel a id). split.
  - rewrite E. rewrite (afold_snoc st _ a Ha). cbn [astep].
    destruct (N.eqb_spec id 0) as [E1|_]; [congruence|].
    apply Hl in Hin. rewrite Hin. rewrite N.eqb_refl. cbn [negb N.eqb]. reflexivity.
  - intros id' n'. rewrite alook_adel. rewrite filter_In. cbn [fst].
    destruct (N.eqb_spec id' id) as [E1|E1]; cbn [negb].
    + split; [discriminate | intros [_ H]; discriminate H].
    + rewrite Hl. tauto.
Qed.

Lemma heap_same : forall st B id n,
  heap_is st B -> In (id, n) B -> id <> 0 -> n <> 0 ->
  forall st', r_led st' = Ev id n n id :: r_led st -> heap_is st' B.
Proof.
  intros st B id n [a [Ha Hl]] Hin Hid Hn st' E.
  exists a. split; [|exact Hl].
  rewrite E. rewrite (afold_snoc st _ a Ha). cbn [astep].
  destruct (N.eqb_spec id 0) as [E1|_]; [congruence|].
  apply Hl in Hin. rewrite Hin. rewrite N.eqb_refl. cbn [negb].
  destruct (N.eqb_spec n 0) as [E1|_]; [congruence|]. rewrite !N.eqb_refl. reflexivity.
Qed.

Lemma heap_realloc : forall st B ida na id n,
  heap_is st B -> NoDup (map fst B) -> In (ida, na) B -> ida <> 0 -> id <> 0 -> n <> 0 -> na <> n ->
  (forall m, ~ In (id, m) B) ->
  forall st', r_led st' = Ev ida na n id :: r_led st ->
  heap_is st' ((id, n) :: filter (fun b => negb (N.eqb (fst b) ida)) B).
Proof.
  intros st B ida na id n [a [Ha Hl]] Hnd Hin Hida Hid Hn Hne Hfr st' E.
  exists ((id, n) :: adel a ida). split.
  - rewrite E. rewrite (afold_snoc st _ a Ha). cbn [astep].
    destruct (N.eqb_spec ida 0) as [E1|_]; [congruence|].
    apply Hl in Hin. rewrite Hin. rewrite N.eqb_refl. cbn [negb].
    destruct (N.eqb_spec n 0) as [E1|_]; [congruence|].
    destruct (N.eqb_spec na n) as [E1|_]; [congruence|].
    destruct (N.eqb_spec id 0) as [E1|_]; [congruence|].
    rewrite alook_adel. destruct (N.eqb_spec id ida) as [E1|E1]; [reflexivity|].
    destruct (alook a id) as [m|] eqn:El; [|reflexivity].
    exfalso. apply (Hfr m). apply Hl. exact El.
  - intros id' n'. cbn [alook In]. destruct (N.eqb_spec id id') as [E1|E1].
    + subst id'. split.
      * intro H. inversion H; subst. left. reflexivity.
      * intros [H|H]; [inversion H; reflexivity|]. apply filter_In in H. destruct H as [H _].
        exfalso. apply (Hfr n'). exact H.
    + rewrite alook_adel. rewrite filter_In. cbn [fst].
      destruct (N.eqb_spec id' ida) as [E2|E2]; cbn [negb].
      * split; [discriminate|]. intros [H|[_ H]]; [inversion H; congruence | discriminate H].
      * rewrite Hl. split; [intro H; right; split; [exact H | reflexivity]|].
        intros [H|[H _]]; [inversion H; congruence | exact H].
Qed.

(* ------------------------------------------------------------------ allocation, copies, frees *)
Lemma alloc_spec : forall st n b st1, alloc st n = (b, st1) ->
  r_store st1 = r_store st /\ r_oracle st1 = r_oracle st /\
  ((n = 0 /\ b = None /\ st1 = st) \/
   (n <> 0 /\ b = Some (r_next st, n) /\ r_next st1 = N.succ (r_next st) /\ r_led st1 = Ev 0 0 n (r_next st) :: r_led st)).
Proof.
  intros st n b st1 H. unfold alloc in H. destruct (N.eqb_spec n 0) as [E|E].
  - inversion H; subst. split; [reflexivity|]. split; [reflexivity|]. left. auto.
  - inversion H; subst. cbn. split; [reflexivity|]. split; [reflexivity|]. right. auto.
Qed.

Definition sizes_ok (l : list (option blk)) : Prop := forall id n, In (id, n) (somes l) -> n <> 0.
Definition below (B : list blk) (k : N) : Prop := forall id n, In (id, n) B -> id < k.

Lemma somes_cons_some : forall b l, somes (Some b :: l) = b :: somes l.
Proof. reflexivity. Qed.
Lemma somes_cons_none : forall l, somes (None :: l) = somes l.
Proof. reflexivity. Qed.

Lemma copy_blocks_spec : forall l st l' st' B,
  copy_blocks st l = (l', st') -> sizes_ok l -> heap_is st B -> below B (r_next st) -> 2 <= r_next st ->
  r_store st' = r_store st /\ r_next st <= r_next st' /\
  heap_is st' (somes l' ++ B) /\ NoDup (map fst (somes l')) /\
  (forall id n, In (id, n) (somes l') -> r_next st <= id < r_next st' /\ n <> 0).
Proof.
  induction l as [|x l IH]; intros st l' st' B H Hs HB Hbel Hnext; cbn [copy_blocks] in H.
  - inversion H; subst. cbn [somes flat_map app map].
    split; [reflexivity|]. split; [lia|]. split; [exact HB|]. split; [constructor|]. intros i m [].
  - destruct x as [[idx nx]|].
    + destruct (alloc st nx) as [b st1] eqn:Ea.
      destruct (copy_blocks st1 l) as [r' st2] eqn:Ec. inversion H; subst l' st'. clear H.
      destruct (alloc_spec _ _ _ _ Ea) as [Est [_ [[En _]|[En [Eb [Enx Eled]]]]]].
      { exfalso. apply (Hs idx nx); [left; reflexivity | exact En]. }
      subst b.
      assert (Hs' : sizes_ok l) by (intros id n Hin; apply (Hs id n); right; exact Hin).
      assert (HB1 : heap_is st1 ((r_next st, nx) :: B)).
      { eapply heap_alloc; [exact HB | lia | exact En | | exact Eled].
        intros m Hin. apply Hbel in Hin. lia. }
      assert (Hbel1 : below ((r_next st, nx) :: B) (r_next st1)).
      { intros id n [Hin|Hin]; [inversion Hin; subst; lia | apply Hbel in Hin; lia]. }
      destruct (IH st1 r' st2 _ Ec Hs' HB1 Hbel1 ltac:(lia)) as [E1 [E2 [E3 [E4 E5]]]].
      rewrite somes_cons_some. cbn [map fst app].
      split; [congruence|]. split; [lia|]. split; [|split].
      * eapply heap_is_perm; [exact E3|]. intro y. rewrite !in_app_iff. cbn [In]. rewrite in_app_iff. tauto.
      * constructor; [|exact E4]. intro Hin. apply in_map_iff in Hin. destruct Hin as [[id n] [Hf Hin]].
        cbn [fst] in Hf. subst id. apply E5 in Hin. lia.
      * intros id n [Hin|Hin]; [inversion Hin; subst; split; [lia | exact En] | apply E5 in Hin; lia].
    + destruct (copy_blocks st l) as [r' st2] eqn:Ec. inversion H; subst l' st'. clear H.
      assert (Hs' : sizes_ok l) by (intros id n Hin; apply (Hs id n); exact Hin).
      rewrite somes_cons_none. eapply IH; eassumption.
Qed.

Definition ids (B : list blk) : list N := map fst B.
Fixpoint memN (x : N) (l : list N) : bool := match l with [] => false | y :: r => N.eqb x y || memN x r end.
Lemma memN_In : forall x l, memN x l = true <-> In x l.
Proof.
  induction l as [|y l IH]; cbn [memN In]; [split; [discriminate | tauto]|].
  rewrite orb_true_iff, IH, N.eqb_eq. split; intros [H|H]; auto.
Qed.
Definition minus (B F : list blk) : list blk := filter (fun b => negb (memN (fst b) (ids F))) B.

Lemma minus_In : forall B F x, In x (minus B F) <-> In x B /\ ~ In (fst x) (ids F).
Proof.
  intros. unfold minus. rewrite filter_In, negb_true_iff. rewrite <- memN_In.
  destruct (memN (fst x) (ids F)); intuition congruence.
Qed.

Lemma free_blocks_spec : forall l st B,
  heap_is st B -> NoDup (map fst B) -> incl (somes l) B -> NoDup (map fst (somes l)) -> (forall id n, In (id, n) (somes l) -> id <> 0) ->
  let st' := free_blocks st l in
  r_store st' = r_store st /\ r_next st' = r_next st /\ r_oracle st' = r_oracle st /\ heap_is st' (minus B (somes l)).
Proof.
  induction l as [|x l IH]; intros st B HB Hnd Hincl Hnd2 Hnz; cbn [free_blocks].
  - repeat split; try reflexivity. eapply heap_is_perm; [exact HB|]. intro y. rewrite minus_In. cbn. tauto.
  - destruct x as [[id n]|].
    + rewrite somes_cons_some in *. cbn [map fst] in Hnd2. inversion Hnd2 as [|? ? Hn1 Hn2]; subst.
      assert (Hin : In (id, n) B) by (apply Hincl; left; reflexivity).
      assert (Hid : id <> 0) by (apply (Hnz id n); left; reflexivity).
      set (st1 := emit st (Ev id n 0 0)).
      assert (HB1 : heap_is st1 (filter (fun b => negb (N.eqb (fst b) id)) B)).
      { eapply heap_free; [exact HB | exact Hnd | exact Hin | exact Hid | reflexivity]. }
      assert (Hnd1 : NoDup (map fst (filter (fun b => negb (N.eqb (fst b) id)) B))).
      { clear - Hnd. induction B as [|[i m] B IHB]; cbn [filter map fst]; [constructor|].
        inversion Hnd as [|? ? Ha Hb]; subst. cbn [fst]. destruct (N.eqb i id); cbn [negb].
        - apply IHB; exact Hb.
        - cbn [map fst]. constructor; [|apply IHB; exact Hb]. intro Hin. apply Ha.
          apply in_map_iff in Hin. destruct Hin as [y [Hy1 Hy2]]. apply filter_In in Hy2.
          apply in_map_iff. exists y. tauto. }
      assert (Hincl1 : incl (somes l) (filter (fun b => negb (N.eqb (fst b) id)) B)).
      { intros [i m] Hy. apply filter_In. split; [apply Hincl; right; exact Hy|]. cbn [fst].
        destruct (N.eqb_spec i id) as [E|E]; [|reflexivity]. subst i. exfalso. apply Hn1.
        apply in_map_iff. exists (id, m). split; [reflexivity | exact Hy]. }
      destruct (IH st1 _ HB1 Hnd1 Hincl1 Hn2 ltac:(intros i m Hy; apply (Hnz i m); right; exact Hy)) as [E1 [E2 [E3 E4]]].
      split; [exact E1|]. split; [exact E2|]. split; [exact E3|].
      eapply heap_is_perm; [exact E4|]. intros [i m]. rewrite !minus_In, filter_In. cbn [fst ids map In].
      destruct (N.eqb_spec i id) as [E|E]; cbn [negb]; intuition congruence.
    + rewrite somes_cons_none in *. apply IH; assumption.
Qed.

(* ------------------------------------------------------------------ re-establishing the invariant *)
Lemma Inv_intro : forall G' st' B,
  NoDup (o_own G') ->
  (forall s, In s (o_own G') -> exists l, sget (r_store st') s = Res l) ->
  (forall s, In s (o_dead G') -> exists l, sget (r_store st') s = Res l /\ somes l = []) ->
  (forall s, In s (o_dead G') -> ~ In s (o_own G')) ->
  Permutation B (owned st' (o_own G')) ->
  heap_is st' B -> NoDup (map fst B) ->
  (forall id n, In (id, n) B -> 2 <= id < r_next st' /\ n <> 0) -> 2 <= r_next st' ->
  Inv G' st'.
Proof.
  intros G' st' B H1 H2 H3 H4 HP H5 H6 H7 H8. constructor; try assumption.
  - eapply heap_is_perm; [exact H5|]. intro x. split; intro Hx.
    + eapply Permutation_in; [exact HP | exact Hx].
    + eapply Permutation_in; [apply Permutation_sym; exact HP | exact Hx].
  - eapply Permutation_NoDup; [apply Permutation_map; exact HP | exact H6].
  - intros id n Hin. apply H7. eapply Permutation_in; [apply Permutation_sym; exact HP | exact Hin].
Qed.

Lemma owned_cons : forall st s own, owned st (s :: own) = slot_blocks st s ++ owned st own.
Proof. reflexivity. Qed.

Lemma owned_take_perm : forall st s own, NoDup own -> In s own ->
  Permutation (owned st own) (slot_blocks st s ++ owned st (del s own)).
Proof.
  intros st s own N H. rewrite <- owned_cons. apply owned_perm. apply del_perm; assumption.
Qed.

Lemma owned_give_perm : forall st d own, ~ In d own ->
  Permutation (owned st (ins d own)) (slot_blocks st d ++ owned st own).
Proof.
  intros st d own H. rewrite <- owned_cons. apply owned_perm. apply ins_perm. exact H.
Qed.

Lemma owned_other : forall st st' d own, ~ In d own ->
  (forall s, s <> d -> sget (r_store st') s = sget (r_store st) s) -> owned st' own = owned st own.
Proof.
  intros st st' d own H Hs. apply owned_ext. intros s Hin. apply Hs. intro E. subst s. exact (H Hin).
Qed.

Lemma slot_blocks_in_owned : forall st s own b, In s own -> In b (slot_blocks st s) -> In b (owned st own).
Proof. intros st s own b Hs Hb. unfold owned. apply in_flat_map. exists s. split; assumption. Qed.

Lemma NoDup_app_l : forall (A : Type) (l1 l2 : list A), NoDup (l1 ++ l2) -> NoDup l1.
Proof.
  induction l1 as [|x l1 IH]; intros l2 H; [constructor|]. cbn [app] in H. inversion H as [|? ? Hn Hd]; subst.
  constructor; [|eapply IH; exact Hd]. intro Hin. apply Hn. apply in_or_app. left. exact Hin.
Qed.
Lemma NoDup_app_r : forall (A : Type) (l1 l2 : list A), NoDup (l1 ++ l2) -> NoDup l2.
Proof.
  induction l1 as [|x l1 IH]; intros l2 H; [exact H|]. cbn [app] in H. inversion H; subst. apply IH. assumption.
Qed.
Lemma NoDup_map_app_l : forall (A B : Type) (f : A -> B) l1 l2, NoDup (map f (l1 ++ l2)) -> NoDup (map f l1).
Proof. intros A B f l1 l2 H. rewrite map_app in H. eapply NoDup_app_l; exact H. Qed.
Lemma NoDup_map_app_r : forall (A B : Type) (f : A -> B) l1 l2, NoDup (map f (l1 ++ l2)) -> NoDup (map f l2).
Proof. intros A B f l1 l2 H. rewrite map_app in H. eapply NoDup_app_r; exact H. Qed.
Lemma NoDup_map_app_disj : forall (A B : Type) (f : A -> B) l1 l2 x y,
  NoDup (map f (l1 ++ l2)) -> In x l1 -> In y l2 -> f x <> f y.
Proof.
  intros A B f l1 l2 x y H Hx Hy E. rewrite map_app in H.
  induction l1 as [|z l1 IH]; [destruct Hx|]. cbn [map app] in H. inversion H as [|? ? Hn Hd]; subst.
  destruct Hx as [Hx|Hx].
  - subst z. apply Hn. apply in_or_app. right. rewrite E. apply in_map. exact Hy.
  - apply IH; assumption.
Qed.

(* blocks of one owner are not blocks of the others *)
Lemma owned_split_minus : forall st s own, NoDup own -> In s own -> NoDup (map fst (owned st own)) ->
  forall x, In x (minus (owned st own) (slot_blocks st s)) <-> In x (owned st (del s own)).
Proof.
  intros st s own N Hs Hnd x. rewrite minus_In.
  pose proof (owned_take_perm st s own N Hs) as HP.
  assert (Hnd' : NoDup (map fst (slot_blocks st s ++ owned st (del s own)))).
  { eapply Permutation_NoDup; [apply Permutation_map; exact HP | exact Hnd]. }
  split.
  - intros [Hx Hni]. eapply Permutation_in in Hx; [|exact HP]. apply in_app_or in Hx. destruct Hx as [Hx|Hx]; [|exact Hx].
    exfalso. apply Hni. unfold ids. apply in_map. exact Hx.
  - intro Hx. split.
    + eapply Permutation_in; [apply Permutation_sym; exact HP|]. apply in_or_app. right. exact Hx.
    + intro Hi. unfold ids in Hi. apply in_map_iff in Hi. destruct Hi as [y [Hy1 Hy2]].
      apply (NoDup_map_app_disj _ _ fst _ _ y x Hnd' Hy2 Hx). exact Hy1.
Qed.

Lemma free_blocks_nones : forall l st, somes l = [] -> free_blocks st l = st.
Proof.
  induction l as [|x l IH]; intros st H; [reflexivity|]. destruct x as [[id n]|].
  - rewrite somes_cons_some in H. discriminate H.
  - cbn [free_blocks]. apply IH. exact H.
Qed.

Lemma somes_rot : forall l, Permutation (somes (tl l ++ [hd None l])) (somes l).
Proof.
  intros [|x l]; cbn [tl hd app]; [apply Permutation_refl|].
  rewrite somes_app. change (x :: l) with ([x] ++ l). rewrite (somes_app [x] l). apply Permutation_app_comm.
Qed.

Lemma give_dead_ok : forall G st st' d,
  (forall s, In s (o_dead G) -> exists l, sget (r_store st) s = Res l /\ somes l = []) ->
  (forall s, s <> d -> sget (r_store st') s = sget (r_store st) s) ->
  forall s, In s (del d (o_dead G)) -> exists l, sget (r_store st') s = Res l /\ somes l = [].
Proof.
  intros G st st' d Hd Hs s Hin. apply del_In in Hin. destruct Hin as [Hin Hne].
  rewrite (Hs s Hne). apply Hd. exact Hin.
Qed.

(* ------------------------------------------------------------------ single actions *)
Lemma writable_notin : forall d G, writable d G = true -> ~ In d (o_own G).
Proof. intros d G H. unfold writable in H. apply negb_true_iff in H. apply mem_false in H. exact H. Qed.

Lemma below_owned : forall G st, Inv G st -> below (owned st (o_own G)) (r_next st).
Proof. intros G st I id n Hin. apply (inv_fresh _ _ I) in Hin. lia. Qed.

Lemma give_nodup : forall d G, NoDup (o_own G) -> ~ In d (o_own G) -> NoDup (o_own (give d G)).
Proof. intros. cbn. apply ins_nodup; assumption. Qed.

Lemma give_disj : forall d G, (forall s, In s (o_dead G) -> ~ In s (o_own G)) ->
  forall s, In s (o_dead (give d G)) -> ~ In s (o_own (give d G)).
Proof.
  intros d G H s Hs. cbn in *. apply del_In in Hs. destruct Hs as [Hs Hne]. rewrite ins_In.
  intros [E|Hin]; [congruence | exact (H s Hs Hin)].
Qed.

Lemma sound_INew : forall G st d n G', Inv G st -> own_check ctx0 (INew d n) G = Some (Some G') ->
  forall fuel, exists st', run fuel (INew d n) st = (ONormal, st') /\ Inv G' st'.
Proof.
  intros G st d n G' I H fuel. cbn [own_check] in H. destruct (writable d G) eqn:W; [|discriminate H].
  inversion H; subst G'. clear H. apply writable_notin in W.
  cbn [run]. destruct (alloc st n) as [b st1] eqn:Ea. eexists. split; [reflexivity|].
  destruct (alloc_spec _ _ _ _ Ea) as [Est [_ Hc]].
  assert (Hsg : forall s, s <> d -> sget (r_store (sset st1 d (Res [b]))) s = sget (r_store st) s).
  { intros s Hne. rewrite sget_sset. apply Nat.eqb_neq in Hne. rewrite Hne. rewrite Est. reflexivity. }
  assert (Hown : owned (sset st1 d (Res [b])) (o_own G) = owned st (o_own G)) by (eapply owned_other; eassumption).
  apply Inv_intro with (B := somes [b] ++ owned st (o_own G)).
  - apply give_nodup; [apply (inv_nd _ _ I) | exact W].
  - intros s Hs. cbn in Hs. apply ins_In in Hs. rewrite sget_sset. destruct (Nat.eqb_spec s d) as [E|E]; [eexists; reflexivity|].
    destruct Hs as [Hs|Hs]; [congruence|]. rewrite Est. apply (inv_res _ _ I). exact Hs.
  - cbn [give o_dead]. eapply give_dead_ok; [apply (inv_dead _ _ I) | exact Hsg].
  - apply give_disj. apply (inv_disj _ _ I).
  - cbn [give o_own]. eapply Permutation_trans; [|apply Permutation_sym, owned_give_perm; exact W].
    rewrite Hown. unfold slot_blocks. rewrite sget_sset, Nat.eqb_refl. apply Permutation_refl.
  - destruct Hc as [[En [Eb Es]]|[En [Eb [Enx Eled]]]].
    + subst b st1. cbn [somes flat_map app]. eapply heap_is_store; [|apply (inv_heap _ _ I)]. reflexivity.
    + subst b. rewrite somes_cons_some. cbn [somes flat_map app].
      eapply heap_alloc; [apply (inv_heap _ _ I) | | exact En | | exact Eled].
      * pose proof (inv_next _ _ I). lia.
      * intros m Hin. apply (inv_fresh _ _ I) in Hin. lia.
  - destruct Hc as [[En [Eb Es]]|[En [Eb [Enx Eled]]]].
    + subst b. cbn [somes flat_map app]. apply (inv_uniq _ _ I).
    + subst b. rewrite somes_cons_some. cbn [somes flat_map app map fst]. constructor; [|apply (inv_uniq _ _ I)].
      intro Hin. apply in_map_iff in Hin. destruct Hin as [[i m] [Hf Hin]]. cbn [fst] in Hf. subst i.
      apply (inv_fresh _ _ I) in Hin. lia.
  - intros id m Hin. destruct Hc as [[En [Eb Es]]|[En [Eb [Enx Eled]]]].
    + subst b st1. cbn [somes flat_map app] in Hin. apply (inv_fresh _ _ I) in Hin. exact Hin.
    + subst b. rewrite somes_cons_some in Hin. cbn [somes flat_map app] in Hin. cbn [r_next sset]. rewrite Enx.
      destruct Hin as [Hin|Hin].
      * inversion Hin; subst. pose proof (inv_next _ _ I). split; [lia | exact En].
      * apply (inv_fresh _ _ I) in Hin. lia.
  - cbn [r_next sset]. destruct Hc as [[En [Eb Es]]|[En [Eb [Enx Eled]]]].
    + subst st1. apply (inv_next _ _ I).
    + rewrite Enx. pose proof (inv_next _ _ I). lia.
Qed.
