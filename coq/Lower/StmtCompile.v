(* DESIGN stage 4, statements of the scalar fragment: a compiler model and program preservation.

   Fragment (decidable: [block_ok G lp ss = true]): declarations and assignments of scalar variables (with the
   implicit numeric conversion), Wenn/Sonst, Solange, Mache ... Solange, Wiederhole n Mal, Verlasse die Schleife,
   Fahre mit der Schleife fort, blocks, expression statements and Schreibe of scalar expressions of the fragment
   of ExprCompile.v.  NOT in this theorem (kept visible as the _partial statement in Props/C01.v): counting loops
   and for-each (their block-level theorems ForLoop / Control are proved separately; the missing lemma is their
   composition with this simulation: the hidden index lives outside the variable store), functions / Gib,
   Text and lists.

   The target keeps the variables in cells of machine values (Lower/Ops.mval); expressions are the instruction
   trees of ExprCompile; a declaration/assignment emits the numeric cast of Ops.lower_cast when the types differ;
   loops are structured and are given the fuel discipline of RefSem (one unit per nesting level and iteration),
   so that both sides can be run with the same fuel.

   program_preservation: whenever RefSem.exec_block does not run out of fuel (and does not hit one of its two
   remaining guards: negative repeat count, invalid Buchstabe printed), the compiled block, run with the same
   fuel, produces the same output bytes, the same control-flow signal or the same Laufzeitfehler, and related
   stores. *)
From Coq Require Import ZArith Znumtheory Zdiv Bool List Lia.
Import ListNotations.
From DDP Require Import Lang.Syntax Lang.F64 Lang.RefSem Lower.Ops Lower.OpsProofs Lower.ForLoop Lower.Control
  Lower.ExprCompile Lower.Tie.
Open Scope Z_scope.

Inductive lstmt : Type :=
| LDecl (t : ty) (x : ident) (e : lir)
| LStore (x : ident) (e : lir)
| LIf (c : lir) (th el : list lstmt)
| LWhile (c : lir) (body : list lstmt)
| LDoWhile (body : list lstmt) (c : lir)
| LRepeat (n : lir) (body : list lstmt)
| LBreak | LContinue
| LBlock (body : list lstmt)
| LEval (e : lir)
| LPrint (e : lir)
| LFor (t : ty) (x : ident) (from to : lir) (step : option lir) (body : list lstmt)
| LForEach (x : ident) (idx : option ident) (src : lsrc) (body : list lstmt)
with lsrc : Type :=
| LSList (es : list lir)        (* a list literal: the elements are evaluated into the copied container *)
| LSText (cs : list Z).         (* a Text literal: its Buchstaben *)

Fixpoint compile_stmt (st : stmt) : lstmt :=
  match st with
  | SDecl t x e => LDecl t x (compile_expr e)
  | SAssign (LVar x) e => LStore x (compile_expr e)
  | SIf c th el => LIf (compile_expr c) (map compile_stmt th) (map compile_stmt el)
  | SWhile c b => LWhile (compile_expr c) (map compile_stmt b)
  | SDoWhile b c => LDoWhile (map compile_stmt b) (compile_expr c)
  | SRepeat c b => LRepeat (compile_expr c) (map compile_stmt b)
  | SBreak => LBreak
  | SContinue => LContinue
  | SBlock b => LBlock (map compile_stmt b)
  | SExpr e => LEval (compile_expr e)
  | SPrint e => LPrint (compile_expr e)
  | SFor t x from to step b =>
      LFor t x (compile_expr from) (compile_expr to) (match step with Some se => Some (compile_expr se) | None => None end)
           (map compile_stmt b)
  | SForEach _ x idx (EListLit es) b => LForEach x idx (LSList (map compile_expr es)) (map compile_stmt b)
  | SForEach _ x idx (EText cs) b => LForEach x idx (LSText cs) (map compile_stmt b)
  | _ => LBlock []            (* outside the fragment *)
  end.

(* ---- the fragment ------------------------------------------------------------------------------ *)
Definition upd (G : tenv) (x : ident) (t : ty) : tenv := fun y => if N.eqb y x then Some t else G y.

Definition assignable (t te : ty) : bool :=
  is_scalar_ty t && (ty_eqb t te || (is_numeric_ty t && is_numeric_ty te)).

Fixpoint stmt_ok (G : tenv) (lp : bool) (st : stmt) : option tenv :=
  let block_ok := fix go (G : tenv) (lp : bool) (ss : list stmt) : bool :=
    match ss with
    | [] => true
    | s :: r => match stmt_ok G lp s with Some G' => go G' lp r | None => false end
    end in
  match st with
  | SDecl t x e => match typeof G e with
                   | Some te => if assignable t te then Some (upd G x t) else None
                   | None => None end
  | SAssign (LVar x) e => match G x, typeof G e with
                          | Some t, Some te => if assignable t te then Some G else None
                          | _, _ => None end
  | SIf c th el => match typeof G c with
                   | Some TBool => if block_ok G lp th && block_ok G lp el then Some G else None
                   | _ => None end
  | SWhile c b => match typeof G c with
                  | Some TBool => if block_ok G true b then Some G else None
                  | _ => None end
  | SDoWhile b c => match typeof G c with
                    | Some TBool => if block_ok G true b then Some G else None
                    | _ => None end
  | SRepeat c b => match typeof G c with
                   | Some TZahl | Some TByte => if block_ok G true b then Some G else None
                   | _ => None end
  | SBreak | SContinue => if lp then Some G else None
  | SBlock b => if block_ok G lp b then Some G else None
  | SExpr e => match typeof G e with Some _ => Some G | None => None end
  | SPrint e => match typeof G e with Some _ => Some G | None => None end
  | SFor t x from to step b =>
      let G1 := upd G x t in
      match typeof G from, typeof G1 to with
      | Some tf, Some tq =>
          if is_num t && assignable t tf && is_num tq &&
             (match step with None => true | Some se => match typeof G1 se with Some ts => is_num ts | None => false end end) &&
             block_ok G1 true b
          then Some G else None
      | _, _ => None
      end
  | SForEach t x idx src b =>
      let G1 := upd G x t in
      let G2 := match idx with Some ix => upd G1 ix TZahl | None => G1 end in
      if is_scalar_ty t &&
         (match src with
          | EListLit (e0 :: es) => forallb (fun e => match typeof G e with Some te => ty_eqb te t | None => false end) (e0 :: es)
          | EText cs => ty_eqb t TChar && forallb (fun c => (- 2^31 <=? c) && (c <? 2^31)) cs
          | _ => false
          end) &&
         block_ok G2 true b
      then Some G else None
  | _ => None
  end.

Fixpoint block_ok (G : tenv) (lp : bool) (ss : list stmt) : bool :=
  match ss with
  | [] => true
  | s :: r => match stmt_ok G lp s with Some G' => block_ok G' lp r | None => false end
  end.

(* ---- the machine ------------------------------------------------------------------------------- *)
Record mstate : Type := { cells : list mval; mout : list Z (* reversed, like RefSem *) }.

Inductive mr (A : Type) : Type :=
| MROk (a : A) (ms : mstate)
| MRErr (ms : mstate)          (* Laufzeitfehler *)
| MRStuck
| MRFuel.
Arguments MROk {A}. Arguments MRErr {A}. Arguments MRStuck {A}. Arguments MRFuel {A}.

Inductive mflow : Type := MFNext | MFBreak | MFCont.

Definition mty (m : mval) : ty :=
  match m with MI64 _ => TZahl | MI8 _ => TByte | MI1 _ => TBool | MI32 _ => TChar | MF64 _ => TKomma end.

(* implicit numeric conversion of declarations/assignments: numericCast when the types differ *)
Definition m_coerce (t : ty) (m : mval) : mres :=
  if ty_eqb t (mty m) then MOk m
  else if is_numeric_ty t && is_numeric_ty (mty m) then of_lres (lower_cast t m)
  else MStuck.

Definition m_ld (en : env) (ms : mstate) (x : ident) : option mval :=
  match lookup en x with Some (BLoc a) => nth_error (cells ms) a | _ => None end.

Section Machine.
Variable pow : Z -> Z -> Z.
Variable log10 : Z -> Z.
Variable fmt_float : Z -> list Z.

Definition m_eval (en : env) (ms : mstate) (l : lir) : mres := lir_eval pow log10 (m_ld en ms) l.

(* Schreibe_Zahl / _Kommazahl / _Byte / _Wahrheitswert / _Buchstabe on the machine value *)
Definition m_print (m : mval) : option (list Z) :=
  match print_bytes fmt_float (value_of_mval m) with inl (Some bs) => Some bs | _ => None end.

Definition m_emit (ms : mstate) (bs : list Z) : mstate := {| cells := cells ms; mout := rev_append bs (mout ms) |}.

Definition mr_env (en : env) (r : mr mflow) : mr (mflow * env) :=
  match r with
  | MROk fl ms' => MROk (fl, en) ms'
  | MRErr ms' => MRErr ms' | MRStuck => MRStuck | MRFuel => MRFuel
  end.

Inductive mlres : Type := MLOk (l : list mval) | MLErr | MLStuck.
Fixpoint m_evals (en : env) (ms : mstate) (es : list lir) : mlres :=
  match es with
  | [] => MLOk []
  | e :: r => match m_eval en ms e with
              | MOk m => match m_evals en ms r with MLOk l => MLOk (m :: l) | x => x end
              | MErr => MLErr
              | MStuck => MLStuck
              end
  end.

Definition m_alloc (ms : mstate) (m : mval) : mstate := {| cells := cells ms ++ [m]; mout := mout ms |}.
Definition m_store (ms : mstate) (a : nat) (m : mval) : mstate := {| cells := set_nth (cells ms) a m; mout := mout ms |}.
Definition m_default_step (t : ty) : mval := match t with TKomma => MF64 (f_of_Z 1) | _ => MI64 1 end.

Fixpoint mexec (n : nat) (en : env) (ms : mstate) (st : lstmt) {struct n} : mr (mflow * env) :=
  match n with
  | O => MRFuel
  | S n =>
    match st with
    | LDecl t x e =>
        match m_eval en ms e with
        | MOk m => match m_coerce t m with
                   | MOk m' => MROk (MFNext, (x, BLoc (length (cells ms))) :: en)
                                    {| cells := cells ms ++ [m']; mout := mout ms |}
                   | MErr => MRErr ms
                   | MStuck => MRStuck
                   end
        | MErr => MRErr ms
        | MStuck => MRStuck
        end
    | LStore x e =>
        match m_eval en ms e with
        | MOk m =>
            match lookup en x with
            | Some (BLoc a) =>
                match nth_error (cells ms) a with
                | Some old => match m_coerce (mty old) m with
                              | MOk m' => MROk (MFNext, en) {| cells := set_nth (cells ms) a m'; mout := mout ms |}
                              | MErr => MRErr ms
                              | MStuck => MRStuck
                              end
                | None => MRStuck
                end
            | _ => MRStuck
            end
        | MErr => MRErr ms
        | MStuck => MRStuck
        end
    | LIf c th el =>
        match m_eval en ms c with
        | MOk (MI1 b) => match mblock n en ms (if b then th else el) with
                         | MROk fl ms' => MROk (fl, en) ms'
                         | MRErr ms' => MRErr ms' | MRStuck => MRStuck | MRFuel => MRFuel
                         end
        | MOk _ => MRStuck
        | MErr => MRErr ms
        | MStuck => MRStuck
        end
    | LWhile c b =>
        match mwhile n en ms c b with
        | MROk fl ms' => MROk (fl, en) ms'
        | MRErr ms' => MRErr ms' | MRStuck => MRStuck | MRFuel => MRFuel
        end
    | LDoWhile b c =>
        match mblock n en ms b with
        | MROk MFBreak ms' => MROk (MFNext, en) ms'
        | MROk _ ms' => match mwhile n en ms' c b with
                        | MROk fl ms'' => MROk (fl, en) ms''
                        | MRErr ms'' => MRErr ms'' | MRStuck => MRStuck | MRFuel => MRFuel
                        end
        | MRErr ms' => MRErr ms' | MRStuck => MRStuck | MRFuel => MRFuel
        end
    | LRepeat c b =>
        match m_eval en ms c with
        | MOk m => match as_int m with
                   | LOk (MI64 u) =>      (* the counter: the count widened to i64 *)
                       match mrepeat n en ms u b with
                       | MROk fl ms' => MROk (fl, en) ms'
                       | MRErr ms' => MRErr ms' | MRStuck => MRStuck | MRFuel => MRFuel
                       end
                   | _ => MRStuck
                   end
        | MErr => MRErr ms
        | MStuck => MRStuck
        end
    | LBreak => MROk (MFBreak, en) ms
    | LContinue => MROk (MFCont, en) ms
    | LBlock b =>
        match mblock n en ms b with
        | MROk fl ms' => MROk (fl, en) ms'
        | MRErr ms' => MRErr ms' | MRStuck => MRStuck | MRFuel => MRFuel
        end
    | LEval e =>
        match m_eval en ms e with
        | MOk _ => MROk (MFNext, en) ms
        | MErr => MRErr ms
        | MStuck => MRStuck
        end
    | LPrint e =>
        match m_eval en ms e with
        | MOk m => match m_print m with
                   | Some bs => MROk (MFNext, en) (m_emit ms bs)
                   | None => MRStuck
                   end
        | MErr => MRErr ms
        | MStuck => MRStuck
        end
    | LFor t x from to step body =>
        match m_eval en ms from with
        | MOk m =>
            match m_coerce t m with
            | MOk m0 =>
                let a := length (cells ms) in
                let ms1 := m_alloc ms m0 in
                let en' := (x, BLoc a) :: en in
                match (match step with Some se => m_eval en' ms1 se | None => MOk (m_default_step t) end) with
                | MOk sv =>
                    match t with
                    | TKomma =>
                        match m0, as_float sv with
                        | MF64 i0, LOk (MF64 stpf) => mr_env en (mfor_k n en' ms1 a i0 stpf to body)
                        | _, _ => MRStuck
                        end
                    | TZahl | TByte =>
                        match as_int m0, as_int sv with
                        | LOk (MI64 u0), LOk (MI64 su) => mr_env en (mfor_i n en' ms1 t a u0 su to body)
                        | _, _ => MRStuck
                        end
                    | _ => MRStuck
                    end
                | MErr => MRErr ms1
                | MStuck => MRStuck
                end
            | MErr => MRErr ms
            | MStuck => MRStuck
            end
        | MErr => MRErr ms
        | MStuck => MRStuck
        end
    | LForEach x idx src body =>
        match (match src with
               | LSText cs => MLOk (map (fun c => MI32 (c mod 2^32)) cs)
               | LSList es => m_evals en ms es
               end) with
        | MLOk [] => MROk (MFNext, en) ms
        | MLOk (m0 :: rest) =>
            let a := length (cells ms) in
            let ms1 := m_alloc ms m0 in
            let en1 := (x, BLoc a) :: en in
            match idx with
            | None => mr_env en (meach n en1 ms1 a None (m0 :: rest) body)
            | Some ix => mr_env en (meach n ((ix, BLoc (S a)) :: en1) (m_alloc ms1 (MI64 1)) a (Some (S a)) (m0 :: rest) body)
            end
        | MLErr => MRErr ms
        | MLStuck => MRStuck
        end
    end
  end

with mblock (n : nat) (en : env) (ms : mstate) (ss : list lstmt) {struct n} : mr mflow :=
  match n with
  | O => MRFuel
  | S n =>
    match ss with
    | [] => MROk MFNext ms
    | st :: r =>
        match mexec n en ms st with
        | MROk (MFNext, en') ms' => mblock n en' ms' r
        | MROk (fl, _) ms' => MROk fl ms'
        | MRErr ms' => MRErr ms' | MRStuck => MRStuck | MRFuel => MRFuel
        end
    end
  end

with mwhile (n : nat) (en : env) (ms : mstate) (c : lir) (b : list lstmt) {struct n} : mr mflow :=
  match n with
  | O => MRFuel
  | S n =>
    match m_eval en ms c with
    | MOk (MI1 false) => MROk MFNext ms
    | MOk (MI1 true) =>
        match mblock n en ms b with
        | MROk MFBreak ms' => MROk MFNext ms'
        | MROk _ ms' => mwhile n en ms' c b
        | MRErr ms' => MRErr ms' | MRStuck => MRStuck | MRFuel => MRFuel
        end
    | MOk _ => MRStuck
    | MErr => MRErr ms
    | MStuck => MRStuck
    end
  end

(* icmp ne counter, 0 ; counter := counter - 1 at the head of the body *)
with mrepeat (n : nat) (en : env) (ms : mstate) (u : Z) (b : list lstmt) {struct n} : mr mflow :=
  match n with
  | O => MRFuel
  | S n =>
    if u =? 0 then MROk MFNext ms else
    match mblock n en ms b with
    | MROk MFBreak ms' => MROk MFNext ms'
    | MROk _ ms' => mrepeat n en ms' (sub64 u 1) b
    | MRErr ms' => MRErr ms' | MRStuck => MRStuck | MRFuel => MRFuel
    end
  end
(* counting loop, Zahl/Byte counter: hidden i64 index u and step su live outside the variable cells; the visible
   variable (cell a) is re-assigned from the index at every increment (numericCast: trunc for a Byte) *)
with mfor_i (n : nat) (en : env) (ms : mstate) (t : ty) (a : nat) (u su : Z) (to : lir) (b : list lstmt)
       {struct n} : mr mflow :=
  match n with
  | O => MRFuel
  | S n =>
    match m_eval en ms to with
    | MOk mt =>
        match as_int mt with
        | LOk (MI64 lim) =>
            if (if icmp64 ISlt su 0 then icmp64 ISge u lim else icmp64 ISle u lim) then
              match mblock n en ms b with
              | MROk MFBreak ms' => MROk MFNext ms'
              | MROk _ ms' =>
                  let u' := add64 u su in
                  mfor_i n en (m_store ms' a (match t with TByte => MI8 (trunc64_8 u') | _ => MI64 u' end)) t a u' su to b
              | MRErr ms' => MRErr ms' | MRStuck => MRStuck | MRFuel => MRFuel
              end
            else MROk MFNext ms
        | _ => MRStuck
        end
    | MErr => MRErr ms
    | MStuck => MRStuck
    end
  end

(* Kommazahl counter: double index, step and end value cast to double *)
with mfor_k (n : nat) (en : env) (ms : mstate) (a : nat) (i stpf : Z) (to : lir) (b : list lstmt)
       {struct n} : mr mflow :=
  match n with
  | O => MRFuel
  | S n =>
    match m_eval en ms to with
    | MOk mt =>
        match as_float mt with
        | LOk (MF64 lim) =>
            if (if fcmp FOlt stpf f_pos_zero then fcmp FOge i lim else fcmp FOle i lim) then
              match mblock n en ms b with
              | MROk MFBreak ms' => MROk MFNext ms'
              | MROk _ ms' => let i' := f_add i stpf in mfor_k n en (m_store ms' a (MF64 i')) a i' stpf to b
              | MRErr ms' => MRErr ms' | MRStuck => MRStuck | MRFuel => MRFuel
              end
            else MROk MFNext ms
        | _ => MRStuck
        end
    | MErr => MRErr ms
    | MStuck => MRStuck
    end
  end

(* for-each over the copied container (a list of machine values kept outside the variable cells) *)
with meach (n : nat) (en : env) (ms : mstate) (a : nat) (ai : option nat) (elems : list mval) (b : list lstmt)
       {struct n} : mr mflow :=
  match n with
  | O => MRFuel
  | S n =>
    match elems with
    | [] => MROk MFNext ms
    | m :: rest =>
        match mblock n en (m_store ms a m) b with
        | MROk MFBreak ms' => MROk MFNext ms'
        | MROk _ ms' =>
            match ai with
            | None => meach n en ms' a ai rest b
            | Some c => match nth_error (cells ms') c with
                        | Some (MI64 u) => meach n en (m_store ms' c (MI64 (add64 u 1))) a ai rest b
                        | _ => MRStuck
                        end
            end
        | MRErr ms' => MRErr ms' | MRStuck => MRStuck | MRFuel => MRFuel
        end
    end
  end.

(* ================================================================================================ *)
(* simulation                                                                                       *)
(* ================================================================================================ *)
Variable ftab : list fdecl.
Notation exec := (RefSem.exec pow log10 fmt_float ftab).
Notation exec_block := (RefSem.exec_block pow log10 fmt_float ftab).
Notation loop_while := (RefSem.loop_while pow log10 fmt_float ftab).
Notation loop_repeat := (RefSem.loop_repeat pow log10 fmt_float ftab).
Notation loop_for_i := (RefSem.loop_for_i pow log10 fmt_float ftab).
Notation loop_for_k := (RefSem.loop_for_k pow log10 fmt_float ftab).
Notation loop_each := (RefSem.loop_each pow log10 fmt_float ftab).
Notation eval := (RefSem.eval pow log10 fmt_float ftab).

(* ---- unfolding equations (the interpreters are mutual fixpoints; these keep them folded) ---------------- *)
Lemma exec_block_nil : forall n genv en s, exec_block (S n) genv en s [] = Ok FNext s.
Proof. reflexivity. Qed.
Lemma exec_block_cons : forall n genv en s st r,
  exec_block (S n) genv en s (st :: r) =
  rbind (exec n genv en s st) (fun r0 s => match r0 with (FNext, en') => exec_block n genv en' s r | (fl, _) => Ok fl s end).
Proof. reflexivity. Qed.
Lemma exec_decl : forall n genv en s t x e,
  exec (S n) genv en s (SDecl t x e) =
  rbind (eval n genv en s e) (fun v s => rbind (lift (coerce fmt_float t v) s) (fun v s =>
    let (a, s) := alloc s v in Ok (FNext, (x, BLoc a) :: en) s)).
Proof. reflexivity. Qed.
Lemma exec_assign : forall n genv en s x e,
  exec (S n) genv en s (SAssign (LVar x) e) =
  rbind (eval n genv en s e) (fun v s =>
    match lookup en x with
    | None => bad s
    | Some b => rbind (read_bind s b) (fun old s => rbind (lift (coerce fmt_float (type_of old) v) s) (fun v s =>
                  rbind (write_bind s b v) (fun _ s => Ok (FNext, en) s)))
    end).
Proof. reflexivity. Qed.
Lemma exec_if : forall n genv en s c th el,
  exec (S n) genv en s (SIf c th el) =
  rbind (eval n genv en s c) (fun cv s =>
    match cv with
    | VW b => rbind (exec_block n genv en s (if b then th else el)) (fun fl s => Ok (fl, en) s)
    | _ => bad s
    end).
Proof. reflexivity. Qed.
Lemma exec_while : forall n genv en s c b,
  exec (S n) genv en s (SWhile c b) = rbind (loop_while n genv en s c b) (fun fl s => Ok (fl, en) s).
Proof. reflexivity. Qed.
Lemma exec_dowhile : forall n genv en s c b,
  exec (S n) genv en s (SDoWhile b c) =
  rbind (exec_block n genv en s b) (fun fl s =>
    match fl with
    | FBreak => Ok (FNext, en) s
    | FRet v => Ok (FRet v, en) s
    | _ => rbind (loop_while n genv en s c b) (fun fl s => Ok (fl, en) s)
    end).
Proof. reflexivity. Qed.
Lemma exec_repeat : forall n genv en s c b,
  exec (S n) genv en s (SRepeat c b) =
  rbind (eval n genv en s c) (fun cv s =>
    match to_i cv with
    | Some k => if k <? 0 then Fail (EUndef G_repeat_negative) s
                else rbind (loop_repeat n genv en s k b) (fun fl s => Ok (fl, en) s)
    | None => bad s
    end).
Proof. reflexivity. Qed.
Lemma exec_blockstmt : forall n genv en s b,
  exec (S n) genv en s (SBlock b) = rbind (exec_block n genv en s b) (fun fl s => Ok (fl, en) s).
Proof. reflexivity. Qed.
Lemma exec_print : forall n genv en s e,
  exec (S n) genv en s (SPrint e) =
  rbind (eval n genv en s e) (fun v s =>
    match print_bytes fmt_float v with
    | inl (Some bs) => Ok (FNext, en) (emit s bs)
    | inl None => bad s
    | inr g => Fail (EUndef g) s
    end).
Proof. reflexivity. Qed.
Lemma loop_while_eq : forall n genv en s c b,
  loop_while (S n) genv en s c b =
  rbind (eval n genv en s c) (fun cv s =>
    match cv with
    | VW false => Ok FNext s
    | VW true => rbind (exec_block n genv en s b) (fun fl s =>
                   match fl with FBreak => Ok FNext s | FRet v => Ok (FRet v) s | _ => loop_while n genv en s c b end)
    | _ => bad s
    end).
Proof. reflexivity. Qed.
Lemma loop_repeat_eq : forall n genv en s k b,
  loop_repeat (S n) genv en s k b =
  if k <=? 0 then Ok FNext s else
  rbind (exec_block n genv en s b) (fun fl s =>
    match fl with FBreak => Ok FNext s | FRet v => Ok (FRet v) s | _ => loop_repeat n genv en s (k - 1) b end).
Proof. reflexivity. Qed.

(* the Zahl a numeric value denotes where a counting loop needs one (step, end value): Kommazahl saturating *)
Definition to_Z_res (v : value) (s : state) : res Z :=
  match v with
  | VK _ => rbind (lift (cast_to fmt_float TZahl v) s) (fun z s => match z with VZ k => Ok k s | _ => bad s end)
  | _ => match to_i v with Some k => Ok k s | None => bad s end
  end.

Lemma exec_for : forall n genv en s t x from to step b,
  exec (S n) genv en s (SFor t x from to step b) =
  rbind (eval n genv en s from) (fun v0 s => rbind (lift (coerce fmt_float t v0) s) (fun v0 s =>
    let (a, s) := alloc s v0 in
    let en' := (x, BLoc a) :: en in
    rbind (match step with Some se => eval n genv en' s se | None => Ok (default_step t) s end) (fun sv s =>
      match t with
      | TKomma =>
          match v0, to_f sv with
          | VK i0, Some stp => rbind (loop_for_k n genv en' s a i0 stp to b) (fun fl s => Ok (fl, en) s)
          | _, _ => bad s
          end
      | TZahl | TByte =>
          match to_i v0 with
          | None => bad s
          | Some i0 => rbind (to_Z_res sv s) (fun stp s =>
                         rbind (loop_for_i n genv en' s t a i0 stp to b) (fun fl s => Ok (fl, en) s))
          end
      | _ => bad s
      end))).
Proof. reflexivity. Qed.

Lemma loop_for_i_eq : forall n genv en s t a i stp to b,
  loop_for_i (S n) genv en s t a i stp to b =
  rbind (eval n genv en s to) (fun tv s => rbind (to_Z_res tv s) (fun lim s =>
    if (if stp <? 0 then i >=? lim else i <=? lim) then
      rbind (exec_block n genv en s b) (fun fl s =>
        match fl with
        | FBreak => Ok FNext s
        | FRet v => Ok (FRet v) s
        | _ => let i' := wrap64 (i + stp) in
               rbind (write_bind s (BLoc a) (match t with TByte => VB (wrap8 i') | _ => VZ i' end)) (fun _ s =>
                 loop_for_i n genv en s t a i' stp to b)
        end)
    else Ok FNext s)).
Proof. reflexivity. Qed.

Lemma loop_for_k_eq : forall n genv en s a i stp to b,
  loop_for_k (S n) genv en s a i stp to b =
  rbind (eval n genv en s to) (fun tv s =>
    match to_f tv with
    | None => bad s
    | Some lim =>
        if (if f_lt stp f_pos_zero then f_ge i lim else f_le i lim) then
          rbind (exec_block n genv en s b) (fun fl s =>
            match fl with
            | FBreak => Ok FNext s
            | FRet v => Ok (FRet v) s
            | _ => let i' := f_add i stp in
                   rbind (write_bind s (BLoc a) (VK i')) (fun _ s => loop_for_k n genv en s a i' stp to b)
            end)
        else Ok FNext s
    end).
Proof. reflexivity. Qed.

Lemma exec_foreach : forall n genv en s t x idx e b,
  exec (S n) genv en s (SForEach t x idx e b) =
  rbind (eval n genv en s e) (fun cv s =>
  rbind (match cv with
         | VT cs => if ty_eqb t TChar then Ok (map VC cs) s else bad s
         | VL u vs => if ty_eqb t u then Ok vs s else bad s
         | _ => bad s
         end) (fun elems s =>
    match elems with
    | [] => Ok (FNext, en) s
    | v0 :: _ =>
        let (a, s) := alloc s v0 in
        let en1 := (x, BLoc a) :: en in
        match idx with
        | None => rbind (loop_each n genv en1 s a None elems b) (fun fl s => Ok (fl, en) s)
        | Some ix =>
            let (ai, s) := alloc s (VZ 1) in
            rbind (loop_each n genv ((ix, BLoc ai) :: en1) s a (Some ai) elems b) (fun fl s => Ok (fl, en) s)
        end
    end)).
Proof. reflexivity. Qed.

Lemma loop_each_nil : forall n genv en s a ai b, loop_each (S n) genv en s a ai [] b = Ok FNext s.
Proof. reflexivity. Qed.
Lemma loop_each_cons : forall n genv en s a ai v rest b,
  loop_each (S n) genv en s a ai (v :: rest) b =
  rbind (write_bind s (BLoc a) v) (fun _ s =>
  rbind (exec_block n genv en s b) (fun fl s =>
    match fl with
    | FBreak => Ok FNext s
    | FRet r => Ok (FRet r) s
    | _ =>
        rbind (match ai with
               | None => Ok tt s
               | Some c => rbind (read_bind s (BLoc c)) (fun iv s =>
                             match iv with VZ k => write_bind s (BLoc c) (VZ (wrap64 (k + 1))) | _ => bad s end)
               end) (fun _ s => loop_each n genv en s a ai rest b)
    end)).
Proof. reflexivity. Qed.

Lemma evals_nil : forall n genv en s, evals pow log10 fmt_float ftab (S n) genv en s [] = Ok [] s.
Proof. reflexivity. Qed.
Lemma evals_cons : forall n genv en s e es,
  evals pow log10 fmt_float ftab (S n) genv en s (e :: es) =
  rbind (eval n genv en s e) (fun v s => rbind (evals pow log10 fmt_float ftab n genv en s es) (fun vs s => Ok (v :: vs) s)).
Proof. reflexivity. Qed.
Lemma eval_listlit : forall n genv en s es,
  eval (S n) genv en s (EListLit es) =
  rbind (evals pow log10 fmt_float ftab n genv en s es) (fun vs s =>
    match vs with
    | [] => bad s
    | v :: _ => if forallb (fun w => ty_eqb (type_of v) (type_of w)) vs then Ok (VL (type_of v) vs) s else bad s
    end).
Proof. reflexivity. Qed.
Lemma eval_text : forall n genv en s cs, eval (S n) genv en s (EText cs) = Ok (VT cs) s.
Proof. reflexivity. Qed.

Lemma mblock_nil : forall n en ms, mblock (S n) en ms [] = MROk MFNext ms.
Proof. reflexivity. Qed.
Lemma mblock_cons : forall n en ms st r,
  mblock (S n) en ms (st :: r) =
  match mexec n en ms st with
  | MROk (MFNext, en') ms' => mblock n en' ms' r
  | MROk (fl, _) ms' => MROk fl ms'
  | MRErr ms' => MRErr ms' | MRStuck => MRStuck | MRFuel => MRFuel
  end.
Proof. reflexivity. Qed.
Lemma mwhile_eq : forall n en ms c b,
  mwhile (S n) en ms c b =
  match m_eval en ms c with
  | MOk (MI1 false) => MROk MFNext ms
  | MOk (MI1 true) =>
      match mblock n en ms b with
      | MROk MFBreak ms' => MROk MFNext ms'
      | MROk _ ms' => mwhile n en ms' c b
      | MRErr ms' => MRErr ms' | MRStuck => MRStuck | MRFuel => MRFuel
      end
  | MOk _ => MRStuck
  | MErr => MRErr ms
  | MStuck => MRStuck
  end.
Proof. reflexivity. Qed.
Lemma mrepeat_eq : forall n en ms u b,
  mrepeat (S n) en ms u b =
  if u =? 0 then MROk MFNext ms else
  match mblock n en ms b with
  | MROk MFBreak ms' => MROk MFNext ms'
  | MROk _ ms' => mrepeat n en ms' (sub64 u 1) b
  | MRErr ms' => MRErr ms' | MRStuck => MRStuck | MRFuel => MRFuel
  end.
Proof. reflexivity. Qed.
Lemma mfor_i_eq : forall n en ms t a u su to b,
  mfor_i (S n) en ms t a u su to b =
    match m_eval en ms to with
    | MOk mt =>
        match as_int mt with
        | LOk (MI64 lim) =>
            if (if icmp64 ISlt su 0 then icmp64 ISge u lim else icmp64 ISle u lim) then
              match mblock n en ms b with
              | MROk MFBreak ms' => MROk MFNext ms'
              | MROk _ ms' =>
                  let u' := add64 u su in
                  mfor_i n en (m_store ms' a (match t with TByte => MI8 (trunc64_8 u') | _ => MI64 u' end)) t a u' su to b
              | MRErr ms' => MRErr ms' | MRStuck => MRStuck | MRFuel => MRFuel
              end
            else MROk MFNext ms
        | _ => MRStuck
        end
    | MErr => MRErr ms
    | MStuck => MRStuck
    end.
Proof. reflexivity. Qed.
Lemma mfor_k_eq : forall n en ms a i stpf to b,
  mfor_k (S n) en ms a i stpf to b =
    match m_eval en ms to with
    | MOk mt =>
        match as_float mt with
        | LOk (MF64 lim) =>
            if (if fcmp FOlt stpf f_pos_zero then fcmp FOge i lim else fcmp FOle i lim) then
              match mblock n en ms b with
              | MROk MFBreak ms' => MROk MFNext ms'
              | MROk _ ms' => let i' := f_add i stpf in mfor_k n en (m_store ms' a (MF64 i')) a i' stpf to b
              | MRErr ms' => MRErr ms' | MRStuck => MRStuck | MRFuel => MRFuel
              end
            else MROk MFNext ms
        | _ => MRStuck
        end
    | MErr => MRErr ms
    | MStuck => MRStuck
    end.
Proof. reflexivity. Qed.
Lemma meach_nil : forall n en ms a ai b, meach (S n) en ms a ai [] b = MROk MFNext ms.
Proof. reflexivity. Qed.
Lemma meach_cons : forall n en ms a ai m rest b,
  meach (S n) en ms a ai (m :: rest) b =
    match mblock n en (m_store ms a m) b with
    | MROk MFBreak ms' => MROk MFNext ms'
    | MROk _ ms' =>
        match ai with
        | None => meach n en ms' a ai rest b
        | Some c => match nth_error (cells ms') c with
                    | Some (MI64 u) => meach n en (m_store ms' c (MI64 (add64 u 1))) a ai rest b
                    | _ => MRStuck
                    end
        end
    | MRErr ms' => MRErr ms' | MRStuck => MRStuck | MRFuel => MRFuel
    end.
Proof. reflexivity. Qed.
Lemma mexec_eq : forall n en ms st,
  mexec (S n) en ms st =
    match st with
    | LDecl t x e =>
        match m_eval en ms e with
        | MOk m => match m_coerce t m with
                   | MOk m' => MROk (MFNext, (x, BLoc (length (cells ms))) :: en)
                                    {| cells := cells ms ++ [m']; mout := mout ms |}
                   | MErr => MRErr ms
                   | MStuck => MRStuck
                   end
        | MErr => MRErr ms
        | MStuck => MRStuck
        end
    | LStore x e =>
        match m_eval en ms e with
        | MOk m =>
            match lookup en x with
            | Some (BLoc a) =>
                match nth_error (cells ms) a with
                | Some old => match m_coerce (mty old) m with
                              | MOk m' => MROk (MFNext, en) {| cells := set_nth (cells ms) a m'; mout := mout ms |}
                              | MErr => MRErr ms
                              | MStuck => MRStuck
                              end
                | None => MRStuck
                end
            | _ => MRStuck
            end
        | MErr => MRErr ms
        | MStuck => MRStuck
        end
    | LIf c th el =>
        match m_eval en ms c with
        | MOk (MI1 b) => match mblock n en ms (if b then th else el) with
                         | MROk fl ms' => MROk (fl, en) ms'
                         | MRErr ms' => MRErr ms' | MRStuck => MRStuck | MRFuel => MRFuel
                         end
        | MOk _ => MRStuck
        | MErr => MRErr ms
        | MStuck => MRStuck
        end
    | LWhile c b =>
        match mwhile n en ms c b with
        | MROk fl ms' => MROk (fl, en) ms'
        | MRErr ms' => MRErr ms' | MRStuck => MRStuck | MRFuel => MRFuel
        end
    | LDoWhile b c =>
        match mblock n en ms b with
        | MROk MFBreak ms' => MROk (MFNext, en) ms'
        | MROk _ ms' => match mwhile n en ms' c b with
                        | MROk fl ms'' => MROk (fl, en) ms''
                        | MRErr ms'' => MRErr ms'' | MRStuck => MRStuck | MRFuel => MRFuel
                        end
        | MRErr ms' => MRErr ms' | MRStuck => MRStuck | MRFuel => MRFuel
        end
    | LRepeat c b =>
        match m_eval en ms c with
        | MOk m => match as_int m with
                   | LOk (MI64 u) =>
                       match mrepeat n en ms u b with
                       | MROk fl ms' => MROk (fl, en) ms'
                       | MRErr ms' => MRErr ms' | MRStuck => MRStuck | MRFuel => MRFuel
                       end
                   | _ => MRStuck
                   end
        | MErr => MRErr ms
        | MStuck => MRStuck
        end
    | LBreak => MROk (MFBreak, en) ms
    | LContinue => MROk (MFCont, en) ms
    | LBlock b =>
        match mblock n en ms b with
        | MROk fl ms' => MROk (fl, en) ms'
        | MRErr ms' => MRErr ms' | MRStuck => MRStuck | MRFuel => MRFuel
        end
    | LEval e =>
        match m_eval en ms e with
        | MOk _ => MROk (MFNext, en) ms
        | MErr => MRErr ms
        | MStuck => MRStuck
        end
    | LPrint e =>
        match m_eval en ms e with
        | MOk m => match m_print m with
                   | Some bs => MROk (MFNext, en) (m_emit ms bs)
                   | None => MRStuck
                   end
        | MErr => MRErr ms
        | MStuck => MRStuck
        end
    | LFor t x from to step body =>
        match m_eval en ms from with
        | MOk m =>
            match m_coerce t m with
            | MOk m0 =>
                let a := length (cells ms) in
                let ms1 := m_alloc ms m0 in
                let en' := (x, BLoc a) :: en in
                match (match step with Some se => m_eval en' ms1 se | None => MOk (m_default_step t) end) with
                | MOk sv =>
                    match t with
                    | TKomma =>
                        match m0, as_float sv with
                        | MF64 i0, LOk (MF64 stpf) => mr_env en (mfor_k n en' ms1 a i0 stpf to body)
                        | _, _ => MRStuck
                        end
                    | TZahl | TByte =>
                        match as_int m0, as_int sv with
                        | LOk (MI64 u0), LOk (MI64 su) => mr_env en (mfor_i n en' ms1 t a u0 su to body)
                        | _, _ => MRStuck
                        end
                    | _ => MRStuck
                    end
                | MErr => MRErr ms1
                | MStuck => MRStuck
                end
            | MErr => MRErr ms
            | MStuck => MRStuck
            end
        | MErr => MRErr ms
        | MStuck => MRStuck
        end
    | LForEach x idx src body =>
        match (match src with
               | LSText cs => MLOk (map (fun c => MI32 (c mod 2^32)) cs)
               | LSList es => m_evals en ms es
               end) with
        | MLOk [] => MROk (MFNext, en) ms
        | MLOk (m0 :: rest) =>
            let a := length (cells ms) in
            let ms1 := m_alloc ms m0 in
            let en1 := (x, BLoc a) :: en in
            match idx with
            | None => mr_env en (meach n en1 ms1 a None (m0 :: rest) body)
            | Some ix => mr_env en (meach n ((ix, BLoc (S a)) :: en1) (m_alloc ms1 (MI64 1)) a (Some (S a)) (m0 :: rest) body)
            end
        | MLErr => MRErr ms
        | MLStuck => MRStuck
        end
    end.
Proof. reflexivity. Qed.

Definition cell_rel (v : value) (m : mval) : Prop := wf v /\ m = repr v.
Definition srel (s : state) (ms : mstate) : Prop := out s = mout ms /\ Forall2 cell_rel (store s) (cells ms).

(* the typing environment describes the variables of [en] *)
Definition gok (G : tenv) (en : env) (s : state) : Prop :=
  forall x t, G x = Some t -> exists a v, lookup en x = Some (BLoc a) /\ nth_error (store s) a = Some v /\ type_of v = t.

(* the store only grows, cells keep their types *)
Definition tyext (s s' : state) : Prop :=
  forall a v, nth_error (store s) a = Some v -> exists v', nth_error (store s') a = Some v' /\ type_of v' = type_of v.

Lemma tyext_refl : forall s, tyext s s.
Proof. intros s a v H. eauto. Qed.
Lemma tyext_trans : forall a b c, tyext a b -> tyext b c -> tyext a c.
Proof.
  intros a b c H1 H2 x v H. destruct (H1 _ _ H) as [v' [A B]]. destruct (H2 _ _ A) as [v'' [C D]].
  exists v''. split; auto. congruence.
Qed.
Lemma gok_ext : forall G en s s', gok G en s -> tyext s s' -> gok G en s'.
Proof.
  intros G en s s' H E x t HG. destruct (H x t HG) as [a [v [L [N T]]]].
  destruct (E _ _ N) as [v' [N' T']]. exists a, v'. repeat split; auto. congruence.
Qed.

Lemma Forall2_nth : forall (A B : Type) (R : A -> B -> Prop) l1 l2 n x,
  Forall2 R l1 l2 -> nth_error l1 n = Some x -> exists y, nth_error l2 n = Some y /\ R x y.
Proof.
  intros A B R l1 l2 n x H. revert n x. induction H; intros n a H1.
  - destruct n; discriminate H1.
  - destruct n; cbn in *.
    + inversion H1; subst. eauto.
    + eauto.
Qed.

Lemma Forall2_len : forall (A B : Type) (R : A -> B -> Prop) l1 l2, Forall2 R l1 l2 -> length l1 = length l2.
Proof. intros A B R l1 l2 H. induction H; cbn; auto. Qed.

Lemma Forall2_set_nth : forall (A B : Type) (R : A -> B -> Prop) l1 l2 n x y,
  Forall2 R l1 l2 -> R x y -> Forall2 R (set_nth l1 n x) (set_nth l2 n y).
Proof.
  intros A B R l1 l2 n x y H. revert n. induction H; intros n HR; cbn.
  - destruct n; constructor.
  - destruct n; constructor; auto.
Qed.

Lemma set_nth_nth_same : forall (A : Type) (l : list A) n x y, nth_error l n = Some y -> nth_error (set_nth l n x) n = Some x.
Proof. induction l; intros n x y H; destruct n; cbn in *; try discriminate H; eauto. Qed.
Lemma set_nth_nth_other : forall (A : Type) (l : list A) n m x, n <> m -> nth_error (set_nth l n x) m = nth_error l m.
Proof. induction l; intros n m x H; destruct n, m; cbn; auto; try congruence. Qed.
Lemma set_nth_length : forall (A : Type) (l : list A) n x, length (set_nth l n x) = length l.
Proof. induction l; intros; destruct n; cbn; auto. Qed.

(* expression evaluation under the invariant *)
Lemma env_ok_of : forall G en s ms, srel s ms -> gok G en s -> env_ok G en s (m_ld en ms).
Proof.
  intros G en s ms [_ HS] HG x t Hx Hsc. destruct (HG x t Hx) as [a [v [L [N T]]]].
  destruct (Forall2_nth _ _ _ _ _ _ _ HS N) as [m [Nm [W E]]].
  exists (BLoc a), v. repeat split; auto.
  - cbn. rewrite N. reflexivity.
  - unfold m_ld. rewrite L. rewrite Nm. now subst.
Qed.

Lemma eval_sim : forall G en s ms genv e t n,
  srel s ms -> gok G en s -> typeof G e = Some t ->
  agree True t s (eval n genv en s e) (m_eval en ms (compile_expr e)).
Proof.
  intros. unfold m_eval. eapply expr_preservation_gen; eauto using env_ok_of.
Qed.

Lemma mty_repr : forall v, wf v -> mty (repr v) = type_of v.
Proof. intros v W. destruct v; cbn in W; try contradiction; reflexivity. Qed.

Lemma coerce_sim : forall t te v,
  okv te v -> assignable t te = true ->
  exists w, coerce fmt_float t v = ROk w /\ okv t w /\ m_coerce t (repr v) = MOk (repr w).
Proof.
  intros t te v [W T] A. unfold assignable in A. apply andb_true_iff in A. destruct A as [SC A].
  unfold coerce, m_coerce. rewrite mty_repr by assumption. rewrite T.
  destruct (ty_eqb t te) eqn:E.
  - apply ty_eqb_eq in E. subst. exists v. repeat split; auto.
  - cbn [orb] in A. rewrite A.
    assert (CT : cast_ty t te = Some t).
    { apply andb_true_iff in A. destruct A as [A1 A2]. destruct t, te; cbn in *; try discriminate; reflexivity. }
    rewrite <- T in CT.
    destruct (cast_sound fmt_float t v t W CT) as [w [Hw Ow]].
    exists w. rewrite Hw. repeat split; try apply Ow.
    assert (ST : scalar_ty t = true) by (destruct t; cbn in *; auto; discriminate).
    rewrite (cast_lowering_correct fmt_float t v w W ST Hw). reflexivity.
Qed.

Lemma value_of_repr : forall v, wf v -> value_of_mval (repr v) = v.
Proof.
  intros v W. destruct v; cbn in W; try contradiction; cbn [repr value_of_mval]; try reflexivity.
  - now rewrite signed64_mod.
  - now rewrite signed32_mod.
Qed.

Definition flow_rel (fl : flow) (m : mflow) : Prop :=
  match fl, m with FNext, MFNext | FBreak, MFBreak | FCont, MFCont => True | _, _ => False end.

Definition guard_ok (g : guard) : Prop :=
  match g with G_repeat_negative | G_bad_codepoint => True | _ => False end.

Definition rel_exec (G' : tenv) (s0 : state) (r : res (flow * env)) (m : mr (mflow * env)) : Prop :=
  match r with
  | Ok (fl, en') s' => exists mfl ms', m = MROk (mfl, en') ms' /\ flow_rel fl mfl /\ srel s' ms' /\ gok G' en' s' /\ tyext s0 s'
  | Fail ELaufzeit s' => exists ms', m = MRErr ms' /\ out s' = mout ms'
  | Fail EFuel _ => True
  | Fail (EUndef g) _ => guard_ok g
  end.

Definition rel_block (s0 : state) (r : res flow) (m : mr mflow) : Prop :=
  match r with
  | Ok fl s' => exists mfl ms', m = MROk mfl ms' /\ flow_rel fl mfl /\ srel s' ms' /\ tyext s0 s'
  | Fail ELaufzeit s' => exists ms', m = MRErr ms' /\ out s' = mout ms'
  | Fail EFuel _ => True
  | Fail (EUndef g) _ => guard_ok g
  end.

Lemma alloc_sim : forall G en s ms v t x,
  srel s ms -> gok G en s -> okv t v ->
  fst (alloc s v) = length (cells ms) /\
  srel (snd (alloc s v)) {| cells := cells ms ++ [repr v]; mout := mout ms |} /\
  gok (upd G x t) ((x, BLoc (length (store s))) :: en) (snd (alloc s v)) /\ tyext s (snd (alloc s v)).
Proof.
  intros G en s ms v t x [HO HS] HG [W T]. cbn.
  assert (LEN : length (store s) = length (cells ms)) by (eapply Forall2_len; eauto).
  split; [exact LEN|]. split; [|split].
  - split; [exact HO|]. cbn. apply Forall2_app; auto. constructor; [split; auto|constructor].
  - intros y ty Hy. unfold upd in Hy. cbn [lookup]. destruct (N.eqb y x) eqn:E.
    + inversion Hy; subst. exists (length (store s)), v. repeat split; auto. cbn.
      rewrite nth_error_app2 by lia. rewrite Nat.sub_diag. reflexivity.
    + destruct (HG y ty Hy) as [a [w [L [Nw Tw]]]]. exists a, w. repeat split; auto. cbn.
      rewrite nth_error_app1; auto. apply nth_error_Some. congruence.
  - intros a w Hw. exists w. split; auto. cbn. rewrite nth_error_app1; auto. apply nth_error_Some. congruence.
Qed.

Lemma write_sim : forall s ms a old w,
  srel s ms -> nth_error (store s) a = Some old -> wf w -> type_of w = type_of old ->
  exists s', write_bind s (BLoc a) w = Ok tt s' /\
             srel s' {| cells := set_nth (cells ms) a (repr w); mout := mout ms |} /\ tyext s s'.
Proof.
  intros s ms a old w [HO HS] Hn W T.
  assert (LT : (a < length (store s))%nat) by (apply nth_error_Some; congruence).
  cbn [write_bind]. apply Nat.ltb_lt in LT. rewrite LT.
  eexists. split; [reflexivity|]. split.
  - split; [exact HO|]. cbn. apply Forall2_set_nth; auto. split; auto.
  - intros b v Hb. cbn. destruct (Nat.eq_dec a b).
    + subst. exists w. split; [eapply set_nth_nth_same; eauto|]. congruence.
    + exists v. split; auto. rewrite set_nth_nth_other; auto.
Qed.

(* the statements of the fragment are not calls: exec's special case for `SExpr (ECall ..)` does not apply *)
Lemma exec_expr_stmt : forall G e t n genv en s,
  typeof G e = Some t ->
  exec (S n) genv en s (SExpr e) = rbind (eval n genv en s e) (fun _ s => Ok (FNext, en) s).
Proof. intros G e t n genv en s H. destruct e; try reflexivity. discriminate H. Qed.

Lemma block_ok_cons : forall G lp st r,
  block_ok G lp (st :: r) = true -> exists G', stmt_ok G lp st = Some G' /\ block_ok G' lp r = true.
Proof. intros G lp st r H. cbn [block_ok] in H. destruct (stmt_ok G lp st) as [G'|]; [eauto|discriminate H]. Qed.

(* stmt_ok's local block checker is block_ok *)
Lemma stmt_ok_block : forall G lp ss,
  (fix go (G : tenv) (lp : bool) (ss : list stmt) : bool :=
     match ss with
     | [] => true
     | s :: r => match stmt_ok G lp s with Some G' => go G' lp r | None => false end
     end) G lp ss = block_ok G lp ss.
Proof. intros G lp ss. revert G. induction ss as [|s r IH]; intros G; [reflexivity|]. cbn [block_ok]. destruct (stmt_ok G lp s); auto. Qed.

Lemma stmt_ok_if : forall G lp c th el,
  stmt_ok G lp (SIf c th el) =
  match typeof G c with
  | Some TBool => if block_ok G lp th && block_ok G lp el then Some G else None
  | _ => None
  end.
Proof. intros. cbn [stmt_ok]. rewrite !stmt_ok_block. reflexivity. Qed.

Lemma stmt_ok_while : forall G lp c b,
  stmt_ok G lp (SWhile c b) =
  match typeof G c with Some TBool => if block_ok G true b then Some G else None | _ => None end.
Proof. intros. cbn [stmt_ok]. rewrite !stmt_ok_block. reflexivity. Qed.
Lemma stmt_ok_dowhile : forall G lp c b,
  stmt_ok G lp (SDoWhile b c) =
  match typeof G c with Some TBool => if block_ok G true b then Some G else None | _ => None end.
Proof. intros. cbn [stmt_ok]. rewrite !stmt_ok_block. reflexivity. Qed.
Lemma stmt_ok_repeat : forall G lp c b,
  stmt_ok G lp (SRepeat c b) =
  match typeof G c with
  | Some TZahl | Some TByte => if block_ok G true b then Some G else None
  | _ => None
  end.
Proof. intros. cbn [stmt_ok]. rewrite !stmt_ok_block. reflexivity. Qed.
Lemma stmt_ok_blockstmt : forall G lp b,
  stmt_ok G lp (SBlock b) = if block_ok G lp b then Some G else None.
Proof. intros. cbn [stmt_ok]. rewrite !stmt_ok_block. reflexivity. Qed.

(* ---- helpers for the counting loops and for-each ---------------------------------------------------------- *)
Lemma eval_zero : forall genv en s e, eval 0 genv en s e = Fail EFuel s.
Proof. reflexivity. Qed.
Lemma evals_zero : forall genv en s es, evals pow log10 fmt_float ftab 0 genv en s es = Fail EFuel s.
Proof. reflexivity. Qed.

Lemma one_mod : 1 mod 2^64 = 1.
Proof. reflexivity. Qed.

Lemma icmp_slt0 : forall z, min64 <= z <= max64 -> icmp64 ISlt (z mod 2^64) 0 = (z <? 0).
Proof. intros z H. cbn [icmp64]. rewrite signed64_mod by assumption. reflexivity. Qed.

Lemma to_Z_sim : forall v s, wf v -> is_num (type_of v) = true ->
  exists k, to_Z_res v s = Ok k s /\ min64 <= k <= max64 /\ as_int (repr v) = LOk (MI64 (k mod 2^64)).
Proof.
  intros v s W N. destruct v; cbn in W, N; try discriminate N; unfold to_Z_res.
  - exists z. cbn. repeat split; auto; apply W.
  - exists (f_to_Z_sat min64 max64 bits). cbn. repeat split; try reflexivity.
    + pose proof (sat_range min64 max64 bits). unfold min64, max64 in *. lia.
    + pose proof (sat_range min64 max64 bits). unfold min64, max64 in *. lia.
  - exists z. cbn. unfold zext8_64. rewrite small_byte_mod by assumption. repeat split; auto; unfold min64, max64; lia.
Qed.

Lemma as_float_sim : forall v, wf v -> is_num (type_of v) = true ->
  exists x, to_f v = Some x /\ as_float (repr v) = LOk (MF64 x).
Proof.
  intros v W N. destruct v; cbn in W, N; try discriminate N; cbn [to_f repr as_float]; eexists; split; try reflexivity.
  now rewrite tof_Z.
Qed.

Lemma cell_ext : forall s s' a t,
  (exists old, nth_error (store s) a = Some old /\ type_of old = t) -> tyext s s' ->
  exists old, nth_error (store s') a = Some old /\ type_of old = t.
Proof. intros s s' a t [old [N T]] E. destruct (E _ _ N) as [v' [N' T']]. exists v'. split; auto. congruence. Qed.

Lemma alloc_cell : forall s v, nth_error (store (snd (alloc s v))) (length (store s)) = Some v.
Proof. intros. cbn. rewrite nth_error_app2 by lia. rewrite Nat.sub_diag. reflexivity. Qed.

Lemma evals_sim : forall G en s ms genv t es n,
  srel s ms -> gok G en s ->
  forallb (fun e => match typeof G e with Some te => ty_eqb te t | None => false end) es = true ->
  match evals pow log10 fmt_float ftab n genv en s es with
  | Ok vs s' => s' = s /\ Forall (okv t) vs /\ length vs = length es /\ m_evals en ms (map compile_expr es) = MLOk (map repr vs)
  | Fail ELaufzeit s' => s' = s /\ m_evals en ms (map compile_expr es) = MLErr
  | Fail EFuel _ => True
  | Fail (EUndef _) _ => False
  end.
Proof.
  intros G en s ms genv t es. induction es as [|e es IH]; intros n SR GK TY.
  - destruct n; [rewrite evals_zero; exact I|]. rewrite evals_nil. repeat split; auto.
  - destruct n; [rewrite evals_zero; exact I|]. rewrite evals_cons. cbn [forallb] in TY.
    apply andb_true_iff in TY. destruct TY as [T1 T2].
    destruct (typeof G e) as [te|] eqn:TE; [|discriminate T1]. apply ty_eqb_eq in T1. subst te.
    pose proof (eval_sim G en s ms genv e t n SR GK TE) as HE. unfold rbind. cbn [map m_evals].
    destruct (eval n genv en s e) as [v s'|er s'].
    + destruct HE as [-> [OV HM]]. rewrite HM. specialize (IH n SR GK T2).
      destruct (evals pow log10 fmt_float ftab n genv en s es) as [vs s'|er s'].
      * destruct IH as [-> [FA [LN HM2]]]. rewrite HM2. repeat split; auto. cbn. now rewrite LN.
      * destruct er; auto. destruct IH as [-> HM2]. rewrite HM2. split; reflexivity.
    + destruct er as [| g |]; cbn in HE |- *; auto. destruct HE as [-> ->]. split; reflexivity.
Qed.

Lemma stmt_ok_for : forall G lp t x from to step b,
  stmt_ok G lp (SFor t x from to step b) =
  match typeof G from, typeof (upd G x t) to with
  | Some tf, Some tq =>
      if is_num t && assignable t tf && is_num tq &&
         (match step with None => true | Some se => match typeof (upd G x t) se with Some ts => is_num ts | None => false end end) &&
         block_ok (upd G x t) true b
      then Some G else None
  | _, _ => None
  end.
Proof. intros. cbn [stmt_ok]. rewrite !stmt_ok_block. reflexivity. Qed.

Lemma stmt_ok_foreach : forall G lp t x idx src b,
  stmt_ok G lp (SForEach t x idx src b) =
  if is_scalar_ty t &&
     (match src with
      | EListLit (e0 :: es) => forallb (fun e => match typeof G e with Some te => ty_eqb te t | None => false end) (e0 :: es)
      | EText cs => ty_eqb t TChar && forallb (fun c => (- 2^31 <=? c) && (c <? 2^31)) cs
      | _ => false
      end) &&
     block_ok (match idx with Some ix => upd (upd G x t) ix TZahl | None => upd G x t end) true b
  then Some G else None.
Proof. intros. cbn [stmt_ok]. rewrite !stmt_ok_block. reflexivity. Qed.

Definition has_cell (s : state) (a : nat) (t : ty) : Prop := exists old, nth_error (store s) a = Some old /\ type_of old = t.

Definition P_exec (n : nat) : Prop :=
  forall G G' lp genv en s ms st,
    srel s ms -> gok G en s -> stmt_ok G lp st = Some G' ->
    rel_exec G' s (exec n genv en s st) (mexec n en ms (compile_stmt st)).
Definition P_block (n : nat) : Prop :=
  forall G lp genv en s ms ss,
    srel s ms -> gok G en s -> block_ok G lp ss = true ->
    rel_block s (exec_block n genv en s ss) (mblock n en ms (map compile_stmt ss)).
Definition P_while (n : nat) : Prop :=
  forall G genv en s ms c b,
    srel s ms -> gok G en s -> typeof G c = Some TBool -> block_ok G true b = true ->
    rel_block s (loop_while n genv en s c b) (mwhile n en ms (compile_expr c) (map compile_stmt b)).
Definition P_repeat (n : nat) : Prop :=
  forall G genv en s ms k b,
    srel s ms -> gok G en s -> block_ok G true b = true -> 0 <= k <= max64 ->
    rel_block s (loop_repeat n genv en s k b) (mrepeat n en ms (k mod 2^64) (map compile_stmt b)).

Definition P_for_i (n : nat) : Prop :=
  forall G genv en s ms t a i stp to b tq,
    srel s ms -> gok G en s -> (t = TZahl \/ t = TByte) -> has_cell s a t ->
    min64 <= i <= max64 -> min64 <= stp <= max64 ->
    typeof G to = Some tq -> is_num tq = true -> block_ok G true b = true ->
    rel_block s (loop_for_i n genv en s t a i stp to b)
              (mfor_i n en ms t a (i mod 2^64) (stp mod 2^64) (compile_expr to) (map compile_stmt b)).
Definition P_for_k (n : nat) : Prop :=
  forall G genv en s ms a i stp to b tq,
    srel s ms -> gok G en s -> has_cell s a TKomma ->
    typeof G to = Some tq -> is_num tq = true -> block_ok G true b = true ->
    rel_block s (loop_for_k n genv en s a i stp to b)
              (mfor_k n en ms a i stp (compile_expr to) (map compile_stmt b)).
Definition P_each (n : nat) : Prop :=
  forall G genv en s ms a ai elems b t,
    srel s ms -> gok G en s -> block_ok G true b = true -> Forall (okv t) elems ->
    has_cell s a t -> (forall c, ai = Some c -> has_cell s c TZahl) ->
    rel_block s (loop_each n genv en s a ai elems b) (meach n en ms a ai (map repr elems) (map compile_stmt b)).

Ltac fin :=
  repeat match goal with
  | |- _ /\ _ => split
  | |- @eq (mr _) _ _ => reflexivity
  | |- flow_rel _ _ => first [assumption | exact I]
  | |- srel _ _ => assumption
  | |- tyext _ _ => first [assumption | apply tyext_refl | eapply tyext_trans; eassumption]
  | |- gok _ _ _ => first [assumption | eapply gok_ext; [eassumption|]; first [assumption | eapply tyext_trans; eassumption]]
  end.

Ltac errb :=
  cbn [rel_block rel_exec] in *; try exact I; try assumption;
  try match goal with
      | H : exists _, _ = MRErr _ /\ _ |- _ =>
          let m := fresh in let E := fresh in let O := fresh in destruct H as [m [E O]]; rewrite E; eauto
      end.

Ltac fail_cases er IH :=
  destruct er as [| g |]; cbn in IH |- *; auto; try contradiction;
  try (destruct IH as [-> ->]; eexists; split; [reflexivity|]; match goal with H : srel _ _ |- _ => apply H end).

Lemma rel_block_ext : forall s0 s1 r m, tyext s0 s1 -> rel_block s1 r m -> rel_block s0 r m.
Proof.
  intros s0 s1 r m T H. destruct r as [fl s'|er s']; cbn [rel_block] in *.
  - destruct H as [mfl [ms' [E [F [S' T']]]]]. exists mfl, ms'.
    split; [exact E|split; [exact F|split; [exact S'|eapply tyext_trans; eauto]]].
  - destruct er; auto.
Qed.

Lemma text_elems_ok : forall cs, forallb (fun c => (- 2^31 <=? c) && (c <? 2^31)) cs = true -> Forall (okv TChar) (map VC cs).
Proof.
  induction cs as [|c cs IH]; intros H; cbn [map]; constructor.
  - cbn [forallb] in H. apply andb_true_iff in H. destruct H as [H _]. apply andb_true_iff in H. destruct H as [A B].
    apply Z.leb_le in A. apply Z.ltb_lt in B. split; [cbn; lia|reflexivity].
  - apply IH. cbn [forallb] in H. apply andb_true_iff in H. apply H.
Qed.

Lemma same_ty_forallb : forall t vs v, Forall (okv t) vs -> type_of v = t ->
  forallb (fun w => ty_eqb (type_of v) (type_of w)) vs = true.
Proof.
  intros t vs v FA TV. induction FA as [|w vs [_ TW] _ IH]; cbn [forallb]; auto.
  rewrite IH, TV, TW. assert (E : ty_eqb t t = true) by (apply ty_eqb_eq; reflexivity). now rewrite E.
Qed.

Lemma each_step : forall n, P_block n -> P_each n -> P_each (S n).
Proof.
  intros n IHb IHx G genv en s ms a ai elems b t SR GK OK FA HA HI.
  destruct elems as [|v rest]; cbn [map].
  - rewrite loop_each_nil, meach_nil. exists MFNext, ms. fin.
  - rewrite loop_each_cons, meach_cons. pose proof (Forall_inv FA) as [Wv Tv]. pose proof (Forall_inv_tail FA) as FR.
    destruct HA as [old [No To]].
    destruct (write_sim s ms a old v SR No Wv ltac:(congruence)) as [s1 [HW [SR1 TE1]]].
    rewrite HW.
    assert (TAIL : forall s2 ms2, srel s2 ms2 -> tyext s1 s2 ->
      rel_block s
        (rbind (match ai with
                | None => Ok tt s2
                | Some c => rbind (read_bind s2 (BLoc c)) (fun iv s =>
                              match iv with VZ k => write_bind s (BLoc c) (VZ (wrap64 (k + 1))) | _ => bad s end)
                end) (fun _ s => loop_each n genv en s a ai rest b))
        (match ai with
         | None => meach n en ms2 a ai (map repr rest) (map compile_stmt b)
         | Some c => match nth_error (cells ms2) c with
                     | Some (MI64 u) => meach n en (m_store ms2 c (MI64 (add64 u 1))) a ai (map repr rest) (map compile_stmt b)
                     | _ => MRStuck
                     end
         end)).
    { intros s2 ms2 SR2 TE2. assert (TE : tyext s s2) by (eapply tyext_trans; eassumption).
      destruct ai as [c|].
      - destruct (cell_ext s s2 c TZahl (HI c eq_refl) TE) as [iv [Ni Ti]].
        cbn [read_bind]. rewrite Ni.
        destruct SR2 as [HO2 HS2]. destruct (Forall2_nth _ _ _ _ _ _ _ HS2 Ni) as [mi [Nmi [Wi Ei]]]. rewrite Nmi. subst mi.
        destruct iv; try discriminate Ti. cbn [repr]. unfold rbind at 2.
        destruct (write_sim s2 ms2 c (VZ z) (VZ (wrap64 (z + 1))) (conj HO2 HS2) Ni (wrap64_in64 _) eq_refl) as [s3 [HW3 [SR3 TE3]]].
        rewrite HW3. unfold rbind.
        assert (EQ : MI64 (add64 (z mod 2^64) 1) = repr (VZ (wrap64 (z + 1)))).
        { cbn [repr]. rewrite wrap64_mod. unfold add64, m64. f_equal. now rewrite Zplus_mod_idemp_l. }
        unfold m_store. rewrite EQ.
        assert (TE' : tyext s s3) by (eapply tyext_trans; eassumption).
        eapply rel_block_ext; [exact TE'|].
        apply (IHx G genv en s3 _ a (Some c) rest b t); auto.
        + eapply gok_ext; eauto.
        + apply (cell_ext s s3 a t); [exists old; auto|exact TE'].
        + intros c0 E. inversion E; subst c0. apply (cell_ext s s3 c TZahl); [apply HI; reflexivity|exact TE'].
      - unfold rbind. eapply rel_block_ext; [exact TE|].
        apply (IHx G genv en s2 ms2 a None rest b t); auto.
        + eapply gok_ext; eauto.
        + apply (cell_ext s s2 a t); [exists old; auto|exact TE].
        + intros c E. discriminate E. }
    unfold rbind at 1 2.
    pose proof (IHb G true genv en s1 (m_store ms a (repr v)) b SR1 (gok_ext _ _ _ _ GK TE1) OK) as HB.
    destruct (exec_block n genv en s1 b) as [fl s2|er s2].
    + cbn [rel_block] in HB; destruct HB as [mfl [ms2 [-> [FR' [SR2 TE2]]]]].
      destruct fl, mfl; try contradiction; [apply TAIL; assumption | exists MFNext, ms2; fin | apply TAIL; assumption].
    + destruct er; errb.
Qed.

Lemma fori_step : forall n, P_block n -> P_for_i n -> P_for_i (S n).
Proof.
  intros n IHb IHf G genv en s ms t a i stp to b tq SR GK TT HA HI HS TQ NQ OK.
  rewrite loop_for_i_eq, mfor_i_eq. unfold rbind at 1.
  pose proof (eval_sim G en s ms genv to tq n SR GK TQ) as HE.
  destruct (eval n genv en s to) as [tv s'|er s'].
  - destruct HE as [-> [[Wv Tv] HM]]. rewrite HM.
    destruct (to_Z_sim tv s Wv ltac:(rewrite Tv; exact NQ)) as [lim [HL [RL AL]]]. rewrite HL, AL. unfold rbind at 1.
    rewrite (icmp_slt0 stp HS), (icmp_sge i lim HI RL), (icmp_sle i lim HI RL).
    destruct (if stp <? 0 then i >=? lim else i <=? lim).
    + pose proof (IHb G true genv en s ms b SR GK OK) as HB. unfold rbind at 1.
      destruct (exec_block n genv en s b) as [fl s1|er s1].
      * cbn [rel_block] in HB; destruct HB as [mfl [ms1 [-> [FR [SR1 TE1]]]]].
        assert (TAIL : rel_block s
           (rbind (write_bind s1 (BLoc a) (match t with TByte => VB (wrap8 (wrap64 (i + stp))) | _ => VZ (wrap64 (i + stp)) end))
                  (fun _ s => loop_for_i n genv en s t a (wrap64 (i + stp)) stp to b))
           (mfor_i n en (m_store ms1 a (match t with
                                        | TByte => MI8 (trunc64_8 (add64 (i mod 2^64) (stp mod 2^64)))
                                        | _ => MI64 (add64 (i mod 2^64) (stp mod 2^64)) end))
                   t a (add64 (i mod 2^64) (stp mod 2^64)) (stp mod 2^64) (compile_expr to) (map compile_stmt b))).
        { set (i' := wrap64 (i + stp)).
          assert (ADD : add64 (i mod 2^64) (stp mod 2^64) = i' mod 2^64).
          { unfold i', add64, m64. rewrite wrap64_mod. symmetry. apply Zplus_mod. }
          rewrite ADD.
          destruct (cell_ext s s1 a t HA TE1) as [old [No To]].
          set (w := match t with TByte => VB (wrap8 i') | _ => VZ i' end).
          assert (Ww : wf w /\ type_of w = t /\
                       repr w = match t with TByte => MI8 (trunc64_8 (i' mod 2^64)) | _ => MI64 (i' mod 2^64) end).
          { destruct TT; subst t; unfold w; cbn [wf type_of repr].
            - split; [apply wrap64_in64|split; reflexivity].
            - split; [unfold wrap8; apply Z.mod_pos_bound; lia|split; [reflexivity|]].
              unfold trunc64_8, wrap8. now rewrite mod_mod_256. }
          destruct Ww as [Ww [Tw Rw]]. rewrite <- Rw.
          destruct (write_sim s1 ms1 a old w SR1 No Ww ltac:(congruence)) as [s2 [HW [SR2 TE2]]].
          rewrite HW. unfold rbind.
          assert (TE' : tyext s s2) by (eapply tyext_trans; eassumption).
          eapply rel_block_ext; [exact TE'|].
          apply (IHf G genv en s2 _ t a i' stp to b tq); auto.
          - eapply gok_ext; eauto.
          - apply (cell_ext s s2 a t); [exact HA|exact TE'].
          - apply wrap64_in64. }
        destruct fl, mfl; try contradiction; [apply TAIL | exists MFNext, ms1; fin | apply TAIL].
      * destruct er; errb.
    + exists MFNext, ms. fin.
  - destruct er as [| g |]; cbn in HE |- *; auto; try contradiction.
    destruct HE as [-> ->]. exists ms. split; [reflexivity|apply SR].
Qed.

Lemma fork_step : forall n, P_block n -> P_for_k n -> P_for_k (S n).
Proof.
  intros n IHb IHf G genv en s ms a i stp to b tq SR GK HA TQ NQ OK.
  rewrite loop_for_k_eq, mfor_k_eq. unfold rbind at 1.
  pose proof (eval_sim G en s ms genv to tq n SR GK TQ) as HE.
  destruct (eval n genv en s to) as [tv s'|er s'].
  - destruct HE as [-> [[Wv Tv] HM]]. rewrite HM.
    destruct (as_float_sim tv Wv ltac:(rewrite Tv; exact NQ)) as [lim [HL AL]]. rewrite HL, AL.
    cbn [fcmp].
    destruct (if f_lt stp f_pos_zero then f_ge i lim else f_le i lim).
    + pose proof (IHb G true genv en s ms b SR GK OK) as HB. unfold rbind at 1.
      destruct (exec_block n genv en s b) as [fl s1|er s1].
      * cbn [rel_block] in HB; destruct HB as [mfl [ms1 [-> [FR [SR1 TE1]]]]].
        assert (TAIL : rel_block s
           (rbind (write_bind s1 (BLoc a) (VK (f_add i stp))) (fun _ s => loop_for_k n genv en s a (f_add i stp) stp to b))
           (mfor_k n en (m_store ms1 a (MF64 (f_add i stp))) a (f_add i stp) stp (compile_expr to) (map compile_stmt b))).
        { destruct (cell_ext s s1 a TKomma HA TE1) as [old [No To]].
          destruct (write_sim s1 ms1 a old (VK (f_add i stp)) SR1 No (wf_fadd i stp) ltac:(cbn; congruence)) as [s2 [HW [SR2 TE2]]].
          rewrite HW. unfold rbind.
          assert (TE' : tyext s s2) by (eapply tyext_trans; eassumption).
          eapply rel_block_ext; [exact TE'|].
          apply (IHf G genv en s2 _ a (f_add i stp) stp to b tq); auto.
          - eapply gok_ext; eauto.
          - apply (cell_ext s s2 a TKomma); [exact HA|exact TE']. }
        destruct fl, mfl; try contradiction; [apply TAIL | exists MFNext, ms1; fin | apply TAIL].
      * destruct er; errb.
    + exists MFNext, ms. fin.
  - destruct er as [| g |]; cbn in HE |- *; auto; try contradiction.
    destruct HE as [-> ->]. exists ms. split; [reflexivity|apply SR].
Qed.

Lemma foreach_tail : forall n, P_each n -> forall G genv en s ms t x idx vs b,
  srel s ms -> gok G en s -> Forall (okv t) vs ->
  block_ok (match idx with Some ix => upd (upd G x t) ix TZahl | None => upd G x t end) true b = true ->
  rel_exec G s
    (match vs with
     | [] => Ok (FNext, en) s
     | v0 :: _ =>
         let (a, s) := alloc s v0 in
         let en1 := (x, BLoc a) :: en in
         match idx with
         | None => rbind (loop_each n genv en1 s a None vs b) (fun fl s => Ok (fl, en) s)
         | Some ix =>
             let (ai, s) := alloc s (VZ 1) in
             rbind (loop_each n genv ((ix, BLoc ai) :: en1) s a (Some ai) vs b) (fun fl s => Ok (fl, en) s)
         end
     end)
    (match map repr vs with
     | [] => MROk (MFNext, en) ms
     | m0 :: rest =>
         let a := length (cells ms) in
         let ms1 := m_alloc ms m0 in
         let en1 := (x, BLoc a) :: en in
         match idx with
         | None => mr_env en (meach n en1 ms1 a None (m0 :: rest) (map compile_stmt b))
         | Some ix => mr_env en (meach n ((ix, BLoc (S a)) :: en1) (m_alloc ms1 (MI64 1)) a (Some (S a)) (m0 :: rest) (map compile_stmt b))
         end
     end).
Proof.
  intros n IHx G genv en s ms t x idx vs b SR GK FA OKb.
  destruct vs as [|v0 rest]; cbn [map].
  - exists MFNext, ms. fin.
  - pose proof (Forall_inv FA) as OV0.
    destruct (alloc_sim G en s ms v0 t x SR GK OV0) as [A1 [A2 [A3 A4]]]. pose proof (alloc_cell s v0) as AC.
    assert (LS : length (store (snd (alloc s v0))) = S (length (store s))) by (cbn; rewrite app_length; cbn; lia).
    destruct (alloc s v0) as [a s1] eqn:AL. cbn [fst snd] in *.
    assert (EA : a = length (store s)) by (unfold alloc in AL; inversion AL; reflexivity). rewrite EA in *.
    cbv zeta. rewrite <- A1.
    destruct idx as [ix|].
    + assert (W1 : okv TZahl (VZ 1)) by (split; [cbn; unfold min64, max64; lia|reflexivity]).
      destruct (alloc_sim (upd G x t) ((x, BLoc (length (store s))) :: en) s1 (m_alloc ms (repr v0)) (VZ 1) TZahl ix A2 A3 W1)
        as [B1 [B2 [B3 B4]]].
      pose proof (alloc_cell s1 (VZ 1)) as BC.
      destruct (alloc s1 (VZ 1)) as [ai s2] eqn:AL2. cbn [fst snd] in *.
      assert (EB : ai = length (store s1)) by (unfold alloc in AL2; inversion AL2; reflexivity). rewrite EB in *.
      rewrite LS in *.
      assert (HAc : has_cell s2 (length (store s)) t).
      { apply (cell_ext s1 s2 _ t); [exists v0; split; [exact AC|apply OV0]|exact B4]. }
      assert (HIc : forall c, Some (S (length (store s))) = Some c -> has_cell s2 c TZahl).
      { intros c E. inversion E; subst c. exists (VZ 1). split; [exact BC|reflexivity]. }
      pose proof (IHx _ genv ((ix, BLoc (S (length (store s)))) :: (x, BLoc (length (store s))) :: en) s2
                      (m_alloc (m_alloc ms (repr v0)) (MI64 1)) (length (store s)) (Some (S (length (store s))))
                      (v0 :: rest) b t B2 B3 OKb FA HAc HIc) as HL.
      cbn [map] in HL. unfold rbind.
      destruct (loop_each n genv ((ix, BLoc (S (length (store s)))) :: (x, BLoc (length (store s))) :: en) s2
                          (length (store s)) (Some (S (length (store s)))) (v0 :: rest) b) as [fl s3|er s3].
      * cbn [rel_block] in HL. destruct HL as [mfl [ms3 [-> [FR [SR3 TE3]]]]]. cbn [mr_env].
        assert (TE : tyext s s3) by (eapply tyext_trans; [exact A4|eapply tyext_trans; [exact B4|exact TE3]]).
        exists mfl, ms3. fin.
      * destruct er; cbn [rel_exec rel_block] in *; auto. destruct HL as [ms3 [-> HO]]. cbn [mr_env]. eauto.
    + assert (HAc : has_cell s1 (length (store s)) t) by (exists v0; split; [exact AC|apply OV0]).
      assert (HIc : forall c, @None nat = Some c -> has_cell s1 c TZahl) by (intros c E; discriminate E).
      pose proof (IHx _ genv ((x, BLoc (length (store s))) :: en) s1 (m_alloc ms (repr v0)) (length (store s)) None
                      (v0 :: rest) b t A2 A3 OKb FA HAc HIc) as HL.
      cbn [map] in HL. unfold rbind.
      destruct (loop_each n genv ((x, BLoc (length (store s))) :: en) s1 (length (store s)) None (v0 :: rest) b) as [fl s3|er s3].
      * cbn [rel_block] in HL. destruct HL as [mfl [ms3 [-> [FR [SR3 TE3]]]]]. cbn [mr_env].
        assert (TE : tyext s s3) by (eapply tyext_trans; [exact A4|exact TE3]).
        exists mfl, ms3. fin.
      * destruct er; cbn [rel_exec rel_block] in *; auto. destruct HL as [ms3 [-> HO]]. cbn [mr_env]. eauto.
Qed.

Definition P_all (n : nat) : Prop :=
  P_exec n /\ P_block n /\ P_while n /\ P_repeat n /\ P_for_i n /\ P_for_k n /\ P_each n.

Lemma sim_step : forall n, P_all n -> P_all (S n).
Proof.
  intros n [IHe [IHb [IHw [IHr [IHfi [IHfk IHx]]]]]].
  assert (PB : P_block (S n)).
  { intros G lp genv en s ms ss SR GK OK. destruct ss as [|st r]; cbn [map].
    - rewrite exec_block_nil, mblock_nil. exists MFNext, ms. fin.
    - destruct (block_ok_cons _ _ _ _ OK) as [G' [OKs OKr]].
      rewrite exec_block_cons, mblock_cons.
      pose proof (IHe G G' lp genv en s ms st SR GK OKs) as H. unfold rbind.
      destruct (exec n genv en s st) as [[fl en'] s'|er s'].
      + cbn [rel_block rel_exec] in H; destruct H as [mfl [ms' [-> [FR [SR' [GK' TE]]]]]].
        destruct fl, mfl; try contradiction.
        * pose proof (IHb G' lp genv en' s' ms' r SR' GK' OKr) as H2.
          destruct (exec_block n genv en' s' r) as [fl2 s2|er2 s2].
          -- cbn [rel_block rel_exec] in H2; destruct H2 as [mfl2 [ms2 [-> [FR2 [SR2 TE2]]]]]. exists mfl2, ms2. fin.
          -- destruct er2; errb.
        * exists MFBreak, ms'. fin.
        * exists MFCont, ms'. fin.
      + destruct er; errb. }
  assert (PW : P_while (S n)).
  { intros G genv en s ms c b SR GK TC OK. rewrite loop_while_eq, mwhile_eq. unfold rbind.
    pose proof (eval_sim G en s ms genv c TBool n SR GK TC) as HE.
    destruct (eval n genv en s c) as [v s'|er s'].
    - destruct HE as [-> [[Wv Tv] HM]]. rewrite HM. destruct v; try discriminate Tv. cbn [repr].
      destruct b0.
      + pose proof (IHb G true genv en s ms b SR GK OK) as HB.
        destruct (exec_block n genv en s b) as [fl s1|er s1].
        * cbn [rel_block rel_exec] in HB; destruct HB as [mfl [ms1 [-> [FR [SR1 TE1]]]]].
          destruct fl, mfl; try contradiction.
          -- pose proof (IHw G genv en s1 ms1 c b SR1 (gok_ext _ _ _ _ GK TE1) TC OK) as H2.
             destruct (loop_while n genv en s1 c b) as [fl2 s2|er2 s2].
             ++ cbn [rel_block rel_exec] in H2; destruct H2 as [mfl2 [ms2 [-> [FR2 [SR2 TE2]]]]]. exists mfl2, ms2. fin.
             ++ destruct er2; errb.
          -- exists MFNext, ms1. fin.
          -- pose proof (IHw G genv en s1 ms1 c b SR1 (gok_ext _ _ _ _ GK TE1) TC OK) as H2.
             destruct (loop_while n genv en s1 c b) as [fl2 s2|er2 s2].
             ++ cbn [rel_block rel_exec] in H2; destruct H2 as [mfl2 [ms2 [-> [FR2 [SR2 TE2]]]]]. exists mfl2, ms2. fin.
             ++ destruct er2; errb.
        * destruct er; errb.
      + exists MFNext, ms. fin.
    - destruct er as [| g |]; cbn in HE |- *; auto; try contradiction.
      destruct HE as [-> ->]. exists ms. split; [reflexivity|apply SR]. }
  assert (PR : P_repeat (S n)).
  { intros G genv en s ms k b SR GK OK HK. rewrite loop_repeat_eq, mrepeat_eq. unfold max64 in HK.
    assert (M : k mod 2^64 = k) by (apply Z.mod_small; lia). rewrite M.
    destruct (k <=? 0) eqn:K.
    - apply Z.leb_le in K. assert (k = 0) by lia. subst. cbn [Z.eqb].
      exists MFNext, ms. fin.
    - apply Z.leb_gt in K. replace (k =? 0) with false by (symmetry; apply Z.eqb_neq; lia).
      assert (DEC : sub64 k 1 = (k - 1) mod 2^64).
      { unfold sub64, m64. rewrite <- M at 1. now rewrite Zminus_mod_idemp_l. }
      assert (HK' : 0 <= k - 1 <= max64) by (unfold max64; lia).
      unfold rbind. pose proof (IHb G true genv en s ms b SR GK OK) as HB.
      destruct (exec_block n genv en s b) as [fl s1|er s1].
      + cbn [rel_block rel_exec] in HB; destruct HB as [mfl [ms1 [-> [FR [SR1 TE1]]]]].
        destruct fl, mfl; try contradiction.
        * rewrite DEC. pose proof (IHr G genv en s1 ms1 (k - 1) b SR1 (gok_ext _ _ _ _ GK TE1) OK HK') as H2.
          destruct (loop_repeat n genv en s1 (k - 1) b) as [fl2 s2|er2 s2].
          -- cbn [rel_block rel_exec] in H2; destruct H2 as [mfl2 [ms2 [-> [FR2 [SR2 TE2]]]]]. exists mfl2, ms2. fin.
          -- destruct er2; errb.
        * exists MFNext, ms1. fin.
        * rewrite DEC. pose proof (IHr G genv en s1 ms1 (k - 1) b SR1 (gok_ext _ _ _ _ GK TE1) OK HK') as H2.
          destruct (loop_repeat n genv en s1 (k - 1) b) as [fl2 s2|er2 s2].
          -- cbn [rel_block rel_exec] in H2; destruct H2 as [mfl2 [ms2 [-> [FR2 [SR2 TE2]]]]]. exists mfl2, ms2. fin.
          -- destruct er2; errb.
      + destruct er; errb. }
  split; [|split; [exact PB|split; [exact PW|split; [exact PR|
    split; [apply fori_step; assumption|split; [apply fork_step; assumption|apply each_step; assumption]]]]]].
  (* statements *)
  intros G G' lp genv en s ms st SR GK OK.
  destruct st; try (cbn [stmt_ok] in OK; discriminate OK).
  - (* SDecl *) cbn [stmt_ok] in OK.
    destruct (typeof G e) as [te|] eqn:TE; [|discriminate OK].
    destruct (assignable t te) eqn:AS; [|discriminate OK]. inversion OK; subst G'.
    cbn [compile_stmt]. rewrite exec_decl, mexec_eq. unfold rbind.
    pose proof (eval_sim G en s ms genv e te n SR GK TE) as HE.
    destruct (eval n genv en s e) as [v s'|er s'].
    + destruct HE as [-> [OV HM]]. rewrite HM.
      destruct (coerce_sim t te v OV AS) as [w [HC [OW MC]]]. rewrite HC, MC. cbn [lift].
      destruct (alloc_sim G en s ms w t x SR GK OW) as [A1 [A2 [A3 A4]]].
      destruct (alloc s w) as [a s1] eqn:AL. cbn [fst snd] in *.
      assert (EA : a = length (store s)) by (unfold alloc in AL; inversion AL; reflexivity). rewrite EA in *.
      exists MFNext. eexists. split; [rewrite <- A1; reflexivity|]. fin.
    + destruct er as [| g |]; cbn in HE |- *; auto; try contradiction.
      destruct HE as [-> ->]. exists ms. split; [reflexivity|apply SR].
  - (* SAssign *)
    destruct l as [x|x i]; cbn [stmt_ok] in OK; [|discriminate OK].
    destruct (G x) as [t|] eqn:GX; [|discriminate OK].
    destruct (typeof G e) as [te|] eqn:TE; [|discriminate OK].
    destruct (assignable t te) eqn:AS; [|discriminate OK]. inversion OK; subst G'.
    cbn [compile_stmt]. rewrite exec_assign, mexec_eq. unfold rbind.
    pose proof (eval_sim G en s ms genv e te n SR GK TE) as HE.
    destruct (eval n genv en s e) as [v s'|er s'].
    + destruct HE as [-> [OV HM]]. rewrite HM.
      destruct (GK x t GX) as [a [old [L [Nold Told]]]]. rewrite L. cbn [read_bind]. rewrite Nold.
      destruct SR as [HO HS]. destruct (Forall2_nth _ _ _ _ _ _ _ HS Nold) as [mo [Nmo [Wo Eo]]]. rewrite Nmo.
      subst mo. rewrite mty_repr by assumption. rewrite Told.
      destruct (coerce_sim t te v OV AS) as [w [HC [[Ww Tw] MC]]]. rewrite HC, MC. cbn [lift].
      destruct (write_sim s ms a old w (conj HO HS) Nold Ww ltac:(congruence)) as [s1 [HW [SR1 TE1]]].
      rewrite HW. exists MFNext. eexists. split; [reflexivity|]. fin.
    + destruct er as [| g |]; cbn in HE |- *; auto; try contradiction.
      destruct HE as [-> ->]. exists ms. split; [reflexivity|apply SR].
  - (* SIf *) rewrite stmt_ok_if in OK.
    destruct (typeof G c) as [tc|] eqn:TC; [|discriminate OK]. destruct tc; try discriminate OK.
    destruct (block_ok G lp th && block_ok G lp el) eqn:BB; [|discriminate OK]. inversion OK; subst G'.
    apply andb_true_iff in BB. destruct BB as [B1 B2].
    cbn [compile_stmt]. rewrite exec_if, mexec_eq. unfold rbind.
    pose proof (eval_sim G en s ms genv c TBool n SR GK TC) as HE.
    destruct (eval n genv en s c) as [v s'|er s'].
    + destruct HE as [-> [[Wv Tv] HM]]. rewrite HM. destruct v; try discriminate Tv. cbn [repr].
      assert (HB : rel_block s (exec_block n genv en s (if b then th else el))
                     (mblock n en ms (if b then map compile_stmt th else map compile_stmt el))).
      { destruct b; [apply (IHb G lp)|apply (IHb G lp)]; auto. }
      destruct (exec_block n genv en s (if b then th else el)) as [fl s1|er s1].
      * cbn [rel_block rel_exec] in HB; destruct HB as [mfl [ms1 [-> [FR [SR1 TE1]]]]]. exists mfl, ms1. fin.
      * destruct er; errb.
    + destruct er as [| g |]; cbn in HE |- *; auto; try contradiction.
      destruct HE as [-> ->]. exists ms. split; [reflexivity|apply SR].
  - (* SWhile *) rewrite stmt_ok_while in OK.
    destruct (typeof G c) as [tc|] eqn:TC; [|discriminate OK]. destruct tc; try discriminate OK.
    destruct (block_ok G true body) eqn:BB; [|discriminate OK]. inversion OK; subst G'.
    cbn [compile_stmt]. rewrite exec_while, mexec_eq. unfold rbind.
    pose proof (IHw G genv en s ms c body SR GK TC BB) as HW.
    destruct (loop_while n genv en s c body) as [fl s1|er s1].
    + cbn [rel_block rel_exec] in HW; destruct HW as [mfl [ms1 [-> [FR [SR1 TE1]]]]]. exists mfl, ms1. fin.
    + destruct er; errb.
  - (* SDoWhile *) rewrite stmt_ok_dowhile in OK.
    destruct (typeof G c) as [tc|] eqn:TC; [|discriminate OK]. destruct tc; try discriminate OK.
    destruct (block_ok G true body) eqn:BB; [|discriminate OK]. inversion OK; subst G'.
    cbn [compile_stmt]. rewrite exec_dowhile, mexec_eq. unfold rbind.
    pose proof (IHb G true genv en s ms body SR GK BB) as HB.
    destruct (exec_block n genv en s body) as [fl s1|er s1].
    + cbn [rel_block rel_exec] in HB; destruct HB as [mfl [ms1 [-> [FR [SR1 TE1]]]]].
      destruct fl, mfl; try contradiction.
      * pose proof (IHw G genv en s1 ms1 c body SR1 (gok_ext _ _ _ _ GK TE1) TC BB) as HW.
        destruct (loop_while n genv en s1 c body) as [fl2 s2|er2 s2].
        -- cbn [rel_block rel_exec] in HW; destruct HW as [mfl2 [ms2 [-> [FR2 [SR2 TE2]]]]]. exists mfl2, ms2. fin.
        -- destruct er2; errb.
      * exists MFNext, ms1. fin.
      * pose proof (IHw G genv en s1 ms1 c body SR1 (gok_ext _ _ _ _ GK TE1) TC BB) as HW.
        destruct (loop_while n genv en s1 c body) as [fl2 s2|er2 s2].
        -- cbn [rel_block rel_exec] in HW; destruct HW as [mfl2 [ms2 [-> [FR2 [SR2 TE2]]]]]. exists mfl2, ms2. fin.
        -- destruct er2; errb.
    + destruct er; errb.
  - (* SRepeat *) rewrite stmt_ok_repeat in OK.
    destruct (typeof G n0) as [tc|] eqn:TC; [|discriminate OK].
    assert (TI : tc = TZahl \/ tc = TByte) by (destruct tc; try discriminate OK; auto).
    assert (BB : block_ok G true body = true /\ G' = G).
    { destruct tc; try discriminate OK; destruct (block_ok G true body); try discriminate OK; inversion OK; auto. }
    destruct BB as [BB ->].
    cbn [compile_stmt]. rewrite exec_repeat, mexec_eq. unfold rbind.
    pose proof (eval_sim G en s ms genv n0 tc n SR GK TC) as HE.
    destruct (eval n genv en s n0) as [v s'|er s'].
    + destruct HE as [-> [[Wv Tv] HM]]. rewrite HM.
      assert (TK : exists k, to_i v = Some k /\ as_int (repr v) = LOk (MI64 (k mod 2^64)) /\ k <= max64).
      { destruct TI; subst tc; destruct v; try discriminate Tv; cbn in Wv; cbn [to_i repr as_int]; eexists; repeat split; try reflexivity; try lia.
        - unfold zext8_64. now rewrite small_byte_mod.
        - unfold max64. lia. }
      destruct TK as [k [TK [AI KM]]]. rewrite TK, AI.
      destruct (k <? 0) eqn:KN; [exact I|]. apply Z.ltb_ge in KN.
      pose proof (IHr G genv en s ms k body SR GK BB (conj KN KM)) as HR.
      destruct (loop_repeat n genv en s k body) as [fl s1|er s1].
      * cbn [rel_block rel_exec] in HR; destruct HR as [mfl [ms1 [-> [FR [SR1 TE1]]]]]. exists mfl, ms1. fin.
      * destruct er; errb.
    + destruct er as [| g |]; cbn in HE |- *; auto; try contradiction.
      destruct HE as [-> ->]. exists ms. split; [reflexivity|apply SR].
  - (* SFor *) rewrite stmt_ok_for in OK.
    destruct (typeof G from) as [tf|] eqn:TF; [|discriminate OK].
    destruct (typeof (upd G x t) to) as [tq|] eqn:TQ; [|discriminate OK].
    match type of OK with (if ?c then _ else _) = _ => destruct c eqn:BB; [|discriminate OK] end.
    inversion OK; subst G'.
    apply andb_true_iff in BB. destruct BB as [BB OKb]. apply andb_true_iff in BB. destruct BB as [BB STP].
    apply andb_true_iff in BB. destruct BB as [BB NQ]. apply andb_true_iff in BB. destruct BB as [NT AS].
    cbn [compile_stmt]. rewrite exec_for, mexec_eq. unfold rbind at 1.
    pose proof (eval_sim G en s ms genv from tf n SR GK TF) as HE.
    destruct (eval n genv en s from) as [v s'|er s'].
    2:{ destruct er as [| g |]; cbn in HE |- *; auto; try contradiction.
        destruct HE as [-> ->]. exists ms. split; [reflexivity|apply SR]. }
    destruct HE as [-> [OV HM]]. rewrite HM.
    destruct (coerce_sim t tf v OV AS) as [w [HC [OW MC]]]. rewrite HC, MC. cbn [lift]. unfold rbind at 1.
    destruct (alloc_sim G en s ms w t x SR GK OW) as [A1 [A2 [A3 A4]]]. pose proof (alloc_cell s w) as AC.
    destruct (alloc s w) as [a s1] eqn:AL. cbn [fst snd] in *.
    assert (EA : a = length (store s)) by (unfold alloc in AL; inversion AL; reflexivity). rewrite EA in *.
    cbv zeta. rewrite <- A1.
    set (en' := (x, BLoc (length (store s))) :: en) in *.
    assert (STEPV :
      match (match step with Some se => eval n genv en' s1 se | None => Ok (default_step t) s1 end) with
      | Ok sv s' => s' = s1 /\ wf sv /\ is_num (type_of sv) = true /\
          (match (match step with Some se => Some (compile_expr se) | None => None end) with
           | Some se => m_eval en' (m_alloc ms (repr w)) se | None => MOk (m_default_step t) end) = MOk (repr sv)
      | Fail ELaufzeit s' => s' = s1 /\
          (match (match step with Some se => Some (compile_expr se) | None => None end) with
           | Some se => m_eval en' (m_alloc ms (repr w)) se | None => MOk (m_default_step t) end) = MErr
      | Fail EFuel _ => True
      | Fail (EUndef _) _ => False
      end).
    { destruct step as [se|].
      - destruct (typeof (upd G x t) se) as [ts|] eqn:TS; [|discriminate STP].
        pose proof (eval_sim (upd G x t) en' s1 (m_alloc ms (repr w)) genv se ts n A2 A3 TS) as HS.
        destruct (eval n genv en' s1 se) as [sv s'|er s'].
        + destruct HS as [-> [[Wsv Tsv] HMs]]. split; [reflexivity|split; [exact Wsv|split; [now rewrite Tsv|exact HMs]]].
        + destruct er as [| g |]; cbn in HS |- *; auto.
      - destruct t; try discriminate NT; cbn [default_step m_default_step].
        + split; [reflexivity|split; [cbn; unfold min64, max64; lia|split; reflexivity]].
        + split; [reflexivity|split; [apply canon_enc|split; reflexivity]].
        + split; [reflexivity|split; [cbn; unfold min64, max64; lia|split; reflexivity]]. }
    unfold rbind at 1.
    destruct (match step with Some se => eval n genv en' s1 se | None => Ok (default_step t) s1 end) as [sv s'|er s'].
    2:{ destruct er as [| g |]; cbn [rel_exec]; auto; try contradiction.
        destruct STEPV as [-> HMs]. rewrite HMs. exists (m_alloc ms (repr w)). split; [reflexivity|apply A2]. }
    destruct STEPV as [-> [Wsv [Nsv HMs]]]. rewrite HMs.
    destruct OW as [Ww Tw].
    assert (HAc : has_cell s1 (length (store s)) t) by (exists w; split; [exact AC|exact Tw]).
    destruct t; try discriminate NT.
    + (* Zahl *) destruct w; try discriminate Tw. cbn [to_i repr as_int].
      destruct (to_Z_sim sv s1 Wsv Nsv) as [stp [HZ [RS AS']]]. rewrite HZ, AS'. unfold rbind at 1.
      pose proof (IHfi (upd G x TZahl) genv en' s1 (m_alloc ms (MI64 (z mod 2^64))) TZahl (length (store s)) z stp to body tq
                       A2 A3 (or_introl eq_refl) HAc Ww RS TQ NQ OKb) as HL.
      unfold rbind.
      destruct (loop_for_i n genv en' s1 TZahl (length (store s)) z stp to body) as [fl s2|er s2].
      * cbn [rel_block] in HL. destruct HL as [mfl [ms2 [-> [FR [SR2 TE2]]]]]. cbn [mr_env].
        assert (TE : tyext s s2) by (eapply tyext_trans; [exact A4|exact TE2]).
        exists mfl, ms2. fin.
      * destruct er; cbn [rel_exec rel_block] in *; auto. destruct HL as [ms2 [-> HO]]. cbn [mr_env]. eauto.
    + (* Kommazahl *) destruct w; try discriminate Tw. cbn [repr].
      destruct (as_float_sim sv Wsv Nsv) as [stp [HF AF]]. rewrite HF, AF.
      pose proof (IHfk (upd G x TKomma) genv en' s1 (m_alloc ms (MF64 bits)) (length (store s)) bits stp to body tq
                       A2 A3 HAc TQ NQ OKb) as HL.
      unfold rbind.
      destruct (loop_for_k n genv en' s1 (length (store s)) bits stp to body) as [fl s2|er s2].
      * cbn [rel_block] in HL. destruct HL as [mfl [ms2 [-> [FR [SR2 TE2]]]]]. cbn [mr_env].
        assert (TE : tyext s s2) by (eapply tyext_trans; [exact A4|exact TE2]).
        exists mfl, ms2. fin.
      * destruct er; cbn [rel_exec rel_block] in *; auto. destruct HL as [ms2 [-> HO]]. cbn [mr_env]. eauto.
    + (* Byte *) destruct w; try discriminate Tw. cbn [to_i repr as_int]. cbn in Ww.
      destruct (to_Z_sim sv s1 Wsv Nsv) as [stp [HZ [RS AS']]]. rewrite HZ, AS'. unfold rbind at 1.
      rewrite (zext_mod z Ww).
      assert (RZ : min64 <= z <= max64) by (unfold min64, max64; lia).
      pose proof (IHfi (upd G x TByte) genv en' s1 (m_alloc ms (MI8 z)) TByte (length (store s)) z stp to body tq
                       A2 A3 (or_intror eq_refl) HAc RZ RS TQ NQ OKb) as HL.
      unfold rbind.
      destruct (loop_for_i n genv en' s1 TByte (length (store s)) z stp to body) as [fl s2|er s2].
      * cbn [rel_block] in HL. destruct HL as [mfl [ms2 [-> [FR [SR2 TE2]]]]]. cbn [mr_env].
        assert (TE : tyext s s2) by (eapply tyext_trans; [exact A4|exact TE2]).
        exists mfl, ms2. fin.
      * destruct er; cbn [rel_exec rel_block] in *; auto. destruct HL as [ms2 [-> HO]]. cbn [mr_env]. eauto.
  - (* SForEach *) rewrite stmt_ok_foreach in OK.
    match type of OK with (if ?c then _ else _) = _ => destruct c eqn:BB; [|discriminate OK] end.
    inversion OK; subst G'.
    apply andb_true_iff in BB. destruct BB as [BB OKb]. apply andb_true_iff in BB. destruct BB as [ST SRC].
    destruct n as [|n'].
    { rewrite exec_foreach. rewrite eval_zero. exact I. }
    destruct e; try discriminate SRC.
    + (* Text literal *)
      apply andb_true_iff in SRC. destruct SRC as [TC RG].
      cbn [compile_stmt]. rewrite exec_foreach, mexec_eq. rewrite eval_text. unfold rbind at 1. rewrite TC. unfold rbind at 1.
      apply ty_eqb_eq in TC. subst t.
      replace (map (fun c => MI32 (c mod 2^32)) cs) with (map repr (map VC cs)) by (rewrite map_map; reflexivity).
      apply (foreach_tail (S n') IHx G genv en s ms TChar x idx (map VC cs) body SR GK (text_elems_ok cs RG) OKb).
    + (* list literal *)
      destruct es as [|e0 es]; [discriminate SRC|].
      cbn [compile_stmt]. rewrite exec_foreach, mexec_eq. rewrite eval_listlit.
      pose proof (evals_sim G en s ms genv t (e0 :: es) n' SR GK SRC) as HV. unfold rbind at 1 2.
      destruct (evals pow log10 fmt_float ftab n' genv en s (e0 :: es)) as [vs s'|er s'].
      * destruct HV as [-> [FA [LN HM]]]. rewrite HM. destruct vs as [|v vs']; [discriminate LN|].
        pose proof (Forall_inv FA) as [Wv Tv].
        rewrite (same_ty_forallb t (v :: vs') v FA Tv). unfold rbind at 1. rewrite Tv.
        assert (E : ty_eqb t t = true) by (apply ty_eqb_eq; reflexivity). rewrite E. unfold rbind at 1.
        apply (foreach_tail (S n') IHx G genv en s ms t x idx (v :: vs') body SR GK FA OKb).
      * destruct er as [| g |]; cbn in HV |- *; auto; try contradiction.
        destruct HV as [-> ->]. exists ms. split; [reflexivity|apply SR].
  - (* SBreak *) cbn [stmt_ok] in OK.
    destruct lp; [|discriminate OK]. inversion OK; subst. cbn [compile_stmt]. rewrite mexec_eq. change (exec (S n) genv en s SBreak) with (@Ok (flow * env) (FBreak, en) s). exists MFBreak, ms. fin.
  - (* SContinue *) cbn [stmt_ok] in OK.
    destruct lp; [|discriminate OK]. inversion OK; subst. cbn [compile_stmt]. rewrite mexec_eq. change (exec (S n) genv en s SContinue) with (@Ok (flow * env) (FCont, en) s). exists MFCont, ms. fin.
  - (* SBlock *) rewrite stmt_ok_blockstmt in OK.
    destruct (block_ok G lp body) eqn:BB; [|discriminate OK]. inversion OK; subst G'.
    cbn [compile_stmt]. rewrite exec_blockstmt, mexec_eq. unfold rbind.
    pose proof (IHb G lp genv en s ms body SR GK BB) as HB.
    destruct (exec_block n genv en s body) as [fl s1|er s1].
    + cbn [rel_block rel_exec] in HB; destruct HB as [mfl [ms1 [-> [FR [SR1 TE1]]]]]. exists mfl, ms1. fin.
    + destruct er; errb.
  - (* SExpr *) cbn [stmt_ok] in OK.
    destruct (typeof G e) as [te|] eqn:TE; [|discriminate OK]. inversion OK; subst G'.
    rewrite (exec_expr_stmt G e te n genv en s TE). cbn [compile_stmt]. rewrite mexec_eq. unfold rbind.
    pose proof (eval_sim G en s ms genv e te n SR GK TE) as HE.
    destruct (eval n genv en s e) as [v s'|er s'].
    + destruct HE as [-> [OV HM]]. rewrite HM. exists MFNext, ms. fin.
    + destruct er as [| g |]; cbn in HE |- *; auto; try contradiction.
      destruct HE as [-> ->]. exists ms. split; [reflexivity|apply SR].
  - (* SPrint *) cbn [stmt_ok] in OK.
    destruct (typeof G e) as [te|] eqn:TE; [|discriminate OK]. inversion OK; subst G'.
    cbn [compile_stmt]. rewrite exec_print, mexec_eq. unfold rbind.
    pose proof (eval_sim G en s ms genv e te n SR GK TE) as HE.
    destruct (eval n genv en s e) as [v s'|er s'].
    + destruct HE as [-> [[Wv Tv] HM]]. rewrite HM. unfold m_print. rewrite value_of_repr by assumption.
      destruct (print_bytes fmt_float v) as [[bs|]|g] eqn:PBy.
      * exists MFNext. eexists. split; [reflexivity|]. destruct SR as [HO HS].
        split; [exact I|]. split; [split; [cbn; now rewrite HO|exact HS]|]. split; [assumption|].
        intros a w Hw. exists w. split; auto.
      * destruct v; cbn in Wv; try contradiction; cbn in PBy; try discriminate PBy.
        destruct (valid_cp c); discriminate PBy.
      * destruct v; cbn in Wv; try contradiction; cbn in PBy; try discriminate PBy.
        destruct (valid_cp c); inversion PBy. exact I.
    + destruct er as [| g |]; cbn in HE |- *; auto; try contradiction.
      destruct HE as [-> ->]. exists ms. split; [reflexivity|apply SR].
Qed.

Lemma sim_all : forall n, P_all n.
Proof.
  induction n as [|n IH]; [|apply sim_step; exact IH].
  repeat split; intros until 0; intros; exact I.
Qed.

(* ---- the theorem: a block of the fragment, started in the empty state ---------------------------- *)
Definition init_state : state := {| store := []; out := [] |}.
Definition init_mstate : mstate := {| cells := []; mout := [] |}.

Definition observe (r : res flow) : option (bool * list Z) :=       (* (Laufzeitfehler?, stdout) *)
  match r with
  | Ok _ s => Some (false, rev (out s))
  | Fail ELaufzeit s => Some (true, rev (out s))
  | _ => None
  end.
Definition m_observe (r : mr mflow) : option (bool * list Z) :=
  match r with
  | MROk _ ms => Some (false, rev (mout ms))
  | MRErr ms => Some (true, rev (mout ms))
  | _ => None
  end.

Theorem program_preservation_scalar : forall fuel ss o,
  block_ok (fun _ => None) false ss = true ->
  observe (exec_block fuel [] [] init_state ss) = Some o ->
  m_observe (mblock fuel [] init_mstate (map compile_stmt ss)) = Some o.
Proof.
  intros fuel ss o OK H.
  destruct (sim_all fuel) as [_ [PB _]].
  assert (SR : srel init_state init_mstate) by (split; [reflexivity|constructor]).
  assert (GK : gok (fun _ => None) [] init_state) by (intros x t Hx; discriminate Hx).
  pose proof (PB (fun _ => None) false [] [] init_state init_mstate ss SR GK OK) as R.
  destruct (exec_block fuel [] [] init_state ss) as [fl s|er s]; cbn in H.
  - destruct R as [mfl [ms [-> [_ [[HO _] _]]]]]. cbn. now rewrite <- HO.
  - destruct er; try discriminate H. destruct R as [ms [-> HO]]. cbn. now rewrite <- HO.
Qed.

End Machine.
