(* C02 — the type checker's operator tables (src/parser/typechecker/typechecker.go 303-587:
   VisitUnaryExpr, VisitBinaryExpr, VisitTernaryExpr, VisitCastExpr) over type CLASSES.

   The rules of the checker inspect an operand type only through ddptypes.Equal / IsNumeric / IsList /
   IsPrimitive / IsAny / CastTypeDef / GetListElementType, i.e. through the head constructor after
   aliases have been resolved.  A class is therefore: one of the six primitives, a Kombination, Variable,
   a type DEFINITION of Zahl (opaque for Equal, only convertible to and from its base), a list of one of
   those, or a type ALIAS of Zahl (transparent).  Operators that are overloaded by the program are outside
   the table (the checker returns the overload's type and the compiler emits a call).

   Each function returns the type the checker leaves in latestReturnedType, or None when it reports an
   error.  Definitions only; the operator enumerations come from Gen/OperatorEnum.v (regenerated from
   src/ast/operators.go on every run). *)
From Coq Require Import List Bool.
Import ListNotations.
From DDP Require Import Gen.OperatorEnum.

Inductive base : Set :=
| BZahl | BKomma | BByte | BBool | BChar | BText   (* ZAHL KOMMAZAHL BYTE WAHRHEITSWERT BUCHSTABE TEXT *)
| BStruct                                           (* a Kombination *)
| BAny                                              (* Variable *)
| BDef.                                             (* Wir definieren eine Nummer als eine Zahl *)

Inductive ty : Set :=
| TB (b : base)
| TL (b : base)      (* ListType{ElementType: b} *)
| TAlias.            (* Wir nennen eine Zahl auch eine Ganzzahl *)

(* the three fields of the Kombination used by the field-access cells *)
Inductive field : Set := FZahl | FText | FList.

Definition base_eqb (a b : base) : bool :=
  match a, b with
  | BZahl, BZahl | BKomma, BKomma | BByte, BByte | BBool, BBool | BChar, BChar | BText, BText
  | BStruct, BStruct | BAny, BAny | BDef, BDef => true
  | _, _ => false
  end.

(* ddptypes.GetUnderlying on the class level: the alias disappears *)
Definition norm (t : ty) : ty := match t with TAlias => TB BZahl | _ => t end.

Definition ty_beq (a b : ty) : bool :=
  match a, b with
  | TB x, TB y => base_eqb x y
  | TL x, TL y => base_eqb x y
  | TAlias, TAlias => true
  | _, _ => false
  end.

(* ddptypes.Equal *)
Definition equal (a b : ty) : bool := ty_beq (norm a) (norm b).

Definition is_one_of (t : ty) (l : list ty) : bool := existsb (equal t) l.

Definition zahl := TB BZahl.
Definition komma := TB BKomma.
Definition byte := TB BByte.
Definition wahr := TB BBool.
Definition buchstabe := TB BChar.
Definition text := TB BText.
Definition variable := TB BAny.

Definition is_numeric (t : ty) : bool := is_one_of t [zahl; komma; byte].
Definition is_list (t : ty) : bool := match t with TL _ => true | _ => false end.
Definition is_any (t : ty) : bool := equal t variable.
Definition is_typedef (t : ty) : bool := equal t (TB BDef).
Definition is_struct (t : ty) : bool := equal t (TB BStruct).
(* ddptypes.IsPrimitive: GetUnderlying(t) is a PrimitiveType *)
Definition is_primitive (t : ty) : bool := is_one_of t [zahl; komma; byte; wahr; buchstabe; text].
(* ddptypes.GetListElementType (identity on non-lists) *)
Definition elem_type (t : ty) : ty := match t with TL b => TB b | _ => t end.
(* ListType{ElementType: t} for a non-list class t (alias element: Equal to Zahlen Liste) *)
Definition list_of (t : ty) : option ty :=
  match norm t with TB b => Some (TL b) | _ => None end.

Definition numeric3 := [zahl; komma; byte].
Definition zb := [zahl; byte].

(* ---- VisitUnaryExpr ------------------------------------------------------------------------- *)
Definition tc_unop (op : unop) (r : ty) : option ty :=
  match op with
  | UN_ABS | UN_NEGATE =>
      if is_numeric r then Some (if equal r byte then zahl else norm r) else None
  | UN_NOT => if is_one_of r [wahr] then Some wahr else None
  | UN_LOGIC_NOT => if is_one_of r zb then Some (norm r) else None
  | UN_LEN => if is_list r || equal r text then Some zahl else None
  end.

(* ---- VisitBinaryExpr ------------------------------------------------------------------------ *)
Definition validate2 (l r : ty) (valid : list ty) : bool := is_one_of l valid && is_one_of r valid.

Definition tc_binop (op : binop) (l r : ty) : option ty :=
  match op with
  | BIN_CONCAT =>
      if (negb (is_list l) && negb (is_list r)) && (equal l text || equal r text)
      then (if validate2 l r [text; buchstabe] then Some text else None)
      else if equal (elem_type l) (elem_type r) then list_of (elem_type l) else None
  | BIN_PLUS | BIN_MINUS | BIN_MULT =>
      if validate2 l r numeric3 then
        Some (if equal l zahl && equal r zahl then zahl
              else if equal l byte && equal r byte then byte
              else if equal l komma || equal r komma then komma
              else zahl)                       (* Zahl and Byte mixed: the Byte is widened *)
      else None
  | BIN_INDEX =>
      if (is_list l || equal l text) && is_one_of r zb
      then Some (if is_list l then elem_type l else buchstabe) else None
  | BIN_SLICE_FROM | BIN_SLICE_TO =>
      if (is_list l || equal l text) && is_one_of r zb then Some (norm l) else None
  | BIN_FIELD_ACCESS => None     (* lhs not a field name: rejected by the resolver; see tc_field *)
  | BIN_DIV | BIN_POW | BIN_LOG => if validate2 l r numeric3 then Some komma else None
  | BIN_MOD | BIN_LOGIC_AND | BIN_LOGIC_OR | BIN_LOGIC_XOR =>
      if validate2 l r zb then Some (if equal l zahl || equal r zahl then zahl else byte) else None
  | BIN_AND | BIN_OR | BIN_XOR => if validate2 l r [wahr] then Some wahr else None
  | BIN_LEFT_SHIFT | BIN_RIGHT_SHIFT => if validate2 l r zb then Some (norm l) else None
  | BIN_EQUAL | BIN_UNEQUAL => if equal l r then Some wahr else None
  | BIN_GREATER | BIN_LESS | BIN_GREATER_EQ | BIN_LESS_EQ =>
      if validate2 l r numeric3 then Some wahr else None
  end.

(* `f von r` with f one of the fields of the Kombination (checkFieldAccess) *)
Definition field_ty (f : field) : ty :=
  match f with FZahl => zahl | FText => text | FList => TL BZahl end.
Definition tc_field (f : field) (r : ty) : option ty :=
  if is_struct r then Some (field_ty f) else None.

(* ---- VisitTernaryExpr ----------------------------------------------------------------------- *)
Definition tc_terop (op : terop) (l m r : ty) : option ty :=
  match op with
  | TER_SLICE =>
      if (is_list l || equal l text) && is_one_of m zb && is_one_of r zb then Some (norm l) else None
  | TER_BETWEEN =>
      if is_one_of l numeric3 && is_one_of m numeric3 && is_one_of r numeric3 then Some wahr else None
  | TER_FALLS => if equal l r && is_one_of m [wahr] then Some (norm l) else None
  end.

(* ---- VisitCastExpr: `l als target` ---------------------------------------------------------- *)
(* Underlying of the only type definition of the cell space *)
Definition def_underlying := zahl.

Definition tc_cast (l target : ty) : option ty :=
  if is_any l || is_any target then Some (norm target)
  else if is_typedef target && is_typedef l then
    (if negb (equal def_underlying target) && negb (equal def_underlying l) then None else Some (norm target))
  else if is_typedef target then (if equal l def_underlying then Some (norm target) else None)
  else if is_typedef l then (if equal target def_underlying then Some (norm target) else None)
  else if is_list target then
    (* GetUnderlying(element type) must be the operand's type *)
    (if is_one_of l [elem_type target] then Some (norm target) else None)
  else if is_primitive target then
    let ok :=
      if equal target zahl then is_primitive l
      else if equal target komma then is_primitive l && is_one_of l [text; zahl; komma; byte]
      else if equal target byte then is_primitive l && is_one_of l [zahl; komma; byte]
      else if equal target wahr then is_primitive l && is_one_of l [zahl; wahr; byte]
      else if equal target buchstabe then is_primitive l && is_one_of l [zahl; buchstabe; byte]
      else is_primitive l (* TEXT *) in
    if ok then Some (norm target) else None
  else None.

(* ---- value contexts: what the checker demands of an expression of type t ------------------- *)
Inductive ctx : Set :=
| CInitAny            (* Die Variable x ist E.                          *)
| CInit (d : ty)      (* Die <d> x ist E.            (VisitVarDecl)      *)
| CAssign (d : ty)    (* Speichere E in x.  (x : d)  (VisitAssignStmt)   *)
| CArg (d : ty)       (* f (E)  with a parameter of type d (VisitFuncCall) *)
| CReturn (d : ty)    (* Gib E zurück.  in a function returning d (VisitReturnStmt) *)
| CCond               (* Wenn E, dann: ...           (VisitIfStmt)       *)
| CElem.              (* eine Liste, die aus E besteht (VisitListLit), stored in a Variable *)

Definition ctx_admits (c : ctx) (t : ty) : bool :=
  match c with
  | CInitAny => true
  | CInit d | CAssign d => equal d t || is_any d || (is_numeric d && is_numeric t)
  | CArg d => equal t d
  | CReturn d => equal d t || is_any d
  | CCond => equal t wahr
  | CElem => negb (is_list t)     (* VisitListLit: TYP_BAD_LIST_LITERAL for an element that is a list *)
  end.

(* ---- statement-level operand positions ------------------------------------------------------ *)
(* VisitWhileStmt (Wiederhole / Solange), VisitIfStmt, VisitListLit (both literal forms), VisitAssignStmt with an
   indexed target (VisitIndexing), VisitForStmt, VisitForRangeStmt: each operand is an expression of the given class,
   counters / loop variables are declared with the given type *)
Inductive stmt : Set :=
| SRepeat (n : ty)                    (* Wiederhole: ... (n) Mal.                                        *)
| SWhile (c : ty)                     (* Solange (c), mache: ...                                          *)
| SIf (c : ty)                        (* Wenn (c), dann: ...                                              *)
| SListCount (n v : ty)               (* Die <Liste von v> x ist (n) Mal (v).                              *)
| SListLit (a b : ty)                 (* Die Variable x ist eine Liste, die aus (a), (b) besteht.          *)
| SIndexAssign (cont idx val : ty)    (* Speichere (val) in cont an der Stelle (idx).                      *)
| SFor (cnt from to : ty)             (* Für jede <cnt> i von (from) bis (to), mache: ...                  *)
| SForStep (cnt from to step : ty)    (* ... mit Schrittgröße (step), mache: ...                           *)
| SForRange (el inn : ty).            (* Für jede <el> e in (inn), mache: ...                              *)

(* the step the parser supplies when none is written: FloatLit 1.0 for a Kommazahl counter, IntLit 1 otherwise *)
Definition default_step (cnt : ty) : ty := if equal cnt komma then komma else zahl.

(* the declared type of the list in SListCount: the list of the value's class (Zahlen Liste when the value is a list) *)
Definition count_decl (v : ty) : ty := match list_of v with Some l => l | None => TL BZahl end.

Definition tc_for (cnt from to step : ty) : bool :=
  ctx_admits (CInit cnt) from                              (* the counter is an ordinary VarDecl *)
  && is_one_of cnt numeric3 && is_numeric to && is_numeric step.

Definition tc_stmt (s : stmt) : bool :=
  match s with
  | SRepeat n => is_one_of n zb
  | SWhile c | SIf c => equal c wahr
  | SListCount n v => is_one_of n zb && negb (is_list v) && ctx_admits (CInit (count_decl v)) (count_decl v)
  | SListLit a b => negb (is_list a) && equal a b
  | SIndexAssign cont idx val =>
      is_one_of idx zb && (is_list cont || equal cont text)
      && ctx_admits (CAssign (if is_list cont then elem_type cont else buchstabe)) val
  | SFor cnt from to => tc_for cnt from to (default_step cnt)
  | SForStep cnt from to step => tc_for cnt from to step
  | SForRange el inn =>
      (is_list inn || equal inn text)
      && (if is_list inn then equal el (elem_type inn) else equal el buchstabe)
  end.
