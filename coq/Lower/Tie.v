(* Executable glue for the correspondence runs of checks/c01.py (no theorems): evaluates the lowering model
   Lower/Ops.v on a closed single-operator expression (operands are literal expressions evaluated by RefSem),
   and prints the machine result the way Schreibe would, so that the check can compare
   real executable <-> lowering model <-> RefSem on the same case. *)
From Coq Require Import ZArith List Bool.
Import ListNotations.
From DDP Require Import Lang.Syntax Lang.F64 Lang.RefSem Lang.Prec Lower.Ops Lower.OpsProofs.
Open Scope Z_scope.

Section Tie.
Variable pow : Z -> Z -> Z.
Variable log10 : Z -> Z.
Variable fmt_float : Z -> list Z.

Definition eval_closed (e : expr) : option value :=
  match eval pow log10 fmt_float [] 64 [] [] {| store := []; out := [] |} e with
  | Ok v _ => Some v
  | Fail _ _ => None
  end.

Definition is_scalar (v : value) : bool :=
  match v with VT _ | VL _ _ => false | _ => true end.

Definition value_of_mval (m : mval) : value :=
  match m with
  | MI64 u => VZ (signed64 u)
  | MI8 u => VB u
  | MI1 b => VW b
  | MI32 u => VC (signed32 u)
  | MF64 b => VK b
  end.

Inductive tie_res : Type :=
| TieOk (bytes : list Z)      (* what the emitted code prints *)
| TieErr | TiePoison | TieReject | TieCrash | TieNone.

Definition tie_of (r : lres) : tie_res :=
  match r with
  | LOk m => match print_bytes fmt_float (value_of_mval m) with
             | inl (Some bs) => TieOk bs
             | _ => TieNone
             end
  | LRtErr => TieErr
  | LPoison => TiePoison
  | LReject => TieReject
  | LCrash => TieCrash
  | LNone => TieNone
  end.

Definition lower_top (e : expr) : tie_res :=
  match e with
  | EBin op a b =>
      match eval_closed a, eval_closed b with
      | Some va, Some vb =>
          if is_scalar va && is_scalar vb then tie_of (lower_bin pow log10 op (repr va) (repr vb)) else TieNone
      | _, _ => TieNone
      end
  | EUn op a =>
      match eval_closed a with
      | Some va => if is_scalar va then tie_of (lower_un op (repr va)) else TieNone
      | None => TieNone
      end
  | ETer TBetween x a b =>
      match eval_closed x, eval_closed a, eval_closed b with
      | Some vx, Some va, Some vb =>
          if is_scalar vx && is_scalar va && is_scalar vb
          then tie_of (lower_between (repr vx) (repr va) (repr vb)) else TieNone
      | _, _, _ => TieNone
      end
  | ECast a t =>
      match eval_closed a with
      | Some va => if is_scalar va && scalar_ty t then tie_of (lower_cast t (repr va)) else TieNone
      | None => TieNone
      end
  | _ => TieNone
  end.
End Tie.
