(* C18 — frontend tie: from the declared spelling of a parameter type to (type, IsReference).
   Transcription of parser.parseReferenceType (src/parser/type_parsing.go 151-270) on a token list, for one type
   without type arguments (the "Zahl-Vektor" forms after a NEGATE token are not modelled) and of parser.parseType for
   the parenthesised form (one level). Definitions only.
   consumeSeq(REFERENZ): consumes the token if it is REFERENZ, otherwise reports a diagnostic and does not advance;
   the BYTE/WAHRHEITSWERT/TEXT and IDENTIFIER branches advance over the offending token instead. *)
From Coq Require Import List Bool Arith.
Import ListNotations.
From DDP Require Import Lower.AbiTypes.

Inductive tok :=
| TkZahl | TkKommazahl | TkByte | TkWahrheitswert | TkBuchstabe | TkText | TkVariable
| TkZahlen | TkKommazahlen | TkBuchstaben | TkVariablen
| TkIdent (n : nat)                (* a declared type name or, in a generic function, a type parameter *)
| TkListe | TkListen | TkReferenz | TkLParen | TkRParen
| TkOther.                         (* anything else: COMMA, UND, GIBT, ... *)

(* parsed type; names stay names (resolution is the symbol table's business) *)
Inductive sty := SPrim (p : prim) | SText | SVariable | SNamed (n : nat) | SList (e : sty).

(* result: type, IsReference, diagnostics raised, remaining tokens *)
Record parsed := { pr_ty : sty; pr_ref : bool; pr_diag : nat; pr_rest : list tok }.
Definition mk (t : sty) (r : bool) (d : nat) (rest : list tok) : option parsed :=
  Some {| pr_ty := t; pr_ref := r; pr_diag := d; pr_rest := rest |}.

(* consumeSeq(token.REFERENZ) *)
Definition consume_referenz (ts : list tok) : nat * list tok :=
  match ts with TkReferenz :: r => (0, r) | _ => (1, ts) end.
(* if !consumeSeq(REFERENZ) { advance() } *)
Definition consume_referenz_or_skip (ts : list tok) : nat * list tok :=
  match ts with TkReferenz :: r => (0, r) | _ :: r => (1, r) | [] => (1, []) end.

(* BYTE, WAHRHEITSWERT, TEXT and IDENTIFIER: the same word is singular and plural *)
Definition after_invariant_name (e : sty) (ts : list tok) : option parsed :=
  match ts with
  | TkListe :: r => mk (SList e) false 0 r
  | TkListen :: r => let (d, r') := consume_referenz_or_skip r in mk (SList e) true d r'
  | TkReferenz :: r => mk e true 0 r
  | _ => mk e false 0 ts
  end.
(* ZAHLEN, KOMMAZAHLEN, BUCHSTABEN, VARIABLEN *)
Definition after_plural_name (e : sty) (ts : list tok) : option parsed :=
  match ts with
  | TkListe :: r => mk (SList e) false 0 r
  | TkListen :: r => let (d, r') := consume_referenz r in mk (SList e) true d r'
  | _ => let (d, r') := consume_referenz ts in mk e true d r'
  end.

(* parseType for one type without parentheses: never a reference *)
Definition parse_type_flat (ts : list tok) : option (sty * list tok) :=
  let invariant e r := match r with TkListe :: r' => Some (SList e, r') | _ => Some (e, r) end in
  let plural e r := match r with TkListe :: r' => Some (SList e, r') | _ => None end in
  match ts with
  | TkZahl :: r => Some (SPrim PZahl, r)
  | TkKommazahl :: r => Some (SPrim PKommazahl, r)
  | TkBuchstabe :: r => Some (SPrim PBuchstabe, r)
  | TkVariable :: r => Some (SVariable, r)
  | TkByte :: r => invariant (SPrim PByte) r
  | TkWahrheitswert :: r => invariant (SPrim PWahrheitswert) r
  | TkText :: r => invariant SText r
  | TkIdent n :: r => invariant (SNamed n) r
  | TkZahlen :: r => plural (SPrim PZahl) r
  | TkKommazahlen :: r => plural (SPrim PKommazahl) r
  | TkBuchstaben :: r => plural (SPrim PBuchstabe) r   (* the EINEN/JEDEN edge case does not arise inside parentheses *)
  | TkVariablen :: r => plural SVariable r
  | _ => None
  end.

Definition parse_reference_type (ts : list tok) : option parsed :=
  match ts with
  | TkZahl :: r => mk (SPrim PZahl) false 0 r
  | TkKommazahl :: r => mk (SPrim PKommazahl) false 0 r
  | TkBuchstabe :: r => mk (SPrim PBuchstabe) false 0 r
  | TkVariable :: r => mk SVariable false 0 r
  | TkByte :: r => after_invariant_name (SPrim PByte) r
  | TkWahrheitswert :: r => after_invariant_name (SPrim PWahrheitswert) r
  | TkText :: r => after_invariant_name SText r
  | TkZahlen :: r => after_plural_name (SPrim PZahl) r
  | TkKommazahlen :: r => after_plural_name (SPrim PKommazahl) r
  | TkBuchstaben :: r => after_plural_name (SPrim PBuchstabe) r
  | TkVariablen :: r => after_plural_name SVariable r
  | TkIdent n :: r => after_invariant_name (SNamed n) r
  | TkLParen :: r =>
    match parse_type_flat r with
    | Some (t, TkRParen :: r') => mk t false 0 r'
    | Some (t, r') => mk t false 1 r'
    | None => None
    end
  | _ => None          (* SYN_EXPECTED_TYPENAME *)
  end.

(* ---- the spelling a declaration uses ---------------------------------------------------------- *)
Inductive sbase := BPrim (p : prim) | BText | BVariable | BNamed (n : nat).
Definition base_ty (b : sbase) : sty :=
  match b with BPrim p => SPrim p | BText => SText | BVariable => SVariable | BNamed n => SNamed n end.
Definition singular (b : sbase) : tok :=
  match b with
  | BPrim PZahl => TkZahl | BPrim PKommazahl => TkKommazahl | BPrim PByte => TkByte | BPrim PWahrheitswert => TkWahrheitswert
  | BPrim PBuchstabe => TkBuchstabe | BText => TkText | BVariable => TkVariable | BNamed n => TkIdent n
  end.
Definition plural (b : sbase) : tok :=
  match b with
  | BPrim PZahl => TkZahlen | BPrim PKommazahl => TkKommazahlen | BPrim PByte => TkByte | BPrim PWahrheitswert => TkWahrheitswert
  | BPrim PBuchstabe => TkBuchstaben | BText => TkText | BVariable => TkVariablen | BNamed n => TkIdent n
  end.

(* "Zahl", "Zahlen Referenz", "Zahlen Liste", "Zahlen Listen Referenz" and the parenthesised by-value forms *)
Inductive form := FValue | FRef | FListValue | FListRef | FParenValue | FParenListValue.
Definition spelled (b : sbase) (f : form) : list tok :=
  match f with
  | FValue => [singular b]
  | FRef => [plural b; TkReferenz]
  | FListValue => [plural b; TkListe]
  | FListRef => [plural b; TkListen; TkReferenz]
  | FParenValue => [TkLParen; singular b; TkRParen]
  | FParenListValue => [TkLParen; plural b; TkListe; TkRParen]
  end.
(* what the declaration means *)
Definition meant_ty (b : sbase) (f : form) : sty :=
  match f with FValue | FRef | FParenValue => base_ty b | _ => SList (base_ty b) end.
Definition meant_ref (f : form) : bool := match f with FRef | FListRef => true | _ => false end.
