From Coq Require Import List Bool Arith.
Import ListNotations.
From DDP Require Import Lower.AbiTypes Lower.TypeSpelling.

(* the token after a parameter type in a declaration: a comma, "und", "gibt" — never Liste/Listen/Referenz *)
Definition type_ends (rest : list tok) : Prop := rest = [] \/ exists r, rest = TkOther :: r.

(* every spelling of every base type parses to exactly the type and the reference flag it spells, consumes exactly its
   own tokens and raises no diagnostic *)
Lemma declared_spelling_parses : forall b f rest,
  type_ends rest ->
  parse_reference_type (spelled b f ++ rest) =
    Some {| pr_ty := meant_ty b f; pr_ref := meant_ref f; pr_diag := 0; pr_rest := rest |}.
Proof.
  intros b f rest [E | [r E]]; subst rest;
    destruct b as [[| | | |] | | | n]; destruct f; reflexivity.
Qed.

(* the Referenz word is what makes a parameter a reference: dropping it from a list reference is diagnosed *)
Lemma missing_referenz_is_diagnosed : forall b r,
  match parse_reference_type ([plural b; TkListen; TkOther] ++ r) with
  | Some p => pr_diag p = 1
  | None => False
  end.
Proof. intros b r; destruct b as [[| | | |] | | | n]; reflexivity. Qed.
