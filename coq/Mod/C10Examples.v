(* C10 — concrete module graphs: witnesses of the refuted statements (the defects of the pinned tree,
   evaluated by vm_compute on the model) and non-vacuity examples for the hypotheses of the theorems. *)
From Coq Require Import List NArith Bool Lia Relations.
Import ListNotations.
From DDP Require Import Mod.Loader Mod.LoaderProofs Mod.InitOrder Mod.InitProofs Mod.VisibleProofs Mod.Mangle Mod.MangleProofs.
Local Open Scope N_scope.

Definition var (line n : N) (pub : bool) : stmt := SDecl line (mkDecl n KVar pub) [].
Definition imp_named (line tgt : N) (ns : list N) : stmt := SImport (mkImport line tgt (INamed ns)).
Definition imp_whole (line tgt : N) : stmt := SImport (mkImport line tgt IWhole).

(* ---- import statements nested in a loop, a branch, a function body: their modules are initialised once, before
   the enclosing top-level statement (the former defects of the pinned tree) ---- *)
Definition fs_loop : fsys :=
  mkFs [(1, [SMark 1; SBlock (CRepeat 3) [imp_named 3 2 [5]; SUse 4 5 KVar]; SMark 2]);
        (2, [var 2 5 true])] [].

Example nested_loop_once :
  outcome fs_loop 1 = Some [EMark 1 1; EInit 2; EInitVar 2 5; EVal 2 5 true; EVal 2 5 true; EVal 2 5 true; EMark 1 2].
Proof. vm_compute. reflexivity. Qed.

Definition fs_never : fsys :=
  mkFs [(1, [SBlock (CIf false) [imp_named 2 2 [5]]; imp_named 3 2 [5]; SMark 1; SUse 5 5 KVar]);
        (2, [var 2 5 true])] [].

Example nested_untaken_branch_still_initialised :
  outcome fs_never 1 = Some [EInit 2; EInitVar 2 5; EMark 1 1; EVal 2 5 true].
Proof. vm_compute. reflexivity. Qed.

Definition fs_fnbody : fsys :=
  mkFs [(1, [imp_whole 2 3; SUse 3 6 KFunc; SUse 4 6 KFunc]);
        (2, [var 2 5 true]);
        (3, [SDecl 2 (mkDecl 6 KFunc true) [imp_named 3 2 [5]; SUse 4 5 KVar]])] [].

Example nested_function_body_once :
  outcome fs_fnbody 1 = Some [EInit 2; EInitVar 2 5; EInit 3; EFn 3 6; EVal 2 5 true; EFn 3 6; EVal 2 5 true].
Proof. vm_compute. reflexivity. Qed.

(* ---- quirk: a missing file leaves the nil placeholder behind; a second import of it is reported with the
   "modules import each other" diagnostic although nothing is cyclic ---- *)
Definition fs_missing : fsys := mkFs [(1, [imp_whole 2 9; imp_whole 3 9])] [].
Lemma missing_twice_reported_circular :
  map dg_class (l_diags (fst (load fs_missing 1))) = [DLoadFail; DCircular].
Proof. vm_compute. reflexivity. Qed.

(* ---- non-vacuity: a diamond with a dependency between the siblings ---- *)
Definition fs_diamond : fsys :=
  mkFs [(1, [SMark 1; imp_whole 2 2; SMark 2; imp_whole 3 3; SMark 3; SUse 9 5 KVar]);
        (2, [imp_named 2 4 [8]; imp_named 3 3 [6]; var 4 5 true; SMark 500]);
        (3, [imp_named 2 4 [8]; var 3 6 true; var 4 7 false]);
        (4, [var 2 8 true])] [].

Example diamond_outcome :
  outcome fs_diamond 1 =
  Some [EMark 1 1; EInit 4; EInitVar 4 8; EInit 3; EInitVar 3 6; EInitVar 3 7; EInit 2; EInitVar 2 5;
        EMark 1 2; EMark 1 3; EVal 2 5 true].
Proof. vm_compute. reflexivity. Qed.

Example diamond_graph_edge : In 3 (graph fs_diamond 1 2) /\ In 4 (graph fs_diamond 1 3).
Proof. vm_compute. tauto. Qed.

(* static graph facts for concrete file systems *)
Ltac sedge_inv H :=
  let src := fresh "src" in let i := fresh "i" in let Hl := fresh "Hl" in let Hi := fresh "Hi" in let Ht := fresh "Ht" in
  destruct H as [src [i [Hl [Hi Ht]]]]; cbn [lookup fs_files] in Hl;
  repeat match type of Hl with
         | context [N.eqb ?p ?k] => destruct (N.eqb_spec p k); [subst|]
         end; try discriminate;
  try (injection Hl as <-; cbn in Hi;
       repeat (destruct Hi as [<-|Hi]; [cbn in Ht; repeat (destruct Ht as [<-|Ht]; [|]); try contradiction|]); try contradiction).

Lemma rank_no_cycle (fs : fsys) (rk : path -> nat) (root : path) :
  (forall p q, sedge fs p q -> (rk q < rk p)%nat) -> ~ scycle fs root.
Proof.
  intros Hrk [p [_ Hc]].
  assert (H : forall a b, clos_trans _ (sedge fs) a b -> (rk b < rk a)%nat).
  { induction 1 as [a b He|a b c _ IH1 _ IH2]; [apply Hrk; exact He|lia]. }
  specialize (H _ _ Hc). lia.
Qed.

Definition rk_diamond (p : path) : nat := match p with 1 => 4%nat | 2 => 3%nat | 3 => 2%nat | 4 => 1%nat | _ => 0%nat end.

Lemma diamond_sedge p q : sedge fs_diamond p q ->
  (p = 1 /\ (q = 2 \/ q = 3)) \/ (p = 2 /\ (q = 4 \/ q = 3)) \/ (p = 3 /\ q = 4).
Proof. intros H. unfold fs_diamond in H. sedge_inv H; tauto. Qed.

Example diamond_acyclic : ~ scycle fs_diamond 1.
Proof.
  apply (rank_no_cycle fs_diamond rk_diamond). intros p q H. apply diamond_sedge in H.
  destruct H as [[-> [->| ->]]|[[-> [->| ->]]|[-> ->]]]; cbn; lia.
Qed.

Example diamond_closed : closed fs_diamond 1.
Proof.
  intros p q _ H. apply diamond_sedge in H.
  destruct H as [[-> [->| ->]]|[[-> [->| ->]]|[-> ->]]]; cbn; discriminate.
Qed.

Example diamond_root_exists : lookup 1 (fs_files fs_diamond) <> None.
Proof. cbn. discriminate. Qed.

(* ---- non-vacuity: cycles of length 1, 2 and one through the root ---- *)
Definition fs_self : fsys := mkFs [(1, [imp_whole 2 2]); (2, [imp_whole 2 2])] [].
Definition fs_cycle3 : fsys :=
  mkFs [(1, [imp_whole 2 2]); (2, [imp_whole 2 3]); (3, [imp_whole 2 4]); (4, [imp_whole 2 2])] [].
Definition fs_root_cycle : fsys := mkFs [(1, [imp_whole 2 2]); (2, [imp_whole 2 1])] [].

Ltac sedge_intro := eexists; eexists; split; [cbn; reflexivity|split; [cbn; left; reflexivity|cbn; left; reflexivity]].

Example self_cycle : scycle fs_self 1.
Proof.
  exists 2. split; [apply rt_step; sedge_intro|apply t_step; sedge_intro].
Qed.

Example cycle3 : scycle fs_cycle3 1.
Proof.
  exists 2. split; [apply rt_step; sedge_intro|].
  eapply t_trans; [apply t_step; sedge_intro|eapply t_trans; [apply t_step; sedge_intro|apply t_step; sedge_intro]].
Qed.

Example root_cycle : scycle fs_root_cycle 1.
Proof.
  exists 1. split; [apply rt_refl|]. eapply t_trans; [apply t_step; sedge_intro|apply t_step; sedge_intro].
Qed.

Example root_cycle_parsed_twice : l_log (fst (load fs_root_cycle 1)) = [1; 2; 1].
Proof. vm_compute. reflexivity. Qed.

(* ---- non-vacuity: visibility ---- *)
Definition fs_vis : fsys :=
  mkFs [(1, [imp_named 2 2 [5; 6]; SUse 3 5 KVar; SUse 4 6 KVar; SUse 5 7 KVar]);
        (2, [var 2 5 true; var 3 6 false; var 4 7 true])] [].

Example vis_outcome_rejected : outcome fs_vis 1 = None.
Proof. vm_compute. reflexivity. Qed.

Example vis_diags : map (fun d => (dg_line d, dg_class d)) (all_diags fs_vis 1) = [(2, DUndefined); (4, DUndefined); (5, DUndefined)].
Proof. vm_compute. reflexivity. Qed.

Example vis_named_hyp :
  i_form (mkImport 2 2 (INamed [5; 6])) = INamed [5; 6] /\ In 6 [5; 6] /\ find_decl 6 (public_of fs_vis 2) = None /\
  find_decl 5 (public_of fs_vis 2) = Some (mkDecl 5 KVar true).
Proof. vm_compute. tauto. Qed.

Example vis_names_unique : NoDup (map d_name (top_decls (srcs fs_vis 2))).
Proof. vm_compute. repeat constructor; cbn; intuition discriminate. Qed.

(* ---- non-vacuity: an injective hash exists ---- *)
Example hash_inj_exists : exists hash : str -> str, forall a b, hash a = hash b -> a = b.
Proof. exists (fun x => x). auto. Qed.
