(* C10 — entry points of the executable model used by the correspondence check. *)
From Coq Require Import List NArith Bool.
Import ListNotations.
From DDP Require Import Mod.Loader Mod.InitOrder Mod.Mangle.

Record analysis := mkA {
  a_diags : list diag;             (* every delivered diagnostic: loader first, then per parsed module *)
  a_log : list path;               (* calls of Parse that read a file *)
  a_oof : bool;
  a_outcome : option (list event); (* None = rejected *)
  a_main_imports : resolved        (* importStmt.Modules of the root's import statements *)
}.

Definition analyse (fs : fsys) (root : path) : analysis :=
  mkA (all_diags fs root) (l_log (L fs root)) (l_oof (L fs root)) (outcome fs root) (main_res fs root).

Definition c10_hashable := hashable.
