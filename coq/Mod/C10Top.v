(* C10 — the statements of Props/C10.v assembled from the lemmas of the Mod/*Proofs.v files. *)
From Coq Require Import List NArith Bool Lia Relations.
Import ListNotations.
From DDP Require Import Mod.Loader Mod.LoaderProofs Mod.InitOrder Mod.InitProofs Mod.VisibleProofs Mod.Mangle Mod.MangleProofs Mod.C10Examples.

Lemma outcome_some fs root tr : outcome fs root = Some tr -> tr = trace fs root /\ all_diags fs root = [].
Proof.
  unfold outcome. destruct (snd (loaded fs root)); [|discriminate].
  destruct (all_diags fs root); [|discriminate]. intros E; injection E as <-. auto.
Qed.

Lemma outcome_none_of_diag fs root : l_diags (L fs root) <> [] -> outcome fs root = None.
Proof.
  intros H. unfold outcome, all_diags. destruct (snd (loaded fs root)); [|reflexivity].
  destruct (l_diags (L fs root)); [congruence|reflexivity].
Qed.

Theorem module_objects_acyclic fs root q : ~ clos_trans _ (edge (l_map (fst (load fs root)))) q q.
Proof. apply wfmap_acyclic. apply (load_wf fs root). Qed.

Theorem cycle_rejected fs root :
  lookup root (fs_files fs) <> None -> scycle fs root ->
  (exists d, In d (l_diags (fst (load fs root))) /\ include_class (dg_class d) = true) /\ outcome fs root = None.
Proof.
  intros Hr Hc. destruct (cycle_diagnosed fs root Hr Hc) as [d [Hd Hi]]. split; [eauto|].
  apply outcome_none_of_diag. unfold L, loaded. intros E. rewrite E in Hd. destruct Hd.
Qed.

Theorem missing_root_rejected fs root : lookup root (fs_files fs) = None -> outcome fs root = None.
Proof. intros H. unfold outcome, loaded. rewrite (load_missing_root fs root H). reflexivity. Qed.

Theorem init_once_full fs root tr : outcome fs root = Some tr -> NoDup (einits tr).
Proof. intros Hout. destruct (outcome_some _ _ _ Hout) as [-> _]. apply init_once. Qed.

Theorem init_covers_full fs root tr : outcome fs root = Some tr -> forall q,
  In (EInit q) tr <-> exists m, In m (main_targets fs root) /\ reach (graph fs root) m q.
Proof. intros Hout. destruct (outcome_some _ _ _ Hout) as [-> _]. apply init_covers. Qed.

Theorem init_deps_first_full fs root tr : outcome fs root = Some tr -> forall l1 q l2 q',
  tr = l1 ++ EInit q :: l2 -> In q' (graph fs root q) -> In (EInit q') l1.
Proof. intros Hout. destruct (outcome_some _ _ _ Hout) as [-> _]. apply init_deps_first. Qed.

Theorem init_before_following_code_full fs root tr : outcome fs root = Some tr -> forall s1 i s2,
  src_of fs root = s1 ++ SImport i :: s2 ->
  (exists tr2, tr = prefix_trace fs root (s1 ++ [SImport i]) ++ tr2) /\
  forall m x, In m (match lookup (i_line i) (main_res fs root) with Some ms => ms | None => [] end) ->
              reach (graph fs root) m x -> In (EInit x) (prefix_trace fs root (s1 ++ [SImport i])).
Proof. intros Hout. destruct (outcome_some _ _ _ Hout) as [-> _]. apply init_before_following_code. Qed.
