(* C10 — model of the initialiser calls the code generator emits and of their execution.
   Mirrors compiler.go:189-201 (imported modules compile declarations only), 2278-2303
   (VisitImportStmt / initImportedModules: one init call per not yet imported module; initNestedImports: the
   modules of import statements nested in a top-level statement are imported before that statement), ast/module.go:47-67 (IterateModuleImports: post-order with a
   fresh visited set per call), compiler.go VisitVarDecl (global initialisers go to module_init and,
   in the main module, inline into ddp_main).  Definitions only. *)
From Coq Require Import List NArith Bool.
Import ListNotations.
From DDP Require Import Mod.Loader.

(* ---------------------------------------------------------------------------------------------
   IterateModuleImports over a graph of module objects *)
Section DFS.
  Variable G : path -> list path.

  Fixpoint dfs (fuel : nat) (st : list path * list path) (m : path) : list path * list path :=
    match fuel with
    | O => st
    | S f =>
        let '(vis, out) := st in
        if memN m vis then st
        else let '(vis', out') := fold_left (dfs f) (G m) (m :: vis, out) in (vis', out' ++ [m])
    end.

  (* the calls fun(module) of one IterateModuleImports(mod, fun) *)
  Definition post_order (fuel : nat) (m : path) : list path := snd (dfs fuel ([], []) m).

  (* VisitImportStmt, last loop: returns the new importedModules set and the modules whose
     init function gets declared (and called if there is a current function) *)
  Definition emit_one (st : list path * list path) (x : path) : list path * list path :=
    let '(imp, calls) := st in
    if memN x imp then st else (x :: imp, calls ++ [x]).

  Definition emit_import (fuel : nat) (imp : list path) (ms : list path) : list path * list path :=
    fold_left (fun st m => fold_left emit_one (post_order fuel m) st) ms (imp, []).
End DFS.

(* ---------------------------------------------------------------------------------------------
   emitted code *)
Inductive instr :=
| ICallInit (q : path)                         (* call of q's module_init *)
| IInitVar (p : path) (n : name)               (* initialiser of a variable of the module being compiled, inline *)
| IMark (p : path) (t : N)
| ICallFn (q : path) (n : name) (body : list instr)
| IReadVar (q : path) (n : name)
| IReadConst (q : path) (n : name)
| IUseType (q : path) (n : name)
| IBlock (c : ctrl) (body : list instr).

Section Compile.
  Variable G : path -> list path.
  Variable fuel : nat.
  Variable p : path.            (* module being compiled *)
  Variable is_main : bool.
  (* code of the functions of the other modules (compiled separately, see fn_code) *)
  Variable ext : path -> name -> list instr.

  Record cstate := mkC { c_imp : list path; c_fns : list (name * list instr) }.

  (* has_cf: there is a current function (ddp_main or a function body) *)
  Fixpoint compile_stmt (has_cf in_fn : bool) (x : rstmt) (c : cstate) {struct x} : cstate * list instr :=
    match x with
    | RImport _ ms =>
        let '(imp', calls) := emit_import G fuel (c_imp c) ms in
        (mkC imp' (c_fns c), if has_cf then map ICallInit calls else [])
    | RDecl _ d body =>
        match d_kind d with
        | KFunc =>
            let '(c1, code) :=
              (fix go (l : list rstmt) (c : cstate) : cstate * list instr :=
                 match l with
                 | [] => (c, [])
                 | y :: t => let '(c', a) := compile_stmt true true y c in let '(c'', b) := go t c' in (c'', a ++ b)
                 end) body c in
            (mkC (c_imp c1) ((d_name d, code) :: c_fns c1), [])
        | KVar => (c, if has_cf then [IInitVar p (d_name d)] else [])
        | _ => (c, [])
        end
    | RUse _ k e =>
        (c, if has_cf then
              match e with
              | Some (q, d) =>
                  match k with
                  | KFunc => [ICallFn q (d_name d)
                                (if in_fn then []       (* calls out of function bodies are not expanded by this model *)
                                 else if N.eqb q p then match lookup (d_name d) (c_fns c) with Some b => b | None => [] end
                                 else ext q (d_name d))]
                  | KVar => [IReadVar q (d_name d)]
                  | KConst => [IReadConst q (d_name d)]
                  | KType => [IUseType q (d_name d)]
                  end
              | None => []
              end
            else [])
    | RMark t => (c, if has_cf then [IMark p t] else [])
    | RBlock ct body =>
        if has_cf then
          let '(c1, code) :=
            (fix go (l : list rstmt) (c : cstate) : cstate * list instr :=
               match l with
               | [] => (c, [])
               | y :: t => let '(c', a) := compile_stmt has_cf in_fn y c in let '(c'', b) := go t c' in (c'', a ++ b)
               end) body c in
          (c1, [IBlock ct code])
        else (c, [])     (* imported module: only DeclStmt / ImportStmt / FuncDef are visited at top level *)
    end.

  Fixpoint compile_stmts (has_cf in_fn : bool) (l : list rstmt) (c : cstate) : cstate * list instr :=
    match l with
    | [] => (c, [])
    | y :: t => let '(c', a) := compile_stmt has_cf in_fn y c in let '(c'', b) := compile_stmts has_cf in_fn t c' in (c'', a ++ b)
    end.

  (* initNestedImports: the import statements nested in a top-level statement (in a loop, a branch, a function
     body), in source order *)
  Fixpoint nested_imports (x : rstmt) : list (list path) :=
    match x with
    | RImport _ ms => [ms]
    | RDecl _ _ body => (fix go (l : list rstmt) : list (list path) := match l with [] => [] | y :: t => nested_imports y ++ go t end) body
    | RBlock _ body => (fix go (l : list rstmt) : list (list path) := match l with [] => [] | y :: t => nested_imports y ++ go t end) body
    | _ => []
    end.

  (* their modules are imported before the statement: declared, marked, and (main module) initialised *)
  Definition hoist_step (st : list path * list path) (ms : list path) : list path * list path :=
    let '(imp, calls) := st in
    let '(imp', cs) := emit_import G fuel imp ms in (imp', calls ++ cs).
  Definition hoist (x : rstmt) (c : cstate) : cstate * list instr :=
    match x with
    | RImport _ _ => (c, [])
    | _ =>
        let visited := if is_main then true else match x with RDecl _ _ _ => true | _ => false end in
        if visited then
          let '(imp', calls) := fold_left hoist_step (nested_imports x) (c_imp c, []) in
          (mkC imp' (c_fns c), if is_main then map ICallInit calls else [])
        else (c, [])
    end.

  (* the loop over the top-level statements of compiler.compile *)
  Fixpoint compile_top (l : list rstmt) (c : cstate) : cstate * list instr :=
    match l with
    | [] => (c, [])
    | y :: t =>
        let '(c0, h) := hoist y c in
        let '(c', a) := compile_stmt is_main false y c0 in
        let '(c'', b) := compile_top t c' in (c'', h ++ a ++ b)
    end.

  Definition compile_module (rs : list rstmt) : cstate * list instr :=
    compile_top rs (mkC [] []).
End Compile.

(* ---------------------------------------------------------------------------------------------
   execution of the emitted code: the observable events *)
Inductive event :=
| EInit (q : path)                       (* q's module_init entered *)
| EInitVar (q : path) (n : name)         (* initialiser of q's global n evaluated (prints its tag) *)
| EMark (p : path) (t : N)
| EFn (q : path) (n : name)              (* body of q's function n entered *)
| EVal (q : path) (n : name) (initialised : bool)   (* value of q's global n read: its value, or the default 0 *)
| EConst (q : path) (n : name)
| EType (q : path) (n : name).

Section Run.
  Variable vars_of : path -> list name.       (* the global variables of a module, in order *)

  Definition store := list (path * name).
  Definition mem_store (q : path) (n : name) (s : store) : bool :=
    existsb (fun x => N.eqb (fst x) q && N.eqb (snd x) n) s.

  Fixpoint iter {A : Type} (k : nat) (f : A -> A) (a : A) : A :=
    match k with O => a | S k' => iter k' f (f a) end.

  Fixpoint run_instr (x : instr) (st : store * list event) {struct x} : store * list event :=
    let '(s, tr) := st in
    match x with
    | ICallInit q => (map (fun n => (q, n)) (vars_of q) ++ s, tr ++ EInit q :: map (EInitVar q) (vars_of q))
    | IInitVar q n => ((q, n) :: s, tr ++ [EInitVar q n])
    | IMark q t => (s, tr ++ [EMark q t])
    | ICallFn q n body =>
        (fix go (l : list instr) (st : store * list event) : store * list event :=
           match l with [] => st | y :: t => go t (run_instr y st) end) body (s, tr ++ [EFn q n])
    | IReadVar q n => (s, tr ++ [EVal q n (mem_store q n s)])
    | IReadConst q n => (s, tr ++ [EConst q n])
    | IUseType q n => (s, tr ++ [EType q n])
    | IBlock c body =>
        let once := (fix go (l : list instr) (st : store * list event) : store * list event :=
                       match l with [] => st | y :: t => go t (run_instr y st) end) body in
        match c with
        | CRepeat k => iter k once st
        | CIf true => once st
        | CIf false => st
        end
    end.

  Fixpoint run (l : list instr) (st : store * list event) : store * list event :=
    match l with [] => st | y :: t => run t (run_instr y st) end.
End Run.

(* ---------------------------------------------------------------------------------------------
   the whole pipeline: parser.Parse on the root, then (only if no diagnostic was delivered)
   compileWithImports and the run of the executable *)
Section Program.
  Variable fs : fsys.
  Variable root : path.

  Definition src_of (q : path) : list stmt := match lookup q (fs_files fs) with Some s => s | None => [] end.

  Fixpoint vars_of_decls (l : list decl) : list name :=
    match l with
    | [] => []
    | d :: t => match d_kind d with KVar => d_name d :: vars_of_decls t | _ => vars_of_decls t end
    end.
  Definition vars_of (q : path) : list name := vars_of_decls (top_decls (src_of q)).

  Definition loaded : lstate * option resolved := load fs root.
  Definition L : lstate := fst loaded.
  Definition main_res : resolved := match snd loaded with Some r => r | None => [] end.

  (* module objects reachable through the map *)
  Definition res_of (q : path) : resolved :=
    match lookup q (l_map L) with Some (Some r) => r | _ => [] end.
  Definition graph (q : path) : list path := flat_map snd (res_of q).

  Definition resolve_with (inst : N) (q : path) (res : resolved) : pstate * list rstmt :=
    resolve_module fs inst q res (l_diags L) (src_of q).

  (* the module objects: the root as returned by the first Parse, the others as stored in the map *)
  Definition inst_of (q : path) : N :=
    (fix go (l : list path) (k : N) : N :=
       match l with [] => 0%N | x :: t => if N.eqb x q then k else go t (N.succ k) end) (tl (l_log L)) 1%N.
  Definition resolve_of (q : path) : pstate * list rstmt :=
    if N.eqb q root then resolve_with 0 root main_res else resolve_with (inst_of q) q (res_of q).

  (* every call of Parse runs its own resolver (the root can be parsed a second time through a cycle) *)
  Fixpoint resolve_log (l : list path) (k : N) : list diag :=
    match l with
    | [] => []
    | q :: t => p_diags (fst (resolve_with k q (res_of q))) ++ resolve_log t (N.succ k)
    end.
  Definition resolve_diags : list diag :=
    p_diags (fst (resolve_with 0 root main_res)) ++ resolve_log (tl (l_log L)) 1%N.
  Definition all_diags : list diag := l_diags L ++ resolve_diags.

  Definition dfs_fuel : nat := S (length (l_map L)).

  (* functions of an imported module q, compiled as a non-main module *)
  Definition fn_code (q : path) (n : name) : list instr :=
    match lookup n (c_fns (fst (compile_module graph dfs_fuel q false (fun _ _ => []) (snd (resolve_of q))))) with
    | Some b => b
    | None => []
    end.

  Definition main_code : list instr :=
    snd (compile_module graph dfs_fuel root true fn_code (snd (resolve_of root))).

  Definition trace : list event := snd (run vars_of main_code ([], [])).

  (* None: rejected (a diagnostic was delivered, no executable); Some tr: output events of the executable *)
  Definition outcome : option (list event) :=
    match snd loaded, all_diags with
    | Some _, [] => Some trace
    | _, _ => None
    end.
End Program.
