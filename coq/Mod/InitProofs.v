(* C10 — proofs about the init-order model (Mod/InitOrder.v). *)
From Coq Require Import List NArith Bool Lia Relations PeanoNat.
Import ListNotations.
From DDP Require Import Mod.Loader Mod.LoaderProofs Mod.InitOrder.

(* ---------------------------------------------------------------------------------------------
   induction over the nested code / statement trees *)
Section InstrInd.
  Variable P : instr -> Prop.
  Hypothesis Hinit : forall q, P (ICallInit q).
  Hypothesis Hvar : forall p n, P (IInitVar p n).
  Hypothesis Hmark : forall p t, P (IMark p t).
  Hypothesis Hfn : forall q n body, Forall P body -> P (ICallFn q n body).
  Hypothesis Hrv : forall q n, P (IReadVar q n).
  Hypothesis Hrc : forall q n, P (IReadConst q n).
  Hypothesis Hty : forall q n, P (IUseType q n).
  Hypothesis Hblock : forall c body, Forall P body -> P (IBlock c body).

  Fixpoint instr_ind' (x : instr) : P x :=
    match x with
    | ICallInit q => Hinit q
    | IInitVar p n => Hvar p n
    | IMark p t => Hmark p t
    | ICallFn q n body =>
        Hfn q n body ((fix go (l : list instr) : Forall P l :=
                         match l with [] => Forall_nil P | y :: t => Forall_cons y (instr_ind' y) (go t) end) body)
    | IReadVar q n => Hrv q n
    | IReadConst q n => Hrc q n
    | IUseType q n => Hty q n
    | IBlock c body =>
        Hblock c body ((fix go (l : list instr) : Forall P l :=
                          match l with [] => Forall_nil P | y :: t => Forall_cons y (instr_ind' y) (go t) end) body)
    end.
End InstrInd.

(* which instruction can produce which event (anywhere inside the code) *)
Fixpoint produces (x : instr) (e : event) {struct x} : Prop :=
  match x with
  | ICallInit q => e = EInit q \/ exists n, e = EInitVar q n
  | IInitVar p n => e = EInitVar p n
  | IMark p t => e = EMark p t
  | ICallFn q n body => e = EFn q n \/ (fix go (l : list instr) : Prop := match l with [] => False | y :: t => produces y e \/ go t end) body
  | IReadVar q n => exists b, e = EVal q n b
  | IReadConst q n => e = EConst q n
  | IUseType q n => e = EType q n
  | IBlock _ body => (fix go (l : list instr) : Prop := match l with [] => False | y :: t => produces y e \/ go t end) body
  end.
Fixpoint produces_l (l : list instr) (e : event) : Prop :=
  match l with [] => False | y :: t => produces y e \/ produces_l t e end.

Lemma produces_fn q n body e : produces (ICallFn q n body) e <-> e = EFn q n \/ produces_l body e.
Proof. cbn [produces]. induction body as [|y t IH]; cbn [produces_l]; tauto. Qed.
Lemma produces_block c body e : produces (IBlock c body) e <-> produces_l body e.
Proof. cbn [produces]. induction body as [|y t IH]; cbn [produces_l]; tauto. Qed.

Section RunFacts.
  Variable vars_of : path -> list name.

  Lemma run_eq l st : run vars_of l st = fold_left (fun st y => run_instr vars_of y st) l st.
  Proof. revert st. induction l as [|y t IH]; intros st; cbn [run fold_left]; auto. Qed.

  Lemma run_instr_fn q n body s tr :
    run_instr vars_of (ICallFn q n body) (s, tr) = run vars_of body (s, tr ++ [EFn q n]).
  Proof.
    cbn [run_instr]. generalize (s, tr ++ [EFn q n]). induction body as [|y t IH]; intros st; cbn [run]; auto.
  Qed.

  Lemma run_instr_block c body st :
    run_instr vars_of (IBlock c body) st =
    match c with
    | CRepeat k => iter k (run vars_of body) st
    | CIf true => run vars_of body st
    | CIf false => st
    end.
  Proof.
    destruct st as [s tr]. cbn [run_instr].
    assert (H : forall st, (fix go (l : list instr) (st : store * list event) : store * list event :=
                              match l with [] => st | y :: t => go t (run_instr vars_of y st) end) body st = run vars_of body st).
    { induction body as [|y t IH]; intros st; cbn [run]; auto. }
    destruct c as [k|[|]]; auto.
  Qed.

  Lemma run_app l1 l2 st : run vars_of (l1 ++ l2) st = run vars_of l2 (run vars_of l1 st).
  Proof. revert st. induction l1 as [|y t IH]; intros st; cbn [run app]; auto. Qed.

  (* the trace only grows, and only by events the code can produce *)
  Definition grows (l : list instr) (st st' : store * list event) : Prop :=
    exists new, snd st' = snd st ++ new /\ forall e, In e new -> produces_l l e.

  Lemma grows_refl l st : grows l st st.
  Proof. exists []. rewrite app_nil_r. split; [reflexivity|intros e []]. Qed.

  Lemma grows_trans l st1 st2 st3 : grows l st1 st2 -> grows l st2 st3 -> grows l st1 st3.
  Proof.
    intros [n1 [E1 H1]] [n2 [E2 H2]]. exists (n1 ++ n2). rewrite E2, E1, app_assoc. split; [reflexivity|].
    intros e He. apply in_app_or in He. destruct He; auto.
  Qed.

  Lemma grows_weaken l l' st st' : (forall e, produces_l l e -> produces_l l' e) -> grows l st st' -> grows l' st st'.
  Proof. intros H [n [E Hn]]. exists n. split; auto. Qed.

  Lemma run_instr_grows x : forall st, grows [x] st (run_instr vars_of x st).
  Proof.
    induction x as [q|p n|p t|q n body IH|q n|q n|q n|c body IH] using instr_ind'; intros [s tr].
    - cbn [run_instr]. eexists; split; [reflexivity|]. intros e [<-|He]; cbn; [tauto|].
      apply in_map_iff in He. destruct He as [n [<- _]]. left. right. eauto.
    - cbn [run_instr]. eexists; split; [reflexivity|]. intros e [<-|[]]. cbn. tauto.
    - cbn [run_instr]. eexists; split; [reflexivity|]. intros e [<-|[]]. cbn. tauto.
    - rewrite run_instr_fn.
      assert (Hb : forall st, grows body st (run vars_of body st)).
      { induction IH as [|y t Hy _ IHt]; intros st; cbn [run]; [apply grows_refl|].
        eapply grows_trans; [eapply grows_weaken; [|apply Hy]|eapply grows_weaken; [|apply IHt]].
        - intros e [He|[]]. left; exact He.
        - intros e He. right; exact He. }
      destruct (Hb (s, tr ++ [EFn q n])) as [new [E Hn]]. cbn [snd] in E.
      exists (EFn q n :: new). cbn [snd]. rewrite E, <- app_assoc. split; [reflexivity|].
      intros e [<-|He]; cbn [produces_l]; left; apply produces_fn; [left; reflexivity|right; auto].
    - cbn [run_instr]. eexists; split; [reflexivity|]. intros e [<-|[]]. cbn. eauto.
    - cbn [run_instr]. eexists; split; [reflexivity|]. intros e [<-|[]]. cbn. tauto.
    - cbn [run_instr]. eexists; split; [reflexivity|]. intros e [<-|[]]. cbn. tauto.
    - rewrite run_instr_block.
      assert (Hb : forall st, grows body st (run vars_of body st)).
      { induction IH as [|y t Hy _ IHt]; intros st; cbn [run]; [apply grows_refl|].
        eapply grows_trans; [eapply grows_weaken; [|apply Hy]|eapply grows_weaken; [|apply IHt]].
        - intros e [He|[]]. left; exact He.
        - intros e He. right; exact He. }
      assert (Hw : forall c' st st', grows body st st' -> grows [IBlock c' body] st st').
      { intros c' st st'. apply grows_weaken. intros e He. left. apply produces_block. exact He. }
      destruct c as [k|[|]]; [|apply Hw, Hb|apply grows_refl].
      assert (Hk : forall k' st, grows body st (iter k' (run vars_of body) st)).
      { induction k' as [|k' IHk]; intros st; cbn [iter]; [apply grows_refl|].
        eapply grows_trans; [apply Hb|apply IHk]. }
      apply Hw, Hk.
  Qed.

  Lemma run_grows l : forall st, grows l st (run vars_of l st).
  Proof.
    induction l as [|y t IH]; intros st; cbn [run]; [apply grows_refl|].
    eapply grows_trans; [eapply grows_weaken; [|apply run_instr_grows]|eapply grows_weaken; [|apply IH]].
    - intros e [He|[]]. left; exact He.
    - intros e He. right; exact He.
  Qed.
End RunFacts.

(* ---------------------------------------------------------------------------------------------
   IterateModuleImports on a graph that decreases a rank (the module objects: see load_wf) *)
Section DfsFacts.
  Variable G : path -> list path.
  Variable rk : path -> nat.
  Hypothesis Hrk : forall m n, In n (G m) -> rk n < rk m.

  (* every element's successors stand strictly before it *)
  Definition ordered (out : list path) : Prop :=
    forall l1 x l2, out = l1 ++ x :: l2 -> forall y, In y (G x) -> In y l1.

  Lemma app_snoc_inv {A : Type} (l1 l2 o : list A) (x m : A) :
    l1 ++ x :: l2 = o ++ [m] ->
    (l2 = [] /\ x = m /\ l1 = o) \/ (exists l2', l2 = l2' ++ [m] /\ o = l1 ++ x :: l2').
  Proof.
    destruct (exists_last (l := x :: l2)) as [l' [z Hz]]; [discriminate|].
    destruct l2 as [|y l2] using rev_ind.
    - intros E. change (l1 ++ [x] = o ++ [m]) in E. apply app_inj_tail in E. destruct E as [-> ->]. left; auto.
    - intros E. right. exists l2. rewrite app_comm_cons, app_assoc in E.
      apply app_inj_tail in E. destruct E as [<- ->]. auto.
  Qed.

  Lemma ordered_snoc out m : ordered out -> (forall y, In y (G m) -> In y out) -> ordered (out ++ [m]).
  Proof.
    intros Ho Hm l1 x l2 E y Hy. symmetry in E. apply app_snoc_inv in E. destruct E as [[-> [-> ->]]|[l2' [-> ->]]].
    - auto.
    - eapply Ho; eauto.
  Qed.

  Lemma ordered_closed out x y : ordered out -> In x out -> In y (G x) -> In y out.
  Proof.
    intros Ho Hx Hy. apply in_split in Hx. destruct Hx as [l1 [l2 ->]].
    apply in_or_app. left. eapply Ho; eauto.
  Qed.

  Definition reach : path -> path -> Prop := clos_refl_trans _ (fun a b => In b (G a)).

  Definition dinv (anc : list path) (st : list path * list path) : Prop :=
    (forall x, In x (fst st) <-> In x (snd st) \/ In x anc) /\ ordered (snd st).

  Lemma dfs_spec fuel : forall vis out anc m,
    dinv anc (vis, out) -> (forall a, In a anc -> rk m < rk a) -> rk m < fuel ->
    dinv anc (dfs G fuel (vis, out) m) /\ In m (snd (dfs G fuel (vis, out) m)) /\
    (exists new, snd (dfs G fuel (vis, out) m) = out ++ new /\ forall x, In x new -> reach m x).
  Proof.
    induction fuel as [|f IH]; intros vis out anc m Hinv Hanc Hfuel; [lia|].
    cbn [dfs]. destruct (memN m vis) eqn:Hmem.
    - apply memN_In in Hmem. destruct Hinv as [Hv Ho]. cbn [fst snd] in *.
      apply Hv in Hmem. destruct Hmem as [Hm|Hm]; [|specialize (Hanc _ Hm); lia].
      split; [split; auto|split; [exact Hm|exists []; rewrite app_nil_r; split; [reflexivity|intros x []]]].
    - assert (Hfold : forall cs vis1 out1, (forall c, In c cs -> In c (G m)) ->
                dinv (m :: anc) (vis1, out1) ->
                let r := fold_left (dfs G f) cs (vis1, out1) in
                dinv (m :: anc) r /\ (forall c, In c cs -> In c (snd r)) /\
                (forall x, In x out1 -> In x (snd r)) /\
                (exists new, snd r = out1 ++ new /\ forall x, In x new -> reach m x)).
      { induction cs as [|c cs IHcs]; intros vis1 out1 Hcs Hinv1; cbn [fold_left].
        - split; [exact Hinv1|split; [intros c []|split; [auto|exists []; rewrite app_nil_r; split; [reflexivity|intros x []]]]].
        - assert (Hc : In c (G m)) by (apply Hcs; left; reflexivity).
          destruct (IH vis1 out1 (m :: anc) c Hinv1) as [Hi1 [Hin1 [new1 [En1 Hr1]]]].
          { intros a [<-|Ha]; [apply Hrk; exact Hc|]. specialize (Hanc _ Ha). specialize (Hrk _ _ Hc). lia. }
          { specialize (Hrk _ _ Hc). lia. }
          destruct (dfs G f (vis1, out1) c) as [vis2 out2] eqn:E2. cbn [snd] in *.
          destruct (IHcs vis2 out2 (fun c' H => Hcs c' (or_intror H)) Hi1) as [Hi2 [Hin2 [Hkeep2 [new2 [En2 Hr2]]]]].
          split; [exact Hi2|split; [|split]].
          + intros c' [<-|Hc']; [apply Hkeep2; exact Hin1|apply Hin2; exact Hc'].
          + intros x Hx. apply Hkeep2. rewrite En1. apply in_or_app. left; exact Hx.
          + exists (new1 ++ new2). rewrite En2, En1, app_assoc. split; [reflexivity|].
            intros x Hx. apply in_app_or in Hx. destruct Hx as [Hx|Hx]; [|auto].
            eapply rt_trans; [apply rt_step; exact Hc|apply Hr1; exact Hx]. }
      destruct Hinv as [Hv Ho]. cbn [fst snd] in *.
      destruct (Hfold (G m) (m :: vis) out (fun c H => H)) as [[Hv2 Ho2] [Hin2 [Hkeep2 [new2 [En2 Hr2]]]]].
      { split; cbn [fst snd]; [|exact Ho]. intros x. cbn [In]. rewrite Hv. tauto. }
      destruct (fold_left (dfs G f) (G m) (m :: vis, out)) as [vis' out'] eqn:E. cbn [fst snd] in *.
      split; [split; cbn [fst snd]|split].
      + intros x. rewrite Hv2, in_app_iff. cbn [In]. intuition.
      + apply ordered_snoc; auto.
      + apply in_or_app. right. left. reflexivity.
      + exists (new2 ++ [m]). rewrite En2, app_assoc. split; [reflexivity|].
        intros x Hx. apply in_app_or in Hx. destruct Hx as [Hx|[<-|[]]]; [auto|apply rt_refl].
  Qed.

  (* one IterateModuleImports(m): the reachable modules, successors first *)
  Lemma post_order_spec fuel m : rk m < fuel ->
    ordered (post_order G fuel m) /\ In m (post_order G fuel m) /\
    (forall x, In x (post_order G fuel m) <-> reach m x).
  Proof.
    intros Hf. unfold post_order.
    destruct (dfs_spec fuel [] [] [] m) as [[_ Ho] [Hm [new [En Hr]]]]; auto.
    { split; cbn; [tauto|]. intros l1 x l2 E. destruct l1; discriminate. }
    { intros a []. }
    split; [exact Ho|split; [exact Hm|]]. intros x. split.
    - intros Hx. rewrite En in Hx. cbn in Hx. auto.
    - intros Hx. revert Hm. generalize Ho. generalize (snd (dfs G fuel ([], []) m)). clear - Hx. intros S HoS.
      apply clos_rt_rt1n in Hx. induction Hx as [|a b c Hab _ IH]; [auto|].
      intros Ha. apply IH. eapply ordered_closed; eauto.
  Qed.

  (* VisitImportStmt's loop over the post-order: importedModules and the emitted calls *)
  Definition einv (st : list path * list path) : Prop :=
    (forall x, In x (fst st) <-> In x (snd st)) /\ ordered (snd st) /\ NoDup (snd st).

  Lemma emit_fold po : forall done st,
    ordered (done ++ po) -> (forall y, In y done -> In y (fst st)) -> einv st ->
    einv (fold_left emit_one po st) /\ (forall y, In y (done ++ po) -> In y (fst (fold_left emit_one po st))) /\
    (exists new, snd (fold_left emit_one po st) = snd st ++ new /\ forall x, In x new -> In x po).
  Proof.
    induction po as [|x po IH]; intros done [imp calls] Hord Hdone Hinv; cbn [fold_left].
    - rewrite app_nil_r. split; [exact Hinv|split; [exact Hdone|exists []; rewrite app_nil_r; split; [reflexivity|intros x []]]].
    - destruct Hinv as [Hic [Ho Hnd]]. cbn [fst snd] in *.
      assert (Hch : forall y, In y (G x) -> In y done) by (intros y Hy; eapply Hord; eauto).
      assert (Hst : einv (emit_one (imp, calls) x) /\ In x (fst (emit_one (imp, calls) x)) /\
                    (forall y, In y imp -> In y (fst (emit_one (imp, calls) x))) /\
                    (exists new, snd (emit_one (imp, calls) x) = calls ++ new /\ forall z, In z new -> z = x)).
      { unfold emit_one. destruct (memN x imp) eqn:Hmem.
        - apply memN_In in Hmem. split; [split; auto|split; [exact Hmem|split; [auto|exists []; rewrite app_nil_r; split; [reflexivity|intros z []]]]].
        - assert (Hx : ~ In x imp) by (intros H; apply memN_In in H; congruence).
          split; [split; [|split]|split; [left; reflexivity|split; [intros y Hy; right; exact Hy|exists [x]; split; [reflexivity|intros z [<-|[]]; reflexivity]]]]; cbn [fst snd].
          + intros y. rewrite in_app_iff. cbn [In]. rewrite Hic. intuition.
          + apply ordered_snoc; [exact Ho|]. intros y Hy. apply Hic. apply Hdone. apply Hch. exact Hy.
          + apply NoDup_snoc; [exact Hnd|]. intros H. apply Hx. apply Hic. exact H. }
      destruct Hst as [Hinv1 [Hx1 [Hkeep1 [new1 [En1 Hn1]]]]].
      destruct (emit_one (imp, calls) x) as [imp1 calls1] eqn:E1. cbn [fst snd] in *.
      destruct (IH (done ++ [x]) (imp1, calls1)) as [Hinv2 [Hall2 [new2 [En2 Hn2]]]].
      + rewrite <- app_assoc. exact Hord.
      + intros y Hy. apply in_app_or in Hy. destruct Hy as [Hy|[<-|[]]]; cbn [fst]; auto.
      + exact Hinv1.
      + split; [exact Hinv2|split].
        * intros y Hy. apply Hall2. rewrite <- app_assoc. exact Hy.
        * exists (new1 ++ new2). cbn [snd] in *. rewrite En2, En1, app_assoc. split; [reflexivity|].
          intros z Hz. apply in_app_or in Hz. destruct Hz as [Hz|Hz]; [left; symmetry; auto|right; auto].
  Qed.

  Variable fuel : nat.
  Hypothesis Hfuel : forall m, rk m < fuel.

  Lemma emit_import_spec ms : forall imp calls,
    einv (imp, calls) ->
    let r := fold_left (fun st m => fold_left emit_one (post_order G fuel m) st) ms (imp, calls) in
    einv r /\ (forall x, In x imp -> In x (fst r)) /\
    (forall m x, In m ms -> reach m x -> In x (fst r)) /\
    (exists new, snd r = calls ++ new /\ forall x, In x new -> exists m, In m ms /\ reach m x).
  Proof.
    induction ms as [|m ms IH]; intros imp calls Hinv; cbn [fold_left].
    - split; [exact Hinv|split; [auto|split; [intros m x []|exists []; rewrite app_nil_r; split; [reflexivity|intros x []]]]].
    - destruct (post_order_spec fuel m (Hfuel m)) as [Hord [Hm Hreach]].
      destruct (emit_fold (post_order G fuel m) [] (imp, calls) Hord (fun y (H : In y []) => match H with end) Hinv)
        as [Hinv1 [Hall1 [new1 [En1 Hn1]]]].
      assert (Hkeep1 : forall x, In x imp -> In x (fst (fold_left emit_one (post_order G fuel m) (imp, calls)))).
      { intros x Hx. destruct Hinv as [Hic _]. destruct Hinv1 as [Hic1 _]. cbn [fst snd] in *.
        apply Hic1. rewrite En1. apply in_or_app. left. apply Hic. exact Hx. }
      destruct (fold_left emit_one (post_order G fuel m) (imp, calls)) as [imp1 calls1] eqn:E1. cbn [fst snd] in *.
      destruct (IH imp1 calls1 Hinv1) as [Hinv2 [Hkeep2 [Hall2 [new2 [En2 Hn2]]]]].
      split; [exact Hinv2|split; [auto|split]].
      + intros m' x [<-|Hm'] Hx; [apply Hkeep2, Hall1, Hreach; exact Hx|eapply Hall2; eauto].
      + exists (new1 ++ new2). rewrite En2, En1, app_assoc. split; [reflexivity|].
        intros x Hx. apply in_app_or in Hx. destruct Hx as [Hx|Hx].
        * exists m. split; [left; reflexivity|]. apply Hreach. auto.
        * destruct (Hn2 _ Hx) as [m' [Hm' Hr']]. exists m'. split; [right; exact Hm'|exact Hr'].
  Qed.
End DfsFacts.

(* ---------------------------------------------------------------------------------------------
   statement trees *)
Section StmtInd.
  Variable P : stmt -> Prop.
  Hypothesis Himp : forall i, P (SImport i).
  Hypothesis Hdecl : forall line d body, Forall P body -> P (SDecl line d body).
  Hypothesis Huse : forall line n k, P (SUse line n k).
  Hypothesis Hmark : forall t, P (SMark t).
  Hypothesis Hblock : forall c body, Forall P body -> P (SBlock c body).
  Fixpoint stmt_ind' (x : stmt) : P x :=
    match x with
    | SImport i => Himp i
    | SDecl line d body =>
        Hdecl line d body ((fix go (l : list stmt) : Forall P l :=
                              match l with [] => Forall_nil P | y :: t => Forall_cons y (stmt_ind' y) (go t) end) body)
    | SUse line n k => Huse line n k
    | SMark t => Hmark t
    | SBlock c body =>
        Hblock c body ((fix go (l : list stmt) : Forall P l :=
                          match l with [] => Forall_nil P | y :: t => Forall_cons y (stmt_ind' y) (go t) end) body)
    end.
End StmtInd.

Section RstmtInd.
  Variable P : rstmt -> Prop.
  Hypothesis Himp : forall line ms, P (RImport line ms).
  Hypothesis Hdecl : forall line d body, Forall P body -> P (RDecl line d body).
  Hypothesis Huse : forall line k e, P (RUse line k e).
  Hypothesis Hmark : forall t, P (RMark t).
  Hypothesis Hblock : forall c body, Forall P body -> P (RBlock c body).
  Fixpoint rstmt_ind' (x : rstmt) : P x :=
    match x with
    | RImport line ms => Himp line ms
    | RDecl line d body =>
        Hdecl line d body ((fix go (l : list rstmt) : Forall P l :=
                              match l with [] => Forall_nil P | y :: t => Forall_cons y (rstmt_ind' y) (go t) end) body)
    | RUse line k e => Huse line k e
    | RMark t => Hmark t
    | RBlock c body =>
        Hblock c body ((fix go (l : list rstmt) : Forall P l :=
                          match l with [] => Forall_nil P | y :: t => Forall_cons y (rstmt_ind' y) (go t) end) body)
    end.
End RstmtInd.

Section ResolveShape.
  Variable fs : fsys.
  Variable inst : N.
  Variable p : path.
  Variable res : resolved.
  Variable ld : list diag.

  Lemma resolve_stmts_eq l s :
    (fix go (l : list stmt) (s : pstate) : pstate * list rstmt :=
       match l with
       | [] => (s, [])
       | y :: t => let '(s', r) := resolve_stmt fs inst p res ld y s in let '(s'', rs) := go t s' in (s'', r :: rs)
       end) l s = resolve_stmts fs inst p res ld l s.
  Proof.
    revert s. induction l as [|y t IH]; intros s; [reflexivity|].
    simpl. destruct (resolve_stmt fs inst p res ld y s) as [s1 r1]. rewrite IH. reflexivity.
  Qed.
End ResolveShape.

(* ---------------------------------------------------------------------------------------------
   the init events of a trace *)
Fixpoint einits (tr : list event) : list path :=
  match tr with
  | [] => []
  | EInit q :: t => q :: einits t
  | _ :: t => einits t
  end.

Lemma einits_app a b : einits (a ++ b) = einits a ++ einits b.
Proof. induction a as [|e a IH]; cbn [app einits]; [reflexivity|]. destruct e; cbn [app]; rewrite IH; reflexivity. Qed.

Lemma einits_In q tr : In q (einits tr) <-> In (EInit q) tr.
Proof.
  induction tr as [|e tr IH]; cbn [einits In]; [tauto|].
  destruct e; cbn [In]; try (split; [intros H; right; apply IH; exact H|intros [H|H]; [discriminate|apply IH; exact H]]).
  split; (intros [H|H]; [left; congruence|right; apply IH; exact H]).
Qed.

Lemma einits_none tr : (forall q, ~ In (EInit q) tr) -> einits tr = [].
Proof.
  intros H. destruct (einits tr) as [|q l] eqn:E; [reflexivity|].
  exfalso. apply (H q). apply einits_In. rewrite E. left; reflexivity.
Qed.

Definition noinit_l (l : list instr) : Prop := forall q, ~ produces_l l (EInit q).

Lemma noinit_app a b : noinit_l a -> noinit_l b -> noinit_l (a ++ b).
Proof.
  intros Ha Hb q. induction a as [|x a IH]; cbn [app produces_l]; [apply Hb|].
  intros [H|H]; [apply (Ha q); left; exact H|].
  apply IH; [|exact H]. intros q' H'. apply (Ha q'). right; exact H'.
Qed.


(* ---------------------------------------------------------------------------------------------
   the loop of initImportedModules without reference to the graph *)
Section EmitFacts.
  Variable G : path -> list path.
  Variable fuel : nat.

  Lemma emit_one_shift imp c0 c x :
    emit_one (imp, c0 ++ c) x = (fst (emit_one (imp, c) x), c0 ++ snd (emit_one (imp, c) x)).
  Proof. unfold emit_one. destruct (memN x imp); cbn [fst snd]; [reflexivity|]. rewrite app_assoc. reflexivity. Qed.

  Lemma fold_emit_one_shift po : forall imp c0 c,
    fold_left emit_one po (imp, c0 ++ c) =
    (fst (fold_left emit_one po (imp, c)), c0 ++ snd (fold_left emit_one po (imp, c))).
  Proof.
    induction po as [|x po IH]; intros imp c0 c; cbn [fold_left]; [reflexivity|].
    rewrite emit_one_shift. destruct (emit_one (imp, c) x) as [i1 c1]. cbn [fst snd]. apply IH.
  Qed.

  Lemma emit_import_shift ms : forall imp c0 c,
    fold_left (fun st m => fold_left emit_one (post_order G fuel m) st) ms (imp, c0 ++ c) =
    (fst (fold_left (fun st m => fold_left emit_one (post_order G fuel m) st) ms (imp, c)),
     c0 ++ snd (fold_left (fun st m => fold_left emit_one (post_order G fuel m) st) ms (imp, c))).
  Proof.
    induction ms as [|m ms IH]; intros imp c0 c; cbn [fold_left]; [reflexivity|].
    rewrite fold_emit_one_shift.
    destruct (fold_left emit_one (post_order G fuel m) (imp, c)) as [imp1 c1]. cbn [fst snd]. apply IH.
  Qed.

  Lemma fold_emit_one_contains po : forall st,
    (forall y, In y (fst st) -> In y (fst (fold_left emit_one po st))) /\
    (forall y, In y po -> In y (fst (fold_left emit_one po st))).
  Proof.
    induction po as [|x po IH]; intros [imp c]; cbn [fold_left]; [split; [auto|intros y []]|].
    destruct (IH (emit_one (imp, c) x)) as [H1 H2].
    assert (Hx : In x (fst (emit_one (imp, c) x)) /\ forall y, In y imp -> In y (fst (emit_one (imp, c) x))).
    { unfold emit_one. destruct (memN x imp) eqn:E; cbn [fst]; [apply memN_In in E; auto|split; [left; reflexivity|intros y Hy; right; exact Hy]]. }
    destruct Hx as [Hx Hk]. split; [intros y Hy; apply H1, Hk, Hy|].
    intros y [<-|Hy]; [apply H1, Hx|apply H2, Hy].
  Qed.

  Lemma fold_emit_one_noop po : forall imp c, (forall y, In y po -> In y imp) -> fold_left emit_one po (imp, c) = (imp, c).
  Proof.
    induction po as [|x po IH]; intros imp c H; cbn [fold_left]; [reflexivity|].
    unfold emit_one at 2. assert (E : memN x imp = true) by (apply memN_In, H; left; reflexivity).
    rewrite E. apply IH. intros y Hy. apply H. right; exact Hy.
  Qed.

  Notation F := (fun st m => fold_left emit_one (post_order G fuel m) st).

  Lemma emit_import_contains ms : forall st,
    (forall y, In y (fst st) -> In y (fst (fold_left F ms st))) /\
    (forall m y, In m ms -> In y (post_order G fuel m) -> In y (fst (fold_left F ms st))).
  Proof.
    induction ms as [|m ms IH]; intros st; cbn [fold_left]; [split; [auto|intros m y []]|].
    destruct (IH (fold_left emit_one (post_order G fuel m) st)) as [H1 H2].
    destruct (fold_emit_one_contains (post_order G fuel m) st) as [K1 K2].
    split; [intros y Hy; apply H1, K1, Hy|].
    intros m' y [<-|Hm] Hy; [apply H1, K2, Hy|eapply H2; eauto].
  Qed.

  Lemma emit_import_noop ms : forall imp c,
    (forall m y, In m ms -> In y (post_order G fuel m) -> In y imp) -> fold_left F ms (imp, c) = (imp, c).
  Proof.
    induction ms as [|m ms IH]; intros imp c H; cbn [fold_left]; [reflexivity|].
    rewrite fold_emit_one_noop; [|intros y Hy; eapply H; [left; reflexivity|exact Hy]].
    apply IH. intros m' y Hm Hy. eapply H; [right; exact Hm|exact Hy].
  Qed.

  (* several import statements one after the other = one import statement with all their modules *)
  Lemma hoist_eq L : forall imp c0,
    fold_left (hoist_step G fuel) L (imp, c0) =
    (fst (emit_import G fuel imp (concat L)), c0 ++ snd (emit_import G fuel imp (concat L))).
  Proof.
    unfold emit_import.
    induction L as [|ms L IH]; intros imp c0; cbn [fold_left concat]; [cbn; rewrite app_nil_r; reflexivity|].
    unfold hoist_step at 2. unfold emit_import.
    destruct (fold_left F ms (imp, [])) as [imp1 c1] eqn:E1.
    rewrite IH, fold_left_app, E1.
    pose proof (emit_import_shift (concat L) imp1 c1 []) as Hs. rewrite app_nil_r in Hs. rewrite Hs.
    cbn [fst snd]. rewrite app_assoc. reflexivity.
  Qed.
End EmitFacts.

Section CompileFacts.
  Variable G : path -> list path.
  Variable fuel : nat.
  Variable p : path.
  Variable is_main : bool.
  Variable ext : path -> name -> list instr.
  Variable vars : path -> list name.

  Notation cstmt := (compile_stmt G fuel p ext).
  Notation cstmts := (compile_stmts G fuel p ext).

  Definition cfn_ok (c : cstate) : Prop := forall n b, lookup n (c_fns c) = Some b -> noinit_l b.
  Hypothesis Hext : forall q n, noinit_l (ext q n).

  Lemma compile_stmts_eq hc infn l c :
    (fix go (l : list rstmt) (c : cstate) : cstate * list instr :=
       match l with
       | [] => (c, [])
       | y :: t => let '(c', a) := cstmt hc infn y c in let '(c'', b) := go t c' in (c'', a ++ b)
       end) l c = cstmts hc infn l c.
  Proof.
    revert c. induction l as [|y t IH]; intros c; [reflexivity|].
    simpl. destruct (cstmt hc infn y c) as [c1 a1]. rewrite IH. reflexivity.
  Qed.

  Lemma noinit_single x : (forall q, ~ produces x (EInit q)) -> noinit_l [x].
  Proof. intros H q [H1|[]]. exact (H q H1). Qed.

  (* the modules of every import statement inside x are already imported *)
  Definition cov (imp : list path) (x : rstmt) : Prop :=
    forall ms m y, In ms (nested_imports x) -> In m ms -> In y (post_order G fuel m) -> In y imp.
  Definition cov_l (imp : list path) (l : list rstmt) : Prop := forall x, In x l -> cov imp x.

  Lemma nested_imports_decl line d body : nested_imports (RDecl line d body) = flat_map nested_imports body.
  Proof. cbn [nested_imports]. induction body as [|y t IH]; cbn [flat_map]; [reflexivity|]. rewrite IH. reflexivity. Qed.
  Lemma nested_imports_block ct body : nested_imports (RBlock ct body) = flat_map nested_imports body.
  Proof. cbn [nested_imports]. induction body as [|y t IH]; cbn [flat_map]; [reflexivity|]. rewrite IH. reflexivity. Qed.

  Lemma cov_body imp body : (forall ms m y, In ms (flat_map nested_imports body) -> In m ms -> In y (post_order G fuel m) -> In y imp) -> cov_l imp body.
  Proof. intros H x Hx ms m y Hms. apply H. apply in_flat_map. exists x. auto. Qed.

  Lemma compile_cov x : forall hc infn c c' code,
    cov (c_imp c) x -> cfn_ok c -> cstmt hc infn x c = (c', code) -> c_imp c' = c_imp c /\ noinit_l code /\ cfn_ok c'.
  Proof.
    induction x as [line ms|line d body IH|line k e|t|ct body IH] using rstmt_ind'; intros hc infn c c' code Hx Hc.
    - cbn [compile_stmt]. unfold emit_import.
      rewrite emit_import_noop; [|intros m y Hm Hy; eapply Hx; [left; reflexivity|exact Hm|exact Hy]].
      intros E; injection E as <- <-. destruct c; cbn. split; [reflexivity|split; [|exact Hc]].
      destruct hc; intros q [].
    - unfold cov in Hx. rewrite nested_imports_decl in Hx. apply cov_body in Hx. cbn [compile_stmt].
      assert (Hb : forall hc' infn' c0 c1 code1, c_imp c0 = c_imp c -> cfn_ok c0 -> cstmts hc' infn' body c0 = (c1, code1) ->
                     c_imp c1 = c_imp c0 /\ noinit_l code1 /\ cfn_ok c1).
      { clear - IH Hx Hext. induction IH as [|y t Hy _ IHt]; intros hc' infn' c0 c1 code1 Ei Hc0; cbn [compile_stmts].
        - intros E; injection E as <- <-. split; [reflexivity|split; [intros q []|exact Hc0]].
        - destruct (cstmt hc' infn' y c0) as [c2 a2] eqn:E2.
          destruct (cstmts hc' infn' t c2) as [c3 a3] eqn:E3. intros E; injection E as <- <-.
          assert (Hcy : cov (c_imp c0) y) by (rewrite Ei; apply Hx; left; reflexivity).
          destruct (Hy _ _ _ _ _ Hcy Hc0 E2) as [H1 [H2 H3]].
          destruct (IHt (fun x H => Hx x (or_intror H)) _ _ _ _ _ (eq_trans H1 Ei) H3 E3) as [H4 [H5 H6]].
          split; [congruence|split; [apply noinit_app; auto|exact H6]]. }
      destruct (d_kind d).
      + rewrite compile_stmts_eq. destruct (cstmts true true body c) as [c1 code1] eqn:E1.
        intros E; injection E as <- <-. destruct (Hb _ _ _ _ _ eq_refl Hc E1) as [H1 [H2 H3]].
        split; [exact H1|split; [intros q []|]].
        intros n b. cbn [c_fns lookup]. destruct (N.eqb n (d_name d)); [intros E; injection E as <-; exact H2|apply H3].
      + intros E; injection E as <- <-. split; [reflexivity|split; [|exact Hc]].
        destruct hc; [apply noinit_single; intros q H; cbn in H; discriminate|intros q []].
      + intros E; injection E as <- <-. split; [reflexivity|split; [intros q []|exact Hc]].
      + intros E; injection E as <- <-. split; [reflexivity|split; [intros q []|exact Hc]].
    - cbn [compile_stmt]. intros E; injection E as <- <-. split; [reflexivity|split; [|exact Hc]].
      destruct hc; [|intros q []]. destruct e as [[q0 d]|]; [|intros q []].
      destruct k; apply noinit_single; intros q H.
      + apply produces_fn in H. destruct H as [H|H]; [discriminate|].
        destruct infn; [destruct H|]. destruct (N.eqb q0 p).
        * destruct (lookup (d_name d) (c_fns c)) as [b|] eqn:El; [exact (Hc _ _ El q H)|destruct H].
        * exact (Hext _ _ q H).
      + cbn in H. destruct H as [b H]. discriminate.
      + cbn in H. discriminate.
      + cbn in H. discriminate.
    - cbn [compile_stmt]. intros E; injection E as <- <-. split; [reflexivity|split; [|exact Hc]].
      destruct hc; [apply noinit_single; intros q H; cbn in H; discriminate|intros q []].
    - unfold cov in Hx. rewrite nested_imports_block in Hx. apply cov_body in Hx. cbn [compile_stmt].
      assert (Hb : forall hc' infn' c0 c1 code1, c_imp c0 = c_imp c -> cfn_ok c0 -> cstmts hc' infn' body c0 = (c1, code1) ->
                     c_imp c1 = c_imp c0 /\ noinit_l code1 /\ cfn_ok c1).
      { clear - IH Hx Hext. induction IH as [|y t Hy _ IHt]; intros hc' infn' c0 c1 code1 Ei Hc0; cbn [compile_stmts].
        - intros E; injection E as <- <-. split; [reflexivity|split; [intros q []|exact Hc0]].
        - destruct (cstmt hc' infn' y c0) as [c2 a2] eqn:E2.
          destruct (cstmts hc' infn' t c2) as [c3 a3] eqn:E3. intros E; injection E as <- <-.
          assert (Hcy : cov (c_imp c0) y) by (rewrite Ei; apply Hx; left; reflexivity).
          destruct (Hy _ _ _ _ _ Hcy Hc0 E2) as [H1 [H2 H3]].
          destruct (IHt (fun x H => Hx x (or_intror H)) _ _ _ _ _ (eq_trans H1 Ei) H3 E3) as [H4 [H5 H6]].
          split; [congruence|split; [apply noinit_app; auto|exact H6]]. }
      destruct hc.
      + rewrite compile_stmts_eq. destruct (cstmts true infn body c) as [c1 code1] eqn:E1.
        intros E; injection E as <- <-. destruct (Hb _ _ _ _ _ eq_refl Hc E1) as [H1 [H2 H3]].
        split; [exact H1|split; [|exact H3]].
        apply noinit_single. intros q H. apply produces_block in H. exact (H2 q H).
      + intros E; injection E as <- <-. split; [reflexivity|split; [intros q []|exact Hc]].
  Qed.

  (* the calls one top-level statement emits: those of all import statements in it, at its start *)
  Definition step_calls (imp : list path) (x : rstmt) : list path * list path :=
    emit_import G fuel imp (concat (nested_imports x)).
  Fixpoint all_calls (rs : list rstmt) (imp : list path) : list path * list path :=
    match rs with
    | [] => (imp, [])
    | x :: t => let '(imp1, c1) := step_calls imp x in let '(imp2, c2) := all_calls t imp1 in (imp2, c1 ++ c2)
    end.

  Lemma run_callinits l : forall st,
    einits (snd (run vars (map ICallInit l) st)) = einits (snd st) ++ l.
  Proof.
    induction l as [|q l IH]; intros [s tr]; cbn [map run]; [rewrite app_nil_r; reflexivity|].
    rewrite IH. cbn [run_instr snd]. rewrite einits_app. cbn [einits].
    rewrite (einits_none (map (EInitVar q) (vars q))).
    - rewrite <- app_assoc. reflexivity.
    - intros q' H. apply in_map_iff in H. destruct H as [n [H _]]. discriminate.
  Qed.

  Lemma run_noinit code : noinit_l code -> forall st, einits (snd (run vars code st)) = einits (snd st).
  Proof.
    intros Hn st. destruct (run_grows vars code st) as [new [E Hnew]]. rewrite E, einits_app.
    rewrite (einits_none new); [apply app_nil_r|]. intros q H. exact (Hn q (Hnew _ H)).
  Qed.

  Lemma cov_after_emit imp x : cov (fst (emit_import G fuel imp (concat (nested_imports x)))) x.
  Proof.
    intros ms m y Hms Hm Hy. unfold emit_import.
    apply (proj2 (emit_import_contains G fuel (concat (nested_imports x)) (imp, [])) m y); [|exact Hy].
    apply in_concat. exists ms. auto.
  Qed.

  Lemma hoist_main x c : (forall l ms, x <> RImport l ms) ->
    hoist G fuel true x c =
    (mkC (fst (emit_import G fuel (c_imp c) (concat (nested_imports x)))) (c_fns c),
     map ICallInit (snd (emit_import G fuel (c_imp c) (concat (nested_imports x))))).
  Proof.
    intros H. unfold hoist. destruct x; try (exfalso; eapply H; reflexivity); rewrite hoist_eq; reflexivity.
  Qed.

  (* one top-level statement of the main module *)
  Lemma top_step_main x c c0 h c' a :
    cfn_ok c -> hoist G fuel true x c = (c0, h) -> cstmt true false x c0 = (c', a) ->
    c_imp c' = fst (step_calls (c_imp c) x) /\ cfn_ok c' /\
    forall st, einits (snd (run vars (h ++ a) st)) = einits (snd st) ++ snd (step_calls (c_imp c) x).
  Proof.
    intros Hc Hh Ea. unfold step_calls.
    assert (Himp : (exists l ms, x = RImport l ms) \/ (forall l ms, x <> RImport l ms)).
    { destruct x; try (right; intros; discriminate). left; eauto. }
    destruct Himp as [[line [ms ->]]|Hni].
    - cbn [hoist] in Hh. injection Hh as <- <-. cbn [compile_stmt nested_imports concat] in *. rewrite app_nil_r.
      destruct (emit_import G fuel (c_imp c) ms) as [imp' cs]. injection Ea as <- <-. cbn [c_imp fst snd app].
      split; [reflexivity|split; [exact Hc|]]. intros st. apply run_callinits.
    - rewrite (hoist_main x c Hni) in Hh. injection Hh as <- <-.
      pose proof (cov_after_emit (c_imp c) x) as Hcov.
      destruct (emit_import G fuel (c_imp c) (concat (nested_imports x))) as [imp' cs] eqn:Ee. cbn [fst snd] in *.
      destruct (compile_cov _ _ _ _ _ _ (Hcov : cov (c_imp (mkC imp' (c_fns c))) x) (Hc : cfn_ok (mkC imp' (c_fns c))) Ea) as [H1 [H2 H3]].
      split; [exact H1|split; [exact H3|]]. intros st. rewrite run_app, (run_noinit _ H2). apply run_callinits.
  Qed.

  Lemma compile_top_main rs : forall c c' code,
    cfn_ok c -> compile_top G fuel p true ext rs c = (c', code) ->
    c_imp c' = fst (all_calls rs (c_imp c)) /\ cfn_ok c' /\
    forall st, einits (snd (run vars code st)) = einits (snd st) ++ snd (all_calls rs (c_imp c)).
  Proof.
    induction rs as [|x t IH]; intros c c' code Hc; cbn [compile_top all_calls].
    - intros E; injection E as <- <-. split; [reflexivity|split; [exact Hc|]]. intros st. cbn. rewrite app_nil_r. reflexivity.
    - destruct (hoist G fuel true x c) as [c0 h] eqn:Eh.
      destruct (cstmt true false x c0) as [c1 a1] eqn:E1.
      destruct (compile_top G fuel p true ext t c1) as [c2 a2] eqn:E2.
      intros E; injection E as <- <-.
      destruct (top_step_main _ _ _ _ _ _ Hc Eh E1) as [Hi1 [Hc1 Hr1]].
      destruct (step_calls (c_imp c) x) as [imp1 cs1] eqn:Es. cbn [fst snd] in *.
      destruct (IH _ _ _ Hc1 E2) as [Hi2 [Hc2 Hr2]]. rewrite Hi1 in *.
      destruct (all_calls t imp1) as [imp2 cs2] eqn:Ea. cbn [fst snd] in *.
      split; [exact Hi2|split; [exact Hc2|]].
      intros st. rewrite app_assoc, run_app, Hr2, Hr1, app_assoc. reflexivity.
  Qed.

  Lemma hoist_nonmain_decl x c : (exists l d b, x = RDecl l d b) ->
    hoist G fuel false x c = (mkC (fst (emit_import G fuel (c_imp c) (concat (nested_imports x)))) (c_fns c), []).
  Proof. intros [l [d [b ->]]]. unfold hoist. rewrite hoist_eq. reflexivity. Qed.

  (* imported modules: the function table only ever holds init-free code, and no top-level code is emitted at all *)
  Lemma compile_top_nonmain rs : forall c c' code,
    cfn_ok c -> compile_top G fuel p false ext rs c = (c', code) -> cfn_ok c' /\ code = [].
  Proof.
    induction rs as [|x t IH]; intros c c' code Hc; cbn [compile_top].
    - intros E; injection E as <- <-. auto.
    - destruct (hoist G fuel false x c) as [c0 h] eqn:Eh.
      destruct (cstmt false false x c0) as [c1 a1] eqn:E1.
      destruct (compile_top G fuel p false ext t c1) as [c2 a2] eqn:E2.
      intros E; injection E as <- <-.
      assert (Hs : cfn_ok c1 /\ h = [] /\ a1 = []).
      { assert (Hd : (exists l d b, x = RDecl l d b) \/ (forall l d b, x <> RDecl l d b)).
        { destruct x; try (right; intros; discriminate). left; eauto. }
        destruct Hd as [Hd|Hnd].
        - rewrite (hoist_nonmain_decl x c Hd) in Eh. injection Eh as <- <-.
          pose proof (cov_after_emit (c_imp c) x) as Hcov.
          destruct (emit_import G fuel (c_imp c) (concat (nested_imports x))) as [imp' cs]. cbn [fst] in *.
          destruct (compile_cov _ _ _ _ _ _ (Hcov : cov (c_imp (mkC imp' (c_fns c))) x) (Hc : cfn_ok (mkC imp' (c_fns c))) E1) as [_ [_ H3]].
          split; [exact H3|split; [reflexivity|]].
          destruct Hd as [l [d [b ->]]]. cbn [compile_stmt] in E1. destruct (d_kind d).
          + match type of E1 with context [let '(_, _) := ?e in _] => destruct e end. injection E1 as _ <-. reflexivity.
          + injection E1 as _ <-. reflexivity.
          + injection E1 as _ <-. reflexivity.
          + injection E1 as _ <-. reflexivity.
        - destruct x as [line ms|line d body|line k e|tg|ct body]; [|exfalso; eapply Hnd; reflexivity| | |]; cbn [hoist] in Eh;
            injection Eh as <- <-; cbn [compile_stmt] in E1.
          + destruct (emit_import G fuel (c_imp c) ms). injection E1 as <- <-. auto.
          + injection E1 as <- <-. auto.
          + injection E1 as <- <-. auto.
          + injection E1 as <- <-. auto. }
      destruct Hs as [Hc1 [-> ->]]. destruct (IH _ _ _ Hc1 E2) as [Hc2 ->]. auto.
  Qed.
End CompileFacts.

(* ---------------------------------------------------------------------------------------------
   all calls of a main module *)
Definition top_targets (rs : list rstmt) : list path := flat_map (fun x => concat (nested_imports x)) rs.

Section AllCalls.
  Variable G : path -> list path.
  Variable rk : path -> nat.
  Hypothesis Hrk : forall m n, In n (G m) -> rk n < rk m.
  Variable fuel : nat.
  Hypothesis Hfuel : forall m, rk m < fuel.

  Lemma all_calls_spec rs : forall imp calls0,
    einv G (imp, calls0) ->
    einv G (fst (all_calls G fuel rs imp), calls0 ++ snd (all_calls G fuel rs imp)) /\
    (forall x, In x imp -> In x (fst (all_calls G fuel rs imp))) /\
    (forall m x, In m (top_targets rs) -> reach G m x -> In x (fst (all_calls G fuel rs imp))) /\
    (forall x, In x (snd (all_calls G fuel rs imp)) -> exists m, In m (top_targets rs) /\ reach G m x).
  Proof.
    induction rs as [|s rs IH]; intros imp calls0 Hinv; cbn [all_calls top_targets flat_map].
    - cbn [fst snd]. rewrite app_nil_r. split; [exact Hinv|split; [auto|split; [intros m x []|intros x []]]].
    - set (ms := concat (nested_imports s)).
      assert (Hstep : einv G (fst (step_calls G fuel imp s), calls0 ++ snd (step_calls G fuel imp s)) /\
                      (forall x, In x imp -> In x (fst (step_calls G fuel imp s))) /\
                      (forall m x, In m ms -> reach G m x -> In x (fst (step_calls G fuel imp s))) /\
                      (forall x, In x (snd (step_calls G fuel imp s)) -> exists m, In m ms /\ reach G m x)).
      { unfold step_calls. fold ms. unfold emit_import.
        pose proof (emit_import_shift G fuel ms imp calls0 []) as Hs. rewrite app_nil_r in Hs.
        destruct (emit_import_spec G rk Hrk fuel Hfuel ms imp calls0 Hinv) as [H1 [H2 [H3 [new [En Hn]]]]].
        rewrite Hs in H1, H2, H3, En. cbn [fst snd] in *.
        split; [exact H1|split; [exact H2|split; [exact H3|]]].
        apply app_inv_head in En. rewrite En. exact Hn. }
      destruct Hstep as [Hi1 [Hk1 [Ha1 Hn1]]].
      destruct (step_calls G fuel imp s) as [imp1 c1] eqn:Es. cbn [fst snd] in *.
      destruct (IH imp1 (calls0 ++ c1) Hi1) as [Hi2 [Hk2 [Ha2 Hn2]]].
      destruct (all_calls G fuel rs imp1) as [imp2 c2] eqn:Ea. cbn [fst snd] in *.
      rewrite <- app_assoc in Hi2.
      split; [exact Hi2|split; [auto|split]].
      + intros m x Hm Hx. apply in_app_or in Hm. destruct Hm as [Hm|Hm]; [apply Hk2; eapply Ha1; eauto|eapply Ha2; eauto].
      + intros x Hx. apply in_app_or in Hx. destruct Hx as [Hx|Hx].
        * destruct (Hn1 _ Hx) as [m [Hm Hr]]. exists m. split; [apply in_or_app; left; exact Hm|exact Hr].
        * destruct (Hn2 _ Hx) as [m [Hm Hr]]. exists m. split; [apply in_or_app; right; exact Hm|exact Hr].
  Qed.

  Lemma all_calls_main rs :
    let calls := snd (all_calls G fuel rs []) in
    NoDup calls /\ ordered G calls /\ (forall x, In x calls <-> exists m, In m (top_targets rs) /\ reach G m x).
  Proof.
    assert (H0 : einv G ([], [])).
    { split; [cbn; tauto|split; [|constructor]]. intros l1 x l2 E. destruct l1; discriminate. }
    destruct (all_calls_spec rs [] [] H0) as [[Hic [Ho Hnd]] [_ [Ha Hn]]]. cbn [app fst snd] in *.
    split; [exact Hnd|split; [exact Ho|]]. intros x. split; [apply Hn|].
    intros [m [Hm Hr]]. apply Hic. eapply Ha; eauto.
  Qed.
End AllCalls.

(* ---------------------------------------------------------------------------------------------
   whole programs *)
Lemma resolve_stmts_app fs inst p res ld a : forall b s,
  resolve_stmts fs inst p res ld (a ++ b) s =
  let '(s1, r1) := resolve_stmts fs inst p res ld a s in
  let '(s2, r2) := resolve_stmts fs inst p res ld b s1 in (s2, r1 ++ r2).
Proof.
  induction a as [|y t IH]; intros b s; cbn [app resolve_stmts].
  - destruct (resolve_stmts fs inst p res ld b s); reflexivity.
  - destruct (resolve_stmt fs inst p res ld y s) as [s1 r1]. rewrite IH.
    destruct (resolve_stmts fs inst p res ld t s1) as [s2 r2].
    destruct (resolve_stmts fs inst p res ld b s2) as [s3 r3]. reflexivity.
Qed.

Lemma resolve_import_snd fs inst p res ld i s :
  snd (resolve_import fs inst p res ld i s) =
  RImport (i_line i) (match lookup (i_line i) res with Some ms => ms | None => [] end).
Proof.
  unfold resolve_import.
  repeat match goal with |- context [let '(_, _) := ?e in _] => destruct e end. reflexivity.
Qed.

Lemma resolve_single_import fs inst p res ld i s :
  snd (resolve_stmts fs inst p res ld [SImport i] s) =
  [RImport (i_line i) (match lookup (i_line i) res with Some ms => ms | None => [] end)].
Proof.
  cbn [resolve_stmts resolve_stmt]. pose proof (resolve_import_snd fs inst p res ld i s) as H.
  destruct (resolve_import fs inst p res ld i s) as [s1 r1]. cbn [snd] in *. rewrite H. reflexivity.
Qed.


Lemma compile_top_app G fuel p is_main ext a : forall b c,
  compile_top G fuel p is_main ext (a ++ b) c =
  let '(c1, x1) := compile_top G fuel p is_main ext a c in
  let '(c2, x2) := compile_top G fuel p is_main ext b c1 in (c2, x1 ++ x2).
Proof.
  induction a as [|y t IH]; intros b c; cbn [app compile_top].
  - destruct (compile_top G fuel p is_main ext b c); reflexivity.
  - destruct (hoist G fuel is_main y c) as [c0 h].
    destruct (compile_stmt G fuel p ext is_main false y c0) as [c1 x1]. rewrite IH.
    destruct (compile_top G fuel p is_main ext t c1) as [c2 x2].
    destruct (compile_top G fuel p is_main ext b c2) as [c3 x3]. rewrite <- !app_assoc. reflexivity.
Qed.

Section ProgramFacts.
  Variable fs : fsys.
  Variable root : path.

  Notation Gr := (graph fs root).
  Notation fuel := (dfs_fuel fs root).
  Notation rk := (rank (l_map (L fs root))).

  Lemma graph_rank m n : In n (Gr m) -> rk n < rk m.
  Proof.
    intros Hn. apply rank_edge; [apply (load_wf fs root)|].
    unfold graph, res_of in Hn. fold (L fs root).
    destruct (lookup m (l_map (L fs root))) as [[r|]|] eqn:E; cbn in Hn; try contradiction.
    exists r. split; [exact E|exact Hn].
  Qed.

  Lemma rank_fuel m : rk m < fuel.
  Proof. unfold dfs_fuel. pose proof (rank_le (l_map (L fs root)) m). lia. Qed.

  Definition main_rs : list rstmt := snd (resolve_of fs root root).
  (* the modules all import statements of the root (top-level or nested) resolved to *)
  Definition main_targets : list path := top_targets main_rs.
  Definition calls : list path := snd (all_calls Gr fuel main_rs []).

  Lemma cfn_ok_init : cfn_ok (mkC [] []).
  Proof. intros n b H. discriminate. Qed.

  Lemma fn_code_noinit : forall q n, noinit_l (fn_code fs root q n).
  Proof.
    intros q n. unfold fn_code, compile_module.
    destruct (compile_top Gr fuel q false (fun _ _ => []) (snd (resolve_of fs root q)) (mkC [] [])) as [c' code] eqn:E.
    cbn [fst]. destruct (lookup n (c_fns c')) as [b|] eqn:El; [|intros x []].
    refine (proj1 (compile_top_nonmain Gr fuel q (fun _ _ => []) _ _ _ _ _ cfn_ok_init E) n b El).
    intros q0 n0 x [].
  Qed.

  Lemma trace_einits : einits (trace fs root) = calls.
  Proof.
    unfold trace, main_code, compile_module, calls, main_rs.
    destruct (compile_top Gr fuel root true (fn_code fs root) (snd (resolve_of fs root root)) (mkC [] [])) as [c' code] eqn:E.
    cbn [snd].
    destruct (compile_top_main Gr fuel root (fn_code fs root) (vars_of fs) fn_code_noinit _ _ _ _ cfn_ok_init E) as [_ [_ Hr]].
    rewrite Hr. reflexivity.
  Qed.

  (* C10: each module's initialiser runs at most once *)
  Theorem init_once : NoDup (einits (trace fs root)).
  Proof. rewrite trace_einits. exact (proj1 (all_calls_main Gr rk graph_rank fuel rank_fuel main_rs)). Qed.

  (* C10: exactly the modules reachable from the root's import statements are initialised *)
  Theorem init_covers : forall q,
    In (EInit q) (trace fs root) <-> exists m, In m main_targets /\ reach Gr m q.
  Proof.
    intros q. rewrite <- einits_In, trace_einits.
    exact (proj2 (proj2 (all_calls_main Gr rk graph_rank fuel rank_fuel main_rs)) q).
  Qed.

  (* C10: a module is initialised after every module it imports *)
  Theorem init_deps_first : forall l1 q l2 q',
    trace fs root = l1 ++ EInit q :: l2 -> In q' (Gr q) -> In (EInit q') l1.
  Proof.
    intros l1 q l2 q' Htr Hq'.
    pose proof (proj1 (proj2 (all_calls_main Gr rk graph_rank fuel rank_fuel main_rs))) as Ho.
    fold calls in Ho. rewrite <- trace_einits, Htr, einits_app in Ho. cbn [einits] in Ho.
    apply einits_In. eapply Ho; eauto.
  Qed.

  (* C10: when the statement after a top-level import starts, every module reachable through the import has been
     initialised *)
  Definition prefix_trace (pre : list stmt) : list event :=
    let rs := snd (resolve_stmts fs 0 root (main_res fs root) (l_diags (L fs root)) pre (init_p)) in
    snd (run (vars_of fs) (snd (compile_top Gr fuel root true (fn_code fs root) rs (mkC [] []))) ([], [])).

  Theorem init_before_following_code : forall s1 i s2,
    src_of fs root = s1 ++ SImport i :: s2 ->
    (exists tr2, trace fs root = prefix_trace (s1 ++ [SImport i]) ++ tr2) /\
    forall m x, In m (match lookup (i_line i) (main_res fs root) with Some ms => ms | None => [] end) ->
                reach Gr m x -> In (EInit x) (prefix_trace (s1 ++ [SImport i])).
  Proof.
    intros s1 i s2 Hsrc.
    unfold trace, main_code, compile_module, prefix_trace.
    unfold resolve_of. rewrite N.eqb_refl. unfold resolve_with, resolve_module. rewrite Hsrc.
    replace (s1 ++ SImport i :: s2) with ((s1 ++ [SImport i]) ++ s2) by (rewrite <- app_assoc; reflexivity).
    rewrite resolve_stmts_app.
    destruct (resolve_stmts fs 0 root (main_res fs root) (l_diags (L fs root)) (s1 ++ [SImport i]) init_p) as [st1 r1] eqn:E1.
    destruct (resolve_stmts fs 0 root (main_res fs root) (l_diags (L fs root)) s2 st1) as [st2 r2] eqn:E2.
    cbn [snd] in *. rewrite compile_top_app.
    destruct (compile_top Gr fuel root true (fn_code fs root) r1 (mkC [] [])) as [c1 x1] eqn:Ec1.
    destruct (compile_top Gr fuel root true (fn_code fs root) r2 c1) as [c2 x2] eqn:Ec2.
    cbn [snd]. rewrite run_app. split.
    - destruct (run_grows (vars_of fs) x2 (run (vars_of fs) x1 ([], []))) as [new [En _]]. eauto.
    - intros m x Hm Hx.
      destruct (compile_top_main Gr fuel root (fn_code fs root) (vars_of fs) fn_code_noinit _ _ _ _ cfn_ok_init Ec1) as [_ [_ Hr]].
      apply einits_In. rewrite Hr. cbn [snd einits app].
      apply (proj2 (proj2 (all_calls_main Gr rk graph_rank fuel rank_fuel r1))).
      exists m. split; [|exact Hx].
      rewrite resolve_stmts_app in E1.
      destruct (resolve_stmts fs 0 root (main_res fs root) (l_diags (L fs root)) s1 init_p) as [sa ra].
      pose proof (resolve_single_import fs 0 root (main_res fs root) (l_diags (L fs root)) i sa) as Hsi.
      destruct (resolve_stmts fs 0 root (main_res fs root) (l_diags (L fs root)) [SImport i] sa) as [sb rb].
      cbn [snd] in Hsi. subst rb. injection E1 as _ <-. unfold top_targets. rewrite flat_map_app. apply in_or_app. right.
      cbn [flat_map nested_imports concat]. rewrite !app_nil_r. exact Hm.
  Qed.

  (* C10: imported modules compile declarations only *)
  Theorem no_toplevel_code_of_imports q rs :
    snd (compile_module Gr fuel q false (fun _ _ => []) rs) = [].
  Proof.
    unfold compile_module.
    destruct (compile_top Gr fuel q false (fun _ _ => []) rs (mkC [] [])) as [c' code] eqn:E. cbn [snd].
    refine (proj2 (compile_top_nonmain Gr fuel q (fun _ _ => []) _ _ _ _ _ cfn_ok_init E)).
    intros q0 n0 x [].
  Qed.
End ProgramFacts.
