(* C10 — model of the module loader and of import visibility.
   Mirrors /repo/src/parser/parser.go:223-341 (resolveModuleImport, predefinedModules with a nil
   placeholder while a module is being parsed), parser/interface.go (Parse), ast/helper.go:90-139
   (IterateImportedDecls), parser/resolver/resolver.go:338-360 (VisitImportStmt) and the
   symbol-table / alias-table discipline around them.  Definitions only.

   Abstractions (stated in the evidence): absolute file and directory paths are numbers; a module
   is summarised by its statement tree (imports, declarations with kind/name/visibility, uses of
   names, marker statements, Wiederhole/Wenn blocks, function bodies); the directory walk of
   filepath.WalkDir is given as data (listing per directory, non-recursive and recursive); the
   import of "Duden/..." modules is outside the model. *)
From Coq Require Import List NArith Bool.
Import ListNotations.

Definition path := N.
Definition name := N.

Inductive kind := KFunc | KVar | KConst | KType.
Definition kind_eqb (a b : kind) : bool :=
  match a, b with KFunc, KFunc | KVar, KVar | KConst, KConst | KType, KType => true | _, _ => false end.

Record decl := mkDecl { d_name : name; d_kind : kind; d_public : bool }.

(* Binde "p" ein. | Binde a, b und c aus "p" ein. | Binde [rekursiv] alle Module aus "p" ein. *)
Inductive iform := IWhole | INamed (ns : list name) | IDir (recursive : bool).
Record import := mkImport { i_line : N; i_target : path; i_form : iform }.

Inductive ctrl := CRepeat (n : nat) | CIf (b : bool).

Inductive stmt :=
| SImport (i : import)
| SDecl (line : N) (d : decl) (body : list stmt)   (* body: function body, [] for the other kinds *)
| SUse (line : N) (n : name) (k : kind)            (* call the function / print the variable or constant / cast to the type *)
| SMark (t : N)                                    (* a printing statement *)
| SBlock (c : ctrl) (body : list stmt).

(* file system: module sources and directory listings (direct .ddp children, all .ddp descendants,
   both in filepath.WalkDir order) *)
Record fsys := mkFs { fs_files : list (path * list stmt); fs_dirs : list (path * (list path * list path)) }.

Fixpoint lookup {A : Type} (k : N) (l : list (N * A)) : option A :=
  match l with
  | [] => None
  | (k', v) :: t => if N.eqb k k' then Some v else lookup k t
  end.

Fixpoint memN (k : N) (l : list N) : bool :=
  match l with [] => false | x :: t => if N.eqb k x then true else memN k t end.

(* every import statement of a module in parse order (pre-order; nested ones included:
   resolveModuleImport appends to module.Imports wherever the statement stands) *)
Fixpoint imports_of_stmt (s : stmt) : list import :=
  match s with
  | SImport i => [i]
  | SDecl _ _ body => (fix go (l : list stmt) : list import := match l with [] => [] | x :: t => imports_of_stmt x ++ go t end) body
  | SBlock _ body => (fix go (l : list stmt) : list import := match l with [] => [] | x :: t => imports_of_stmt x ++ go t end) body
  | _ => []
  end.
Fixpoint imports_of (l : list stmt) : list import :=
  match l with [] => [] | x :: t => imports_of_stmt x ++ imports_of t end.

Definition targets (fs : fsys) (i : import) : list path :=
  match i_form i with
  | IDir r => match lookup (i_target i) (fs_dirs fs) with
              | Some (nr, rc) => if r then rc else nr
              | None => []
              end
  | _ => [i_target i]
  end.

(* ---------------------------------------------------------------------------------------------
   diagnostics (class only; the wording is not an observable) *)
Inductive dclass := DCircular | DLoadFail | DUndefined | DDefined | DAlias | DOther.
Definition dclass_eqb (a b : dclass) : bool :=
  match a, b with
  | DCircular, DCircular | DLoadFail, DLoadFail | DUndefined, DUndefined | DDefined, DDefined
  | DAlias, DAlias | DOther, DOther => true
  | _, _ => false
  end.
Definition include_class (c : dclass) : bool := match c with DCircular | DLoadFail => true | _ => false end.
(* dg_inst: which call of Parse delivered it (position in the parse log; 0 = the root). A file can be
   parsed twice (the root, when a cycle leads back to it) and each parser has its own panic mode. *)
Record diag := mkDiag { dg_inst : N; dg_file : path; dg_line : N; dg_class : dclass }.

Definition has_diag_at (inst : N) (line : N) (ds : list diag) : bool :=
  existsb (fun d => N.eqb (dg_inst d) inst && N.eqb (dg_line d) line) ds.

(* ---------------------------------------------------------------------------------------------
   the loader: Parse + resolveModuleImport on the import statements of each module *)
Definition resolved := list (N * list path).   (* import line -> importStmt.Modules *)

Record lstate := mkL {
  l_map : list (path * option resolved);   (* predefinedModules; None = nil placeholder *)
  l_diags : list diag;
  l_log : list path;                       (* every call of Parse that read a file, in order *)
  l_oof : bool                             (* model artefact: out of fuel (excluded by load_fuel_ok) *)
}.

Definition set_map (q : path) (v : option resolved) (g : lstate) : lstate :=
  mkL ((q, v) :: l_map g) (l_diags g) (l_log g) (l_oof g).
(* panic mode: only the first error of a statement is delivered *)
Definition add_diag (inst : N) (p : path) (line : N) (c : dclass) (g : lstate) : lstate :=
  if has_diag_at inst line (l_diags g) then g
  else mkL (l_map g) (l_diags g ++ [mkDiag inst p line c]) (l_log g) (l_oof g).
Definition add_log (p : path) (g : lstate) : lstate := mkL (l_map g) (l_diags g) (l_log g ++ [p]) (l_oof g).
Definition set_oof (g : lstate) : lstate := mkL (l_map g) (l_diags g) (l_log g) true.

Section Loader.
  Variable fs : fsys.

  (* resolveSingleModule; rs = the recursive Parse *)
  Definition resolve_single (rs : path -> lstate -> lstate * option resolved) (inst : N) (p : path) (line : N)
             (acc : lstate * list path) (q : path) : lstate * list path :=
    let '(g, ms) := acc in
    match lookup q (l_map g) with
    | None =>
        let '(g1, r) := rs q (set_map q None g) in
        match r with
        | Some res => (set_map q (Some res) g1, ms ++ [q])
        | None => (add_diag inst p line DLoadFail g1, ms)     (* the placeholder stays nil *)
        end
    | Some None => (add_diag inst p line DCircular g, ms)
    | Some (Some _) => (g, ms ++ [q])
    end.

  Definition load_import (rs : path -> lstate -> lstate * option resolved) (inst : N) (p : path)
             (acc : lstate * resolved) (i : import) : lstate * resolved :=
    let '(g, res) := acc in
    let '(g', ms) := fold_left (resolve_single rs inst p (i_line i)) (targets fs i) (g, []) in
    (g', res ++ [(i_line i, ms)]).

  Fixpoint parse (fuel : nat) (p : path) (g : lstate) : lstate * option resolved :=
    match fuel with
    | O => (set_oof g, None)
    | S f =>
        match lookup p (fs_files fs) with
        | None => (g, None)                               (* the file cannot be read: Parse returns an error *)
        | Some src =>
            let inst := N.of_nat (length (l_log g)) in
            let '(g', res) := fold_left (load_import (parse f) inst p) (imports_of src) (add_log p g, []) in
            (g', Some res)
        end
    end.

  Definition init_l : lstate := mkL [] [] [] false.
  Definition load_fuel : nat := S (S (length (fs_files fs))).
  (* parser.Parse on the root: the root is NOT entered into the module map *)
  Definition load (root : path) : lstate * option resolved := parse load_fuel root init_l.

  (* -------------------------------------------------------------------------------------------
     public interface of a module (Module.PublicDecls): top-level public declarations; a name is
     published once (later non-function duplicates do not replace it; a function is published only
     if its name was not declared before it) *)
  Fixpoint top_decls (l : list stmt) : list decl :=
    match l with
    | [] => []
    | SDecl _ d _ :: t => d :: top_decls t
    | _ :: t => top_decls t
    end.

  Fixpoint publish (seen : list name) (pub : list decl) (l : list decl) : list decl :=
    match l with
    | [] => pub
    | d :: t =>
        let dup_pub := existsb (fun e => N.eqb (d_name e) (d_name d)) pub in
        let add := d_public d && negb (match d_kind d with KFunc => memN (d_name d) seen | _ => dup_pub end) in
        publish (d_name d :: seen) (if add then pub ++ [d] else pub) t
    end.

  Definition public_of (q : path) : list decl :=
    match lookup q (fs_files fs) with
    | Some src => publish [] [] (top_decls src)
    | None => []
    end.

  Definition find_decl (n : name) (l : list decl) : option decl :=
    find (fun d => N.eqb (d_name d) n) l.

  (* IterateImportedDecls: (name, the declaration it denotes or None) in iteration order
     (the order of a whole import is the source order here; the real sort only permutes it) *)
  Definition imported_decls (i : import) (ms : list path) : list (name * option (path * decl)) :=
    match i_form i with
    | INamed ns =>
        match ms with
        | q :: _ => map (fun n => (n, match find_decl n (public_of q) with Some d => Some (q, d) | None => None end)) ns
        | [] => []        (* len(Modules)==0: the parser skips nil decls, the resolver returns early *)
        end
    | _ => flat_map (fun q => map (fun d => (d_name d, Some (q, d))) (public_of q)) ms
    end.

  (* -------------------------------------------------------------------------------------------
     resolver + the parser's alias table, per module *)
  Definition entry := (path * decl)%type.
  Definition table := list (name * entry).

  Record pstate := mkP {
    p_scopes : list table;          (* head = current scope; last = global scope *)
    p_aliases : table;              (* function aliases: global to the parser, never scoped *)
    p_diags : list diag
  }.

  Fixpoint lookup_scopes (n : name) (ss : list table) : option entry :=
    match ss with
    | [] => None
    | t :: r => match lookup n t with Some e => Some e | None => lookup_scopes n r end
    end.

  Definition insert_cur (n : name) (e : entry) (ss : list table) : list table :=
    match ss with
    | [] => [[(n, e)]]
    | t :: r => ((n, e) :: t) :: r
    end.
  Definition in_cur (n : name) (ss : list table) : bool :=
    match ss with [] => false | t :: _ => match lookup n t with Some _ => true | None => false end end.

  (* annotated statements handed to the code generator *)
  Inductive rstmt :=
  | RImport (line : N) (ms : list path)
  | RDecl (line : N) (d : decl) (body : list rstmt)
  | RUse (line : N) (k : kind) (e : option entry)
  | RMark (t : N)
  | RBlock (c : ctrl) (body : list rstmt).

  (* one import statement: the error candidates in the order the real code meets them
     (load errors were delivered by the loader; then addAliases; then the resolver) *)
  Definition import_alias_step (st : pstate * list dclass) (x : name * option entry) : pstate * list dclass :=
    let '(s, errs) := st in
    match x with
    | (n, Some (q, d)) =>
        match lookup_scopes n (p_scopes s) with
        | Some _ => st                                   (* "skip decls that are already defined" *)
        | None =>
            match d_kind d with
            | KFunc =>
                match lookup n (p_aliases s) with
                | Some _ => (s, errs ++ [DAlias])
                | None => (mkP (p_scopes s) ((n, (q, d)) :: p_aliases s) (p_diags s), errs)
                end
            | _ => st
            end
        end
    | (_, None) => st
    end.

  Definition import_resolve_step (st : pstate * list dclass) (x : name * option entry) : pstate * list dclass :=
    let '(s, errs) := st in
    match x with
    | (n, Some e) =>
        if in_cur n (p_scopes s) then (s, errs ++ [DDefined])
        else (mkP (insert_cur n e (p_scopes s)) (p_aliases s) (p_diags s), errs)
    | (_, None) => (s, errs ++ [DUndefined])
    end.

  Definition report (inst : N) (p : path) (line : N) (errs : list dclass) (s : pstate) : pstate :=
    match errs with
    | [] => s
    | c :: _ => if has_diag_at inst line (p_diags s) then s
                else mkP (p_scopes s) (p_aliases s) (p_diags s ++ [mkDiag inst p line c])
    end.

  Section Resolve.
    Variable inst : N.                     (* which call of Parse *)
    Variable p : path.                     (* the module being parsed *)
    Variable res : resolved.               (* its import statements as resolved by the loader *)
    Variable load_diags : list diag.

    Definition resolve_import (i : import) (s : pstate) : pstate * rstmt :=
      let ms := match lookup (i_line i) res with Some ms => ms | None => [] end in
      let ds := imported_decls i ms in
      (* the alias pass of one declaration sees the symbol table before the resolver pass of the statement *)
      let '(s1, e1) := fold_left import_alias_step ds (s, []) in
      let '(s2, e2) := fold_left import_resolve_step ds (s1, []) in
      let errs := e1 ++ e2 in
      let s3 := if has_diag_at inst (i_line i) load_diags then s2 else report inst p (i_line i) errs s2 in
      (s3, RImport (i_line i) ms).

    Definition push (s : pstate) : pstate := mkP ([] :: p_scopes s) (p_aliases s) (p_diags s).
    Definition pop (s : pstate) : pstate := mkP (tl (p_scopes s)) (p_aliases s) (p_diags s).
    Definition is_global (s : pstate) : bool := match p_scopes s with [_] => true | _ => false end.

    Fixpoint resolve_stmt (x : stmt) (s : pstate) {struct x} : pstate * rstmt :=
      match x with
      | SImport i => resolve_import i s
      | SDecl line d body =>
          match d_kind d with
          | KFunc =>
              (* early name check through all scopes, alias check, global-scope check; the name is
                 inserted before the body is parsed; the body has its own scope *)
              let errs :=
                (match lookup_scopes (d_name d) (p_scopes s) with Some _ => [DDefined] | None => [] end)
                ++ (match lookup (d_name d) (p_aliases s) with Some _ => [DAlias] | None => [] end)
                ++ (if is_global s then [] else [DOther]) in
              (* a taken name is only reported: the aliases are still registered and InsertDecl keeps the old
                 entry; a taken alias is skipped; outside the global scope the declaration is dropped *)
              let s0 :=
                if is_global s then
                  mkP (if in_cur (d_name d) (p_scopes s) then p_scopes s else insert_cur (d_name d) (p, d) (p_scopes s))
                      (match lookup (d_name d) (p_aliases s) with Some _ => p_aliases s | None => (d_name d, (p, d)) :: p_aliases s end)
                      (p_diags s)
                else s in
              let s1 := report inst p line errs s0 in
              let '(s2, rb) :=
                (fix go (l : list stmt) (s : pstate) : pstate * list rstmt :=
                   match l with
                   | [] => (s, [])
                   | y :: t => let '(s', r) := resolve_stmt y s in let '(s'', rs) := go t s' in (s'', r :: rs)
                   end) body (push s1) in
              (pop s2, RDecl line d rb)
          | _ =>
              let errs :=
                (if in_cur (d_name d) (p_scopes s) then [DDefined] else [])
                ++ (match d_kind d with KType => if is_global s then [] else [DOther] | _ => [] end)
                ++ (if d_public d && negb (is_global s) then [DOther] else []) in
              let s1 :=
                if in_cur (d_name d) (p_scopes s) then s
                else mkP (insert_cur (d_name d) (p, d) (p_scopes s)) (p_aliases s) (p_diags s) in
              (report inst p line errs s1, RDecl line d [])
          end
      | SUse line n k =>
          let e := match k with
                   | KFunc => lookup n (p_aliases s)          (* calls are found through the alias table *)
                   | _ => lookup_scopes n (p_scopes s)
                   end in
          match e with
          | Some (q, d) =>
              if kind_eqb (d_kind d) k then (s, RUse line k (Some (q, d)))
              else (report inst p line [DOther] s, RUse line k None)
          | None => (report inst p line [DUndefined] s, RUse line k None)
          end
      | SMark t => (s, RMark t)
      | SBlock c body =>
          let '(s2, rb) :=
            (fix go (l : list stmt) (s : pstate) : pstate * list rstmt :=
               match l with
               | [] => (s, [])
               | y :: t => let '(s', r) := resolve_stmt y s in let '(s'', rs) := go t s' in (s'', r :: rs)
               end) body (push s) in
          (pop s2, RBlock c rb)
      end.

    Fixpoint resolve_stmts (l : list stmt) (s : pstate) : pstate * list rstmt :=
      match l with
      | [] => (s, [])
      | y :: t => let '(s', r) := resolve_stmt y s in let '(s'', rs) := resolve_stmts t s' in (s'', r :: rs)
      end.

    Definition init_p : pstate := mkP [[]] [] [].
    Definition resolve_module (src : list stmt) : pstate * list rstmt := resolve_stmts src init_p.
  End Resolve.
End Loader.
