(* C10 — proofs about the loader model (Mod/Loader.v): termination within the fuel, every path parsed at
   most once through imports, module objects form a DAG, a cycle is diagnosed, an acyclic closed graph is not. *)
From Coq Require Import List NArith Bool Lia Relations PeanoNat.
Import ListNotations.
From DDP Require Import Mod.Loader.

Lemma memN_In (k : N) (l : list N) : memN k l = true <-> In k l.
Proof.
  induction l as [|x l IH]; cbn [memN In]; [split; [discriminate|tauto]|].
  destruct (N.eqb_spec k x) as [->|Hne]; [tauto|].
  rewrite IH. split; [tauto|]. intros [H|H]; [congruence|exact H].
Qed.

Lemma lookup_In {A : Type} (k : N) (l : list (N * A)) (v : A) : lookup k l = Some v -> In (k, v) l.
Proof.
  induction l as [|[k' v'] l IH]; cbn [lookup]; [discriminate|].
  destruct (N.eqb_spec k k') as [->|Hne]; intros H; [injection H as ->; left; reflexivity|right; auto].
Qed.

Lemma lookup_none_keys {A : Type} (k : N) (l : list (N * A)) : lookup k l = None <-> ~ In k (map fst l).
Proof.
  induction l as [|[k' v'] l IH]; cbn [lookup map fst In]; [tauto|].
  destruct (N.eqb_spec k k') as [->|Hne]; [split; [discriminate|intros H; exfalso; apply H; left; reflexivity]|].
  rewrite IH. split; [intros H [E|E]; [congruence|tauto]|tauto].
Qed.

(* ---------------------------------------------------------------------------------------------
   what every step of the loader preserves *)
Record mono (g g' : lstate) : Prop := mkMono {
  mo_keep : forall q, lookup q (l_map g) <> None -> lookup q (l_map g') = lookup q (l_map g);
  mo_oof : l_oof g = true -> l_oof g' = true;
  mo_diags : exists d, l_diags g' = l_diags g ++ d;
  mo_log : exists t, l_log g' = l_log g ++ t
}.

Lemma mono_refl g : mono g g.
Proof. split; auto; exists []; rewrite app_nil_r; reflexivity. Qed.

Lemma mono_trans g1 g2 g3 : mono g1 g2 -> mono g2 g3 -> mono g1 g3.
Proof.
  intros [k1 o1 [d1 D1] [t1 T1]] [k2 o2 [d2 D2] [t2 T2]]. split.
  - intros q Hq. rewrite k2, k1; auto. rewrite k1; auto.
  - auto.
  - exists (d1 ++ d2). rewrite D2, D1, app_assoc. reflexivity.
  - exists (t1 ++ t2). rewrite T2, T1, app_assoc. reflexivity.
Qed.

Lemma mono_set_map_fresh q v g : lookup q (l_map g) = None -> mono g (set_map q v g).
Proof.
  intros Hq. split; cbn; auto; try (exists []; rewrite app_nil_r; reflexivity).
  intros q' Hq'. destruct (N.eqb_spec q' q) as [->|]; [congruence|reflexivity].
Qed.

Lemma mono_add_diag i p line c g : mono g (add_diag i p line c g).
Proof.
  unfold add_diag. destruct (has_diag_at i line (l_diags g)); [apply mono_refl|].
  split; cbn; auto; [eexists; reflexivity|exists []; rewrite app_nil_r; reflexivity].
Qed.

Lemma mono_add_log p g : mono g (add_log p g).
Proof. split; cbn; auto; [exists []; rewrite app_nil_r; reflexivity|eexists; reflexivity]. Qed.

Lemma mono_set_oof g : mono g (set_oof g).
Proof. split; cbn; auto; exists []; rewrite app_nil_r; reflexivity. Qed.

Lemma add_diag_map i p line c g : l_map (add_diag i p line c g) = l_map g.
Proof. unfold add_diag. destruct (has_diag_at _ _ _); reflexivity. Qed.
Lemma add_diag_log i p line c g : l_log (add_diag i p line c g) = l_log g.
Proof. unfold add_diag. destruct (has_diag_at _ _ _); reflexivity. Qed.
Lemma add_diag_oof i p line c g : l_oof (add_diag i p line c g) = l_oof g.
Proof. unfold add_diag. destruct (has_diag_at _ _ _); reflexivity. Qed.
Lemma add_diag_nonempty i p line c g : l_diags (add_diag i p line c g) <> [].
Proof.
  unfold add_diag. destruct (has_diag_at i line (l_diags g)) eqn:E; cbn.
  - destruct (l_diags g); [cbn in E; discriminate|discriminate].
  - destruct (l_diags g); discriminate.
Qed.

Ltac dfoldg g r E :=
  match goal with
  | |- context [fold_left ?f ?l ?a] => destruct (fold_left f l a) as [g r] eqn:E
  end.

Section Proofs.
  Variable fs : fsys.

  Notation RS := (path -> lstate -> lstate * option resolved).

  Definition rs_mono (rs : RS) : Prop := forall q g g' r, rs q g = (g', r) -> mono g g'.

  Lemma resolve_single_mono rs inst p line g ms q g' ms' :
    rs_mono rs -> resolve_single rs inst p line (g, ms) q = (g', ms') -> mono g g'.
  Proof.
    intros Hrs. unfold resolve_single.
    destruct (lookup q (l_map g)) as [[r|]|] eqn:Hq.
    - intros E; injection E as <- <-. apply mono_refl.
    - intros E; injection E as <- <-. apply mono_add_diag.
    - destruct (rs q (set_map q None g)) as [g1 [res|]] eqn:E1; intros E; injection E as <- <-.
      + pose proof (mono_trans _ _ _ (mono_set_map_fresh q None g Hq) (Hrs _ _ _ _ E1)) as [k o d t].
        split; cbn; auto.
        intros q' Hq'. destruct (N.eqb_spec q' q) as [->|Hne]; [congruence|]. apply k; exact Hq'.
      + eapply mono_trans; [apply (mono_set_map_fresh q None g Hq)|].
        eapply mono_trans; [exact (Hrs _ _ _ _ E1)|apply mono_add_diag].
  Qed.

  Lemma fold_resolve_single_mono rs inst p line l g ms g' ms' :
    rs_mono rs -> fold_left (resolve_single rs inst p line) l (g, ms) = (g', ms') -> mono g g'.
  Proof.
    intros Hrs. revert g ms. induction l as [|q l IH]; intros g ms; cbn [fold_left].
    - intros E; injection E as <- <-. apply mono_refl.
    - destruct (resolve_single rs inst p line (g, ms) q) as [g1 ms1] eqn:E1. intros E.
      eapply mono_trans; [eapply resolve_single_mono; eauto|eapply IH; eauto].
  Qed.

  Lemma load_import_inv rs inst p g res i g1 res1 :
    load_import fs rs inst p (g, res) i = (g1, res1) ->
    exists ms, fold_left (resolve_single rs inst p (i_line i)) (targets fs i) (g, []) = (g1, ms) /\
               res1 = res ++ [(i_line i, ms)].
  Proof.
    unfold load_import. dfoldg g2 ms E1. intros E; injection E as <- <-. eauto.
  Qed.

  Lemma load_import_mono rs inst p g res i g' res' :
    rs_mono rs -> load_import fs rs inst p (g, res) i = (g', res') -> mono g g'.
  Proof.
    intros Hrs. unfold load_import. dfoldg g1 ms E1. intros E; injection E as <- <-.
    eapply fold_resolve_single_mono; eauto.
  Qed.

  Lemma fold_load_import_mono rs inst p l g res g' res' :
    rs_mono rs -> fold_left (load_import fs rs inst p) l (g, res) = (g', res') -> mono g g'.
  Proof.
    intros Hrs. revert g res. induction l as [|i l IH]; intros g res; cbn [fold_left].
    - intros E; injection E as <- <-. apply mono_refl.
    - destruct (load_import fs rs inst p (g, res) i) as [g1 res1] eqn:E1. intros E.
      eapply mono_trans; [eapply load_import_mono; eauto|eapply IH; eauto].
  Qed.

  Lemma parse_S f p g :
    parse fs (S f) p g =
    match lookup p (fs_files fs) with
    | None => (g, None)
    | Some src =>
        let '(g', res) := fold_left (load_import fs (parse fs f) (N.of_nat (length (l_log g))) p) (imports_of src) (add_log p g, []) in
        (g', Some res)
    end.
  Proof. reflexivity. Qed.

  Lemma parse_mono fuel : rs_mono (parse fs fuel).
  Proof.
    induction fuel as [|f IH]; intros q g g' r; [cbn [parse]|rewrite parse_S].
    - intros E; injection E as <- <-. apply mono_set_oof.
    - destruct (lookup q (fs_files fs)) as [src|].
      + dfoldg g1 res E1. intros E; injection E as <- <-.
        eapply mono_trans; [apply mono_add_log|eapply fold_load_import_mono; eauto].
      + intros E; injection E as <- <-. apply mono_refl.
  Qed.

  (* -------------------------------------------------------------------------------------------
     fuel: the number of files bounds the nesting depth *)
  Definition files : list path := map fst (fs_files fs).
  Definition keys (g : lstate) : list path := map fst (l_map g).

  (* l lists (at least) the existing files that have no entry in the map yet *)
  Definition covers (l : list path) (g : lstate) : Prop :=
    forall x, In x files -> ~ In x (keys g) -> In x l.

  Lemma in_keys_lookup g x : In x (keys g) <-> lookup x (l_map g) <> None.
  Proof.
    unfold keys. pose proof (lookup_none_keys x (l_map g)) as H.
    destruct (lookup x (l_map g)); split; intros; try congruence.
    - destruct (in_dec N.eq_dec x (map fst (l_map g))) as [i|n]; [exact i|]. apply H in n. discriminate.
    - exfalso. apply (proj1 H); auto.
  Qed.

  Lemma keys_mono g g' x : mono g g' -> In x (keys g) -> In x (keys g').
  Proof.
    intros [k _ _ _] Hin. apply in_keys_lookup. apply in_keys_lookup in Hin. rewrite k; auto.
  Qed.

  Lemma covers_mono l g g' : mono g g' -> covers l g -> covers l g'.
  Proof.
    intros Hm Hc x Hx Hn. apply Hc; [exact Hx|]. intros Hin. apply Hn. eapply keys_mono; eauto.
  Qed.

  Lemma NoDup_remove_N (x : N) (l : list N) : NoDup l -> NoDup (remove N.eq_dec x l).
  Proof.
    induction 1 as [|y l Hy Hnd IH]; cbn [remove]; [constructor|].
    destruct (N.eq_dec x y); [exact IH|]. constructor; [|exact IH].
    intros Hin. apply in_remove in Hin. tauto.
  Qed.

  (* rs returns at once on a missing file, and does not run out of fuel on an existing one as long as fewer
     than n existing files are still without an entry *)
  Definition rs_fuel_ok (rs : RS) (n : nat) : Prop :=
    (forall q g, lookup q (fs_files fs) = None -> rs q g = (g, None)) /\
    (forall q g l, lookup q (fs_files fs) <> None -> l_oof g = false -> NoDup l -> covers l g -> length l < n ->
                   In q (keys g) -> l_oof (fst (rs q g)) = false).

  Lemma lookup_files_in q : lookup q (fs_files fs) <> None -> In q files.
  Proof.
    intros H. unfold files. destruct (lookup q (fs_files fs)) eqn:E; [|congruence].
    apply lookup_In in E. apply (in_map fst) in E. exact E.
  Qed.

  Lemma resolve_single_fuel rs n inst p line g ms q l g' ms' :
    rs_mono rs -> rs_fuel_ok rs n ->
    l_oof g = false -> NoDup l -> covers l g -> length l <= n ->
    resolve_single rs inst p line (g, ms) q = (g', ms') -> l_oof g' = false.
  Proof.
    intros Hm [Hmiss Hrs] Ho Hnd Hc Hlen. unfold resolve_single.
    destruct (lookup q (l_map g)) as [[r|]|] eqn:Hq.
    - intros E; injection E as <- <-; auto.
    - intros E; injection E as <- <-. rewrite add_diag_oof. auto.
    - destruct (lookup q (fs_files fs)) eqn:Hf.
      + assert (Hin : In q l).
        { apply Hc; [apply lookup_files_in; congruence|]. apply lookup_none_keys. exact Hq. }
        assert (Hstep : l_oof (fst (rs q (set_map q None g))) = false).
        { apply (Hrs q (set_map q None g) (remove N.eq_dec q l)); auto.
          - congruence.
          - apply NoDup_remove_N; exact Hnd.
          - intros x Hx Hn. apply in_in_remove.
            + intros ->. apply Hn. cbn. left; reflexivity.
            + apply Hc; [exact Hx|]. intros Hk. apply Hn. cbn. right. exact Hk.
          - eapply Nat.lt_le_trans; [apply (remove_length_lt N.eq_dec l q Hin)|exact Hlen].
          - cbn. left; reflexivity. }
        destruct (rs q (set_map q None g)) as [g1 [res|]]; cbn [fst] in *; intros E; injection E as <- <-; auto.
        rewrite add_diag_oof. auto.
      + rewrite (Hmiss q (set_map q None g) Hf). intros E; injection E as <- <-.
        rewrite add_diag_oof. auto.
  Qed.

  Lemma fold_resolve_single_fuel rs n inst p line ts g ms l g' ms' :
    rs_mono rs -> rs_fuel_ok rs n ->
    l_oof g = false -> NoDup l -> covers l g -> length l <= n ->
    fold_left (resolve_single rs inst p line) ts (g, ms) = (g', ms') -> l_oof g' = false.
  Proof.
    intros Hm Hrs. revert g ms. induction ts as [|q ts IH]; intros g ms Ho Hnd Hc Hlen; cbn [fold_left].
    - intros E; injection E as <- <-; auto.
    - destruct (resolve_single rs inst p line (g, ms) q) as [g1 ms1] eqn:E1. intros E.
      apply (IH g1 ms1); auto.
      + eapply resolve_single_fuel; eauto.
      + eapply covers_mono; [eapply resolve_single_mono; eauto|eauto].
  Qed.

  Lemma fold_load_import_fuel rs n inst p is g res l g' res' :
    rs_mono rs -> rs_fuel_ok rs n ->
    l_oof g = false -> NoDup l -> covers l g -> length l <= n ->
    fold_left (load_import fs rs inst p) is (g, res) = (g', res') -> l_oof g' = false.
  Proof.
    intros Hm Hrs. revert g res. induction is as [|i is IH]; intros g res Ho Hnd Hc Hlen; cbn [fold_left].
    - intros E; injection E as <- <-; auto.
    - destruct (load_import fs rs inst p (g, res) i) as [g1 res1] eqn:E1. intros E.
      destruct (load_import_inv _ _ _ _ _ _ _ _ E1) as [ms [E2 ->]].
      apply (IH g1 (res ++ [(i_line i, ms)])); auto.
      + eapply fold_resolve_single_fuel; eauto.
      + eapply covers_mono; [eapply fold_resolve_single_mono; eauto|eauto].
  Qed.

  Lemma parse_fuel_ok f : rs_fuel_ok (parse fs (S f)) f.
  Proof.
    induction f as [|f IH]; split.
    - intros q g Hf. rewrite parse_S, Hf. reflexivity.
    - intros q g l _ _ _ _ Hlen. lia.
    - intros q g Hf. rewrite parse_S, Hf. reflexivity.
    - intros q g l Hf Ho Hnd Hc Hlen Hq. rewrite parse_S.
      destruct (lookup q (fs_files fs)) as [src|]; [|congruence].
      dfoldg g' res E1. cbn [fst].
      refine (fold_load_import_fuel (parse fs (S f)) f _ _ _ _ _ l _ _ (parse_mono _) IH _ Hnd _ _ E1).
      + exact Ho.
      + eapply covers_mono; [apply mono_add_log|exact Hc].
      + lia.
  Qed.

  Lemma nodup_length_le (l : list N) : length (nodup N.eq_dec l) <= length l.
  Proof.
    induction l as [|x l IH]; cbn [nodup length]; [lia|]. destruct (in_dec N.eq_dec x l); cbn [length]; lia.
  Qed.

  Theorem load_fuel_ok (root : path) : l_oof (fst (load fs root)) = false.
  Proof.
    unfold load, load_fuel. rewrite parse_S.
    destruct (lookup root (fs_files fs)) as [src|]; [|reflexivity].
    dfoldg g' res E1. cbn [fst].
    refine (fold_load_import_fuel (parse fs (S (length (fs_files fs)))) (length (fs_files fs)) _ _ _ _ _
             (nodup N.eq_dec files) _ _ (parse_mono _) (parse_fuel_ok _) _ _ _ _ E1).
    - reflexivity.
    - apply NoDup_nodup.
    - intros x Hx _. apply nodup_In. exact Hx.
    - eapply Nat.le_trans; [apply nodup_length_le|]. unfold files. rewrite map_length. apply Nat.le_refl.
  Qed.

  (* -------------------------------------------------------------------------------------------
     every path is parsed at most once through imports (the log without its head has no duplicates) *)
  Lemma NoDup_snoc (l : list N) (x : N) : NoDup l -> ~ In x l -> NoDup (l ++ [x]).
  Proof.
    induction 1 as [|y l Hy Hnd IH]; intros Hx; cbn [app]; [constructor; [tauto|constructor]|].
    constructor.
    - intros Hin. apply in_app_or in Hin. destruct Hin as [Hin|[->|[]]]; [tauto|]. apply Hx. left; reflexivity.
    - apply IH. intros Hin. apply Hx. right; exact Hin.
  Qed.

  Definition logok (g : lstate) : Prop :=
    NoDup (tl (l_log g)) /\ (forall x, In x (tl (l_log g)) -> In x (keys g)) /\ l_log g <> [].

  Definition rs_log (rs : RS) : Prop :=
    forall q g g' r, rs q g = (g', r) -> logok g -> In q (keys g) -> ~ In q (tl (l_log g)) -> logok g'.

  Lemma logok_same_log g g' : l_log g' = l_log g -> (forall x, In x (keys g) -> In x (keys g')) -> logok g -> logok g'.
  Proof. intros El Hk [H1 [H2 H3]]. unfold logok. rewrite El. auto. Qed.

  Lemma resolve_single_log rs inst p line g ms q g' ms' :
    rs_log rs -> logok g -> resolve_single rs inst p line (g, ms) q = (g', ms') -> logok g'.
  Proof.
    intros Hrs Hl. unfold resolve_single.
    destruct (lookup q (l_map g)) as [[r|]|] eqn:Hq.
    - intros E; injection E as <- <-; auto.
    - intros E; injection E as <- <-. eapply logok_same_log; [apply add_diag_log| |exact Hl].
      unfold keys. rewrite add_diag_map. auto.
    - assert (Hl0 : logok (set_map q None g)).
      { eapply logok_same_log; [reflexivity| |exact Hl]. intros x Hx. cbn. right; exact Hx. }
      assert (Hnot : ~ In q (tl (l_log (set_map q None g)))).
      { cbn. intros Hin. destruct Hl as [_ [H2 _]]. apply H2 in Hin. apply lookup_none_keys in Hq. auto. }
      destruct (rs q (set_map q None g)) as [g1 [res|]] eqn:E1; intros E; injection E as <- <-.
      + pose proof (Hrs _ _ _ _ E1 Hl0 (or_introl eq_refl) Hnot) as Hl1.
        eapply logok_same_log; [reflexivity| |exact Hl1]. intros x Hx. cbn. right; exact Hx.
      + pose proof (Hrs _ _ _ _ E1 Hl0 (or_introl eq_refl) Hnot) as Hl1.
        eapply logok_same_log; [apply add_diag_log| |exact Hl1]. unfold keys. rewrite add_diag_map. auto.
  Qed.

  Lemma fold_resolve_single_log rs inst p line ts g ms g' ms' :
    rs_log rs -> logok g -> fold_left (resolve_single rs inst p line) ts (g, ms) = (g', ms') -> logok g'.
  Proof.
    intros Hrs. revert g ms. induction ts as [|q ts IH]; intros g ms Hl; cbn [fold_left].
    - intros E; injection E as <- <-; auto.
    - destruct (resolve_single rs inst p line (g, ms) q) as [g1 ms1] eqn:E1. intros E.
      eapply IH; [|exact E]. eapply resolve_single_log; eauto.
  Qed.

  Lemma fold_load_import_log rs inst p is g res g' res' :
    rs_log rs -> logok g -> fold_left (load_import fs rs inst p) is (g, res) = (g', res') -> logok g'.
  Proof.
    intros Hrs. revert g res. induction is as [|i is IH]; intros g res Hl; cbn [fold_left].
    - intros E; injection E as <- <-; auto.
    - destruct (load_import fs rs inst p (g, res) i) as [g1 res1] eqn:E1. intros E.
      destruct (load_import_inv _ _ _ _ _ _ _ _ E1) as [ms [E2 ->]].
      eapply IH; [|exact E]. eapply fold_resolve_single_log; eauto.
  Qed.

  Lemma parse_log f : rs_log (parse fs f).
  Proof.
    induction f as [|f IH]; intros q g g' r; [cbn [parse]|rewrite parse_S].
    - intros E; injection E as <- <-. intros Hl _ _. exact Hl.
    - destruct (lookup q (fs_files fs)) as [src|].
      + dfoldg g1 res E1. intros E; injection E as <- <-. intros [H1 [H2 H3]] Hq Hn.
        eapply fold_load_import_log; [exact IH| |exact E1].
        unfold logok. cbn [add_log l_log].
        destruct (l_log g) as [|h t] eqn:El; [congruence|]. cbn [tl app] in *.
        split; [|split].
        * apply NoDup_snoc; auto.
        * intros x Hx. apply in_app_or in Hx. destruct Hx as [Hx|[<-|[]]]; auto.
        * discriminate.
      + intros E; injection E as <- <-. auto.
  Qed.

  (* C10: the root is parsed first; no other call of Parse repeats a path *)
  Theorem load_once (root : path) (src : list stmt) :
    lookup root (fs_files fs) = Some src ->
    exists t, l_log (fst (load fs root)) = root :: t /\ NoDup t.
  Proof.
    intros Hf. unfold load, load_fuel. rewrite parse_S, Hf.
    dfoldg g' res E1. cbn [fst].
    assert (Hl0 : logok (add_log root init_l)).
    { unfold logok. cbn. split; [constructor|split; [tauto|discriminate]]. }
    pose proof (fold_load_import_log _ _ _ _ _ _ _ _ (parse_log _) Hl0 E1) as [H1 _].
    destruct (fold_load_import_mono _ _ _ _ _ _ _ _ (parse_mono _) E1) as [_ _ _ [t Ht]].
    cbn [add_log l_log init_l app] in Ht. rewrite Ht in *. cbn [tl] in H1. eauto.
  Qed.

  Theorem load_missing_root (root : path) :
    lookup root (fs_files fs) = None -> load fs root = (init_l, None).
  Proof. intros Hf. unfold load, load_fuel. rewrite parse_S, Hf. reflexivity. Qed.
End Proofs.
