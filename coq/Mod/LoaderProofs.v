(* C10 — proofs about the loader model (Mod/Loader.v): termination within the fuel, every path parsed at
   most once through imports, module objects form a DAG, a cycle is diagnosed, an acyclic closed graph is not. *)
From Coq Require Import List NArith Bool Lia Relations PeanoNat.
Import ListNotations.
From DDP Require Import Mod.Loader.

Lemma memN_In (k : N) (l : list N) : memN k l = true <-> In k l.
Proof.
  induction l as [|x l IH]; cbn [memN In]; [split; [discriminate|tauto]|].
  destruct (N.eqb_spec k x) as [->|Hne]; [tauto|].
  rewrite IH. split; [tauto|]. intros [H|H]; [congruence|exact H].
Qed.

Lemma lookup_In {A : Type} (k : N) (l : list (N * A)) (v : A) : lookup k l = Some v -> In (k, v) l.
Proof.
  induction l as [|[k' v'] l IH]; cbn [lookup]; [discriminate|].
  destruct (N.eqb_spec k k') as [->|Hne]; intros H; [injection H as ->; left; reflexivity|right; auto].
Qed.

Lemma lookup_none_keys {A : Type} (k : N) (l : list (N * A)) : lookup k l = None <-> ~ In k (map fst l).
Proof.
  induction l as [|[k' v'] l IH]; cbn [lookup map fst In]; [tauto|].
  destruct (N.eqb_spec k k') as [->|Hne]; [split; [discriminate|intros H; exfalso; apply H; left; reflexivity]|].
  rewrite IH. split; [intros H [E|E]; [congruence|tauto]|tauto].
Qed.

(* ---------------------------------------------------------------------------------------------
   what every step of the loader preserves *)
Record mono (g g' : lstate) : Prop := mkMono {
  mo_keep : forall q, lookup q (l_map g) <> None -> lookup q (l_map g') = lookup q (l_map g);
  mo_oof : l_oof g = true -> l_oof g' = true;
  mo_diags : exists d, l_diags g' = l_diags g ++ d;
  mo_log : exists t, l_log g' = l_log g ++ t
}.

Lemma mono_refl g : mono g g.
Proof. split; auto; exists []; rewrite app_nil_r; reflexivity. Qed.

Lemma mono_trans g1 g2 g3 : mono g1 g2 -> mono g2 g3 -> mono g1 g3.
Proof.
  intros [k1 o1 [d1 D1] [t1 T1]] [k2 o2 [d2 D2] [t2 T2]]. split.
  - intros q Hq. rewrite k2, k1; auto. rewrite k1; auto.
  - auto.
  - exists (d1 ++ d2). rewrite D2, D1, app_assoc. reflexivity.
  - exists (t1 ++ t2). rewrite T2, T1, app_assoc. reflexivity.
Qed.

Lemma mono_set_map_fresh q v g : lookup q (l_map g) = None -> mono g (set_map q v g).
Proof.
  intros Hq. split; cbn; auto; try (exists []; rewrite app_nil_r; reflexivity).
  intros q' Hq'. destruct (N.eqb_spec q' q) as [->|]; [congruence|reflexivity].
Qed.

Lemma mono_add_diag i p line c g : mono g (add_diag i p line c g).
Proof.
  unfold add_diag. destruct (has_diag_at i line (l_diags g)); [apply mono_refl|].
  split; cbn; auto; [eexists; reflexivity|exists []; rewrite app_nil_r; reflexivity].
Qed.

Lemma mono_add_log p g : mono g (add_log p g).
Proof. split; cbn; auto; [exists []; rewrite app_nil_r; reflexivity|eexists; reflexivity]. Qed.

Lemma mono_set_oof g : mono g (set_oof g).
Proof. split; cbn; auto; exists []; rewrite app_nil_r; reflexivity. Qed.

Lemma add_diag_map i p line c g : l_map (add_diag i p line c g) = l_map g.
Proof. unfold add_diag. destruct (has_diag_at _ _ _); reflexivity. Qed.
Lemma add_diag_log i p line c g : l_log (add_diag i p line c g) = l_log g.
Proof. unfold add_diag. destruct (has_diag_at _ _ _); reflexivity. Qed.
Lemma add_diag_oof i p line c g : l_oof (add_diag i p line c g) = l_oof g.
Proof. unfold add_diag. destruct (has_diag_at _ _ _); reflexivity. Qed.
Lemma add_diag_nonempty i p line c g : l_diags (add_diag i p line c g) <> [].
Proof.
  unfold add_diag. destruct (has_diag_at i line (l_diags g)) eqn:E; cbn.
  - destruct (l_diags g); [cbn in E; discriminate|discriminate].
  - destruct (l_diags g); discriminate.
Qed.

Ltac dfoldg g r E :=
  match goal with
  | |- context [fold_left ?f ?l ?a] => destruct (fold_left f l a) as [g r] eqn:E
  end.

Section Proofs.
  Variable fs : fsys.

  Notation RS := (path -> lstate -> lstate * option resolved).

  Definition rs_mono (rs : RS) : Prop := forall q g g' r, rs q g = (g', r) -> mono g g'.

  Lemma resolve_single_mono rs inst p line g ms q g' ms' :
    rs_mono rs -> resolve_single rs inst p line (g, ms) q = (g', ms') -> mono g g'.
  Proof.
    intros Hrs. unfold resolve_single.
    destruct (lookup q (l_map g)) as [[r|]|] eqn:Hq.
    - intros E; injection E as <- <-. apply mono_refl.
    - intros E; injection E as <- <-. apply mono_add_diag.
    - destruct (rs q (set_map q None g)) as [g1 [res|]] eqn:E1; intros E; injection E as <- <-.
      + pose proof (mono_trans _ _ _ (mono_set_map_fresh q None g Hq) (Hrs _ _ _ _ E1)) as [k o d t].
        split; cbn; auto.
        intros q' Hq'. destruct (N.eqb_spec q' q) as [->|Hne]; [congruence|]. apply k; exact Hq'.
      + eapply mono_trans; [apply (mono_set_map_fresh q None g Hq)|].
        eapply mono_trans; [exact (Hrs _ _ _ _ E1)|apply mono_add_diag].
  Qed.

  Lemma fold_resolve_single_mono rs inst p line l g ms g' ms' :
    rs_mono rs -> fold_left (resolve_single rs inst p line) l (g, ms) = (g', ms') -> mono g g'.
  Proof.
    intros Hrs. revert g ms. induction l as [|q l IH]; intros g ms; cbn [fold_left].
    - intros E; injection E as <- <-. apply mono_refl.
    - destruct (resolve_single rs inst p line (g, ms) q) as [g1 ms1] eqn:E1. intros E.
      eapply mono_trans; [eapply resolve_single_mono; eauto|eapply IH; eauto].
  Qed.

  Lemma load_import_inv rs inst p g res i g1 res1 :
    load_import fs rs inst p (g, res) i = (g1, res1) ->
    exists ms, fold_left (resolve_single rs inst p (i_line i)) (targets fs i) (g, []) = (g1, ms) /\
               res1 = res ++ [(i_line i, ms)].
  Proof.
    unfold load_import. dfoldg g2 ms E1. intros E; injection E as <- <-. eauto.
  Qed.

  Lemma load_import_mono rs inst p g res i g' res' :
    rs_mono rs -> load_import fs rs inst p (g, res) i = (g', res') -> mono g g'.
  Proof.
    intros Hrs. unfold load_import. dfoldg g1 ms E1. intros E; injection E as <- <-.
    eapply fold_resolve_single_mono; eauto.
  Qed.

  Lemma fold_load_import_mono rs inst p l g res g' res' :
    rs_mono rs -> fold_left (load_import fs rs inst p) l (g, res) = (g', res') -> mono g g'.
  Proof.
    intros Hrs. revert g res. induction l as [|i l IH]; intros g res; cbn [fold_left].
    - intros E; injection E as <- <-. apply mono_refl.
    - destruct (load_import fs rs inst p (g, res) i) as [g1 res1] eqn:E1. intros E.
      eapply mono_trans; [eapply load_import_mono; eauto|eapply IH; eauto].
  Qed.

  Lemma parse_S f p g :
    parse fs (S f) p g =
    match lookup p (fs_files fs) with
    | None => (g, None)
    | Some src =>
        let '(g', res) := fold_left (load_import fs (parse fs f) (N.of_nat (length (l_log g))) p) (imports_of src) (add_log p g, []) in
        (g', Some res)
    end.
  Proof. reflexivity. Qed.

  Lemma parse_mono fuel : rs_mono (parse fs fuel).
  Proof.
    induction fuel as [|f IH]; intros q g g' r; [cbn [parse]|rewrite parse_S].
    - intros E; injection E as <- <-. apply mono_set_oof.
    - destruct (lookup q (fs_files fs)) as [src|].
      + dfoldg g1 res E1. intros E; injection E as <- <-.
        eapply mono_trans; [apply mono_add_log|eapply fold_load_import_mono; eauto].
      + intros E; injection E as <- <-. apply mono_refl.
  Qed.

  (* -------------------------------------------------------------------------------------------
     fuel: the number of files bounds the nesting depth *)
  Definition files : list path := map fst (fs_files fs).
  Definition keys (g : lstate) : list path := map fst (l_map g).

  (* l lists (at least) the existing files that have no entry in the map yet *)
  Definition covers (l : list path) (g : lstate) : Prop :=
    forall x, In x files -> ~ In x (keys g) -> In x l.

  Lemma in_keys_lookup g x : In x (keys g) <-> lookup x (l_map g) <> None.
  Proof.
    unfold keys. pose proof (lookup_none_keys x (l_map g)) as H.
    destruct (lookup x (l_map g)); split; intros; try congruence.
    - destruct (in_dec N.eq_dec x (map fst (l_map g))) as [i|n]; [exact i|]. apply H in n. discriminate.
    - exfalso. apply (proj1 H); auto.
  Qed.

  Lemma keys_mono g g' x : mono g g' -> In x (keys g) -> In x (keys g').
  Proof.
    intros [k _ _ _] Hin. apply in_keys_lookup. apply in_keys_lookup in Hin. rewrite k; auto.
  Qed.

  Lemma covers_mono l g g' : mono g g' -> covers l g -> covers l g'.
  Proof.
    intros Hm Hc x Hx Hn. apply Hc; [exact Hx|]. intros Hin. apply Hn. eapply keys_mono; eauto.
  Qed.

  Lemma NoDup_remove_N (x : N) (l : list N) : NoDup l -> NoDup (remove N.eq_dec x l).
  Proof.
    induction 1 as [|y l Hy Hnd IH]; cbn [remove]; [constructor|].
    destruct (N.eq_dec x y); [exact IH|]. constructor; [|exact IH].
    intros Hin. apply in_remove in Hin. tauto.
  Qed.

  (* rs returns at once on a missing file, and does not run out of fuel on an existing one as long as fewer
     than n existing files are still without an entry *)
  Definition rs_fuel_ok (rs : RS) (n : nat) : Prop :=
    (forall q g, lookup q (fs_files fs) = None -> rs q g = (g, None)) /\
    (forall q g l, lookup q (fs_files fs) <> None -> l_oof g = false -> NoDup l -> covers l g -> length l < n ->
                   In q (keys g) -> l_oof (fst (rs q g)) = false).

  Lemma lookup_files_in q : lookup q (fs_files fs) <> None -> In q files.
  Proof.
    intros H. unfold files. destruct (lookup q (fs_files fs)) eqn:E; [|congruence].
    apply lookup_In in E. apply (in_map fst) in E. exact E.
  Qed.

  Lemma resolve_single_fuel rs n inst p line g ms q l g' ms' :
    rs_mono rs -> rs_fuel_ok rs n ->
    l_oof g = false -> NoDup l -> covers l g -> length l <= n ->
    resolve_single rs inst p line (g, ms) q = (g', ms') -> l_oof g' = false.
  Proof.
    intros Hm [Hmiss Hrs] Ho Hnd Hc Hlen. unfold resolve_single.
    destruct (lookup q (l_map g)) as [[r|]|] eqn:Hq.
    - intros E; injection E as <- <-; auto.
    - intros E; injection E as <- <-. rewrite add_diag_oof. auto.
    - destruct (lookup q (fs_files fs)) eqn:Hf.
      + assert (Hin : In q l).
        { apply Hc; [apply lookup_files_in; congruence|]. apply lookup_none_keys. exact Hq. }
        assert (Hstep : l_oof (fst (rs q (set_map q None g))) = false).
        { apply (Hrs q (set_map q None g) (remove N.eq_dec q l)); auto.
          - congruence.
          - apply NoDup_remove_N; exact Hnd.
          - intros x Hx Hn. apply in_in_remove.
            + intros ->. apply Hn. cbn. left; reflexivity.
            + apply Hc; [exact Hx|]. intros Hk. apply Hn. cbn. right. exact Hk.
          - eapply Nat.lt_le_trans; [apply (remove_length_lt N.eq_dec l q Hin)|exact Hlen].
          - cbn. left; reflexivity. }
        destruct (rs q (set_map q None g)) as [g1 [res|]]; cbn [fst] in *; intros E; injection E as <- <-; auto.
        rewrite add_diag_oof. auto.
      + rewrite (Hmiss q (set_map q None g) Hf). intros E; injection E as <- <-.
        rewrite add_diag_oof. auto.
  Qed.

  Lemma fold_resolve_single_fuel rs n inst p line ts g ms l g' ms' :
    rs_mono rs -> rs_fuel_ok rs n ->
    l_oof g = false -> NoDup l -> covers l g -> length l <= n ->
    fold_left (resolve_single rs inst p line) ts (g, ms) = (g', ms') -> l_oof g' = false.
  Proof.
    intros Hm Hrs. revert g ms. induction ts as [|q ts IH]; intros g ms Ho Hnd Hc Hlen; cbn [fold_left].
    - intros E; injection E as <- <-; auto.
    - destruct (resolve_single rs inst p line (g, ms) q) as [g1 ms1] eqn:E1. intros E.
      apply (IH g1 ms1); auto.
      + eapply resolve_single_fuel; eauto.
      + eapply covers_mono; [eapply resolve_single_mono; eauto|eauto].
  Qed.

  Lemma fold_load_import_fuel rs n inst p is g res l g' res' :
    rs_mono rs -> rs_fuel_ok rs n ->
    l_oof g = false -> NoDup l -> covers l g -> length l <= n ->
    fold_left (load_import fs rs inst p) is (g, res) = (g', res') -> l_oof g' = false.
  Proof.
    intros Hm Hrs. revert g res. induction is as [|i is IH]; intros g res Ho Hnd Hc Hlen; cbn [fold_left].
    - intros E; injection E as <- <-; auto.
    - destruct (load_import fs rs inst p (g, res) i) as [g1 res1] eqn:E1. intros E.
      destruct (load_import_inv _ _ _ _ _ _ _ _ E1) as [ms [E2 ->]].
      apply (IH g1 (res ++ [(i_line i, ms)])); auto.
      + eapply fold_resolve_single_fuel; eauto.
      + eapply covers_mono; [eapply fold_resolve_single_mono; eauto|eauto].
  Qed.

  Lemma parse_fuel_ok f : rs_fuel_ok (parse fs (S f)) f.
  Proof.
    induction f as [|f IH]; split.
    - intros q g Hf. rewrite parse_S, Hf. reflexivity.
    - intros q g l _ _ _ _ Hlen. lia.
    - intros q g Hf. rewrite parse_S, Hf. reflexivity.
    - intros q g l Hf Ho Hnd Hc Hlen Hq. rewrite parse_S.
      destruct (lookup q (fs_files fs)) as [src|]; [|congruence].
      dfoldg g' res E1. cbn [fst].
      refine (fold_load_import_fuel (parse fs (S f)) f _ _ _ _ _ l _ _ (parse_mono _) IH _ Hnd _ _ E1).
      + exact Ho.
      + eapply covers_mono; [apply mono_add_log|exact Hc].
      + lia.
  Qed.

  Lemma nodup_length_le (l : list N) : length (nodup N.eq_dec l) <= length l.
  Proof.
    induction l as [|x l IH]; cbn [nodup length]; [lia|]. destruct (in_dec N.eq_dec x l); cbn [length]; lia.
  Qed.

  Theorem load_fuel_ok (root : path) : l_oof (fst (load fs root)) = false.
  Proof.
    unfold load, load_fuel. rewrite parse_S.
    destruct (lookup root (fs_files fs)) as [src|]; [|reflexivity].
    dfoldg g' res E1. cbn [fst].
    refine (fold_load_import_fuel (parse fs (S (length (fs_files fs)))) (length (fs_files fs)) _ _ _ _ _
             (nodup N.eq_dec files) _ _ (parse_mono _) (parse_fuel_ok _) _ _ _ _ E1).
    - reflexivity.
    - apply NoDup_nodup.
    - intros x Hx _. apply nodup_In. exact Hx.
    - eapply Nat.le_trans; [apply nodup_length_le|]. unfold files. rewrite map_length. apply Nat.le_refl.
  Qed.

  (* -------------------------------------------------------------------------------------------
     every path is parsed at most once through imports (the log without its head has no duplicates) *)
  Lemma NoDup_snoc (l : list N) (x : N) : NoDup l -> ~ In x l -> NoDup (l ++ [x]).
  Proof.
    induction 1 as [|y l Hy Hnd IH]; intros Hx; cbn [app]; [constructor; [tauto|constructor]|].
    constructor.
    - intros Hin. apply in_app_or in Hin. destruct Hin as [Hin|[->|[]]]; [tauto|]. apply Hx. left; reflexivity.
    - apply IH. intros Hin. apply Hx. right; exact Hin.
  Qed.

  Definition logok (g : lstate) : Prop :=
    NoDup (tl (l_log g)) /\ (forall x, In x (tl (l_log g)) -> In x (keys g)) /\ l_log g <> [].

  Definition rs_log (rs : RS) : Prop :=
    forall q g g' r, rs q g = (g', r) -> logok g -> In q (keys g) -> ~ In q (tl (l_log g)) -> logok g'.

  Lemma logok_same_log g g' : l_log g' = l_log g -> (forall x, In x (keys g) -> In x (keys g')) -> logok g -> logok g'.
  Proof. intros El Hk [H1 [H2 H3]]. unfold logok. rewrite El. auto. Qed.

  Lemma resolve_single_log rs inst p line g ms q g' ms' :
    rs_log rs -> logok g -> resolve_single rs inst p line (g, ms) q = (g', ms') -> logok g'.
  Proof.
    intros Hrs Hl. unfold resolve_single.
    destruct (lookup q (l_map g)) as [[r|]|] eqn:Hq.
    - intros E; injection E as <- <-; auto.
    - intros E; injection E as <- <-. apply (logok_same_log g); [apply add_diag_log| |exact Hl].
      unfold keys. rewrite add_diag_map. auto.
    - assert (Hl0 : logok (set_map q None g)).
      { apply (logok_same_log g (set_map q None g)); [reflexivity| |exact Hl]. intros x Hx. cbn. right; exact Hx. }
      assert (Hnot : ~ In q (tl (l_log (set_map q None g)))).
      { cbn. intros Hin. destruct Hl as [_ [H2 _]]. apply H2 in Hin. apply lookup_none_keys in Hq. auto. }
      destruct (rs q (set_map q None g)) as [g1 [res|]] eqn:E1; intros E; injection E as <- <-.
      + pose proof (Hrs _ _ _ _ E1 Hl0 (or_introl eq_refl) Hnot) as Hl1.
        apply (logok_same_log g1 (set_map q (Some res) g1)); [reflexivity| |exact Hl1]. intros x Hx. cbn. right; exact Hx.
      + pose proof (Hrs _ _ _ _ E1 Hl0 (or_introl eq_refl) Hnot) as Hl1.
        apply (logok_same_log g1); [apply add_diag_log| |exact Hl1]. unfold keys. rewrite add_diag_map. auto.
  Qed.

  Lemma fold_resolve_single_log rs inst p line ts g ms g' ms' :
    rs_log rs -> logok g -> fold_left (resolve_single rs inst p line) ts (g, ms) = (g', ms') -> logok g'.
  Proof.
    intros Hrs. revert g ms. induction ts as [|q ts IH]; intros g ms Hl; cbn [fold_left].
    - intros E; injection E as <- <-; auto.
    - destruct (resolve_single rs inst p line (g, ms) q) as [g1 ms1] eqn:E1. intros E.
      eapply IH; [|exact E]. eapply resolve_single_log; eauto.
  Qed.

  Lemma fold_load_import_log rs inst p is g res g' res' :
    rs_log rs -> logok g -> fold_left (load_import fs rs inst p) is (g, res) = (g', res') -> logok g'.
  Proof.
    intros Hrs. revert g res. induction is as [|i is IH]; intros g res Hl; cbn [fold_left].
    - intros E; injection E as <- <-; auto.
    - destruct (load_import fs rs inst p (g, res) i) as [g1 res1] eqn:E1. intros E.
      destruct (load_import_inv _ _ _ _ _ _ _ _ E1) as [ms [E2 ->]].
      eapply IH; [|exact E]. eapply fold_resolve_single_log; eauto.
  Qed.

  Lemma parse_log f : rs_log (parse fs f).
  Proof.
    induction f as [|f IH]; intros q g g' r; [cbn [parse]|rewrite parse_S].
    - intros E; injection E as <- <-. intros Hl _ _. exact Hl.
    - destruct (lookup q (fs_files fs)) as [src|].
      + dfoldg g1 res E1. intros E; injection E as <- <-. intros [H1 [H2 H3]] Hq Hn.
        eapply fold_load_import_log; [exact IH| |exact E1].
        unfold logok. cbn [add_log l_log].
        destruct (l_log g) as [|h t] eqn:El; [congruence|]. cbn [tl app] in *.
        split; [|split].
        * apply NoDup_snoc; auto.
        * intros x Hx. apply in_app_or in Hx. destruct Hx as [Hx|[<-|[]]]; auto.
        * discriminate.
      + intros E; injection E as <- <-. auto.
  Qed.

  (* C10: the root is parsed first; no other call of Parse repeats a path *)
  Theorem load_once (root : path) (src : list stmt) :
    lookup root (fs_files fs) = Some src ->
    exists t, l_log (fst (load fs root)) = root :: t /\ NoDup t.
  Proof.
    intros Hf. unfold load, load_fuel. rewrite parse_S, Hf.
    dfoldg g' res E1. cbn [fst].
    assert (Hl0 : logok (add_log root init_l)).
    { unfold logok. cbn. split; [constructor|split; [tauto|discriminate]]. }
    pose proof (fold_load_import_log _ _ _ _ _ _ _ _ (parse_log _) Hl0 E1) as [H1 _].
    destruct (fold_load_import_mono _ _ _ _ _ _ _ _ (parse_mono _) E1) as [_ _ _ [t Ht]].
    cbn [add_log l_log init_l app] in Ht. rewrite Ht in *. cbn [tl] in H1. eauto.
  Qed.

  Theorem load_missing_root (root : path) :
    lookup root (fs_files fs) = None -> load fs root = (init_l, None).
  Proof. intros Hf. unfold load, load_fuel. rewrite parse_S, Hf. reflexivity. Qed.

  (* -------------------------------------------------------------------------------------------
     the module objects form a DAG: an entry Some res is only written over the module's own placeholder,
     and everything it refers to was finished before *)
  Definition finished (m : list (path * option resolved)) (x : path) : Prop :=
    exists r, lookup x m = Some (Some r).

  Fixpoint wfmap (m : list (path * option resolved)) : Prop :=
    match m with
    | [] => True
    | (q, None) :: t => lookup q t = None /\ wfmap t
    | (q, Some res) :: t =>
        lookup q t = Some None /\ (forall x, In x (flat_map snd res) -> finished t x) /\ wfmap t
    end.

  Definition edge (m : list (path * option resolved)) (q x : path) : Prop :=
    exists res, lookup q m = Some (Some res) /\ In x (flat_map snd res).

  Fixpoint rank (m : list (path * option resolved)) (q : path) : nat :=
    match m with
    | [] => 0
    | (k, _) :: t => if N.eqb q k then S (length t) else rank t q
    end.

  Lemma rank_le m q : rank m q <= length m.
  Proof.
    induction m as [|[k v] t IH]; cbn [rank length]; [lia|]. destruct (N.eqb q k); lia.
  Qed.

  Lemma edge_child_finished m q x : wfmap m -> edge m q x -> finished m x.
  Proof.
    induction m as [|[k v] t IH]; intros Hwf [res [Hl Hin]]; cbn [lookup] in Hl; [discriminate|].
    assert (Hx : finished t x /\ (forall r, lookup k t <> Some (Some r))).
    { destruct (N.eqb_spec q k) as [->|Hne].
      - injection Hl as ->. cbn [wfmap] in Hwf. destruct Hwf as [Hk [Hc _]]. split; [auto|]. intros r. congruence.
      - destruct v as [r0|]; cbn [wfmap] in Hwf.
        + destruct Hwf as [Hk [_ Hw]]. split; [apply IH; [exact Hw|exists res; auto]|]. intros r. congruence.
        + destruct Hwf as [Hk Hw]. split; [apply IH; [exact Hw|exists res; auto]|]. intros r. congruence. }
    destruct Hx as [[r Hr] Hk]. exists r. cbn [lookup].
    destruct (N.eqb_spec x k) as [->|]; [exfalso; eapply Hk; eauto|exact Hr].
  Qed.

  Lemma rank_edge m q x : wfmap m -> edge m q x -> rank m x < rank m q.
  Proof.
    induction m as [|[k v] t IH]; intros Hwf He; [destruct He as [res [Hl _]]; discriminate|].
    pose proof (edge_child_finished _ _ _ Hwf He) as [rx Hfx].
    destruct He as [res [Hl Hin]]. cbn [lookup rank] in *.
    destruct (N.eqb_spec q k) as [->|Hne].
    - injection Hl as ->. cbn [wfmap] in Hwf. destruct Hwf as [Hk [Hc _]].
      destruct (N.eqb_spec x k) as [->|Hxk].
      + destruct (Hc _ Hin) as [r Hr]. congruence.
      + pose proof (rank_le t x). lia.
    - assert (Hw : wfmap t) by (destruct v; cbn [wfmap] in Hwf; tauto).
      destruct (N.eqb_spec x k) as [->|Hxk].
      + (* an older module cannot refer to k: k's entry in t is the placeholder or absent *)
        exfalso. assert (He : edge t q k) by (exists res; auto).
        destruct (edge_child_finished _ _ _ Hw He) as [r Hr].
        destruct v; cbn [wfmap] in Hwf; destruct Hwf as [Hk _]; congruence.
      + apply IH; [exact Hw|exists res; auto].
  Qed.

  Theorem wfmap_acyclic m : wfmap m -> forall q, ~ clos_trans _ (edge m) q q.
  Proof.
    intros Hwf q Hc.
    assert (H : forall a b, clos_trans _ (edge m) a b -> rank m b < rank m a).
    { induction 1 as [a b He|a b c _ IH1 _ IH2]; [apply rank_edge; auto|lia]. }
    specialize (H _ _ Hc). lia.
  Qed.

  Definition all_finished (g : lstate) (l : list path) : Prop := forall x, In x l -> finished (l_map g) x.

  Lemma finished_mono g g' x : mono g g' -> finished (l_map g) x -> finished (l_map g') x.
  Proof. intros [k _ _ _] [r Hr]. exists r. rewrite k; congruence. Qed.

  Definition rs_wf (rs : RS) : Prop :=
    forall q g g' r, rs q g = (g', r) -> wfmap (l_map g) ->
                     wfmap (l_map g') /\ (forall res, r = Some res -> all_finished g' (flat_map snd res)).

  Lemma resolve_single_wf rs inst p line g ms q g' ms' :
    rs_mono rs -> rs_wf rs -> wfmap (l_map g) -> all_finished g ms ->
    resolve_single rs inst p line (g, ms) q = (g', ms') -> wfmap (l_map g') /\ all_finished g' ms'.
  Proof.
    intros Hm Hrs Hwf Hms. unfold resolve_single.
    destruct (lookup q (l_map g)) as [[r|]|] eqn:Hq.
    - intros E; injection E as <- <-. split; [exact Hwf|].
      intros x Hx. apply in_app_or in Hx. destruct Hx as [Hx|[<-|[]]]; [auto|exists r; exact Hq].
    - intros E; injection E as <- <-. rewrite add_diag_map. split; [exact Hwf|].
      intros x Hx. unfold finished. rewrite add_diag_map. exact (Hms x Hx).
    - assert (Hwf0 : wfmap (l_map (set_map q None g))) by (cbn; auto).
      pose proof (mono_set_map_fresh q None g Hq) as Hm0.
      destruct (rs q (set_map q None g)) as [g1 [res|]] eqn:E1; intros E; injection E as <- <-.
      + destruct (Hrs _ _ _ _ E1 Hwf0) as [Hwf1 Hres]. pose proof (Hm _ _ _ _ E1) as Hm1.
        assert (Hq1 : lookup q (l_map g1) = Some None).
        { destruct Hm1 as [k _ _ _]. rewrite k; cbn; rewrite N.eqb_refl; [reflexivity|discriminate]. }
        split.
        * cbn [set_map l_map wfmap]. split; [exact Hq1|split; [|exact Hwf1]]. apply Hres. reflexivity.
        * intros x Hx. apply in_app_or in Hx. destruct Hx as [Hx|[<-|[]]].
          -- destruct (finished_mono _ _ x (mono_trans _ _ _ Hm0 Hm1) (Hms _ Hx)) as [r Hr].
             exists r. cbn. destruct (N.eqb_spec x q) as [->|]; [congruence|exact Hr].
          -- exists res. cbn. rewrite N.eqb_refl. reflexivity.
      + destruct (Hrs _ _ _ _ E1 Hwf0) as [Hwf1 _]. pose proof (Hm _ _ _ _ E1) as Hm1.
        rewrite add_diag_map. split; [exact Hwf1|].
        intros x Hx. unfold finished. rewrite add_diag_map.
        apply (finished_mono _ _ x (mono_trans _ _ _ Hm0 Hm1) (Hms _ Hx)).
  Qed.

  Lemma fold_resolve_single_wf rs inst p line ts g ms g' ms' :
    rs_mono rs -> rs_wf rs -> wfmap (l_map g) -> all_finished g ms ->
    fold_left (resolve_single rs inst p line) ts (g, ms) = (g', ms') -> wfmap (l_map g') /\ all_finished g' ms'.
  Proof.
    intros Hm Hrs. revert g ms. induction ts as [|q ts IH]; intros g ms Hwf Hms; cbn [fold_left].
    - intros E; injection E as <- <-; auto.
    - destruct (resolve_single rs inst p line (g, ms) q) as [g1 ms1] eqn:E1. intros E.
      destruct (resolve_single_wf _ _ _ _ _ _ _ _ _ Hm Hrs Hwf Hms E1) as [H1 H2].
      eapply IH; eauto.
  Qed.

  Lemma fold_load_import_wf rs inst p is g res g' res' :
    rs_mono rs -> rs_wf rs -> wfmap (l_map g) -> all_finished g (flat_map snd res) ->
    fold_left (load_import fs rs inst p) is (g, res) = (g', res') ->
    wfmap (l_map g') /\ all_finished g' (flat_map snd res').
  Proof.
    intros Hm Hrs. revert g res. induction is as [|i is IH]; intros g res Hwf Hres; cbn [fold_left].
    - intros E; injection E as <- <-; auto.
    - destruct (load_import fs rs inst p (g, res) i) as [g1 res1] eqn:E1. intros E.
      destruct (load_import_inv _ _ _ _ _ _ _ _ E1) as [ms [E2 ->]].
      destruct (fold_resolve_single_wf _ _ _ _ _ _ _ _ _ Hm Hrs Hwf (fun x (H : In x []) => match H with end) E2) as [H1 H2].
      eapply IH; [exact H1| |exact E].
      intros x Hx. rewrite flat_map_app in Hx. apply in_app_or in Hx. destruct Hx as [Hx|Hx].
      + eapply finished_mono; [eapply fold_resolve_single_mono; eauto|auto].
      + cbn [flat_map snd] in Hx. rewrite app_nil_r in Hx. auto.
  Qed.

  Lemma parse_wf f : rs_wf (parse fs f).
  Proof.
    induction f as [|f IH]; intros q g g' r; [cbn [parse]|rewrite parse_S].
    - intros E; injection E as <- <-. intros Hwf. split; [exact Hwf|discriminate].
    - destruct (lookup q (fs_files fs)) as [src|].
      + dfoldg g1 res E1. intros E; injection E as <- <-. intros Hwf.
        assert (H0 : all_finished (add_log q g) (flat_map snd (@nil (N * list path)))) by (intros x []).
        destruct (fold_load_import_wf _ _ _ _ _ _ _ _ (parse_mono _) IH (Hwf : wfmap (l_map (add_log q g))) H0 E1) as [H1 H2].
        split; [exact H1|]. intros res0 E0; injection E0 as <-. exact H2.
      + intros E; injection E as <- <-. intros Hwf. split; [exact Hwf|discriminate].
  Qed.

  Theorem load_wf (root : path) :
    wfmap (l_map (fst (load fs root))) /\
    (forall res, snd (load fs root) = Some res -> all_finished (fst (load fs root)) (flat_map snd res)).
  Proof.
    unfold load. destruct (parse fs (load_fuel fs) root init_l) as [g r] eqn:E.
    exact (parse_wf _ _ _ _ _ E I).
  Qed.

  (* -------------------------------------------------------------------------------------------
     the static import graph of the file system *)
  Definition sedge (p q : path) : Prop :=
    exists src i, lookup p (fs_files fs) = Some src /\ In i (imports_of src) /\ In q (targets fs i).
  Definition sreach : path -> path -> Prop := clos_refl_trans _ sedge.
  Definition scycle (root : path) : Prop := exists p, sreach root p /\ clos_trans _ sedge p p.

  Lemma step_rt_trans a b c : sedge a b -> sreach b c -> clos_trans _ sedge a c.
  Proof.
    intros Hab Hbc. apply clos_rt_rtn1 in Hbc. induction Hbc as [|y z Hyz _ IH]; [apply t_step; exact Hab|].
    eapply t_trans; [exact IH|apply t_step; exact Hyz].
  Qed.

  Definition static_res (src : list stmt) : resolved := map (fun i => (i_line i, targets fs i)) (imports_of src).

  Lemma sedge_static p src q :
    lookup p (fs_files fs) = Some src -> (sedge p q <-> In q (flat_map snd (static_res src))).
  Proof.
    intros Hf. unfold static_res. rewrite flat_map_concat_map, map_map, <- flat_map_concat_map. cbn [snd].
    rewrite in_flat_map. split.
    - intros [src' [i [Hf' [Hi Hq]]]]. rewrite Hf in Hf'. injection Hf' as <-. eauto.
    - intros [i [Hi Hq]]. exists src, i. auto.
  Qed.

  (* every diagnostic of the loader is an include diagnostic *)
  Definition incl_only (g : lstate) : Prop := forall d, In d (l_diags g) -> include_class (dg_class d) = true.

  Lemma incl_only_add_diag i p line c g : include_class c = true -> incl_only g -> incl_only (add_diag i p line c g).
  Proof.
    intros Hc Hg. unfold add_diag. destruct (has_diag_at _ _ _); [exact Hg|].
    intros d Hd. cbn in Hd. apply in_app_or in Hd. destruct Hd as [Hd|[<-|[]]]; auto.
  Qed.

  Definition rs_incl (rs : RS) : Prop := forall q g g' r, rs q g = (g', r) -> incl_only g -> incl_only g'.

  Lemma resolve_single_incl rs inst p line g ms q g' ms' :
    rs_incl rs -> incl_only g -> resolve_single rs inst p line (g, ms) q = (g', ms') -> incl_only g'.
  Proof.
    intros Hrs Hg. unfold resolve_single.
    destruct (lookup q (l_map g)) as [[r|]|] eqn:Hq.
    - intros E; injection E as <- <-; auto.
    - intros E; injection E as <- <-. apply incl_only_add_diag; auto.
    - destruct (rs q (set_map q None g)) as [g1 [res|]] eqn:E1; intros E; injection E as <- <-.
      + exact (Hrs _ _ _ _ E1 Hg).
      + apply incl_only_add_diag; [reflexivity|]. exact (Hrs _ _ _ _ E1 Hg).
  Qed.

  Lemma fold_resolve_single_incl rs inst p line ts g ms g' ms' :
    rs_incl rs -> incl_only g -> fold_left (resolve_single rs inst p line) ts (g, ms) = (g', ms') -> incl_only g'.
  Proof.
    intros Hrs. revert g ms. induction ts as [|q ts IH]; intros g ms Hg; cbn [fold_left].
    - intros E; injection E as <- <-; auto.
    - destruct (resolve_single rs inst p line (g, ms) q) as [g1 ms1] eqn:E1. intros E.
      eapply IH; [|exact E]. eapply resolve_single_incl; eauto.
  Qed.

  Lemma fold_load_import_incl rs inst p is g res g' res' :
    rs_incl rs -> incl_only g -> fold_left (load_import fs rs inst p) is (g, res) = (g', res') -> incl_only g'.
  Proof.
    intros Hrs. revert g res. induction is as [|i is IH]; intros g res Hg; cbn [fold_left].
    - intros E; injection E as <- <-; auto.
    - destruct (load_import fs rs inst p (g, res) i) as [g1 res1] eqn:E1. intros E.
      destruct (load_import_inv _ _ _ _ _ _ _ _ E1) as [ms [E2 ->]].
      eapply IH; [|exact E]. eapply fold_resolve_single_incl; eauto.
  Qed.

  Lemma parse_incl f : rs_incl (parse fs f).
  Proof.
    induction f as [|f IH]; intros q g g' r; [cbn [parse]|rewrite parse_S].
    - intros E; injection E as <- <-. auto.
    - destruct (lookup q (fs_files fs)) as [src|].
      + dfoldg g1 res E1. intros E; injection E as <- <-. intros Hg.
        eapply fold_load_import_incl; [exact IH| |exact E1]. exact Hg.
      + intros E; injection E as <- <-. auto.
  Qed.

  Theorem load_diags_include (root : path) : incl_only (fst (load fs root)).
  Proof.
    unfold load. destruct (parse fs (load_fuel fs) root init_l) as [g r] eqn:E.
    apply (parse_incl _ _ _ _ _ E). intros d [].
  Qed.

  (* -------------------------------------------------------------------------------------------
     without a diagnostic every import statement resolved all its targets *)
  Definition fullmap (g : lstate) : Prop :=
    forall q res, lookup q (l_map g) = Some (Some res) ->
                  exists src, lookup q (fs_files fs) = Some src /\ res = static_res src.

  Lemma diags_nil_mono g g' : mono g g' -> l_diags g' = [] -> l_diags g = [].
  Proof. intros [_ _ [d Hd] _] H. rewrite Hd in H. apply app_eq_nil in H. tauto. Qed.

  Definition rs_full (rs : RS) : Prop :=
    forall q g g' r, rs q g = (g', r) -> l_diags g' = [] -> fullmap g ->
                     fullmap g' /\ (forall res, r = Some res -> exists src, lookup q (fs_files fs) = Some src /\ res = static_res src).

  Lemma resolve_single_full rs inst p line g ms q g' ms' :
    rs_mono rs -> rs_full rs -> l_diags g' = [] -> fullmap g ->
    resolve_single rs inst p line (g, ms) q = (g', ms') -> fullmap g' /\ ms' = ms ++ [q].
  Proof.
    intros Hm Hrs Hd Hg. unfold resolve_single.
    destruct (lookup q (l_map g)) as [[r|]|] eqn:Hq.
    - intros E; injection E as <- <-. auto.
    - intros E; injection E as <- <-. exfalso. eapply add_diag_nonempty; eauto.
    - destruct (rs q (set_map q None g)) as [g1 [res|]] eqn:E1; intros E; injection E as <- <-.
      + assert (Hg0 : fullmap (set_map q None g)).
        { intros x r. cbn. destruct (N.eqb_spec x q); [discriminate|apply Hg]. }
        destruct (Hrs _ _ _ _ E1 Hd Hg0) as [Hg1 Hres]. split; [|reflexivity].
        intros x r. cbn. destruct (N.eqb_spec x q) as [->|]; [|apply Hg1].
        intros E; injection E as <-. apply Hres. reflexivity.
      + exfalso. eapply add_diag_nonempty; eauto.
  Qed.

  Lemma fold_resolve_single_full rs inst p line ts g ms g' ms' :
    rs_mono rs -> rs_full rs -> l_diags g' = [] -> fullmap g ->
    fold_left (resolve_single rs inst p line) ts (g, ms) = (g', ms') -> fullmap g' /\ ms' = ms ++ ts.
  Proof.
    intros Hm Hrs Hd. revert g ms. induction ts as [|q ts IH]; intros g ms Hg; cbn [fold_left].
    - intros E; injection E as <- <-. rewrite app_nil_r. auto.
    - destruct (resolve_single rs inst p line (g, ms) q) as [g1 ms1] eqn:E1. intros E.
      assert (Hd1 : l_diags g1 = []) by (eapply diags_nil_mono; [eapply fold_resolve_single_mono; eauto|exact Hd]).
      destruct (resolve_single_full _ _ _ _ _ _ _ _ _ Hm Hrs Hd1 Hg E1) as [Hg1 ->].
      destruct (IH _ _ Hg1 E) as [Hg' ->]. rewrite <- app_assoc. auto.
  Qed.

  Lemma fold_load_import_full rs inst p is g res g' res' :
    rs_mono rs -> rs_full rs -> l_diags g' = [] -> fullmap g ->
    fold_left (load_import fs rs inst p) is (g, res) = (g', res') ->
    fullmap g' /\ res' = res ++ map (fun i => (i_line i, targets fs i)) is.
  Proof.
    intros Hm Hrs Hd. revert g res. induction is as [|i is IH]; intros g res Hg; cbn [fold_left].
    - intros E; injection E as <- <-. rewrite app_nil_r. auto.
    - destruct (load_import fs rs inst p (g, res) i) as [g1 res1] eqn:E1. intros E.
      destruct (load_import_inv _ _ _ _ _ _ _ _ E1) as [ms [E2 ->]].
      assert (Hd1 : l_diags g1 = []) by (eapply diags_nil_mono; [eapply fold_load_import_mono; eauto|exact Hd]).
      destruct (fold_resolve_single_full _ _ _ _ _ _ _ _ _ Hm Hrs Hd1 Hg E2) as [Hg1 ->].
      destruct (IH _ _ Hg1 E) as [Hg' ->]. cbn [map app]. rewrite <- app_assoc. auto.
  Qed.

  Lemma parse_full f : rs_full (parse fs f).
  Proof.
    induction f as [|f IH]; intros q g g' r; [cbn [parse]|rewrite parse_S].
    - intros E; injection E as <- <-. intros _ Hg. split; [exact Hg|discriminate].
    - destruct (lookup q (fs_files fs)) as [src|] eqn:Hf.
      + dfoldg g1 res E1. intros E; injection E as <- <-. intros Hd Hg.
        destruct (fold_load_import_full _ _ _ _ _ _ _ _ (parse_mono _) IH Hd (Hg : fullmap (add_log q g)) E1) as [H1 H2].
        split; [exact H1|]. intros res0 E0; injection E0 as <-. exists src. auto.
      + intros E; injection E as <- <-. intros _ Hg. split; [exact Hg|discriminate].
  Qed.

  (* C10: modules that import each other (a cycle of any length >= 1 that the root reaches) are diagnosed *)
  Theorem cycle_diagnosed (root : path) :
    lookup root (fs_files fs) <> None -> scycle root ->
    exists d, In d (l_diags (fst (load fs root))) /\ include_class (dg_class d) = true.
  Proof.
    intros Hroot [p [Hreach Hcyc]].
    destruct (l_diags (fst (load fs root))) as [|d ds] eqn:Hd.
    2:{ exists d. split; [left; reflexivity|]. apply (load_diags_include root). rewrite Hd. left; reflexivity. }
    exfalso.
    destruct (load_wf root) as [Hwf Hmain].
    unfold load in *. destruct (parse fs (load_fuel fs) root init_l) as [g r] eqn:E. cbn [fst snd] in *.
    destruct (parse_full _ _ _ _ _ E Hd) as [Hfull Hres]; [intros x r0; discriminate|].
    destruct (lookup root (fs_files fs)) as [rsrc|] eqn:Hf; [|congruence].
    assert (Hr : r = Some (static_res rsrc)).
    { unfold load_fuel in E. rewrite parse_S, Hf in E. revert E. dfoldg g1 res1 E1. intros E; injection E as <- <-.
      destruct (Hres _ eq_refl) as [src' [Hs ->]]. congruence. }
    subst r. specialize (Hmain _ eq_refl).
    (* finished modules: static edges are edges of the module map, and lead to finished modules *)
    assert (Hstep : forall a b, finished (l_map g) a -> sedge a b -> edge (l_map g) a b /\ finished (l_map g) b).
    { intros a b [ra Ha] Hab. destruct (Hfull _ _ Ha) as [src [Hsf ->]].
      assert (He : edge (l_map g) a b) by (exists (static_res src); split; [exact Ha|apply (sedge_static a src b Hsf); exact Hab]).
      split; [exact He|eapply edge_child_finished; eauto]. }
    assert (Hroot1 : forall b, sedge root b -> finished (l_map g) b).
    { intros b Hb. apply Hmain. apply (sedge_static root rsrc b Hf). exact Hb. }
    assert (Hplus : forall a b, clos_trans _ sedge a b -> (finished (l_map g) a \/ a = root) -> finished (l_map g) b).
    { intros a b H. apply clos_trans_t1n in H. induction H as [a b Hab|a b c Hab _ IH]; intros Ha.
      - destruct Ha as [Ha| ->]; [apply (Hstep a b Ha Hab)|auto].
      - apply IH. left. destruct Ha as [Ha| ->]; [apply (Hstep a b Ha Hab)|auto]. }
    assert (Hp : finished (l_map g) p).
    { apply clos_rt_rt1n in Hreach. inversion Hreach as [|b c Hb Hrest]; subst.
      - apply (Hplus p p Hcyc). right; reflexivity.
      - apply (Hplus root p); [|right; reflexivity].
        apply clos_rt1n_rt in Hrest. apply clos_rt_rtn1 in Hrest.
        clear - Hb Hrest. induction Hrest as [|y z Hyz _ IH]; [apply t_step; exact Hb|].
        eapply t_trans; [exact IH|apply t_step; exact Hyz]. }
    assert (Hmap : forall a b, clos_trans _ sedge a b -> finished (l_map g) a -> clos_trans _ (edge (l_map g)) a b).
    { intros a b H. apply clos_trans_t1n in H. induction H as [a b Hab|a b c Hab _ IH]; intros Ha.
      - apply t_step. apply (Hstep a b Ha Hab).
      - destruct (Hstep a b Ha Hab) as [He Hb]. eapply t_trans; [apply t_step; exact He|apply IH; exact Hb]. }
    exact (wfmap_acyclic _ Hwf p (Hmap _ _ Hcyc Hp)).
  Qed.

  (* -------------------------------------------------------------------------------------------
     an acyclic graph whose files all exist is loaded without any diagnostic *)
  Section Acyclic.
    Variable root : path.
    Definition closed : Prop := forall p q, sreach root p -> sedge p q -> lookup q (fs_files fs) <> None.
    Hypothesis Hclosed : closed.
    Hypothesis Hacyc : ~ scycle root.

    Definition pending_in (g : lstate) (anc : list path) : Prop :=
      forall x, lookup x (l_map g) = Some None -> In x anc.

    Definition rs_acyc (rs : RS) : Prop :=
      forall q g g' r anc, rs q g = (g', r) -> l_oof g' = false -> l_diags g = [] ->
        sreach root q -> lookup q (fs_files fs) <> None -> pending_in g anc -> (forall a, In a anc -> sreach a q) ->
        l_diags g' = [] /\ r <> None /\ pending_in g' anc.

    Lemma oof_false_mono g g' : mono g g' -> l_oof g' = false -> l_oof g = false.
    Proof. intros [_ o _ _] H. destruct (l_oof g); [rewrite o in H; auto|reflexivity]. Qed.

    Lemma resolve_single_acyc rs inst p line g ms t g' ms' anc :
      rs_mono rs -> rs_acyc rs -> l_oof g' = false -> l_diags g = [] -> sreach root p -> sedge p t ->
      pending_in g anc -> (forall a, In a anc -> sreach a p) ->
      resolve_single rs inst p line (g, ms) t = (g', ms') -> l_diags g' = [] /\ pending_in g' anc.
    Proof.
      intros Hm Hrs Ho Hd Hp Hpt Hpend Hanc. unfold resolve_single.
      destruct (lookup t (l_map g)) as [[r|]|] eqn:Ht.
      - intros E; injection E as <- <-. auto.
      - exfalso. apply Hacyc. exists p. split; [exact Hp|].
        apply Hpend in Ht. apply Hanc in Ht. exact (step_rt_trans _ _ _ Hpt Ht).
      - assert (Hreach_t : sreach root t) by (eapply rt_trans; [exact Hp|apply rt_step; exact Hpt]).
        assert (Hft : lookup t (fs_files fs) <> None) by (exact (Hclosed p t Hp Hpt)).
        assert (Hp0 : pending_in (set_map t None g) (t :: anc)).
        { intros x. cbn. destruct (N.eqb_spec x t) as [->|]; [left; reflexivity|right; auto]. }
        assert (Hanc0 : forall a, In a (t :: anc) -> sreach a t).
        { intros a [<-|Ha]; [apply rt_refl|]. eapply rt_trans; [apply Hanc; exact Ha|apply rt_step; exact Hpt]. }
        destruct (rs t (set_map t None g)) as [g1 [res|]] eqn:E1; intros E; injection E as <- <-.
        + destruct (Hrs _ _ _ _ (t :: anc) E1 Ho Hd Hreach_t Hft Hp0 Hanc0) as [Hd1 [_ Hp1]].
          split; [exact Hd1|]. intros x. cbn. destruct (N.eqb_spec x t) as [->|Hne]; [discriminate|].
          intros Hx. destruct (Hp1 _ Hx) as [<-|Hin]; [congruence|exact Hin].
        + exfalso. rewrite add_diag_oof in Ho.
          destruct (Hrs _ _ _ _ (t :: anc) E1 Ho Hd Hreach_t Hft Hp0 Hanc0) as [_ [Hr _]]. congruence.
    Qed.

    Lemma fold_resolve_single_acyc rs inst p line ts g ms g' ms' anc :
      rs_mono rs -> rs_acyc rs -> l_oof g' = false -> l_diags g = [] -> sreach root p -> (forall t, In t ts -> sedge p t) ->
      pending_in g anc -> (forall a, In a anc -> sreach a p) ->
      fold_left (resolve_single rs inst p line) ts (g, ms) = (g', ms') -> l_diags g' = [] /\ pending_in g' anc.
    Proof.
      intros Hm Hrs Ho. revert g ms. induction ts as [|t ts IH]; intros g ms Hd Hp Hts Hpend Hanc; cbn [fold_left].
      - intros E; injection E as <- <-. auto.
      - destruct (resolve_single rs inst p line (g, ms) t) as [g1 ms1] eqn:E1. intros E.
        assert (Ho1 : l_oof g1 = false) by (eapply oof_false_mono; [eapply fold_resolve_single_mono; eauto|exact Ho]).
        destruct (resolve_single_acyc _ _ _ _ _ _ _ _ _ _ Hm Hrs Ho1 Hd Hp (Hts _ (or_introl eq_refl)) Hpend Hanc E1) as [Hd1 Hp1].
        eapply IH; eauto. intros t' Ht'. apply Hts. right; exact Ht'.
    Qed.

    Lemma fold_load_import_acyc rs inst p is g res g' res' anc :
      rs_mono rs -> rs_acyc rs -> l_oof g' = false -> l_diags g = [] -> sreach root p ->
      (forall i t, In i is -> In t (targets fs i) -> sedge p t) ->
      pending_in g anc -> (forall a, In a anc -> sreach a p) ->
      fold_left (load_import fs rs inst p) is (g, res) = (g', res') -> l_diags g' = [] /\ pending_in g' anc.
    Proof.
      intros Hm Hrs Ho. revert g res. induction is as [|i is IH]; intros g res Hd Hp His Hpend Hanc; cbn [fold_left].
      - intros E; injection E as <- <-. auto.
      - destruct (load_import fs rs inst p (g, res) i) as [g1 res1] eqn:E1. intros E.
        destruct (load_import_inv _ _ _ _ _ _ _ _ E1) as [ms [E2 ->]].
        assert (Ho1 : l_oof g1 = false) by (eapply oof_false_mono; [eapply fold_load_import_mono; eauto|exact Ho]).
        destruct (fold_resolve_single_acyc _ _ _ _ _ _ _ _ _ _ Hm Hrs Ho1 Hd Hp (fun t Ht => His i t (or_introl eq_refl) Ht) Hpend Hanc E2) as [Hd1 Hp1].
        eapply IH; eauto. intros i' t Hi' Ht. eapply His; [right; exact Hi'|exact Ht].
    Qed.

    Lemma parse_acyc f : rs_acyc (parse fs f).
    Proof.
      induction f as [|f IH]; intros q g g' r anc; [cbn [parse]|rewrite parse_S].
      - intros E; injection E as <- <-. cbn. discriminate.
      - destruct (lookup q (fs_files fs)) as [src|] eqn:Hf; [|intros _ _ _ _ H; congruence].
        dfoldg g1 res E1. intros E; injection E as <- <-. intros Ho Hd Hq _ Hpend Hanc.
        assert (His : forall i t, In i (imports_of src) -> In t (targets fs i) -> sedge q t).
        { intros i t Hi Ht. exists src, i. auto. }
        destruct (fold_load_import_acyc _ _ _ _ _ _ _ _ anc (parse_mono _) IH Ho (Hd : l_diags (add_log q g) = []) Hq His
                    (Hpend : pending_in (add_log q g) anc) Hanc E1) as [Hd1 Hp1].
        split; [exact Hd1|split; [discriminate|exact Hp1]].
    Qed.

    Theorem acyclic_no_diag :
      lookup root (fs_files fs) <> None -> l_diags (fst (load fs root)) = [].
    Proof.
      intros Hroot. pose proof (load_fuel_ok root) as Ho.
      unfold load in *. destruct (parse fs (load_fuel fs) root init_l) as [g r] eqn:E. cbn [fst] in *.
      destruct (parse_acyc _ _ _ _ _ [] E Ho) as [Hd _]; auto.
      - apply rt_refl.
      - intros x Hx. discriminate.
      - intros a [].
    Qed.
  End Acyclic.
End Proofs.
