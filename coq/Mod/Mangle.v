(* C10 — model of the per-module symbol names (compiler/helper.go, getHashableModuleName ... mangledNameBase).
   A path is the list of code points of the absolute file name without the ".ddp" suffix.
   getHashableModuleName: "ddp_" ++ the path with '_' -> "_u", '/' -> "_s", ':' -> "_c"
   (strings.NewReplacer over single-character patterns = a per-character substitution).
   mangledNameBase: name ++ "_mod_" ++ hex(sha256(hashable name)) — modelled as the pair
   (name, hash (hashable name)) with the hash a section variable. Definitions only. *)
From Coq Require Import List NArith Bool.
Import ListNotations.

Definition str := list N.
Definition c_slash : N := 47.
Definition c_colon : N := 58.
Definition c_under : N := 95.
Definition c_u : N := 117.
Definition c_s : N := 115.
Definition c_c : N := 99.
Definition esc_char (c : N) : str :=
  if N.eqb c c_under then [c_under; c_u]
  else if N.eqb c c_slash then [c_under; c_s]
  else if N.eqb c c_colon then [c_under; c_c]
  else [c].
Definition ddp_prefix : str := [100; 100; 112; 95]%N.       (* "ddp_" *)
Definition init_suffix : str := [95; 105; 110; 105; 116]%N. (* "_init" *)
Definition dispose_suffix : str := [95; 100; 105; 115; 112; 111; 115; 101]%N. (* "_dispose" *)

Definition hashable (p : str) : str := ddp_prefix ++ flat_map esc_char p.
Definition init_name (p : str) : str := hashable p ++ init_suffix.
Definition dispose_name (p : str) : str := hashable p ++ dispose_suffix.

(* a parameter type of a generic instantiation: its printed name and the path of the module that declares it
   (builtin types: the empty path) *)
Definition tyarg := (str * str)%type.

Section Mangle.
  Variable hash : str -> str.
  Definition mangled (n : str) (p : str) : str * str := (n, hash (hashable p)).
  (* mangledNameDecl for a generic instantiation: <fn>_generic_<names of the parameter types>, mangled with the
     instantiating module p.  instantiationTypeName names a declared type together with its module
     (mangledNameType: name ++ "_mod_" ++ hex(hash(module name)), modelled as a pair like `mangled`) *)
  Definition inst_symbol (fn : str) (targs : list tyarg) (p : str) : str * list (str * str) * str :=
    (fn, map (fun t => (fst t, hash (hashable (snd t)))) targs, hash (hashable p)).
End Mangle.
