(* C10 — proofs about the symbol names (Mod/Mangle.v). *)
From Coq Require Import List NArith Bool Lia.
Import ListNotations.
From DDP Require Import Mod.Mangle.

Definition plain (p : str) : Prop := forall c, In c p -> c <> c_under /\ c <> c_colon.

Lemma flat_char_inj a b : a <> c_under -> a <> c_colon -> b <> c_under -> b <> c_colon -> flat_char a = flat_char b -> a = b.
Proof.
  unfold flat_char. intros Ha1 Ha2 Hb1 Hb2.
  destruct (N.eqb_spec a c_slash) as [->|Has]; destruct (N.eqb_spec b c_slash) as [->|Hbs]; cbn [orb]; auto.
  - destruct (N.eqb_spec b c_colon); [contradiction|]. intros H. congruence.
  - destruct (N.eqb_spec a c_colon); [contradiction|]. intros H. congruence.
  - destruct (N.eqb_spec a c_colon); [contradiction|]. destruct (N.eqb_spec b c_colon); [contradiction|]. auto.
Qed.

(* paths without '_' and ':' keep distinct module names *)
Theorem hashable_injective_on_plain p1 p2 : plain p1 -> plain p2 -> hashable p1 = hashable p2 -> p1 = p2.
Proof.
  unfold hashable. intros H1 H2 E. apply app_inv_head in E. revert p2 H2 E.
  induction p1 as [|a p1 IH]; intros [|b p2] H2 E; cbn [map] in E; try discriminate; [reflexivity|].
  injection E as Eh Et. f_equal.
  - destruct (H1 a (or_introl eq_refl)), (H2 b (or_introl eq_refl)). apply flat_char_inj; auto.
  - apply IH; auto; intros c Hc; [apply H1|apply H2]; right; exact Hc.
Qed.

Section WithHash.
  Variable hash : str -> str.
  Hypothesis hash_inj : forall a b, hash a = hash b -> a = b.

  (* same-named declarations of modules with different flattened names get different symbols *)
  Theorem mangled_distinct n p1 p2 : hashable p1 <> hashable p2 -> mangled hash n p1 <> mangled hash n p2.
  Proof. unfold mangled. intros H E. injection E as E. apply H, hash_inj, E. Qed.

  Theorem mangled_distinct_plain n p1 p2 : plain p1 -> plain p2 -> p1 <> p2 -> mangled hash n p1 <> mangled hash n p2.
  Proof. intros H1 H2 Hne. apply mangled_distinct. intros E. apply Hne. apply hashable_injective_on_plain; auto. Qed.
End WithHash.

(* "/d/x/y" and "/d/x_y" : two different module files, one flattened name *)
Definition coll_a : str := [47; 100; 47; 120; 47; 121]%N.
Definition coll_b : str := [47; 100; 47; 120; 95; 121]%N.

Theorem mangle_collision :
  coll_a <> coll_b /\ hashable coll_a = hashable coll_b /\ init_name coll_a = init_name coll_b /\
  forall hash n, mangled hash n coll_a = mangled hash n coll_b.
Proof.
  split; [discriminate|]. split; [vm_compute; reflexivity|]. split; [vm_compute; reflexivity|].
  intros hash n. unfold mangled. replace (hashable coll_a) with (hashable coll_b) by (vm_compute; reflexivity). reflexivity.
Qed.

(* non-vacuity of the partial theorem *)
Example plain_paths_exist : plain [47; 100; 47; 120; 47; 121]%N /\ plain [47; 100; 47; 122]%N.
Proof. split; intros c Hc; cbn in Hc; repeat (destruct Hc as [<-|Hc]; [split; discriminate|]); destruct Hc. Qed.
