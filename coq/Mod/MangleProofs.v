(* C10 — proofs about the symbol names (Mod/Mangle.v): the escaping of module paths is injective. *)
From Coq Require Import List NArith Bool Lia.
Import ListNotations.
From DDP Require Import Mod.Mangle.

(* every '_' of the output starts a two-character escape, so the first character of the input can be read back *)
Lemma esc_char_head a b r1 r2 : esc_char a ++ r1 = esc_char b ++ r2 -> a = b /\ r1 = r2.
Proof.
  unfold esc_char.
  destruct (N.eqb_spec a c_under) as [->|Ha1]; [|destruct (N.eqb_spec a c_slash) as [->|Ha2]; [|destruct (N.eqb_spec a c_colon) as [->|Ha3]]];
  (destruct (N.eqb_spec b c_under) as [->|Hb1]; [|destruct (N.eqb_spec b c_slash) as [->|Hb2]; [|destruct (N.eqb_spec b c_colon) as [->|Hb3]]]);
  cbn [app]; intros E; injection E; intros; subst; try discriminate; try congruence; auto.
Qed.

Lemma esc_injective p1 : forall p2, flat_map esc_char p1 = flat_map esc_char p2 -> p1 = p2.
Proof.
  induction p1 as [|a p1 IH]; intros [|b p2] E; cbn [flat_map] in E.
  - reflexivity.
  - exfalso. unfold esc_char in E. destruct (N.eqb b c_under), (N.eqb b c_slash), (N.eqb b c_colon); discriminate.
  - exfalso. unfold esc_char in E. destruct (N.eqb a c_under), (N.eqb a c_slash), (N.eqb a c_colon); discriminate.
  - apply esc_char_head in E. destruct E as [-> E]. f_equal. apply IH. exact E.
Qed.

Theorem hashable_injective p1 p2 : hashable p1 = hashable p2 -> p1 = p2.
Proof. unfold hashable. intros E. apply app_inv_head in E. apply esc_injective. exact E. Qed.

Theorem init_name_injective p1 p2 : init_name p1 = init_name p2 -> p1 = p2.
Proof. unfold init_name. intros E. apply app_inv_tail in E. apply hashable_injective. exact E. Qed.

Section WithHash.
  Variable hash : str -> str.
  Hypothesis hash_inj : forall a b, hash a = hash b -> a = b.

  (* same-named declarations of two different modules get different symbols *)
  Theorem mangled_distinct n p1 p2 : p1 <> p2 -> mangled hash n p1 <> mangled hash n p2.
  Proof. unfold mangled. intros H E. injection E as E. apply H, hashable_injective, hash_inj, E. Qed.
End WithHash.

(* two different types called "Punkt" declared in the modules /d/ma and /d/mb *)
Definition punkt : str := [80; 117; 110; 107; 116]%N.
Definition mod_ma : str := [47; 100; 47; 109; 97]%N.
Definition mod_mb : str := [47; 100; 47; 109; 98]%N.

Lemma map_injective {A B : Type} (f : A -> B) : (forall a b, f a = f b -> a = b) -> forall l1 l2, map f l1 = map f l2 -> l1 = l2.
Proof.
  intros Hf. induction l1 as [|a l1 IH]; intros [|b l2] E; cbn [map] in E; try discriminate; [reflexivity|].
  injection E as E1 E2. f_equal; auto.
Qed.

(* the symbol of a generic instantiation determines the function, the parameter types (name AND declaring module) and the
   instantiating module *)
Theorem inst_symbol_injective (hash : str -> str) :
  (forall a b, hash a = hash b -> a = b) ->
  forall fn1 fn2 t1 t2 p1 p2, inst_symbol hash fn1 t1 p1 = inst_symbol hash fn2 t2 p2 -> fn1 = fn2 /\ t1 = t2 /\ p1 = p2.
Proof.
  intros Hh fn1 fn2 t1 t2 p1 p2 E. unfold inst_symbol in E. injection E as E1 E2 E3.
  split; [exact E1|split; [|apply hashable_injective, Hh, E3]].
  apply (map_injective (fun t : tyarg => (fst t, hash (hashable (snd t))))); [|exact E2].
  intros [n1 m1] [n2 m2] H. cbn in H. injection H as -> H. f_equal. apply hashable_injective, Hh, H.
Qed.

Example former_inst_collision_resolved : forall hash : str -> str, (forall a b, hash a = hash b -> a = b) ->
  forall fn p, inst_symbol hash fn [(punkt, mod_ma)] p <> inst_symbol hash fn [(punkt, mod_mb)] p.
Proof. intros hash Hh fn p E. apply (inst_symbol_injective hash Hh) in E. destruct E as [_ [E _]]. discriminate. Qed.

(* the former collision: "/d/x/y" and "/d/x_y" *)
Definition coll_a : str := [47; 100; 47; 120; 47; 121]%N.
Definition coll_b : str := [47; 100; 47; 120; 95; 121]%N.
Example former_collision_resolved : coll_a <> coll_b /\ hashable coll_a <> hashable coll_b /\ init_name coll_a <> init_name coll_b.
Proof. repeat split; vm_compute; discriminate. Qed.
