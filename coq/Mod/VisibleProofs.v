(* C10 — proofs about import visibility (Mod/Loader.v: public_of, imported_decls, resolver). *)
From Coq Require Import List NArith Bool Lia.
Import ListNotations.
From DDP Require Import Mod.Loader Mod.LoaderProofs Mod.InitOrder Mod.InitProofs.

Section Visible.
  Variable fs : fsys.

  Definition srcs (q : path) : list stmt := src_of fs q.

  (* ---- the public interface ---- *)
  Lemma publish_sound l : forall seen pub d,
    In d (publish seen pub l) -> In d pub \/ (In d l /\ d_public d = true).
  Proof.
    induction l as [|x l IH]; intros seen pub d Hd; cbn [publish] in Hd; [left; exact Hd|].
    apply IH in Hd. destruct Hd as [Hd|[Hd Hp]]; [|right; split; [right; exact Hd|exact Hp]].
    destruct (d_public x && _) eqn:E; [|left; exact Hd].
    apply in_app_or in Hd. destruct Hd as [Hd|[<-|[]]]; [left; exact Hd|].
    right. split; [left; reflexivity|]. apply andb_prop in E. tauto.
  Qed.

  Lemma publish_keeps l : forall seen pub d, In d pub -> In d (publish seen pub l).
  Proof.
    induction l as [|x l IH]; intros seen pub d Hd; cbn [publish]; [exact Hd|].
    apply IH. destruct (d_public x && _); [apply in_or_app; left; exact Hd|exact Hd].
  Qed.

  Lemma publish_complete l : forall seen pub d,
    NoDup (map d_name l) -> (forall x, In x l -> ~ In (d_name x) seen) ->
    (forall e, In e pub -> In (d_name e) seen) ->
    In d l -> d_public d = true -> In d (publish seen pub l).
  Proof.
    induction l as [|x l IH]; intros seen pub d Hnd Hseen Hpub Hd Hp; [destruct Hd|].
    cbn [map] in Hnd. inversion Hnd as [|? ? Hx Hnd']; subst. cbn [publish].
    destruct Hd as [->|Hd].
    - apply publish_keeps.
      assert (E : d_public d && negb (match d_kind d with KFunc => memN (d_name d) seen | _ => existsb (fun e => N.eqb (d_name e) (d_name d)) pub end) = true).
      { rewrite Hp. cbn [andb]. apply negb_true_iff.
        assert (Hns : ~ In (d_name d) seen) by (apply Hseen; left; reflexivity).
        assert (H1 : memN (d_name d) seen = false).
        { destruct (memN (d_name d) seen) eqn:E; [apply memN_In in E; contradiction|reflexivity]. }
        assert (H2 : existsb (fun e => N.eqb (d_name e) (d_name d)) pub = false).
        { destruct (existsb _ pub) eqn:E; [|reflexivity]. apply existsb_exists in E. destruct E as [e [He Hn]].
          apply N.eqb_eq in Hn. exfalso. apply Hns. rewrite <- Hn. apply Hpub. exact He. }
        destruct (d_kind d); assumption. }
      rewrite E. apply in_or_app. right. left. reflexivity.
    - apply IH; auto.
      + intros y Hy [Hn|Hn]; [|eapply Hseen; [right; exact Hy|exact Hn]].
        apply Hx. rewrite Hn. apply in_map. exact Hy.
      + intros e He. destruct (d_public x && _); [|right; apply Hpub; exact He].
        apply in_app_or in He. destruct He as [He|[<-|[]]]; [right; apply Hpub; exact He|left; reflexivity].
  Qed.

  Lemma public_of_sound q d : In d (public_of fs q) -> In d (top_decls (srcs q)) /\ d_public d = true.
  Proof.
    unfold public_of, srcs, src_of. destruct (lookup q (fs_files fs)) as [src|]; [|intros []].
    intros H. apply publish_sound in H. destruct H as [[]|H]. exact H.
  Qed.

  Lemma public_of_complete q d :
    NoDup (map d_name (top_decls (srcs q))) -> In d (top_decls (srcs q)) -> d_public d = true -> In d (public_of fs q).
  Proof.
    unfold public_of, srcs, src_of. destruct (lookup q (fs_files fs)) as [src|]; [|intros _ []].
    intros Hnd Hd Hp. apply publish_complete; auto.
  Qed.

  (* ---- IterateImportedDecls ---- *)
  Lemma find_decl_some n l d : find_decl n l = Some d -> In d l /\ d_name d = n.
  Proof. unfold find_decl. intros H. apply find_some in H. destruct H as [H1 H2]. apply N.eqb_eq in H2. auto. Qed.

  Lemma find_decl_none n l : find_decl n l = None -> forall d, In d l -> d_name d <> n.
  Proof. unfold find_decl. intros H d Hd Hn. apply (find_none _ _ H) in Hd. apply N.eqb_neq in Hd. auto. Qed.

  (* never a private declaration, never one of a module the statement did not resolve to *)
  Theorem imported_never_private i ms n q d :
    In (n, Some (q, d)) (imported_decls fs i ms) ->
    d_public d = true /\ In d (top_decls (srcs q)) /\ In q ms /\ d_name d = n.
  Proof.
    unfold imported_decls.
    assert (Hwhole : In (n, Some (q, d)) (flat_map (fun q0 => map (fun d0 => (d_name d0, Some (q0, d0))) (public_of fs q0)) ms) ->
                     d_public d = true /\ In d (top_decls (srcs q)) /\ In q ms /\ d_name d = n).
    { intros H. apply in_flat_map in H. destruct H as [q0 [Hq0 H]]. apply in_map_iff in H.
      destruct H as [d0 [E Hd0]]. injection E as <- <- <-. destruct (public_of_sound _ _ Hd0). auto. }
    destruct (i_form i) as [|ns|r]; auto.
    destruct ms as [|q0 ms]; [intros []|]. intros H. apply in_map_iff in H. destruct H as [n0 [E Hn0]].
    destruct (find_decl n0 (public_of fs q0)) as [d0|] eqn:Ef; [|discriminate].
    injection E as <- <- <-. destruct (find_decl_some _ _ _ Ef) as [Hin Hname].
    destruct (public_of_sound _ _ Hin). split; [auto|split; [auto|split; [left; reflexivity|exact Hname]]].
  Qed.

  (* a whole-module (or directory) import hands over every public declaration of every resolved module *)
  Theorem whole_import_all_public i ms q d :
    (forall ns, i_form i <> INamed ns) -> In q ms -> In d (public_of fs q) ->
    In (d_name d, Some (q, d)) (imported_decls fs i ms).
  Proof.
    intros Hf Hq Hd. unfold imported_decls.
    assert (H : In (d_name d, Some (q, d)) (flat_map (fun q0 => map (fun d0 => (d_name d0, Some (q0, d0))) (public_of fs q0)) ms)).
    { apply in_flat_map. exists q. split; [exact Hq|]. apply in_map_iff. exists d. auto. }
    destruct (i_form i) as [|ns|r]; auto. exfalso. exact (Hf ns eq_refl).
  Qed.

  (* a selective import hands over exactly the listed names: the public declaration of that name, or nothing *)
  Theorem named_import_exact i q ms ns :
    i_form i = INamed ns ->
    imported_decls fs i (q :: ms) =
    map (fun n => (n, match find_decl n (public_of fs q) with Some d => Some (q, d) | None => None end)) ns.
  Proof. intros H. unfold imported_decls. rewrite H. reflexivity. Qed.

  (* ---- the resolver only ever enters own declarations and imported public ones ---- *)
  Variable p : path.

  Definition entry_ok (e : entry) : Prop :=
    fst e = p \/ (d_public (snd e) = true /\ In (snd e) (top_decls (srcs (fst e)))).
  Definition table_ok (t : table) : Prop := forall n e, In (n, e) t -> entry_ok e.
  Definition state_ok (s : pstate) : Prop := Forall table_ok (p_scopes s) /\ table_ok (p_aliases s).

  Lemma lookup_ok t n e : table_ok t -> lookup n t = Some e -> entry_ok e.
  Proof. intros Ht H. apply lookup_In in H. eapply Ht; eauto. Qed.

  Lemma lookup_scopes_ok ss n e : Forall table_ok ss -> lookup_scopes n ss = Some e -> entry_ok e.
  Proof.
    induction 1 as [|t ss Ht _ IH]; cbn [lookup_scopes]; [discriminate|].
    destruct (lookup n t) eqn:E; [intros H; injection H as <-; eapply lookup_ok; eauto|exact IH].
  Qed.

  Lemma insert_cur_ok n e ss : entry_ok e -> Forall table_ok ss -> Forall table_ok (insert_cur n e ss).
  Proof.
    intros He Hs. destruct Hs as [|t ss Ht Hss]; cbn [insert_cur].
    - constructor; [|constructor]. intros n' e' [E|[]]. injection E as <- <-. exact He.
    - constructor; [|exact Hss]. intros n' e' [E|H]; [injection E as <- <-; exact He|eapply Ht; eauto].
  Qed.

  Lemma report_ok inst line errs s : state_ok s -> state_ok (report inst p line errs s).
  Proof. intros H. unfold report. destruct errs; [exact H|]. destruct (has_diag_at _ _ _); exact H. Qed.

  Section WithRes.
    Variable inst : N.
    Variable res : resolved.
    Variable ld : list diag.

    Lemma resolve_import_ok i s : state_ok s -> state_ok (fst (resolve_import fs inst p res ld i s)).
    Proof.
      intros Hs. unfold resolve_import.
      set (ds := imported_decls fs i (match lookup (i_line i) res with Some ms => ms | None => [] end)).
      assert (Hds : forall n e, In (n, Some e) ds -> entry_ok e).
      { intros n [q d] H. apply imported_never_private in H. right. cbn. tauto. }
      clearbody ds.
      assert (H1 : forall l st, (forall n e, In (n, Some e) l -> entry_ok e) -> state_ok (fst st) ->
                   state_ok (fst (fold_left import_alias_step l st))).
      { induction l as [|[n [[q d]|]] l IH]; intros [s0 e0] Hl H0; cbn [fold_left]; auto.
        - apply IH; [intros n' e' H'; apply (Hl n' e'); right; exact H'|].
          cbn [import_alias_step fst]. destruct (lookup_scopes n (p_scopes s0)); [exact H0|].
          destruct (d_kind d); try exact H0. destruct (lookup n (p_aliases s0)); cbn [fst]; [exact H0|].
          destruct H0 as [Ha Hb]. split; [exact Ha|]. cbn [p_aliases].
          intros n' e' [E|H']; [injection E as <- <-; apply (Hl n (q, d)); left; reflexivity|eapply Hb; eauto].
        - apply IH; [intros n' e' H'; apply (Hl n' e'); right; exact H'|exact H0]. }
      assert (H2 : forall l st, (forall n e, In (n, Some e) l -> entry_ok e) -> state_ok (fst st) ->
                   state_ok (fst (fold_left import_resolve_step l st))).
      { induction l as [|[n [e|]] l IH]; intros [s0 e0] Hl H0; cbn [fold_left]; auto.
        - apply IH; [intros n' e' H'; apply (Hl n' e'); right; exact H'|].
          cbn [import_resolve_step fst]. destruct (in_cur n (p_scopes s0)); cbn [fst]; [exact H0|].
          destruct H0 as [Ha Hb]. split; [|exact Hb]. cbn [p_scopes]. apply insert_cur_ok; [|exact Ha].
          apply (Hl n e). left; reflexivity.
        - apply IH; [intros n' e' H'; apply (Hl n' e'); right; exact H'|exact H0]. }
      specialize (H1 ds (s, []) Hds Hs).
      destruct (fold_left import_alias_step ds (s, [])) as [s1 e1]. cbn [fst] in H1.
      specialize (H2 ds (s1, []) Hds H1).
      destruct (fold_left import_resolve_step ds (s1, [])) as [s2 e2]. cbn [fst] in *.
      destruct (has_diag_at inst (i_line i) ld); [exact H2|apply report_ok; exact H2].
    Qed.

    (* every resolved use in the annotated tree *)
    Fixpoint ruses_ok (x : rstmt) : Prop :=
      match x with
      | RUse _ _ (Some e) => entry_ok e
      | RDecl _ _ body => (fix go (l : list rstmt) : Prop := match l with [] => True | y :: t => ruses_ok y /\ go t end) body
      | RBlock _ body => (fix go (l : list rstmt) : Prop := match l with [] => True | y :: t => ruses_ok y /\ go t end) body
      | _ => True
      end.
    Fixpoint ruses_ok_l (l : list rstmt) : Prop := match l with [] => True | y :: t => ruses_ok y /\ ruses_ok_l t end.
    Lemma ruses_ok_decl line d body : ruses_ok (RDecl line d body) <-> ruses_ok_l body.
    Proof. cbn [ruses_ok]. induction body as [|y t IH]; cbn [ruses_ok_l]; tauto. Qed.
    Lemma ruses_ok_block c body : ruses_ok (RBlock c body) <-> ruses_ok_l body.
    Proof. cbn [ruses_ok]. induction body as [|y t IH]; cbn [ruses_ok_l]; tauto. Qed.

    Lemma push_ok s : state_ok s -> state_ok (push s).
    Proof. intros [Ha Hb]. split; [constructor; [intros n e []|exact Ha]|exact Hb]. Qed.
    Lemma pop_ok s : state_ok s -> state_ok (pop s).
    Proof. intros [Ha Hb]. split; [|exact Hb]. cbn. destruct Ha; [constructor|assumption]. Qed.

    Lemma resolve_stmt_ok x : forall s, state_ok s ->
      state_ok (fst (resolve_stmt fs inst p res ld x s)) /\ ruses_ok (snd (resolve_stmt fs inst p res ld x s)).
    Proof.
      induction x as [i|line d body IH|line n k|t|c body IH] using stmt_ind'; intros s Hs.
      - cbn [resolve_stmt]. pose proof (resolve_import_ok i s Hs) as H.
        pose proof (resolve_import_snd fs inst p res ld i s) as H2.
        destruct (resolve_import fs inst p res ld i s) as [s1 r1]. cbn [fst snd] in *. subst r1. split; [exact H|exact I].
      - assert (Hb : forall s0, state_ok s0 -> state_ok (fst (resolve_stmts fs inst p res ld body s0)) /\
                                               ruses_ok_l (snd (resolve_stmts fs inst p res ld body s0))).
        { clear - IH. induction IH as [|y t Hy _ IHt]; intros s0 H0; cbn [resolve_stmts]; [split; [exact H0|exact I]|].
          destruct (Hy s0 H0) as [H1 H2]. destruct (resolve_stmt fs inst p res ld y s0) as [s1 r1]. cbn [fst snd] in *.
          destruct (IHt s1 H1) as [H3 H4]. destruct (resolve_stmts fs inst p res ld t s1) as [s2 rs2]. cbn [fst snd ruses_ok_l] in *. auto. }
        cbn [resolve_stmt]. destruct (d_kind d) eqn:Ek.
        + rewrite resolve_stmts_eq.
          match goal with |- context [resolve_stmts fs inst p res ld body ?s0] =>
            assert (H0 : state_ok s0); [|destruct (Hb s0 H0) as [H1 H2]; destruct (resolve_stmts fs inst p res ld body s0) as [s2 rb]] end.
          { apply push_ok. apply report_ok. destruct (is_global s); [|exact Hs].
            destruct Hs as [Ha Hb']. split; cbn [p_scopes p_aliases].
            - destruct (in_cur (d_name d) (p_scopes s)); [exact Ha|apply insert_cur_ok; [left; reflexivity|exact Ha]].
            - destruct (lookup (d_name d) (p_aliases s)); [exact Hb'|].
              intros n' e' [E|H']; [injection E as <- <-; left; reflexivity|eapply Hb'; eauto]. }
          cbn [fst snd] in *. split; [apply pop_ok; exact H1|apply ruses_ok_decl; exact H2].
        + cbn [fst snd]. split; [|exact I]. apply report_ok.
          destruct (in_cur (d_name d) (p_scopes s)); [exact Hs|]. destruct Hs as [Ha Hb']. split; [|exact Hb'].
          cbn [p_scopes]. apply insert_cur_ok; [left; reflexivity|exact Ha].
        + cbn [fst snd]. split; [|exact I]. apply report_ok.
          destruct (in_cur (d_name d) (p_scopes s)); [exact Hs|]. destruct Hs as [Ha Hb']. split; [|exact Hb'].
          cbn [p_scopes]. apply insert_cur_ok; [left; reflexivity|exact Ha].
        + cbn [fst snd]. split; [|exact I]. apply report_ok.
          destruct (in_cur (d_name d) (p_scopes s)); [exact Hs|]. destruct Hs as [Ha Hb']. split; [|exact Hb'].
          cbn [p_scopes]. apply insert_cur_ok; [left; reflexivity|exact Ha].
      - cbn [resolve_stmt].
        set (e := match k with KFunc => lookup n (p_aliases s) | _ => lookup_scopes n (p_scopes s) end).
        assert (He : forall e0, e = Some e0 -> entry_ok e0).
        { intros e0. subst e. destruct Hs as [Ha Hb']. destruct k; intros H;
            first [solve [eapply lookup_ok; eauto]|solve [eapply lookup_scopes_ok; eauto]]. }
        destruct e as [[q d]|]; [|split; [apply report_ok; exact Hs|exact I]].
        destruct (kind_eqb (d_kind d) k); cbn [fst snd]; [split; [exact Hs|apply He; reflexivity]|split; [apply report_ok; exact Hs|exact I]].
      - cbn [resolve_stmt fst snd]. split; [exact Hs|exact I].
      - assert (Hb : forall s0, state_ok s0 -> state_ok (fst (resolve_stmts fs inst p res ld body s0)) /\
                                               ruses_ok_l (snd (resolve_stmts fs inst p res ld body s0))).
        { clear - IH. induction IH as [|y t Hy _ IHt]; intros s0 H0; cbn [resolve_stmts]; [split; [exact H0|exact I]|].
          destruct (Hy s0 H0) as [H1 H2]. destruct (resolve_stmt fs inst p res ld y s0) as [s1 r1]. cbn [fst snd] in *.
          destruct (IHt s1 H1) as [H3 H4]. destruct (resolve_stmts fs inst p res ld t s1) as [s2 rs2]. cbn [fst snd ruses_ok_l] in *. auto. }
        cbn [resolve_stmt]. rewrite resolve_stmts_eq.
        destruct (Hb (push s) (push_ok s Hs)) as [H1 H2].
        destruct (resolve_stmts fs inst p res ld body (push s)) as [s2 rb]. cbn [fst snd] in *.
        split; [apply pop_ok; exact H1|apply ruses_ok_block; exact H2].
    Qed.

    (* C10: whatever the program, a name only ever resolves to a declaration of the module itself or to a
       public top-level declaration of another module *)
    Theorem resolve_never_private src :
      ruses_ok_l (snd (resolve_module fs inst p res ld src)).
    Proof.
      unfold resolve_module.
      assert (H0 : state_ok init_p) by (split; [constructor; [intros n e []|constructor]|intros n e []]).
      revert H0. generalize init_p. induction src as [|y t IH]; intros s0 H0; cbn [resolve_stmts]; [exact I|].
      destruct (resolve_stmt_ok y s0 H0) as [H1 H2]. destruct (resolve_stmt fs inst p res ld y s0) as [s1 r1]. cbn [fst snd] in *.
      specialize (IH s1 H1). destruct (resolve_stmts fs inst p res ld t s1) as [s2 rs2]. cbn [snd ruses_ok_l] in *. auto.
    Qed.

    (* ---- diagnostics ---- *)
    Lemma report_has_diag line c errs s : has_diag_at inst line (p_diags (report inst p line (c :: errs) s)) = true.
    Proof.
      unfold report. destruct (has_diag_at inst line (p_diags s)) eqn:E; [exact E|].
      cbn [p_diags]. unfold has_diag_at. rewrite existsb_app. cbn [existsb dg_inst dg_line].
      rewrite !N.eqb_refl. cbn. apply orb_true_r.
    Qed.

    Lemma resolve_step_errs l : forall st n, In (n, None) l -> snd (fold_left import_resolve_step l st) <> [].
    Proof.
      assert (Hgrow : forall l' st, snd st <> [] -> snd (fold_left import_resolve_step l' st) <> []).
      { induction l' as [|[n [e|]] l' IH]; intros [s0 e0] H0; cbn [fold_left]; auto; apply IH; cbn [import_resolve_step].
        - destruct (in_cur n (p_scopes s0)); cbn [snd] in *; [destruct e0; [congruence|discriminate]|exact H0].
        - cbn [snd] in *. destruct e0; discriminate. }
      induction l as [|[n' [e|]] l IH]; intros [s0 e0] n Hn; [destruct Hn| |]; cbn [fold_left].
      - destruct Hn as [E|Hn]; [discriminate|]. eapply IH; eauto.
      - destruct Hn as [E|Hn]; [|eapply IH; eauto]. apply Hgrow. cbn [import_resolve_step snd]. destruct e0; discriminate.
    Qed.

    (* a selective import of a name that is not public in the module is diagnosed at that statement *)
    Theorem named_import_unknown_diagnosed i ns q ms n s :
      i_form i = INamed ns -> lookup (i_line i) res = Some (q :: ms) -> In n ns ->
      find_decl n (public_of fs q) = None ->
      has_diag_at inst (i_line i) ld = true \/
      has_diag_at inst (i_line i) (p_diags (fst (resolve_import fs inst p res ld i s))) = true.
    Proof.
      intros Hf Hres Hn Hfind. destruct (has_diag_at inst (i_line i) ld) eqn:Eld; [left; reflexivity|right].
      unfold resolve_import. rewrite Hres, Eld.
      assert (Hin : In (n, None) (imported_decls fs i (q :: ms))).
      { rewrite (named_import_exact i q ms ns Hf). apply in_map_iff. exists n. rewrite Hfind. auto. }
      destruct (fold_left import_alias_step (imported_decls fs i (q :: ms)) (s, [])) as [s1 e1].
      pose proof (resolve_step_errs _ (s1, []) n Hin) as He.
      destruct (fold_left import_resolve_step (imported_decls fs i (q :: ms)) (s1, [])) as [s2 e2]. cbn [fst snd] in *.
      destruct (e1 ++ e2) as [|c errs] eqn:E; [apply app_eq_nil in E; tauto|]. apply report_has_diag.
    Qed.

    (* a name that nothing made visible cannot be used *)
    Theorem invisible_use_refused line n k s :
      k <> KFunc -> lookup_scopes n (p_scopes s) = None ->
      has_diag_at inst line (p_diags (fst (resolve_stmt fs inst p res ld (SUse line n k) s))) = true /\
      snd (resolve_stmt fs inst p res ld (SUse line n k) s) = RUse line k None.
    Proof.
      intros Hk Hl. cbn [resolve_stmt]. destruct k; [congruence| | |]; rewrite Hl; cbn [fst snd];
        (split; [apply report_has_diag|reflexivity]).
    Qed.

    Theorem invisible_call_refused line n s :
      lookup n (p_aliases s) = None ->
      has_diag_at inst line (p_diags (fst (resolve_stmt fs inst p res ld (SUse line n KFunc) s))) = true /\
      snd (resolve_stmt fs inst p res ld (SUse line n KFunc) s) = RUse line KFunc None.
    Proof.
      intros Hl. cbn [resolve_stmt]. rewrite Hl. cbn [fst snd]. split; [apply report_has_diag|reflexivity].
    Qed.
  End WithRes.
End Visible.
