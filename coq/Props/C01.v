(* C01 — compiled programs behave as DDP's evaluation rules prescribe.
   Only statements + `exact` of lemmas proved elsewhere, each followed by Print Assumptions.
   Specification: Lang/RefSem.v (exec_program).  Models of the implementation: Lang/Prec.v (precedence
   ladder of expressions.go), Lower/Ops.v (operator lowering of compiler.go), Lower/ListEq.v (generated list
   equality), Lower/ForLoop.v (counting-loop lowering).
   Status: prec_roundtrip FULL for the stated fragment; op lowering, unary, conversion, zwischen FULL (all values);
   list equality FULL for Zahlen Listen and Kommazahlen Listen;
   counting loop FULL for Zahl/Byte counters over abstract body/end-value evaluators.
   Whole-program preservation (DESIGN stage 4) is not proved: it is covered by the correspondence runs only. *)
From Coq Require Import ZArith List Bool Lia String.
Import ListNotations.
From DDP Require Import Lang.Syntax Lang.F64 Lang.RefSem Lang.Prec Lang.PrecProofs Lang.OpsCover Gen.Operators
  Lower.Ops Lower.OpsProofs Lower.ListEq Lower.ForLoop Lower.Control Lower.ControlRules Lower.ExprCompile Lower.StmtCompile.
Open Scope Z_scope.

(* (a) precedence and associativity as written: the ladder parser inverts the minimal-parentheses renderer
   on every expression of the binary-operator fragment (20 operators, 11 levels, parentheses) *)
Theorem C01_prec_roundtrip : forall e : pexpr, parse (render e) = Some e.
Proof. exact prec_roundtrip. Qed.
Print Assumptions C01_prec_roundtrip.

(* (b) operator lowering: for every scalar binary operator, all operand types and ALL operand values:
   if RefSem defines the result (no guard) then the emitted LLVM operation computes exactly RefSem's value.
   (At the pinned commit Byte durch Kommazahl was refuted - sitofp, witness 200 als Byte durch 2,0 = -28 - and
   the mixed Zahl/Byte cells were rejected by LLVM; repaired in /repo by 43c2135, 56bfc1a, 229b26f, 5ca8f5e.) *)
Theorem C01_op_lowering_correct :
  forall (pow : Z -> Z -> Z) (log10 : Z -> Z) (op : binop) (a b v : value),
    wf a -> wf b -> scalar_binop op = true ->
    RefSem.bin_op pow log10 op a b = ROk v ->
    Ops.lower_bin pow log10 op (repr a) (repr b) = LOk (repr v).
Proof. exact bin_lowering_correct. Qed.
Print Assumptions C01_op_lowering_correct.

Example C01_op_lowering_nonvacuous :
  wf (VB 200) /\ wf (VK two_f) /\ scalar_binop BDiv = true /\
  RefSem.bin_op (fun _ _ => 0) (fun _ => 0) BDiv (VB 200) (VK two_f) = ROk (VK (f_of_Z 100)).
Proof. repeat split; try (unfold wf, min64, max64; lia); vm_compute; reflexivity. Qed.

(* x modulo 0 is a Laufzeitfehler in RefSem and in the emitted code (explicit zero test, 78c0539); together with
   C01_op_lowering_correct (which now also covers the smallest Zahl modulo -1, shift counts outside 0..width-1 and
   saturating conversions - no guard is left on scalar operators) *)
Theorem C01_modulo_zero_lowering_correct :
  forall (pow : Z -> Z -> Z) (log10 : Z -> Z) (a b : value),
    wf a -> wf b -> RefSem.bin_op pow log10 BMod a b = RErr ->
    Ops.lower_bin pow log10 BMod (repr a) (repr b) = LRtErr.
Proof. exact mod_zero_lowering_correct. Qed.
Print Assumptions C01_modulo_zero_lowering_correct.

Example C01_modulo_zero_nonvacuous :
  wf (VZ 7) /\ wf (VB 0) /\ RefSem.bin_op (fun _ _ => 0) (fun _ => 0) BMod (VZ 7) (VB 0) = RErr /\
  RefSem.bin_op (fun _ _ => 0) (fun _ => 0) BMod (VZ min64) (VZ (-1)) = ROk (VZ 0) /\
  RefSem.bin_op (fun _ _ => 0) (fun _ => 0) BShl (VZ 1) (VZ 64) = ROk (VZ 0).
Proof. repeat split; try (unfold wf, min64, max64; lia); vm_compute; reflexivity. Qed.

Theorem C01_unary_lowering_correct :
  forall (op : unop) (a v : value),
    wf a -> op <> ULen ->
    RefSem.un_op op a = ROk v ->
    lower_un op (repr a) = LOk (repr v).
Proof. exact un_lowering_correct. Qed.
Print Assumptions C01_unary_lowering_correct.

Example C01_unary_nonvacuous :
  wf (VB 200) /\ UNeg <> ULen /\ RefSem.un_op UNeg (VB 200) = ROk (VZ (-200)).
Proof. repeat split; try (unfold wf, min64, max64; lia); try discriminate; reflexivity. Qed.

(* numeric conversions (`als` between scalar types = the implicit conversions of declarations/assignments) *)
Theorem C01_conversion_lowering_correct :
  forall (fmt_float : Z -> list Z) (t : ty) (a v : value),
    wf a -> scalar_ty t = true ->
    cast_to fmt_float t a = ROk v ->
    lower_cast t (repr a) = LOk (repr v).
Proof. exact cast_lowering_correct. Qed.
Print Assumptions C01_conversion_lowering_correct.

Example C01_conversion_nonvacuous :
  wf (VZ 300) /\ scalar_ty TByte = true /\ cast_to (fun _ => []) TByte (VZ 300) = ROk (VB 44).
Proof. repeat split; try (unfold wf, min64, max64; lia); reflexivity. Qed.

Theorem C01_between_lowering_correct :
  forall (x a b v : value),
    wf x -> wf a -> wf b ->
    between x a b = ROk v ->
    lower_between (repr x) (repr a) (repr b) = LOk (repr v).
Proof. exact between_lowering_correct. Qed.
Print Assumptions C01_between_lowering_correct.

(* equality of Zahlen Listen: the generated code (length test + memcmp == 0 on the element bytes) answers wahr
   exactly for equal lists.  (At the pinned commit memcmp was bound as returning i1 and [1] gleich [3] was
   wahr: refuted then, repaired by 6fc9b92.) *)
Theorem C01_list_equality_lowering_correct :
  forall a b, in_range a -> in_range b -> (lower_list_eq_zahl a b = true <-> a = b).
Proof. exact list_eq_lowering_correct. Qed.
Print Assumptions C01_list_equality_lowering_correct.

Example C01_list_equality_nonvacuous :
  in_range [1] /\ in_range [3] /\ lower_list_eq_zahl [1] [3] = false.
Proof. repeat split; try (repeat constructor; unfold min64, max64; lia); vm_compute; reflexivity. Qed.

(* equality of Kommazahlen Listen (element loop with fcmp une since f7e8a0b; bitwise memcmp before - found by
   this property's check): the emitted code computes exactly RefSem's element-wise `gleich`, for all lists *)
Theorem C01_list_equality_kommazahl_lowering_correct :
  forall a b, value_eqb (VL TKomma (map VK a)) (VL TKomma (map VK b)) = Some (lower_list_eq_komma a b).
Proof. exact list_eq_komma_lowering_correct. Qed.
Print Assumptions C01_list_equality_kommazahl_lowering_correct.

(* (c) counting loops: direction from the sign of the step, inclusive bound, hidden 64-bit index, Byte
   counter truncated from it - the lowered blocks refine the loop rule for every iteration count *)
Theorem C01_for_lowering_correct :
  forall (St : Type) (eval_to : St -> option (Z * St)) (body : St -> option (signal * St))
         (set_var : St -> value -> St) (is_byte : bool) (stp : Z),
    (forall s lim s', eval_to s = Some (lim, s') -> in64 lim) ->
    forall (n : nat) (i : Z) (s : St) (r : fin St),
      in64 i -> in64 stp ->
      for_spec St eval_to body set_var is_byte stp n i s = Some r ->
      exists k idx, lsteps St eval_to body set_var is_byte stp k (PCond, i mod 2^64, s)
                    = (fst (final_of St r), idx, snd (final_of St r)).
Proof. exact for_lowering_correct. Qed.
Print Assumptions C01_for_lowering_correct.

(* a Byte counter from 254 to 257 in steps of 1 visits 254 255 0 1 and then leaves *)
Example C01_for_nonvacuous :
  for_spec (list Z) (fun s => Some (257, s)) (fun s => Some (SigNext, s))
           (fun s v => match v with VB b => (s ++ [b])%list | _ => s end) true 1 10 254 []
  = Some (ForLoop.XLeave (list Z) [255; 0; 1; 2]).
Proof. vm_compute. reflexivity. Qed.

(* RefSem's counting-loop rule is that specification, unfolded once *)
Theorem C01_refsem_for_rule : forall pow log10 fmt ftab n genv en s t a i stp to body,
  loop_for_i pow log10 fmt ftab (S n) genv en s t a i stp to body =
  rbind (eval pow log10 fmt ftab n genv en s to) (fun tv s =>
  rbind (match tv with
         | VK _ => rbind (lift (cast_to fmt TZahl tv) s) (fun z s => match z with VZ k => Ok k s | _ => bad s end)
         | _ => match to_i tv with Some k => Ok k s | None => bad s end
         end) (fun lim s =>
  if (if stp <? 0 then i >=? lim else i <=? lim) then
    rbind (exec_block pow log10 fmt ftab n genv en s body) (fun fl s =>
    match fl with
    | FBreak => Ok FNext s
    | FRet v => Ok (FRet v) s
    | _ =>
        let i' := wrap64 (i + stp) in
        rbind (write_bind s (BLoc a) (match t with TByte => VB (wrap8 i') | _ => VZ i' end)) (fun _ s =>
        loop_for_i pow log10 fmt ftab n genv en s t a i' stp to body)
    end)
  else Ok FNext s)).
Proof. exact loop_for_i_rule. Qed.
Print Assumptions C01_refsem_for_rule.

(* the operators of the model are exactly the operator enums of src/ast/operators.go as regenerated on this
   run (Gen/Operators.v), in order, minus BIN_FIELD_ACCESS *)
Theorem C01_operator_enum_covered :
  map unop_name all_unops = gen_unary /\
  (map binop_name (firstn 23 all_binops) ++ ["BIN_FIELD_ACCESS"%string] ++ map binop_name (skipn 23 all_binops))%list = gen_binary /\
  map terop_name all_terops = gen_ternary.
Proof. exact operators_cover. Qed.
Print Assumptions C01_operator_enum_covered.

(* ---- DESIGN stage 3: control flow over abstract sub-evaluators that may fail or diverge ---------------- *)

(* und / oder: condbr + phi.  The right operand is evaluated exactly when RefSem evaluates it (the count is part
   of the observation), the result and the state are RefSem's; [is_and] selects und / oder *)
Theorem C01_shortcircuit_lowering_correct :
  forall (St : Type) (ev_l ev_r : St -> ores St bool) (is_and : bool) (s : St),
    sc_obs St (sc_step St ev_l ev_r is_and (sc_step St ev_l ev_r is_and (sc_step St ev_l ev_r is_and (sc_init St s))))
    = Some (sc_spec St ev_l ev_r is_and s).
Proof. exact shortcircuit_lowering_correct. Qed.
Print Assumptions C01_shortcircuit_lowering_correct.

(* falsch und <diverging operand> is falsch without touching the operand *)
Example C01_shortcircuit_nonvacuous :
  sc_spec nat (fun s => OVal false (S s)) (fun _ => ODiv) true 0%nat = (OVal false 1%nat, 0%nat) /\
  sc_spec nat (fun s => OVal true (S s)) (fun s => OErr s) true 0%nat = (OErr 1%nat, 1%nat).
Proof. split; reflexivity. Qed.

(* a, falls c, ansonsten b: the condition, then only the chosen side *)
Theorem C01_falls_lowering_correct :
  forall (St V : Type) (ev_c : St -> ores St bool) (ev_a ev_b : St -> ores St V) (s : St),
    fa_obs St V (fa_step St V ev_c ev_a ev_b (fa_step St V ev_c ev_a ev_b (fa_step St V ev_c ev_a ev_b (fa_init St V s))))
    = Some (falls_spec St V ev_c ev_a ev_b s).
Proof. exact falls_lowering_correct. Qed.
Print Assumptions C01_falls_lowering_correct.

Example C01_falls_nonvacuous :
  falls_spec nat Z (fun s => OVal false s) (fun _ => ODiv) (fun s => OVal 7 s) 0%nat = (OVal 7 0%nat, 0%nat, 1%nat).
Proof. reflexivity. Qed.

(* Solange c, mache: ...   for every iteration count; break -> leave, continue -> next test, return, failure *)
Theorem C01_while_lowering_correct :
  forall (St : Type) (ev_c : St -> ores St bool) (body : St -> ores St bsig) (n : nat) (s : St) (r : xres St),
    while_spec St ev_c body n s = Some r ->
    exists k, w_final St r (w_steps St ev_c body k (WCond, s)).
Proof. exact while_lowering_correct. Qed.
Print Assumptions C01_while_lowering_correct.

(* Mache: ... Solange c. *)
Theorem C01_dowhile_lowering_correct :
  forall (St : Type) (ev_c : St -> ores St bool) (body : St -> ores St bsig) (n : nat) (s : St) (r : xres St),
    dowhile_spec St ev_c body n s = Some r ->
    exists k, w_final St r (w_steps St ev_c body k (WBody, s)).
Proof. exact dowhile_lowering_correct. Qed.
Print Assumptions C01_dowhile_lowering_correct.

(* counts down from 3; `Fahre fort` at 2, `Verlasse` at 1 *)
Example C01_while_nonvacuous :
  while_spec Z (fun s => OVal (0 <? s) s)
    (fun s => if s =? 2 then OVal BCont (s - 1) else if s =? 1 then OVal BBreak 100 else OVal BNext (s - 1)) 10 3
  = Some (XLeave 100).
Proof. vm_compute. reflexivity. Qed.

(* Wiederhole: ... n Mal.   The counter is the widened count (a Byte count is zero-extended, f5edfd1) *)
Theorem C01_repeat_lowering_correct :
  forall (St : Type) (body : St -> ores St bsig) (n : nat) (k : Z) (s : St) (r : xres St),
    0 <= k <= max64 ->
    repeat_spec St body n k s = Some r ->
    exists j, r_final St r (r_steps St body j (RpCond, k mod 2^64, s)).
Proof. exact repeat_lowering_correct. Qed.
Print Assumptions C01_repeat_lowering_correct.

Theorem C01_repeat_counter_widening :
  forall v k, wf v -> to_i v = Some k -> repeat_counter v = Some (k mod 2^64).
Proof. exact repeat_counter_ok. Qed.
Print Assumptions C01_repeat_counter_widening.

Example C01_repeat_nonvacuous :
  0 <= 3 <= max64 /\ repeat_spec Z (fun s => OVal BNext (s + 1)) 10 3 0 = Some (XLeave 3) /\
  wf (VB 200) /\ to_i (VB 200) = Some 200.
Proof. repeat split; try (unfold wf, max64; lia); vm_compute; try reflexivity; intros C; discriminate C. Qed.

(* for-each over a copied container given as (element, width) cells: width = element size for a list, number of
   UTF-8 bytes for a Buchstabe of a Text.  The cursor walk visits exactly the elements in order; index variable,
   break/continue/return/failure as in RefSem.loop_each *)
Theorem C01_foreach_lowering_correct :
  forall (St : Type) (body : St -> ores St bsig) (set_var : St -> value -> St) (has_idx : bool)
         (get_idx : St -> Z) (set_idx : St -> Z -> St),
    (forall s, min64 <= get_idx s <= max64) ->
    forall (es : list (value * Z)) (s : St),
      widths_pos es ->
      exists k, e_final St (each_spec St body set_var has_idx get_idx set_idx es s)
                  (e_steps St body set_var has_idx get_idx set_idx es k (ECond, 0, s)).
Proof. intros St body set_var has_idx get_idx set_idx H es s W. apply foreach_stmt_lowering_correct; assumption. Qed.
Print Assumptions C01_foreach_lowering_correct.

Theorem C01_foreach_instances :
  (forall size vs, 0 < size -> widths_pos (list_cells size vs)) /\ (forall cs, widths_pos (text_cells cs)).
Proof. exact (conj list_cells_pos text_cells_pos). Qed.
Print Assumptions C01_foreach_instances.

(* the Text "a€" (1 + 3 bytes) with an index variable: the body sees a@1, €@2 *)
Example C01_foreach_nonvacuous :
  each_spec (list (Z * Z) * Z) (fun s => OVal BNext s)
            (fun s v => match v with VC c => ((fst s ++ [(c, snd s)])%list, snd s) | _ => s end) true snd (fun s i => (fst s, i))
            (text_cells [97; 8364]) ([], 1)
  = XLeave ([(97, 1); (8364, 2)], 3).
Proof. vm_compute. reflexivity. Qed.

(* counting loop with a Kommazahl counter: step and end value of any numeric type are cast to double (37dd3f7) *)
Theorem C01_forkomma_lowering_correct :
  forall (St : Type) (eval_to : St -> ores St value) (body : St -> ores St bsig) (set_var : St -> value -> St)
         (stp : value),
    (forall s tv s1, eval_to s = OVal tv s1 -> numeric tv) ->
    forall stpf, as_f stp = Some stpf -> numeric stp ->
    forall (n : nat) (i : Z) (s : St) (r : xres St),
      fork_spec St eval_to body set_var n stpf i s = Some r ->
      exists k, k_final St r (k_steps St eval_to body set_var stpf k (KCond, i, s)).
Proof. intros St eval_to body set_var stp H stpf H1 H2 n i s r H3. eapply forkomma_lowering_correct; eauto. Qed.
Print Assumptions C01_forkomma_lowering_correct.

Example C01_forkomma_nonvacuous :
  numeric (VZ 2) /\ as_f (VZ 2) = Some (f_of_Z 2) /\
  fork_spec nat (fun s => OVal (VB 3) s) (fun s => OVal BNext (S s)) (fun s _ => s) 10 (f_of_Z 2) (f_of_Z 0) 0%nat
  = Some (XLeave 2%nat).
Proof. repeat split; try (unfold numeric, wf, min64, max64; lia); vm_compute; reflexivity. Qed.

(* RefSem's evaluator is these specifications with eval / exec_block as the parameters (one unfolding each) *)
Theorem C01_refsem_control_rules :
  forall pow log10 fmt ftab n genv en s,
  (forall a b, eval pow log10 fmt ftab (S n) genv en s (EBin BAnd a b) =
     rbind (eval pow log10 fmt ftab n genv en s a) (fun v s =>
       match v with
       | VW false => Ok (VW false) s
       | VW true => rbind (eval pow log10 fmt ftab n genv en s b) (fun w s => match w with VW _ => Ok w s | _ => bad s end)
       | _ => bad s
       end)) /\
  (forall a c b, eval pow log10 fmt ftab (S n) genv en s (ETer TFalls a c b) =
     rbind (eval pow log10 fmt ftab n genv en s c) (fun cv s =>
       match cv with
       | VW true => eval pow log10 fmt ftab n genv en s a
       | VW false => eval pow log10 fmt ftab n genv en s b
       | _ => bad s
       end)) /\
  (forall k body, loop_repeat pow log10 fmt ftab (S n) genv en s k body =
     if k <=? 0 then Ok FNext s else
     rbind (exec_block pow log10 fmt ftab n genv en s body) (fun fl s =>
       match fl with
       | FBreak => Ok FNext s
       | FRet v => Ok (FRet v) s
       | _ => loop_repeat pow log10 fmt ftab n genv en s (k - 1) body
       end)).
Proof.
  intros. split; [|split]; intros.
  - apply refsem_and_rule.
  - apply refsem_falls_rule.
  - apply refsem_repeat_rule.
Qed.
Print Assumptions C01_refsem_control_rules.

(* ---- DESIGN stage 4 (start): composition into compiler models --------------------------------------------- *)

(* Expressions.  For EVERY expression tree of the scalar fragment (typeof G e = Some t: literals, scalar variables,
   all scalar unary/binary/ternary operators incl. und/oder/falls, conversions), every environment whose variables
   hold well-formed values of their declared types, and every fuel that covers the depth of the tree: RefSem.eval
   yields a well-formed value of type t and the compiled instruction tree evaluates to its machine representation,
   or both sides raise a Laufzeitfehler (modulo 0); RefSem never gets stuck, never runs out of fuel, and leaves the
   state unchanged.  (agree False ...: see ExprCompile.agree.) *)
Theorem C01_expr_preservation :
  forall (pow : Z -> Z -> Z) (log10 : Z -> Z) (fmt_float : Z -> list Z) (ftab : list fdecl)
         (G : tenv) (genv en : env) (s : state) (ld : ident -> option mval) (e : expr) (t : ty),
    env_ok G en s ld ->
    typeof G e = Some t ->
    forall fuel, (depth e <= fuel)%nat ->
    agree False t s (eval pow log10 fmt_float ftab fuel genv en s e) (lir_eval pow log10 ld (compile_expr e)).
Proof. exact expr_preservation. Qed.
Print Assumptions C01_expr_preservation.

(* 7 modulo (3 minus 3) in a closed environment: both sides a Laufzeitfehler; (200 als Byte) durch 2,0 : 100 *)
Example C01_expr_nonvacuous :
  typeof (fun _ => None) (EBin BMod (EInt 7) (EBin BMinus (EInt 3) (EInt 3))) = Some TZahl /\
  lir_eval (fun _ _ => 0) (fun _ => 0) (fun _ => None) (compile_expr (EBin BMod (EInt 7) (EBin BMinus (EInt 3) (EInt 3)))) = MErr /\
  lir_eval (fun _ _ => 0) (fun _ => 0) (fun _ => None)
           (compile_expr (EBin BOr (EBool true) (EBin BEq (EBin BMod (EInt 7) (EInt 0)) (EInt 1)))) = MOk (MI1 true).
Proof. repeat split; vm_compute; reflexivity. Qed.

(* Statements.  For every fuel and every block of the scalar statement fragment (block_ok: scalar declarations and
   assignments with implicit numeric conversion, Wenn, all five loop forms - Solange, Mache..Solange, Wiederhole,
   the counting loop `Fuer jede Zahl/Byte/Kommazahl x von a bis b (mit Schrittgroesse s)` in both directions with its
   conversions, and for-each over a list literal of scalars or a Text literal (with the optional index variable) -,
   break/continue, blocks, expression statements, Schreibe of scalars): whenever RefSem ends (normally or with a
   Laufzeitfehler) within the fuel, the compiled block run with the same fuel ends the same way with the same
   output bytes.  The machine keeps the counter / step / element sequence of a counting or for-each loop outside
   the variable cells (parameters of mfor_i / mfor_k / meach), as the generated code keeps them in registers; only
   the loop variable and the index variable are cells.
   NOT covered (the full `program_preservation : wt p -> run (compile p) = exec p` stays open): user functions and
   Gib (a call inside an expression makes expressions effectful: eval_sim's "state unchanged" clause and the pure
   lir_eval would both have to become state-passing), Text and list VALUES in variables (for-each iterates over
   literals only), and the step from these structured instruction trees to basic blocks beyond the construct-level
   theorems above. *)
Theorem C01_program_preservation_scalar :
  forall (pow : Z -> Z -> Z) (log10 : Z -> Z) (fmt_float : Z -> list Z) (ftab : list fdecl)
         (fuel : nat) (ss : list stmt) (o : bool * list Z),
    block_ok (fun _ => None) false ss = true ->
    observe (exec_block pow log10 fmt_float ftab fuel [] [] init_state ss) = Some o ->
    m_observe (mblock pow log10 fmt_float fuel [] init_mstate (map compile_stmt ss)) = Some o.
Proof. exact program_preservation_scalar. Qed.
Print Assumptions C01_program_preservation_scalar.

(* Die Zahl x1 ist 0. Solange x1 kleiner als 3 ist, mache: Schreibe x1. Speichere x1 plus 1 in x1.  -> "012" *)
Example C01_program_nonvacuous :
  let p := [SDecl TZahl 1%N (EInt 0);
            SWhile (EBin BLt (EVar 1%N) (EInt 3))
                   [SPrint (EVar 1%N); SAssign (LVar 1%N) (EBin BPlus (EVar 1%N) (EInt 1))]] in
  block_ok (fun _ => None) false p = true /\
  observe (exec_block (fun _ _ => 0) (fun _ => 0) (fun _ => []) [] 40 [] [] init_state p) = Some (false, [48; 49; 50]) /\
  m_observe (mblock (fun _ _ => 0) (fun _ => 0) (fun _ => []) 40 [] init_mstate (map compile_stmt p)) = Some (false, [48; 49; 50]).
Proof. repeat split; vm_compute; reflexivity. Qed.

(* Fuer jede Zahl i von 3 bis 1 mit Schrittgroesse -1: Schreibe i.   Fuer jede Kommazahl k von 1 bis 2 (Byte-Grenze):
   Schreibe (k als Zahl).   Fuer jeden Buchstaben c (Index j) in "ab": Schreibe j.   Fuer jede Zahl e in [7; 8]: wenn e = 8 verlasse.
   -> "321" "12" "12" "" *)
Example C01_program_loops_nonvacuous :
  let p := [SFor TZahl 1%N (EInt 3) (EInt 1) (Some (EUn UNeg (EInt 1))) [SPrint (EVar 1%N)];
            SFor TKomma 2%N (EInt 1) (ECast (EInt 2) TByte) None [SPrint (ECast (EVar 2%N) TZahl)];
            SForEach TChar 3%N (Some 4%N) (EText [97; 98]) [SPrint (EVar 4%N)];
            SForEach TZahl 5%N None (EListLit [EInt 7; EInt 8])
                     [SIf (EBin BEq (EVar 5%N) (EInt 8)) [SBreak] []]] in
  block_ok (fun _ => None) false p = true /\
  observe (exec_block (fun _ _ => 0) (fun _ => 0) (fun _ => []) [] 40 [] [] init_state p) = Some (false, [51; 50; 49; 49; 50; 49; 50]) /\
  m_observe (mblock (fun _ _ => 0) (fun _ => 0) (fun _ => []) 40 [] init_mstate (map compile_stmt p)) = Some (false, [51; 50; 49; 49; 50; 49; 50]).
Proof. repeat split; vm_compute; reflexivity. Qed.
