(* C01 — compiled programs behave as DDP's evaluation rules prescribe.
   Only statements + `exact` of lemmas proved elsewhere, each followed by Print Assumptions.
   Specification: Lang/RefSem.v (exec_program).  Models of the implementation: Lang/Prec.v (precedence
   ladder of expressions.go), Lower/Ops.v (operator lowering of compiler.go), Lower/ListEq.v (generated list
   equality), Lower/ForLoop.v (counting-loop lowering).
   Status: prec_roundtrip FULL for the stated fragment; op lowering, unary, conversion, zwischen FULL (all values);
   list equality FULL for Zahlen Listen and Kommazahlen Listen;
   counting loop FULL for Zahl/Byte counters over abstract body/end-value evaluators.
   Whole-program preservation (DESIGN stage 4) is not proved: it is covered by the correspondence runs only. *)
From Coq Require Import ZArith List Bool Lia String.
Import ListNotations.
From DDP Require Import Lang.Syntax Lang.F64 Lang.RefSem Lang.Prec Lang.PrecProofs Lang.OpsCover Gen.Operators
  Lower.Ops Lower.OpsProofs Lower.ListEq Lower.ForLoop.
Open Scope Z_scope.

(* (a) precedence and associativity as written: the ladder parser inverts the minimal-parentheses renderer
   on every expression of the binary-operator fragment (20 operators, 11 levels, parentheses) *)
Theorem C01_prec_roundtrip : forall e : pexpr, parse (render e) = Some e.
Proof. exact prec_roundtrip. Qed.
Print Assumptions C01_prec_roundtrip.

(* (b) operator lowering: for every scalar binary operator, all operand types and ALL operand values:
   if RefSem defines the result (no guard) then the emitted LLVM operation computes exactly RefSem's value.
   (At the pinned commit Byte durch Kommazahl was refuted - sitofp, witness 200 als Byte durch 2,0 = -28 - and
   the mixed Zahl/Byte cells were rejected by LLVM; repaired in /repo by 43c2135, 56bfc1a, 229b26f, 5ca8f5e.) *)
Theorem C01_op_lowering_correct :
  forall (pow : Z -> Z -> Z) (log10 : Z -> Z) (op : binop) (a b v : value),
    wf a -> wf b -> scalar_binop op = true ->
    RefSem.bin_op pow log10 op a b = ROk v ->
    Ops.lower_bin pow log10 op (repr a) (repr b) = LOk (repr v).
Proof. exact bin_lowering_correct. Qed.
Print Assumptions C01_op_lowering_correct.

Example C01_op_lowering_nonvacuous :
  wf (VB 200) /\ wf (VK two_f) /\ scalar_binop BDiv = true /\
  RefSem.bin_op (fun _ _ => 0) (fun _ => 0) BDiv (VB 200) (VK two_f) = ROk (VK (f_of_Z 100)).
Proof. repeat split; try (unfold wf, min64, max64; lia); vm_compute; reflexivity. Qed.

Theorem C01_unary_lowering_correct :
  forall (op : unop) (a v : value),
    wf a -> op <> ULen ->
    RefSem.un_op op a = ROk v ->
    lower_un op (repr a) = LOk (repr v).
Proof. exact un_lowering_correct. Qed.
Print Assumptions C01_unary_lowering_correct.

Example C01_unary_nonvacuous :
  wf (VB 200) /\ UNeg <> ULen /\ RefSem.un_op UNeg (VB 200) = ROk (VZ (-200)).
Proof. repeat split; try (unfold wf, min64, max64; lia); try discriminate; reflexivity. Qed.

(* numeric conversions (`als` between scalar types = the implicit conversions of declarations/assignments) *)
Theorem C01_conversion_lowering_correct :
  forall (fmt_float : Z -> list Z) (t : ty) (a v : value),
    wf a -> scalar_ty t = true ->
    cast_to fmt_float t a = ROk v ->
    lower_cast t (repr a) = LOk (repr v).
Proof. exact cast_lowering_correct. Qed.
Print Assumptions C01_conversion_lowering_correct.

Example C01_conversion_nonvacuous :
  wf (VZ 300) /\ scalar_ty TByte = true /\ cast_to (fun _ => []) TByte (VZ 300) = ROk (VB 44).
Proof. repeat split; try (unfold wf, min64, max64; lia); reflexivity. Qed.

Theorem C01_between_lowering_correct :
  forall (x a b v : value),
    wf x -> wf a -> wf b ->
    between x a b = ROk v ->
    lower_between (repr x) (repr a) (repr b) = LOk (repr v).
Proof. exact between_lowering_correct. Qed.
Print Assumptions C01_between_lowering_correct.

(* equality of Zahlen Listen: the generated code (length test + memcmp == 0 on the element bytes) answers wahr
   exactly for equal lists.  (At the pinned commit memcmp was bound as returning i1 and [1] gleich [3] was
   wahr: refuted then, repaired by 6fc9b92.) *)
Theorem C01_list_equality_lowering_correct :
  forall a b, in_range a -> in_range b -> (lower_list_eq_zahl a b = true <-> a = b).
Proof. exact list_eq_lowering_correct. Qed.
Print Assumptions C01_list_equality_lowering_correct.

Example C01_list_equality_nonvacuous :
  in_range [1] /\ in_range [3] /\ lower_list_eq_zahl [1] [3] = false.
Proof. repeat split; try (repeat constructor; unfold min64, max64; lia); vm_compute; reflexivity. Qed.

(* equality of Kommazahlen Listen (element loop with fcmp une since f7e8a0b; bitwise memcmp before - found by
   this property's check): the emitted code computes exactly RefSem's element-wise `gleich`, for all lists *)
Theorem C01_list_equality_kommazahl_lowering_correct :
  forall a b, value_eqb (VL TKomma (map VK a)) (VL TKomma (map VK b)) = Some (lower_list_eq_komma a b).
Proof. exact list_eq_komma_lowering_correct. Qed.
Print Assumptions C01_list_equality_kommazahl_lowering_correct.

(* (c) counting loops: direction from the sign of the step, inclusive bound, hidden 64-bit index, Byte
   counter truncated from it - the lowered blocks refine the loop rule for every iteration count *)
Theorem C01_for_lowering_correct :
  forall (St : Type) (eval_to : St -> option (Z * St)) (body : St -> option (signal * St))
         (set_var : St -> value -> St) (is_byte : bool) (stp : Z),
    (forall s lim s', eval_to s = Some (lim, s') -> in64 lim) ->
    forall (n : nat) (i : Z) (s : St) (r : fin St),
      in64 i -> in64 stp ->
      for_spec St eval_to body set_var is_byte stp n i s = Some r ->
      exists k idx, lsteps St eval_to body set_var is_byte stp k (PCond, i mod 2^64, s)
                    = (fst (final_of St r), idx, snd (final_of St r)).
Proof. exact for_lowering_correct. Qed.
Print Assumptions C01_for_lowering_correct.

(* a Byte counter from 254 to 257 in steps of 1 visits 254 255 0 1 and then leaves *)
Example C01_for_nonvacuous :
  for_spec (list Z) (fun s => Some (257, s)) (fun s => Some (SigNext, s))
           (fun s v => match v with VB b => (s ++ [b])%list | _ => s end) true 1 10 254 []
  = Some (XLeave (list Z) [255; 0; 1; 2]).
Proof. vm_compute. reflexivity. Qed.

(* RefSem's counting-loop rule is that specification, unfolded once *)
Theorem C01_refsem_for_rule : forall pow log10 fmt ftab n genv en s t a i stp to body,
  loop_for_i pow log10 fmt ftab (S n) genv en s t a i stp to body =
  rbind (eval pow log10 fmt ftab n genv en s to) (fun tv s =>
  rbind (match tv with
         | VK _ => rbind (lift (cast_to fmt TZahl tv) s) (fun z s => match z with VZ k => Ok k s | _ => bad s end)
         | _ => match to_i tv with Some k => Ok k s | None => bad s end
         end) (fun lim s =>
  if (if stp <? 0 then i >=? lim else i <=? lim) then
    rbind (exec_block pow log10 fmt ftab n genv en s body) (fun fl s =>
    match fl with
    | FBreak => Ok FNext s
    | FRet v => Ok (FRet v) s
    | _ =>
        let i' := wrap64 (i + stp) in
        rbind (write_bind s (BLoc a) (match t with TByte => VB (wrap8 i') | _ => VZ i' end)) (fun _ s =>
        loop_for_i pow log10 fmt ftab n genv en s t a i' stp to body)
    end)
  else Ok FNext s)).
Proof. exact loop_for_i_rule. Qed.
Print Assumptions C01_refsem_for_rule.

(* the operators of the model are exactly the operator enums of src/ast/operators.go as regenerated on this
   run (Gen/Operators.v), in order, minus BIN_FIELD_ACCESS *)
Theorem C01_operator_enum_covered :
  map unop_name all_unops = gen_unary /\
  (map binop_name (firstn 23 all_binops) ++ ["BIN_FIELD_ACCESS"%string] ++ map binop_name (skipn 23 all_binops))%list = gen_binary /\
  map terop_name all_terops = gen_ternary.
Proof. exact operators_cover. Qed.
Print Assumptions C01_operator_enum_covered.
