(* C02 — every program the frontend accepts is compiled completely.
   Model: Lower/TcTable.v (the checker's operator tables), Lower/LowerTable.v (the code generator's switches, the
   instructions they emit with their operand types, llir's and LLVM's acceptance of each), Lower/Cells.v (the
   finite cell space: every operator of src/ast/operators.go x every tuple of the 19 operand type classes x
   every value context).  The domain of every theorem is the inductive type `cell` (resp. `ctx`, `ty`), which
   the enumerations all_cells / all_ctxs / all_tys cover completely (first theorem): statements decided by
   vm_compute on the enumeration are statements about all cells.
   History: on the pinned tree lowering_total was refuted in 37 cells (9 families) and the list-element context
   failed for list-typed elements; both were repaired in /repo (KNOWN_FINDINGS.jsonl, `fixed: property=C02`),
   the tables mirror the repaired code and the theorems are now the full statements. *)
From Coq Require Import List Bool.
Import ListNotations.
From DDP Require Import Gen.OperatorEnum Lower.TcTable Lower.LowerTable Lower.Cells Lower.CellsProofs.

(* the bound: the enumerations the finite-domain proofs run over contain every cell, context and type class *)
Theorem C02_enumeration_complete :
  (forall c : cell, In c all_cells) /\ (forall x : ctx, In x all_ctxs) /\ (forall t : ty, In t all_tys).
Proof. exact (conj all_cells_complete (conj all_ctxs_complete all_tys_complete)). Qed.
Print Assumptions C02_enumeration_complete.

(* every operator application that type-checks has a lowering that neither aborts nor emits ill-typed IR, and whose
   IR type is the one of the type the checker assigned — for every operator and every tuple of operand classes *)
Theorem C02_lowering_total :
  forall c t, tc c = Some t ->
    exists d v code, lower c = Ok d v code /\ ir_well_typed (Ok d v code) = true /\ d = ir t.
Proof. exact lowering_total. Qed.
Print Assumptions C02_lowering_total.

Example C02_lowering_total_nonvacuous :
  tc (CUn UN_NEGATE (TB BByte)) = Some (TB BZahl) /\
  lower (CUn UN_NEGATE (TB BByte)) = Ok (Sc I64) (Sc I64) [IConv ZExt (Sc I8) (Sc I64); IBinC (Sc I64)] /\
  tc (CBin BIN_LOGIC_AND (TB BZahl) (TB BByte)) = Some (TB BZahl) /\
  lower (CBin BIN_LOGIC_AND (TB BZahl) (TB BByte)) = Ok (Sc I64) (Sc I64) [IConv ZExt (Sc I8) (Sc I64); IBin (Sc I64) (Sc I64)].
Proof. repeat split; reflexivity. Qed.

(* value contexts (initialiser, assignment, argument, return value, condition, list element): whenever the checker
   admits an expression of type t in context x, the code generator serves it for a consistently lowered operand *)
Theorem C02_context_consistent :
  forall x t, ctx_admits x t = true ->
    exists d v code, lower_ctx x t (ir t) (ir t) = Ok d v code /\ code_verdict code = VOk.
Proof. exact context_consistent_code. Qed.
Print Assumptions C02_context_consistent.

Example C02_context_consistent_nonvacuous :
  ctx_admits (CInit (TB BByte)) (TB BZahl) = true /\
  lower_ctx (CInit (TB BByte)) (TB BZahl) (Sc I64) (Sc I64) =
    Ok (Sc I8) (Sc I8) [IConv Trunc (Sc I64) (Sc I8); IStore (Sc I8) (Sc I8)] /\
  ctx_admits CElem (TL BZahl) = false.
Proof. repeat split; reflexivity. Qed.

(* end to end on the model: whatever the frontend admits — any cell, in any context its type is admitted in — is
   compiled (no internal error, IR accepted by llir and LLVM) *)
Theorem C02_admitted_cells_compile :
  forall c x t, tc c = Some t -> ctx_admits x t = true -> verdict_of c x = VOk.
Proof. exact admitted_cells_compile. Qed.
Print Assumptions C02_admitted_cells_compile.

Example C02_admitted_cells_compile_nonvacuous :
  let c := CTer TER_FALLS (TL BText) (TB BBool) (TL BText) in
  tc c = Some (TL BText) /\ ctx_admits (CReturn (TL BText)) (TL BText) = true /\
  verdict_of c (CReturn (TL BText)) = VOk.
Proof. repeat split; reflexivity. Qed.

(* cell_ok is exactly lowering_total at the cell, and the frontend verdict of the model is exactly the checker table *)
Theorem C02_cell_ok_spec :
  forall c, cell_ok c = true <->
    (forall t, tc c = Some t ->
       exists d v code, lower c = Ok d v code /\ ir_well_typed (Ok d v code) = true /\ d = ir t).
Proof. exact cell_ok_spec. Qed.
Print Assumptions C02_cell_ok_spec.

Theorem C02_verdict_reject_iff :
  forall c x, verdict_of c x = VReject <-> (tc c = None \/ exists t, tc c = Some t /\ ctx_admits x t = false).
Proof. exact verdict_reject_iff. Qed.
Print Assumptions C02_verdict_reject_iff.

(* statement-level operand positions (repeat count, loop and branch conditions, both list literal forms, assignment to
   an indexed target, counting loops with every counter x start x end x step class, range loops): the enumeration
   all_stmts covers every statement cell, and whatever the checker admits is lowered to well-typed code *)
Theorem C02_stmt_enumeration_complete : forall s : stmt, In s all_stmts.
Proof. exact all_stmts_complete. Qed.
Print Assumptions C02_stmt_enumeration_complete.

Theorem C02_stmt_lowering_total :
  forall s, tc_stmt s = true ->
    exists code, lower_stmt s = SOk code /\ stmt_well_typed (SOk code) = true.
Proof. exact stmt_lowering_total. Qed.
Print Assumptions C02_stmt_lowering_total.

Example C02_stmt_lowering_total_nonvacuous :
  tc_stmt (SRepeat (TB BByte)) = true /\
  lower_stmt (SRepeat (TB BByte)) =
    SOk [IConv ZExt (Sc I8) (Sc I64); IStore (Sc I64) (Sc I64); IBinC (Sc I64); ICmpC (Sc I64); ICondBr (Sc I1)] /\
  tc_stmt (SForStep (TB BZahl) (TB BByte) (TB BKomma) (TB BKomma)) = true /\
  stmt_well_typed (lower_stmt (SForStep (TB BZahl) (TB BByte) (TB BKomma) (TB BKomma))) = true /\
  tc_stmt (SListLit (TL BZahl) (TL BZahl)) = false.
Proof. repeat split; reflexivity. Qed.
