(* C03 — the frontend is total (PARTIAL by nature: see DESIGN.md §5 C03).
   What Coq carries here: progress/termination of the driving loops of the parser over an abstract
   declaration parser that satisfies the stated progress contract. Crash-freedom of the
   recursive-descent code itself (nil dereferences, failed type assertions, Go stack exhaustion)
   has no counterpart in a total Gallina model and is explored by the check, not proved. *)
From Coq Require Import List Arith Bool.
Import ListNotations.
From DDP Require Import Front.Loop Front.LoopProofs.

Theorem C03_main_loop_terminates_partial :
  forall (tok : Type) (is_dot : tok -> bool) (starts_stmt : tok -> tok -> bool) (toks : list tok)
         (decl : nat -> nat * bool),
    (forall cur, cur < len tok toks -> cur < fst (decl cur) <= len tok toks) ->
    parse_loop tok is_dot starts_stmt toks decl (S (len tok toks)) 0 = Some (len tok toks).
Proof. exact parse_loop_terminates. Qed.
Print Assumptions C03_main_loop_terminates_partial.

Theorem C03_synchronize_stays_in_stream :
  forall (tok : Type) (is_dot : tok -> bool) (starts_stmt : tok -> tok -> bool) (toks : list tok) fuel cur,
    cur <= len tok toks ->
    cur <= synchronize tok is_dot starts_stmt toks fuel cur <= len tok toks.
Proof. exact synchronize_bounds. Qed.
Print Assumptions C03_synchronize_stays_in_stream.

(* the progress contract is necessary: without it the loop does not terminate *)
Theorem C03_contract_necessary :
  exists (toks : list nat) (decl : nat -> nat * bool),
    parse_loop nat (fun _ => false) (fun _ _ => true) toks decl 1000 0 = None.
Proof. exact (ex_intro _ [7; 8] (ex_intro _ (fun cur => (cur, true)) stuck_declaration_spins)). Qed.
Print Assumptions C03_contract_necessary.
