(* C04 — statically ill-formed programs are never accepted.
   Only statements + `exact` of lemmas proved in coq/Lang/Mini*Proofs.v, each followed by Print Assumptions.

   wf            declarative static semantics of the core (Lang/MiniTyping.v) = the specification
   check         the algorithm of parser+resolver+typechecker of the PINNED tree (Lang/MiniCheck.v, quirks on)
   check_patched the same algorithm with the four proposed patches (quirks off)
   inject        Coq's own fault injector, the one the harness runs (Lang/MiniMutate.v)

   Status: the full statement `check p = [] -> wf p` is FALSE of the pinned tree (C04_check_sound_refuted, one
   witness per defect in C04_each_quirk_unsound; all five replayed on the real frontend by checks/c04.py);
   C04_check_sound_partial is what holds of the pinned tree, C04_check_sound_patched is the full statement for
   the patched tree. *)
From Coq Require Import List Arith Bool.
Import ListNotations.
From DDP Require Import Lang.MiniSyntax Lang.MiniTyping Lang.MiniTypingProofs Lang.MiniCheck Lang.MiniGuard Lang.MiniCheckProofs
                        Lang.MiniShadowFree Lang.MiniCompleteProofs Lang.MiniMutate Lang.MiniMutateProofs.

(* the executable specification used by the harness decides the declarative one *)
Theorem C04_wfb_decides_wf : forall p, wfb p = true <-> wf p.
Proof. exact wfb_iff. Qed.
Print Assumptions C04_wfb_decides_wf.

(* GENERAL (every setting Q of the four quirk switches): the algorithm is sound on the programs on which the
   switched-on quirks do not matter (`guard Q`, a syntactic predicate that is `true` everywhere for `patched`) and
   complete on shadow-free programs; the check identifies on every run which setting the frontend in /repo is *)
Theorem C04_check_with_sound : forall Q p, check_with Q p = [] -> guard Q p = true -> wf p.
Proof. exact check_with_sound. Qed.
Print Assumptions C04_check_with_sound.

Theorem C04_check_with_complete : forall Q p, wf p -> shadow_free p = true -> check_with Q p = [].
Proof. exact check_with_complete. Qed.
Print Assumptions C04_check_with_complete.

(* FULL (patched tree): no diagnostic => well-formed, i.e. every ill-formed core program gets >= 1 diagnostic *)
Theorem C04_check_sound_patched : forall p, check_patched p = [] -> wf p.
Proof. exact check_patched_sound. Qed.
Print Assumptions C04_check_sound_patched.

Theorem C04_illformed_rejected_patched : forall p, ~ wf p -> check_patched p <> [].
Proof. exact (fun p H E => H (check_patched_sound p E)). Qed.
Print Assumptions C04_illformed_rejected_patched.

(* REFUTED (pinned tree): an ill-formed program without any diagnostic *)
Theorem C04_check_sound_refuted : exists p, check p = [] /\ ~ wf p.
Proof. exact check_sound_refuted. Qed.
Print Assumptions C04_check_sound_refuted.

(* each of the four quirks alone makes the frontend unsound (the loop-bound witness needs two of them); with all
   four patched the five witnesses are rejected *)
Theorem C04_each_quirk_unsound :
  check_with (only 0) w_void_eq = [] /\ check_with (only 1) w_void_ret = [] /\
  check_with (only 2) w_init_self = [] /\ check_with (only 3) w_priv_field = [] /\
  check_with void_eq_and_by_name w_for_scope = [] /\
  Forall (fun p => check_patched p <> []) [w_void_eq; w_void_ret; w_init_self; w_priv_field; w_for_scope].
Proof. exact each_quirk_unsound. Qed.
Print Assumptions C04_each_quirk_unsound.

Theorem C04_witnesses_illformed :
  Forall (fun p => check p = [] /\ wfb p = false) [w_void_eq; w_void_ret; w_init_self; w_priv_field; w_for_scope].
Proof. exact witnesses_accepted_illformed. Qed.
Print Assumptions C04_witnesses_illformed.

(* PARTIAL (pinned tree): sound on the programs on which none of the quirks matters (a syntactic class) *)
Theorem C04_check_sound_partial : forall p, check p = [] -> quirk_free p = true -> wf p.
Proof. exact check_sound_partial. Qed.
Print Assumptions C04_check_sound_partial.

(* non-vacuity direction: well-formed programs without shadowing are accepted (pinned and patched) *)
Theorem C04_check_complete_core : forall p, wf p -> shadow_free p = true -> check p = [].
Proof. exact check_complete_core. Qed.
Print Assumptions C04_check_complete_core.

Theorem C04_check_patched_complete_core : forall p, wf p -> shadow_free p = true -> check_patched p = [].
Proof. exact check_patched_complete_core. Qed.
Print Assumptions C04_check_patched_complete_core.

(* ... and the restriction is needed for the pinned tree: a well-formed program it rejects *)
Theorem C04_check_complete_refuted : exists p, wf p /\ check p <> [] /\ check_patched p = [].
Proof. exact check_complete_refuted. Qed.
Print Assumptions C04_check_complete_refuted.

(* every mutant of every fault class is ill-formed: the negative corpus of the harness really is negative *)
Theorem C04_inject_breaks_wf : forall fc s p, wf p -> site_ok fc s p -> ~ wf (inject fc s p).
Proof. exact inject_breaks_wf. Qed.
Print Assumptions C04_inject_breaks_wf.

Theorem C04_mutants_illformed : forall fc p p', In p' (mutants fc p) -> ~ wf p'.
Proof. exact mutants_illformed. Qed.
Print Assumptions C04_mutants_illformed.

(* ---- non-vacuity ------------------------------------------------------------------------------- *)
Example C04_ex_hypotheses :
  wf ex_ok /\ check ex_ok = [] /\ check_patched ex_ok = [] /\ quirk_free ex_ok = true /\ shadow_free ex_ok = true.
Proof. split; [apply wfb_iff |]; repeat split; vm_compute; reflexivity. Qed.

(* every fault class has a site in the example program or in a two-line variant of it *)
Example C04_ex_sites : forallb (fun fc => Nat.ltb 0 (length (mutants fc ex_ok))) all_faults = true.
Proof. vm_compute. reflexivity. Qed.

Example C04_ex_inject : site_ok FBreakOutside 0 ex_ok /\ wfb (inject FBreakOutside 0 ex_ok) = false /\
                        check (inject FBreakOutside 0 ex_ok) = [DBreak].
Proof.
  split; [unfold site_ok; apply Nat.ltb_lt; vm_compute; reflexivity |].
  split; vm_compute; reflexivity.
Qed.

Example C04_ex_illformed_rejected : ~ wf (inject FUndeclared 0 ex_ok) /\ check_patched (inject FUndeclared 0 ex_ok) <> [].
Proof.
  split.
  - intros H; apply wfb_iff in H; vm_compute in H; discriminate H.
  - vm_compute; discriminate.
Qed.
