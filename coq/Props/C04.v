(* C04 — statically ill-formed programs are never accepted.
   Only statements + `exact` of lemmas proved in coq/Lang/Mini*Proofs.v, each followed by Print Assumptions.

   wf            declarative static semantics of the core (Lang/MiniTyping.v) = the specification
   check         the algorithm of parser+resolver+typechecker as it is in /repo now (Lang/MiniCheck.v, `current`)
   check_pinned  the same algorithm with the four defects of the pinned tree (quirk switches on)
   inject        Coq's own fault injector, the one the harness runs (Lang/MiniMutate.v)

   Status: FULL.  The four defects found by this verification (gleich/ungleich on operands without a type, return of
   an expression without a type, typechecker re-resolving names by name + loop bounds resolved in the loop body,
   private fields of a Kombination that is not itself imported) were repaired in /repo by ec4b99d, 328cc02, 4309fac,
   581329c; the model was re-synchronised: `check p = [] -> wf p` holds of the tree as it is.  The witnesses of the
   defects stay as regression facts about `check_pinned`; checks/c04.py replays them on the real frontend on every run.
   Core (extended): indexed and field assignment, for-each, Wiederhole, do-while, list literals, verkettet, slicing.
   A fifth unsoundness defect found while widening the core (a list of elements WITHOUT a type, `(foo) verkettet mit
   (foo)`, `eine Liste, die aus (foo) besteht`) was repaired by d293d7b; the model has exactly that behaviour.
   One quirk of the tree is still mirrored by a switch (q_field_name_lookup, on in `current`): assigneable() looks
   the field name of a field assignment up as a variable and so rejects a well-formed program
   (C04_check_complete_refuted); a false rejection is not a C04 matter, the patch is models/c04_fix_6_*.patch. *)
From Coq Require Import List Arith Bool.
Import ListNotations.
From DDP Require Import Lang.MiniSyntax Lang.MiniTyping Lang.MiniTypingProofs Lang.MiniCheck Lang.MiniGuard Lang.MiniCheckProofs
                        Lang.MiniShadowFree Lang.MiniCompleteProofs Lang.MiniMutate Lang.MiniMutateProofs.

(* the executable specification used by the harness decides the declarative one *)
Theorem C04_wfb_decides_wf : forall p, wfb p = true <-> wf p.
Proof. exact wfb_iff. Qed.
Print Assumptions C04_wfb_decides_wf.

(* FULL: no diagnostic => well-formed, i.e. every ill-formed core program gets >= 1 diagnostic *)
Theorem C04_check_sound : forall p, check p = [] -> wf p.
Proof. exact check_sound. Qed.
Print Assumptions C04_check_sound.

Theorem C04_illformed_rejected : forall p, ~ wf p -> check p <> [].
Proof. exact (fun p H E => H (check_sound p E)). Qed.
Print Assumptions C04_illformed_rejected.

(* non-vacuity direction.  With ALL repairs (also of the field-name lookup of assigneable(), a false rejection that
   is still in /repo) the frontend accepts exactly the well-formed core programs ... *)
Theorem C04_check_patched_complete : forall p, wf p -> check_patched p = [].
Proof. exact check_patched_complete. Qed.
Print Assumptions C04_check_patched_complete.

Theorem C04_check_patched_iff_wf : forall p, check_patched p = [] <-> wf p.
Proof. exact check_patched_iff_wf. Qed.
Print Assumptions C04_check_patched_iff_wf.

(* ... while the frontend as it is rejects a well-formed program (Konstante called like a field that is assigned) *)
Theorem C04_check_complete_refuted : exists p, wf p /\ check p <> [] /\ check_patched p = [].
Proof. exact check_complete_refuted. Qed.
Print Assumptions C04_check_complete_refuted.

(* GENERAL (every setting Q of the quirk switches): sound on the programs on which the switched-on quirks do not
   matter (`guard Q`, a syntactic predicate that is `true` everywhere for `current` and `patched`); complete on
   shadow-free programs, and complete everywhere once the typechecker uses the resolver's bindings and fields are
   protected by type (both provided the field name of a field assignment is not looked up as a variable).
   The check identifies on every run which setting the frontend in /repo is. *)
Theorem C04_check_with_sound : forall Q p, check_with Q p = [] -> guard Q p = true -> wf p.
Proof. exact check_with_sound. Qed.
Print Assumptions C04_check_with_sound.

Theorem C04_check_with_complete : forall Q p, q_field_name_lookup Q = false -> wf p -> shadow_free p = true -> check_with Q p = [].
Proof. exact check_with_complete. Qed.
Print Assumptions C04_check_with_complete.

Theorem C04_check_with_complete_full : forall Q p, q_tc_by_name Q = false -> q_field_unimported Q = false ->
  q_field_name_lookup Q = false -> wf p -> check_with Q p = [].
Proof. exact check_with_complete_full. Qed.
Print Assumptions C04_check_with_complete_full.

(* every mutant of every fault class is ill-formed: the negative corpus of the harness really is negative *)
Theorem C04_inject_breaks_wf : forall fc s p, wf p -> site_ok fc s p -> ~ wf (inject fc s p).
Proof. exact inject_breaks_wf. Qed.
Print Assumptions C04_inject_breaks_wf.

Theorem C04_mutants_illformed : forall fc p p', In p' (mutants fc p) -> ~ wf p'.
Proof. exact mutants_illformed. Qed.
Print Assumptions C04_mutants_illformed.

Theorem C04_injected_fault_rejected : forall fc s p, wf p -> site_ok fc s p -> check (inject fc s p) <> [].
Proof. exact (fun fc s p Hwf Hs E => inject_breaks_wf fc s p Hwf Hs (check_sound _ E)). Qed.
Print Assumptions C04_injected_fault_rejected.

(* ---- regression facts about the pinned tree (before the repairs) -------------------------------- *)
(* it accepted ill-formed programs: five witnesses, each ill-formed, accepted then, rejected now *)
Theorem C04_pinned_witnesses :
  Forall (fun p => check_pinned p = [] /\ wfb p = false /\ check p <> [])
         [w_void_eq; w_void_ret; w_init_self; w_priv_field; w_for_scope].
Proof. exact witnesses_accepted_illformed. Qed.
Print Assumptions C04_pinned_witnesses.

(* each of the four defects alone made the frontend unsound (the loop-bound witness needs two of them) *)
Theorem C04_each_quirk_unsound :
  check_with (only 0) w_void_eq = [] /\ check_with (only 1) w_void_ret = [] /\
  check_with (only 2) w_init_self = [] /\ check_with (only 3) w_priv_field = [] /\
  check_with void_eq_and_by_name w_for_scope = [] /\
  Forall (fun p => check_patched p <> []) [w_void_eq; w_void_ret; w_init_self; w_priv_field; w_for_scope].
Proof. exact each_quirk_unsound. Qed.
Print Assumptions C04_each_quirk_unsound.

(* it was sound only where the defects do not matter, and rejected a well-formed program (late shadowing) that is
   accepted now *)
Theorem C04_pinned_sound_partial : forall p, check_pinned p = [] -> quirk_free p = true -> wf p.
Proof. exact check_pinned_sound_partial. Qed.
Print Assumptions C04_pinned_sound_partial.

Theorem C04_pinned_complete_refuted : exists p, wf p /\ check_pinned p <> [] /\ check p = [].
Proof. exact check_pinned_complete_refuted. Qed.
Print Assumptions C04_pinned_complete_refuted.

(* ---- non-vacuity ------------------------------------------------------------------------------- *)
Example C04_ex_hypotheses :
  wf ex_ok /\ check ex_ok = [] /\ check_pinned ex_ok = [] /\ quirk_free ex_ok = true /\ shadow_free ex_ok = true.
Proof. split; [apply wfb_iff |]; repeat split; vm_compute; reflexivity. Qed.

(* a well-formed program outside the shadow-free class (accepted now, rejected by the pinned tree) *)
Example C04_ex_shadowing : wf w_late_shadow /\ shadow_free w_late_shadow = false /\ check w_late_shadow = [].
Proof. split; [apply wfb_iff |]; repeat split; vm_compute; reflexivity. Qed.

(* every fault class has a site in the example program *)
Example C04_ex_sites : forallb (fun fc => Nat.ltb 0 (length (mutants fc ex_ok))) all_faults = true.
Proof. vm_compute. reflexivity. Qed.

Example C04_ex_inject : site_ok FBreakOutside 0 ex_ok /\ wfb (inject FBreakOutside 0 ex_ok) = false /\
                        check (inject FBreakOutside 0 ex_ok) = [DBreak].
Proof.
  split; [unfold site_ok; apply Nat.ltb_lt; vm_compute; reflexivity |].
  split; vm_compute; reflexivity.
Qed.

Example C04_ex_illformed_rejected : ~ wf (inject FUndeclared 0 ex_ok) /\ check (inject FUndeclared 0 ex_ok) <> [].
Proof.
  split.
  - intros H; apply wfb_iff in H; vm_compute in H; discriminate H.
  - vm_compute; discriminate.
Qed.
