(* C05 — compiled programs release every heap block exactly once.
   Only statements + `exact` of lemmas proved elsewhere, each followed by Print Assumptions. *)
From Coq Require Import List NArith Bool.
Import ListNotations.
From DDP Require Import Rt.Heap Rt.HeapProofs.
Open Scope N_scope.

(* the extracted checker that judges the real ledgers decides the property *)
Theorem C05_balancedb_correct : forall L : ledger, balancedb L = true <-> balanced L.
Proof. exact balancedb_correct. Qed.
Print Assumptions C05_balancedb_correct.

Example C05_balancedb_correct_nonvacuous :
  balanced [Ev 0 0 6 100; Ev 100 6 9 200; Ev 200 9 0 0] /\ ~ balanced [Ev 0 0 6 100; Ev 100 6 0 0; Ev 100 6 0 0] /\
  ~ balanced [Ev 0 0 6 100] /\ ~ balanced [Ev 0 0 6 100; Ev 100 5 0 0].
Proof.
  repeat split.
  - apply balancedb_correct. vm_compute. reflexivity.
  - intro H. apply balancedb_correct in H. vm_compute in H. discriminate H.
  - intro H. apply balancedb_correct in H. vm_compute in H. discriminate H.
  - intro H. apply balancedb_correct in H. vm_compute in H. discriminate H.
Qed.

(* "exactly once": in a balanced ledger every block is obtained exactly as often as it is released *)
Theorem C05_balanced_released_once :
  forall L : ledger, balanced L -> forall p, p <> 0 -> count (creates p) L = count (consumes p) L.
Proof. exact balanced_released_once. Qed.
Print Assumptions C05_balanced_released_once.
