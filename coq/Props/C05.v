(* C05 — compiled programs release every heap block exactly once.
   Only statements + `exact` of lemmas proved elsewhere, each followed by Print Assumptions.

   Layers:  Rt/Heap.v      ledger of ddp_reallocate calls, `balanced` (spec), `balancedb` (extracted checker)
            Lower/Own.v    skeleton -> ownership actions (the code generator's discipline) -> ledger
            Lower/OwnCheck.v  static ownership discipline on the actions (extracted)
            Lower/RtFns.v  runtime / generated list functions as actions
   FULL      C05_balancedb_correct, C05_balanced_released_once, C05_actions_balanced_on_every_exit,
             C05_runtime_fns_balanced, C05_concat_callers_balanced, C05_former_witnesses_balanced,
             C05_compile_ok + C05_program_balanced (the decidable fragment fprogram of Lower/CompileOk.v),
             C05_program_balanced_bounded (bound = the enumerated family of 36064 skeletons),
             C05_derived_reference_needs_owner, C05_element_of_temporary_in_falls
   PARTIAL   C05_program_balanced_partial (all skeleton programs whose compiled actions pass the static
             discipline — decidable, evaluated on every generated program by the check); the unbounded
             cases of cexpr_ok / cstmt_ok outside the fragment (listed in Lower/CompileOk.v) are not proved
   OLD CODE  C05_old_concat_functions_refuted documents the repaired defects on definitions named *_old *)
From Coq Require Import List NArith Bool.
Import ListNotations.
From DDP Require Import Rt.Heap Rt.HeapProofs Lower.Own Lower.OwnCheck Lower.OwnProofs Lower.RtFns Lower.CompileBounded Lower.CompileOk.
Local Open Scope nat_scope.

(* ---- the judge of the real ledgers ---------------------------------------------------------- *)
(* the extracted checker decides the property: every release/resize names a live block with its
   true size, nothing is live at the end *)
Theorem C05_balancedb_correct : forall L : ledger, balancedb L = true <-> balanced L.
Proof. exact balancedb_correct. Qed.
Print Assumptions C05_balancedb_correct.

Example C05_balancedb_correct_nonvacuous :
  balanced [Ev 0 0 6 100; Ev 100 6 9 200; Ev 200 9 0 0] /\ ~ balanced [Ev 0 0 6 100; Ev 100 6 0 0; Ev 100 6 0 0] /\
  ~ balanced [Ev 0 0 6 100] /\ ~ balanced [Ev 0 0 6 100; Ev 100 5 0 0].
Proof.
  repeat split.
  - apply balancedb_correct. vm_compute. reflexivity.
  - intro H. apply balancedb_correct in H. vm_compute in H. discriminate H.
  - intro H. apply balancedb_correct in H. vm_compute in H. discriminate H.
  - intro H. apply balancedb_correct in H. vm_compute in H. discriminate H.
Qed.

(* "exactly once": in a balanced ledger every block is obtained exactly as often as it is released *)
Theorem C05_balanced_released_once :
  forall L : ledger, balanced L -> forall p, p <> 0%N -> count (creates p) L = count (consumes p) L.
Proof. exact balanced_released_once. Qed.
Print Assumptions C05_balanced_released_once.

(* ---- statement level: all exits --------------------------------------------------------------- *)
(* Any sequence of ownership actions accepted by the static discipline keeps "exactly the owning slots
   hold disjoint live resources and the ledger is replayable" on EVERY exit: fallthrough reaches the
   computed state; a break / continue arrives, after the frees emitted for it, at the loop's exit /
   head state; a return arrives at the state the inlined call expects.  For every oracle and fuel. *)
Theorem C05_actions_balanced_on_every_exit :
  forall (i : instr) (K : ctx) (G : ost) (R : option ost) (fuel : nat) (st : rstate) (o : outcome) (st' : rstate),
    own_check K i G = Some R -> Inv G st -> run fuel i st = (o, st') ->
    match o with
    | ONormal => exists G', R = Some G' /\ Inv G' st'
    | OBreak => exists code Gt Gk Gk', k_brk K = Some (code, Gt) /\ Inv Gk st' /\ check_simple code Gk = Some Gk' /\ sub Gk' Gt = true
    | OContinue => exists code Gt Gk Gk', k_cont K = Some (code, Gt) /\ Inv Gk st' /\ check_simple code Gk = Some Gk' /\ sub Gk' Gt = true
    | ORet => exists Rr Gr, k_ret K = Some Rr /\ Inv Gr st' /\ sub Gr Rr = true
    | OFuel => True
    end.
Proof. exact own_check_sound. Qed.
Print Assumptions C05_actions_balanced_on_every_exit.

Example C05_actions_nonvacuous :
  (* a loop with a concatenation, an inlined call, break and continue from inner scopes is accepted *)
  program_ok (mkProg [mkFun [(10, MVal, true)] true (SReturn (Some (EVar 10)))]
                     (SSeq (SDecl 0 (EConcat (ELit 6%N) (ELit 2%N)))
                           (SWhile EPrim (SBlock (SSeq (SDecl 1 (EConcat (EVar 0) (ECall 0 (AVal (ELit 3%N) ANil))))
                                                       (SIf EPrim (SBlock SBreak) (SBlock SContinue))))))) = true.
Proof. vm_compute. reflexivity. Qed.

(* ---- program level ---------------------------------------------------------------------------- *)
(* PARTIAL: every skeleton program whose compiled actions pass the static discipline yields a
   balanced ledger whenever it terminates normally — for every oracle (control-flow path) and fuel *)
Theorem C05_program_balanced_partial :
  forall (P : program) (fuel : nat) (oracle : list bool) (L : ledger),
    program_ok P = true -> run_program fuel oracle P = Some L -> balanced L.
Proof. exact program_ok_balanced. Qed.
Print Assumptions C05_program_balanced_partial.

(* FULL for the fragment `fprogram` (decidable): expressions literal / variable / element read / unused temporaries
   (Länge, gleich) / slice / element of a temporary or a variable / Text concatenation with temporary or variable left operand / short-circuit `und`, `oder`;
   statements declaration, assignment to a variable and to an element/field (copy before free), expression statement
   (discarded result), block, `Wenn` with both arms, `Solange` and `Mache ... Solange` loops (condition temporaries in
   their own scope) with `Verlasse die Schleife` / `Fahre mit der Schleife fort` from inner scopes.  Every program of the
   fragment that the model compiles passes the static discipline, so every normally terminating run — any oracle, any
   fuel — has a balanced ledger.  (`falls`, list/struct literals, calls and return, `Wiederhole`, counting and for-each
   loops are NOT in this fragment: see C05_program_balanced_bounded / _partial and the list in Lower/CompileOk.v.) *)
Theorem C05_compile_ok :
  forall P, fprogram P = true -> compile P <> None -> program_ok P = true.
Proof. exact compile_ok. Qed.
Print Assumptions C05_compile_ok.

Theorem C05_program_balanced :
  forall P fuel oracle L, fprogram P = true -> run_program fuel oracle P = Some L -> balanced L.
Proof. exact program_balanced_fragment. Qed.
Print Assumptions C05_program_balanced.

Example C05_program_balanced_nonvacuous :
  let P := mkProg [] (SSeq (SDecl 0 (EConcat (ELit 6%N) (ELit 3%N)))
                     (SSeq (SWhile (EUse1 (EConcat (EVar 0) (ELit 2%N)))
                              (SBlock (SSeq (SDecl 1 (EConcat (EVar 0) (EVar 0)))
                                      (SSeq (SIf (EAnd (EUse1 (EVar 1)) (EUse2 (EVar 0) (EDerive (EVar 1) 2%N)))
                                                 (SBlock (SSeq (SAssign 0 (EVar 1)) SContinue))
                                                 (SBlock (SIf EPrim (SBlock SBreak) (SBlock SSkip))))
                                            (SAssign 0 (EVar 0))))))
                           (SSeq (SExpr (EPart 0 1)) (SDecl 2 (EConcat (EElem (EDerive (EVar 0) 4%N) 1) (EElem (EVar 0) 1)))))) in
  fprogram P = true /\ exists L, run_program 9 [true; true; true; true; true; false; true] P = Some L /\ L <> [] /\ balanced L.
Proof.
  cbn zeta. split; [reflexivity|]. eexists. split; [vm_compute; reflexivity|]. split; [discriminate|].
  apply balancedb_correct. vm_compute. reflexivity.
Qed.

(* FULL for an explicitly bounded family (the bound is the enumeration `family`, 36064 skeleton programs: 14 non-primitive
   expressions — among them an element of a TEMPORARY list (function result, list literal) alone and as either arm of
   `falls` — x 5 conditions (one: und/oder over comparisons of such elements, also as loop condition) x the ownership
   roles (incl. argument and return value) x every loop form x every exit from an inner scope — fallthrough,
   break, continue, return of a temporary / of a local —, in main and inside an inlined function; see CompileBounded.v):
   the code Own.compile emits for each of them passes the discipline, so every normally terminating run, for every
   oracle (control-flow path) and fuel, has a balanced ledger *)
Theorem C05_program_balanced_bounded :
  forall P, In P family ->
    program_ok P = true /\ forall fuel oracle L, run_program fuel oracle P = Some L -> balanced L.
Proof. exact (fun P H => conj (family_ok P H) (family_balanced P H)). Qed.
Print Assumptions C05_program_balanced_bounded.

Example C05_family_size : N.of_nat (length family) = 36064%N.
Proof. exact family_size. Qed.

(* the programs that were unbalanced under the originally pinned code generator (self-assignment; Solange condition,
   `bis` bound and loop header with temporaries; continue; return out of such a loop) are accepted — hence balanced on
   every path — under the repaired generator (6711de1 2f9971e bf84b8a 597753d) *)
Theorem C05_former_witnesses_balanced :
  forall P, In P [wit_self_assign; wit_while_cond; wit_for_bound; wit_continue_header; wit_continue_foreach; wit_return_in_while] ->
  forall fuel oracle L, run_program fuel oracle P = Some L -> balanced L.
Proof.
  intros P HP fuel oracle L. apply program_ok_balanced.
  pose proof former_witnesses_accepted as H. cbn [map] in H.
  repeat (destruct HP as [HP|HP]; [subst P; congruence|]). destruct HP.
Qed.
Print Assumptions C05_former_witnesses_balanced.

(* ---- references derived from a temporary owner (element / field of a temporary container) ----------------------- *)
(* the discipline has no action that reads a place whose owner is not owned (any more): a read in place (IUse: Länge,
   gleich, the source of a slice) and every deep copy out of a place (declaration/assignment/argument copy, list-literal
   component, right operand of a concatenation, element assignment) is rejected once the owner slot was released or
   claimed away.  A reference derived from a temporary must therefore
   be copied before the scope of that temporary ends. *)
Theorem C05_derived_reference_needs_owner :
  forall K G p, mem (root p) (o_own G) = false ->
  own_check K (IUse p) G = None /\
  (forall d, own_check K (ICopy d p) G = None) /\
  (forall d, own_check K (IAbsorbCopy d p) G = None) /\
  (forall d a, own_check K (IConcat d a p) G = None) /\
  (forall s k, own_check K (IAssignPartCopy s k p) G = None).
Proof. exact read_of_unowned_rejected. Qed.
Print Assumptions C05_derived_reference_needs_owner.

(* `(f an der Stelle 2), falls c, ansonsten v`, `v, falls c, ansonsten (<list literal> an der Stelle 1)` and a Solange
   condition comparing `(f an der Stelle 1)` (f returns a list: the indexed list is a temporary): BIN_INDEX copies the
   element inside the arm / the condition scope while the list is owned, the program is accepted and balanced on every
   path; the emission that hands a plain reference into the temporary list out of the arm (copy, or a mere comparison,
   after the arm's scope released the list) is rejected by the discipline *)
Theorem C05_element_of_temporary_in_falls :
  (forall fuel oracle L, run_program fuel oracle wit_elem_of_temp = Some L -> balanced L) /\
  own_check ctx0 arm_copy_then_release (mkO [] []) = Some (Some (mkO [] [])) /\
  own_check ctx0 arm_release_then_copy (mkO [] []) = None /\
  own_check ctx0 arm_release_then_read (mkO [] []) = None.
Proof. exact (conj (fun fuel oracle L => program_ok_balanced wit_elem_of_temp fuel oracle L elem_of_temp_accepted) derived_reference_must_not_outlive_owner). Qed.
Print Assumptions C05_element_of_temporary_in_falls.

(* ---- runtime and generated functions ----------------------------------------------------------- *)
(* each function transfers ownership as documented, for all argument values (state of /repo after c2054d3, 39a39c6) *)
Theorem C05_runtime_fns_balanced :
  triple (own [1]) fn_free (own []) /\
  triple (own [1]) fn_deep_copy (own [0; 1]) /\
  triple (own [1; 2]) fn_string_string_concat (mkO [0; 2] [1]) /\
  (forall n, triple (own [1]) (fn_string_char_concat n) (mkO [0] [1])) /\
  (forall n, triple (own [1; 2]) (fn_list_list_concat n) (mkO [0; 2] [1])) /\
  (forall n, triple (own [1; 2]) (fn_list_scalar_concat n) (mkO [0; 2] [1])) /\
  (forall n, triple (own [1; 2]) (fn_scalar_list_concat n) (mkO [0; 1] [2])) /\
  (forall n, triple (own []) (fn_scalar_scalar_concat_prim n) (own [0])) /\
  (forall n, triple (own [1; 2]) (fn_scalar_scalar_concat n) (own [0; 1; 2])) /\
  triple (own [1; 2]) fn_string_string_concat_nul_left (own [0; 1; 2]).
Proof. exact runtime_fns_balanced. Qed.
Print Assumptions C05_runtime_fns_balanced.

(* a caller that frees the result and both operands of a concatenation ends with a balanced ledger (scalar (+) scalar of
   non-primitive elements; Text whose claimed operand is empty for the runtime but owns a buffer) *)
Theorem C05_concat_callers_balanced :
  balanced (ledger_of (caller_of (fn_scalar_scalar_concat 128%N) 5%N 5%N)) /\
  balanced (ledger_of (caller_of fn_string_string_concat_nul_left 2%N 4%N)) /\
  balanced (ledger_of (caller_of fn_string_string_concat 2%N 4%N)) /\
  own_check ctx0 (caller_of (fn_scalar_scalar_concat 128%N) 5%N 5%N) (own []) = Some (Some (own [])) /\
  own_check ctx0 (caller_of fn_string_string_concat_nul_left 2%N 4%N) (own []) = Some (Some (own [])).
Proof. exact concat_callers_balanced. Qed.
Print Assumptions C05_concat_callers_balanced.

(* documentation only: the function bodies as generated BEFORE c2054d3 / 39a39c6 (definitions *_old) are rejected by the
   discipline and leave the same caller unbalanced *)
Theorem C05_old_concat_functions_refuted :
  own_check ctx0 (fn_scalar_scalar_concat_old 128%N) (own [1; 2]) = None /\
  ~ balanced (ledger_of (caller_of (fn_scalar_scalar_concat_old 128%N) 5%N 5%N)) /\
  own_check ctx0 (caller_of fn_string_string_concat_nul_left_old 2%N 4%N) (own []) = None /\
  ~ balanced (ledger_of (caller_of fn_string_string_concat_nul_left_old 2%N 4%N)).
Proof. exact old_concat_functions_refuted. Qed.
Print Assumptions C05_old_concat_functions_refuted.
