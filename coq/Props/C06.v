(* C06 — out-of-domain operations stop with a Laufzeitfehler, never silently. *)
From Coq Require Import List ZArith Bool.
Import ListNotations.
From DDP Require Import Rt.Bounds Rt.BoundsProofs.
Open Scope Z_scope.

(* the emitted list bounds check accepts exactly 1..len for EVERY 64-bit index value (0, negatives,
   INT64_MIN where index-1 wraps) and every representable length *)
Theorem C06_list_index_check_domain :
  forall len i, 0 <= len < two63 -> in_i64 i -> (idx_ok len i = true <-> 1 <= i <= len).
Proof. exact idx_ok_domain. Qed.
Print Assumptions C06_list_index_check_domain.

Theorem C06_list_index_domain :
  forall (A : Type) (l : list A) i, Z.of_nat (length l) < two63 -> in_i64 i ->
    ((exists x, list_index l i = Some x) <-> 1 <= i <= Z.of_nat (length l)).
Proof. exact @list_index_domain. Qed.
Print Assumptions C06_list_index_domain.

Theorem C06_list_index_value :
  forall (A : Type) (l : list A) i, Z.of_nat (length l) < two63 -> 1 <= i <= Z.of_nat (length l) ->
    list_index l i = nth_error l (Z.to_nat (i - 1)).
Proof. exact @list_index_value. Qed.
Print Assumptions C06_list_index_value.

(* assignment target / Referenz argument: fails exactly outside 1..len, otherwise writes exactly
   slot i and nothing else *)
Theorem C06_list_store_spec :
  forall (A : Type) (l : list A) i v, Z.of_nat (length l) < two63 -> in_i64 i ->
    match list_store l i v with
    | Some l' => 1 <= i <= Z.of_nat (length l) /\ length l' = length l /\
                 forall k, nth_error l' k = if Nat.eqb k (Z.to_nat (i - 1)) then Some v else nth_error l k
    | None => ~ (1 <= i <= Z.of_nat (length l))
    end.
Proof. exact @list_store_spec. Qed.
Print Assumptions C06_list_store_spec.

(* slicing: clamping as documented, crossed bounds <-> Laufzeitfehler, empty list -> empty *)
Theorem C06_list_slice_spec :
  forall (A : Type) (l : list A) i1 i2, Z.of_nat (length l) < two63 ->
    let len := Z.of_nat (length l) in
    let a := clampZ i1 1 len in
    let b := clampZ i2 1 len in
    match list_slice l i1 i2 with
    | SliceError => len > 0 /\ b < a
    | SliceOk r =>
      (len = 0 /\ r = []) \/
      (len > 0 /\ a <= b /\ r = firstn (Z.to_nat (b - a + 1)) (skipn (Z.to_nat (a - 1)) l) /\
       Z.of_nat (length r) = b - a + 1)
    end.
Proof. exact @list_slice_spec. Qed.
Print Assumptions C06_list_slice_spec.

Theorem C06_clamp_documented :
  forall v lo hi, lo <= hi ->
    (lo <= v <= hi -> clampZ v lo hi = v) /\ (v < lo -> clampZ v lo hi = lo) /\ (hi < v -> clampZ v lo hi = hi).
Proof. exact (fun v lo hi H => conj (clampZ_id v lo hi) (conj (clampZ_low v lo hi H) (clampZ_high v lo hi H))). Qed.
Print Assumptions C06_clamp_documented.

Theorem C06_one_sided_slices_never_fail :
  forall (A : Type) (l : list A) i, Z.of_nat (length l) < two63 ->
    list_slice_from l i <> SliceError /\ list_slice_to l i <> SliceError.
Proof. exact (fun A l i H => conj (list_slice_from_total l i H) (list_slice_to_total l i H)). Qed.
Print Assumptions C06_one_sided_slices_never_fail.

Theorem C06_one_sided_slices_value :
  forall (A : Type) (l : list A) i, Z.of_nat (length l) < two63 -> 1 <= i <= Z.of_nat (length l) ->
    list_slice_from l i = SliceOk (skipn (Z.to_nat (i - 1)) l) /\ list_slice_to l i = SliceOk (firstn (Z.to_nat i) l).
Proof. exact (fun A l i H R => conj (list_slice_from_value l i H R) (list_slice_to_value l i H R)). Qed.
Print Assumptions C06_one_sided_slices_value.

Theorem C06_text_index_domain :
  forall cap cps i, (cps <> [] -> Z.of_nat (length cps) + 1 <= cap) -> (cps = [] -> 0 <= cap <= 1) ->
    ((exists c, text_index cap cps i = Some c) <-> 1 <= i <= Z.of_nat (length cps)).
Proof. exact text_index_domain. Qed.
Print Assumptions C06_text_index_domain.

Theorem C06_text_index_value :
  forall cap cps i c, text_index cap cps i = Some c -> nth_error cps (Z.to_nat (i - 1)) = Some c.
Proof. exact text_index_value. Qed.
Print Assumptions C06_text_index_value.

Theorem C06_text_replace_domain :
  forall cap cps i c, (cps <> [] -> Z.of_nat (length cps) + 1 <= cap) -> (cps = [] -> 0 <= cap <= 1) ->
    ((exists r, text_replace cap cps i c = Some r) <-> 1 <= i <= Z.of_nat (length cps)).
Proof. exact text_replace_domain. Qed.
Print Assumptions C06_text_replace_domain.

Theorem C06_text_slice_spec :
  forall cps i1 i2,
    let len := Z.of_nat (length cps) in
    let a := clampZ i1 1 len in
    let b := clampZ i2 1 len in
    match text_slice cps i1 i2 with
    | SliceError => len > 0 /\ b < a
    | SliceOk r => (len = 0 /\ r = []) \/
                   (len > 0 /\ a <= b /\ r = firstn (Z.to_nat (b - a + 1)) (skipn (Z.to_nat (a - 1)) cps))
    end.
Proof. exact text_slice_spec. Qed.
Print Assumptions C06_text_slice_spec.

Theorem C06_any_cast_domain :
  forall (V : Type) held target (v : V),
    (any_cast held target v = None <-> held <> target) /\ (held = target -> any_cast held target v = Some v).
Proof. exact @any_cast_domain. Qed.
Print Assumptions C06_any_cast_domain.

Theorem C06_todo_stops : todo_stmt = Laufzeitfehler 1.
Proof. exact todo_stops. Qed.
Print Assumptions C06_todo_stops.
