(* C07 — failure is reported faithfully: flag, exit status and source ranges.
   Only statements + `exact` of lemmas proved in Diag/FlagsProofs.v, Diag/FlagsWarn.v and
   Diag/RenderProofs.v, each followed by Print Assumptions.

   `complete pinned tr s`: tr is a well-bracketed event trace of the frontend (every event admissible, the
   root's Parse returned) and s the final state. any_faulty = the root or some imported module has
   Ast.Faulty; delivered_error = the caller's handler received a LEVEL_ERROR diagnostic.

   The machine takes a configuration: `pinned` = the code as pinned, `repaired` = the code with the
   three proposed repairs (checks/c07.py determines on every run which one /repo is).
   For `pinned` the full equivalence does NOT hold (two refutations, both replayed on the real
   frontend by checks/c07.py); what holds is stated as *_partial under the hypotheses
   no_stale_flag / no_root_scanner_error, which are exactly the negations of the two defects.
   For `repaired` the equivalence, the exit status and the no-artefact statement hold for every
   well-bracketed trace without hypotheses (theorems ending in _repaired). *)
From Coq Require Import List NArith Bool.
Import ListNotations.
From DDP Require Import Diag.Flags Diag.FlagsProofs Diag.FlagsWarn Diag.FlagsRepaired Diag.Render Diag.RenderProofs.
Close Scope N_scope.

(* REFUTED, direction Faulty -> diagnostic: a discarded candidate instantiation of an imported
   generic leaves the declaring module flagged although nothing was delivered *)
Theorem C07_faulty_iff_delivered_refuted :
  exists tr s, complete pinned tr s /\ any_faulty s = true /\ root_faulty s = false /\ delivered_error s = false.
Proof. exact faulty_iff_delivered_refuted. Qed.
Print Assumptions C07_faulty_iff_delivered_refuted.

(* REFUTED, direction diagnostic -> Faulty: an error of the root module's scanner bypasses the
   wrapper that sets parser.errored *)
Theorem C07_delivered_imp_faulty_refuted :
  exists tr s, complete pinned tr s /\ delivered_error s = true /\ any_faulty s = false.
Proof. exact delivered_imp_faulty_refuted. Qed.
Print Assumptions C07_delivered_imp_faulty_refuted.

(* PARTIAL: for every complete run in which no resolver/typechecker flagged a module that was not
   being parsed and the root's scanner reported no error, (root or an imported module Faulty) <->
   an error-level diagnostic was delivered *)
Theorem C07_faulty_iff_delivered_partial :
  forall tr s, complete pinned tr s -> no_stale_flag s -> no_root_scanner_error s ->
    (any_faulty s = true <-> delivered_error s = true).
Proof. exact faulty_iff_delivered_partial. Qed.
Print Assumptions C07_faulty_iff_delivered_partial.

(* any_faulty is literally "root Faulty or some other parsed module Faulty" *)
Theorem C07_any_faulty_is_root_or_imported :
  forall s, any_faulty s = true <->
    (In 0 (g_seen (s_g s)) /\ root_faulty s = true) \/
    (exists m, m <> 0 /\ In m (g_seen (s_g s)) /\ g_faulty (s_g s) m = true).
Proof. exact any_faulty_split. Qed.
Print Assumptions C07_any_faulty_is_root_or_imported.

(* the two directions need one hypothesis each *)
Theorem C07_faulty_imp_delivered_partial :
  forall tr s, complete pinned tr s -> no_stale_flag s -> any_faulty s = true -> delivered_error s = true.
Proof. exact faulty_imp_delivered. Qed.
Print Assumptions C07_faulty_imp_delivered_partial.

Theorem C07_delivered_imp_root_faulty_partial :
  forall tr s, complete pinned tr s -> no_root_scanner_error s -> delivered_error s = true -> root_faulty s = true.
Proof. exact delivered_imp_root_faulty. Qed.
Print Assumptions C07_delivered_imp_root_faulty_partial.

(* exit status of `kddp kompiliere` with the default options; cg = the code generator succeeds *)
Theorem C07_exit_nonzero_iff_partial :
  forall tr s cg, complete pinned tr s -> no_stale_flag s -> no_root_scanner_error s ->
    (exit_status (compile pinned true cg s) <> 0 <-> delivered_error s = true \/ cg = false).
Proof. exact exit_nonzero_iff_partial. Qed.
Print Assumptions C07_exit_nonzero_iff_partial.

Theorem C07_exit_nonzero_iff_refuted :
  (exists tr s, complete pinned tr s /\ delivered_error s = true /\ exit_status (compile pinned true true s) = 0) /\
  (exists tr s, complete pinned tr s /\ delivered_error s = false /\ exit_status (compile pinned true true s) <> 0).
Proof. exact exit_nonzero_iff_refuted. Qed.
Print Assumptions C07_exit_nonzero_iff_refuted.

(* FULL (pinned and repaired code alike): runs whose events are all warning-level never flag a module,
   never fail, always yield the object *)
Theorem C07_warnings_never_fail :
  forall cfg tr s lm, complete cfg tr s -> forallb warn_only tr = true ->
    any_faulty s = false /\ delivered_error s = false /\
    exit_status (compile cfg lm true s) = 0 /\ artifact (compile cfg lm true s) = true.
Proof. exact warnings_never_fail. Qed.
Print Assumptions C07_warnings_never_fail.

(* FULL: with the default options a flagged module never yields an object *)
Theorem C07_no_artifact_when_faulty :
  forall s cg, any_faulty s = true -> artifact (compile pinned true cg s) = false.
Proof. exact no_artifact_when_faulty. Qed.
Print Assumptions C07_no_artifact_when_faulty.

Theorem C07_no_artifact_on_failure_partial :
  forall tr s cg, complete pinned tr s -> no_root_scanner_error s -> delivered_error s = true ->
    artifact (compile pinned true cg s) = false.
Proof. exact no_artifact_on_failure_partial. Qed.
Print Assumptions C07_no_artifact_on_failure_partial.

(* REFUTED: an object despite a delivered error (root scanner error), and with --module-linken=false
   the Faulty flag is not consulted at all *)
Theorem C07_no_artifact_on_failure_refuted :
  (exists tr s, complete pinned tr s /\ delivered_error s = true /\ artifact (compile pinned true true s) = true) /\
  (forall s, artifact (compile pinned false true s) = true).
Proof. exact no_artifact_on_failure_refuted. Qed.
Print Assumptions C07_no_artifact_on_failure_refuted.

(* ---- the repaired configuration: full statements ------------------------------------------------ *)
Theorem C07_faulty_iff_delivered_repaired :
  forall tr s, complete repaired tr s -> (any_faulty s = true <-> delivered_error s = true).
Proof. exact faulty_iff_delivered_repaired. Qed.
Print Assumptions C07_faulty_iff_delivered_repaired.

Theorem C07_exit_nonzero_iff_repaired :
  forall tr s lm cg, complete repaired tr s ->
    (exit_status (compile repaired lm cg s) <> 0 <-> delivered_error s = true \/ cg = false).
Proof. exact exit_nonzero_iff_repaired. Qed.
Print Assumptions C07_exit_nonzero_iff_repaired.

Theorem C07_no_artifact_on_failure_repaired :
  forall tr s lm cg, complete repaired tr s -> delivered_error s = true ->
    artifact (compile repaired lm cg s) = false.
Proof. exact no_artifact_on_failure_repaired. Qed.
Print Assumptions C07_no_artifact_on_failure_repaired.

(* ---- ranges and the excerpt renderer ---------------------------------------------------------- *)
(* FULL (for the renderer): for every text, every 64-bit range with 1 <= Start.Line <= End.Line and
   every capacity policy of the runtime, the renderer's indexing is safe iff the range lies in the
   text with start <= end (End.Column may additionally reach into the slice's excess capacity) *)
Theorem C07_render_total_iff_in_text :
  forall slack lines r, wf_range r -> wf_lines slack lines -> (1 <= sl r)%N -> (sl r <= el r)%N ->
    (render_ok slack true lines r = true <-> in_text_slack slack lines r).
Proof. exact render_total_iff_in_text_slack. Qed.
Print Assumptions C07_render_total_iff_in_text.

Theorem C07_render_total_iff_in_text_exact :
  forall lines r, wf_range r -> wf_lines (fun _ => 0%N) lines -> (1 <= sl r)%N -> (sl r <= el r)%N ->
    (render_ok (fun _ => 0%N) true lines r = true <-> in_text lines r).
Proof. exact render_total_iff_in_text. Qed.
Print Assumptions C07_render_total_iff_in_text_exact.

(* the property's direction: a range inside the text can always be printed *)
Theorem C07_render_total_if_in_text :
  forall slack sf lines r, wf_range r -> wf_lines slack lines -> in_text lines r -> render_ok slack sf lines r = true.
Proof. exact render_total_if_in_text. Qed.
Print Assumptions C07_render_total_if_in_text.

(* the handler chain of cmd/kddp: ONE handler owning the text of the main file receives the diagnostics of
   all modules. File-selection rule: excerpt iff Clean(err.File) = Clean(file), else header only.
   Under it every diagnostic whose range lies in the text of the file IT NAMES is printed, whichever
   module it comes from (clean = filepath.Clean, text_of = file contents: parameters) *)
Theorem C07_handler_prints_every_in_text_diagnostic :
  forall (path : Type) (path_eqb : path -> path -> bool) (clean : path -> path) (text_of : path -> list N) slack,
    (forall a b, path_eqb a b = true -> a = b) -> (forall p, text_of (clean p) = text_of p) ->
    forall file errfile r, wf_range r -> wf_lines slack (text_of errfile) -> in_text (text_of errfile) r ->
      handler_ok path path_eqb clean text_of slack file errfile r = true.
Proof. exact handler_total. Qed.
Print Assumptions C07_handler_prints_every_in_text_diagnostic.

Theorem C07_unhandled_file_header_only :
  forall (path : Type) (path_eqb : path -> path -> bool) (clean : path -> path) (text_of : path -> list N) slack file errfile r,
    handled path path_eqb clean (clean file) errfile = false ->
    handler_ok path path_eqb clean text_of slack file errfile r = true /\
    shown_lines path path_eqb clean file errfile r = 0%N.
Proof. exact unhandled_header_only. Qed.
Print Assumptions C07_unhandled_file_header_only.

(* the zero Range{} (and End.Line < Start.Line): Start.Line-1 underflows, the loop body never runs:
   no panic, but no excerpt either *)
Theorem C07_render_degenerate_prints_nothing :
  forall slack sf lines r, wf_range r -> (sl r = 0 \/ el r < sl r)%N ->
    render_ok slack sf lines r = true /\ excerpt_lines r = 0%N.
Proof. exact render_degenerate. Qed.
Print Assumptions C07_render_degenerate_prints_nothing.

(* token.NewRange of two in-text token ranges given in stream order is in the text with start <= end *)
Theorem C07_newrange_in_text :
  forall lines a b, in_text lines a -> in_text lines b -> pos_le (sl a) (sc a) (sl b) (sc b) ->
    in_text lines (new_range a b).
Proof. exact newrange_monotone. Qed.
Print Assumptions C07_newrange_in_text.
