(* C08 — values are copied; only Referenz parameters alias.
   Model: Lower/Opt2.v (machine with variable slots and buffers; `exec false` = every value parameter
   is a fresh copy: the language rule and what -O0/-O1 emit; `exec true` = the -O2 elision driven by
   the transcription `analyse` of const_func_param.go).
   Only statements + `exact` of lemmas proved in Lower/Opt2*.v, each followed by Print Assumptions. *)
From Coq Require Import List ZArith Bool.
Import ListNotations.
From DDP Require Import Lower.Opt2 Lower.Opt2Base Lower.Opt2Copy Lower.Opt2CopyThms Lower.Opt2Witness Lower.Opt2Safe Lower.Opt2Cons Lower.Opt2ElideThm Lower.Opt2Full.

(* copy_noninterference.  Sep X st: every variable that holds a Text/list holds a live buffer no
   other variable, temporary or other holder (X) shares.  Executing ANY single statement in copy
   mode — initialisation, assignment, element/character assignment, compound assignment, a call
   with value and Referenz arguments and a result, if, for-each — re-establishes Sep (so every
   copy-introducing construct yields a holder of its own) and changes the value seen through no
   variable other than the statement's targets: the assigned variable; for a call only the
   destination, the Referenz arguments and the globals — never a variable passed by value. *)
Theorem C08_copy_noninterference :
  forall mt funs genv fuel X e s st st',
    exec false mt funs genv fuel e [s] st = Ok st' ->
    Sep X st -> tmps st = [] -> env_ok genv e st ->
    Sep X st' /\
    forall b, b < length (vars st) -> ~ targets genv e s b -> value_of st' b = value_of st b.
Proof. exact copy_noninterference. Qed.
Print Assumptions C08_copy_noninterference.

(* the same for whole blocks (nested calls, loops, recursion up to the fuel): a block changes no
   variable it cannot name *)
Theorem C08_copy_frame :
  forall mt funs genv fuel X e ss st st',
    exec false mt funs genv fuel e ss st = Ok st' ->
    Sep X st -> tmps st = [] -> env_ok genv e st ->
    Sep X st' /\
    forall b, b < length (vars st) -> ~ In b (map snd e) -> value_of st' b = value_of st b.
Proof. exact copy_frame. Qed.
Print Assumptions C08_copy_frame.

(* a copy really is one: `Der Text y ist x.` gives y the value of x in a buffer of its own *)
Theorem C08_copy_init_value :
  forall X e y x a st e' st',
    do_decl e y (EVar x) st = Ok (e', st') -> Sep X st -> tmps st = [] -> lookup e x = Some a ->
    let b := length (vars st) in
    lookup e' y = Some b /\ value_of st' b = value_of st a /\ value_of st' a = value_of st a /\
    (forall l l', ptr_at st' a l -> ptr_at st' b l' -> l <> l').
Proof. exact copy_init_value. Qed.
Print Assumptions C08_copy_init_value.

(* the initial state and the initialisation of the globals establish the invariant *)
Theorem C08_start_separated :
  forall gs e' st',
    init_globals gs [] st0 = Ok (e', st') ->
    Sep [] st' /\ tmps st' = [] /\ (forall a, In a (map snd e') -> a < length (vars st')) /\ out st' = out st0.
Proof.
  exact (fun gs e' st' H => init_globals_spec gs [] st0 e' st' H Sep_st0 eq_refl (fun a (F : In a []) => match F with end)).
Qed.
Print Assumptions C08_start_separated.

(* ref_visible.  In a call, every Referenz parameter is bound to the storage of its argument
   variable (the same storage for every occurrence of one variable, the global's storage for a
   global); what the callee sees through the parameter when its body ends is what the caller sees
   in that variable after the call; and the call changes nothing else of the caller but globals
   and the destination. *)
Theorem C08_ref_visible :
  forall mt funs genv fuel X e dst f args st st',
    do_call false mt funs genv (exec false mt funs genv fuel) e dst f args st = Ok st' ->
    Sep X st -> tmps st = [] -> env_ok genv e st ->
    exists fd ce st1 st2,
      nth_error funs f = Some fd /\
      bind_params false mt args f 0 (fparams fd) args e genv st = Ok (ce, st1) /\
      exec false mt funs genv fuel ce (fbody fd) (set_fbase (set_tmps st1 []) (length (vars st))) = Ok st2 /\
      (NoDup (map pname (fparams fd)) ->
       forall k p x, nth_error (fparams fd) k = Some p -> pref p = true -> nth_error args k = Some (ARef x) ->
         exists a, lookup e x = Some a /\ lookup ce (pname p) = Some a /\
                   (match dst with Some y => lookup e y <> Some a | None => True end -> value_of st' a = value_of st2 a)) /\
      (forall b, b < length (vars st) ->
         ~ (match dst with Some y => lookup e y = Some b | None => False end) ->
         ~ In b (ref_addrs e args) -> ~ In b (map snd genv) -> value_of st' b = value_of st b).
Proof. exact ref_visible. Qed.
Print Assumptions C08_ref_visible.

(* The -O 2 elision.  On the pinned tree `forall fuel p, run_elide fuel p = run_copy fuel p` was FALSE: f(t, t) with a
   value and a Referenz parameter (freed storage; changed storage), a callee writing a global it received by value,
   a value parameter handed on by Referenz in a self call that the analysis judged constant — found by checks/c08.py
   on the real compiler and repaired in /repo by 91b5d4a (mayElideArgCopy + the recursive-call rule of the
   analysis), which the model now mirrors (`may_elide`, `seen_const`).  The four former witnesses agree in both modes: *)
Theorem C08_former_witnesses_repaired :
  run_elide 50 w_same_var = run_copy 50 w_same_var /\
  run_elide 50 w_same_var_inplace = run_copy 50 w_same_var_inplace /\
  run_elide 50 w_global = run_copy 50 w_global /\
  run_elide 50 w_recursion = run_copy 50 w_recursion.
Proof. exact former_witnesses_agree. Qed.
Print Assumptions C08_former_witnesses_repaired.

(* Generic instantiations.  On f920b86 the annotator registered every instantiation with all parameters "constant" and
   never visited its body: with that table the model lets the callee's element assignment land in the caller's LOCAL
   list at -O 2 (first two facts; replayed on the real compiler by checks/c08.py, fixed by 9b42dd9).  The repaired
   annotator analyses an instantiation made in the declaring module like any function; one made from another module
   has no table (`fnometa`) and is never elided.  `C08_elision_sound` below quantifies over both kinds. *)
Theorem C08_generic_instantiation_witness :
  run_with true [[true; true]; [true]] 50 (w_generic false) = Ok [OSeq [9; 2; 3]; OSeq [9; 2; 3]]%Z /\
  run_with false [[true; true]; [true]] 50 (w_generic false) = Ok [OSeq [1; 2; 3]; OSeq [9; 2; 3]]%Z /\
  analyse (pfuns (w_generic false)) = [[false; true]; [true]] /\
  run_elide 50 (w_generic false) = Ok [OSeq [1; 2; 3]; OSeq [9; 2; 3]]%Z /\
  analyse (pfuns (w_generic true)) = [[false; false]; [true]] /\
  run_elide 50 (w_generic true) = Ok [OSeq [1; 2; 3]; OSeq [9; 2; 3]]%Z.
Proof. exact w_generic_facts. Qed.
Print Assumptions C08_generic_instantiation_witness.

(* Forward declared functions and overloaded operators (defects of 9b42dd9, repaired by 394dd9c and 3530cc0): with
   the stale table the caller's local list is freed while it is still in use (replayed on the real compiler by
   checks/c08.py: double free at -O 2); the repaired annotator analyses the definition at the declaration, which the
   model expresses by the position of the function in the list.  `C08_elision_sound` covers such programs. *)
Theorem C08_forward_declaration_witness :
  run_with true [[true]; [true]; [true]] 50 w_forward = Er EUaf /\
  run_with false [[true]; [true]; [true]] 50 w_forward = Ok [OSeq [1; 2; 3]]%Z /\
  analyse (pfuns w_forward) = [[false]; [false]; [true]] /\
  run_elide 50 w_forward = Ok [OSeq [1; 2; 3]]%Z.
Proof. exact w_forward_facts. Qed.
Print Assumptions C08_forward_declaration_witness.

(* elision_sound (FULL, no hypothesis).  For the repaired compiler (91b5d4a) the -O 2 parameter-copy elision never
   changes the behaviour: for every program and every fuel the run with elision equals the run in which every value
   parameter is a fresh copy.  Ingredients (Lower/Opt2Cons.v, Opt2Fbase.v, Opt2Full.v): the table of `analyse` is
   consistent for every program (below); no operation changes the frame base; and the predicate the compiler
   evaluates at each call site (`may_elide`: the argument is a variable of the running activation that is not also
   passed by Referenz in the call) establishes dynamically that no borrowed buffer can be reached by anything the
   callee may write (lemma callee_Ainv; since the sibling-argument repair the predicate also demands that no other
   argument of the call mentions the variable) - the role the static side condition `elide_safe` played before. *)
Theorem C08_elision_sound :
  forall fuel p, run_elide fuel p = run_copy fuel p.
Proof. exact elision_sound. Qed.
Print Assumptions C08_elision_sound.

(* the analysis (const_func_param.go with the recursive-call rule) is consistent for EVERY program: in the body of
   function j no statement assigns, uses as call destination, or passes by Referenz to a parameter position not
   judged constant, a name that the table of j judges a constant parameter *)
Theorem C08_analyse_consistent :
  forall funs j, j < length funs ->
    all_stmts (stmt_cons_b (analyse funs) funs (Some j)) (fbody (fn funs j)) = true.
Proof. exact analyse_consistent. Qed.
Print Assumptions C08_analyse_consistent.

(* the earlier, weaker statement (kept: it was the claim while the elision was still broken in /repo and is what
   the simulation needs from a purely STATIC point of view) *)
Theorem C08_elision_sound_partial :
  forall fuel p, elide_safe p = true -> run_elide fuel p = run_copy fuel p.
Proof. exact elision_sound_partial. Qed.
Print Assumptions C08_elision_sound_partial.

(* the side condition is not vacuous: a program in which the copy of a variable IS elided satisfies it; it is
   sufficient, not necessary: the four former witnesses violate it (and are handled by `may_elide`) *)
Example C08_elision_partial_nonvacuous :
  elide_safe ok_elided = true /\ analyse (pfuns ok_elided) = [[true; false]] /\
  run_elide 50 ok_elided = Ok [OSeq [97%Z; 98%Z]; OSeq [97%Z; 98%Z]; OSeq [117%Z; 97%Z; 98%Z]].
Proof. exact ok_elided_facts. Qed.

Example C08_witnesses_violate_side_condition :
  elide_safe w_same_var = false /\ elide_safe w_same_var_inplace = false /\
  elide_safe w_global = false /\ elide_safe w_recursion = true.
Proof. repeat split; vm_compute; reflexivity. Qed.

(* non-vacuity of the hypotheses: a state with two holders of one value satisfies Sep, and the
   statements of the theorems run *)
Example C08_nonvacuous :
  exists e st st',
    init_globals [(0, ELit [97%Z; 98%Z])] [] st0 = Ok (e, st) /\
    Sep [] st /\ tmps st = [] /\ env_ok e e st /\
    exec false [] [] e 10 e [SDecl 1 (EVar 0); SAssignIdx 1 (EInt 1) (EInt 88%Z); SPrint (EVar 0); SPrint (EVar 1)] st = Ok st' /\
    out st' = [OSeq [97%Z; 98%Z]; OSeq [88%Z; 98%Z]].
Proof.
  eexists. eexists. eexists. split; [vm_compute; reflexivity|].
  split; [exact (proj1 (init_globals_spec [(0, ELit [97%Z; 98%Z])] [] st0 _ _ eq_refl Sep_st0 eq_refl (fun a (F : In a []) => match F with end)))|].
  split; [reflexivity|]. split; [split; [cbn; intros a [<-|[]]; auto | apply incl_refl]|].
  split; vm_compute; reflexivity.
Qed.
