(* C09 — calls resolve to the longest type-matching alias; arguments bind by name; operator
   overloads by the exact-type rule; negated aliases negate.
   Only statements + `exact` of lemmas proved in Alias/SelectProofs.v and Alias/OverloadProofs.v,
   each followed by Print Assumptions. Non-vacuity examples: Alias/C09Model.v. *)
From Coq Require Import List NArith ZArith Bool Arith Permutation Sorted.
Import ListNotations.
From DDP Require Import Gen.Tokens Alias.OMap Alias.Trie Alias.TokKey Alias.Select Alias.SelectProofs
  Alias.Overload Alias.OverloadProofs Alias.C09Model.
Local Open Scope nat_scope.

(* the comparator sortAliases hands to sort.Slice is a strict weak order: irreflexive, transitive,
   incomparability transitive - the contract under which ANY correct sort returns a permutation
   in which no element sorts strictly before an earlier one *)
Theorem C09_sort_comparator_strict_weak_order :
  (forall a, alias_less a a = false) /\
  (forall a b c, alias_less a b = true -> alias_less b c = true -> alias_less a c = true) /\
  (forall a b c, incomparable a b -> incomparable b c -> incomparable a c).
Proof. exact alias_less_strict_weak_order. Qed.
Print Assumptions C09_sort_comparator_strict_weak_order.

(* such permutations exist for every candidate list (the stable insertion sort is one) *)
Theorem C09_sorted_permutation_exists : forall l, sorted_perm l (isort l).
Proof. exact isort_sorted_perm. Qed.
Print Assumptions C09_sorted_permutation_exists.

(* the candidates of a call site are exactly the declared aliases whose pattern matches the
   tokens at that position (Trie.Search with the cursor-per-node key generator, over every
   trie the parser's declaration protocol can build) *)
Theorem C09_candidates_are_declared_matching :
  forall (s : list tok) (decls : list alias) (start : nat) (a : alias),
    In a (candidates s (declare_all decls) start) <->
    exists ks, ks <> [] /\ lookup tok_eq tok_less (declare_all decls) ks = Some a /\ matches s ks start = true.
Proof. exact (fun s decls start a => candidates_spec s (declare_all decls) start a (declare_all_wf decls)). Qed.
Print Assumptions C09_candidates_are_declared_matching.

Theorem C09_declared_matching_is_candidate :
  forall (s : list tok) (l1 : list alias) (a : alias) (l2 : list alias) (start : nat),
    a_toks a <> [] ->
    lookup tok_eq tok_less (declare_all l1) (a_toks a) = None ->
    matches s (a_toks a) start = true ->
    In a (candidates s (declare_all (l1 ++ a :: l2)) start).
Proof. exact declared_is_candidate. Qed.
Print Assumptions C09_declared_matching_is_candidate.

(* SELECT_MAXIMAL by the sort key: for every population, stream, position, argument typing, and
   for EVERY permutation a correct (stable or unstable) sort may return, the selected alias is
   declared, matches, type-matches, and no declared, matching, type-matching alias is longer, or
   equally long with fewer generic parameters, or equal in both with more Referenz parameters.
   Ties: some maximal candidate. *)
Theorem C09_select_maximal_by_key :
  forall (s : list tok) (argty : bool -> nat -> option ty) (text_index : nat -> bool)
         (inst_ok : alias -> genv -> bool) (ty_buchstabe : ty)
         (decls : list alias) (start : nat) (l : list alias) (a : alias) (b : list binding) (e : genv),
    sorted_perm (candidates s (declare_all decls) start) l ->
    select_from s argty text_index inst_ok ty_buchstabe l start = Selected a b e ->
    (exists ks, ks <> [] /\ lookup tok_eq tok_less (declare_all decls) ks = Some a /\ matches s ks start = true) /\
    check_alias s argty text_index inst_ok ty_buchstabe a start = Some (b, e) /\
    forall c ks, ks <> [] -> lookup tok_eq tok_less (declare_all decls) ks = Some c -> matches s ks start = true ->
      check_ok s argty text_index inst_ok ty_buchstabe c start = true ->
      alias_len c <= alias_len a /\
      (alias_len c = alias_len a ->
         gen_count a <= gen_count c /\ (gen_count c = gen_count a -> ref_count c <= ref_count a)).
Proof. exact select_maximal_explicit. Qed.
Print Assumptions C09_select_maximal_by_key.

(* SELECT_MAXIMAL in the property's wording, FULL: longest; on equal length a non-generic
   declaration before a generic one; among non-generic ones more Referenz parameters *)
Theorem C09_select_maximal :
  forall (s : list tok) (argty : bool -> nat -> option ty) (text_index : nat -> bool)
         (inst_ok : alias -> genv -> bool) (ty_buchstabe : ty)
         (decls : list alias) (start : nat) (l : list alias) (a : alias) (b : list binding) (e : genv),
    sorted_perm (candidates s (declare_all decls) start) l ->
    select_from s argty text_index inst_ok ty_buchstabe l start = Selected a b e ->
    In a (candidates s (declare_all decls) start) /\
    check_alias s argty text_index inst_ok ty_buchstabe a start = Some (b, e) /\
    forall c, In c (candidates s (declare_all decls) start) ->
      check_ok s argty text_index inst_ok ty_buchstabe c start = true ->
      alias_len c <= alias_len a /\
      (alias_len c = alias_len a ->
         (a_generic a = true -> a_generic c = true) /\
         (a_generic a = false -> a_generic c = false -> ref_count c <= ref_count a)).
Proof. exact select_maximal_property. Qed.
Print Assumptions C09_select_maximal.

(* documentation of the defect repaired in /repo 3e80d99: the key of the pinned tree (a parameter
   counted as generic only if its type IS a type parameter) tied "foo <a>" for a Zahlen Liste with
   the generic "foo <a>" for a T Liste; the current key sorts the non-generic one first and it is
   selected in both declaration orders *)
Theorem C09_old_sort_key_tied :
  gen_count_direct w_conc = gen_count_direct w_gen /\ a_generic w_gen = true /\ a_generic w_conc = false /\
  alias_less w_conc w_gen = true /\
  (exists b e, w_select [w_conc; w_gen] = Selected w_conc b e) /\
  (exists b e, w_select [w_gen; w_conc] = Selected w_conc b e).
Proof. exact old_sort_key_tied_witness. Qed.
Print Assumptions C09_old_sort_key_tied.

(* SELECT_COMPLETE: if some candidate type-matches, one is selected ... *)
Theorem C09_select_complete :
  forall (s : list tok) (argty : bool -> nat -> option ty) (text_index : nat -> bool)
         (inst_ok : alias -> genv -> bool) (ty_buchstabe : ty) (cands l : list alias) (start : nat),
    sorted_perm cands l ->
    (exists c, In c cands /\ check_ok s argty text_index inst_ok ty_buchstabe c start = true) ->
    exists a b e, select_from s argty text_index inst_ok ty_buchstabe l start = Selected a b e.
Proof. exact select_complete. Qed.
Print Assumptions C09_select_complete.

(* ... otherwise a maximal candidate (the longest) is "called" without type checks so that the
   typechecker reports; a generic one is an error and no call *)
Theorem C09_select_fallback :
  forall (s : list tok) (argty : bool -> nat -> option ty) (text_index : nat -> bool)
         (inst_ok : alias -> genv -> bool) (ty_buchstabe : ty) (cands l : list alias) (start : nat),
    sorted_perm cands l -> cands <> [] ->
    (forall c, In c cands -> check_ok s argty text_index inst_ok ty_buchstabe c start = false) ->
    exists f, In f cands /\ (forall c, In c cands -> alias_less c f = false) /\
      select_from s argty text_index inst_ok ty_buchstabe l start =
      (if a_generic f then GenericError f else Fallback f (bind_go s f (a_toks f) start [])).
Proof. exact select_fallback. Qed.
Print Assumptions C09_select_fallback.

(* BIND_BY_NAME: after a successful check, parameter `name` holds the argument unit standing at
   the placeholder <name> (parsed as assignable iff the parameter is a Referenz), wherever that
   placeholder stands in the pattern; parameters without a placeholder hold nothing *)
Theorem C09_bind_by_name :
  forall (s : list tok) (argty : bool -> nat -> option ty) (text_index : nat -> bool)
         (inst_ok : alias -> genv -> bool) (ty_buchstabe : ty)
         (a : alias) (start : nat) (b : list binding) (e : genv) (name : list N),
    check_alias s argty text_index inst_ok ty_buchstabe a start = Some (b, e) ->
    bind_get b name =
    match place s (a_toks a) start name with
    | Some cn => Some (param_ref a name, cn, unit_extent s cn)
    | None => None
    end.
Proof. exact bind_by_name. Qed.
Print Assumptions C09_bind_by_name.

(* ... and the ORDER in which the parameters were declared plays no role *)
Theorem C09_bind_param_order_irrelevant :
  forall (s : list tok) (argty : bool -> nat -> option ty) (text_index : nat -> bool) (ty_buchstabe : ty)
         (a a' : alias) (toks : list tok) (c : nat) (e : genv) (b : list binding),
    Permutation (a_params a) (a_params a') -> NoDup (map p_name (a_params a)) ->
    check_go s argty text_index ty_buchstabe a toks c e b = check_go s argty text_index ty_buchstabe a' toks c e b.
Proof. exact check_go_param_order. Qed.
Print Assumptions C09_bind_param_order_irrelevant.

(* NEGATED_IS_NOT: the expression built for a negated alias is the logical negation of the call *)
Theorem C09_negated_is_not :
  forall (callv : N -> list binding -> bool) (a : alias) (b : list binding),
    eval callv (call_of a b) = if a_neg a then negb (callv (a_fn a) b) else callv (a_fn a) b.
Proof. exact negated_is_not. Qed.
Print Assumptions C09_negated_is_not.

(* a marker <!x> declares two aliases: the text with x (Negated) and the text without (plain) *)
Theorem C09_negation_marker_forms :
  forall pre x post : list N,
    no_marker_in pre -> ~ In c_gt x ->
    expand_marker (pre ++ c_lt :: c_bang :: x ++ c_gt :: post) =
    Some [(pre ++ x ++ post, true); (pre ++ post, false)].
Proof. exact expand_marker_forms. Qed.
Print Assumptions C09_negation_marker_forms.

(* OVERLOAD_EXACT: findOverload returns the FIRST table entry whose parameter types equal the
   operand types (after unification for a generic entry), whose Referenz parameters face
   assignable operands and (als) whose return type is the target; a generic entry only if an
   operand has a user-defined type and its instantiation succeeded *)
Theorem C09_overload_exact :
  forall (is_struct : ty -> bool) (oinst_ok : odecl -> genv -> bool)
         (table : list odecl) (ops : list operand) (target : option ty) (d : odecl) (e : genv) (args : list (list N * nat)),
    find_overload is_struct oinst_ok table ops target = Overloaded d e args ->
    exists l1 l2, table = l1 ++ d :: l2 /\ fits d ops target e args /\
      (od_generic d = true -> contains_user is_struct ops = true /\ oinst_ok d e = true) /\
      Forall (fun x => forall e' a', ~ fits x ops target e' a') l1.
Proof. exact overload_exact. Qed.
Print Assumptions C09_overload_exact.

Theorem C09_overload_exact_nongeneric :
  forall (is_struct : ty -> bool) (oinst_ok : odecl -> genv -> bool)
         (table : list odecl) (ops : list operand) (d : odecl) (e : genv) (args : list (list N * nat)),
    find_overload is_struct oinst_ok table ops None = Overloaded d e args -> od_generic d = false ->
    In d table /\ Forall2 exact (firstn (length ops) (od_params d)) ops /\
    args = combine (map p_name (firstn (length ops) (od_params d))) (seq 0 (length ops)).
Proof. exact overload_exact_nongeneric. Qed.
Print Assumptions C09_overload_exact_nongeneric.

(* the built-in meaning applies otherwise *)
Theorem C09_overload_builtin_otherwise :
  forall (is_struct : ty -> bool) (oinst_ok : odecl -> genv -> bool) (table : list odecl) (ops : list operand) (target : option ty),
    Forall (fun x => match_operands (od_generic x) (od_params x) ops 0 [] [] = MNo) table ->
    find_overload is_struct oinst_ok table ops target = Builtin.
Proof. exact overload_builtin. Qed.
Print Assumptions C09_overload_builtin_otherwise.

(* the overload table: every insertion keeps it sorted (fewer generic parameters first, then
   more Referenz parameters) and a permutation of what was accepted *)
Theorem C09_overload_table_sorted :
  forall (is_cast : bool) (table : list odecl) (d : odecl),
    osorted table ->
    osorted (fst (insert_overload is_cast table d)) /\
    (snd (insert_overload is_cast table d) = true -> Permutation (d :: table) (fst (insert_overload is_cast table d))) /\
    (snd (insert_overload is_cast table d) = false -> fst (insert_overload is_cast table d) = table).
Proof.
  exact (fun c t d H => conj (insert_overload_sorted c t d H) (conj (insert_overload_perm c t d) (insert_overload_rejected c t d))).
Qed.
Print Assumptions C09_overload_table_sorted.

(* so the early exit at the first generic entry never hides a later non-generic overload *)
Theorem C09_overload_generic_only_for_user_types :
  forall (is_struct : ty -> bool) (oinst_ok : odecl -> genv -> bool) (table : list odecl) (ops : list operand) (target : option ty),
    osorted table -> Forall odecl_wf table -> contains_user is_struct ops = false ->
    find_overload is_struct oinst_ok table ops target =
    find_overload is_struct oinst_ok (filter (fun d => negb (od_generic d)) table) ops target.
Proof. exact generic_only_for_user_types. Qed.
Print Assumptions C09_overload_generic_only_for_user_types.
