(* C10 — modules expose exactly their public names and initialise once, in order.
   Only statements + `exact` of lemmas proved in Mod/*Proofs.v / Mod/C10Top.v, each followed by Print Assumptions.
   All statements are full. *)
From Coq Require Import List NArith Bool Relations.
Import ListNotations.
From DDP Require Import Mod.Loader Mod.LoaderProofs Mod.InitOrder Mod.InitProofs Mod.VisibleProofs Mod.Mangle Mod.MangleProofs Mod.C10Top.

(* ---- loader ---- *)
(* the recursive Parse terminates: the fuel of the model is never exhausted *)
Theorem C10_load_terminates : forall fs root, l_oof (fst (load fs root)) = false.
Proof. exact load_fuel_ok. Qed.
Print Assumptions C10_load_terminates.

(* the root is parsed first; no other call of Parse repeats a path *)
Theorem C10_load_once : forall fs root src,
  lookup root (fs_files fs) = Some src -> exists t, l_log (fst (load fs root)) = root :: t /\ NoDup t.
Proof. exact load_once. Qed.
Print Assumptions C10_load_once.

(* the module objects in the module map never refer to each other in a circle *)
Theorem C10_module_objects_acyclic : forall fs root q, ~ clos_trans _ (edge (l_map (fst (load fs root)))) q q.
Proof. exact module_objects_acyclic. Qed.
Print Assumptions C10_module_objects_acyclic.

(* a cycle of any length >= 1 reachable from the root yields an include diagnostic and no executable *)
Theorem C10_cycle_rejected : forall fs root,
  lookup root (fs_files fs) <> None -> scycle fs root ->
  (exists d, In d (l_diags (fst (load fs root))) /\ include_class (dg_class d) = true) /\ outcome fs root = None.
Proof. exact cycle_rejected. Qed.
Print Assumptions C10_cycle_rejected.

(* an acyclic graph whose files exist is loaded without any diagnostic *)
Theorem C10_acyclic_not_diagnosed : forall fs root,
  closed fs root -> ~ scycle fs root -> lookup root (fs_files fs) <> None -> l_diags (fst (load fs root)) = [].
Proof. exact acyclic_no_diag. Qed.
Print Assumptions C10_acyclic_not_diagnosed.

(* ---- visibility ---- *)
(* an import never hands over a private declaration, nor one of a module it did not resolve to *)
Theorem C10_import_never_private : forall fs i ms n q d,
  In (n, Some (q, d)) (imported_decls fs i ms) ->
  d_public d = true /\ In d (top_decls (srcs fs q)) /\ In q ms /\ d_name d = n.
Proof. exact imported_never_private. Qed.
Print Assumptions C10_import_never_private.

(* a whole-module or directory import hands over every public declaration *)
Theorem C10_whole_import_all_public : forall fs i ms q d,
  (forall ns, i_form i <> INamed ns) -> In q ms -> In d (public_of fs q) ->
  In (d_name d, Some (q, d)) (imported_decls fs i ms).
Proof. exact whole_import_all_public. Qed.
Print Assumptions C10_whole_import_all_public.

Theorem C10_public_interface_complete : forall fs q d,
  NoDup (map d_name (top_decls (srcs fs q))) -> In d (top_decls (srcs fs q)) -> d_public d = true -> In d (public_of fs q).
Proof. exact public_of_complete. Qed.
Print Assumptions C10_public_interface_complete.

(* a selective import hands over exactly the listed names *)
Theorem C10_named_import_exact : forall fs i q ms ns,
  i_form i = INamed ns ->
  imported_decls fs i (q :: ms) =
  map (fun n => (n, match find_decl n (public_of fs q) with Some d => Some (q, d) | None => None end)) ns.
Proof. exact named_import_exact. Qed.
Print Assumptions C10_named_import_exact.

(* ... and a listed name that is private or unknown is diagnosed at the statement *)
Theorem C10_unknown_name_diagnosed : forall fs p inst res ld i ns q ms n s,
  i_form i = INamed ns -> lookup (i_line i) res = Some (q :: ms) -> In n ns ->
  find_decl n (public_of fs q) = None ->
  has_diag_at inst (i_line i) ld = true \/
  has_diag_at inst (i_line i) (p_diags (fst (resolve_import fs inst p res ld i s))) = true.
Proof. exact named_import_unknown_diagnosed. Qed.
Print Assumptions C10_unknown_name_diagnosed.

(* for every program: a use only ever resolves to a declaration of the module itself or to a public one *)
Theorem C10_resolve_never_private : forall fs p inst res ld src,
  ruses_ok_l fs p (snd (resolve_module fs inst p res ld src)).
Proof. exact resolve_never_private. Qed.
Print Assumptions C10_resolve_never_private.

Theorem C10_invisible_use_refused : forall fs p inst res ld line n k s,
  k <> KFunc -> lookup_scopes n (p_scopes s) = None ->
  has_diag_at inst line (p_diags (fst (resolve_stmt fs inst p res ld (SUse line n k) s))) = true /\
  snd (resolve_stmt fs inst p res ld (SUse line n k) s) = RUse line k None.
Proof. exact invisible_use_refused. Qed.
Print Assumptions C10_invisible_use_refused.

(* ---- initialisation (for every program: import statements nested in loops, branches and function bodies included) ---- *)
Theorem C10_init_once : forall fs root tr, outcome fs root = Some tr -> NoDup (einits tr).
Proof. exact init_once_full. Qed.
Print Assumptions C10_init_once.

Theorem C10_init_covers : forall fs root tr,
  outcome fs root = Some tr -> forall q,
  In (EInit q) tr <-> exists m, In m (main_targets fs root) /\ reach (graph fs root) m q.
Proof. exact init_covers_full. Qed.
Print Assumptions C10_init_covers.

Theorem C10_init_deps_first : forall fs root tr,
  outcome fs root = Some tr -> forall l1 q l2 q',
  tr = l1 ++ EInit q :: l2 -> In q' (graph fs root q) -> In (EInit q') l1.
Proof. exact init_deps_first_full. Qed.
Print Assumptions C10_init_deps_first.

Theorem C10_init_before_following_code : forall fs root tr,
  outcome fs root = Some tr -> forall s1 i s2,
  src_of fs root = s1 ++ SImport i :: s2 ->
  (exists tr2, tr = prefix_trace fs root (s1 ++ [SImport i]) ++ tr2) /\
  forall m x, In m (match lookup (i_line i) (main_res fs root) with Some ms => ms | None => [] end) ->
              reach (graph fs root) m x -> In (EInit x) (prefix_trace fs root (s1 ++ [SImport i])).
Proof. exact init_before_following_code_full. Qed.
Print Assumptions C10_init_before_following_code.

(* imported modules compile declarations only: no top-level code is emitted for them *)
Theorem C10_no_toplevel_code_of_imports : forall fs root q rs,
  snd (compile_module (graph fs root) (dfs_fuel fs root) q false (fun _ _ => []) rs) = [].
Proof. exact no_toplevel_code_of_imports. Qed.
Print Assumptions C10_no_toplevel_code_of_imports.

(* ---- symbol names ---- *)
(* the flattening of module paths to symbol names is injective ... *)
Theorem C10_module_name_injective : forall p1 p2, hashable p1 = hashable p2 -> p1 = p2.
Proof. exact hashable_injective. Qed.
Print Assumptions C10_module_name_injective.

Theorem C10_init_name_injective : forall p1 p2, init_name p1 = init_name p2 -> p1 = p2.
Proof. exact init_name_injective. Qed.
Print Assumptions C10_init_name_injective.

(* ... so same-named declarations of two different modules get different symbols (hash: injective section variable) *)
Theorem C10_mangle_distinct : forall hash : str -> str,
  (forall a b, hash a = hash b -> a = b) ->
  forall n p1 p2, p1 <> p2 -> mangled hash n p1 <> mangled hash n p2.
Proof. exact mangled_distinct. Qed.
Print Assumptions C10_mangle_distinct.

(* the symbol of a generic instantiation determines function, parameter types (name and declaring module) and module *)
Theorem C10_instantiation_symbol_injective : forall hash : str -> str,
  (forall a b, hash a = hash b -> a = b) ->
  forall fn1 fn2 t1 t2 p1 p2, inst_symbol hash fn1 t1 p1 = inst_symbol hash fn2 t2 p2 -> fn1 = fn2 /\ t1 = t2 /\ p1 = p2.
Proof. exact inst_symbol_injective. Qed.
Print Assumptions C10_instantiation_symbol_injective.
