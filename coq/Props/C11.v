(* C11 — optimisation level and link mode do not change program behaviour.
   Level: other/partial.  What is PROVED here:
   * linking: model Lower/Opt2Link.v (modules = association lists symbol -> definition | declaration; the IR linker
     merging all modules into one LLVM module vs. separate objects resolved by the system linker; the list runtime
     functions defined in the program object or only declared and defined in ddp_list_types_defs.o).  Under injective
     symbol names (C10's mangling) and a prebuilt list object that holds the compiler's own list definitions, what a
     reference is bound to does not depend on the mode, both tools accept the program, and the order in which the
     modules reach the IR linker is irrelevant.  Both hypotheses are needed (refutations).
   * the compiler's own -O 2 transformation (parameter-copy elision) is C08's model Lower/Opt2.v: `run_copy` is what
     -O 0 and -O 1 emit, `run_elide` what -O 2 emits (with the repair 91b5d4a); their equality is proved under the
     decidable side condition `elide_safe`; the former refutation witnesses now agree in both modes.
   NOT modelled (differentially tested by checks/c11.py): LLVM's pass pipeline, IR linker and code generator, gcc/ld.
   Only statements + `exact` of lemmas proved in Lower/Opt2LinkProofs.v / Lower/Opt2Witness.v. *)
From Coq Require Import List NArith Bool Permutation.
Import ListNotations.
From DDP Require Import Lower.Opt2Link Lower.Opt2LinkProofs.
From DDP Require Import Lower.Opt2 Lower.Opt2Witness Lower.Opt2Safe Lower.Opt2ElideThm Lower.Opt2Full.

(* link_mode_irrelevant: for every two configurations (modules linked into one LLVM module or kept as separate objects)
   x (list definitions linked in or taken from the prebuilt object), every well-formed program, every referencing
   module r and every symbol s: the reference is bound to the same definition (or stays undefined in both). *)
Theorem C11_link_mode_irrelevant :
  forall md1 md2 p r s, wf p -> In r (p_modules p) -> resolve md1 p r s = resolve md2 p r s.
Proof. exact link_mode_irrelevant. Qed.
Print Assumptions C11_link_mode_irrelevant.

(* ...namely to the definition of the one module (or the list runtime) that defines s *)
Theorem C11_resolve_is_the_definition :
  forall md p r s m b, wf p -> In r (p_modules p) -> In m (p_modules p ++ [p_lists_src p]) -> find_def m s = Some b ->
    resolve md p r s = Some b.
Proof. exact resolve_is_the_definition. Qed.
Print Assumptions C11_resolve_is_the_definition.

(* no undefined reference in any mode when every declared symbol is defined somewhere *)
Theorem C11_resolve_closed :
  forall md p r s, wf p -> closed p -> In r (p_modules p) -> declared r s -> resolve md p r s <> None.
Proof. exact resolve_closed. Qed.
Print Assumptions C11_resolve_closed.

(* neither the IR linker nor the system linker sees a symbol defined twice, in any mode *)
Theorem C11_wf_link_ok : forall md p, wf p -> link_ok md p = true.
Proof. exact wf_link_ok. Qed.
Print Assumptions C11_wf_link_ok.

(* interface.go:246 hands the modules to the IR linker in Go-map iteration order: irrelevant *)
Theorem C11_link_order_irrelevant :
  forall ms ms' s, Permutation ms ms' -> NoDup (flat_map defs ms) -> first_def ms s = first_def ms' s.
Proof. exact link_order_irrelevant. Qed.
Print Assumptions C11_link_order_irrelevant.

(* the injectivity hypothesis of wf is what injective mangling of (module path, name) gives (C10: mangled_distinct) *)
Theorem C11_wf_of_injective_mangling :
  forall (P Nm : Type) (mangle : P -> Nm -> sym),
    (forall p n p' n', mangle p n = mangle p' n' -> p = p' /\ n = n') ->
    forall (m0 : smod P Nm) (ms : list (smod P Nm)) (lists : module),
      NoDup (map (s_path P Nm) (m0 :: ms)) -> (forall m, In m (m0 :: ms) -> NoDup (map fst (s_defs P Nm m))) ->
      NoDup (defs lists) -> (forall p n, ~ In (mangle p n) (defs lists)) ->
      wf {| p_main := compile_mod P Nm mangle m0; p_imports := map (compile_mod P Nm mangle) ms; p_lists_src := lists; p_lists_obj := lists |}.
Proof. exact wf_of_injective_mangling. Qed.
Print Assumptions C11_wf_of_injective_mangling.

(* non-vacuity: a concrete program of three modules (main imports A and B, A uses B) satisfies wf and closed *)
Theorem C11_example_wf : wf ex_prog /\ closed ex_prog.
Proof. exact (conj ex_prog_wf ex_prog_closed). Qed.
Print Assumptions C11_example_wf.

(* ...and its references are bound to A's function, the list runtime's function and B's global in all four modes *)
Theorem C11_example_resolves :
  forall md, resolve md ex_prog ex_main 10%N = Some 110%N /\ resolve md ex_prog ex_A 1%N = Some 50%N /\
             resolve md ex_prog ex_A 12%N = Some 112%N /\ link_ok md ex_prog = true.
Proof. exact ex_prog_resolves. Qed.
Print Assumptions C11_example_resolves.

(* honesty: without injective names the mode matters (two modules defining symbol 6 — the anonymous string constants
   `__unnamed_6` of two DDP objects compiled at -O 0 are exactly that), and the system linker rejects the program *)
Theorem C11_link_mode_relevant_without_injectivity :
  exists p r s, In r (p_modules p) /\ (forall x, find_def (p_lists_obj p) x = find_def (p_lists_src p) x) /\
                resolve (MLinked, LLinked) p r s <> resolve (MSeparate, LLinked) p r s /\
                link_ok (MSeparate, LLinked) p = false.
Proof. exact link_mode_relevant_without_injectivity. Qed.
Print Assumptions C11_link_mode_relevant_without_injectivity.

(* honesty: with a prebuilt list object that differs from what the compiler links in, the list mode matters *)
Theorem C11_link_mode_relevant_without_same_lists :
  exists p r s, In r (p_modules p) /\ NoDup (flat_map defs (p_main p :: p_imports p ++ [p_lists_src p])) /\
                NoDup (flat_map defs (p_main p :: p_imports p ++ [p_lists_obj p])) /\
                resolve (MLinked, LLinked) p r s <> resolve (MLinked, LExternal) p r s.
Proof. exact link_mode_relevant_without_same_lists. Qed.
Print Assumptions C11_link_mode_relevant_without_same_lists.

(* the optimisation level: run_copy is what -O 0 / -O 1 emit (every value parameter is a fresh copy), run_elide what
   -O 2 emits (copies of parameters the analysis judges constant are elided when the argument is a local variable
   nothing else can reach during the call, compiler.go VisitFuncCall/mayElideArgCopy, exitFuncScope).
   "-O 2 behaves like -O 0/-O 1" was FALSE on the pinned tree (checks/c11.py rediscovered the C08 witnesses);
   after the repair 91b5d4a the former witnesses agree in both modes ... *)
Theorem C11_O2_former_witnesses_agree :
  run_elide 50 w_same_var = run_copy 50 w_same_var /\
  run_elide 50 w_same_var_inplace = run_copy 50 w_same_var_inplace /\
  run_elide 50 w_global = run_copy 50 w_global /\
  run_elide 50 w_recursion = run_copy 50 w_recursion.
Proof. exact former_witnesses_agree. Qed.
Print Assumptions C11_O2_former_witnesses_agree.

(* ... and the two modes agree for every program that satisfies the decidable side condition `elide_safe` of Lower/Opt2Safe.v
   (consistent analysis table; no elided argument can be the storage of a Referenz argument of the same call that
   the callee may write, nor a global the callee or its callees may write): for those the compiler's own -O 2
   transformation preserves the behaviour of -O 0 / -O 1 for every fuel. *)
Theorem C11_O2_elision_sound_partial :
  forall fuel p, elide_safe p = true -> run_elide fuel p = run_copy fuel p.
Proof. exact elision_sound_partial. Qed.
Print Assumptions C11_O2_elision_sound_partial.

(* FULL: for the repaired compiler the compiler's own -O 2 transformation never changes the behaviour of
   -O 0 / -O 1, for every program and every fuel (proved in Lower/Opt2Full.v; see Props/C08.v). *)
Theorem C11_O2_elision_sound :
  forall fuel p, run_elide fuel p = run_copy fuel p.
Proof. exact elision_sound. Qed.
Print Assumptions C11_O2_elision_sound.
